import SciVerif.Generated.C09Tables
import SciVerif.Lemmas.C09b

/-!
Facts about the regenerated real tables (C09): the hypothesis of the C09 theorems holds for the
tables the library actually starts with, so the theorems apply to them.
-/
namespace SciVerif.C09

/-- The live `UNIT_STANDARD` satisfies the ParameterTable invariant (`_keys` = dict key order). -/
theorem C09_real_tables_wf : WF realG := by
  unfold WF realG
  decide

/-- Restoration, instantiated at the real tables: every program leaves them exactly as found. -/
theorem C09_restored_real (p : Prog) : (run p realG).1 = realG :=
  (run_restored p realG C09_real_tables_wf).1

end SciVerif.C09
