import SciVerif.Generated.C03Tables

/-! C03 table fact `factF7`, decided by the kernel over the whole regenerated table
    (cached by lake until `Generated/C03Tables.lean` or `Model/C03Base.lean` changes). -/
namespace SciVerif.C03.Facts
open SciVerif.C03

theorem C03_fact_F7 : factF7 Gen.tables = true := by decide +kernel

end SciVerif.C03.Facts
