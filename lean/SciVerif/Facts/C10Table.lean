import SciVerif.Lemmas.C10b

/-!
# C10 — facts about the regenerated periodic table (whole table, `decide +kernel`)

Re-checked by the build whenever `Generated/C10Tables.lean` changes.
-/
namespace SciVerif.C10.Facts
open SciVerif.C10

/-- symbols pairwise distinct; per element: at least one isotope, mass numbers pairwise distinct,
    non-zero and not below the proton number -/
def wfBool (tbl : List (List Char × Nat × List (Nat × (Int × Nat) × (Int × Nat)))) : Bool :=
  decide (tbl.map (·.1)).Nodup &&
  tbl.all fun e =>
    !e.2.2.isEmpty && decide (e.2.2.map (·.1)).Nodup &&
    e.2.2.all fun i => decide (i.1 ≠ 0) && decide (e.2.1 ≤ i.1) && decide (i.2.1.2 ≠ 0) && decide (i.2.2.2 ≠ 0)

theorem table_raw_wellformed : wfBool Gen.table = true := by decide +kernel

theorem syms_eq : liveTable.map (·.sym) = Gen.table.map (·.1) := by
  simp [liveTable, List.map_map, Function.comp_def]

/-- the live table is well formed in the sense of the lookup lemmas -/
theorem table_wellformed : TableWF liveTable := by
  have h := table_raw_wellformed
  simp only [wfBool, Bool.and_eq_true, decide_eq_true_eq, List.all_eq_true] at h
  refine ⟨by rw [syms_eq]; exact h.1, ?_⟩
  intro el hel
  simp only [liveTable, List.mem_map] at hel
  obtain ⟨raw, hraw, rfl⟩ := hel
  have := (h.2 raw hraw).1.2
  simpa [List.map_map, Function.comp_def] using this

/-- every tabulated isotope has a non-zero mass number not below Z, and every element has isotopes -/
theorem table_isotopes_found : ∀ el ∈ liveTable, el.isos ≠ [] ∧ ∀ i ∈ el.isos, i.A ≠ 0 ∧ el.Z ≤ i.A := by
  have h := table_raw_wellformed
  simp only [wfBool, Bool.and_eq_true, decide_eq_true_eq, List.all_eq_true] at h
  intro el hel
  simp only [liveTable, List.mem_map] at hel
  obtain ⟨raw, hraw, rfl⟩ := hel
  have hr := h.2 raw hraw
  refine ⟨?_, ?_⟩
  · have := hr.1.1
    simpa using this
  · intro i hi
    simp only [List.mem_map] at hi
    obtain ⟨ri, hri, rfl⟩ := hi
    have := hr.2 ri hri
    exact ⟨this.1.1.1, this.1.1.2⟩

end SciVerif.C10.Facts
