import SciVerif.Generated.C03Tables

/-! C03 table fact `factPrefShape` (well-formedness of the `prefixes` column), decided by the kernel
    over the whole regenerated table. -/
namespace SciVerif.C03.Facts
open SciVerif.C03

theorem C03_fact_prefix_lists_wellformed : factPrefShape Gen.tables = true := by decide +kernel

end SciVerif.C03.Facts
