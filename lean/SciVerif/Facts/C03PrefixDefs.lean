import SciVerif.Generated.C03Tables
import SciVerif.Model.C03

/-! C03 table fact: every prefix magnitude is the value of its own definition text (`1e3` …),
    read with the model's number-literal reader; decided by the kernel over the regenerated table. -/
namespace SciVerif.C03.Facts
open SciVerif.C03

def prefixDefsOk (T : Tables) : Bool :=
  T.prefixes.all (fun p => (numberParts p.defn).bind floatOfParts == some p.mag)

theorem C03_fact_prefix_definitions : prefixDefsOk Gen.tables = true := by decide +kernel

end SciVerif.C03.Facts
