import SciVerif.Lemmas.C01f
import SciVerif.Generated.C01Tables

/-!
# Facts about the regenerated operator table that the tokenizer proof rests on
  (each decided by the kernel over `Generated/C01Tables.lean`).
-/
namespace SciVerif.C01
open SciVerif.C01.Gen

/-- a character of a literal or a blank -/
def plain (c : Char) : Bool := isDigit c || c == '.' || c == ' '

/-- the symbol does not start with a literal character or a blank, and if it starts with `e`
    its second character is not a digit (so it cannot start inside `1e5`) -/
def symStartOK (r : OpRow) : Bool :=
  match r.symbol with
  | [] => false
  | c :: cs => !plain c && (c != 'e' || (match cs with | [] => false | d :: _ => !isDigit d))

/-- The row called `name` has symbol `sym` and parenthesis spec `par`; no EARLIER row's symbol is a
    prefix of `sym`; and the only way an earlier row can win at a position where `sym` stands is
    that the text continues with `*` or `=` (`**` before `*`, `!=` before `!`, `<=`/`>=` before
    `<`/`>`). -/
def rowFact (tbl : Table) (name : String) (sym : List Char) (par : Option ParSpec) : Bool :=
  match tbl.rows[idxOf tbl name]? with
  | some row =>
      row.symbol == sym && row.par == par &&
      earlierOK (tbl.rows.take (idxOf tbl name)) sym &&
      (clashChars (tbl.rows.take (idxOf tbl name)) sym).all (fun c => c == '*' || c == '=')
  | none => false

/-- F1: no operator symbol starts with a literal character or a blank -/
theorem fact_sym_start : dflt.rows.all symStartOK = true := by decide

/-- F2: every binary operator symbol is found first at its position -/
theorem fact_binary (o : B2) : rowFact dflt o.name o.sym none = true := by
  cases o <;> decide

/-- F3: the sign and `!` symbols -/
theorem fact_sign (s : Bool) :
    rowFact dflt (if s then "sub" else "add") (if s then ['-'] else ['+']) none = true := by
  cases s <;> decide

theorem fact_not : rowFact dflt "not" ['!'] none = true := by decide

/-- F4: every call symbol is found first at its position (in particular before `(`), scans its
    arguments with `(` `,` `)` and has the arity of the specification -/
theorem fact_fn1 (f : F1) : rowFact dflt f.name f.sym (some (stdPar 1)) = true := by
  cases f <;> decide

theorem fact_fn2 (g : F2) : rowFact dflt g.name g.sym (some (stdPar 2)) = true := by
  cases g <;> decide

end SciVerif.C01

namespace SciVerif.C01
open SciVerif.C01.Gen

/-- F5: no earlier symbol continues a call symbol, whatever follows it -/
theorem fact_fn1_noclash (f : F1) : clashChars (dflt.rows.take (idxOf dflt f.name)) f.sym = [] := by
  cases f <;> decide

theorem fact_fn2_noclash (g : F2) : clashChars (dflt.rows.take (idxOf dflt g.name)) g.sym = [] := by
  cases g <;> decide

end SciVerif.C01
