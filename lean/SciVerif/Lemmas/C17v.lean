import SciVerif.Lemmas.C17u

/-! Refinement (C17), part 5: imports (`{?*}`, `{?p.*}`, `{?p}`; bare and prefixed line). -/
namespace SciVerif.C17

/-! ### more on names and paths -/

theorem joinDot_append (a b : List Str) (ha : a ≠ []) (hb : b ≠ []) :
    joinDot (a ++ b) = joinDot a ++ '.' :: joinDot b := by
  induction a with
  | nil => exact absurd rfl ha
  | cons x t ih =>
    cases t with
    | nil =>
      cases b with
      | nil => exact absurd rfl hb
      | cons y r => simp [joinDot]
    | cons x2 t2 =>
      have := ih (by simp)
      rw [List.cons_append] at this
      simp only [List.cons_append, joinDot]
      rw [this]
      simp only [List.append_assoc, List.cons_append]

theorem splitDot_join_append (d : List Str) (hd : WFPath d) (s : Str) :
    splitDot (joinDot d ++ '.' :: s) = d ++ splitDot s := by
  obtain ⟨hne, hdot⟩ := hd
  induction d with
  | nil => exact absurd rfl hne
  | cons a t ih =>
    cases t with
    | nil => simp [joinDot, splitDot_append a s (hdot a (by simp))]
    | cons b t' =>
      have := ih (by simp) (fun c hc => hdot c (by simp [hc]))
      simp only [joinDot, List.append_assoc, List.cons_append]
      rw [splitDot_append a _ (hdot a (by simp))]
      rw [this]
      simp

/-- `{?p.*}`: the string test `name.startswith(p + '.')` is the path test "strict descendant of p",
    and stripping the prefix strips the path -/
theorem children_match (p : List Str) (hp : WFPath p) (s : Str) :
    ((joinDot p ++ ['.']).isPrefixOf s = true ↔
      (p.isPrefixOf (splitDot s) = true ∧ p.length < (splitDot s).length)) ∧
    ((joinDot p ++ ['.']).isPrefixOf s = true →
      splitDot (s.drop (joinDot p ++ ['.']).length) = (splitDot s).drop p.length) := by
  have key : ∀ t, s = (joinDot p ++ ['.']) ++ t → splitDot s = p ++ splitDot t := by
    intro t ht
    rw [ht]
    have : (joinDot p ++ ['.']) ++ t = joinDot p ++ '.' :: t := by simp
    rw [this, splitDot_join_append p hp]
  refine ⟨⟨?_, ?_⟩, ?_⟩
  · intro h
    obtain ⟨t, ht⟩ := List.isPrefixOf_iff_prefix.mp h
    have hs := key t ht.symm
    rw [hs]
    refine ⟨List.isPrefixOf_iff_prefix.mpr (List.prefix_append _ _), ?_⟩
    simp only [List.length_append]
    have : 0 < (splitDot t).length := by
      cases hh : splitDot t with
      | nil => exact absurd hh (splitDot_ne_nil t)
      | cons a r => simp
    omega
  · rintro ⟨h1, h2⟩
    obtain ⟨r, hr⟩ := List.isPrefixOf_iff_prefix.mp h1
    have hrne : r ≠ [] := by
      intro e
      rw [e, List.append_nil] at hr
      rw [← hr] at h2
      omega
    have : s = joinDot p ++ '.' :: joinDot r := by
      rw [← joinDot_splitDot s, ← hr, joinDot_append p r hp.1 hrne]
    rw [this]
    apply List.isPrefixOf_iff_prefix.mpr
    exact ⟨joinDot r, by simp⟩
  · intro h
    obtain ⟨t, ht⟩ := List.isPrefixOf_iff_prefix.mp h
    have hs := key t ht.symm
    rw [hs, ← ht, List.drop_left, List.drop_left]

theorem splitDot_lastComp (s : Str) :
    splitDot (lastComp s) = (splitDot s).drop ((splitDot s).length - 1) := by
  have hwf := wf_splitDot s
  obtain ⟨init, c, hq⟩ : ∃ init c, splitDot s = init ++ [c] :=
    ⟨_, _, (List.dropLast_concat_getLast hwf.1).symm⟩
  have hc : '.' ∉ c := hwf.2 c (by rw [hq]; simp)
  have hs : s = joinDot (init ++ [c]) := by rw [← hq, joinDot_splitDot]
  rw [hq]
  simp only [List.length_append, List.length_singleton, Nat.add_sub_cancel, List.drop_left]
  by_cases hi : init = []
  · subst hi
    simp only [List.nil_append, joinDot] at hs
    rw [hs, lastComp_nodot _ hc, splitDot_nodot _ hc]
  · rw [joinDot_append init [c] hi (by simp)] at hs
    simp only [joinDot] at hs
    rw [hs, lastComp_append _ _ hc, splitDot_nodot _ hc]

/-! ### the import line and its requests -/

theorem parse_render (q : SQuery) (h : WFQ q) : parseQuery (renderQ q) = toQuery q ∧ '?' ∉ renderQ q := by
  cases q with
  | all => simp [renderQ, toQuery, parseQuery]
  | children p => exact ⟨parseQuery_children (joinDot p), by simp [renderQ, h.2]⟩
  | exact p =>
    obtain ⟨_, h1, h2, h3⟩ := h
    exact ⟨by simp [renderQ, toQuery, parseQuery, h1, h2], h3⟩

theorem splitDot_impName (dest : List Str) (hd : WFDest dest) (nm : Str) :
    splitDot (impName dest nm) = dest ++ splitDot nm := by
  cases dest with
  | nil => simp [impName]
  | cons d ds => exact splitDot_join_append (d :: ds) ⟨by simp, hd⟩ nm

theorem importName_impLine (dest : List Str) (ref nm : Str) (hd : '{' ∉ joinDot dest) (hr : '{' ∉ ref) :
    importName (impLineName dest ref) nm = impName dest nm := by
  cases dest with
  | nil => exact importName_bare ref nm hr
  | cons d ds => exact importName_prefixed (joinDot (d :: ds)) ref nm hd hr

/-- the copy `ImportNode.parse` hands to the main loop -/
def mkCopy (imp : Node) (n : Node) : Node :=
  { n with name := importName imp.name n.name, indent := imp.indent, imported := true,
           raw := rawValue n, ref := none }

/-! ### selection agreement -/

theorem matches_abs (q : SQuery) (hq : WFQ q) (n : Node) :
    sMatches q (absN n) = qMatches (toQuery q) n := by
  cases q with
  | all => rfl
  | children p =>
    have := (children_match p hq.1 n.name).1
    simp only [sMatches, toQuery, qMatches, absN]
    by_cases h : (joinDot p ++ ['.']).isPrefixOf n.name = true
    · obtain ⟨h1, h2⟩ := this.mp h
      simp [h, h1, h2]
    · have hn : ¬ (p.isPrefixOf (splitDot n.name) = true ∧ p.length < (splitDot n.name).length) :=
        fun e => h (this.mpr e)
      have hf : (joinDot p ++ ['.']).isPrefixOf n.name = false := Bool.eq_false_iff.mpr h
      rw [hf]
      by_cases h1 : p.isPrefixOf (splitDot n.name) = true
      · have : ¬ p.length < (splitDot n.name).length := fun e => hn ⟨h1, e⟩
        simp [h1, this]
      · simp [h1]
  | exact p =>
    simp only [sMatches, toQuery, qMatches, absN]
    by_cases h : n.name = joinDot p
    · simp [h, splitDot_joinDot p hq.1]
    · have : splitDot n.name ≠ p := by
        intro e; apply h; rw [← e, joinDot_splitDot]
      simp [h, this]

theorem reroot_abs (q : SQuery) (hq : WFQ q) (dest : List Str) (hd : WFDest dest) (imp n : Node)
    (hname : ∀ nm, importName imp.name nm = impName dest nm)
    (hm : qMatches (toQuery q) n = true) :
    absN (mkCopy imp (qRename (toQuery q) n)) = sReroot dest q (absN n) := by
  have hpath : splitDot (importName imp.name (qRename (toQuery q) n).name) = (sReroot dest q (absN n)).path := by
    rw [hname, splitDot_impName dest hd]
    cases q with
    | all => simp [toQuery, qRename, sReroot, absN]
    | children p =>
      simp only [toQuery, qMatches] at hm
      have := (children_match p hq.1 n.name).2 hm
      simp only [toQuery, qRename, sReroot, absN, this]
    | exact p =>
      simp only [toQuery, qRename, sReroot, absN, splitDot_lastComp]
  cases q <;> simp_all [absN, mkCopy, qRename, toQuery, sReroot]

theorem select_abs (q : SQuery) (hq : WFQ q) (ns : List Node) :
    select q (ns.map absN) = (ns.filter (qMatches (toQuery q))).map absN := by
  unfold select
  rw [List.filter_map]
  congr 1
  apply List.filter_congr
  intro n _
  simp [Function.comp, matches_abs q hq n]

/-- the nodes an import hands over, abstracted, are the specification's selection re-rooted -/
theorem import_sel_abs (q : SQuery) (hq : WFQ q) (dest : List Str) (hd : WFDest dest) (imp : Node)
    (hname : ∀ nm, importName imp.name nm = impName dest nm) (ns : List Node) :
    ((query ns (toQuery q)).map (mkCopy imp)).map absN =
      (select q (ns.map absN)).map (sReroot dest q) := by
  rw [select_abs q hq ns]
  simp only [query, List.map_map]
  apply List.map_congr_left
  intro n hn
  have hm := (List.mem_filter.mp hn).2
  simp only [Function.comp]
  exact reroot_abs q hq dest hd imp n hname hm

/-! ### the main loop on imported copies -/

/-- a copy as `ImportNode.parse` hands it over: indent 0, stored-node invariant, raw = value -/
def CopyOK (tbl : UnitTable) (c : Node) : Prop := c.indent = 0 ∧ Good tbl c ∧ c.raw = c.value

theorem processNode_copy (tbl : UnitTable) (env : Env) (c : Node) (hc : CopyOK tbl c)
    (hfresh : ∀ t ∈ env.nodes, t.name ≠ c.name) :
    processNode tbl env c = .ok { env with parents := [(0, c.name)], nodes := env.nodes ++ [c] } := by
  obtain ⟨hi, ⟨hk, ⟨v, hv, hcf⟩, hsl, hu, hint⟩, hraw⟩ := hc
  have hg : c.kw ≠ .group := by intro e; rw [e] at hk; simp [isTyped] at hk
  have hm : c.kw ≠ .mod := by intro e; rw [e] at hk; simp [isTyped] at hk
  have hcv : castValue c v = some v := by rw [castValue_eq_conforms c v hsl hk]; exact hcf
  have hsv : setValue c = .ok c := by
    have hr : c.raw = some v := by rw [hraw, hv]
    unfold setValue
    simp only [hr, hm, if_false, hv, hcv]
    congr 1
    cases c
    simp_all
  unfold processNode
  rw [unitCheck_ok tbl c hk hu]
  simp only [register_zero env.parents c hi, hg, if_false, hsv]
  rw [modifyFirst_none tbl c env.nodes (fun t ht => hfresh t ht)]
  simp [hm]

theorem fold_copies (tbl : UnitTable) (cs : List Node) (env : Env)
    (hok : ∀ c ∈ cs, CopyOK tbl c) (hnd : (cs.map (·.name)).Nodup)
    (hfresh : ∀ c ∈ cs, ∀ t ∈ env.nodes, t.name ≠ c.name) :
    ∃ env', cs.foldlM (processNode tbl) env = .ok env' ∧ env'.nodes = env.nodes ++ cs ∧
      env'.sources = env.sources ∧ env'.units = env.units := by
  induction cs generalizing env with
  | nil => exact ⟨env, rfl, by simp, rfl, rfl⟩
  | cons c rest ih =>
    have h1 := processNode_copy tbl env c (hok c (by simp)) (hfresh c (by simp))
    simp only [List.map_cons, List.nodup_cons] at hnd
    obtain ⟨env', hrun, hnodes, hsrc, hun⟩ := ih
      { env with parents := [(0, c.name)], nodes := env.nodes ++ [c] }
      (fun x hx => hok x (by simp [hx])) hnd.2
      (by
        intro x hx t ht
        simp only [List.mem_append, List.mem_singleton] at ht
        rcases ht with ht | rfl
        · exact hfresh x (by simp [hx]) t ht
        · intro e
          exact hnd.1 (by rw [e]; exact List.mem_map_of_mem hx))
    refine ⟨env', ?_, by rw [hnodes]; simp, hsrc, hun⟩
    simp only [List.foldlM_cons, h1, bind, Except.bind]
    exact hrun

end SciVerif.C17
