import SciVerif.Lemmas.C17r

/-! Refinement (C17), part 2: abstraction function, invariant, simulation of the step kinds. -/
namespace SciVerif.C17

/-! ### abstraction -/

/-- the abstract node of a model node -/
def absN (n : Node) : SNode :=
  ⟨splitDot n.name, n.kw, n.dims, n.unitsRaw, n.value, n.constant, n.condition, n.format, n.tags,
   n.options, n.description⟩

/-- invariant on every stored node: typed, holds a value conforming to its type and dimension,
    no pending slice, a unit of the table (none on str/bool), integers dimensionless -/
def Good (tbl : UnitTable) (n : Node) : Prop :=
  isTyped n.kw = true ∧ (∃ v, n.value = some v ∧ conforms n.kw n.dims v = some v) ∧ n.slice = [] ∧
  unitOk tbl n.kw n.unitsRaw = true ∧ (n.kw = .int → n.unitsRaw = none)

def absEnv (env : Env) : SEnv :=
  ⟨env.nodes.map absN, env.sources.map (fun s => (s.1, s.2.map absN)), false, env.units, env.srcUnits⟩

def Inv (tbl : UnitTable) (env : Env) : Prop :=
  (∀ n ∈ env.nodes, Good tbl n) ∧ (∀ s ∈ env.sources, ∀ n ∈ s.2, Good tbl n)

/-! ### small facts about the main loop -/

theorem popParents_zero (ps : List (Nat × Str)) : popParents 0 ps = [] := by
  induction ps with
  | nil => rfl
  | cons p t ih => simp [popParents, ih]

theorem register_zero (ps : List (Nat × Str)) (n : Node) (h : n.indent = 0) :
    register ps n = ([(0, n.name)], n) := by
  cases n
  simp only at h
  subst h
  simp [register, popParents_zero, joinDot]

theorem unitCheck_ok (tbl : UnitTable) (n : Node) (hk : isTyped n.kw = true)
    (h : unitOk tbl n.kw n.unitsRaw = true) : unitCheck tbl n = .ok () := by
  cases n with
  | mk name indent kw dims raw ref slice unitsRaw value defined constant condition format tags options description imported =>
    cases kw <;> cases unitsRaw <;> (try simp_all [unitCheck, unitOk, isNumKw, isTyped])

theorem unitCheck_mod (tbl : UnitTable) (n : Node) (hk : n.kw = .mod) : unitCheck tbl n = .ok () := by
  unfold unitCheck
  rw [hk]

theorem modifyFirst_none (tbl : UnitTable) (m : Node) (ns : List Node)
    (h : ∀ t ∈ ns, t.name ≠ m.name) : modifyFirst tbl m ns = .ok none := by
  induction ns with
  | nil => rfl
  | cons t rest ih =>
    have h1 : t.name ≠ m.name := h t (by simp)
    simp [modifyFirst, h1, ih (fun x hx => h x (by simp [hx]))]

/-- a new typed line at indent 0 whose name is not yet defined: the node is appended with the
    cast value -/
theorem processNode_append (tbl : UnitTable) (env : Env) (n : Node) (r v' : Val)
    (hi : n.indent = 0) (hk : isTyped n.kw = true) (hu : unitOk tbl n.kw n.unitsRaw = true)
    (hraw : n.raw = some r) (hval : n.value = none) (hc : castValue n r = some v')
    (hfresh : ∀ t ∈ env.nodes, t.name ≠ n.name) :
    processNode tbl env n = .ok { env with parents := [(0, n.name)], nodes := env.nodes ++ [{ n with value := some v', slice := [] }] } := by
  have hg : n.kw ≠ .group := by intro e; rw [e] at hk; simp [isTyped] at hk
  have hm : n.kw ≠ .mod := by intro e; rw [e] at hk; simp [isTyped] at hk
  have hsv : setValue n = .ok { n with value := some v', slice := [] } := by
    simp [setValue, hraw, hm, hval, hc]
  unfold processNode
  rw [unitCheck_ok tbl n hk hu]
  simp only [register_zero env.parents n hi, hg, if_false, hsv]
  rw [modifyFirst_none tbl { n with value := some v', slice := [] } env.nodes (fun t ht => hfresh t ht)]
  simp [hm]

/-! ### scaling keeps floats conforming -/

mutual
theorem scale_conf_float (a b : Rat) : ∀ v : Val, castElem .float v = some v →
    castElem .float (affVal a b v) = some (affVal a b v) ∧ shape (affVal a b v) = shape v
  | .num q, _ => by simp [affVal, castElem, castScalar, shape]
  | .bool b, h => by simp [castElem, castScalar] at h
  | .str s, h => by simp [castElem, castScalar, dtypeOf] at h
  | .arr l, h => by
    simp only [castElem] at h
    cases hl : castList .float l with
    | none => simp [hl] at h
    | some l' =>
      simp only [hl, Option.map_some, Option.some.injEq, Val.arr.injEq] at h
      have hl2 : castList .float l = some l := by rw [hl, h]
      obtain ⟨h1, h2, h3⟩ := scale_conf_floatL a b l hl2
      simp [affVal, castElem, h1, shape, h2, h3]
theorem scale_conf_floatL (a b : Rat) : ∀ l : List Val, castList .float l = some l →
    castList .float (affList a b l) = some (affList a b l) ∧ (affList a b l).length = l.length ∧
    shapeHead (affList a b l) = shapeHead l
  | [], _ => by simp [affList, castList, shapeHead]
  | x :: t, h => by
    simp only [castList] at h
    cases hx : castElem .float x with
    | none => simp [hx] at h
    | some a' =>
      cases ht : castList .float t with
      | none => simp [hx, ht] at h
      | some b' =>
        simp only [hx, ht, Option.some.injEq, List.cons.injEq] at h
        obtain ⟨rfl, rfl⟩ := h
        obtain ⟨a1, a2⟩ := scale_conf_float a b a' hx
        obtain ⟨b1, b2, _⟩ := scale_conf_floatL a b b' ht
        simp [affList, castList, a1, b1, b2, shapeHead, a2]
end

theorem conforms_float_scale (dims : List Dim) (a b : Rat) (v : Val)
    (h : conforms .float dims v = some v) : conforms .float dims (affVal a b v) = some (affVal a b v) := by
  rw [conforms_eq] at h ⊢
  by_cases hd : dims.isEmpty = true
  · simp only [hd, if_true] at h ⊢
    cases v <;> simp_all [castScalar, affVal]
  · simp only [hd, Bool.false_eq_true, if_false] at h ⊢
    cases hc : castElem .float v with
    | none => simp [hc] at h
    | some w =>
      simp only [hc, Option.bind] at h
      by_cases hcd : checkDims dims (shape w) = true
      · simp only [hcd, if_true, Option.some.injEq] at h
        subst h
        obtain ⟨h1, h2⟩ := scale_conf_float a b w hc
        simp [h1, Option.bind, h2, hcd]
      · simp [hcd] at h

theorem convertVal_conf (tbl : UnitTable) (k : Kw) (dims : List Dim) (v w : Val) (frm to : Option Str)
    (hk : k = .float ∨ to = none) (hv : conforms k dims v = some v)
    (hc : convertVal tbl v frm to = some w) : conforms k dims w = some w := by
  unfold convertVal at hc
  cases to with
  | none => simp at hc; subst hc; exact hv
  | some t =>
    cases frm with
    | none => simp at hc; subst hc; exact hv
    | some f =>
      simp only at hc
      by_cases hft : f = t
      · simp [hft] at hc; subst hc; exact hv
      · simp only [hft, if_false] at hc
        rcases hk with hk | hk
        · subst hk
          cases h1 : lookupUnit tbl f with
          | none => simp [h1] at hc
          | some a =>
            cases h2 : lookupUnit tbl t with
            | none => simp [h1, h2] at hc
            | some b =>
              simp only [h1, h2] at hc
              split at hc
              · cases hc; exact conforms_float_scale dims _ _ v hv
              · cases hc
        · cases hk

/-! ### modification: the model's first-match loop against the specification's update -/

theorem good_float_or_unitless {tbl : UnitTable} {n : Node} (hg : Good tbl n) (hn : isNumKw n.kw = true) :
    n.kw = .float ∨ n.unitsRaw = none := by
  obtain ⟨hk, _, _, _, hint⟩ := hg
  cases hkw : n.kw <;> rw [hkw] at hn hint <;> simp_all [isNumKw]

theorem modifyValue_abs (tbl : UnitTable) (t m : Node) (r : Val) (s' : SNode)
    (hg : Good tbl t) (hm : m.kw = .mod ∨ dtypeOf m.kw = dtypeOf t.kw) (hr : m.raw = some r)
    (hnc : t.constant = false)
    (h : specModF tbl r m.unitsRaw (absN t) = some s') :
    ∃ t', modifyValue tbl t m = .ok t' ∧ absN t' = s' ∧ Good tbl t' ∧ t'.name = t.name := by
  obtain ⟨hk, ⟨v0, hv0, hcv0⟩, hsl, hun, hint⟩ := hg
  unfold specModF at h
  simp only [absN, hnc, Bool.false_eq_true, if_false] at h
  unfold modifyValue
  have hchk : ¬ (m.kw ≠ .mod ∧ dtypeOf m.kw ≠ dtypeOf t.kw) := by
    rcases hm with e | e <;> simp [e]
  rw [if_neg hchk]
  simp only [hr]
  rw [castValue_eq_conforms t r hsl hk]
  cases hc : conforms t.kw t.dims r with
  | none => simp [hc] at h
  | some v' =>
    simp only [hc] at h ⊢
    obtain ⟨_, hidem⟩ := conforms_conf t.kw t.dims r v' hc
    by_cases hn : isNumKw t.kw = true
    · simp only [hn, if_true] at h ⊢
      by_cases hu : (m.unitsRaw.isSome && t.unitsRaw.isNone) = true
      · simp [hu] at h
      · simp only [hu, Bool.false_eq_true, if_false] at h ⊢
        cases hcv : convertVal tbl v' m.unitsRaw t.unitsRaw with
        | none => simp [hcv] at h
        | some w =>
          simp only [hcv, Option.map_some, Option.some.injEq] at h
          subst h
          refine ⟨_, rfl, by simp [absN, hnc], ?_, rfl⟩
          refine ⟨hk, ⟨w, rfl, ?_⟩, rfl, hun, hint⟩
          exact convertVal_conf tbl t.kw t.dims v' w m.unitsRaw t.unitsRaw
            (good_float_or_unitless ⟨hk, ⟨v0, hv0, hcv0⟩, hsl, hun, hint⟩ hn) hidem hcv
    · simp only [hn, Bool.false_eq_true, if_false] at h ⊢
      by_cases hmu : m.unitsRaw.isSome = true
      · simp [hmu] at h
      · simp only [hmu, Bool.false_eq_true, if_false, Option.some.injEq] at h ⊢
        subst h
        exact ⟨_, rfl, by simp [absN, hnc], ⟨hk, ⟨v', rfl, hidem⟩, rfl, hun, hint⟩, rfl⟩

theorem modifyFirst_abs (tbl : UnitTable) (m : Node) (r : Val) (ns : List Node) (ss' : List SNode)
    (F : SNode → Option SNode)
    (hF : ∀ t ∈ ns, ∀ s', F (absN t) = some s' →
      specModF tbl r m.unitsRaw (absN t) = some s' ∧ (m.kw = .mod ∨ dtypeOf m.kw = dtypeOf t.kw))
    (hg : ∀ n ∈ ns, Good tbl n) (hr : m.raw = some r)
    (h : sUpdate (splitDot m.name) F (ns.map absN) = some ss') :
    ∃ ns', modifyFirst tbl m ns = .ok (some ns') ∧ ns'.map absN = ss' ∧ (∀ n ∈ ns', Good tbl n) := by
  induction ns generalizing ss' with
  | nil => simp [sUpdate] at h
  | cons t rest ih =>
    simp only [List.map_cons, sUpdate] at h
    by_cases hname : t.name = m.name
    · have hp : (absN t).path = splitDot m.name := by simp [absN, hname]
      simp only [hp, if_true] at h
      cases hf0 : F (absN t) with
      | none => simp [hf0] at h
      | some s' =>
        simp only [hf0, Option.map_some, Option.some.injEq] at h
        subst h
        obtain ⟨hf, hm⟩ := hF t (by simp) s' hf0
        have hnc : t.constant = false := by
          cases hc : t.constant with
          | false => rfl
          | true => simp [specModF, absN, hc] at hf
        obtain ⟨t', ht', habs, hgood, _⟩ := modifyValue_abs tbl t m r s' (hg t (by simp)) hm hr hnc hf
        refine ⟨t' :: rest, by simp [modifyFirst, hname, hnc, ht'], by simp [habs], ?_⟩
        intro n hn
        simp only [List.mem_cons] at hn
        rcases hn with rfl | hn
        · exact hgood
        · exact hg n (by simp [hn])
    · have hp : (absN t).path ≠ splitDot m.name := by
        simp only [absN]
        intro e; exact hname (splitDot_inj e)
      simp only [hp, if_false] at h
      cases hrec : sUpdate (splitDot m.name) F (rest.map absN) with
      | none => simp [hrec] at h
      | some rs =>
        simp only [hrec, Option.map_some, Option.some.injEq] at h
        subst h
        obtain ⟨ns', h1, h2, h3⟩ := ih rs (fun t ht => hF t (by simp [ht])) (fun n hn => hg n (by simp [hn])) hrec
        refine ⟨t :: ns', by simp [modifyFirst, hname, h1], by simp [h2], ?_⟩
        intro n hn
        simp only [List.mem_cons] at hn
        rcases hn with rfl | hn
        · exact hg n (by simp)
        · exact h3 n hn

/-- a modification line at indent 0 -/
theorem processNode_mod (tbl : UnitTable) (env : Env) (m : Node) (r : Val) (ns' : List Node)
    (hi : m.indent = 0) (hm : m.kw = .mod) (hr : m.raw = some r)
    (h : modifyFirst tbl { m with value := some r } env.nodes = .ok (some ns')) :
    processNode tbl env m = .ok { env with parents := [(0, m.name)], nodes := ns' } := by
  have hg : m.kw ≠ .group := by rw [hm]; decide
  unfold processNode
  rw [unitCheck_mod tbl m hm]
  simp only [register_zero env.parents m hi, hg, if_false]
  have hsv : setValue m = .ok { m with value := some r } := by simp [setValue, hr, hm]
  simp only [hsv, h]

end SciVerif.C17
