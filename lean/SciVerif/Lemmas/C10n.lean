import SciVerif.Lemmas.C10m

/-! C10: passes 2–4 on resolved chains and the link to parenthesis-free formula ASTs. -/
set_option linter.unusedSimpArgs false
set_option linter.unusedVariables false
namespace SciVerif.C10

/-! ### pass 2 -/

/-- pass 2 with any sufficient fuel -/
def P2 (w tw : Str) : Prop := ∀ fuel, w.length < fuel → pass2 fuel w = tw

theorem P2_nil : P2 [] [] := by
  intro fuel h; cases fuel with
  | zero => simp at h
  | succ n => rfl

theorem P2_inert (c : Char) (r tr : Str) (hc : Inert c) (h : P2 r tr) : P2 (c :: r) (c :: tr) := by
  intro fuel hf
  cases fuel with
  | zero => simp at hf
  | succ n =>
    simp only [List.length_cons] at hf
    simp [pass2, matchP_none c r hc, h n (by omega)]

theorem P2_run (w r tr : Str) (hw : ∀ c ∈ w, Inert c) (h : P2 r tr) : P2 (w ++ r) (w ++ tr) := by
  induction w with
  | nil => exact h
  | cons c t ih => exact P2_inert c _ _ (hw c (by simp)) (ih (fun x hx => hw x (by simp [hx])))

/-- an item in explicit notation: the count written ` * n` -/
def Item.expl (it : Item) : Str := it.sp ++ (if it.dg.isEmpty then [] else symMul ++ it.dg)

theorem P2_item (it : Item) (w tw : Str) (hok : it.OK) (hf : Follow w)
    (hnm : ¬ (it.bare ∧ ∃ c r, w = c :: r ∧ isUp c = true)) (h : P2 w tw) :
    P2 (it.text ++ w) (it.expl ++ tw) := by
  obtain ⟨k, sym, br, hm, _, hsb⟩ := matchP_item it w hok hf hnm
  obtain ⟨c0, tl, htx, _⟩ := item_tail_inert it hok
  intro fuel hfu
  cases fuel with
  | zero => simp at hfu
  | succ n =>
    have hlen : w.length < n := by
      simp only [List.length_append, htx, List.length_cons] at hfu; omega
    rw [htx, List.cons_append] at hm ⊢
    simp only [pass2, hm, h n hlen, Item.expl]
    rw [hsb]

/-- the chain in explicit notation -/
def explChain (it : Item) : Rest → Str
  | [] => it.expl
  | (_, it2) :: t => it.expl ++ symAdd ++ explChain it2 t

theorem follow_symAdd (w : Str) : Follow (symAdd ++ w) := Or.inr ⟨' ', '+' :: ' ' :: w, rfl, Or.inr (Or.inr rfl)⟩

theorem P2_chain (r : Rest) : ∀ (it : Item), it.OK → restOK r →
    P2 (chainText it (allPlus r)) (explChain it r) := by
  induction r with
  | nil =>
    intro it hok _
    have := P2_item it [] [] hok (Or.inl rfl) (by rintro ⟨_, c, r, e, _⟩; cases e) P2_nil
    simpa [chainText, allPlus, explChain] using this
  | cons gi t ih =>
    intro it hok hr
    obtain ⟨g, it2⟩ := gi
    have hok2 : it2.OK := hr (g, it2) (by simp)
    have hr2 : restOK t := fun x hx => hr x (by simp [hx])
    have h2 := P2_run symAdd _ _ inert_symAdd (ih it2 hok2 hr2)
    have := P2_item it _ _ hok (follow_symAdd _) (by
      rintro ⟨_, c, r, e, hc⟩
      simp only [symAdd, List.cons_append, List.cons.injEq] at e
      rw [← e.1] at hc; exact absurd hc (by decide)) h2
    simpa [chainText, allPlus, explChain, Gap.text, List.append_assoc] using this

/-! ### passes 3 and 4 do nothing without parentheses -/

theorem pass3_noparen (w : Str) : ∀ fuel, (∀ c ∈ w, c ≠ '(') → pass3 fuel w = w := by
  induction w with
  | nil => intro fuel _; cases fuel <;> rfl
  | cons c r ih =>
    intro fuel h
    cases fuel with
    | zero => rfl
    | succ n =>
      simp only [pass3, List.span_eq_takeWhile_dropWhile]
      split
      · rename_i r3 heq
        have hmem : '(' ∈ List.dropWhile isWs (List.dropWhile notSpec3 (c :: r)) := by rw [heq]; simp
        have h1 := (List.dropWhile_sublist isWs).subset hmem
        have h2 := (List.dropWhile_sublist notSpec3).subset h1
        exact absurd rfl (h '(' h2)
      · rw [ih n (fun x hx => h x (by simp [hx]))]

theorem pass4_noparen (w : Str) : ∀ fuel, (∀ c ∈ w, c ≠ ')') → pass4 fuel w = w := by
  induction w with
  | nil => intro fuel _; cases fuel <;> rfl
  | cons c r ih =>
    intro fuel h
    cases fuel with
    | zero => rfl
    | succ n =>
      have hc := h c (by simp)
      simp [pass4, hc, ih n (fun x hx => h x (by simp [hx]))]

theorem item_expl_noparen (it : Item) (hok : it.OK) : ∀ c ∈ it.expl, c ≠ '(' ∧ c ≠ ')' := by
  obtain ⟨_, hp, _, _⟩ := speciesText_of_shape it.sp hok.1
  intro c hc
  simp only [Item.expl, List.mem_append] at hc
  rcases hc with h | h
  · exact ⟨(hp c h).1, (hp c h).2.1⟩
  · by_cases he : it.dg.isEmpty = true
    · simp [he] at h
    · simp only [he, Bool.false_eq_true, if_false, List.mem_append] at h
      rcases h with h | h
      · have : ∀ c ∈ symMul, c ≠ '(' ∧ c ≠ ')' := by decide
        exact this c h
      · have := word_plain c (Or.inr (Or.inr (dig_range c (hok.2 c h))))
        exact ⟨this.1.1, this.1.2.1⟩

theorem explChain_noparen (r : Rest) : ∀ (it : Item), it.OK → restOK r →
    ∀ c ∈ explChain it r, c ≠ '(' ∧ c ≠ ')' := by
  induction r with
  | nil => intro it hok _; exact item_expl_noparen it hok
  | cons gi t ih =>
    intro it hok hr c hc
    obtain ⟨g, it2⟩ := gi
    simp only [explChain, List.mem_append] at hc
    rcases hc with (h | h) | h
    · exact item_expl_noparen it hok c h
    · have : ∀ c ∈ symAdd, c ≠ '(' ∧ c ≠ ')' := by decide
      exact this c h
    · exact ih it2 (hr (g, it2) (by simp)) (fun x hx => hr x (by simp [hx])) c h

theorem unres_le (r : Rest) (it : Item) : unres r ≤ r.length := by
  induction r generalizing it with
  | nil => simp [unres]
  | cons gi t ih =>
    obtain ⟨g, it2⟩ := gi
    cases g <;> simp only [unres, List.length_cons] <;> have := ih it2 <;> omega

theorem length_le_chainText (r : Rest) : ∀ (it : Item), it.OK → restOK r → r.length ≤ (chainText it r).length := by
  induction r with
  | nil => intro it _ _; simp
  | cons gi t ih =>
    intro it hok hr
    obtain ⟨g, it2⟩ := gi
    obtain ⟨c0, tl, htx, _⟩ := item_tail_inert it hok
    have := ih it2 (hr (g, it2) (by simp)) (fun x hx => hr x (by simp [hx]))
    simp only [chainText, List.length_append, htx, List.length_cons]
    omega

/-- `preprocess` on a chain of items with blanks / ` + ` between them -/
theorem preprocess_chain (it : Item) (r : Rest) (hok : it.OK) (hr : restOK r) :
    preprocess (chainText it r) = explChain it r := by
  have h1 : pass1 (2 * (chainText it r).length + 2) (chainText it r) = chainText it (allPlus r) :=
    pass1_chain (unres r) it r _ hok hr rfl (by
      have := unres_le r it
      have := length_le_chainText r it hok hr
      omega)
  have hnp := explChain_noparen r it hok hr
  simp only [preprocess, h1]
  rw [P2_chain r it hok hr _ (by omega), pass3_noparen _ _ (fun c hc => (hnp c hc).1),
    pass4_noparen _ _ (fun c hc => (hnp c hc).2)]

/-! ### parenthesis-free formulas -/

/-- species, species with a count, juxtaposition (any blanks) and explicit ` + ` -/
def F.flat : F → Prop
  | .sp _ => True
  | .count (.sp _) _ => True
  | .seq _ a b => a.flat ∧ b.flat
  | .plus a b => a.flat ∧ b.flat
  | _ => False

def toChain : F → Item × Rest
  | .sp s => (⟨s, []⟩, [])
  | .count (.sp s) n => (⟨s, digitsOf n⟩, [])
  | .seq ws a b => ((toChain a).1, (toChain a).2 ++ (Gap.blanks ws, (toChain b).1) :: (toChain b).2)
  | .plus a b => ((toChain a).1, (toChain a).2 ++ (Gap.plus, (toChain b).1) :: (toChain b).2)
  | _ => (⟨[], []⟩, [])

theorem chainText_append (ra : Rest) : ∀ (it : Item) (g : Gap) (ib : Item) (rb : Rest),
    chainText it (ra ++ (g, ib) :: rb) = chainText it ra ++ g.text ++ chainText ib rb := by
  induction ra with
  | nil => intro it g ib rb; simp [chainText]
  | cons x t ih => intro it g ib rb; obtain ⟨g', it'⟩ := x; simp [chainText, ih, List.append_assoc]

theorem explChain_append (ra : Rest) : ∀ (it : Item) (g : Gap) (ib : Item) (rb : Rest),
    explChain it (ra ++ (g, ib) :: rb) = explChain it ra ++ symAdd ++ explChain ib rb := by
  induction ra with
  | nil => intro it g ib rb; simp [explChain]
  | cons x t ih => intro it g ib rb; obtain ⟨g', it'⟩ := x; simp [explChain, ih, List.append_assoc]

theorem allDig_digitsOf (n : Nat) : AllDig (digitsOf n) := fun c hc => (digitsOf_all n c hc).1

theorem toChain_spec (f : F) (hf : f.flat) (hs : f.spAll SpeciesShape) :
    render f = chainText (toChain f).1 (toChain f).2 ∧
    renderExplicit f = explChain (toChain f).1 (toChain f).2 ∧
    (toChain f).1.OK ∧ restOK (toChain f).2 := by
  induction f with
  | sp s =>
    exact ⟨by simp [toChain, chainText, render, Item.text], by simp [toChain, explChain, renderExplicit, Item.expl],
      ⟨hs, by intro c hc; cases hc⟩, by intro x hx; cases hx⟩
  | count g n ih =>
    cases g with
    | sp s =>
      have hne : (digitsOf n).isEmpty = false := by
        cases h : digitsOf n with
        | nil => exact absurd h (digitsOf_ne_nil n)
        | cons a t => rfl
      exact ⟨by simp [toChain, chainText, render, Item.text],
        by simp [toChain, explChain, renderExplicit, Item.expl, hne],
        ⟨hs, allDig_digitsOf n⟩, by intro x hx; cases hx⟩
    | _ => exact absurd hf (by simp [F.flat])
  | mulx g n ih => exact absurd hf (by simp [F.flat])
  | group g ih => exact absurd hf (by simp [F.flat])
  | seq ws a b iha ihb =>
    obtain ⟨a1, a2, a3, a4⟩ := iha hf.1 hs.1
    obtain ⟨b1, b2, b3, b4⟩ := ihb hf.2 hs.2
    refine ⟨?_, ?_, a3, ?_⟩
    · simp only [toChain, render, chainText_append, Gap.text, a1, b1]
    · simp only [toChain, renderExplicit, explChain_append, a2, b2]
    · intro x hx
      simp only [toChain, List.mem_append, List.mem_cons] at hx
      rcases hx with h | rfl | h
      · exact a4 x h
      · exact b3
      · exact b4 x h
  | plus a b iha ihb =>
    obtain ⟨a1, a2, a3, a4⟩ := iha hf.1 hs.1
    obtain ⟨b1, b2, b3, b4⟩ := ihb hf.2 hs.2
    refine ⟨?_, ?_, a3, ?_⟩
    · simp only [toChain, render, chainText_append, Gap.text, a1, b1]
    · simp only [toChain, renderExplicit, explChain_append, a2, b2]
    · intro x hx
      simp only [toChain, List.mem_append, List.mem_cons] at hx
      rcases hx with h | rfl | h
      · exact a4 x h
      · exact b3
      · exact b4 x h

/-- `preprocess` turns the short notation of every parenthesis-free formula into its explicit text -/
theorem preprocess_flat (f : F) (hf : f.flat) (hs : f.spAll SpeciesShape) :
    preprocess (render f) = renderExplicit f := by
  obtain ⟨h1, h2, h3, h4⟩ := toChain_spec f hf hs
  rw [h1, h2]
  exact preprocess_chain _ _ h3 h4

theorem flat_factorOK (f : F) (hf : f.flat) : f.factorOK := by
  induction f with
  | sp s => trivial
  | count g n ih =>
    cases g with
    | sp s => trivial
    | _ => exact absurd hf (by simp [F.flat])
  | mulx g n ih => exact absurd hf (by simp [F.flat])
  | group g ih => exact absurd hf (by simp [F.flat])
  | seq ws a b iha ihb => exact ⟨iha hf.1, ihb hf.2⟩
  | plus a b iha ihb => exact ⟨iha hf.1, ihb hf.2⟩

theorem render_flat_ne_nil (f : F) (hf : f.flat) (hs : f.spAll SpeciesShape) : render f ≠ [] := by
  obtain ⟨h1, _, h3, _⟩ := toChain_spec f hf hs
  obtain ⟨c, t, e, _⟩ := chainText_head (toChain f).1 (toChain f).2 h3
  rw [h1, e]; simp

end SciVerif.C10
