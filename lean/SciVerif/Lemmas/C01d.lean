import SciVerif.Lemmas.C01b
import SciVerif.Lemmas.C01c

/-!
# C01 helper lemmas, part 4: the step loop of `solve` as a composition of passes.
-/
namespace SciVerif.C01
open SciVerif.C01.Gen

variable {A : Type}

/-- the step loop on resolved steps -/
def runResolved (tbl : Table) (alg : AtomAlg A) : List (List Nat × Otype) → Bufs A → M A (Bufs A)
  | [], b => .ok b
  | r :: rs, b =>
      if r.1.isEmpty then runResolved tbl alg rs b
      else match operate tbl alg r.1 r.2 b with
        | .ok b' => runResolved tbl alg rs b'
        | .error e => .error e

theorem runSteps_resolved (tbl : Table) (alg : AtomAlg A) (steps : List (List String × Otype))
    (b : Bufs A) : runSteps tbl alg steps b = runResolved tbl alg (steps.map (resolveStep tbl)) b := by
  induction steps generalizing b with
  | nil => rfl
  | cons s ss ih =>
    simp only [runSteps, List.map_cons, runResolved]
    split
    · exact ih b
    · cases operate tbl alg (resolveStep tbl s).1 (resolveStep tbl s).2 b with
      | ok b' => exact ih b'
      | error e => rfl

/-- one pass of the step loop, from the iteration count of the pass lemmas -/
theorem pass_of_steps (alg : AtomAlg A) (lit : List Char → A) (P : List Nat) (ot : Otype)
    (k : Nat) (e : E)
    (h : ∃ c, c ≤ (flat alg lit k e).length ∧
      StepsTo (step dflt alg P ot) c ⟨[], flat alg lit k e ++ []⟩
        ⟨(flat alg lit (k + 1) e).reverse ++ [], []⟩) :
    operate dflt alg P ot ⟨[], flat alg lit k e⟩ = .ok ⟨[], flat alg lit (k + 1) e⟩ := by
  obtain ⟨c, hc, st⟩ := h
  exact operate_of_steps dflt alg P ot _ _ c hc (by simpa using st)

/-- the nine passes over the token list of a well-formed expression leave its value -/
theorem tokens_eq_eval (alg : AtomAlg A) (lit : List Char → A) (hn : NegNeg alg)
    (e : E) (hwf : e.WF) :
    solveToks dflt alg dfltSteps (toks dflt alg lit e) = .ok (.atom (eval alg lit e)) := by
  have p0 := pass_of_steps alg lit P0 .args 0 e (args_pass alg lit e [] [])
  have p1 := pass_of_steps alg lit P1 .unary 1 e (sign_pass alg lit hn e hwf [] [] (fun _ => trivial))
  have p2 := pass_of_steps alg lit [10] .binary 2 e (binary_pass alg lit [10] 2 binPass2 e hwf [] [])
  have p3 := pass_of_steps alg lit [11, 12] .binary 3 e (binary_pass alg lit _ 3 binPass3 e hwf [] [])
  have p4 := pass_of_steps alg lit [13, 14] .binary 4 e (binary_pass alg lit _ 4 binPass4 e hwf [] [])
  have p5 := pass_of_steps alg lit [15, 16, 18, 19, 20, 21] .binary 5 e
    (binary_pass alg lit _ 5 binPass5 e hwf [] [])
  have p6 := pass_of_steps alg lit [17] .unary 6 e (not_pass alg lit e hwf [] [])
  have p7 := pass_of_steps alg lit [22] .binary 7 e (binary_pass alg lit _ 7 binPass7 e hwf [] [])
  have p8 := pass_of_steps alg lit [23] .binary 8 e (binary_pass alg lit _ 8 binPass8 e hwf [] [])
  unfold solveToks
  rw [runSteps_resolved, resolve_steps, ← flat_zero]
  simp only [runResolved, List.isEmpty_cons, Bool.false_eq_true, if_false, P0, P1] at *
  rw [p0]; simp only []
  rw [p1]; simp only []
  rw [p2]; simp only []
  rw [p3]; simp only []
  rw [p4]; simp only []
  rw [p5]; simp only []
  rw [p6]; simp only []
  rw [p7]; simp only []
  rw [p8]; simp only []
  rw [flat_nine]
  rfl

end SciVerif.C01
