import SciVerif.Lemmas.C01b
import SciVerif.Lemmas.C01c

/-!
# C01 helper lemmas, part 4: the step loop of `solve` as a composition of passes.
-/
namespace SciVerif.C01
open SciVerif.C01.Gen

variable {A : Type}

/-- the step loop on resolved steps -/
def runResolved (tbl : Table) (alg : AtomAlg A) : List (List Nat × Otype) → Bufs A → M A (Bufs A)
  | [], b => .ok b
  | r :: rs, b =>
      if r.1.isEmpty then runResolved tbl alg rs b
      else match operate tbl alg r.1 r.2 b with
        | .ok b' => runResolved tbl alg rs b'
        | .error e => .error e

theorem runSteps_resolved (tbl : Table) (alg : AtomAlg A) (steps : List (List String × Otype))
    (b : Bufs A) : runSteps tbl alg steps b = runResolved tbl alg (steps.map (resolveStep tbl)) b := by
  induction steps generalizing b with
  | nil => rfl
  | cons s ss ih =>
    simp only [runSteps, List.map_cons, runResolved]
    split
    · exact ih b
    · cases operate tbl alg (resolveStep tbl s).1 (resolveStep tbl s).2 b with
      | ok b' => exact ih b'
      | error e => rfl

/-- one pass of the step loop, from the iteration count of the pass lemmas -/
theorem pass_of_steps (alg : AtomAlg A) (lit : List Char → A) (P : List Nat) (ot : Otype)
    (k : Nat) (e : E)
    (h : ∃ c, c ≤ (flat alg lit k e).length ∧
      StepsTo (step dflt alg P ot) c ⟨[], flat alg lit k e ++ []⟩
        ⟨(flat alg lit (k + 1) e).reverse ++ [], []⟩) :
    operate dflt alg P ot ⟨[], flat alg lit k e⟩ = .ok ⟨[], flat alg lit (k + 1) e⟩ := by
  obtain ⟨c, hc, st⟩ := h
  exact operate_of_steps dflt alg P ot _ _ c hc (by simpa using st)

end SciVerif.C01
