import SciVerif.Lemmas.C19d
/-!
# C19 — declaration lines: the line readers invert the line templates (C / C++ and Rust)
-/
namespace SciVerif.C19

/-! ## small text lemmas -/

theorem dropPrefix_iff : ∀ (p s r : Str), dropPrefix? p s = some r ↔ s = p ++ r
  | [], s, r => by simp [dropPrefix?]
  | _ :: _, [], r => by simp [dropPrefix?]
  | a :: p, b :: s, r => by
    by_cases h : a = b
    · subst h; simp [dropPrefix?, dropPrefix_iff p s r]
    · simp [dropPrefix?, h]; intro e; exact absurd e.symm h

theorem dropPrefix_append (p r : Str) : dropPrefix? p (p ++ r) = some r := (dropPrefix_iff p _ r).mpr rfl

theorem dropLastChar_snoc (c : Char) (s : Str) : dropLastChar? c (s ++ [c]) = some s := by
  simp [dropLastChar?]

theorem span_loop_stop (f : Char → Bool) : ∀ (a b acc : Str), (∀ ch ∈ a, f ch = true) →
    (∀ x r, b = x :: r → f x = false) → List.span.loop f (a ++ b) acc = (acc.reverse ++ a, b)
  | [], [], acc, _, _ => by simp [List.span.loop]
  | [], x :: r, acc, _, hb => by
    have := hb x r rfl
    simp [List.span.loop, this]
  | ch :: a, b, acc, ha, hb => by
    have h1 : f ch = true := ha ch (by simp)
    have ih := span_loop_stop f a b (ch :: acc) (fun x hx => ha x (by simp [hx])) hb
    simp [List.span.loop, h1, ih]

/-- `span` stops exactly where the first character failing the test stands -/
theorem span_stop (f : Char → Bool) (a b : Str) (ha : ∀ ch ∈ a, f ch = true)
    (hb : ∀ x r, b = x :: r → f x = false) : (a ++ b).span f = (a, b) := by
  simp [List.span, span_loop_stop f a b [] ha hb]

/-! ## shapes -/

mutual
/-- for a rectangular value without empty levels the exporter's `shape` (length of each level,
    following the last element) is the strict shape -/
theorem shapeOf_of_rect : (v : Val) → ∀ sh, rectShape v = some sh → 0 ∉ sh → shapeOf v = some sh
  | .leaf _, sh, h, _ => by
    simp [rectShape] at h
    subst h
    simp [shapeOf]
  | .arr vs, sh, h, h0 => by
    rcases rectShape_arr vs sh h with ⟨_, rfl⟩ | ⟨s, rfl, hne, hall⟩
    · simp at h0
    · have h0' : 0 ∉ s := fun hm => h0 (by simp [hm])
      have := shapeLast_of_rect vs s hne hall h0'
      simp [shapeOf, this]
theorem shapeLast_of_rect : (vs : List Val) → ∀ s, vs ≠ [] → (∀ t ∈ vs, rectShape t = some s) → 0 ∉ s →
    shapeLast vs = some s
  | [], _, hne, _, _ => absurd rfl hne
  | [v], s, _, hall, h0 => by
    simp only [shapeLast]
    exact shapeOf_of_rect v s (hall v (by simp)) h0
  | _ :: w :: vs, s, _, hall, h0 => by
    simp only [shapeLast]
    exact shapeLast_of_rect (w :: vs) s (by simp) (fun t ht => hall t (by simp [ht])) h0
end

mutual
theorem rectShape_tokTree (st : Style) : (v : Val) → rectShape (tokTree st v) = rectShape v
  | .leaf _ => by simp [tokTree, rectShape]
  | .arr vs => by
    simp only [tokTree, rectShape, rectShapes_tokTrees st vs, tokTrees_length st vs]
theorem rectShapes_tokTrees (st : Style) : (vs : List Val) → rectShapes (tokTrees st vs) = rectShapes vs
  | [] => by simp [tokTrees, rectShapes_nil]
  | v :: vs => by
    simp only [tokTrees, rectShapes_cons, rectShape_tokTree st v, rectShapes_tokTrees st vs]
theorem tokTrees_length (st : Style) : (vs : List Val) → (tokTrees st vs).length = vs.length
  | [] => by simp [tokTrees]
  | _ :: vs => by simp [tokTrees, tokTrees_length st vs]
end

/-- the initialiser text is read back as the token tree of the value -/
theorem parseInit_printVal (st : Style) (o c : Char) (ok : StyleOK st o c) (k : Kind) (v : Val)
    (hv : ValOK k v) : parseInit st.q o c (printVal st v) = some (tokTree st v) := by
  rw [printVal_eq st o c ok.opn ok.cls v]
  exact parseInit_printTok st.q o c ok.good _ (safe_tree st o c ok k v hv)

/-! ## numerals contain no delimiter -/

theorem showNat_plain (n : Nat) : ∀ ch ∈ showNat n, plainChar '[' ']' ch :=
  fun ch h => plain_of_floatChar_bracket ch (showNat_floatChars n ch h)

theorem showNat_ne_nil (n : Nat) : showNat n ≠ [] := by
  obtain ⟨c, cs, h, _⟩ := showNat_head n
  simp [h]

/-! ## the declared type at the head of a C declaration -/

theorem matchType_of_prefixFree : ∀ (ts : List Str) (all : List Str),
    (∀ t1 ∈ all, ∀ t2 ∈ all, t1 ≠ t2 → dropPrefix? (t1 ++ [' ']) (t2 ++ [' ']) = none) →
    (∀ t ∈ ts, t ∈ all) → ∀ t ∈ ts, t ∈ all → ∀ rest,
    matchType ts (t ++ ' ' :: rest) = some (t, rest)
  | [], _, _, _, t, ht, _, _ => by simp at ht
  | t' :: ts, all, hpf, hsub, t, ht, hta, rest => by
    by_cases e : t' = t
    · subst e
      have : dropPrefix? (t' ++ [' ']) (t' ++ ' ' :: rest) = some rest := by
        have := dropPrefix_append (t' ++ [' ']) rest
        simpa using this
      simp [matchType, this]
    · have hne : dropPrefix? (t' ++ [' ']) (t ++ ' ' :: rest) = none := by
        cases hd : dropPrefix? (t' ++ [' ']) (t ++ ' ' :: rest) with
        | none => rfl
        | some r =>
          exfalso
          have h1 := (dropPrefix_iff _ _ _).mp hd
          -- t ++ ' ' :: rest = t' ++ ' ' :: r : one of t, t' is a prefix of the other
          have h1' : t ++ (' ' :: rest) = t' ++ (' ' :: r) := by simpa using h1
          rcases List.append_eq_append_iff.mp h1' with ⟨a, ha1, ha2⟩ | ⟨a, ha1, ha2⟩
          · -- t' = t ++ a
            cases a with
            | nil => simp at ha1; exact e ha1
            | cons x a =>
              simp at ha2
              obtain ⟨hx, _⟩ := ha2
              subst hx
              have hp := hpf t hta t' (hsub t' (by simp)) (fun h => e h.symm)
              have : dropPrefix? (t ++ [' ']) (t' ++ [' ']) = some (a ++ [' ']) := by
                rw [dropPrefix_iff, ha1]; simp
              rw [this] at hp
              cases hp
          · -- t = t' ++ a
            cases a with
            | nil => simp at ha1; exact e ha1.symm
            | cons x a =>
              simp at ha2
              obtain ⟨hx, _⟩ := ha2
              subst hx
              have hp := hpf t' (hsub t' (by simp)) t hta e
              have : dropPrefix? (t' ++ [' ']) (t ++ [' ']) = some (a ++ [' ']) := by
                rw [dropPrefix_iff, ha1]; simp
              rw [this] at hp
              cases hp
      rcases List.mem_cons.mp ht with h | h
      · exact absurd h.symm e
      · simp only [matchType, hne]
        exact matchType_of_prefixFree ts all hpf (fun u hu => hsub u (by simp [hu])) t h hta rest

/-! ## `[2][3]` -/

def bracketSeg (d : Nat) : Str := '[' :: showNat d ++ [']']

theorem shapeBrackets_eq : ∀ (sh : List Nat), sh ≠ [] → shapeBrackets sh = sh.flatMap bracketSeg
  | [], h => absurd rfl h
  | [d], _ => by simp [shapeBrackets, joinWith, bracketSeg]
  | d :: e :: sh, _ => by
    have ih := shapeBrackets_eq (e :: sh) (by simp)
    simp only [shapeBrackets, List.map_cons, joinWith] at ih ⊢
    simp only [List.flatMap_cons] at ih ⊢
    rw [← ih]
    simp [bracketSeg]

theorem parseDims_segs : ∀ (sh : List Nat) (fuel : Nat) (rest : Str), sh.length < fuel →
    (∀ r, rest ≠ '[' :: r) → parseDims fuel (sh.flatMap bracketSeg ++ rest) = some (sh, rest)
  | [], fuel, rest, hf, hr => by
    cases fuel with
    | zero => omega
    | succ f =>
      cases rest with
      | nil => simp [parseDims]
      | cons x r =>
        have : x ≠ '[' := fun e => hr r (by rw [e])
        simp [parseDims]
  | d :: sh, fuel, rest, hf, hr => by
    cases fuel with
    | zero => omega
    | succ f =>
      have ih := parseDims_segs sh f rest (by simp at hf; omega) hr
      have hsp : (showNat d ++ (']' :: (sh.flatMap bracketSeg ++ rest))).span (fun c => decide (c ≠ ']')) =
          (showNat d, ']' :: (sh.flatMap bracketSeg ++ rest)) := by
        apply span_stop
        · intro ch hch
          have := (showNat_plain d ch hch).2.2.1
          simpa using this
        · intro x r e
          simp at e
          simp [← e.1]
      simp only [List.flatMap_cons, bracketSeg, List.cons_append, List.append_assoc, parseDims]
      simp only [List.nil_append] at hsp ⊢
      rw [hsp]
      simp [readNat_showNat, ih]

/-! ## facts about the regenerated type tables (whole-table `decide`) -/

/-- every type `_parse_dtype` chooses (C, C++, Rust) is known to the compiler probe with the class of the DIP type -/
theorem table_kind : ∀ b ∈ [bC, bCpp, bRust], ∀ r ∈ Gen.typeRows, r.1 = b → ∀ t, r.2.2.2 = some t →
    (targetKind b t).map (·.1) = some r.2.1 := by decide +kernel

theorem table_mem_targets : ∀ b ∈ [bC, bCpp, bRust], ∀ r ∈ Gen.typeRows, r.1 = b → ∀ t, r.2.2.2 = some t →
    t ∈ targets b := by decide +kernel

theorem prefix_free : ∀ b ∈ [bC, bCpp], ∀ t1 ∈ targets b, ∀ t2 ∈ targets b,
    t1 ≠ t2 → dropPrefix? (t1 ++ [' ']) (t2 ++ [' ']) = none := by decide +kernel

/-- Rust type names contain no blank, semicolon or bracket -/
theorem rust_names_plain : ∀ t ∈ targets bRust, t.all (fun c => c ≠ ';' ∧ c ≠ ' ' ∧ c ≠ '[') = true := by
  decide +kernel

theorem lookupType_row (b : Str) (k : Kind) (bits : Nat) (t : Str) (h : lookupType b k bits = some t) :
    ∃ r ∈ Gen.typeRows, r.1 = b ∧ r.2.1 = k ∧ r.2.2.2 = some t := by
  unfold lookupType at h
  split at h
  · rename_i r hf
    have hm := List.mem_of_find?_eq_some hf
    have hp := List.find?_some hf
    simp at hp
    exact ⟨r, hm, hp.1, hp.2.1, h⟩
  · cases h

end SciVerif.C19
