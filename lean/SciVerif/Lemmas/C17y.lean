import SciVerif.Lemmas.C17w

/-! Refinement (C17), part 7: lines nested by indentation.  A line at any indentation whose
    registered path is `full` behaves like the line at indent 0 that carries `full` as its name —
    up to the indent stored with a new node and the hierarchy stack, which the abstraction ignores. -/
namespace SciVerif.C17

/-- the hierarchy stack after `HierarchyList.register` of a line (indent, name) -/
def regStackOf (ps : List (Nat × Str)) (i : Nat) (nm : Str) : List (Nat × Str) :=
  (i, nm) :: popParents i ps

/-- the dotted path `HierarchyList.register` gives that line -/
def regNameOf (ps : List (Nat × Str)) (i : Nat) (nm : Str) : Str :=
  joinDot ((regStackOf ps i nm).reverse.map Prod.snd)

theorem register_at (ps : List (Nat × Str)) (n : Node) :
    register ps n = (regStackOf ps n.indent n.name, { n with name := regNameOf ps n.indent n.name }) := rfl

/-- forget the stored indent -/
def strip (n : Node) : Node := { n with indent := 0 }

theorem absN_strip (n : Node) : absN (strip n) = absN n := rfl

theorem good_strip (tbl : UnitTable) (n : Node) : Good tbl (strip n) ↔ Good tbl n := Iff.rfl

/-- two node lists that differ at most in the stored indents -/
def EqIL (a b : List Node) : Prop := a.map strip = b.map strip

theorem EqIL_abs {a b : List Node} (h : EqIL a b) : a.map absN = b.map absN := by
  have ha : a.map absN = (a.map strip).map absN := by simp [List.map_map, Function.comp, absN_strip]
  have hb : b.map absN = (b.map strip).map absN := by simp [List.map_map, Function.comp, absN_strip]
  rw [ha, hb, h]

theorem EqIL_good {tbl : UnitTable} {a b : List Node} (h : EqIL a b)
    (hg : ∀ n ∈ b, Good tbl n) : ∀ n ∈ a, Good tbl n := by
  intro n hn
  have : strip n ∈ b.map strip := by rw [← h]; exact List.mem_map_of_mem hn
  obtain ⟨m, hm, e⟩ := List.mem_map.mp this
  have := (good_strip tbl m).mpr (hg m hm)
  rw [e] at this
  exact (good_strip tbl n).mp this

theorem setValue_indent (n : Node) (j : Nat) :
    setValue { n with indent := j } = (match setValue n with
      | .ok x => .ok { x with indent := j }
      | .error e => .error e) := by
  cases n with
  | mk name indent kw dims raw ref slice unitsRaw value defined constant condition format tags options description imported =>
    cases raw with
    | none => rfl
    | some r =>
      by_cases hm : kw = .mod
      · subst hm; rfl
      · simp only [setValue, hm, if_false]
        have e : ∀ x, castValue ⟨name, j, kw, dims, some r, ref, slice, unitsRaw, value, defined, constant,
            condition, format, tags, options, description, imported⟩ x =
            castValue ⟨name, indent, kw, dims, some r, ref, slice, unitsRaw, value, defined, constant,
            condition, format, tags, options, description, imported⟩ x := fun x => rfl
        rw [e]
        split <;> simp_all

theorem modifyFirst_indent (tbl : UnitTable) (m : Node) (j : Nat) (ns : List Node) :
    modifyFirst tbl { m with indent := j } ns = modifyFirst tbl m ns := by
  induction ns with
  | nil => rfl
  | cons t rest ih =>
    simp only [modifyFirst]
    have : modifyValue tbl t { m with indent := j } = modifyValue tbl t m := rfl
    rw [this, ih]

theorem injectValue_at (env : Env) (n : Node) (full : Str) :
    injectValue env { n with name := full, indent := 0 } = (match injectValue env n with
      | .ok x => .ok { x with name := full, indent := 0 }
      | .error e => .error e) := by
  unfold injectValue
  cases hr : n.ref with
  | none => simp [hr]
  | some r =>
    simp only [hr]
    cases request env r .one with
    | error e => rfl
    | ok ns =>
      cases ns with
      | nil => rfl
      | cons s t => rfl

/-- A line at any indentation whose registered path is `full` is processed like the line at
    indent 0 named `full`: same outcome, same nodes up to the stored indent, same sources and
    units; the hierarchy stack is the one `register` leaves. -/
theorem processNode_at (tbl : UnitTable) (env : Env) (n : Node) (full : Str)
    (hreg : regNameOf env.parents n.indent n.name = full) (env' : Env)
    (h : processNode tbl env { n with name := full, indent := 0 } = .ok env') :
    ∃ env'', processNode tbl env n = .ok env'' ∧ EqIL env''.nodes env'.nodes ∧
      env''.sources = env'.sources ∧ env''.units = env'.units ∧
      env''.parents = regStackOf env.parents n.indent n.name ∧ env''.srcUnits = env'.srcUnits := by
  have hu : unitCheck tbl { n with name := full, indent := 0 } = unitCheck tbl n := rfl
  unfold processNode at h ⊢
  rw [hu] at h
  cases huc : unitCheck tbl n with
  | error e => simp [huc] at h
  | ok u =>
    simp only [huc] at h ⊢
    rw [register_zero env.parents { n with name := full, indent := 0 } rfl] at h
    rw [register_at env.parents n, hreg]
    simp only at h ⊢
    by_cases hg : n.kw = .group
    · simp only [hg, if_true, Except.ok.injEq] at h ⊢
      subst h
      exact ⟨_, rfl, rfl, rfl, rfl, rfl, rfl⟩
    · simp only [hg, if_false] at h ⊢
      have hsv := setValue_indent { n with name := full } 0
      simp only at hsv
      rw [hsv] at h
      cases hs : setValue { n with name := full } with
      | error e => simp [hs] at h
      | ok n2 =>
        simp only [hs] at h ⊢
        rw [modifyFirst_indent tbl n2 0 env.nodes] at h
        cases hm : modifyFirst tbl n2 env.nodes with
        | error e => simp [hm] at h
        | ok r =>
          simp only [hm] at h ⊢
          cases r with
          | some ns =>
            simp only [Except.ok.injEq] at h ⊢
            subst h
            exact ⟨_, rfl, rfl, rfl, rfl, rfl, rfl⟩
          | none =>
            simp only at h ⊢
            by_cases hk : n2.kw = .mod
            · simp [hk] at h
            · simp only [hk, if_false, Except.ok.injEq] at h ⊢
              subst h
              refine ⟨_, rfl, ?_, rfl, rfl, rfl, rfl⟩
              simp [EqIL, strip]

theorem injectValue_keeps (env : Env) (n x : Node) (h : injectValue env n = .ok x) :
    x.name = n.name ∧ x.indent = n.indent ∧ x.kw = n.kw := by
  unfold injectValue at h
  cases hr : n.ref with
  | none => simp [hr] at h; subst h; exact ⟨rfl, rfl, rfl⟩
  | some r =>
    simp only [hr] at h
    cases hq : request env r .one with
    | error e => simp [hq] at h
    | ok ns =>
      cases ns with
      | nil => simp [hq] at h
      | cons s t => simp [hq] at h; subst h; exact ⟨rfl, rfl, rfl⟩

/-- a definition / modification line at any indentation whose registered path is `full`, against
    the same line written at indent 0 with `full` as its name -/
theorem step_at (tbl : UnitTable) (env : Env) (n : Node) (full : Str) (hk : n.kw ≠ .imp)
    (hreg : regNameOf env.parents n.indent n.name = full) (env' : Env)
    (h : step tbl env (.node { n with name := full, indent := 0 }) = .ok env') :
    ∃ env'', step tbl env (.node n) = .ok env'' ∧ EqIL env''.nodes env'.nodes ∧
      env''.sources = env'.sources ∧ env''.units = env'.units ∧ env''.srcUnits = env'.srcUnits := by
  have hk0 : ({ n with name := full, indent := 0 } : Node).kw ≠ .imp := hk
  simp only [step, hk0, if_false] at h
  rw [injectValue_at env n full] at h
  cases hi : injectValue env n with
  | error e => simp [hi] at h
  | ok x =>
    simp only [hi] at h
    obtain ⟨hxn, hxi, _⟩ := injectValue_keeps env n x hi
    obtain ⟨env'', hp, h1, h2, h3, _, h5⟩ := processNode_at tbl env x full (by rw [hxn, hxi]; exact hreg) env' h
    exact ⟨env'', by simp [step, hk, hi, hp], h1, h2, h3, h5⟩

/-- a group line only changes the hierarchy -/
def groupNode (i : Nat) (nm : Str) : Node := { blank nm .group with indent := i }

theorem step_group (tbl : UnitTable) (env : Env) (i : Nat) (nm : Str) :
    step tbl env (.node (groupNode i nm)) = .ok { env with parents := regStackOf env.parents i nm } := by
  have hk : (groupNode i nm).kw ≠ .imp := by
    show Kw.group ≠ Kw.imp
    decide
  simp only [step, hk, if_false]
  rw [injectValue_none env (groupNode i nm) rfl]
  simp only
  unfold processNode
  have hu : unitCheck tbl (groupNode i nm) = .ok () := rfl
  simp only [hu, register_at]
  rfl

/-! ### the hierarchy stack is the chain of nearest earlier lines with smaller indentation -/

/-- `register` for a sequence of named lines (indent, name) -/
def pushAll (ps : List (Nat × Str)) : List (Nat × Str) → List (Nat × Str)
  | [] => ps
  | x :: t => pushAll (regStackOf ps x.1 x.2) t

/-- the ancestors of a line of indentation `m` among the earlier lines (nearest first): the
    nearest earlier line with a smaller indentation, then that line's ancestors -/
def anc (m : Nat) : List (Nat × Str) → List (Nat × Str)
  | [] => []
  | p :: rest => if p.1 < m then p :: anc p.1 rest else anc m rest

def stackOf : List (Nat × Str) → List (Nat × Str)
  | [] => []
  | x :: earlier => x :: anc x.1 earlier

theorem popParents_anc (d e : Nat) (h : d ≤ e) (rest : List (Nat × Str)) :
    popParents d (anc e rest) = anc d rest := by
  induction rest generalizing e with
  | nil => simp [anc, popParents]
  | cons p r ih =>
    simp only [anc]
    by_cases h1 : p.1 < e
    · simp only [h1, if_true, popParents]
      by_cases h2 : d ≤ p.1
      · have : ¬ p.1 < d := by omega
        simp only [h2, if_true, this, if_false]
        exact ih p.1 h2
      · have : p.1 < d := by omega
        simp [h2, this]
    · have : ¬ p.1 < d := by omega
      simp only [h1, if_false, this]
      exact ih e h

theorem popParents_stackOf (d : Nat) (earlier : List (Nat × Str)) :
    popParents d (stackOf earlier) = anc d earlier := by
  cases earlier with
  | nil => simp [stackOf, anc, popParents]
  | cons x rest =>
    simp only [stackOf, popParents, anc]
    by_cases h : d ≤ x.1
    · have : ¬ x.1 < d := by omega
      simp only [h, if_true, this, if_false]
      exact popParents_anc d x.1 h rest
    · have : x.1 < d := by omega
      simp [h, this]

theorem pushAll_stackOf_gen (ls earlier : List (Nat × Str)) :
    pushAll (stackOf earlier) ls = stackOf (ls.reverse ++ earlier) := by
  induction ls generalizing earlier with
  | nil => rfl
  | cons x t ih =>
    have : regStackOf (stackOf earlier) x.1 x.2 = stackOf (x :: earlier) := by
      show (x.1, x.2) :: popParents x.1 (stackOf earlier) = x :: anc x.1 earlier
      rw [popParents_stackOf]
    simp only [pushAll, this, ih (x :: earlier), List.reverse_cons, List.append_assoc, List.singleton_append]

theorem pushAll_stackOf (ls : List (Nat × Str)) : pushAll [] ls = stackOf ls.reverse := by
  have := pushAll_stackOf_gen ls []
  simpa [stackOf] using this

end SciVerif.C17
