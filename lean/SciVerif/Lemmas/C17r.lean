import SciVerif.Lemmas.C17b

/-!
Refinement of the model's parse loop to the path-keyed specification (property C17):
abstraction function, string/path lemmas, cast lemmas.
-/
namespace SciVerif.C17

/-! ### names and paths -/

/-- `name.split('.')` -/
def splitDot : Str → List Str
  | [] => [[]]
  | c :: t =>
    if c = '.' then [] :: splitDot t
    else match splitDot t with
      | [] => [[c]]
      | h :: r => (c :: h) :: r

theorem splitDot_ne_nil (s : Str) : splitDot s ≠ [] := by
  cases s with
  | nil => simp [splitDot]
  | cons c t =>
    simp only [splitDot]
    split
    · simp
    · split <;> simp

theorem joinDot_splitDot (s : Str) : joinDot (splitDot s) = s := by
  induction s with
  | nil => simp [splitDot, joinDot]
  | cons c t ih =>
    simp only [splitDot]
    by_cases hc : c = '.'
    · simp only [hc, if_true]
      cases hs : splitDot t with
      | nil => exact absurd hs (splitDot_ne_nil t)
      | cons h r =>
        rw [hs] at ih
        simp [joinDot, ih]
    · simp only [hc, if_false]
      cases hs : splitDot t with
      | nil => exact absurd hs (splitDot_ne_nil t)
      | cons h r =>
        rw [hs] at ih
        cases r with
        | nil => simp only [joinDot] at ih ⊢; rw [ih]
        | cons b t' => simp only [joinDot, List.cons_append] at ih ⊢; rw [ih]

/-- names are determined by their paths -/
theorem splitDot_inj {a b : Str} (h : splitDot a = splitDot b) : a = b := by
  rw [← joinDot_splitDot a, ← joinDot_splitDot b, h]

theorem splitDot_nodot (a : Str) (ha : '.' ∉ a) : splitDot a = [a] := by
  induction a with
  | nil => simp [splitDot]
  | cons c t ih =>
    have hc : c ≠ '.' := fun e => ha (by simp [e])
    have ht : '.' ∉ t := fun e => ha (by simp [e])
    simp [splitDot, hc, ih ht]

theorem splitDot_append (a s : Str) (ha : '.' ∉ a) : splitDot (a ++ '.' :: s) = a :: splitDot s := by
  induction a with
  | nil => simp [splitDot]
  | cons c t ih =>
    have hc : c ≠ '.' := fun e => ha (by simp [e])
    have ht : '.' ∉ t := fun e => ha (by simp [e])
    simp [splitDot, hc, ih ht]

/-- a well-formed path: at least one component, no dot inside a component -/
def WFPath (p : List Str) : Prop := p ≠ [] ∧ ∀ c ∈ p, '.' ∉ c

theorem splitDot_joinDot (p : List Str) (hp : WFPath p) : splitDot (joinDot p) = p := by
  obtain ⟨hne, hd⟩ := hp
  induction p with
  | nil => exact absurd rfl hne
  | cons a t ih =>
    cases t with
    | nil => simp only [joinDot]; exact splitDot_nodot a (hd a (by simp))
    | cons b t' =>
      simp only [joinDot]
      rw [splitDot_append a _ (hd a (by simp)), ih (by simp) (fun c hc => hd c (by simp [hc]))]

theorem wf_splitDot (s : Str) : WFPath (splitDot s) := by
  refine ⟨splitDot_ne_nil s, ?_⟩
  induction s with
  | nil => simp [splitDot]
  | cons c t ih =>
    simp only [splitDot]
    by_cases hc : c = '.'
    · simp only [hc, if_true]
      intro x hx
      simp only [List.mem_cons] at hx
      rcases hx with rfl | hx
      · simp
      · exact ih x hx
    · simp only [hc, if_false]
      cases hs : splitDot t with
      | nil => exact absurd hs (splitDot_ne_nil t)
      | cons h r =>
        rw [hs] at ih
        intro x hx
        simp only [List.mem_cons] at hx
        rcases hx with rfl | hx
        · have := ih h (by simp)
          intro hm
          simp only [List.mem_cons] at hm
          rcases hm with e | hm
          · exact hc e.symm
          · exact this hm
        · exact ih x (by simp [hx])

theorem splitQ_render (src q : Str) (hs : '?' ∉ src) (hq : '?' ∉ q) :
    splitQ (src ++ '?' :: q) = some (src, q) := by
  induction src with
  | nil =>
    have : q.contains '?' = false := by simpa using hq
    simp [splitQ, hq]
  | cons c t ih =>
    have hc : c ≠ '?' := fun e => hs (by simp [e])
    have ht : '?' ∉ t := fun e => hs (by simp [e])
    simp [splitQ, hc, ih ht]

/-! ### casts -/

theorem castScalar_idem (k : Kw) (v v' : Val) (h : castScalar k v = some v') :
    castScalar k v' = some v' ∧ isArr v' = false := by
  cases v with
  | num q =>
    cases k <;> simp [castScalar] at h
    · obtain ⟨hq, rfl⟩ := h; simp [castScalar, hq, isArr]
    · subst h; simp [castScalar, isArr]
  | bool b => cases k <;> simp [castScalar] at h <;> (subst h; simp [castScalar, isArr])
  | str s => cases k <;> simp [castScalar, dtypeOf] at h <;> (subst h; simp [castScalar, dtypeOf, isArr])
  | arr l => simp [castScalar] at h

mutual
theorem castElem_idem (k : Kw) : ∀ (v v' : Val), castElem k v = some v' → castElem k v' = some v'
  | .arr l, v', h => by
    simp only [castElem] at h
    cases hl : castList k l with
    | none => simp [hl] at h
    | some l' =>
      simp only [hl, Option.map_some, Option.some.injEq] at h
      subst h
      simp [castElem, castList_idem k l l' hl]
  | .num q, v', h => by
    simp only [castElem] at h
    have := (castScalar_idem k _ _ h).1
    cases v' <;> simp_all [castElem, castScalar]
  | .bool b, v', h => by
    simp only [castElem] at h
    have := (castScalar_idem k _ _ h).1
    cases v' <;> simp_all [castElem, castScalar]
  | .str s, v', h => by
    simp only [castElem] at h
    have := (castScalar_idem k _ _ h).1
    cases v' <;> simp_all [castElem, castScalar]
theorem castList_idem (k : Kw) : ∀ (l l' : List Val), castList k l = some l' → castList k l' = some l'
  | [], l', h => by simp [castList] at h; subst h; simp [castList]
  | x :: t, l', h => by
    simp only [castList] at h
    cases hx : castElem k x with
    | none => simp [hx] at h
    | some a =>
      cases ht : castList k t with
      | none => simp [hx, ht] at h
      | some b =>
        simp only [hx, ht, Option.some.injEq] at h
        subst h
        simp [castList, castElem_idem k x a hx, castList_idem k t b ht]
end

/-- on scalars `np.array(value, dtype)` is the scalar cast -/
theorem castElem_scalar (k : Kw) (v : Val) (h : isArr v = false) : castElem k v = castScalar k v := by
  cases v <;> simp_all [castElem, isArr]

/-- the value conforms to type `k`: the cast leaves it as it is -/
def Conf (k : Kw) (v : Val) : Prop := castElem k v = some v

theorem conforms_eq (k : Kw) (dims : List Dim) (v : Val) :
    conforms k dims v = if dims.isEmpty then castScalar k v
      else (castElem k v).bind (fun v' => if checkDims dims (shape v') then some v' else none) := by
  unfold conforms
  split
  · rfl
  · cases castElem k v <;> rfl

/-- `conforms` is idempotent and yields conforming values -/
theorem conforms_conf (k : Kw) (dims : List Dim) (v v' : Val) (h : conforms k dims v = some v') :
    Conf k v' ∧ conforms k dims v' = some v' := by
  rw [conforms_eq] at h
  by_cases hd : dims.isEmpty = true
  · simp only [hd, if_true] at h
    obtain ⟨h1, h2⟩ := castScalar_idem k v v' h
    refine ⟨by rw [Conf, castElem_scalar k v' h2]; exact h1, ?_⟩
    rw [conforms_eq]; simp [hd, h1]
  · simp only [hd, Bool.false_eq_true, if_false] at h
    cases hc : castElem k v with
    | none => simp [hc] at h
    | some w =>
      simp only [hc, Option.bind] at h
      by_cases hcd : checkDims dims (shape w) = true
      · simp only [hcd, if_true, Option.some.injEq] at h
        subst h
        have hi := castElem_idem k v w hc
        refine ⟨hi, ?_⟩
        rw [conforms_eq]; simp [hd, hi, hcd]
      · simp [hcd] at h

theorem dtypeOf_typed (k : Kw) (h : isTyped k = true) : dtypeOf k = k := by
  cases k <;> simp_all [isTyped, dtypeOf]

/-- without a slice, `cast_value` is the conformance test of the specification -/
theorem castValue_eq_conforms (n : Node) (v : Val) (hs : n.slice = []) (hk : isTyped n.kw = true) :
    castValue n v = conforms n.kw n.dims v := by
  have hm : n.kw ≠ .mod := by intro e; rw [e] at hk; simp [isTyped] at hk
  rw [conforms_eq]
  unfold castValue
  rw [hs, dtypeOf_typed n.kw hk]
  by_cases hd : n.dims.isEmpty = true
  · simp [hd, hm]
  · simp only [hd, Bool.false_eq_true, Bool.not_false, List.isEmpty_nil, Bool.not_true, Bool.or_false,
      if_true, if_false]
    cases castElem n.kw v with
    | none => rfl
    | some w => simp [Option.bind]

end SciVerif.C17
