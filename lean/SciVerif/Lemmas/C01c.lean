import SciVerif.Lemmas.C01

/-!
# C01 helper lemmas, part 3: the sign pass (step 2 of the table, level 1), proved over the
  regenerated 2x25 behaviour table of `OperatorAdd/OperatorSub.operate_unary`.
-/
namespace SciVerif.C01
open SciVerif.C01.Gen

variable {A : Type} (alg : AtomAlg A) (lit : List Char → A)

/-- the only algebraic law the sign folding relies on -/
def NegNeg (alg : AtomAlg A) : Prop := ∀ a, alg.un .neg (alg.un .neg a) = a

def P1 : List Nat := [13, 14]

def sk (neg : Bool) : SignK := if neg then .sub else .add

/-- top of the left stack is not an atom (so a `+`/`-` met now is a prefix sign) -/
def NonAtomTop : List (Tok A) → Prop
  | .atom _ :: _ => False
  | _ => True

/-- … more specifically an operator or nothing -/
def OpTop : List (Tok A) → Prop
  | [] => True
  | .op _ _ :: _ => True
  | _ => False

/-- `put_left(left)` with `left = None` on an empty stack stores a `None` -/
def keepTop : List (Tok A) → List (Tok A)
  | [] => [.none]
  | l => l

/-- the stored `None` is dropped again when the sign finally meets its atom -/
def dropNone : List (Tok A) → List (Tok A)
  | .none :: l => l
  | l => l

def leadSign : E → Bool
  | .sign _ _ => true
  | .bin _ l _ => leadSign l
  | _ => false

theorem kindOf_op (j : Nat) (a : List (Option A)) :
    kindOf dflt (Tok.op j a : Tok A) = .add ∨ kindOf dflt (Tok.op j a : Tok A) = .sub ∨
      kindOf dflt (Tok.op j a : Tok A) = .other := by
  simp only [kindOf]
  generalize dflt.rows[j]? = q
  cases q with
  | none => simp
  | some r => by_cases h1 : r.isAdd = true <;> by_cases h2 : r.isSub = true <;> simp [h1, h2]

theorem step_sign (s : Bool) (l r : List (Tok A)) :
    step dflt alg P1 .unary ⟨l, tokS s :: r⟩ = signStep dflt alg (sk s) ⟨l, r⟩ := by
  cases s <;> rfl

theorem kind_tokS (s : Bool) : kindOf dflt (tokS s : Tok A) = (if s then .sub else .add) := by
  cases s <;> rfl

/-- two prefix signs fold into one -/
theorem step_fold (s s' : Bool) (L r : List (Tok A)) (hL : NonAtomTop L) :
    step dflt alg P1 .unary ⟨L, tokS s :: tokS s' :: r⟩ = .ok ⟨keepTop L, tokS (xor s s') :: r⟩ := by
  rw [step_sign]
  match L, hL with
  | [], _ => cases s <;> cases s' <;> rfl
  | .none :: L0, _ => cases s <;> cases s' <;> rfl
  | .op j a :: L0, _ =>
    unfold signStep
    simp only [getLeft, getRight, kind_tokS]
    rcases kindOf_op (A := A) j a with h | h | h <;> rw [h] <;> cases s <;> cases s' <;> rfl

/-- a prefix sign meets its atom -/
theorem step_apply_nil (s : Bool) (r : List (Tok A)) (x : A) :
    step dflt alg P1 .unary ⟨[], tokS s :: .atom x :: r⟩ = .ok ⟨[.atom (negIf alg s x)], r⟩ := by
  cases s <;> rfl

theorem step_apply_none (s : Bool) (L0 r : List (Tok A)) (x : A) :
    step dflt alg P1 .unary ⟨.none :: L0, tokS s :: .atom x :: r⟩
      = .ok ⟨.atom (negIf alg s x) :: L0, r⟩ := by
  cases s <;> rfl

theorem step_apply_op (s : Bool) (j : Nat) (a : List (Option A)) (L0 r : List (Tok A)) (x : A) :
    step dflt alg P1 .unary ⟨.op j a :: L0, tokS s :: .atom x :: r⟩
      = .ok ⟨.op j a :: L0, .atom (negIf alg s x) :: r⟩ := by
  rw [step_sign]
  unfold signStep
  simp only [getLeft, getRight]
  rw [show kindOf dflt (Tok.atom x : Tok A) = .atom from rfl]
  rcases kindOf_op (A := A) j a with h | h | h <;> rw [h] <;> cases s <;> rfl

/-- a `+`/`-` after an atom is a binary operator: it stays, whatever follows -/
theorem step_binary_sign (s : Bool) (L0 r : List (Tok A)) (x : A) (t : Tok A) :
    step dflt alg P1 .unary ⟨.atom x :: L0, tokS s :: t :: r⟩
      = .ok ⟨tokS s :: .atom x :: L0, t :: r⟩ := by
  rw [step_sign]
  unfold signStep
  simp only [getLeft, getRight]
  rw [show kindOf dflt (Tok.atom x : Tok A) = .atom from rfl]
  cases hK : kindOf dflt t <;> cases s <;> rfl

theorem negIf_xor (hn : NegNeg alg) (s s' : Bool) (v : A) :
    negIf alg (xor s s') v = negIf alg s (negIf alg s' v) := by
  cases s <;> cases s' <;> simp [negIf, hn v]

theorem nonAtomTop_keepTop (L : List (Tok A)) (h : NonAtomTop L) : NonAtomTop (keepTop L) := by
  match L, h with
  | [], _ => trivial
  | .none :: _, _ => trivial
  | .op _ _ :: _, _ => trivial

theorem dropNone_keepTop (L : List (Tok A)) : dropNone (keepTop L) = dropNone L := by
  match L with
  | [] => rfl
  | .none :: _ => rfl
  | .op _ _ :: _ => rfl
  | .atom _ :: _ => rfl

/-- A run of prefix signs in front of a primary is folded pairwise and applied once. -/
theorem sign_run (hn : NegNeg alg) (e : E) (hwf : e.WF) (hl : e.level ≤ 1) :
    ∀ (s : Bool) (L rest : List (Tok A)), NonAtomTop L →
      ∃ c, c ≤ 1 + (flat alg lit 1 e).length ∧
        StepsTo (step dflt alg P1 .unary) c ⟨L, tokS s :: (flat alg lit 1 e ++ rest)⟩
          ⟨.atom (negIf alg s (eval alg lit e)) :: dropNone L, rest⟩ := by
  induction e with
  | sign s' x ih =>
    intro s L rest hL
    obtain ⟨wx, lx⟩ := hwf
    obtain ⟨c, hc, st⟩ := ih wx lx (xor s s') (keepTop L) rest (nonAtomTop_keepTop L hL)
    have s1 := StepsTo.one (step_fold alg s s' L (flat alg lit 1 x ++ rest) hL)
    refine ⟨1 + c, by simp [flat]; omega, ?_⟩
    have := StepsTo.trans s1 st
    simpa [flat, eval, negIf_xor alg hn, dropNone_keepTop] using this
  | bin o x y _ _ =>
    exfalso
    cases o <;> simp [E.level, B2.level] at hl
  | not x _ => simp [E.level] at hl
  | num t =>
    intro s L rest hL
    have prim : flat alg lit 1 (.num t) = [.atom (eval alg lit (.num t))] := rfl
    rw [prim]
    match L, hL with
    | [], _ => exact ⟨1, by simp, by simpa [dropNone] using StepsTo.one (step_apply_nil alg s rest _)⟩
    | .none :: L0, _ =>
      exact ⟨1, by simp, by simpa [dropNone] using StepsTo.one (step_apply_none alg s L0 rest _)⟩
    | .op j a :: L0, _ =>
      have s1 := StepsTo.one (step_apply_op alg s j a L0 rest (eval alg lit (.num t)))
      have s2 := StepsTo.one (step_atom dflt alg P1 .unary (.op j a :: L0) rest
        (negIf alg s (eval alg lit (.num t))))
      exact ⟨2, by simp, by simpa [dropNone] using StepsTo.trans s1 s2⟩
  | fn1 f x _ =>
    intro s L rest hL
    have prim : flat alg lit 1 (.fn1 f x) = [.atom (eval alg lit (.fn1 f x))] := by simp [flat]
    rw [prim]
    match L, hL with
    | [], _ => exact ⟨1, by simp, by simpa [dropNone] using StepsTo.one (step_apply_nil alg s rest _)⟩
    | .none :: L0, _ =>
      exact ⟨1, by simp, by simpa [dropNone] using StepsTo.one (step_apply_none alg s L0 rest _)⟩
    | .op j a :: L0, _ =>
      have s1 := StepsTo.one (step_apply_op alg s j a L0 rest (eval alg lit (.fn1 f x)))
      have s2 := StepsTo.one (step_atom dflt alg P1 .unary (.op j a :: L0) rest
        (negIf alg s (eval alg lit (.fn1 f x))))
      exact ⟨2, by simp, by simpa [dropNone] using StepsTo.trans s1 s2⟩
  | fn2 g x y _ _ =>
    intro s L rest hL
    have prim : flat alg lit 1 (.fn2 g x y) = [.atom (eval alg lit (.fn2 g x y))] := by simp [flat]
    rw [prim]
    match L, hL with
    | [], _ => exact ⟨1, by simp, by simpa [dropNone] using StepsTo.one (step_apply_nil alg s rest _)⟩
    | .none :: L0, _ =>
      exact ⟨1, by simp, by simpa [dropNone] using StepsTo.one (step_apply_none alg s L0 rest _)⟩
    | .op j a :: L0, _ =>
      have s1 := StepsTo.one (step_apply_op alg s j a L0 rest (eval alg lit (.fn2 g x y)))
      have s2 := StepsTo.one (step_atom dflt alg P1 .unary (.op j a :: L0) rest
        (negIf alg s (eval alg lit (.fn2 g x y))))
      exact ⟨2, by simp, by simpa [dropNone] using StepsTo.trans s1 s2⟩

theorem inst_sign_binary (o : B2) :
    isInst dflt P1 (idxOf dflt o.name) = decide (o = .add ∨ o = .sub) := by
  cases o <;> decide

theorem tokB_add : (tokB .add : Tok A) = tokS false := rfl
theorem tokB_sub : (tokB .sub : Tok A) = tokS true := rfl

theorem opTop_dropNone (L : List (Tok A)) (h : OpTop L) : dropNone L = L ∧ NonAtomTop L := by
  match L, h with
  | [], _ => exact ⟨rfl, trivial⟩
  | .op _ _ :: _, _ => exact ⟨rfl, trivial⟩

/-- The sign pass: prefix sign runs are folded and applied, binary `+`/`-` stay. -/
theorem sign_pass (hn : NegNeg alg) (e : E) (hwf : e.WF) :
    ∀ (l rest : List (Tok A)), (leadSign e = true → OpTop l) →
      ∃ c, c ≤ (flat alg lit 1 e).length ∧
        StepsTo (step dflt alg P1 .unary) c ⟨l, flat alg lit 1 e ++ rest⟩
          ⟨(flat alg lit 2 e).reverse ++ l, rest⟩ := by
  induction e with
  | num t =>
    intro l rest _
    exact ⟨1, by simp [flat], by simpa [flat] using StepsTo.one (step_atom dflt alg P1 .unary l rest (lit t))⟩
  | fn1 f e _ =>
    intro l rest _
    exact ⟨1, by simp [flat], by simpa [flat] using StepsTo.one (step_atom dflt alg P1 .unary l rest _)⟩
  | fn2 g a b _ _ =>
    intro l rest _
    exact ⟨1, by simp [flat], by simpa [flat] using StepsTo.one (step_atom dflt alg P1 .unary l rest _)⟩
  | sign s x _ =>
    intro l rest hl
    obtain ⟨wx, lx⟩ := hwf
    obtain ⟨hd, hna⟩ := opTop_dropNone l (hl rfl)
    obtain ⟨c, hc, st⟩ := sign_run alg lit hn x wx lx s l rest hna
    refine ⟨c, by simp [flat]; omega, ?_⟩
    simpa [flat, eval, hd] using st
  | bin o x y ihx ihy =>
    intro l rest hl
    obtain ⟨wx, wy, lx, ly⟩ := hwf
    have h1 : ¬ o.level < 1 := by cases o <;> simp [B2.level]
    have h2 : ¬ o.level < 2 := by cases o <;> simp [B2.level]
    obtain ⟨c1, hc1, s1⟩ := ihx wx l (tokB o :: (flat alg lit 1 y ++ rest)) (by simpa [leadSign] using hl)
    obtain ⟨c2, hc2, s2⟩ := ihy wy (tokB o :: ((flat alg lit 2 x).reverse ++ l)) rest (fun _ => trivial)
    -- the operator token itself: binary `+`/`-` after an atom stays, the others are not signs
    have sm : StepsTo (step dflt alg P1 .unary) 1
        ⟨(flat alg lit 2 x).reverse ++ l, tokB o :: (flat alg lit 1 y ++ rest)⟩
        ⟨tokB o :: ((flat alg lit 2 x).reverse ++ l), flat alg lit 1 y ++ rest⟩ := by
      by_cases hs : o = .add ∨ o = .sub
      · obtain ⟨pre, v, hx⟩ := flat_last alg lit 2 (by omega) x
        obtain ⟨t, ts, hy⟩ := flat_ne_nil alg lit 1 y
        rcases hs with rfl | rfl
        · rw [tokB_add, hx, hy]
          simpa using StepsTo.one (step_binary_sign alg false (pre.reverse ++ l) (ts ++ rest) v t)
        · rw [tokB_sub, hx, hy]
          simpa using StepsTo.one (step_binary_sign alg true (pre.reverse ++ l) (ts ++ rest) v t)
      · have hi : isInst dflt P1 (idxOf dflt o.name) = false := by rw [inst_sign_binary]; simp [hs]
        simpa [tokB] using StepsTo.one (step_skip dflt alg P1 .unary ((flat alg lit 2 x).reverse ++ l)
          (flat alg lit 1 y ++ rest) (idxOf dflt o.name) [] hi)
    refine ⟨c1 + 1 + c2, by simp [flat, h1]; omega, ?_⟩
    have := StepsTo.trans (StepsTo.trans s1 sm) s2
    simpa [flat, h1, h2] using this
  | not x ih =>
    intro l rest _
    obtain ⟨wx, lx⟩ := hwf
    obtain ⟨c2, hc2, s2⟩ := ih wx (tokN :: l) rest (fun _ => trivial)
    have hi : isInst dflt P1 (idxOf dflt "not") = false := inst_not.2.2.1
    have sm := StepsTo.one (step_skip dflt alg P1 .unary l (flat alg lit 1 x ++ rest)
      (idxOf dflt "not") [] hi)
    refine ⟨1 + c2, by simp [flat]; omega, ?_⟩
    have := StepsTo.trans (by simpa [tokN] using sm) (by simpa [tokN] using s2)
    simpa [flat, tokN] using this

end SciVerif.C01
