import SciVerif.Model.C16

/-! Helper lemmas for C16: registered options versus options as written. -/
namespace SciVerif.C16

variable {F : Type}

theorem mapM_some_any {α β : Type} (f : α → Option β) (p : β → Bool) :
    ∀ (l : List α) (rs : List β), l.mapM f = some rs →
      (rs.any p = true ↔ ∃ o ∈ l, ∃ r, f o = some r ∧ p r = true) ∧ (rs = [] ↔ l = []) := by
  intro l
  induction l with
  | nil => intro rs h; simp at h; subst h; simp
  | cons a l ih =>
    intro rs h
    simp only [List.mapM_cons] at h
    cases ha : f a with
    | none => simp [ha] at h
    | some b =>
      cases hl : l.mapM f with
      | none => simp [ha, hl] at h
      | some bs =>
        simp [ha, hl] at h
        subst h
        obtain ⟨ih1, _⟩ := ih bs hl
        constructor
        · simp only [List.any_cons, Bool.or_eq_true, ih1, List.mem_cons]
          constructor
          · rintro (hp | ⟨o, ho, r, hr, hp⟩)
            · exact ⟨a, Or.inl rfl, b, ha, hp⟩
            · exact ⟨o, Or.inr ho, r, hr, hp⟩
          · rintro ⟨o, (rfl | ho), r, hr, hp⟩
            · rw [ha] at hr; cases hr; exact Or.inl hp
            · exact Or.inr ⟨o, ho, r, hr, hp⟩
        · simp

theorem mapM_isSome {α β : Type} (f : α → Option β) (l : List α) (h : ∀ o ∈ l, (f o).isSome) :
    ∃ rs, l.mapM f = some rs := by
  induction l with
  | nil => exact ⟨[], by simp⟩
  | cons a l ih =>
    obtain ⟨rs, hrs⟩ := ih (fun o ho => h o (by simp [ho]))
    have ha := h a (by simp)
    cases hfa : f a with
    | none => simp [hfa] at ha
    | some b => exact ⟨b :: rs, by simp [List.mapM_cons, hfa, hrs]⟩

/-- a registered option compares equal exactly when the written option holds -/
theorem optEq_register (P : Prim F) (n : Node F) (v : Val F) (o r : Opt F)
    (h : register P n o = some r) : optEq P r v = true ↔ optHolds P n v o := by
  cases o with
  | num x u =>
    simp only [register, Option.map_eq_some_iff] at h
    obtain ⟨w, hw, rfl⟩ := h
    cases v with
    | num y uy =>
      simp only [optEq, optHolds, hw, Option.some.injEq]
      constructor
      · intro hc; exact ⟨w, rfl, y, uy, rfl, hc⟩
      · rintro ⟨w', rfl, y', uy', hv, hc⟩; cases hv; exact hc
    | str s =>
      constructor
      · intro hc; simp [optEq] at hc
      · rintro ⟨_, _, _, _, hv, _⟩; cases hv
    | other =>
      constructor
      · intro hc; simp [optEq] at hc
      · rintro ⟨_, _, _, _, hv, _⟩; cases hv
  | str s =>
    simp only [register, Option.some.injEq] at h
    subst h
    cases v with
    | num y uy =>
      constructor
      · intro hc; simp [optEq] at hc
      · intro hv; cases hv
    | str t =>
      constructor
      · intro hc; simp only [optEq, beq_iff_eq] at hc; subst hc; rfl
      · intro hv; cases hv; simp [optEq]
    | other =>
      constructor
      · intro hc; simp [optEq] at hc
      · intro hv; cases hv

theorem castDims_iff (dims : List (Option Nat × Option Nat)) (shape : List Nat) :
    castDims dims shape = true ↔ dimsWithin dims shape := by
  induction dims generalizing shape with
  | nil => simp [castDims, dimsWithin]
  | cons d ds ih =>
    obtain ⟨lo, hi⟩ := d
    cases shape with
    | nil => simp [castDims, dimsWithin]
    | cons s ss =>
      simp only [castDims, Bool.and_eq_true, ih ss, dimsWithin, List.length_cons]
      constructor
      · rintro ⟨⟨hl, hh⟩, hlen, hrest⟩
        refine ⟨by omega, ?_⟩
        intro k hk hk2
        cases k with
        | zero =>
          simp only [List.getElem_cons_zero]
          constructor
          · intro l e; subst e; simpa using hl
          · intro u e; subst e; simpa using hh
        | succ k =>
          simp only [List.getElem_cons_succ]
          exact hrest k (by omega) (by omega)
      · rintro ⟨hlen, hall⟩
        have h0 := hall 0 (by omega) (by omega)
        simp only [List.getElem_cons_zero] at h0
        refine ⟨⟨?_, ?_⟩, by omega, ?_⟩
        · cases lo with
          | none => rfl
          | some l => simpa using h0.1 l rfl
        · cases hi with
          | none => rfl
          | some u => simpa using h0.2 u rfl
        · intro k hk hk2
          have := hall (k + 1) (by omega) (by omega)
          simpa using this

end SciVerif.C16
