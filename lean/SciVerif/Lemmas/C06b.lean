import SciVerif.Lemmas.C06

/-!
Exponent algebra of unit maps (C06): `BaseUnits.__add__/__sub__/__mul__` add, subtract and
scale the exponent of every unit (`BU.expOf`, exponent 0 = unit absent).
-/
namespace SciVerif.C06

set_option linter.unusedSectionVars false

variable {ι : Type} [DecidableEq ι]

/-- dict keys are unique -/
def BU.KeysNodup (b : BU ι) : Prop := (b.map Prod.fst).Nodup

theorem expOf_nil (u : ι) : BU.expOf ([] : BU ι) u = 0 := rfl

theorem expOf_cons (p : ι × Frac) (t : BU ι) (u : ι) :
    BU.expOf (p :: t) u = if p.1 = u then p.2.toRat else BU.expOf t u := by
  by_cases h : p.1 = u <;> simp [BU.expOf, h]

theorem expOf_notin (b : BU ι) (u : ι) (h : u ∉ b.map Prod.fst) : BU.expOf b u = 0 := by
  induction b with
  | nil => rfl
  | cons p t ih =>
    simp only [List.map_cons, List.mem_cons, not_or] at h
    rw [expOf_cons, if_neg (fun e => h.1 e.symm), ih h.2]

theorem expOf_upd (u : ι) (f : Frac → Frac) (g : Frac)
    (hf : ∀ e : Frac, e.den ≠ 0 → (f e).toRat = e.toRat + g.toRat) (b : BU ι) (hb : b.WF) (v : ι) :
    BU.expOf (b.upd u f g) v = BU.expOf b v + if u = v then g.toRat else 0 := by
  induction b with
  | nil => simp [BU.upd, expOf_cons, expOf_nil]
  | cons p t ih =>
    obtain ⟨k, e⟩ := p
    have he : e.den ≠ 0 := hb (k, e) (by simp)
    have ht : BU.WF t := fun q hq => hb q (by simp [hq])
    by_cases hk : k = u
    · subst hk
      simp only [BU.upd, if_true, expOf_cons]
      by_cases hv : k = v
      · simp [hv, hf e he]
      · simp [hv]
    · simp only [BU.upd, hk, if_false, expOf_cons, ih ht]
      by_cases hv : k = v
      · have : ¬ u = v := fun e => hk (hv.trans e.symm)
        simp [hv, this]
      · simp [hv]

theorem keys_upd (u : ι) (f : Frac → Frac) (g : Frac) (b : BU ι) :
    (b.upd u f g).map Prod.fst = if u ∈ b.map Prod.fst then b.map Prod.fst else b.map Prod.fst ++ [u] := by
  induction b with
  | nil => simp [BU.upd]
  | cons p t ih =>
    obtain ⟨k, e⟩ := p
    by_cases hk : k = u
    · subst hk; simp [BU.upd]
    · have hk' : ¬ u = k := fun e => hk e.symm
      simp only [BU.upd, hk, if_false, List.map_cons, ih, List.mem_cons, hk', false_or]
      split <;> simp

theorem upd_nodup (u : ι) (f : Frac → Frac) (g : Frac) (b : BU ι) (hb : b.KeysNodup) :
    (b.upd u f g).KeysNodup := by
  unfold BU.KeysNodup at *
  rw [keys_upd]
  split
  · exact hb
  · rename_i h
    exact List.nodup_append.mpr ⟨hb, by simp, by
      intro a ha b' hb' e
      simp at hb'; subst hb'; subst e; exact h ha⟩

theorem new_nodup (b : BU ι) (hb : b.KeysNodup) : (BU.new b).KeysNodup := by
  unfold BU.KeysNodup BU.new at *
  exact (List.filter_sublist.map _).nodup hb

theorem expOf_new (b : BU ι) (hn : b.KeysNodup) (v : ι) : BU.expOf (BU.new b) v = BU.expOf b v := by
  induction b with
  | nil => rfl
  | cons p t ih =>
    have hn' : BU.KeysNodup t := (List.nodup_cons.mp hn).2
    have hp : p.1 ∉ t.map Prod.fst := (List.nodup_cons.mp hn).1
    by_cases h : p.2.num = 0
    · have e1 : BU.new (p :: t) = BU.new t := by simp [BU.new, h]
      rw [e1, ih hn', expOf_cons]
      split
      · rename_i hv
        rw [← hv, expOf_notin t p.1 hp, toRat_zero_num _ h]
      · rfl
    · have e1 : BU.new (p :: t) = p :: BU.new t := by simp [BU.new, h]
      rw [e1, expOf_cons, expOf_cons, ih hn']

theorem expOf_merge (f : Frac → Frac → Frac) (g : Frac → Frac)
    (hf : ∀ x e : Frac, x.den ≠ 0 → e.den ≠ 0 → (f x e).toRat = e.toRat + (g x).toRat)
    (hfd : ∀ x e : Frac, x.den ≠ 0 → e.den ≠ 0 → (f x e).den ≠ 0)
    (hgd : ∀ x : Frac, x.den ≠ 0 → (g x).den ≠ 0)
    (b a : BU ι) (ha : a.WF) (hb : b.WF) (hna : a.KeysNodup) (hnb : b.KeysNodup) (v : ι) :
    (b.foldl (fun acc p => acc.upd p.1 (f p.2) (g p.2)) a).KeysNodup ∧
    BU.expOf (b.foldl (fun acc p => acc.upd p.1 (f p.2) (g p.2)) a) v =
      BU.expOf a v + BU.expOf (b.map (fun p => (p.1, g p.2))) v := by
  induction b generalizing a with
  | nil => simp [hna, expOf_nil]
  | cons p t ih =>
    have hp : p.2.den ≠ 0 := hb p (by simp)
    have ht : BU.WF t := fun q hq => hb q (by simp [hq])
    have hnt : BU.KeysNodup t := (List.nodup_cons.mp hnb).2
    have hpt : p.1 ∉ t.map Prod.fst := (List.nodup_cons.mp hnb).1
    have hw := upd_WF p.1 (f p.2) (g p.2) (hgd _ hp) (fun e he => hfd _ e hp he) a ha
    obtain ⟨n, m⟩ := ih (a.upd p.1 (f p.2) (g p.2)) hw ht (upd_nodup _ _ _ a hna) hnt
    refine ⟨by simpa using n, ?_⟩
    simp only [List.foldl_cons, List.map_cons]
    rw [m, expOf_upd p.1 (f p.2) (g p.2) (fun e he => hf _ e hp he) a ha, expOf_cons]
    by_cases hv : p.1 = v
    · have : v ∉ (t.map (fun p => (p.1, g p.2))).map Prod.fst := by
        simpa [List.map_map, Function.comp_def, ← hv] using hpt
      simp [hv, expOf_notin _ v this]
    · simp [hv]

theorem expOf_map (g : Frac → Frac) (c : Rat → Rat) (hc0 : c 0 = 0) (hg : ∀ x : Frac, (g x).toRat = c x.toRat)
    (b : BU ι) (v : ι) : BU.expOf (b.map (fun p => (p.1, g p.2))) v = c (BU.expOf b v) := by
  induction b with
  | nil => simp [expOf_nil, hc0]
  | cons p t ih =>
    simp only [List.map_cons, expOf_cons, ih]
    split <;> simp [hg]

end SciVerif.C06
