import SciVerif.Lemmas.C10p

/-! C10: a parenthesis-free chain directly followed by one parenthesised group with an optional
    count (`Ca(OH)2`, `Al2(SO4)3`, `Mg (NO3)2`): pass 1 as a counted sequence of single
    substitutions, passes 2–4. -/
set_option linter.unusedSimpArgs false
set_option linter.unusedVariables false
namespace SciVerif.C10

/-- `w` reaches the pass-1 fixed point `w'` in exactly `n` single substitutions -/
def StepsTo : Nat → Str → Str → Prop
  | 0, w, w' => w = w' ∧ pass1Step w = none
  | n + 1, w, w' => ∃ x, pass1Step w = some x ∧ StepsTo n x w'

theorem pass1_of_steps (n : Nat) : ∀ (w w' : Str) (fuel : Nat), StepsTo n w w' → n ≤ fuel → pass1 fuel w = w' := by
  induction n with
  | zero =>
    intro w w' fuel h _
    obtain ⟨rfl, hn⟩ := h
    exact pass1_of_N1 w hn fuel
  | succ n ih =>
    intro w w' fuel h hf
    obtain ⟨x, hx, hs⟩ := h
    obtain ⟨f, rfl⟩ : ∃ f, fuel = f + 1 := ⟨fuel - 1, by omega⟩
    simp only [pass1, hx]
    exact ih x w' f hs (by omega)

theorem steps_chain (n : Nat) : ∀ (it : Item) (r : Rest), it.OK → restOK r → unres r = n →
    StepsTo n (chainText it r) (chainText it (allPlus r)) := by
  induction n with
  | zero =>
    intro it r hok hr hn
    rw [allPlus_of_unres r hn]
    have hnone : stepChain it r = none := by
      cases hsc : stepChain it r with
      | none => rfl
      | some r' => have := (stepChain_spec r it r' hsc).2; omega
    exact ⟨rfl, by rw [pass1Step_chain r it hok hr, hnone]; rfl⟩
  | succ n ih =>
    intro it r hok hr hn
    cases hsc : stepChain it r with
    | none => have := stepChain_none r it hsc; omega
    | some r' =>
      obtain ⟨e1, e2⟩ := stepChain_spec r it r' hsc
      have hr' : restOK r' := by
        intro gi hgi
        have : (Gap.plus, gi.2) ∈ allPlus r' := by
          simp only [allPlus, List.mem_map]; exact ⟨gi, hgi, rfl⟩
        rw [e1] at this
        simp only [allPlus, List.mem_map] at this
        obtain ⟨x, hx, hxe⟩ := this
        have : x.2 = gi.2 := by simpa using congrArg Prod.snd hxe
        rw [← this]; exact hr x hx
      refine ⟨chainText it r', by rw [pass1Step_chain r it hok hr, hsc]; rfl, ?_⟩
      rw [← e1]
      exact ih it r' hok hr' (by omega)

theorem steps_cons_inert (e : Char) (he : Inert e) (m : Nat) : ∀ (s t : Str), StepsTo m s t →
    StepsTo m (e :: s) (e :: t) := by
  have hstep : ∀ x, pass1Step (e :: x) = (pass1Step x).map (e :: ·) := by
    intro x
    have := pass1Step_inert [e] x (by intro c hc; rw [List.mem_singleton.mp hc]; exact he)
    simpa using this
  induction m with
  | zero =>
    intro s t h
    obtain ⟨rfl, hn⟩ := h
    exact ⟨rfl, by rw [hstep, hn]; rfl⟩
  | succ m ih =>
    intro s t h
    obtain ⟨x, hx, hs⟩ := h
    exact ⟨e :: x, by rw [hstep, hx]; rfl, ih x t hs⟩

/-- a separator: blanks and one parenthesis, or at least one blank and `+` -/
def Sep (q : Str) : Prop :=
  ∃ bl e, q = bl ++ [e] ∧ (∀ c ∈ bl, c = ' ') ∧ (Mark e ∨ (e = '+' ∧ bl ≠ []))

theorem sep_e_facts (e : Char) (he : Mark e ∨ e = '+') : Inert e ∧ isWs e = false := by
  rcases he with he | rfl
  · exact ⟨(mark_facts e he).1, (mark_facts e he).2.2.2.1⟩
  · decide

theorem sep_inert (q : Str) (hq : Sep q) : ∀ c ∈ q, Inert c := by
  obtain ⟨bl, e, rfl, hbl, he⟩ := hq
  intro c hc
  rcases List.mem_append.mp hc with h | h
  · rw [hbl c h]; decide
  · rw [List.mem_singleton.mp h]
    exact (sep_e_facts e (he.imp id (·.1))).1

theorem sep_head (q s : Str) (hq : Sep q) : ∃ x X, q ++ s = x :: X ∧ EndC x := by
  obtain ⟨bl, e, rfl, hbl, he⟩ := hq
  cases bl with
  | nil =>
    rcases he with he | ⟨_, hne⟩
    · exact ⟨e, s, rfl, he.endc⟩
    · exact absurd rfl hne
  | cons b t => exact ⟨b, t ++ [e] ++ s, by simp, by rw [hbl b (by simp)]; exact Or.inr (Or.inr rfl)⟩

theorem dw_sep (q s : Str) (hq : Sep q) (rest : Str) :
    (rest ++ (q ++ s)).dropWhile isWs =
      if rest.dropWhile isWs = [] then (q ++ s).dropWhile isWs else rest.dropWhile isWs ++ (q ++ s) := by
  induction rest with
  | nil => simp
  | cons a t ih =>
    by_cases ha : isWs a = true
    · simp only [List.cons_append, List.dropWhile_cons, ha, if_true]; exact ih
    · simp [List.dropWhile_cons, ha]

theorem startsP_sep (q s : Str) (hq : Sep q) : startsP ((q ++ s).dropWhile isWs) = false := by
  obtain ⟨bl, e, rfl, hbl, he⟩ := hq
  have hws : ∀ c ∈ bl, isWs c = true := by intro c hc; rw [hbl c hc]; decide
  have h := sep_e_facts e (he.imp id (·.1))
  rw [List.append_assoc, List.dropWhile_append_of_pos hws]
  simp only [List.singleton_append, List.dropWhile_cons, h.2, Bool.false_eq_true, if_false]
  exact startsP_inert e s h.1

theorem pass1At_sep (w q s : Str) (hq : Sep q) :
    pass1At (w ++ (q ++ s)) = (pass1At w).map (· ++ (q ++ s)) := by
  obtain ⟨x, X, hX, hx⟩ := sep_head q s hq
  have hmp : ∀ u : Str, matchP (u ++ (q ++ s)) = (matchP u).map (mpExt · (q ++ s)) := by
    intro u; rw [hX]; exact matchP_mark u X x hx
  simp only [pass1At, hmp w]
  cases hm : matchP w with
  | none => rfl
  | some qq =>
    obtain ⟨k, sym, br, dg, rest⟩ := qq
    have hk := matchP_k w _ hm
    simp only [Option.map_some, mpExt, dw_sep q s hq rest]
    by_cases hd : rest.dropWhile isWs = []
    · have h0 : startsP ([] : Str) = false := rfl
      simp only [hd, if_true, startsP_sep q s hq, h0, Bool.false_eq_true, if_false]
      by_cases h2 : k ≥ 2
      · simp only [h2, if_true, Option.map_some]
        rw [List.take_append_of_le_length (by simp at hk ⊢; omega), List.drop_append_of_le_length (by simp at hk ⊢; omega)]
        simp [List.append_assoc]
      · simp [h2]
    · have hst : startsP (rest.dropWhile isWs ++ (q ++ s)) = startsP (rest.dropWhile isWs) := by
        simp [startsP, hmp]
      simp only [hd, if_false, hst]
      by_cases h1 : startsP (rest.dropWhile isWs) = true
      · simp [h1, List.append_assoc]
      · simp only [h1, if_false]
        by_cases h2 : k ≥ 2
        · simp only [h2, if_true, Option.map_some]
          rw [List.take_append_of_le_length (by simp at hk ⊢; omega), List.drop_append_of_le_length (by simp at hk ⊢; omega)]
          simp [List.append_assoc]
        · simp [h2]

/-- one substitution of pass 1 on `w`, blanks, a parenthesis, `s`: inside `w` if possible, else in `s` -/
theorem pass1Step_sep (q s : Str) (hq : Sep q) (w : Str) :
    pass1Step (w ++ (q ++ s)) =
      match pass1Step w with
      | some x => some (x ++ (q ++ s))
      | none => (pass1Step s).map fun y => w ++ (q ++ y) := by
  induction w with
  | nil =>
    have h0 : pass1Step ([] : Str) = none := rfl
    simp [pass1Step_inert q s (sep_inert q hq), h0]
  | cons c r ih =>
    have hA := pass1At_sep (c :: r) q s hq
    have hstep : ∀ x, pass1Step (c :: x) =
        match pass1At (c :: x) with | some s' => some s' | none => (pass1Step x).map (c :: ·) := fun x => rfl
    rw [List.cons_append] at hA ⊢
    rw [hstep (r ++ (q ++ s)), hstep r, hA]
    cases h1 : pass1At (c :: r) with
    | some x => simp
    | none =>
      simp only [Option.map_none, ih]
      cases h2 : pass1Step r with
      | some y => simp
      | none => cases pass1Step s <;> simp

theorem steps_after (w q : Str) (hq : Sep q) (hw : pass1Step w = none) (m : Nat) :
    ∀ (s t : Str), StepsTo m s t → StepsTo m (w ++ (q ++ s)) (w ++ (q ++ t)) := by
  induction m with
  | zero =>
    intro s t h
    obtain ⟨h1, hn⟩ := h
    refine ⟨by rw [h1], ?_⟩
    rw [pass1Step_sep q s hq w, hw, hn]; rfl
  | succ m ih =>
    intro s t h
    obtain ⟨x, hx, hs⟩ := h
    refine ⟨w ++ (q ++ x), ?_, ih x t hs⟩
    rw [pass1Step_sep q s hq w, hw, hx]; rfl

/-- substitutions happen in the text before the separator first, then behind it -/
theorem steps_sep (q : Str) (hq : Sep q) (n : Nat) : ∀ (w w' : Str) (m : Nat) (s t : Str),
    StepsTo n w w' → StepsTo m s t → StepsTo (n + m) (w ++ (q ++ s)) (w' ++ (q ++ t)) := by
  induction n with
  | zero =>
    intro w w' m s t h hs
    obtain ⟨rfl, hn⟩ := h
    rw [Nat.zero_add]
    exact steps_after w q hq hn m s t hs
  | succ n ih =>
    intro w w' m s t h hs
    obtain ⟨x, hx, hxs⟩ := h
    have : n + 1 + m = (n + m) + 1 := by omega
    rw [this]
    exact ⟨x ++ (q ++ s), by rw [pass1Step_sep q s hq w, hx], ih x w' m s t hxs hs⟩

/-! ### pass 3 in front of a group -/

/-- pass 3 with any sufficient fuel -/
def P3 (w tw : Str) : Prop := ∀ fuel, w.length < fuel → pass3 fuel w = tw

theorem P3_of_I3 (w : Str) (h : I3 w) : P3 w w := fun fuel _ => h fuel

theorem P3_copy (c : Char) (r tr : Str) (hl : look3 (c :: r) = true) (h : P3 r tr) : P3 (c :: r) (c :: tr) := by
  intro fuel hf
  cases fuel with
  | zero => simp at hf
  | succ n =>
    simp only [List.length_cons] at hf
    simp only [pass3, List.span_eq_takeWhile_dropWhile]
    simp only [look3] at hl
    split
    · rename_i r3 heq
      rw [heq] at hl
      simp at hl
    · rw [h n (by omega)]

/-- the match of pass 3: a run of ordinary characters, blanks, `(` -/
theorem P3_match (g1 bl r tr : Str) (hg : ∀ c ∈ g1, notSpec3 c = true) (hne : g1 ≠ [])
    (hbl : ∀ c ∈ bl, isWs c = true) (h : P3 r tr) :
    P3 (g1 ++ (bl ++ '(' :: r)) (g1 ++ (symAdd ++ '(' :: tr)) := by
  intro fuel hf
  obtain ⟨c, t, rfl⟩ := List.exists_cons_of_ne_nil hne
  cases fuel with
  | zero => simp at hf
  | succ n =>
    have hbs : ∀ c ∈ bl, notSpec3 c = false := by
      intro c hc; simp [notSpec3, hbl c hc]
    have h1 : ((c :: t) ++ (bl ++ '(' :: r)).takeWhile notSpec3 = c :: t := by
      rw [List.takeWhile_append_of_pos hg]
      cases bl with
      | nil => simp [List.takeWhile_cons, notSpec3]
      | cons b bl' => simp [List.takeWhile_cons, hbs b (by simp)]
    have h2 : ((c :: t) ++ (bl ++ '(' :: r)).dropWhile notSpec3 = bl ++ '(' :: r := by
      rw [List.dropWhile_append_of_pos hg]
      cases bl with
      | nil => simp [List.dropWhile_cons, notSpec3]
      | cons b bl' => simp [List.dropWhile_cons, hbs b (by simp)]
    have h3 : (bl ++ '(' :: r).takeWhile isWs = bl := by
      rw [List.takeWhile_append_of_pos hbl]; simp [List.takeWhile_cons, isWs]
    have h4 : (bl ++ '(' :: r).dropWhile isWs = '(' :: r := by
      rw [List.dropWhile_append_of_pos hbl]; simp [List.dropWhile_cons, isWs]
    have hlen : r.length < n := by
      simp only [List.length_append, List.length_cons] at hf; omega
    simp only [List.cons_append] at h1 h2 ⊢
    simp only [pass3, List.span_eq_takeWhile_dropWhile, h1, h2, h3, h4, h n hlen]
    simp

theorem look3_word (u rest : Str) (hu : ∀ c ∈ u, c ≠ '(' ∧ isWs c = false)
    (hex : ∃ x ∈ u, notSpec3 x = false) : look3 (u ++ rest) = true := by
  induction u with
  | nil => obtain ⟨x, hx, _⟩ := hex; cases hx
  | cons c t ih =>
    have hc := hu c (by simp)
    by_cases hn : notSpec3 c = true
    · rw [List.cons_append, look3_nonspec c _ hn]
      apply ih (fun x hx => hu x (by simp [hx]))
      obtain ⟨x, hx, hxs⟩ := hex
      rcases List.mem_cons.mp hx with rfl | h
      · rw [hn] at hxs; cases hxs
      · exact ⟨x, h, hxs⟩
    · exact look3_stop c _ (by simpa using hn) hc.2 hc.1

/-- a word (no blank, no `(`) ending in an ordinary character, then blanks and `(`: pass 3 inserts ` + ` -/
theorem P3_before (bl r tr : Str) (hbl : ∀ c ∈ bl, isWs c = true) (h : P3 r tr) (l : Char)
    (hl : notSpec3 l = true) (w0 : Str) (hw : ∀ c ∈ w0, c ≠ '(' ∧ isWs c = false) :
    P3 (w0 ++ l :: (bl ++ '(' :: r)) (w0 ++ l :: (symAdd ++ '(' :: tr)) := by
  induction w0 with
  | nil =>
    have := P3_match [l] bl r tr (by intro c hc; rw [List.mem_singleton.mp hc]; exact hl) (by simp) hbl h
    simpa using this
  | cons c t ih =>
    have iht := ih (fun x hx => hw x (by simp [hx]))
    by_cases hall : ∀ x ∈ c :: t, notSpec3 x = true
    · have := P3_match (c :: t ++ [l]) bl r tr (by
        intro x hx
        rcases List.mem_append.mp hx with h | h
        · exact hall x h
        · rw [List.mem_singleton.mp h]; exact hl) (by simp) hbl h
      simpa [List.append_assoc] using this
    · have hex : ∃ x ∈ c :: t, notSpec3 x = false := by
        by_contra hne
        apply hall
        intro x hx
        by_contra hx2
        exact hne ⟨x, hx, by simpa using hx2⟩
      exact P3_copy c _ _ (look3_word (c :: t) _ hw hex) iht

theorem P3_run (w rest trest : Str) (hw : ∀ c ∈ w, c ≠ '(' ∧ isWs c = false) (hl : look3 rest = true)
    (h : P3 rest trest) : P3 (w ++ rest) (w ++ trest) := by
  induction w with
  | nil => exact h
  | cons c t ih =>
    have iht := ih (fun x hx => hw x (by simp [hx]))
    exact P3_copy c _ _ (look3_run (c :: t) rest hw hl) iht

/-- an operator symbol in front of a text that starts with an ordinary character -/
theorem P3_op (x : Char) (hx : x = '+' ∨ x = '*') (a : Char) (t tw : Str) (h : P3 (a :: t) tw)
    (ha : isWs a = false) (hp : a ≠ '(') :
    P3 (' ' :: x :: ' ' :: a :: t) (' ' :: x :: ' ' :: tw) ∧ look3 (' ' :: x :: ' ' :: a :: t) = true := by
  have hx2 : isWs x = false := by rcases hx with rfl | rfl <;> decide
  have hx3 : x ≠ '(' := by rcases hx with rfl | rfl <;> decide
  have hx1 : notSpec3 x = false := by rcases hx with rfl | rfl <;> decide
  have h1 := P3_copy ' ' _ _ (look3_ws_stop a t ha hp) h
  have h2 := P3_copy x _ _ (look3_stop x _ hx1 hx2 hx3) h1
  exact ⟨P3_copy ' ' _ _ (look3_ws_stop x _ hx2 hx3) h2, look3_ws_stop x _ hx2 hx3⟩


theorem P3_op' (x : Char) (hx : x = '+' ∨ x = '*') (w tw : Str) (h : P3 w tw)
    (hw : ∃ a t, w = a :: t ∧ isWs a = false ∧ a ≠ '(') :
    P3 (' ' :: x :: ' ' :: w) (' ' :: x :: ' ' :: tw) ∧ look3 (' ' :: x :: ' ' :: w) = true := by
  obtain ⟨a, t, rfl, ha, hp⟩ := hw
  exact P3_op x hx a t tw h ha hp

theorem notSpec3_word (c : Char) (h : WordCode c.toNat) : notSpec3 c = true := by
  have hp := word_plain c h
  have h1 : c ≠ '+' := by
    apply ne_of_toNat; show c.toNat ≠ 43
    rcases h with h | h | h <;> omega
  simp [notSpec3, hp.2, h1, hp.1.1, hp.1.2.2.2]

theorem shape_last (s : Str) (h : SpeciesShape s) : ∃ w0 l, s = w0 ++ [l] ∧ notSpec3 l = true := by
  obtain ⟨sym, br, rfl, hb, hsym⟩ := h
  rcases hb with rfl | ⟨body, _, _, rfl⟩
  · rcases hsym with ⟨u, hu, rfl⟩ | ⟨u, l, hu, hl, rfl⟩ | ⟨x, _, rfl⟩
    · exact ⟨[], u, by simp, notSpec3_word u (Or.inl (up_range u hu))⟩
    · exact ⟨[u], l, by simp, notSpec3_word l (Or.inr (Or.inl (low_range l hl)))⟩
    · exact ⟨['[', x], ']', by simp, by decide⟩
  · exact ⟨sym ++ '{' :: body, '}', by simp, by decide⟩

theorem dig_look (dg : Str) (hd : AllDig dg) : ∀ c ∈ dg, c ≠ '(' ∧ isWs c = false := by
  intro c hc
  have := word_plain c (Or.inr (Or.inr (dig_range c (hd c hc))))
  exact ⟨this.1.1, this.1.2.2.2⟩

theorem dig_last (dg : Str) (hd : AllDig dg) (hne : dg ≠ []) : ∃ d0 l, dg = d0 ++ [l] ∧ notSpec3 l = true := by
  refine ⟨dg.dropLast, dg.getLast hne, (List.dropLast_concat_getLast hne).symm, ?_⟩
  exact notSpec3_word _ (Or.inr (Or.inr (dig_range _ (hd _ (List.getLast_mem hne)))))

theorem sp_look (it : Item) (hok : it.OK) : ∀ c ∈ it.sp, c ≠ '(' ∧ isWs c = false :=
  plain_look (speciesText_of_shape it.sp hok.1).2.1

theorem sublist_look {w0 w : Str} (l : Char) (e : w = w0 ++ [l]) (h : ∀ c ∈ w, c ≠ '(' ∧ isWs c = false) :
    ∀ c ∈ w0, c ≠ '(' ∧ isWs c = false := fun c hc => h c (by rw [e]; simp [hc])

theorem head_look (w rest : Str) (hne : w ≠ []) (h : ∀ c ∈ w, c ≠ '(' ∧ isWs c = false) :
    ∃ a t, w ++ rest = a :: t ∧ isWs a = false ∧ a ≠ '(' := by
  obtain ⟨a, t, rfl⟩ := List.exists_cons_of_ne_nil hne
  exact ⟨a, t ++ rest, rfl, (h a (by simp)).2, (h a (by simp)).1⟩

theorem sp_ne_nil (it : Item) (hok : it.OK) : it.sp ≠ [] := by
  obtain ⟨⟨c0, t, e, _⟩, _⟩ := speciesText_of_shape it.sp hok.1
  rw [e]; simp

/-- the last item of a chain, in front of blanks and `(` -/
theorem P3_item_final (bl X tX : Str) (hbl : ∀ c ∈ bl, isWs c = true) (hX : P3 X tX) (it : Item)
    (hok : it.OK) :
    P3 (it.expl ++ (bl ++ '(' :: X)) (it.expl ++ (symAdd ++ '(' :: tX)) := by
  have hsl := sp_look it hok
  by_cases hd : it.dg = []
  · obtain ⟨w0, l, e, hl⟩ := shape_last it.sp hok.1
    have := P3_before bl X tX hbl hX l hl w0 (sublist_look l e hsl)
    simpa [Item.expl, hd, e, List.append_assoc] using this
  · obtain ⟨d0, l, e, hl⟩ := dig_last it.dg hok.2 hd
    have hdl := dig_look it.dg hok.2
    have h1 := P3_before bl X tX hbl hX l hl d0 (sublist_look l e hdl)
    have e1 : ∀ z : Str, d0 ++ l :: z = it.dg ++ z := by intro z; rw [e]; simp
    rw [e1, e1] at h1
    obtain ⟨h2, h3⟩ := P3_op' '*' (Or.inr rfl) _ _ h1 (head_look it.dg _ hd hdl)
    have := P3_run it.sp _ _ hsl h3 h2
    have hde : it.dg.isEmpty = false := by
      cases h : it.dg with
      | nil => exact absurd h hd
      | cons a t => rfl
    simpa [Item.expl, hde, symMul, List.append_assoc] using this

/-- an item followed by ` + ` and more text that starts with an ordinary character -/
theorem P3_item_mid (it : Item) (hok : it.OK) (w tw : Str) (h : P3 w tw)
    (hw : ∃ a t, w = a :: t ∧ isWs a = false ∧ a ≠ '(') :
    P3 (it.expl ++ (symAdd ++ w)) (it.expl ++ (symAdd ++ tw)) := by
  have hsl := sp_look it hok
  obtain ⟨h2, h3⟩ := P3_op' '+' (Or.inl rfl) w tw h hw
  by_cases hd : it.dg = []
  · have := P3_run it.sp _ _ hsl h3 h2
    simpa [Item.expl, hd, symAdd, List.append_assoc] using this
  · have hdl := dig_look it.dg hok.2
    have h4 := P3_run it.dg _ _ hdl h3 h2
    obtain ⟨h5, h6⟩ := P3_op' '*' (Or.inr rfl) _ _ h4 (head_look it.dg _ hd hdl)
    have := P3_run it.sp _ _ hsl h6 h5
    have hde : it.dg.isEmpty = false := by
      cases h : it.dg with
      | nil => exact absurd h hd
      | cons a t => rfl
    simpa [Item.expl, hde, symMul, symAdd, List.append_assoc] using this

theorem explChain_head (r : Rest) (it : Item) (hok : it.OK) (rest : Str) :
    ∃ a t, explChain it r ++ rest = a :: t ∧ isWs a = false ∧ a ≠ '(' := by
  have h := head_look it.sp (it.expl.drop it.sp.length ++ (explChain it r).drop it.expl.length ++ rest)
    (sp_ne_nil it hok) (sp_look it hok)
  obtain ⟨a, t, e, h1, h2⟩ := h
  obtain ⟨c0, t0, e0⟩ := List.exists_cons_of_ne_nil (sp_ne_nil it hok)
  rw [e0] at e
  simp only [List.cons_append, List.cons.injEq] at e
  cases r with
  | nil => exact ⟨c0, _, by simp [explChain, Item.expl, e0]; rfl, by rw [e.1]; exact h1, by rw [e.1]; exact h2⟩
  | cons gi t' =>
    obtain ⟨g, it2⟩ := gi
    exact ⟨c0, _, by simp [explChain, Item.expl, e0]; rfl, by rw [e.1]; exact h1, by rw [e.1]; exact h2⟩

theorem P3_explChain (bl X tX : Str) (hbl : ∀ c ∈ bl, isWs c = true) (hX : P3 X tX) (r : Rest) :
    ∀ (it : Item), it.OK → restOK r →
    P3 (explChain it r ++ (bl ++ '(' :: X)) (explChain it r ++ (symAdd ++ '(' :: tX)) := by
  induction r with
  | nil => intro it hok _; exact P3_item_final bl X tX hbl hX it hok
  | cons gi t ih =>
    intro it hok hr
    obtain ⟨g, it2⟩ := gi
    have hok2 : it2.OK := hr (g, it2) (by simp)
    have hr2 : restOK t := fun x hx => hr x (by simp [hx])
    have := P3_item_mid it hok _ _ (ih it2 hok2 hr2) (explChain_head t it2 hok2 _)
    simpa [explChain, List.append_assoc] using this


/-! ### a chain, blanks, one group -/

theorem steps_prefix (p : Str) (hp : ∀ c ∈ p, Inert c) (m : Nat) : ∀ (s t : Str), StepsTo m s t →
    StepsTo m (p ++ s) (p ++ t) := by
  induction p with
  | nil => intro s t h; exact h
  | cons c r ih =>
    intro s t h
    exact steps_cons_inert c (hp c (by simp)) m _ _ (ih (fun x hx => hp x (by simp [hx])) s t h)

/-- pass 2 on a resolved chain followed by `w`, given pass 2 on the last item followed by `w` -/
theorem P2_chain_tail (w tw : Str) (hitem : ∀ it : Item, it.OK → P2 (it.text ++ w) (it.expl ++ tw)) (r : Rest) :
    ∀ (it : Item), it.OK → restOK r →
    P2 (chainText it (allPlus r) ++ w) (explChain it r ++ tw) := by
  induction r with
  | nil =>
    intro it hok _
    have := hitem it hok
    simpa [chainText, allPlus, explChain] using this
  | cons gi t ih =>
    intro it hok hr
    obtain ⟨g, it2⟩ := gi
    have hok2 : it2.OK := hr (g, it2) (by simp)
    have hr2 : restOK t := fun x hx => hr x (by simp [hx])
    have h2 := P2_run symAdd _ _ inert_symAdd (ih it2 hok2 hr2)
    have := P2_item it _ _ hok (follow_symAdd _) (by
      rintro ⟨_, c, r, e, hc⟩
      simp only [symAdd, List.cons_append, List.cons.injEq] at e
      rw [← e.1] at hc; exact absurd hc (by decide)) h2
    simpa [chainText, allPlus, explChain, Gap.text, List.append_assoc] using this

/-- pass 2 on a resolved chain followed by a separator (blanks and a parenthesis) -/
theorem P2_chain_sep (q s ts : Str) (hq : Sep q) (h : P2 s ts) (r : Rest) (it : Item) (hok : it.OK)
    (hr : restOK r) :
    P2 (chainText it (allPlus r) ++ (q ++ s)) (explChain it r ++ (q ++ ts)) := by
  have hqs : P2 (q ++ s) (q ++ ts) := P2_run q s ts (sep_inert q hq) h
  apply P2_chain_tail _ _ _ r it hok hr
  intro it' hok'
  obtain ⟨bl, e, rfl, hbl, he⟩ := hq
  cases bl with
  | nil =>
    simp only [List.nil_append, List.singleton_append] at hqs ⊢
    have he' : Mark e := by
      rcases he with he | ⟨_, hne⟩
      · exact he
      · exact absurd rfl hne
    exact P2_item_mark it' s (e :: ts) e he' hok' hqs
  | cons b t =>
    have hb : b = ' ' := hbl b (by simp)
    subst hb
    refine P2_item it' _ _ hok' (Or.inr ⟨' ', t ++ [e] ++ s, by simp, Or.inr (Or.inr rfl)⟩) ?_ hqs
    rintro ⟨_, c, r', e', hc⟩
    simp only [List.cons_append, List.cons.injEq] at e'
    rw [← e'.1] at hc; exact absurd hc (by decide)


/-- `preprocess` on a chain, any number of blanks, one parenthesised chain with an optional count:
    `Ca(OH)2`, `Al2 (SO4)3`, `Na{23} (O H)` -/
theorem preprocess_chain_group (ita : Item) (ra : Rest) (k : Nat) (itb : Item) (rb : Rest) (dg : Str)
    (hoka : ita.OK) (hra : restOK ra) (hokb : itb.OK) (hrb : restOK rb) (hd : AllDig dg) :
    preprocess (chainText ita ra ++ (List.replicate k ' ' ++ '(' :: (chainText itb rb ++ ')' :: dg))) =
      explChain ita ra ++ (symAdd ++ '(' :: (explChain itb rb ++
        ')' :: (if dg.isEmpty then [] else symMul ++ dg))) := by
  have hblk : ∀ c ∈ List.replicate k ' ', c = ' ' := fun c hc => List.eq_of_mem_replicate hc
  have hblw : ∀ c ∈ List.replicate k ' ', isWs c = true := by intro c hc; rw [hblk c hc]; decide
  have hq1 : Sep (List.replicate k ' ' ++ ['(']) := ⟨_, '(', rfl, hblk, Or.inl (Or.inl rfl)⟩
  have hq2 : Sep [')'] := ⟨[], ')', rfl, by simp, Or.inl (Or.inr rfl)⟩
  have hdi : ∀ c ∈ dg, Inert c := fun c hc => inert_of_isDig c (hd c hc)
  have hdp : ∀ c ∈ dg, c ≠ '(' ∧ c ≠ ')' := by
    intro c hc
    have := word_plain c (Or.inr (Or.inr (dig_range c (hd c hc))))
    exact ⟨this.1.1, this.1.2.1⟩
  -- pass 1
  have hn1 : StepsTo 0 dg dg := by
    have := N1_run dg [] hdi N1_nil
    exact ⟨rfl, by simpa [N1] using this⟩
  have sB := steps_sep [')'] hq2 (unres rb) _ _ 0 dg dg (steps_chain (unres rb) itb rb hokb hrb rfl) hn1
  have sAll := steps_sep _ hq1 (unres ra) _ _ _ _ _ (steps_chain (unres ra) ita ra hoka hra rfl) sB
  simp only [List.append_assoc, List.singleton_append] at sAll
  have hua := unres_le ra ita
  have hub := unres_le rb itb
  have hla := length_le_chainText ra ita hoka hra
  have hlb := length_le_chainText rb itb hokb hrb
  have h1 := pass1_of_steps _ _ _ (2 * (chainText ita ra ++ (List.replicate k ' ' ++ '(' :: (chainText itb rb ++ ')' :: dg))).length + 2)
    sAll (by simp only [List.length_append, List.length_cons]; omega)
  -- pass 2
  have hp2d : P2 dg dg := by
    have := P2_run dg [] [] hdi P2_nil
    simpa using this
  have p2B := P2_chain_sep [')'] dg dg hq2 hp2d rb itb hokb hrb
  have p2All := P2_chain_sep _ _ _ hq1 p2B ra ita hoka hra
  simp only [List.append_assoc, List.singleton_append] at p2All
  -- pass 3
  have hnpa := explChain_noparen ra ita hoka hra
  have hnpb := explChain_noparen rb itb hokb hrb
  have hX : P3 (explChain itb rb ++ ')' :: dg) (explChain itb rb ++ ')' :: dg) := by
    apply P3_of_I3
    intro fuel
    apply pass3_noparen
    intro c hc
    rcases List.mem_append.mp hc with h | h
    · exact (hnpb c h).1
    · rcases List.mem_cons.mp h with rfl | h
      · decide
      · exact (hdp c h).1
  have p3All := P3_explChain (List.replicate k ' ') _ _ hblw hX ra ita hoka hra
  -- pass 4
  have hw : ∀ c ∈ explChain ita ra ++ (symAdd ++ '(' :: explChain itb rb), c ≠ ')' := by
    intro c hc
    rcases List.mem_append.mp hc with h | h
    · exact (hnpa c h).2
    · rcases List.mem_append.mp h with h | h
      · have : ∀ c ∈ symAdd, c ≠ ')' := by decide
        exact this c h
      · rcases List.mem_cons.mp h with rfl | h
        · decide
        · exact (hnpb c h).2
  simp only [preprocess, h1]
  rw [p2All _ (by omega), p3All _ (by omega)]
  have e : explChain ita ra ++ (symAdd ++ '(' :: (explChain itb rb ++ ')' :: dg)) =
      (explChain ita ra ++ (symAdd ++ '(' :: explChain itb rb)) ++ ')' :: dg := by
    simp [List.append_assoc]
  have e2 : ((explChain ita ra ++ (symAdd ++ '(' :: explChain itb rb)) ++ ')' :: dg).length + 1 =
      (explChain ita ra ++ (symAdd ++ '(' :: explChain itb rb)).length + (dg.length + 1 + 1) := by
    simp only [List.length_cons, List.length_append]; omega
  rw [e, e2, pass4_copy _ _ hw, pass4_close dg hd]
  simp [List.append_assoc]


/-- a parenthesis-free formula, any number of blanks, one parenthesised parenthesis-free group
    without or with a count: `Ca(OH)2`, `Al2 (SO4)3` -/
def F.chainGroup : F → Prop
  | .seq _ a b => a.flat ∧ b.group1
  | _ => False

theorem preprocess_chainGroup (f : F) (hf : f.chainGroup) (hs : f.spAll SpeciesShape) :
    preprocess (render f) = renderExplicit f := by
  cases f with
  | seq ws a b =>
    obtain ⟨ha, hb⟩ := hf
    obtain ⟨a1, a2, a3, a4⟩ := toChain_spec a ha hs.1
    cases b with
    | group g =>
      obtain ⟨h1, h2, h3, h4⟩ := toChain_spec g hb hs.2
      have := preprocess_chain_group _ _ ws _ _ [] a3 a4 h3 h4 (by intro c hc; cases hc)
      simp only [render, renderExplicit, a1, a2, h1, h2]
      simpa [List.append_assoc] using this
    | count f' n =>
      cases f' with
      | group g =>
        obtain ⟨h1, h2, h3, h4⟩ := toChain_spec g hb hs.2
        have hne : (digitsOf n).isEmpty = false := by
          cases h : digitsOf n with
          | nil => exact absurd h (digitsOf_ne_nil n)
          | cons a t => rfl
        have := preprocess_chain_group _ _ ws _ _ (digitsOf n) a3 a4 h3 h4 (allDig_digitsOf n)
        simp only [render, renderExplicit, a1, a2, h1, h2]
        simpa [hne, List.append_assoc] using this
      | _ => exact absurd hb (by simp [F.group1])
    | _ => exact absurd hb (by simp [F.group1])
  | _ => exact absurd hf (by simp [F.chainGroup])

theorem render_chainGroup_ne_nil (f : F) (hf : f.chainGroup) (hs : f.spAll SpeciesShape) : render f ≠ [] := by
  cases f with
  | seq ws a b =>
    have := render_flat_ne_nil a hf.1 hs.1
    simp [render, this]
  | _ => exact absurd hf (by simp [F.chainGroup])

end SciVerif.C10
