import SciVerif.Model.C12
import SciVerif.Lemmas.C11

/-! Helper lemmas for C12: `Matter._norm` as a state transformer, closed form of a history. -/
set_option linter.unusedSectionVars false
namespace SciVerif.C12
open SciVerif.C11
variable {α : Type} [Field α] [LinearOrder α] [IsStrictOrderedRing α]

/-- closed form of the state after `_norm` when a mass density `r` was attached -/
def finalR (da M r : α) (vol : Option α) : MState α :=
  ⟨some r, some (r / M / da), vol, vol.map (fun V => r * V), false⟩

/-- closed form of the state after `_norm` when only a number density `v` was attached -/
def finalN (da M v : α) (vol : Option α) : MState α :=
  ⟨some (v * M * da), some v, vol, vol.map (fun V => v * M * da * V), true⟩

/-- states reachable when the mass density `r` was attached -/
def ReachR (r : α) (vol : Option α) (s : MState α) : Prop :=
  s.rho = some r ∧ s.vol = vol ∧ s.numberGiven = false ∧ (vol = none → s.mass = none)

/-- states reachable when only the number density `v` was attached -/
def ReachN (v : α) (vol : Option α) (s : MState α) : Prop :=
  s.n = some v ∧ s.vol = vol ∧ s.numberGiven = true ∧ (vol = none → s.mass = none)

theorem normStep_R (da M r : α) (vol : Option α) (s : MState α) (h : ReachR r vol s) :
    normStep da (some M) s = some (finalR da M r vol) := by
  obtain ⟨rho, n, vol', mass, g⟩ := s
  obtain ⟨h1, h2, h3, h4⟩ := h
  simp only at h1 h2 h3 h4
  subst h1 h2 h3
  cases vol' with
  | none => simp [normStep, finalR, h4 rfl]
  | some V => simp [normStep, finalR]

theorem normStep_N (da M v : α) (vol : Option α) (s : MState α) (h : ReachN v vol s) :
    normStep da (some M) s = some (finalN da M v vol) := by
  obtain ⟨rho, n, vol', mass, g⟩ := s
  obtain ⟨h1, h2, h3, h4⟩ := h
  simp only at h1 h2 h3 h4
  subst h1 h2 h3
  cases vol' with
  | none => simp [normStep, finalN, h4 rfl]
  | some V => simp [normStep, finalN]

theorem reachR_final (da M r : α) (vol : Option α) : ReachR r vol (finalR da M r vol) :=
  ⟨rfl, rfl, rfl, fun h => by simp [finalR, h]⟩

theorem reachN_final (da M v : α) (vol : Option α) : ReachN v vol (finalN da M v vol) :=
  ⟨rfl, rfl, rfl, fun h => by simp [finalN, h]⟩

/-- any history of `_norm` calls with proper masses ends in the closed form of its last mass -/
theorem runHistory_R (da r : α) (vol : Option α) (Ms : List α) (M : α) (s : MState α)
    (h : ReachR r vol s) :
    runHistory da (Ms.map some ++ [some M]) s = some (finalR da M r vol) := by
  induction Ms generalizing s with
  | nil => simp [runHistory, normStep_R da M r vol s h]
  | cons a t ih =>
    simp only [List.map_cons, List.cons_append, runHistory, normStep_R da a r vol s h]
    exact ih _ (reachR_final da a r vol)

theorem runHistory_N (da v : α) (vol : Option α) (Ms : List α) (M : α) (s : MState α)
    (h : ReachN v vol s) :
    runHistory da (Ms.map some ++ [some M]) s = some (finalN da M v vol) := by
  induction Ms generalizing s with
  | nil => simp [runHistory, normStep_N da M v vol s h]
  | cons a t ih =>
    simp only [List.map_cons, List.cons_append, runHistory, normStep_N da a v vol s h]
    exact ih _ (reachN_final da a v vol)

theorem reachR_init (qr : Q α) (n vol : Option (Q α)) :
    ReachR qr.std (vol.map Q.std) (MState.init (some qr) n vol) :=
  ⟨rfl, rfl, by simp [MState.init], fun _ => rfl⟩

theorem reachN_init (qn : Q α) (vol : Option (Q α)) :
    ReachN qn.std (vol.map Q.std) (MState.init none (some qn) vol) :=
  ⟨rfl, rfl, by simp [MState.init], fun _ => rfl⟩

/-- the two construction histories in the number modes -/
theorem dictHistory_eq (mode : Mode) (hm : mode ≠ .massFraction) (cs : List (Comp α)) :
    dictHistory mode cs =
      ((List.range cs.length).map fun i => compositeMass mode (cs.take (i + 1))).map some ++
        [some (compositeMass mode cs)] := by
  cases mode
  · simp [dictHistory, compositeMassQ, List.map_map, Function.comp_def]
  · simp [dictHistory, compositeMassQ, List.map_map, Function.comp_def]
  · exact absurd rfl hm

theorem stringHistory_eq (mode : Mode) (hm : mode ≠ .massFraction) (cs : List (Comp α)) :
    stringHistory mode cs = ([] : List α).map some ++ [some (compositeMass mode cs)] := by
  cases mode
  · simp [stringHistory, compositeMassQ]
  · simp [stringHistory, compositeMassQ]
  · exact absurd rfl hm

/-- column sums -/
theorem sum_nCol (cs : List (Comp α)) (n : α) : (nCol cs n).sum = (cs.map (·.p)).sum * n := by
  simp only [nCol]; rw [sum_map_mul_right]

theorem sum_rhoCol (da : α) (cs : List (Comp α)) (n : α) :
    (rhoCol da cs n).sum = (cs.map fun c => c.p * c.m).sum * n * da := by
  simp only [rhoCol]
  rw [sum_map_mul_right, sum_map_mul_right]

theorem sum_map_id_mul_right (l : List α) (k : α) : (l.map (· * k)).sum = l.sum * k := by
  have := sum_map_mul_right l id k
  simpa using this

theorem compositeMass_number (mode : Mode) (hm : mode ≠ .massFraction) (cs : List (Comp α)) :
    compositeMass mode cs = (cs.map fun c => c.p * c.m).sum := by
  cases mode
  · rfl
  · rfl
  · exact absurd rfl hm

theorem propNorm_number (mode : Mode) (hm : mode ≠ .massFraction) (cs : List (Comp α)) :
    propNorm mode cs = (cs.map (·.p)).sum := by
  cases mode
  · rfl
  · rfl
  · exact absurd rfl hm

end SciVerif.C12
