import SciVerif.Lemmas.C18
import SciVerif.Model.C18Num
import SciVerif.Model.C18Log
import SciVerif.Generated.C18Tables

/-!
The regenerated step tables of the two DIP solver instances, unfolded into explicit pass chains,
and the resulting evaluation lemmas (C18).
-/
namespace SciVerif.C18

variable {F A : Type}

def numKeys : List String := Generated.numTable.map (·.key)
def logKeys : List String := Generated.logTable.map (·.key)

def numArgOps : List String := ["log", "log10", "logb", "exp", "sqrt", "powb", "sin", "cos", "tan", "par"]

/-! ### numerical -/

theorem numKeys_eq : numKeys = ["log", "log10", "logb", "exp", "sqrt", "powb", "sin", "cos", "tan", "par",
    "pow", "mul", "truediv", "add", "sub"] := by decide

/-- The step loop of the numerical instance, as regenerated from the code, is this chain of passes. -/
theorem num_runSteps (N : NumOps F) (t : Toks (QV F)) :
    runSteps (numSem N) numKeys Generated.numSteps t =
      (signPass (numSem N).neg ["add", "sub"] [] (argsPass (numFn N) numArgOps t)).bind fun t1 =>
      (binPass (fun o => if o ∈ ["pow"] then numBin N o else none) [] t1).bind fun t2 =>
      (binPass (fun o => if o ∈ ["mul", "truediv"] then numBin N o else none) [] t2).bind fun t3 =>
      binPass (fun o => if o ∈ ["add", "sub"] then numBin N o else none) [] t3 := by
  rw [numKeys_eq]
  simp [runSteps, runStep, Generated.numSteps, numArgOps, numSem]

theorem num_okBin {o : String} (h : numGrammar.okBin o = true) :
    o = "pow" ∨ o = "mul" ∨ o = "truediv" ∨ o = "add" ∨ o = "sub" := by
  simpa [numGrammar, or_assoc] using h

abbrev numEval (N : NumOps F) (av : A → QV F) (e : E A) : QV F :=
  e.eval (numSem N) (numBinSem N) (numPreSem N) av

theorem num_okPre {u : String} (h : numGrammar.okPre u = true) : u = "add" ∨ u = "sub" := by
  simpa [numGrammar] using h

theorem num_top_le (e : E A) (hw : e.WF numGrammar) : e.top numGrammar ≤ 4 := by
  cases e with
  | pre u e => simp [E.top, numGrammar]
  | bin o l r =>
    rcases num_okBin hw.1 with rfl | rfl | rfl | rfl | rfl <;> simp [E.top, numGrammar]
  | _ => simp [E.top]

/-- All steps on the token list of a well-formed numerical tree (arguments already solved to
    their tree values) leave exactly the tree value. -/
theorem num_machine (N : NumOps F) (av : A → QV F) (e : E A) (hw : e.WF numGrammar) :
    machine (numSem N) numKeys Generated.numSteps (e.toks (numEval N av) av) =
      some (.atom (numEval N av e)) := by
  have ha : argsPass (numFn N) numArgOps (e.toks (numEval N av) av) =
      e.collapse (numSem N) (numBinSem N) (numPreSem N) av numGrammar 0 := by
    apply argsPass_toks (numSem N) (numBinSem N) (numPreSem N) av numGrammar numArgOps (by decide)
    · intro f hf
      simp [numGrammar] at hf
      rcases hf with ((((((rfl | rfl) | rfl) | rfl) | rfl) | rfl) | rfl) <;> decide
    · intro f hf
      simp [numGrammar] at hf
      rcases hf with rfl | rfl <;> decide
    · exact hw
  have hs := signPass_collapse (numSem N) (numBinSem N) (numPreSem N) av numGrammar (numSem N).neg ["add", "sub"]
    (by intro u hu
        rcases num_okPre hu with rfl | rfl
        · refine ⟨by decide, rfl, ?_⟩; funext q; simp [numPreSem]
        · refine ⟨by decide, rfl, ?_⟩; funext q; simp [numPreSem])
    (by intro o ho; rcases num_okBin ho with rfl | rfl | rfl | rfl | rfl <;> simp [numGrammar])
    e hw [] [] trivial
  have hs' : signPass (numSem N).neg ["add", "sub"] []
      (e.collapse (numSem N) (numBinSem N) (numPreSem N) av numGrammar 0) =
      some (e.collapse (numSem N) (numBinSem N) (numPreSem N) av numGrammar 1) := by
    simp only [List.append_nil] at hs
    rw [hs, signPass]; simp
  have h2 := binPass_collapse_all (numSem N) (numBinSem N) (numPreSem N) av numGrammar 2 (by omega)
    (fun o => if o ∈ ["pow"] then numBin N o else none)
    (by intro o ho; rcases num_okBin ho with rfl | rfl | rfl | rfl | rfl <;> simp [numGrammar, numBin, numBinSem])
    (by intro u hu h; simp [numGrammar] at h) e hw
  have h3 := binPass_collapse_all (numSem N) (numBinSem N) (numPreSem N) av numGrammar 3 (by omega)
    (fun o => if o ∈ ["mul", "truediv"] then numBin N o else none)
    (by intro o ho; rcases num_okBin ho with rfl | rfl | rfl | rfl | rfl <;> simp [numGrammar, numBin, numBinSem])
    (by intro u hu h; simp [numGrammar] at h) e hw
  have h4 := binPass_collapse_all (numSem N) (numBinSem N) (numPreSem N) av numGrammar 4 (by omega)
    (fun o => if o ∈ ["add", "sub"] then numBin N o else none)
    (by intro o ho; rcases num_okBin ho with rfl | rfl | rfl | rfl | rfl <;> simp [numGrammar, numBin, numBinSem])
    (by intro u hu h; simp [numGrammar] at h) e hw
  have hc := collapse_of_top_le (numSem N) (numBinSem N) (numPreSem N) av numGrammar 4 e (num_top_le e hw)
  simp only [Nat.add_one_sub_one, Nat.reduceSub] at h2 h3 h4
  simp only [machine, num_runSteps, ha, hs', Option.bind_some, h2, h3, h4, hc]

theorem num_finish (N : NumOps F) (av : A → QV F) (e : E A) (hw : e.WF numGrammar) :
    finish (numSem N) numKeys Generated.numSteps (e.toks (numEval N av) av) = some (numEval N av e) := by
  simp [finish, num_machine N av e hw]

/-- Tokenising a well-formed tree (solving parenthesised parts recursively) yields its token list
    with every argument equal to the tree value of the argument. -/
theorem num_tk (N : NumOps F) (av : A → QV F) (e : E A) (hw : e.WF numGrammar) :
    e.tk (numSem N) numKeys Generated.numSteps av = some (e.toks (numEval N av) av) := by
  induction e with
  | lit a => rfl
  | par e ih => simp [E.tk, ih hw, num_finish N av e hw, E.toks]
  | fn1 f a ih => simp [E.tk, ih hw.2, num_finish N av a hw.2, E.toks]
  | fn2 f a b iha ihb =>
    simp [E.tk, iha hw.2.1, ihb hw.2.2, num_finish N av a hw.2.1, num_finish N av b hw.2.2, E.toks]
  | pre u e ih => simp [E.tk, ih hw.2.2.2, E.toks]
  | bin o l r ihl ihr =>
    obtain ⟨_, _, _, _, hwl, hwr⟩ := hw
    simp [E.tk, ihl hwl, ihr hwr, E.toks]

/-! ### logical -/

theorem logKeys_eq : logKeys = ["par", "eq", "ne", "not", "le", "ge", "lt", "gt", "and", "or"] := by decide

def cmpKeys : List String := ["eq", "ne", "le", "ge", "lt", "gt"]

theorem log_runSteps (C : CmpOps F) (t : Toks (LV F)) :
    runSteps (logSem C) logKeys Generated.logSteps t =
      (binPass (fun o => if o ∈ cmpKeys then logBin C o else none) [] (argsPass logFn ["par"] t)).bind fun t1 =>
      (prePass (fun o => if o ∈ ["not"] then logPre o else none) [] t1).bind fun t2 =>
      (binPass (fun o => if o ∈ ["and"] then logBin C o else none) [] t2).bind fun t3 =>
      binPass (fun o => if o ∈ ["or"] then logBin C o else none) [] t3 := by
  rw [logKeys_eq]
  simp [runSteps, runStep, Generated.logSteps, logSem, cmpKeys]

theorem log_okBin {o : String} (h : logGrammar.okBin o = true) :
    o = "eq" ∨ o = "ne" ∨ o = "le" ∨ o = "ge" ∨ o = "lt" ∨ o = "gt" ∨ o = "and" ∨ o = "or" := by
  simpa [logGrammar, isCmp, or_assoc] using h

theorem log_okPre {u : String} (h : logGrammar.okPre u = true) : u = "not" := by
  simpa [logGrammar] using h

abbrev logEval (C : CmpOps F) (av : A → LV F) (e : E A) : LV F :=
  e.eval (logSem C) (logBinSem C) logPreSem av

theorem log_top_le (e : E A) (hw : e.WF logGrammar) : e.top logGrammar ≤ 4 := by
  cases e with
  | pre u e => rw [log_okPre hw.1]; simp [E.top, logGrammar, isCmp]
  | bin o l r =>
    rcases log_okBin hw.1 with rfl | rfl | rfl | rfl | rfl | rfl | rfl | rfl <;> simp [E.top, logGrammar, isCmp]
  | _ => simp [E.top]

theorem log_machine (C : CmpOps F) (av : A → LV F) (e : E A) (hw : e.WF logGrammar) :
    machine (logSem C) logKeys Generated.logSteps (e.toks (logEval C av) av) =
      some (.atom (logEval C av e)) := by
  have ha : argsPass logFn ["par"] (e.toks (logEval C av) av) =
      e.collapse (logSem C) (logBinSem C) logPreSem av logGrammar 0 := by
    apply argsPass_toks (logSem C) (logBinSem C) logPreSem av logGrammar ["par"] (by decide)
    · intro f hf; simp [logGrammar] at hf
    · intro f hf; simp [logGrammar] at hf
    · exact hw
  have h1 := binPass_collapse_all (logSem C) (logBinSem C) logPreSem av logGrammar 1 (by omega)
    (fun o => if o ∈ cmpKeys then logBin C o else none)
    (by intro o ho
        rcases log_okBin ho with rfl | rfl | rfl | rfl | rfl | rfl | rfl | rfl <;>
          simp [logGrammar, logBin, logBinSem, isCmp, cmpKeys])
    (by intro u hu _; rw [log_okPre hu]; simp [logGrammar, isCmp, cmpKeys]) e hw
  have h2 := prePass_collapse_all (logSem C) (logBinSem C) logPreSem av logGrammar 2 (by omega)
    (fun o => if o ∈ ["not"] then logPre o else none)
    (by intro u hu; rw [log_okPre hu]; simp [logGrammar, logPre, logPreSem, isCmp])
    (by intro o ho
        rcases log_okBin ho with rfl | rfl | rfl | rfl | rfl | rfl | rfl | rfl <;>
          simp [logGrammar, isCmp]) e hw
  have h3 := binPass_collapse_all (logSem C) (logBinSem C) logPreSem av logGrammar 3 (by omega)
    (fun o => if o ∈ ["and"] then logBin C o else none)
    (by intro o ho
        rcases log_okBin ho with rfl | rfl | rfl | rfl | rfl | rfl | rfl | rfl <;>
          simp [logGrammar, logBin, logBinSem, isCmp])
    (by intro u hu _; rw [log_okPre hu]; simp [logGrammar, isCmp]) e hw
  have h4 := binPass_collapse_all (logSem C) (logBinSem C) logPreSem av logGrammar 4 (by omega)
    (fun o => if o ∈ ["or"] then logBin C o else none)
    (by intro o ho
        rcases log_okBin ho with rfl | rfl | rfl | rfl | rfl | rfl | rfl | rfl <;>
          simp [logGrammar, logBin, logBinSem, isCmp])
    (by intro u hu _; rw [log_okPre hu]; simp [logGrammar, isCmp]) e hw
  have hc := collapse_of_top_le (logSem C) (logBinSem C) logPreSem av logGrammar 4 e (log_top_le e hw)
  simp only [Nat.sub_self, Nat.add_one_sub_one] at h1 h2 h3 h4
  simp only [machine, log_runSteps, ha, h1, Option.bind_some, h2, h3, h4, hc]

theorem log_finish (C : CmpOps F) (av : A → LV F) (e : E A) (hw : e.WF logGrammar) :
    finish (logSem C) logKeys Generated.logSteps (e.toks (logEval C av) av) = some (logEval C av e) := by
  simp [finish, log_machine C av e hw]

theorem log_tk (C : CmpOps F) (av : A → LV F) (e : E A) (hw : e.WF logGrammar) :
    e.tk (logSem C) logKeys Generated.logSteps av = some (e.toks (logEval C av) av) := by
  induction e with
  | lit a => rfl
  | par e ih => simp [E.tk, ih hw, log_finish C av e hw, E.toks]
  | fn1 f a ih => have := hw.1; simp [logGrammar] at this
  | fn2 f a b iha ihb => have := hw.1; simp [logGrammar] at this
  | pre u e ih => simp [E.tk, ih hw.2.2.2, E.toks]
  | bin o l r ihl ihr =>
    obtain ⟨_, _, _, _, hwl, hwr⟩ := hw
    simp [E.tk, ihl hwl, ihr hwr, E.toks]

end SciVerif.C18
