import SciVerif.Lemmas.C15

/-! The main induction of C15: running the state machine over a rendered program tree.

Frame invariant.  While the lines of an item sequence written at indent `k` are processed,
the part `B` of the stack of open branches and the part `P` of the hierarchy that lie below
indent `k` never change; whatever deeper lines left on top of them is removed by the next
line at indent `k` (`closeGE k s.state = B`, `popGE k s.parents = P`).  The lines of the
sequence take effect iff `falseCase B = false`, i.e. iff every enclosing clause is selected.
A block written in compact form (`pfx.@case`) is told apart from a neighbouring block by its
path `fullName P ++ nms pfx`. -/
namespace SciVerif.C15

theorem nms_inj {a b : List String} (h : nms a = nms b) : a = b := by
  induction a generalizing b with
  | nil => cases b <;> simp_all [nms]
  | cons x xs ih =>
    cases b with
    | nil => simp [nms] at h
    | cons y ys =>
      simp only [nms, List.map_cons, List.cons.injEq, Comp.nm.injEq] at h
      rw [h.1, ih (b := ys) (by simpa [nms] using h.2)]

theorem path_ne {P : List (Nat × List Comp)} {a b : List String} (h : a ≠ b) :
    fullName P ++ nms a ≠ fullName P ++ nms b :=
  fun e => h (nms_inj (List.append_cancel_left e))

/-- A block of this indent but another path is open: it is closed, the clause opens a new one. -/
theorem closeFor_other {k : Nat} {path : List Comp} {st B : List Branch} {blk : Branch}
    (h : closeGE (k + 1) st = blk :: B) (hi : blk.cur.indent = k) (hp : blk.cur.path ≠ path)
    (hb : Below k B) : closeFor k path st = (B, false) := by
  induction st with
  | nil => simp [closeGE] at h
  | cons b bs ih =>
    by_cases hge : k + 1 ≤ b.cur.indent
    · simp only [closeGE, hge, if_true] at h
      have h1 : ¬ b.cur.indent < k := by omega
      have h2 : ¬ (b.cur.indent = k ∧ b.cur.path = path) := by omega
      simp [closeFor, h1, h2, ih h]
    · simp only [closeGE, hge, if_false] at h
      injection h with h1 h2
      subst h1 h2
      have h3 : ¬ b.cur.indent < k := by omega
      have h4 : ¬ (b.cur.indent = k ∧ b.cur.path = path) := fun e => hp e.2
      simp only [closeFor, h3, h4, if_false]
      exact closeFor_new (closeGE_of_below (hb.mono (Nat.le_succ k))) hb

theorem needsEnd_or (a : Option (List String)) (q : List String) : needsEnd a (some q) = true ∨ a ≠ some q := by
  cases a with
  | none => right; simp
  | some x =>
    by_cases h : x = q
    · left; simp [needsEnd, h]
    · right; simp [h]

/-- Statement of the induction for an item sequence. -/
def ItemsOK (is : Items) : Prop :=
  ∀ (k : Nat) (s : St) (B : List Branch) (P : List (Nat × List Comp)),
    Below k B → BelowP k P → closeGE k s.state = B → popGE k s.parents = P →
    (∀ q, is.firstPfx = some q → closeFor k (fullName P ++ nms q) s.state = (B, false)) →
    ∃ s', run s (is.render k) = .ok (s', if falseCase B then [] else is.sem (cleanName (fullName P))) ∧
      closeGE k s'.state = B ∧ popGE k s'.parents = P

def ItemOK (i : Item) : Prop :=
  ∀ (k : Nat) (s : St) (B : List Branch) (P : List (Nat × List Comp)) (fe : Bool),
    Below k B → BelowP k P → closeGE k s.state = B → popGE k s.parents = P →
    (∀ q, i.blockPfx = some q → closeFor k (fullName P ++ nms q) s.state = (B, false)) →
    ∃ s', run s (i.render k fe) = .ok (s', if falseCase B then [] else i.sem (cleanName (fullName P))) ∧
      closeGE k s'.state = B ∧ popGE k s'.parents = P ∧
      (∀ q, (fe = true ∨ i.blockPfx ≠ some q) → closeFor k (fullName P ++ nms q) s'.state = (B, false))

/-- Inside the block `blk` (written at indent `k` with parent `pfx`, current clause a `@case`),
    after a clause body. -/
def ChainOK (ch : Chain) : Prop :=
  ∀ (k : Nat) (s : St) (B : List Branch) (P : List (Nat × List Comp)) (pfx : List String) (blk : Branch)
    (fe : Bool),
    Below k B → BelowP k P → closeGE (k + 1) s.state = blk :: B → blk.cur.indent = k →
    blk.cur.path = fullName P ++ nms pfx → blk.cur.ctype = .case → popGE k s.parents = P →
    ∃ s', run s (ch.render k pfx fe) =
        .ok (s', (if falseCase B || anyTrue blk then [] else ch.sem (cleanName (fullName P) ++ pfx)) ++
                 (if falseCase B then [] else ch.tail (cleanName (fullName P) ++ pfx))) ∧
      closeGE k s'.state = B ∧ popGE k s'.parents = P ∧
      (∀ q, (fe = true ∨ pfx ≠ q) → closeFor k (fullName P ++ nms q) s'.state = (B, false))

/-- A clause body: the state right after the clause line has the block `blk` (current clause
    at indent `k`) on top of `B` and the clause's `pfx.@n` on top of `P`. -/
theorem clause_body {body : Items} (ih : ItemsOK body) (k e n : Nat) (pfx : List String) (s1 : St)
    (B : List Branch) (P : List (Nat × List Comp)) (blk : Branch) (hP : BelowP k P)
    (h1 : s1.state = blk :: B) (h2 : s1.parents = (k, nms pfx ++ [.cs n]) :: P) (hi : blk.cur.indent = k) :
    ∃ s2, run s1 (body.render (k + 1 + e)) =
        .ok (s2, if falseCase B || falseBranch blk then [] else body.sem (cleanName (fullName P) ++ pfx)) ∧
      closeGE (k + 1) s2.state = blk :: B ∧ popGE k s2.parents = P := by
  have hb' : Below (k + 1) (blk :: B) := below_cons (by omega)
  have hp' : BelowP (k + 1) ((k, nms pfx ++ [Comp.cs n]) :: P) := belowP_cons (by simp)
  have hk : k + 1 ≤ k + 1 + e := by omega
  obtain ⟨s2, hr, hs, hpp⟩ := ih (k + 1 + e) s1 (blk :: B) ((k, nms pfx ++ [.cs n]) :: P) (hb'.mono hk)
    (hp'.mono hk)
    (by rw [h1]; exact closeGE_of_below (hb'.mono hk))
    (by rw [h2]; exact popGE_of_below (hp'.mono hk))
    (fun q _ => by
      rw [h1]
      exact closeFor_new (closeGE_of_below (hb'.mono (by omega))) (hb'.mono hk))
  refine ⟨s2, ?_, closeGE_mono hs hk hb', ?_⟩
  · rw [hr, falseCase_cons, cleanName_fullName_cs, Bool.or_comm]
  · have : popGE k s2.parents = popGE k ((k, nms pfx ++ [Comp.cs n]) :: P) := by
      rw [← hpp, popGE_popGE_le (by omega)]
    rw [this]
    simp only [popGE, Nat.le_refl, if_true]
    exact popGE_of_below hP

/-- The optional `@end` at the end of a block. -/
theorem end_line (k : Nat) (pfx : List String) (b : Bool) (s : St) (B : List Branch)
    (P : List (Nat × List Comp)) (blk : Branch)
    (hB : Below k B) (hP : BelowP k P) (h1 : closeGE (k + 1) s.state = blk :: B)
    (hi : blk.cur.indent = k) (hpath : blk.cur.path = fullName P ++ nms pfx) (h2 : popGE k s.parents = P) :
    ∃ s', run s (endLine k pfx b) = .ok (s', []) ∧ closeGE k s'.state = B ∧ popGE k s'.parents = P ∧
      (∀ q, (b = true ∨ pfx ≠ q) → closeFor k (fullName P ++ nms q) s'.state = (B, false)) := by
  cases b with
  | false =>
    refine ⟨s, by simp [endLine, run], ?_, h2, fun q hq => ?_⟩
    · rw [← closeGE_closeGE_le (Nat.le_succ k), h1]
      simp only [closeGE, hi, Nat.le_refl, if_true]
      exact closeGE_of_below hB
    · have hne : pfx ≠ q := by
        rcases hq with h | h
        · cases h
        · exact h
      exact closeFor_other h1 hi (by rw [hpath]; exact path_ne hne) hB
  | true =>
    have hs := step_end h1 hi hpath h2
    refine ⟨St.mk ((k, nms pfx ++ [.cs (s.numCases + 1)]) :: P) B (s.numCases + 1) s.numBranches,
      by simp [endLine, run, hs], ?_, ?_, fun q _ => ?_⟩
    · exact closeGE_of_below hB
    · simp only [popGE, Nat.le_refl, if_true]; exact popGE_of_below hP
    · exact closeFor_new (closeGE_of_below (hB.mono (Nat.le_succ k))) hB

/-- The property lines written below a node: the state is not touched. -/
theorem props_run (k : Nat) (props : List (Nat × PKind)) (s : St) (B : List Branch) (hB : Below (k + 1) B)
    (hs : s.state = B) :
    run s (propLines k props) = .ok (s, if falseCase B then [] else props.map (fun ep => Eff.prop ep.2)) := by
  induction props with
  | nil => simp [propLines, run]
  | cons ep rest ih =>
    have hc : closeGE (k + 1 + ep.1) s.state = B := by
      rw [hs]; exact closeGE_of_below (hB.mono (by omega))
    have hstep := step_prop (x := []) (p := ep.2) hc
    have hself : ({ s with state := B } : St) = s := by cases s; simp_all
    rw [hself] at hstep
    simp only [propLines, List.map_cons] at ih ⊢
    rw [run_cons_ok hstep ih]
    by_cases hf : falseCase B = true <;> simp [hf]

theorem node_ok (n : String) (m : Bool) (v : Int) (props : List (Nat × PKind)) : ItemOK (.node n m v props) := by
  intro k s B P fe hB hP h1 h2 _
  have hs := step_node (x := [n]) (m := m) (v := v) h1 h2
  have hp := props_run k props { s with parents := (k, nms [n]) :: P, state := B } B
    (hB.mono (Nat.le_succ k)) rfl
  refine ⟨{ s with parents := (k, nms [n]) :: P, state := B }, ?_, ?_, ?_, fun q _ => ?_⟩
  · simp only [Item.render, Item.sem]
    rw [run_cons_ok hs hp]
    by_cases hf : falseCase B = true <;> simp [hf]
  · exact closeGE_of_below hB
  · simp only [popGE, Nat.le_refl, if_true]; exact popGE_of_below hP
  · exact closeFor_new (closeGE_of_below (hB.mono (Nat.le_succ k))) hB

theorem prop_ok (p : PKind) : ItemOK (.prop p) := by
  intro k s B P fe hB _ h1 h2 _
  have hs := step_prop (x := []) (p := p) h1
  refine ⟨{ s with state := B }, ?_, closeGE_of_below hB, h2, fun q _ => ?_⟩
  · simp only [Item.render, run, hs, Item.sem]
    by_cases hf : falseCase B = true <;> simp [hf]
  · exact closeFor_new (closeGE_of_below (hB.mono (Nat.le_succ k))) hB

theorem imp_ok (src : List String) (nd : Option String) : ItemOK (.imp src nd) := by
  intro k s B P fe hB hP h1 h2 _
  have hs := step_imp (x := src) (nd := nd) h1 h2
  refine ⟨{ s with parents := (k, [.nm "{import}"]) :: P, state := B }, ?_, closeGE_of_below hB, ?_, fun q _ => ?_⟩
  · simp only [Item.render, run, hs, Item.sem]
    by_cases hf : falseCase B = true <;> simp [hf]
  · simp only [popGE, Nat.le_refl, if_true]; exact popGE_of_below hP
  · exact closeFor_new (closeGE_of_below (hB.mono (Nat.le_succ k))) hB

theorem unit_ok (n : String) (b : Bool) : ItemOK (.unit n b) := by
  intro k s B P fe hB _ h1 h2 _
  have hs := step_unit (x := [n]) (b := b) h1
  refine ⟨{ s with state := B }, ?_, closeGE_of_below hB, h2, fun q _ => ?_⟩
  · simp only [Item.render, run, hs, Item.sem]
    cases b <;> by_cases hf : falseCase B = true <;> simp [hf]
  · exact closeFor_new (closeGE_of_below (hB.mono (Nat.le_succ k))) hB

theorem group_ok (n : String) (e : Nat) (body : Items) (ih : ItemsOK body) : ItemOK (.group n e body) := by
  intro k s B P fe hB hP h1 h2 _
  have hs := step_group (x := [n]) h1 h2
  have hk : k + 1 ≤ k + 1 + e := by omega
  have hb1 : Below (k + 1) B := hB.mono (Nat.le_succ k)
  have hp1 : BelowP (k + 1) ((k, nms [n]) :: P) := belowP_cons (by simp)
  obtain ⟨s2, hr, hst, hpp⟩ := ih (k + 1 + e) { s with parents := (k, nms [n]) :: P, state := B } B
    ((k, nms [n]) :: P) (hb1.mono hk) (hp1.mono hk)
    (closeGE_of_below (hb1.mono hk)) (popGE_of_below (hp1.mono hk))
    (fun q _ => closeFor_new (closeGE_of_below (hb1.mono (by omega))) (hb1.mono hk))
  refine ⟨s2, ?_, closeGE_mono hst (by omega) hB, ?_, fun q _ => closeFor_new (closeGE_mono hst hk hb1) hB⟩
  · simp only [Item.render, Item.sem]
    rw [run_cons_ok hs hr, cleanName_fullName_nm]
    simp
  · have : popGE k s2.parents = popGE k ((k, nms [n]) :: P) := by
      rw [← hpp, popGE_popGE_le (by omega)]
    rw [this]
    simp only [popGE, Nat.le_refl, if_true]
    exact popGE_of_below hP

theorem items_nil_ok : ItemsOK .nil := by
  intro k s B P _ _ h1 h2 _
  exact ⟨s, by simp [Items.render, run, Items.sem], h1, h2⟩

theorem items_cons_ok (i : Item) (rest : Items) (ihi : ItemOK i) (ihr : ItemsOK rest) :
    ItemsOK (.cons i rest) := by
  intro k s B P hB hP h1 h2 h3
  obtain ⟨s1, hr1, hs1, hp1, hpost⟩ := ihi k s B P (needsEnd i.blockPfx rest.firstPfx) hB hP h1 h2
    (fun q hq => h3 q (by simpa [Items.firstPfx] using hq))
  obtain ⟨s2, hr2, hs2, hp2⟩ := ihr k s1 B P hB hP hs1 hp1
    (fun q hq => hpost q (by rw [hq]; exact needsEnd_or i.blockPfx q))
  refine ⟨s2, ?_, hs2, hp2⟩
  simp only [Items.render, Items.sem]
  rw [run_append_ok hr1 hr2]
  by_cases hf : falseCase B = true <;> simp [hf]

/-- An explicit `@end` followed by lines indented deeper than it. -/
theorem end_trailer {tr : Items} (ih : ItemsOK tr) (k te : Nat) (pfx : List String) (s : St) (B : List Branch)
    (P : List (Nat × List Comp)) (blk : Branch)
    (hB : Below k B) (hP : BelowP k P) (h1 : closeGE (k + 1) s.state = blk :: B)
    (hi : blk.cur.indent = k) (hpath : blk.cur.path = fullName P ++ nms pfx) (h2 : popGE k s.parents = P) :
    ∃ s', run s (endLine k pfx true ++ tr.render (k + 1 + te)) =
        .ok (s', if falseCase B then [] else tr.sem (cleanName (fullName P) ++ pfx)) ∧
      closeGE k s'.state = B ∧ popGE k s'.parents = P ∧
      (∀ q, closeFor k (fullName P ++ nms q) s'.state = (B, false)) := by
  have hs := step_end h1 hi hpath h2
  have hk : k + 1 ≤ k + 1 + te := by omega
  have hb1 : Below (k + 1) B := hB.mono (Nat.le_succ k)
  have hp1 : BelowP (k + 1) ((k, nms pfx ++ [Comp.cs (s.numCases + 1)]) :: P) := belowP_cons (by simp)
  obtain ⟨s2, hr, hst, hpp⟩ := ih (k + 1 + te)
    (St.mk ((k, nms pfx ++ [.cs (s.numCases + 1)]) :: P) B (s.numCases + 1) s.numBranches) B
    ((k, nms pfx ++ [.cs (s.numCases + 1)]) :: P) (hb1.mono hk) (hp1.mono hk)
    (closeGE_of_below (hb1.mono hk)) (popGE_of_below (hp1.mono hk))
    (fun q _ => closeFor_new (closeGE_of_below (hb1.mono (by omega))) (hb1.mono hk))
  refine ⟨s2, ?_, closeGE_mono hst (by omega) hB, ?_, fun q => closeFor_new (closeGE_mono hst hk hb1) hB⟩
  · have h0 : run s (endLine k pfx true) =
        .ok (St.mk ((k, nms pfx ++ [.cs (s.numCases + 1)]) :: P) B (s.numCases + 1) s.numBranches, []) := by
      simp [endLine, run, hs]
    rw [run_append_ok h0 hr, cleanName_fullName_cs]
    simp
  · have : popGE k s2.parents = popGE k ((k, nms pfx ++ [Comp.cs (s.numCases + 1)]) :: P) := by
      rw [← hpp, popGE_popGE_le (by omega)]
    rw [this]
    simp only [popGE, Nat.le_refl, if_true]
    exact popGE_of_below hP

theorem chain_fin_ok (ee : Bool) (te : Nat) (tr : Items) (iht : ItemsOK tr) : ChainOK (.fin ee te tr) := by
  intro k s B P pfx blk fe hB hP h1 hi hpath _ h2
  cases ee with
  | false =>
    obtain ⟨s', hr, hs, hp, hpost⟩ := end_line k pfx (false || fe) s B P blk hB hP h1 hi hpath h2
    simp only [Bool.false_or] at hr
    refine ⟨s', ?_, hs, hp, fun q hq => hpost q ?_⟩
    · simp only [Chain.render, Chain.sem, Chain.tail]
      simp [hr]
    · rcases hq with h | h
      · left; simp [h]
      · right; exact h
  | true =>
    obtain ⟨s', hr, hs, hp, hpost⟩ := end_trailer iht k te pfx s B P blk hB hP h1 hi hpath h2
    refine ⟨s', ?_, hs, hp, fun q _ => hpost q⟩
    simp only [Chain.render, Chain.sem, Chain.tail, Bool.true_or, if_true]
    rw [hr]
    simp

theorem chain_els_ok (e : Nat) (body : Items) (ee : Bool) (te : Nat) (tr : Items) (ih : ItemsOK body)
    (iht : ItemsOK tr) : ChainOK (.els e body ee te tr) := by
  intro k s B P pfx blk fe hB hP h1 hi hpath ht h2
  let blk' : Branch :=
    { blk with cur := ⟨fullName P ++ nms pfx, k, true, .els, s.numCases + 1⟩, earlier := blk.cur :: blk.earlier }
  let s1 : St := St.mk ((k, nms pfx ++ [.cs (s.numCases + 1)]) :: P) (blk' :: B) (s.numCases + 1) s.numBranches
  have hs : step s ⟨k, pfx, .els⟩ = .ok (s1, []) := step_switch_else h1 hi hpath ht h2
  obtain ⟨s2, hr2, hs2, hp2⟩ := clause_body ih k e (s.numCases + 1) pfx s1 B P blk' hP rfl rfl rfl
  cases ee with
  | false =>
    obtain ⟨s3, hr3, hs3, hp3, hpost⟩ := end_line k pfx (false || fe) s2 B P blk' hB hP hs2 rfl rfl hp2
    refine ⟨s3, ?_, hs3, hp3, fun q hq => hpost q ?_⟩
    · simp only [Chain.render, Chain.sem, Chain.tail]
      have hr3' : run s2 (endLine k pfx (false || fe) ++ if false = true then tr.render (k + 1 + te) else []) = .ok (s3, []) := by
        simpa using hr3
      rw [run_cons_ok hs (run_append_ok hr2 hr3'), falseBranch_switch]
      simp
    · rcases hq with h | h
      · left; simp [h]
      · right; exact h
  | true =>
    obtain ⟨s3, hr3, hs3, hp3, hpost⟩ := end_trailer iht k te pfx s2 B P blk' hB hP hs2 rfl rfl hp2
    refine ⟨s3, ?_, hs3, hp3, fun q _ => hpost q⟩
    simp only [Chain.render, Chain.sem, Chain.tail, Bool.true_or, if_true]
    rw [run_cons_ok hs (run_append_ok hr2 hr3), falseBranch_switch]
    simp

theorem chain_case_ok (c : Bool) (e : Nat) (body : Items) (more : Chain) (ih : ItemsOK body)
    (ihm : ChainOK more) : ChainOK (.case c e body more) := by
  intro k s B P pfx blk fe hB hP h1 hi hpath ht h2
  let blk' : Branch :=
    { blk with cur := ⟨fullName P ++ nms pfx, k, c && !falseCase B, .case, s.numCases + 1⟩,
               earlier := blk.cur :: blk.earlier }
  let s1 : St := St.mk ((k, nms pfx ++ [.cs (s.numCases + 1)]) :: P) (blk' :: B) (s.numCases + 1) s.numBranches
  have hs : step s ⟨k, pfx, .case c⟩ = .ok (s1, []) := step_switch_case h1 hB hi hpath ht h2
  obtain ⟨s2, hr2, hs2, hp2⟩ := clause_body ih k e (s.numCases + 1) pfx s1 B P blk' hP rfl rfl rfl
  obtain ⟨s3, hr3, hs3, hp3, hpost⟩ := ihm k s2 B P pfx blk' fe hB hP hs2 rfl rfl rfl hp2
  refine ⟨s3, ?_, hs3, hp3, hpost⟩
  simp only [Chain.render, Chain.sem, Chain.tail]
  rw [run_cons_ok hs (run_append_ok hr2 hr3), falseBranch_switch, anyTrue_switch]
  cases c <;> cases falseCase B <;> cases anyTrue blk <;> simp

theorem block_ok (pfx : List String) (c : Bool) (e : Nat) (body : Items) (more : Chain) (ih : ItemsOK body)
    (ihm : ChainOK more) : ItemOK (.block pfx c e body more) := by
  intro k s B P fe hB hP h0 h2 h3
  have h1 := h3 pfx rfl
  let blk' : Branch := ⟨s.numBranches + 1, ⟨fullName P ++ nms pfx, k, c && !falseCase B, .case, s.numCases + 1⟩, []⟩
  let s1 : St := St.mk ((k, nms pfx ++ [.cs (s.numCases + 1)]) :: P) (blk' :: B) (s.numCases + 1) (s.numBranches + 1)
  have hs : step s ⟨k, pfx, .case c⟩ = .ok (s1, []) := step_open h1 h0 h2
  obtain ⟨s2, hr2, hs2, hp2⟩ := clause_body ih k e (s.numCases + 1) pfx s1 B P blk' hP rfl rfl rfl
  obtain ⟨s3, hr3, hs3, hp3, hpost⟩ := ihm k s2 B P pfx blk' fe hB hP hs2 rfl rfl rfl hp2
  refine ⟨s3, ?_, hs3, hp3, fun q hq => hpost q ?_⟩
  · simp only [Item.render, Item.sem]
    rw [run_cons_ok hs (run_append_ok hr2 hr3), falseBranch_open]
    simp only [anyTrue, blk']
    cases c <;> by_cases hfb : falseCase B = true <;> simp [hfb]
  · rcases hq with h | h
    · exact Or.inl h
    · right; intro e; exact h (by simp [Item.blockPfx, e])

mutual
  theorem item_ok : (i : Item) → ItemOK i
    | .node n m v props => node_ok n m v props
    | .prop p => prop_ok p
    | .imp src nd => imp_ok src nd
    | .unit n b => unit_ok n b
    | .group n e body => group_ok n e body (items_ok body)
    | .block pfx c e body more => block_ok pfx c e body more (items_ok body) (chain_ok more)
  theorem items_ok : (is : Items) → ItemsOK is
    | .nil => items_nil_ok
    | .cons i rest => items_cons_ok i rest (item_ok i) (items_ok rest)
  theorem chain_ok : (ch : Chain) → ChainOK ch
    | .case c e body more => chain_case_ok c e body more (items_ok body) (chain_ok more)
    | .els e body ee te tr => chain_els_ok e body ee te tr (items_ok body) (items_ok tr)
    | .fin ee te tr => chain_fin_ok ee te tr (items_ok tr)
end

/-! ## sem of concatenated programs -/

theorem Items.sem_append : (a b : Items) → (pre : List String) →
    (a.append b).sem pre = a.sem pre ++ b.sem pre
  | .nil, b, pre => by simp [Items.append, Items.sem]
  | .cons i r, b, pre => by simp [Items.append, Items.sem, Items.sem_append r b pre]

/-! ## `sem` = the occurrences all of whose enclosing clauses are selected -/

theorem selectedOnly_append (a b : List (List Bool × Eff)) :
    selectedOnly (a ++ b) = selectedOnly a ++ selectedOnly b := by
  simp [selectedOnly]

theorem selectedOnly_const (sel : List Bool) (l : List Eff) :
    selectedOnly (l.map (fun e => (sel, e))) = if sel.all id then l else [] := by
  induction l with
  | nil => simp [selectedOnly]
  | cons a t ih =>
    simp only [selectedOnly, List.map_cons, List.filter_cons] at ih ⊢
    cases h : sel.all id <;> simp_all

mutual
  theorem Item.occ_sem : (i : Item) → (pre : List String) → (sel : List Bool) →
      selectedOnly (i.occ pre sel) = if sel.all id then i.sem pre else []
    | .node n m v props, pre, sel => by
      have := selectedOnly_const sel (Eff.node (pre ++ [n]) m v :: props.map (fun ep => Eff.prop ep.2))
      simpa [Item.occ, Item.sem, Function.comp_def] using this
    | .prop p, pre, sel => by
      cases h : sel.all id <;> simp [Item.occ, Item.sem, selectedOnly, h]
    | .imp src nd, pre, sel => by
      cases h : sel.all id <;> simp [Item.occ, Item.sem, selectedOnly, h]
    | .unit n b, pre, sel => by
      cases b <;> cases h : sel.all id <;> simp [Item.occ, Item.sem, selectedOnly, h]
    | .group n e body, pre, sel => by
      simp only [Item.occ, Item.sem]; exact Items.occ_sem body _ sel
    | .block pfx c e body more, pre, sel => by
      simp only [Item.occ, Item.sem, selectedOnly_append]
      rw [Items.occ_sem body _ (c :: sel), Chain.occ_sem more _ sel c]
      cases c <;> cases h : sel.all id <;> simp [h]
  theorem Items.occ_sem : (is : Items) → (pre : List String) → (sel : List Bool) →
      selectedOnly (is.occ pre sel) = if sel.all id then is.sem pre else []
    | .nil, pre, sel => by simp [Items.occ, Items.sem, selectedOnly]
    | .cons i rest, pre, sel => by
      simp only [Items.occ, Items.sem, selectedOnly_append]
      rw [Item.occ_sem i pre sel, Items.occ_sem rest pre sel]
      cases h : sel.all id <;> simp
  theorem Chain.occ_sem : (ch : Chain) → (pre : List String) → (sel : List Bool) → (done : Bool) →
      selectedOnly (ch.occ pre sel done) =
        (if sel.all id && !done then ch.sem pre else []) ++ (if sel.all id then ch.tail pre else [])
    | .case c e body more, pre, sel, done => by
      simp only [Chain.occ, Chain.sem, Chain.tail, selectedOnly_append]
      rw [Items.occ_sem body pre _, Chain.occ_sem more pre sel _]
      cases c <;> cases done <;> cases h : sel.all id <;> simp [h]
    | .els e body ee te tr, pre, sel, done => by
      cases ee
      · simp only [Chain.occ, Chain.sem, Chain.tail, selectedOnly_append]
        rw [Items.occ_sem body pre _]
        cases done <;> cases h : sel.all id <;> simp [h, selectedOnly]
      · simp only [Chain.occ, Chain.sem, Chain.tail, selectedOnly_append, if_true]
        rw [Items.occ_sem body pre _, Items.occ_sem tr pre sel]
        cases done <;> cases h : sel.all id <;> simp [h]
    | .fin ee te tr, pre, sel, done => by
      cases ee
      · simp [Chain.occ, Chain.sem, Chain.tail, selectedOnly]
      · simp only [Chain.occ, Chain.sem, Chain.tail, if_true]
        rw [Items.occ_sem tr pre sel]
        cases h : sel.all id <;> simp [h]
end

end SciVerif.C15
