import SciVerif.Lemmas.C15

/-! The main induction of C15: running the state machine over a rendered program tree.

Frame invariant.  While the lines of an item sequence written at indent `k` are processed,
the part `B` of the stack of open branches and the part `P` of the hierarchy that lie below
indent `k` never change; whatever deeper lines left on top of them is removed by the next
line at indent `k` (`closeGE k s.state = B`, `popGE k s.parents = P`).  The nodes of the
sequence take effect iff `falseCase B = false`, i.e. iff every enclosing clause is selected. -/
namespace SciVerif.C15

def Item.isBlock : Item → Bool
  | .block .. => true
  | _ => false

theorem Items.startsCase_cons (i : Item) (r : Items) : (Items.cons i r).startsCase = i.isBlock := by
  cases i <;> rfl

/-- Statement of the induction for an item sequence. -/
def ItemsOK (is : Items) : Prop :=
  ∀ (k : Nat) (s : St) (B : List Branch) (P : List (Nat × Comp)),
    Below k B → BelowP k P → closeGE k s.state = B → popGE k s.parents = P →
    (is.startsCase = true → closeGE (k + 1) s.state = B) →
    ∃ s', run s (is.render k) = .ok (s', if falseCase B then [] else is.sem (cleanName (fullName P))) ∧
      closeGE k s'.state = B ∧ popGE k s'.parents = P

def ItemOK (i : Item) : Prop :=
  ∀ (k : Nat) (s : St) (B : List Branch) (P : List (Nat × Comp)) (fe : Bool),
    Below k B → BelowP k P → closeGE k s.state = B → popGE k s.parents = P →
    (i.isBlock = true → closeGE (k + 1) s.state = B) →
    ∃ s', run s (i.render k fe) = .ok (s', if falseCase B then [] else i.sem (cleanName (fullName P))) ∧
      closeGE k s'.state = B ∧ popGE k s'.parents = P ∧
      ((fe = true ∨ i.isBlock = false) → closeGE (k + 1) s'.state = B)

/-- Inside the block `blk` (written at indent `k`, current clause a `@case`), after a clause body. -/
def ChainOK (ch : Chain) : Prop :=
  ∀ (k : Nat) (s : St) (B : List Branch) (P : List (Nat × Comp)) (blk : Branch) (fe : Bool),
    Below k B → BelowP k P → closeGE (k + 1) s.state = blk :: B → blk.cur.indent = k →
    blk.cur.path = fullName P → blk.cur.ctype = .case → popGE k s.parents = P →
    ∃ s', run s (ch.render k fe) =
        .ok (s', if falseCase B || anyTrue blk then [] else ch.sem (cleanName (fullName P))) ∧
      closeGE k s'.state = B ∧ popGE k s'.parents = P ∧ (fe = true → closeGE (k + 1) s'.state = B)

/-- A clause body: the state right after the clause line has the block `blk` (current clause
    at indent `k`) on top of `B` and the clause's `@n` on top of `P`. -/
theorem clause_body {body : Items} (ih : ItemsOK body) (k e n : Nat) (s1 : St) (B : List Branch)
    (P : List (Nat × Comp)) (blk : Branch) (_hB : Below k B) (hP : BelowP k P)
    (h1 : s1.state = blk :: B) (h2 : s1.parents = (k, .cs n) :: P) (hi : blk.cur.indent = k) :
    ∃ s2, run s1 (body.render (k + 1 + e)) =
        .ok (s2, if falseCase B || falseBranch blk then [] else body.sem (cleanName (fullName P))) ∧
      closeGE (k + 1) s2.state = blk :: B ∧ popGE k s2.parents = P := by
  have hb' : Below (k + 1) (blk :: B) := below_cons (by omega)
  have hp' : BelowP (k + 1) ((k, Comp.cs n) :: P) := belowP_cons (by simp)
  have hk : k + 1 ≤ k + 1 + e := by omega
  obtain ⟨s2, hr, hs, hpp⟩ := ih (k + 1 + e) s1 (blk :: B) ((k, .cs n) :: P) (hb'.mono hk) (hp'.mono hk)
    (by rw [h1]; exact closeGE_of_below (hb'.mono hk))
    (by rw [h2]; exact popGE_of_below (hp'.mono hk))
    (fun _ => by rw [h1]; exact closeGE_of_below (hb'.mono (by omega)))
  refine ⟨s2, ?_, closeGE_mono hs hk hb', ?_⟩
  · rw [hr, falseCase_cons, cleanName_fullName_cs, Bool.or_comm]
  · have : popGE k s2.parents = popGE k ((k, Comp.cs n) :: P) := by
      rw [← hpp, popGE_popGE_le (by omega)]
    rw [this]
    simp only [popGE, Nat.le_refl, if_true]
    exact popGE_of_below hP

/-- The optional `@end` at the end of a block. -/
theorem end_line (k : Nat) (b : Bool) (s : St) (B : List Branch) (P : List (Nat × Comp)) (blk : Branch)
    (hB : Below k B) (hP : BelowP k P) (h1 : closeGE (k + 1) s.state = blk :: B)
    (hi : blk.cur.indent = k) (hpath : blk.cur.path = fullName P) (h2 : popGE k s.parents = P) :
    ∃ s', run s (endLine k b) = .ok (s', []) ∧ closeGE k s'.state = B ∧ popGE k s'.parents = P ∧
      (b = true → closeGE (k + 1) s'.state = B) := by
  cases b with
  | false =>
    refine ⟨s, by simp [endLine, run], ?_, h2, by simp⟩
    rw [← closeGE_closeGE_le (Nat.le_succ k), h1]
    simp only [closeGE, hi, Nat.le_refl, if_true]
    exact closeGE_of_below hB
  | true =>
    have hs := step_end (x := "") h1 hi hpath h2
    refine ⟨St.mk ((k, .cs (s.numCases + 1)) :: P) B (s.numCases + 1) s.numBranches,
      by simp [endLine, run, hs], ?_, ?_, fun _ => ?_⟩
    · exact closeGE_of_below hB
    · simp only [popGE, Nat.le_refl, if_true]; exact popGE_of_below hP
    · exact closeGE_of_below (hB.mono (Nat.le_succ k))

theorem node_ok (n : String) (m : Bool) (v : Int) : ItemOK (.node n m v) := by
  intro k s B P fe hB hP h1 h2 _
  have hs := step_node (x := n) (m := m) (v := v) h1 h2
  refine ⟨{ s with parents := (k, .nm n) :: P, state := B }, ?_, ?_, ?_, fun _ => ?_⟩
  · simp only [Item.render, run, hs, Item.sem]
    by_cases hf : falseCase B = true <;> simp [hf]
  · exact closeGE_of_below hB
  · simp only [popGE, Nat.le_refl, if_true]; exact popGE_of_below hP
  · exact closeGE_of_below (hB.mono (Nat.le_succ k))

theorem group_ok (n : String) (e : Nat) (body : Items) (ih : ItemsOK body) : ItemOK (.group n e body) := by
  intro k s B P fe hB hP h1 h2 _
  have hs := step_group (x := n) h1 h2
  have hk : k + 1 ≤ k + 1 + e := by omega
  have hb1 : Below (k + 1) B := hB.mono (Nat.le_succ k)
  have hp1 : BelowP (k + 1) ((k, Comp.nm n) :: P) := belowP_cons (by simp)
  obtain ⟨s2, hr, hst, hpp⟩ := ih (k + 1 + e) { s with parents := (k, .nm n) :: P, state := B } B
    ((k, .nm n) :: P) (hb1.mono hk) (hp1.mono hk)
    (closeGE_of_below (hb1.mono hk)) (popGE_of_below (hp1.mono hk))
    (fun _ => closeGE_of_below (hb1.mono (by omega)))
  refine ⟨s2, ?_, closeGE_mono hst (by omega) hB, ?_, fun _ => closeGE_mono hst hk hb1⟩
  · simp only [Item.render, Item.sem]
    rw [run_cons_ok hs hr, cleanName_fullName_nm]
    simp
  · have : popGE k s2.parents = popGE k ((k, Comp.nm n) :: P) := by
      rw [← hpp, popGE_popGE_le (by omega)]
    rw [this]
    simp only [popGE, Nat.le_refl, if_true]
    exact popGE_of_below hP

theorem items_nil_ok : ItemsOK .nil := by
  intro k s B P _ _ h1 h2 _
  exact ⟨s, by simp [Items.render, run, Items.sem], h1, h2⟩

theorem items_cons_ok (i : Item) (rest : Items) (ihi : ItemOK i) (ihr : ItemsOK rest) :
    ItemsOK (.cons i rest) := by
  intro k s B P hB hP h1 h2 h3
  rw [Items.startsCase_cons] at h3
  obtain ⟨s1, hr1, hs1, hp1, hstrict⟩ := ihi k s B P rest.startsCase hB hP h1 h2 h3
  obtain ⟨s2, hr2, hs2, hp2⟩ := ihr k s1 B P hB hP hs1 hp1 (fun h => hstrict (Or.inl h))
  refine ⟨s2, ?_, hs2, hp2⟩
  simp only [Items.render, Items.sem]
  rw [run_append_ok hr1 hr2]
  by_cases hf : falseCase B = true <;> simp [hf]

theorem chain_fin_ok (ee : Bool) : ChainOK (.fin ee) := by
  intro k s B P blk fe hB hP h1 hi hpath _ h2
  obtain ⟨s', hr, hs, hp, hstrict⟩ := end_line k (ee || fe) s B P blk hB hP h1 hi hpath h2
  refine ⟨s', ?_, hs, hp, fun h => hstrict (by simp [h])⟩
  simp only [Chain.render, hr, Chain.sem]
  simp

theorem chain_els_ok (e : Nat) (body : Items) (ee : Bool) (ih : ItemsOK body) : ChainOK (.els e body ee) := by
  intro k s B P blk fe hB hP h1 hi hpath ht h2
  let blk' : Branch :=
    { blk with cur := ⟨fullName P, k, true, .els, s.numCases + 1⟩, earlier := blk.cur :: blk.earlier }
  let s1 : St := St.mk ((k, .cs (s.numCases + 1)) :: P) (blk' :: B) (s.numCases + 1) s.numBranches
  have hs : step s ⟨k, "", .els⟩ = .ok (s1, []) := step_switch_else h1 hi hpath ht h2
  obtain ⟨s2, hr2, hs2, hp2⟩ := clause_body ih k e (s.numCases + 1) s1 B P blk' hB hP rfl rfl rfl
  obtain ⟨s3, hr3, hs3, hp3, hstrict⟩ := end_line k (ee || fe) s2 B P blk' hB hP hs2 rfl rfl hp2
  refine ⟨s3, ?_, hs3, hp3, fun h => hstrict (by simp [h])⟩
  simp only [Chain.render, Chain.sem]
  rw [run_cons_ok hs (run_append_ok hr2 hr3), falseBranch_switch]
  simp

theorem chain_case_ok (c : Bool) (e : Nat) (body : Items) (more : Chain) (ih : ItemsOK body)
    (ihm : ChainOK more) : ChainOK (.case c e body more) := by
  intro k s B P blk fe hB hP h1 hi hpath ht h2
  let blk' : Branch :=
    { blk with cur := ⟨fullName P, k, c, .case, s.numCases + 1⟩, earlier := blk.cur :: blk.earlier }
  let s1 : St := St.mk ((k, .cs (s.numCases + 1)) :: P) (blk' :: B) (s.numCases + 1) s.numBranches
  have hs : step s ⟨k, "", .case c⟩ = .ok (s1, []) := step_switch_case h1 hi hpath ht h2
  obtain ⟨s2, hr2, hs2, hp2⟩ := clause_body ih k e (s.numCases + 1) s1 B P blk' hB hP rfl rfl rfl
  obtain ⟨s3, hr3, hs3, hp3, hstrict⟩ := ihm k s2 B P blk' fe hB hP hs2 rfl rfl rfl hp2
  refine ⟨s3, ?_, hs3, hp3, hstrict⟩
  simp only [Chain.render, Chain.sem]
  rw [run_cons_ok hs (run_append_ok hr2 hr3), falseBranch_switch, anyTrue_switch]
  cases c <;> cases falseCase B <;> cases anyTrue blk <;> simp

theorem block_ok (c : Bool) (e : Nat) (body : Items) (more : Chain) (ih : ItemsOK body)
    (ihm : ChainOK more) : ItemOK (.block c e body more) := by
  intro k s B P fe hB hP _ h2 h3
  have h1 := h3 rfl
  let blk' : Branch := ⟨s.numBranches + 1, ⟨fullName P, k, c, .case, s.numCases + 1⟩, []⟩
  let s1 : St := St.mk ((k, .cs (s.numCases + 1)) :: P) (blk' :: B) (s.numCases + 1) (s.numBranches + 1)
  have hs : step s ⟨k, "", .case c⟩ = .ok (s1, []) := step_open h1 hB h2
  obtain ⟨s2, hr2, hs2, hp2⟩ := clause_body ih k e (s.numCases + 1) s1 B P blk' hB hP rfl rfl rfl
  obtain ⟨s3, hr3, hs3, hp3, hstrict⟩ := ihm k s2 B P blk' fe hB hP hs2 rfl rfl rfl hp2
  refine ⟨s3, ?_, hs3, hp3, fun h => ?_⟩
  · simp only [Item.render, Item.sem]
    rw [run_cons_ok hs (run_append_ok hr2 hr3), falseBranch_open]
    cases c <;> cases falseCase B <;> simp [anyTrue, blk']
  · cases h with
    | inl h => exact hstrict h
    | inr h => simp [Item.isBlock] at h

mutual
  theorem item_ok : (i : Item) → ItemOK i
    | .node n m v => node_ok n m v
    | .group n e body => group_ok n e body (items_ok body)
    | .block c e body more => block_ok c e body more (items_ok body) (chain_ok more)
  theorem items_ok : (is : Items) → ItemsOK is
    | .nil => items_nil_ok
    | .cons i rest => items_cons_ok i rest (item_ok i) (items_ok rest)
  theorem chain_ok : (ch : Chain) → ChainOK ch
    | .case c e body more => chain_case_ok c e body more (items_ok body) (chain_ok more)
    | .els e body ee => chain_els_ok e body ee (items_ok body)
    | .fin ee => chain_fin_ok ee
end

/-! ## sem of concatenated programs -/

theorem Items.sem_append : (a b : Items) → (pre : List String) →
    (a.append b).sem pre = a.sem pre ++ b.sem pre
  | .nil, b, pre => by simp [Items.append, Items.sem]
  | .cons i r, b, pre => by simp [Items.append, Items.sem, Items.sem_append r b pre]

/-! ## `sem` = the occurrences all of whose enclosing clauses are selected -/

theorem selectedOnly_append (a b : List (List Bool × Eff)) :
    selectedOnly (a ++ b) = selectedOnly a ++ selectedOnly b := by
  simp [selectedOnly]

mutual
  theorem Item.occ_sem : (i : Item) → (pre : List String) → (sel : List Bool) →
      selectedOnly (i.occ pre sel) = if sel.all id then i.sem pre else []
    | .node n m v, pre, sel => by
      cases h : sel.all id <;> simp [Item.occ, Item.sem, selectedOnly, h]
    | .group n e body, pre, sel => by
      simp only [Item.occ, Item.sem]; exact Items.occ_sem body _ sel
    | .block c e body more, pre, sel => by
      simp only [Item.occ, Item.sem, selectedOnly_append]
      rw [Items.occ_sem body pre (c :: sel), Chain.occ_sem more pre sel c]
      cases c <;> cases h : sel.all id <;> simp [h]
  theorem Items.occ_sem : (is : Items) → (pre : List String) → (sel : List Bool) →
      selectedOnly (is.occ pre sel) = if sel.all id then is.sem pre else []
    | .nil, pre, sel => by simp [Items.occ, Items.sem, selectedOnly]
    | .cons i rest, pre, sel => by
      simp only [Items.occ, Items.sem, selectedOnly_append]
      rw [Item.occ_sem i pre sel, Items.occ_sem rest pre sel]
      cases h : sel.all id <;> simp
  theorem Chain.occ_sem : (ch : Chain) → (pre : List String) → (sel : List Bool) → (done : Bool) →
      selectedOnly (ch.occ pre sel done) = if sel.all id && !done then ch.sem pre else []
    | .case c e body more, pre, sel, done => by
      simp only [Chain.occ, Chain.sem, selectedOnly_append]
      rw [Items.occ_sem body pre _, Chain.occ_sem more pre sel _]
      cases c <;> cases done <;> cases h : sel.all id <;> simp [h]
    | .els e body ee, pre, sel, done => by
      simp only [Chain.occ, Chain.sem]
      rw [Items.occ_sem body pre _]
      cases done <;> cases h : sel.all id <;> simp [h]
    | .fin ee, pre, sel, done => by
      simp [Chain.occ, Chain.sem, selectedOnly]
end

end SciVerif.C15
