import SciVerif.Model.C20

namespace SciVerif.C20

/-! ### takeIdx / permutation lemmas -/

theorem filterMap_range_getElem? {α : Type} (l : List α) :
    (List.range l.length).filterMap (fun i => l[i]?) = l := by
  induction l with
  | nil => simp
  | cons a t ih =>
    rw [List.length_cons, List.range_succ_eq_map, List.filterMap_cons]
    simp only [List.getElem?_cons_zero, List.filterMap_map]
    have : ((fun i => (a :: t)[i]?) ∘ Nat.succ) = (fun i => t[i]?) := by
      funext i; simp
    rw [this, ih]

theorem takeIdx_perm {α : Type} (l : List α) (ids : List Nat)
    (h : ids.Perm (List.range l.length)) : (takeIdx l ids).Perm l := by
  have := List.Perm.filterMap (fun i => l[i]?) h
  rw [filterMap_range_getElem?] at this
  exact this

theorem takeIdx_length {α : Type} (l : List α) (ids : List Nat)
    (h : ∀ i ∈ ids, i < l.length) : (takeIdx l ids).length = ids.length := by
  unfold takeIdx
  induction ids with
  | nil => rfl
  | cons i t ih =>
    have hi : i < l.length := h i (by simp)
    have ht : ∀ j ∈ t, j < l.length := fun j hj => h j (by simp [hj])
    simp [List.getElem?_eq_getElem hi, ih ht]

theorem takeIdx_getElem? {α : Type} (l : List α) (ids : List Nat)
    (h : ∀ i ∈ ids, i < l.length) (j : Nat) :
    (takeIdx l ids)[j]? = (ids[j]?).bind (fun i => l[i]?) := by
  unfold takeIdx
  induction ids generalizing j with
  | nil => simp
  | cons i t ih =>
    have hi : i < l.length := h i (by simp)
    have ht : ∀ k ∈ t, k < l.length := fun k hk => h k (by simp [hk])
    cases j with
    | zero => simp [List.getElem?_eq_getElem hi]
    | succ j => simp [List.getElem?_eq_getElem hi, ih ht]

/-! ### grid index arithmetic -/

theorem n_le_grid (n ncols : Nat) (hc : 0 < ncols) : n ≤ ncols * gridRows n ncols := by
  unfold gridRows
  have h := Nat.div_add_mod (n + ncols - 1) ncols
  have h2 := Nat.mod_lt (n + ncols - 1) hc
  omega

theorem grid_tight (n ncols : Nat) (hc : 0 < ncols) : ncols * gridRows n ncols < n + ncols := by
  unfold gridRows
  have h := Nat.div_add_mod (n + ncols - 1) ncols
  omega

theorem cellN_bounds (R C i : Nat) (hC : 0 < C) (hi : i < C * R) :
    (cellN C i).1 < R ∧ (cellN C i).2 < C := by
  refine ⟨?_, Nat.mod_lt _ hC⟩
  show i / C < R
  rw [Nat.div_lt_iff_lt_mul hC, Nat.mul_comm]; exact hi

theorem cellN_inj (C i j : Nat) (h : cellN C i = cellN C j) : i = j := by
  simp only [cellN, Prod.mk.injEq] at h
  have hi := Nat.div_add_mod i C
  have hj := Nat.div_add_mod j C
  rw [h.1, h.2] at hi
  omega

theorem cellN_surj (R C r c : Nat) (hr : r < R) (hc : c < C) :
    ∃ i, i < C * R ∧ cellN C i = (r, c) := by
  refine ⟨C * r + c, ?_, ?_⟩
  · have : C * (r + 1) ≤ C * R := Nat.mul_le_mul_left C hr
    rw [Nat.mul_succ] at this
    omega
  · have hC : 0 < C := by omega
    simp only [cellN, Prod.mk.injEq]
    constructor
    · rw [Nat.mul_add_div hC, Nat.div_eq_of_lt hc]; rfl
    · rw [Nat.mul_add_mod, Nat.mod_eq_of_lt hc]

theorem cellT_bounds (R C i : Nat) (hR : 0 < R) (hi : i < C * R) :
    (cellT R i).1 < R ∧ (cellT R i).2 < C := by
  refine ⟨Nat.mod_lt _ hR, ?_⟩
  show i / R < C
  rw [Nat.div_lt_iff_lt_mul hR]; exact hi

theorem cellT_inj (R i j : Nat) (h : cellT R i = cellT R j) : i = j := by
  simp only [cellT, Prod.mk.injEq] at h
  have hi := Nat.div_add_mod i R
  have hj := Nat.div_add_mod j R
  rw [h.1, h.2] at hi
  omega

theorem cellT_surj (R C r c : Nat) (hr : r < R) (hc : c < C) :
    ∃ i, i < C * R ∧ cellT R i = (r, c) := by
  refine ⟨R * c + r, ?_, ?_⟩
  · have : R * (c + 1) ≤ R * C := Nat.mul_le_mul_left R hc
    rw [Nat.mul_succ, Nat.mul_comm R C] at this
    omega
  · have hR : 0 < R := by omega
    simp only [cellT, Prod.mk.injEq]
    constructor
    · rw [Nat.mul_add_mod, Nat.mod_eq_of_lt hr]
    · rw [Nat.mul_add_div hR, Nat.div_eq_of_lt hr]; rfl

/-! ### Cartesian product -/

/-- `v` picks one element of each list, in order. -/
def InProd {α : Type} : List α → List (List α) → Prop
  | [], [] => True
  | x :: v, l :: ls => x ∈ l ∧ InProd v ls
  | _, _ => False

theorem mem_product {α : Type} (ls : List (List α)) (v : List α) :
    v ∈ product ls ↔ InProd v ls := by
  induction ls generalizing v with
  | nil => cases v <;> simp [product, InProd]
  | cons l ls ih =>
    cases v with
    | nil => simp [product, InProd]
    | cons x v =>
      simp only [product, List.mem_flatMap, List.mem_map, InProd]
      constructor
      · rintro ⟨a, ha, t, ht, e⟩
        simp only [List.cons.injEq] at e
        obtain ⟨rfl, rfl⟩ := e
        exact ⟨ha, (ih _).mp ht⟩
      · rintro ⟨hx, hv⟩
        exact ⟨x, hx, v, (ih _).mpr hv, rfl⟩

theorem length_product {α : Type} (ls : List (List α)) :
    (product ls).length = (ls.map List.length).prod := by
  induction ls with
  | nil => simp [product]
  | cons l ls ih =>
    simp only [product, List.length_flatMap, List.length_map, ih, List.map_cons, List.prod_cons]
    induction l with
    | nil => simp
    | cons a t iht => simp [List.sum_cons, iht, Nat.succ_mul, Nat.add_comm]

theorem product_nodup {α : Type} [DecidableEq α] (ls : List (List α))
    (h : ∀ l ∈ ls, l.Nodup) : (product ls).Nodup := by
  induction ls with
  | nil => simp [product]
  | cons l ls ih =>
    have hl : l.Nodup := h l (by simp)
    have ih' := ih (fun l' hl' => h l' (by simp [hl']))
    simp only [product]
    clear h ih
    induction l with
    | nil => simp
    | cons a t iht =>
      simp only [List.flatMap_cons]
      rw [List.nodup_append]
      simp only [List.nodup_cons] at hl
      refine ⟨?_, iht hl.2, ?_⟩
      · exact List.Pairwise.map _ (fun x y hxy e => hxy (by simpa using e)) ih'
      · intro x hx y hy e
        subst e
        simp only [List.mem_map] at hx
        obtain ⟨v, _, rfl⟩ := hx
        simp only [List.mem_flatMap, List.mem_map] at hy
        obtain ⟨b, hb, w, _, e⟩ := hy
        simp only [List.cons.injEq] at e
        exact hl.1 (e.1 ▸ hb)

end SciVerif.C20
