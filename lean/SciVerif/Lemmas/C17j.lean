import SciVerif.Lemmas.C17i

/-! Refinement (C17), part 12: the side conditions `InFrag` / `FragRun` as an executable check.
    Every conjunct of `InFrag` is decidable (the quantified ones range over the single result of
    `sEval` / `sLookup` / `select`), so membership of a program in the proved fragment is a
    computation on the program text and the initial specification environment. -/
namespace SciVerif.C17

instance (p : List Str) : Decidable (WFPath p) := by unfold WFPath; infer_instance
instance (q : Str) : Decidable (ExactText q) := by unfold ExactText; infer_instance
instance (d : List Str) : Decidable (WFDest d) := by unfold WFDest; infer_instance

def wfSourceB : Option Str → Bool
  | none => true
  | some s => decide (s ≠ [] ∧ '?' ∉ s)

theorem wfSourceB_iff (source : Option Str) : wfSourceB source = true ↔ WFSource source := by
  cases source with
  | none => simp [wfSourceB, WFSource]
  | some s => simp [wfSourceB, WFSource]

def wfqB : SQuery → Bool
  | .all => true
  | .children p => decide (WFPath p ∧ '?' ∉ joinDot p)
  | .exact p => decide (WFPath p ∧ ExactText (joinDot p))

theorem wfqB_iff (q : SQuery) : wfqB q = true ↔ WFQ q := by
  cases q <;> simp [wfqB, WFQ]

/-- integer hosts stay unit-less: test on the one value `sEval` delivers -/
def intUnitB (senv : SEnv) (sv : SVal) (kw : Kw) (unit : Option Str) : Bool :=
  match sEval senv sv with
  | .ok (_, u) => decide (kw = .int → unit = none ∧ u = none)
  | .error _ => true

/-- an injected definition takes a node of its own type: test on the one selected node -/
def sameKwB (senv : SEnv) (source : Option Str) (p : List Str) (kw : Kw) : Bool :=
  match sLookup senv source with
  | none => true
  | some ss => match select (.exact p) ss with
    | [s] => decide (s.kw = kw)
    | _ => true

/-- an import selects at least one node -/
def selNonemptyB (senv : SEnv) (source : Option Str) (q : SQuery) : Bool :=
  match sLookup senv source with
  | none => true
  | some ss => !(select q ss).isEmpty

/-- `InFrag` as a computation -/
def inFragB (senv : SEnv) : SStmt → Bool
  | .defn path kw _ sv unit =>
    decide (WFPath path) && isTyped kw && intUnitB senv sv kw unit &&
    (match sv with
     | .lit _ => true
     | .inj source (.exact p) _ => wfSourceB source && decide (WFPath p) && decide (ExactText (joinDot p)) &&
         sameKwB senv source p kw
     | _ => false)
  | .modl path sv _ =>
    decide (WFPath path) &&
    (match sv with
     | .lit _ => true
     | .inj source (.exact p) _ => wfSourceB source && decide (WFPath p) && decide (ExactText (joinDot p))
     | _ => false)
  | .imp dest source q =>
    wfSourceB source && decide (WFDest dest) && decide ('{' ∉ joinDot dest) &&
    decide ('{' ∉ source.getD [] ++ '?' :: renderQ q) && wfqB q && selNonemptyB senv source q
  | _ => false

theorem intUnitB_sound {senv : SEnv} {sv : SVal} {kw : Kw} {unit : Option Str}
    (h : intUnitB senv sv kw unit = true) :
    ∀ v u, sEval senv sv = .ok (v, u) → kw = .int → unit = none ∧ u = none := by
  intro v u he
  simp only [intUnitB, he, decide_eq_true_eq] at h
  exact h

theorem sameKwB_sound {senv : SEnv} {source : Option Str} {p : List Str} {kw : Kw}
    (h : sameKwB senv source p kw = true) :
    ∀ ss s, sLookup senv source = some ss → select (.exact p) ss = [s] → s.kw = kw := by
  intro ss s hl hs
  simp only [sameKwB, hl, hs, decide_eq_true_eq] at h
  exact h

theorem selNonemptyB_sound {senv : SEnv} {source : Option Str} {q : SQuery}
    (h : selNonemptyB senv source q = true) :
    ∀ ss, sLookup senv source = some ss → select q ss ≠ [] := by
  intro ss hl e
  simp [selNonemptyB, hl, e] at h

/-- the check is sound: a statement it accepts is in the proved fragment -/
theorem inFragB_sound (senv : SEnv) (s : SStmt) (h : inFragB senv s = true) : InFrag senv s := by
  cases s with
  | defn path kw dims sv unit =>
    simp only [inFragB, Bool.and_eq_true, decide_eq_true_eq] at h
    obtain ⟨⟨⟨h1, h2⟩, h3⟩, h4⟩ := h
    refine ⟨h1, h2, intUnitB_sound h3, ?_⟩
    cases sv with
    | lit v => trivial
    | inj source q sl =>
      cases q with
      | all => simp at h4
      | children p => simp at h4
      | exact p =>
        simp only [Bool.and_eq_true, decide_eq_true_eq] at h4
        obtain ⟨⟨⟨a, b⟩, c⟩, d⟩ := h4
        exact ⟨(wfSourceB_iff source).mp a, b, c, sameKwB_sound d⟩
  | modl path sv unit =>
    simp only [inFragB, Bool.and_eq_true, decide_eq_true_eq] at h
    obtain ⟨h1, h4⟩ := h
    refine ⟨h1, ?_⟩
    cases sv with
    | lit v => trivial
    | inj source q sl =>
      cases q with
      | all => simp at h4
      | children p => simp at h4
      | exact p =>
        simp only [Bool.and_eq_true, decide_eq_true_eq] at h4
        obtain ⟨⟨a, b⟩, c⟩ := h4
        exact ⟨(wfSourceB_iff source).mp a, b, c⟩
  | imp dest source q =>
    simp only [inFragB, Bool.and_eq_true, decide_eq_true_eq] at h
    obtain ⟨⟨⟨⟨⟨a, b⟩, c⟩, d⟩, e⟩, f⟩ := h
    exact ⟨(wfSourceB_iff source).mp a, b, c, d, (wfqB_iff q).mp e, selNonemptyB_sound f⟩
  | constant path => simp [inFragB] at h
  | condition path e => simp [inFragB] at h
  | format path f => simp [inFragB] at h
  | tags path l => simp [inFragB] at h
  | option path r u => simp [inFragB] at h
  | description path d => simp [inFragB] at h
  | decl path kw dims unit => simp [inFragB] at h
  | unitdef name v unit => simp [inFragB] at h
  | unitimp a b => simp [inFragB] at h
  | caseCond v => simp [inFragB] at h
  | caseElse => simp [inFragB] at h
  | caseEnd => simp [inFragB] at h

/-- `FragRun` as a computation: the check of every statement in the specification environment
    the specification's own run reaches -/
def fragRunB (tbl : UnitTable) : SEnv → List SStmt → Bool
  | _, [] => true
  | senv, s :: rest =>
    inFragB senv s &&
    (match sStep tbl senv s with
     | .ok senv' => fragRunB tbl senv' rest
     | .error _ => true)

theorem fragRunB_sound (tbl : UnitTable) (senv : SEnv) (stmts : List SStmt)
    (h : fragRunB tbl senv stmts = true) : FragRun tbl senv stmts := by
  induction stmts generalizing senv with
  | nil => trivial
  | cons s rest ih =>
    simp only [fragRunB, Bool.and_eq_true] at h
    refine ⟨inFragB_sound senv s h.1, ?_⟩
    intro senv' hs
    have h2 := h.2
    simp only [hs] at h2
    exact ih senv' h2

/-! ### … and complete: the check accepts every statement / program of the fragment -/

theorem intUnitB_complete {senv : SEnv} {sv : SVal} {kw : Kw} {unit : Option Str}
    (h : ∀ v u, sEval senv sv = .ok (v, u) → kw = .int → unit = none ∧ u = none) :
    intUnitB senv sv kw unit = true := by
  unfold intUnitB
  cases he : sEval senv sv with
  | error e => rfl
  | ok r =>
    obtain ⟨v, u⟩ := r
    simp only [decide_eq_true_eq]
    exact h v u he

theorem sameKwB_complete {senv : SEnv} {source : Option Str} {p : List Str} {kw : Kw}
    (h : ∀ ss s, sLookup senv source = some ss → select (.exact p) ss = [s] → s.kw = kw) :
    sameKwB senv source p kw = true := by
  unfold sameKwB
  cases hl : sLookup senv source with
  | none => rfl
  | some ss =>
    simp only
    cases hs : select (.exact p) ss with
    | nil => rfl
    | cons a t =>
      cases t with
      | nil => simp only [decide_eq_true_eq]; exact h ss a hl hs
      | cons b t2 => rfl

theorem selNonemptyB_complete {senv : SEnv} {source : Option Str} {q : SQuery}
    (h : ∀ ss, sLookup senv source = some ss → select q ss ≠ []) :
    selNonemptyB senv source q = true := by
  unfold selNonemptyB
  cases hl : sLookup senv source with
  | none => rfl
  | some ss =>
    have := h ss hl
    cases hs : select q ss with
    | nil => exact absurd hs this
    | cons a t => simp [hs]

theorem inFragB_complete (senv : SEnv) (s : SStmt) (h : InFrag senv s) : inFragB senv s = true := by
  cases s with
  | defn path kw dims sv unit =>
    obtain ⟨h1, h2, h3, h4⟩ := h
    simp only [inFragB, Bool.and_eq_true, decide_eq_true_eq]
    refine ⟨⟨⟨h1, h2⟩, intUnitB_complete h3⟩, ?_⟩
    cases sv with
    | lit v => rfl
    | inj source q sl =>
      cases q with
      | all => exact absurd h4 (by simp)
      | children p => exact absurd h4 (by simp)
      | exact p =>
        obtain ⟨a, b, c, d⟩ := h4
        simp only [Bool.and_eq_true, decide_eq_true_eq]
        exact ⟨⟨⟨(wfSourceB_iff source).mpr a, b⟩, c⟩, sameKwB_complete d⟩
  | modl path sv unit =>
    obtain ⟨h1, h4⟩ := h
    simp only [inFragB, Bool.and_eq_true, decide_eq_true_eq]
    refine ⟨h1, ?_⟩
    cases sv with
    | lit v => rfl
    | inj source q sl =>
      cases q with
      | all => exact absurd h4 (by simp)
      | children p => exact absurd h4 (by simp)
      | exact p =>
        obtain ⟨a, b, c⟩ := h4
        simp only [Bool.and_eq_true, decide_eq_true_eq]
        exact ⟨⟨(wfSourceB_iff source).mpr a, b⟩, c⟩
  | imp dest source q =>
    obtain ⟨a, b, c, d, e, f⟩ := h
    simp only [inFragB, Bool.and_eq_true, decide_eq_true_eq]
    exact ⟨⟨⟨⟨⟨(wfSourceB_iff source).mpr a, b⟩, c⟩, d⟩, (wfqB_iff q).mpr e⟩, selNonemptyB_complete f⟩
  | constant path => exact absurd h (by simp [InFrag])
  | condition path e => exact absurd h (by simp [InFrag])
  | format path f => exact absurd h (by simp [InFrag])
  | tags path l => exact absurd h (by simp [InFrag])
  | option path r u => exact absurd h (by simp [InFrag])
  | description path d => exact absurd h (by simp [InFrag])
  | decl path kw dims unit => exact absurd h (by simp [InFrag])
  | unitdef name v unit => exact absurd h (by simp [InFrag])
  | unitimp a b => exact absurd h (by simp [InFrag])
  | caseCond v => exact absurd h (by simp [InFrag])
  | caseElse => exact absurd h (by simp [InFrag])
  | caseEnd => exact absurd h (by simp [InFrag])

theorem fragRunB_iff (tbl : UnitTable) (senv : SEnv) (stmts : List SStmt) :
    fragRunB tbl senv stmts = true ↔ FragRun tbl senv stmts := by
  refine ⟨fragRunB_sound tbl senv stmts, ?_⟩
  induction stmts generalizing senv with
  | nil => intro _; rfl
  | cons s rest ih =>
    intro h
    obtain ⟨h1, h2⟩ := h
    simp only [fragRunB, Bool.and_eq_true]
    refine ⟨inFragB_complete senv s h1, ?_⟩
    cases hs : sStep tbl senv s with
    | error e => rfl
    | ok senv' => exact ih senv' (h2 senv' hs)

end SciVerif.C17
