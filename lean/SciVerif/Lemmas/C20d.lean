import SciVerif.Lemmas.C20b

namespace SciVerif.C20

theorem flatMap_range_getElem? {α β : Type} (l : List α) (G : Option α → List β) :
    (List.range l.length).flatMap (fun x => G l[x]?) = l.flatMap (fun a => G (some a)) := by
  induction l with
  | nil => simp
  | cons a t ih =>
    rw [List.length_cons, List.range_succ_eq_map, List.flatMap_cons, List.flatMap_cons,
      List.flatMap_map]
    simp only [List.getElem?_cons_zero, Nat.succ_eq_add_one,
      List.getElem?_cons_succ]
    rw [ih]

theorem mapM_id_cons {α : Type} (o : Option α) (rest : List (Option α)) :
    (o :: rest).mapM id = o.bind (fun a => (rest.mapM id).map (a :: ·)) := by
  cases o with
  | none => simp [List.mapM_cons]
  | some a =>
    cases h : rest.mapM id <;> simp [List.mapM_cons, h]

/-- Values looked up through the key tuples are exactly the product, in the same order. -/
theorem combo_lookup {α : Type} (items : List (List α)) :
    (comboKeys items).map (fun ks =>
        (List.zipWith (fun (l : List α) (k : Nat) => l[k]?) items ks).mapM id) =
      (product items).map some := by
  induction items with
  | nil => simp [comboKeys, product]
  | cons l ls ih =>
    simp only [comboKeys, List.map_cons, product, List.map_flatMap, List.map_map,
      Function.comp_def, List.zipWith_cons_cons, mapM_id_cons]
    have := flatMap_range_getElem? l (fun (o : Option α) =>
      (product (ls.map (fun l => List.range l.length))).map (fun ks =>
        o.bind (fun a => ((List.zipWith (fun (l : List α) (k : Nat) => l[k]?) ls ks).mapM id).map (a :: ·))))
    rw [this]
    congr 1
    funext a
    simp only [Option.bind_some]
    have ih' := ih
    simp only [comboKeys] at ih'
    have h2 : ∀ (xs : List (List Nat)),
        xs.map (fun ks => ((List.zipWith (fun (l : List α) (k : Nat) => l[k]?) ls ks).mapM id).map (a :: ·)) =
        (xs.map (fun ks => (List.zipWith (fun (l : List α) (k : Nat) => l[k]?) ls ks).mapM id)).map
          (Option.map (a :: ·)) := by
      intro xs; simp [List.map_map, Function.comp_def]
    rw [h2, ih']
    simp [List.map_map, Function.comp_def]

/-- `append(dict)`: a dict with exactly the column names (any order) appends the row
    read in column order. -/
theorem appendDict_eq {α : Type} (r : RC α) (kvs : List (String × α)) (vals : List α)
    (hk : ∀ kv ∈ kvs, kv.1 ∈ r.names)
    (hv : r.names.mapM (fun n => dget kvs n) = some vals) :
    r.appendDict kvs = r.appendRow vals := by
  unfold RC.appendDict
  have : kvs.any (fun kv => !(r.names.contains kv.1)) = false := by
    rw [List.any_eq_false]
    intro kv hkv
    simp [hk kv hkv]
  rw [this]
  simp [hv]

end SciVerif.C20
