import SciVerif.Lemmas.C01i
import SciVerif.Lemmas.C01d
import SciVerif.Lemmas.C02

/-!
# C01 helper lemmas, part 10 (character level): every expression's items satisfy the neighbour
  conditions; `solve` on the text of an expression, by induction over the call nesting.
-/
namespace SciVerif.C01
open SciVerif.C01.Gen

variable {A : Type} (alg : AtomAlg A) (lit : List Char → A)

/-! ### the neighbour conditions hold for the items of every expression -/

theorem Adj.cons {a : LItem} {rest : List LItem} (h : ∀ b, rest.head? = some b → okNext a b)
    (hr : Adj rest) : Adj (a :: rest) := by
  cases rest with
  | nil => trivial
  | cons b r => exact ⟨h b rfl, hr⟩

theorem Adj.append {xs : List LItem} {y : LItem} {ys : List LItem} (hx : Adj xs) (hy : Adj (y :: ys))
    (hl : ∀ a, xs.getLast? = some a → okNext a y) : Adj (xs ++ y :: ys) := by
  induction xs with
  | nil => simpa using hy
  | cons a xs ih =>
    cases xs with
    | nil => exact ⟨hl a rfl, hy⟩
    | cons b r =>
      refine ⟨hx.1, ?_⟩
      exact ih hx.2 (fun c hc => hl c (by simpa [List.getLast?_cons_cons] using hc))

theorem items_head (e : E) (h : LitOK alg lit e) :
    ∃ it r, items e = it :: r ∧ SafeHead it.firstLex := by
  induction e with
  | num t => exact ⟨.lit t, [], rfl, (litSafe_good t h.1).2.2.2⟩
  | fn1 f a _ => exact ⟨.call1 f a, [], rfl, (f1Sym_props f).2.1⟩
  | fn2 g a b _ _ => exact ⟨.call2 g a b, [], rfl, (f2Sym_props g).2.1⟩
  | sign s e _ =>
    refine ⟨.opr (.sign s), items e, rfl, ?_⟩
    cases s <;> exact ⟨by decide, by decide⟩
  | bin o l r ihl _ =>
    obtain ⟨it, r', e1, h1⟩ := ihl h.1
    exact ⟨it, r' ++ [.opr (.bin o)] ++ items r, by simp [items, e1], h1⟩
  | not e _ => exact ⟨.opr .not, items e, rfl, ⟨by decide, by decide⟩⟩

theorem items_last (e : E) : ∃ pre it, items e = pre ++ [it] ∧ it.isOpr = false := by
  induction e with
  | num t => exact ⟨[], .lit t, rfl, rfl⟩
  | fn1 f a _ => exact ⟨[], .call1 f a, rfl, rfl⟩
  | fn2 g a b _ _ => exact ⟨[], .call2 g a b, rfl, rfl⟩
  | sign s e ih =>
    obtain ⟨pre, it, e1, h1⟩ := ih
    exact ⟨.opr (.sign s) :: pre, it, by simp [items, e1], h1⟩
  | bin o l r _ ihr =>
    obtain ⟨pre, it, e1, h1⟩ := ihr
    exact ⟨items l ++ [.opr (.bin o)] ++ pre, it, by simp [items, e1], h1⟩
  | not e ih =>
    obtain ⟨pre, it, e1, h1⟩ := ih
    exact ⟨.opr .not :: pre, it, by simp [items, e1], h1⟩

theorem okNext_opr (k : OprK) (b : LItem) (hb : SafeHead b.firstLex) : okNext (.opr k) b :=
  ⟨fun h => by simp [LItem.isLit] at h, fun _ => hb⟩

theorem adj_items (e : E) (h : LitOK alg lit e) : Adj (items e) := by
  induction e with
  | num t => trivial
  | fn1 f a _ => trivial
  | fn2 g a b _ _ => trivial
  | sign s e ih =>
    obtain ⟨it, r, e1, h1⟩ := items_head alg lit e h
    exact Adj.cons (fun b hb => by
      rw [e1] at hb; simp at hb; subst hb; exact okNext_opr _ _ h1) (ih h)
  | bin o l r ihl ihr =>
    obtain ⟨it, r', e1, h1⟩ := items_head alg lit r h.2
    obtain ⟨pre, lst, e2, h2⟩ := items_last l
    have hy : Adj (.opr (.bin o) :: items r) := Adj.cons (fun b hb => by
      rw [e1] at hb; simp at hb; subst hb; exact okNext_opr _ _ h1) (ihr h.2)
    have := Adj.append (ihl h.1) hy (fun a ha => by
      rw [e2] at ha; simp at ha; subst ha
      exact ⟨fun _ => rfl, fun hh => by rw [h2] at hh; cases hh⟩)
    simpa [items] using this
  | not e ih =>
    obtain ⟨it, r, e1, h1⟩ := items_head alg lit e h
    exact Adj.cons (fun b hb => by
      rw [e1] at hb; simp at hb; subst hb; exact okNext_opr _ _ h1) (ih h)

/-! ### the arguments of the calls of one nesting level -/

variable (sa : Bufs A → List Char → Bufs A × Except String (Tok A))

def ArgsOK : E → Prop
  | .num _ => True
  | .fn1 _ a => ArgOK alg lit sa a
  | .fn2 _ a b => ArgOK alg lit sa a ∧ ArgOK alg lit sa b
  | .sign _ e => ArgsOK e
  | .bin _ l r => ArgsOK l ∧ ArgsOK r
  | .not e => ArgsOK e

theorem itemOK_items (e : E) (hl : LitOK alg lit e) (ha : ArgsOK alg lit sa e) :
    ∀ it ∈ items e, ItemOK alg lit sa it := by
  induction e with
  | num t => intro it hit; simp [items] at hit; subst hit; exact hl
  | fn1 f a _ => intro it hit; simp [items] at hit; subst hit; exact ha
  | fn2 g a b _ _ => intro it hit; simp [items] at hit; subst hit; exact ha
  | sign s e ih =>
    intro it hit
    simp only [items, List.mem_cons] at hit
    rcases hit with rfl | hit
    · trivial
    · exact ih hl ha it hit
  | bin o l r ihl ihr =>
    intro it hit
    simp only [items, List.mem_append, List.mem_singleton] at hit
    rcases hit with (hit | rfl) | hit
    · exact ihl hl.1 ha.1 it hit
    · trivial
    · exact ihr hl.2 ha.2 it hit
  | not e ih =>
    intro it hit
    simp only [items, List.mem_cons] at hit
    rcases hit with rfl | hit
    · trivial
    · exact ih hl ha it hit

/-- (B) the tokeniser loop delivers the token list of the expression -/
theorem tokLoop_text (e : E) (hl : LitOK alg lit e) (ha : ArgsOK alg lit sa e)
    (u : List Char) (k n : Nat) (hu : Pre (lexemes e) u) (hn : u.length + k + 1 ≤ n) :
    tokLoop dflt alg sa n ⟨[], u ++ blanks k⟩ ⟨[], []⟩ = .ok ⟨[], toks dflt alg lit e⟩ := by
  have := tok_items alg lit sa (items e) (adj_items alg lit e hl) (itemOK_items alg lit sa e hl ha)
    [] [] u ⟨[], []⟩ k n (pending_nil alg lit) (fun h => absurd rfl h)
    (by rw [← lexemes_items]; exact hu) hn
  rw [this, toks_items]
  simp [pendTok]

/-! ### `solve`, by induction over the call nesting -/

/-- nesting depth of calls -/
def cdepth : E → Nat
  | .num _ => 0
  | .fn1 _ a => cdepth a + 1
  | .fn2 _ a b => max (cdepth a) (cdepth b) + 1
  | .sign _ e => cdepth e
  | .bin _ l r => max (cdepth l) (cdepth r)
  | .not e => cdepth e

theorem cdepth_le_lexemes (e : E) : cdepth e + 1 ≤ (lexemes e).length := by
  induction e with
  | num t => simp [cdepth, lexemes]
  | fn1 f a ih => simp [cdepth, lexemes]; omega
  | fn2 g a b iha ihb => simp [cdepth, lexemes]; omega
  | sign s e ih => simp [cdepth, lexemes]; omega
  | bin o l r ihl ihr => simp [cdepth, lexemes]; omega
  | not e ih => simp [cdepth, lexemes]; omega

/-- the solver a call's arguments are given to: a fresh instance with one unit of fuel less -/
def nestedSolve (n : Nat) : Bufs A → List Char → Bufs A × Except String (Tok A) :=
  fun st a => solveFromF dflt alg dfltSteps n (resetBufs st) a

theorem solveFromF_of_tokens (n : Nat) (s : List Char) (T : List (Tok A)) (t : Tok A)
    (ht : tokLoop dflt alg (nestedSolve alg n) (s.length + 1) ⟨[], s⟩ ⟨[], []⟩ = .ok ⟨[], T⟩)
    (hs : solveToks dflt alg dfltSteps T = .ok t) :
    solveFromF dflt alg dfltSteps (n + 1) ⟨[], []⟩ s = (⟨[], []⟩, .ok t) := by
  unfold nestedSolve at ht
  simp only [solveFromF, ht]
  unfold solveToks at hs
  cases hr : runSteps dflt alg dfltSteps ⟨[], T⟩ with
  | error e => rw [hr] at hs; cases hs
  | ok b2 =>
    rw [hr] at hs
    simp only at hs ⊢
    cases hf : finish b2 with
    | error e => rw [hf] at hs; cases hs
    | ok tb =>
      obtain ⟨t', b3⟩ := tb
      rw [hf] at hs
      simp only [Except.ok.injEq] at hs
      subst hs
      have := SciVerif.C02.finish_ok_empty b2 b3 t' hf
      simp [this]

end SciVerif.C01
