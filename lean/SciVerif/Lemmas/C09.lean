import SciVerif.Model.C09
import SciVerif.Lemmas.C20

/-!
Helper lemmas for C09: what the registration loop adds is exactly what `close` removes.
-/
namespace SciVerif.C09
open SciVerif.C20 (Tbl dget dset ddel)

/-! ### the table operations are the ones of the C20 model -/

theorem tblAppend_eq_step (t : Tbl Sym Row) (k : Sym) (v : Row) :
    tblAppend t k v = (t.step (.append k v)).1 := rfl

theorem tblDel_eq_step (t : Tbl Sym Row) (k : Sym) :
    tblDel t k = (if (t.step (.del k)).2 = .unit then some (t.step (.del k)).1 else none) := by
  unfold tblDel Tbl.step
  by_cases h : k ∈ t.keys <;> simp [h]

/-! ### association-list facts -/

theorem dset_append_new {V : Type} (m : List (Sym × V)) (k : Sym) (v : V) (h : k ∉ m.map Prod.fst) :
    dset m k v = m ++ [(k, v)] := by
  induction m with
  | nil => rfl
  | cons a t ih =>
    obtain ⟨k', v'⟩ := a
    simp only [List.map_cons, List.mem_cons, not_or] at h
    have hne : ¬ k' = k := fun e => h.1 e.symm
    simp [dset, hne, ih h.2]

theorem ddel_append_new {V : Type} (m rest : List (Sym × V)) (k : Sym) (v : V) (h : k ∉ m.map Prod.fst) :
    ddel (m ++ (k, v) :: rest) k = m ++ rest := by
  induction m with
  | nil => simp [ddel]
  | cons a t ih =>
    obtain ⟨k', v'⟩ := a
    simp only [List.map_cons, List.mem_cons, not_or] at h
    have hne : ¬ k' = k := fun e => h.1 e.symm
    simp [ddel, hne, ih h.2]

theorem dget_append_new {V : Type} (m rest : List (Sym × V)) (k : Sym) (v : V) (h : k ∉ m.map Prod.fst) :
    dget (m ++ (k, v) :: rest) k = some v := by
  induction m with
  | nil => simp [dget]
  | cons a t ih =>
    obtain ⟨k', v'⟩ := a
    simp only [List.map_cons, List.mem_cons, not_or] at h
    have hne : ¬ k' = k := fun e => h.1 e.symm
    simp [dget, hne, ih h.2]

theorem dget_append_left {V : Type} (m rest : List (Sym × V)) (k : Sym) (v : V) (h : dget m k = some v) :
    dget (m ++ rest) k = some v := by
  induction m with
  | nil => simp [dget] at h
  | cons a t ih =>
    obtain ⟨k', v'⟩ := a
    by_cases hk : k' = k
    · simp [dget, hk] at h ⊢; exact h
    · simp [dget, hk] at h ⊢; exact ih h

/-! ### the invariant of the registration loop

`Added g0 g e`: relative to the globals `g0` at the start of `__init__`, the globals `g` hold
exactly the rows listed in `e.new_units` appended (in order) behind the old ones, and exactly the
classes in `e.new_types` pushed (in order) in front of `UNIT_TYPES`. -/
structure Added (g0 g : Globals) (e : Env) : Prop where
  rows : ∃ rs : List (Sym × Row), rs.map Prod.fst = e.new_units ∧
    g.std.data = g0.std.data ++ rs
  keys : g.std.keys = g0.std.keys ++ e.new_units
  types : g.types = e.new_types.reverse ++ g0.types
  prefixes : g.prefixes = g0.prefixes
  fresh_units : ∀ k ∈ e.new_units, k ∉ g0.std.keys
  nodup_units : e.new_units.Nodup
  fresh_types : ∀ t ∈ e.new_types, t ∉ g0.types
  nodup_types : e.new_types.Nodup

/-- The ParameterTable invariant the whole library maintains (C20): `_keys` is the dict's key order. -/
def WF (g : Globals) : Prop := g.std.keys = g.std.data.map Prod.fst

theorem Added.refl (g : Globals) : Added g g ⟨[], []⟩ :=
  ⟨⟨[], rfl, by simp⟩, by simp, by simp, rfl, by simp, List.nodup_nil, by simp, List.nodup_nil⟩

theorem Added.wf {g0 g : Globals} {e : Env} (h : Added g0 g e) (w : WF g0) : WF g := by
  obtain ⟨rs, hrs, hd⟩ := h.rows
  unfold WF at *
  rw [h.keys, hd, List.map_append, hrs, w]

theorem regTypes_added (g0 g : Globals) (e : Env) (df : Defn) (h : Added g0 g e) :
    Added g0 (regTypes g e df).1 (regTypes g e df).2 := by
  cases df with
  | none => exact h
  | str s => exact h
  | ty t =>
    unfold regTypes
    by_cases ht : t ∈ g.types
    · simp only [ht, if_true]; exact h
    · simp only [ht, if_false]
      have ht0 : t ∉ g0.types := fun hh => ht (by rw [h.types]; exact List.mem_append_right _ hh)
      have hte : t ∉ e.new_types := fun hh => ht (by
        rw [h.types]; exact List.mem_append_left _ (List.mem_reverse.mpr hh))
      refine ⟨h.rows, h.keys, ?_, h.prefixes, h.fresh_units, h.nodup_units, ?_, ?_⟩
      · simp [h.types]
      · intro t' ht'
        simp only [List.mem_append, List.mem_singleton] at ht'
        rcases ht' with h1 | rfl
        · exact h.fresh_types t' h1
        · exact ht0
      · exact List.nodup_append.mpr ⟨h.nodup_types, by simp, by
          intro a ha b hb
          simp only [List.mem_singleton] at hb
          subst hb
          exact fun e' => hte (e' ▸ ha)⟩

theorem regTypes_std (g : Globals) (e : Env) (df : Defn) :
    (regTypes g e df).1.std = g.std ∧ (regTypes g e df).1.prefixes = g.prefixes := by
  cases df with
  | none => exact ⟨rfl, rfl⟩
  | str s => exact ⟨rfl, rfl⟩
  | ty t => unfold regTypes; by_cases ht : t ∈ g.types <;> simp [ht]

/-- The shape of the append statement. -/
theorem regAppend_shape (g : Globals) (e : Env) (symbol : Sym) (m d : Option String) (defn : Defn)
    (name : String) (pref : Pref) :
    (regAppend g e symbol m d defn name pref = (g, e, false) ∧ (m = none ∨ d = none)) ∨
    (∃ mag dims, m = some mag ∧ d = some dims ∧
      regAppend g e symbol m d defn name pref =
        ({ g with std := tblAppend g.std symbol ⟨mag, dims, defn, name, pref⟩ },
         { e with new_units := e.new_units ++ [symbol] }, true)) := by
  rcases m with _ | mv <;> rcases d with _ | dv
  · left; exact ⟨rfl, Or.inl rfl⟩
  · left; exact ⟨rfl, Or.inl rfl⟩
  · left; exact ⟨rfl, Or.inr rfl⟩
  · right; exact ⟨mv, dv, rfl, rfl, rfl⟩

theorem append_added (g0 g1 : Globals) (e1 : Env) (w : WF g0) (symbol : Sym) (r : Row)
    (h1 : Added g0 g1 e1) (hs : symbol ∉ g1.std.keys) :
    Added g0 { g1 with std := tblAppend g1.std symbol r }
      { e1 with new_units := e1.new_units ++ [symbol] } := by
  have w1 : WF g1 := h1.wf w
  obtain ⟨rs, hrs, hd⟩ := h1.rows
  have hs0 : symbol ∉ g0.std.keys := fun hh => hs (by rw [h1.keys]; exact List.mem_append_left _ hh)
  have hse : symbol ∉ e1.new_units := fun hh => hs (by rw [h1.keys]; exact List.mem_append_right _ hh)
  have hsd : symbol ∉ g1.std.data.map Prod.fst := by unfold WF at w1; rw [← w1]; exact hs
  refine ⟨⟨rs ++ [(symbol, r)], by simp [hrs], ?_⟩, ?_, h1.types, h1.prefixes, ?_, ?_, h1.fresh_types, h1.nodup_types⟩
  · simp only [tblAppend]
    rw [dset_append_new _ _ _ hsd, hd, List.append_assoc]
  · simp only [tblAppend, hs, if_false]
    rw [h1.keys, List.append_assoc]
  · intro k hk
    simp only [List.mem_append, List.mem_singleton] at hk
    rcases hk with hk | rfl
    · exact h1.fresh_units k hk
    · exact hs0
  · exact List.nodup_append.mpr ⟨h1.nodup_units, by simp, by
      intro a ha b hb
      simp only [List.mem_singleton] at hb
      subst hb
      exact fun e' => hse (e' ▸ ha)⟩

/-- One loop iteration keeps the invariant, whether it completes or raises. -/
theorem regOne_added (g0 g : Globals) (e : Env) (w : WF g0) (symbol : Sym) (u : UnitDef)
    (h : Added g0 g e) :
    Added g0 (regOne g e symbol u).1 (regOne g e symbol u).2.1 := by
  unfold regOne
  by_cases hc : conversionRaises u = true
  · simp only [hc, if_true]; exact h
  · simp only [hc, Bool.false_eq_true, if_false]
    by_cases hs : symbol ∈ g.std.keys
    · simp only [hs, if_true]; exact h
    · simp only [hs, if_false]
      cases hf : fieldsOf u with
      | none => exact h
      | some f =>
        obtain ⟨m, d, df, n, p⟩ := f
        simp only
        have ht := regTypes_added g0 g e (df.getD Defn.none) h
        have hstd := (regTypes_std g e (df.getD Defn.none)).1
        rcases regAppend_shape (regTypes g e (df.getD Defn.none)).1
            (regTypes g e (df.getD Defn.none)).2 symbol m d
            (df.getD Defn.none)
            (n.getD symbol)
            (p.getD Pref.no) with ⟨he, _⟩ | ⟨mag, dims, _, _, he⟩
        · rw [he]; exact ht
        · rw [he]
          exact append_added g0 _ _ w symbol _ ht (by rw [hstd]; exact hs)

/-- The whole loop keeps the invariant. -/
theorem regLoop_added (g0 : Globals) (w : WF g0) (units : List (Sym × UnitDef)) :
    ∀ (g : Globals) (e : Env), Added g0 g e →
      Added g0 (regLoop g e units).1 (regLoop g e units).2.1 := by
  induction units with
  | nil => intro g e h; exact h
  | cons su rest ih =>
    intro g e h
    obtain ⟨symbol, u⟩ := su
    have h1 := regOne_added g0 g e w symbol u h
    unfold regLoop
    rcases hr : regOne g e symbol u with ⟨g', e', ok⟩
    rw [hr] at h1
    cases ok with
    | true => exact ih g' e' h1
    | false => exact h1

/-! ### `close` undoes exactly what was added -/

theorem closeUnits_added (keys0 : List Sym) (data0 : List (Sym × Row)) (ty pf : List String)
    (hk : keys0 = data0.map Prod.fst) :
    ∀ (rs : List (Sym × Row)), (rs.map Prod.fst).Nodup → (∀ k ∈ rs.map Prod.fst, k ∉ keys0) →
      closeUnits ⟨⟨keys0 ++ rs.map Prod.fst, data0 ++ rs⟩, ty, pf⟩ (rs.map Prod.fst) =
        (⟨⟨keys0, data0⟩, ty, pf⟩, true) := by
  intro rs
  induction rs with
  | nil => intro _ _; simp [closeUnits]
  | cons a t ih =>
    intro hn hf
    obtain ⟨k, r⟩ := a
    simp only [List.map_cons, List.nodup_cons] at hn
    have hk0 : k ∉ keys0 := hf k (by simp)
    have hkd : k ∉ data0.map Prod.fst := by rw [← hk]; exact hk0
    have hmem : k ∈ keys0 ++ k :: t.map Prod.fst := by simp
    have he : (keys0 ++ k :: t.map Prod.fst).erase k = keys0 ++ t.map Prod.fst := by
      rw [List.erase_append_right _ hk0]; simp
    simp only [List.map_cons, closeUnits, tblDel, hmem, if_true, he, ddel_append_new _ _ _ _ hkd]
    exact ih hn.2 (fun k' hk' => hf k' (by simp [hk']))

theorem closeTypes_added (std : Tbl Sym Row) (ty0 pf : List String) :
    ∀ (ts : List Ty), ts.Nodup → (∀ t ∈ ts, t ∉ ty0) →
      closeTypes ⟨std, ts.reverse ++ ty0, pf⟩ ts = (⟨std, ty0, pf⟩, true) := by
  intro ts
  induction ts with
  | nil => intro _ _; simp [closeTypes]
  | cons t rest ih =>
    intro hn hf
    simp only [List.nodup_cons] at hn
    have hmem : t ∈ (t :: rest).reverse ++ ty0 := by simp
    have hnr : t ∉ rest.reverse := fun hh => hn.1 (List.mem_reverse.mp hh)
    have he : ((t :: rest).reverse ++ ty0).erase t = rest.reverse ++ ty0 := by
      rw [List.reverse_cons, List.append_assoc, List.erase_append_right _ hnr]
      simp
    simp only [closeTypes, hmem, if_true, he]
    exact ih hn.2 (fun t' ht' => hf t' (by simp [ht']))

/-- Closing an environment whose additions are still in place gives back the old globals,
    and `close` does not raise. -/
theorem close_added (g0 g : Globals) (e : Env) (w : WF g0) (h : Added g0 g e) :
    close g e = (g0, true) := by
  obtain ⟨rs, hrs, hd⟩ := h.rows
  obtain ⟨⟨keys0, data0⟩, ty0, pf0⟩ := g0
  obtain ⟨⟨keys, data⟩, ty, pf⟩ := g
  obtain ⟨nu, nt⟩ := e
  have hk := h.keys
  have ht := h.types
  have hp := h.prefixes
  simp only at hrs hd hk ht hp
  subst hd hk ht hp hrs
  unfold WF at w
  simp only at w
  have h1 := closeUnits_added keys0 data0 (nt.reverse ++ ty0) pf w rs h.nodup_units h.fresh_units
  unfold close
  simp only [h1]
  exact closeTypes_added ⟨keys0, data0⟩ ty0 pf nt h.nodup_types h.fresh_types

/-! ### `__init__` is all-or-nothing -/

theorem init_cases (g : Globals) (w : WF g) (units : List (Sym × UnitDef)) :
    ((init g units).2 = none ∧ (init g units).1 = g) ∨
    (∃ e, (init g units).2 = some e ∧ Added g (init g units).1 e ∧
      (regLoop g ⟨[], []⟩ units) = ((init g units).1, e, true) ∧ checkUnique (init g units).1 = true) := by
  have ha := regLoop_added g w units g ⟨[], []⟩ (Added.refl g)
  unfold init
  rcases hr : regLoop g ⟨[], []⟩ units with ⟨g1, e1, ok⟩
  rw [hr] at ha
  simp only at ha
  have hc := close_added g g1 e1 w ha
  cases ok with
  | false => left; simp [hc]
  | true =>
    by_cases hu : checkUnique g1
    · right; exact ⟨e1, by simp [hu], by simpa [hu] using ha, by simp [hu], by simp [hu]⟩
    · left; simp [hu, hc]

end SciVerif.C09
