import SciVerif.Lemmas.C19r
/-!
# C19 — DIP text: arrays of strings (`'[["a","b"]]'`, JSON strings with `\uXXXX` escapes) read back
-/
namespace SciVerif.C19

/-! ## `jsonGo` inverts `dipElemChar` -/

theorem hexVal_hexDigit : ∀ d, d < 16 → hexVal (hexDigit d) = some d := by decide

theorem hexDigit_chars : ∀ d, d < 16 →
    hexDigit d ≠ '"' ∧ hexDigit d ≠ '\'' ∧ hexDigit d ≠ '\n' ∧ hexDigit d ≠ '$' := by decide

/-- the four hexadecimal digits of a 16-bit number are worth that number -/
theorem hex4_val (n : Nat) (h : n < 65536) :
    (((0 * 16 + n / 4096 % 16) * 16 + n / 256 % 16) * 16 + n / 16 % 16) * 16 + n % 16 = n := by omega

theorem jsonGo_hex (hi : Option Nat) (n : Nat) (r : Str) :
    jsonGo .plain hi (jsonU n ++ r) =
      jsonGo (.hex 0 (((0 * 16 + n / 4096 % 16) * 16 + n / 256 % 16) * 16 + n / 16 % 16)) hi (hexDigit (n % 16) :: r) := by
  have h1 := hexVal_hexDigit (n / 4096 % 16) (by omega)
  have h2 := hexVal_hexDigit (n / 256 % 16) (by omega)
  have h3 := hexVal_hexDigit (n / 16 % 16) (by omega)
  simp [jsonU, jsonGo, h1, h2, h3]

/-- an escape of a code outside the surrogate range -/
theorem jsonGo_bmp (n : Nat) (h : n < 65536) (hs : n < 55296 ∨ 57343 < n) (r : Str) :
    jsonGo .plain none (jsonU n ++ r) = (jsonGo .plain none r).map (Char.ofNat n :: ·) := by
  rw [jsonGo_hex]
  have h4 := hexVal_hexDigit (n % 16) (by omega)
  have hv := hex4_val n h
  simp only [jsonGo, h4, ne_eq, not_true_eq_false, if_false, hv, hs, if_true]

/-- a surrogate pair -/
theorem jsonGo_pair (a b : Nat) (ha : 55296 ≤ a ∧ a < 56320) (hb : 56320 ≤ b ∧ b ≤ 57343) (r : Str) :
    jsonGo .plain none (jsonU a ++ (jsonU b ++ r)) =
      (jsonGo .plain none r).map (Char.ofNat (65536 + (a - 55296) * 1024 + (b - 56320)) :: ·) := by
  rw [jsonGo_hex]
  have h4 := hexVal_hexDigit (a % 16) (by omega)
  have hv := hex4_val a (by omega)
  have hs : ¬ (a < 55296 ∨ 57343 < a) := by omega
  simp only [jsonGo, h4, ne_eq, not_true_eq_false, if_false, hv, hs, ha.2, if_true]
  rw [jsonGo_hex]
  have h4' := hexVal_hexDigit (b % 16) (by omega)
  have hv' := hex4_val b (by omega)
  simp only [jsonGo, h4', ne_eq, not_true_eq_false, if_false, hv', hb, and_self, if_true]

theorem char_toNat_valid (c : Char) : c.toNat < 55296 ∨ (57343 < c.toNat ∧ c.toNat < 1114112) := c.valid

theorem jsonGo_char (c : Char) (h32 : 32 ≤ c.toNat) (r rest : Str) (ih : jsonGo .plain none r = some rest) :
    jsonGo .plain none (dipElemChar c ++ r) = some (c :: rest) := by
  unfold dipElemChar
  by_cases e1 : c = '"'
  · subst e1; simp [jsonGo, hexVal, ih]
  by_cases e2 : c = '\\'
  · subst e2; simp [jsonGo, hexVal, ih]
  by_cases e3 : c = '\''
  · subst e3; simp [jsonGo, hexVal, ih]
  simp only [e1, e2, e3, if_false]
  by_cases a1 : c.toNat < 128
  · have : ¬ c.toNat < 32 := by omega
    simp [a1, jsonGo, e1, e2, this, ih]
  simp only [a1, if_false]
  have hval := char_toNat_valid c
  by_cases a2 : c.toNat < 65536
  · simp only [a2, if_true]
    rw [jsonGo_bmp c.toNat a2 (by omega), ih]
    simp [Char.ofNat_toNat]
  · simp only [a2, if_false, List.append_assoc]
    rw [jsonGo_pair _ _ (by omega) (by omega), ih]
    have : 65536 + (55296 + (c.toNat - 65536) / 1024 - 55296) * 1024 + (56320 + (c.toNat - 65536) % 1024 - 56320) = c.toNat := by
      omega
    rw [this, Char.ofNat_toNat]
    rfl

/-- every text without control characters, written element-wise by `_parse_dip_scalar(…, element=True)`, is decoded
    back by the JSON string reader -/
theorem jsonGo_elem : ∀ (v : Str), (∀ ch ∈ v, 32 ≤ ch.toNat) → jsonGo .plain none (v.flatMap dipElemChar) = some v
  | [], _ => by simp [jsonGo]
  | c :: v, h => by
    have ih := jsonGo_elem v (fun ch hch => h ch (by simp [hch]))
    rw [List.flatMap_cons]
    exact jsonGo_char c (h c (by simp)) _ _ ih

/-- the characters the exporter writes for one element character: no `"`, no `'`, no newline, no `$` -/
theorem dipElemChar_chars (c : Char) (h32 : 32 ≤ c.toNat) (hd : c ≠ '$') :
    ∀ ch ∈ dipElemChar c, ch ≠ '"' ∧ ch ≠ '\'' ∧ ch ≠ '\n' ∧ ch ≠ '$' := by
  have hU : ∀ n, ∀ ch ∈ jsonU n, ch ≠ '"' ∧ ch ≠ '\'' ∧ ch ≠ '\n' ∧ ch ≠ '$' := by
    intro n ch hch
    simp only [jsonU, List.mem_cons, List.mem_nil_iff, or_false] at hch
    rcases hch with e | e | e | e | e | e
    · subst e; decide
    · subst e; decide
    · subst e; exact hexDigit_chars _ (by omega)
    · subst e; exact hexDigit_chars _ (by omega)
    · subst e; exact hexDigit_chars _ (by omega)
    · subst e; exact hexDigit_chars _ (by omega)
  intro ch hch
  unfold dipElemChar at hch
  split at hch
  · revert ch; decide
  split at hch
  · revert ch; decide
  split at hch
  · revert ch; decide
  split at hch
  · simp only [List.mem_singleton] at hch
    subst hch
    refine ⟨by assumption, by assumption, ?_, hd⟩
    intro e; subst e; revert h32; decide
  split at hch
  · exact hU _ ch hch
  · rcases List.mem_append.mp hch with h | h
    · exact hU _ ch h
    · exact hU _ ch h

theorem elem_chars (v : Str) (h : ∀ ch ∈ v, 32 ≤ ch.toNat ∧ ch ≠ '$') :
    ∀ ch ∈ v.flatMap dipElemChar, ch ≠ '"' ∧ ch ≠ '\'' ∧ ch ≠ '\n' ∧ ch ≠ '$' := by
  intro ch hch
  obtain ⟨c, hc, hm⟩ := List.mem_flatMap.mp hch
  exact dipElemChar_chars c (h c hc).1 (h c hc).2 ch hm

theorem replaceChar_none (c : Char) (r : Str) : ∀ s : Str, (∀ ch ∈ s, ch ≠ c) → replaceChar c r s = s
  | [], _ => rfl
  | x :: s, h => by
    have hx : x ≠ c := h x (by simp)
    have := replaceChar_none c r s (fun ch hch => h ch (by simp [hch]))
    rw [replaceChar_cons, this]
    simp [hx]

/-- one element token is a string literal in the `doubled` sense (its body has no `"`) -/
theorem dipScalar_elem (v : Str) (h : ∀ ch ∈ v, 32 ≤ ch.toNat ∧ ch ≠ '$') :
    dipScalar true (.s v) = quoteStr .doubled (v.flatMap dipElemChar) := by
  have : escStr .doubled (v.flatMap dipElemChar) = v.flatMap dipElemChar := by
    simp only [escStr]
    exact replaceChar_none _ _ _ (fun ch hch => (elem_chars v h ch hch).1)
  simp [dipScalar, quoteStr, this]

theorem jsonTok_elem (v : Str) (h : ∀ ch ∈ v, 32 ≤ ch.toNat ∧ ch ≠ '$') :
    jsonTok (dipScalar true (.s v)) = some (.s v) := by
  rw [dipScalar_elem v h]
  simp [jsonTok, unquote_quote, jsonGo_elem v (fun ch hch => (h ch hch).1)]

/-! ## nested values -/

/-- an element of a string array the reader covers: a text without control characters and `$` -/
def ElemOK : Scalar → Prop
  | .s w => ∀ ch ∈ w, 32 ≤ ch.toNat ∧ ch ≠ '$'
  | _ => False

mutual
def StrArrOK : Val → Prop
  | .leaf s => ElemOK s
  | .arr vs => StrArrsOK vs
def StrArrsOK : List Val → Prop
  | [] => True
  | v :: vs => StrArrOK v ∧ StrArrsOK vs
end

mutual
/-- the token tree `_parse_dip_array` prints -/
def jtok : Val → TokTree
  | .leaf s => .leaf (dipScalar true s)
  | .arr vs => .arr (jtoks vs)
def jtoks : List Val → List TokTree
  | [] => []
  | v :: vs => jtok v :: jtoks vs
end

mutual
theorem dipArray_jtok : (v : Val) → dipArray v = printTokC '[' ']' (jtok v)
  | .leaf s => by simp only [dipArray, jtok, printTokC]
  | .arr vs => by
    simp only [dipArray, jtok, printTokC]
    rw [dipArrayList_jtoks vs]
theorem dipArrayList_jtoks : (vs : List Val) → dipArrayList vs = printToksC '[' ']' (jtoks vs)
  | [] => by simp [dipArrayList, jtoks, printToksC]
  | [v] => by
    simp only [dipArrayList, jtoks, printToksC]
    exact dipArray_jtok v
  | v :: w :: vs => by
    have h1 := dipArray_jtok v
    have h2 := dipArrayList_jtoks (w :: vs)
    simp only [dipArrayList, jtoks, printToksC, h1]
    simp only [jtoks] at h2
    rw [h2]
end

theorem elemOK_s (s : Scalar) (h : ElemOK s) : ∃ w, s = .s w ∧ ∀ ch ∈ w, 32 ≤ ch.toNat ∧ ch ≠ '$' := by
  cases s with
  | s w => exact ⟨w, rfl, h⟩
  | b _ => exact absurd h (by simp [ElemOK])
  | i _ => exact absurd h (by simp [ElemOK])
  | f _ => exact absurd h (by simp [ElemOK])

mutual
theorem jtok_safe : (v : Val) → StrArrOK v → SafeTree .doubled '[' ']' (jtok v)
  | .leaf s, h => by
    obtain ⟨w, rfl, hw⟩ := elemOK_s s (by simpa [StrArrOK] using h)
    simp only [jtok, SafeTree]
    rw [dipScalar_elem w hw]
    exact SafeTok.quoted _
  | .arr vs, h => by
    simp only [jtok, SafeTree]
    exact jtoks_safe vs (by simpa [StrArrOK] using h)
theorem jtoks_safe : (vs : List Val) → StrArrsOK vs → SafeTrees .doubled '[' ']' (jtoks vs)
  | [], _ => by simp [jtoks, SafeTrees]
  | v :: vs, h => by
    simp only [jtoks, SafeTrees]
    exact ⟨jtok_safe v h.1, jtoks_safe vs h.2⟩
end

mutual
theorem rectShape_jtok : (v : Val) → rectShape (jtok v) = rectShape v
  | .leaf _ => by simp [jtok, rectShape]
  | .arr vs => by
    simp only [jtok, rectShape, rectShapes_jtoks vs, jtoks_length vs]
theorem rectShapes_jtoks : (vs : List Val) → rectShapes (jtoks vs) = rectShapes vs
  | [] => by simp [jtoks, rectShapes_nil]
  | v :: vs => by
    simp only [jtoks, rectShapes_cons, rectShape_jtok v, rectShapes_jtoks vs]
theorem jtoks_length : (vs : List Val) → (jtoks vs).length = vs.length
  | [] => by simp [jtoks]
  | _ :: vs => by simp [jtoks, jtoks_length vs]
end

mutual
theorem interpJ_jtok : (v : Val) → StrArrOK v → interpJ (jtok v) = some v
  | .leaf s, h => by
    obtain ⟨w, rfl, hw⟩ := elemOK_s s (by simpa [StrArrOK] using h)
    simp [jtok, interpJ, jsonTok_elem w hw]
  | .arr vs, h => by
    simp [jtok, interpJ, interpJ_jtoks vs (by simpa [StrArrOK] using h)]
theorem interpJ_jtoks : (vs : List Val) → StrArrsOK vs → interpJList (jtoks vs) = some vs
  | [], _ => by simp [jtoks, interpJList]
  | v :: vs, h => by
    simp [jtoks, interpJList, interpJ_jtok v h.1, interpJ_jtoks vs h.2]
end

/-- the characters of an exported array of strings: no `'`, no `$`, no newline -/
def arrCh (ch : Char) : Prop := ch ≠ '\'' ∧ ch ≠ '$' ∧ ch ≠ '\n'

mutual
theorem dipArray_arrCh : (v : Val) → StrArrOK v → ∀ ch ∈ dipArray v, arrCh ch
  | .leaf s, h => by
    obtain ⟨w, rfl, hw⟩ := elemOK_s s (by simpa [StrArrOK] using h)
    intro ch hch
    simp only [dipArray, dipScalar, if_true, List.mem_cons, List.mem_append, List.mem_nil_iff, or_false] at hch
    rcases hch with (e | hch) | e
    · subst e; exact ⟨by decide, by decide, by decide⟩
    · have := elem_chars w hw ch hch
      exact ⟨this.2.1, this.2.2.2, this.2.2.1⟩
    · subst e; exact ⟨by decide, by decide, by decide⟩
  | .arr vs, h => by
    have := dipArrayList_arrCh vs (by simpa [StrArrOK] using h)
    intro ch hch
    simp only [dipArray, List.mem_append, List.mem_singleton] at hch
    rcases hch with (e | hch) | e
    · subst e; exact ⟨by decide, by decide, by decide⟩
    · exact this ch hch
    · subst e; exact ⟨by decide, by decide, by decide⟩
theorem dipArrayList_arrCh : (vs : List Val) → StrArrsOK vs → ∀ ch ∈ dipArrayList vs, arrCh ch
  | [], _ => by simp [dipArrayList]
  | [v], h => by
    simp only [dipArrayList]
    exact dipArray_arrCh v h.1
  | v :: w :: vs, h => by
    have h1 := dipArray_arrCh v h.1
    have h2 := dipArrayList_arrCh (w :: vs) h.2
    intro ch hch
    simp only [dipArrayList, List.mem_append, List.mem_singleton] at hch
    rcases hch with (hch | e) | hch
    · exact h1 ch hch
    · subst e; exact ⟨by decide, by decide, by decide⟩
    · exact h2 ch hch
end

/-- `_parse_dip_array` text of ANY nested value of strings without control characters and `$` (every rank and
    size, also ragged), read as JSON nested lists of strings, is the value -/
theorem dipArray_str_roundtrip (v : Val) (hv : StrArrOK v) :
    (parseInit .doubled '[' ']' (dipArray v)).bind interpJ = some v := by
  rw [dipArray_jtok v, parseInit_printTokC .doubled '[' ']' good_bracket _ (jtok_safe v hv), Option.bind_some,
    interpJ_jtok v hv]

/-! ## one line -/

/-- what the DIP round trip asks of an array-of-strings node: a DIP name, the string type, no unit, a rectangular
    array value without empty levels whose elements have no control character and no `$` -/
def ParamOKDipStrArr (p : Param) : Prop :=
  p.name ≠ [] ∧ p.name.all dipNameChar = true ∧ (p.kind, p.bits) ∈ Gen.dipTypes ∧ p.kind = Kind.str ∧ p.unit = none ∧
  (∃ vs, p.value = .arr vs) ∧ StrArrOK p.value ∧ ∃ sh, rectShape p.value = some sh ∧ 0 ∉ sh

theorem lineDip_form_strarr (p : Param) (t : Str) (ht : lookupType bDip p.kind p.bits = some t) (sh : List Nat)
    (hs : shapeOf p.value = some sh) (vs : List Val) (hv : p.value = .arr vs) (hk : p.kind = Kind.str)
    (hu : p.unit = none) :
    lineDip p = some (p.name ++ (' ' :: (t ++ (('[' :: (commaNats sh ++ [']'])) ++
      (' ' :: '=' :: ' ' :: ('\'' :: (dipArray p.value ++ ['\'']))))))) := by
  unfold lineDip
  rw [hv] at hs ⊢
  rw [hk] at ht
  simp [ht, hs, hk, hu]

theorem readDipLine_strarr (name t dtxt body : Str) (bits : Nat) (sh : List Nat)
    (hne : name ≠ []) (hname : name.all dipNameChar = true)
    (ht : ∀ ch ∈ t, ch ≠ '[' ∧ ch ≠ ' ') (hkind : dipKind t = some (Kind.str, bits))
    (hd0 : ∀ x r, dtxt = x :: r → x = '[')
    (hd : ∀ rest, dipDims (dtxt ++ (' ' :: rest)) = some (some sh, ' ' :: rest)) :
    readDipLine (name ++ (' ' :: (t ++ (dtxt ++ (' ' :: '=' :: ' ' :: ('\'' :: (body ++ ['\'']))))))) =
      dipStrArr name bits sh (body ++ ['\'']) := by
  have hsp1 : (name ++ (' ' :: (t ++ (dtxt ++ (' ' :: '=' :: ' ' :: ('\'' :: (body ++ ['\'']))))))).span dipNameChar =
      (name, ' ' :: (t ++ (dtxt ++ (' ' :: '=' :: ' ' :: ('\'' :: (body ++ ['\''])))))) := by
    apply span_stop
    · exact fun ch hch => List.all_eq_true.mp hname ch hch
    · intro x r e; simp at e; rw [← e.1]; decide
  have hsp2 : (t ++ (dtxt ++ (' ' :: '=' :: ' ' :: ('\'' :: (body ++ ['\'']))))).span (fun c => decide (c ≠ '[' ∧ c ≠ ' ')) =
      (t, dtxt ++ (' ' :: '=' :: ' ' :: ('\'' :: (body ++ ['\''])))) := by
    apply span_stop
    · intro ch hch; have := ht ch hch; simp [this.1, this.2]
    · intro x r e
      cases dtxt with
      | nil => simp at e; simp [← e.1]
      | cons y ys =>
        have := hd0 y ys rfl
        simp at e; simp [← e.1, this]
  unfold readDipLine
  rw [hsp1]
  simp only [hne, if_false, dropPrefix?, if_true, Option.bind_eq_bind, Option.bind_some]
  rw [hsp2]
  simp only [hkind, Option.bind_some, hd, dropPrefix?, if_true, dipStrLine]

theorem dipStrArr_export (name : Str) (bits : Nat) (v : Val) (sh : List Nat) (hv : StrArrOK v)
    (hr : rectShape v = some sh) :
    dipStrArr name bits sh (dipArray v ++ ['\'']) = some ⟨name, .str, bits, v, none, []⟩ := by
  have hall : (dipArray v).all (fun c => decide (c ≠ '$' ∧ c ≠ '\'')) = true := by
    rw [List.all_eq_true]
    intro ch hch
    have := dipArray_arrCh v hv ch hch
    simp [this.1, this.2.1]
  have hparse : parseInit .doubled '[' ']' (dipArray v) = some (jtok v) := by
    rw [dipArray_jtok v]
    exact parseInit_printTokC .doubled '[' ']' good_bracket _ (jtok_safe v hv)
  have hshape : rectShape (jtok v) = some sh := by rw [rectShape_jtok, hr]
  unfold dipStrArr
  simp only [dropLastChar_snoc, Option.bind_eq_bind, Option.bind_some, hall, if_true, hparse, hshape, ne_eq,
    not_true_eq_false, if_false, interpJ_jtok v hv]

theorem readDipLine_lineDip_strarr (p : Param) (h : ParamOKDipStrArr p) :
    (lineDip p).bind readDipLine = some { p with tags := [] } := by
  obtain ⟨hne, hname, hty, hk, hu, ⟨vs, hvs⟩, hv, sh, hr, h0⟩ := h
  obtain ⟨t, ht, hkind, htc⟩ := dipKind_lookup (p.kind, p.bits) hty
  have htc' : ∀ ch ∈ t, ch ≠ '[' ∧ ch ≠ ' ' := by
    intro ch hch
    have := List.all_eq_true.mp htc ch hch
    simp at this
    exact ⟨this.1, this.2.1⟩
  have hs := shapeOf_of_rect p.value sh hr h0
  have hshne : sh ≠ [] := by
    rw [hvs] at hr
    rcases rectShape_arr vs sh hr with ⟨_, rfl⟩ | ⟨s, rfl, _, _⟩ <;> simp
  rw [lineDip_form_strarr p t ht sh hs vs hvs hk hu, Option.bind_some]
  simp only [hk] at hkind
  rw [readDipLine_strarr p.name t ('[' :: (commaNats sh ++ [']'])) (dipArray p.value) p.bits sh hne hname htc' hkind
    (by intro x r e; simp at e; exact e.1.symm) (by intro rest; exact dipDims_commaNats sh hshne _),
    dipStrArr_export p.name p.bits p.value sh hv hr]
  cases p; simp_all

theorem lineDip_clean_strarr (p : Param) (h : ParamOKDipStrArr p) (l : Str) (hl : lineDip p = some l) :
    clean l = true ∧ l ≠ [] := by
  obtain ⟨hne, hname, hty, hk, hu, ⟨vs, hvs⟩, hv, sh, hr, h0⟩ := h
  obtain ⟨t, ht, hkind, htc⟩ := dipKind_lookup (p.kind, p.bits) hty
  have hs := shapeOf_of_rect p.value sh hr h0
  rw [lineDip_form_strarr p t ht sh hs vs hvs hk hu] at hl
  injection hl with hl
  subst hl
  refine ⟨?_, by
    intro e
    have := congrArg List.length e
    simp at this⟩
  rw [clean_iff]
  intro ch hch
  simp only [List.mem_append, List.mem_cons, List.mem_nil_iff, or_false] at hch
  have hnl : ∀ x : Char, x ≠ '\n' → ch = x → ch ≠ '\n' := fun x hx e => e ▸ hx
  rcases hch with hch | e | hch | (e | hch | e) | e | e | e | e | hch | e
  · intro e; subst e
    have := List.all_eq_true.mp hname _ hch
    revert this; decide
  · exact hnl _ (by decide) e
  · have := List.all_eq_true.mp htc ch hch
    simp at this
    exact this.2.2
  · exact hnl _ (by decide) e
  · intro e; subst e
    unfold commaNats at hch
    exact joinWith_no '\n' [','] (by decide) (sh.map showNat) (by
      intro l hl
      obtain ⟨d, _, rfl⟩ := List.mem_map.mp hl
      exact showNat_no d '\n' (by decide)) _ hch rfl
  · exact hnl _ (by decide) e
  · exact hnl _ (by decide) e
  · exact hnl _ (by decide) e
  · exact hnl _ (by decide) e
  · exact hnl _ (by decide) e
  · exact (dipArray_arrCh p.value hv ch hch).2.2
  · exact hnl _ (by decide) e

/-! ## whole texts -/

/-- what the DIP round trip asks of a parameter: a boolean / numeric node, a scalar string node, or an array of strings -/
def ParamOKDipAll (p : Param) : Prop := ParamOKDip p ∨ ParamOKDipStrArr p

theorem readDipLine_lineDip_all (p : Param) (h : ParamOKDipAll p) :
    (lineDip p).bind readDipLine = some { p with tags := [] } := by
  rcases h with h | h
  · exact readDipLine_lineDip p h
  · exact readDipLine_lineDip_strarr p h

theorem lineDip_clean_all (p : Param) (h : ParamOKDipAll p) (l : Str) (hl : lineDip p = some l) :
    clean l = true ∧ l ≠ [] := by
  rcases h with h | h
  · exact lineDip_clean p h l hl
  · exact lineDip_clean_strarr p h l hl

/-- **whole DIP texts** (boolean, numeric, scalar string and string array nodes): export, split into lines, read every
    line = the same parameters in order -/
theorem readDip_exportDip_all (data : List Param) (hok : ∀ p ∈ data, ParamOKDipAll p) :
    (exportDip data).bind readDip = some (expectedDip data) := by
  have hlines := mapM_lines lineDip readDipLine (fun p => some { p with tags := [] }) data
    (fun p hp => readDipLine_lineDip_all p (hok p hp))
  have hexp : some (expectedDip data) = data.mapM (fun p => some ({ p with tags := [] } : Param)) := by
    rw [mapM_some_map]; rfl
  rw [hexp, ← hlines]
  unfold exportDip
  cases hm : data.mapM lineDip with
  | none => simp
  | some ls =>
    simp only [Option.bind_eq_bind, Option.bind_some]
    cases ls with
    | nil => simp [joinWith, readDip]
    | cons l ls =>
      have hall : ∀ x ∈ l :: ls, clean x = true ∧ x ≠ [] := by
        intro x hx
        obtain ⟨p, hp, hl⟩ := mapM_some_mem lineDip data (l :: ls) hm x hx
        exact lineDip_clean_all p (hok p hp) x hl
      have hne : joinWith ['\n'] (l :: ls) ≠ [] :=
        joinWith_ne_nil _ _ ⟨l, by simp, (hall l (by simp)).2⟩
      have hl := lines_joinWith (l :: ls) (by simp)
        (fun x hx => (clean_iff x).mp (hall x hx).1)
      simp [readDip, hne, hl]

end SciVerif.C19
