import SciVerif.Lemmas.C16b

/-!
C16, the `!condition` of the shape `{?} <op> literal [unit]` over an ordered field: the model
functions `ltA`, `cmpWith`, `condNum` (Model/C16.lean) read with the exact arithmetic `fieldArith`.
-/
set_option linter.unusedSectionVars false
namespace SciVerif.C16

variable {K : Type} [Field K] [LinearOrder K] [IsStrictOrderedRing K]

/-- Python's `<` in the ordered field: the model's `ltA` -/
def ltK (a b : K) : Bool := ltA fieldArith a b

theorem ltK_iff (a b : K) : ltK a b = true ↔ a < b := by
  simp only [ltK, ltA, fieldArith, Bool.and_eq_true, Bool.not_eq_true', decide_eq_true_eq,
    decide_eq_false_iff_not, not_le]
  constructor
  · rintro ⟨_, h⟩; exact h
  · intro h; exact ⟨le_of_lt h, h⟩

/-- the tolerance of `np.isclose` around the right operand -/
def tolK (atol rtol y : K) : K := atol + rtol * |y|

theorem tolK_nonneg (atol rtol y : K) (ha : 0 ≤ atol) (hr : 0 ≤ rtol) : 0 ≤ tolK atol rtol y := by
  have := mul_nonneg hr (abs_nonneg y)
  unfold tolK; linarith

theorem iscloseK_iff_tol (atol rtol a b : K) :
    iscloseK atol rtol a b = true ↔ b - tolK atol rtol b ≤ a ∧ a ≤ b + tolK atol rtol b :=
  iscloseK_iff atol rtol a b

/-- the value of the condition in the ordered field: the model's `condNum` with the model's primitives -/
def condK (tbl : String → Option (LinUnitK K)) (atol rtol : K) (c : SimpleCond K) (x : K)
    (ux : Option String) : Option Bool :=
  condNum (fieldPrim tbl atol rtol) ltK c x ux

/-- the six comparisons in the ordered field -/
def cmpK (atol rtol : K) : CmpOp → K → K → Bool := cmpWith (iscloseK atol rtol) ltK

theorem condK_of_conv (tbl : String → Option (LinUnitK K)) (atol rtol : K) (c : SimpleCond K) (x y : K)
    (ux : Option String) (h : convK tbl c.unit ux c.lit = some y) :
    condK tbl atol rtol c x ux = some (cmpK atol rtol c.op x y) := by
  simp [condK, condNum, fieldPrim_conv, fieldPrim_isclose, h, cmpK]

theorem condK_of_conv_none (tbl : String → Option (LinUnitK K)) (atol rtol : K) (c : SimpleCond K) (x : K)
    (ux : Option String) (h : convK tbl c.unit ux c.lit = none) :
    condK tbl atol rtol c x ux = none := by
  simp [condK, condNum, fieldPrim_conv, h]

/-- closed forms of the six comparisons for non-negative tolerances -/
theorem cmpK_lt (atol rtol x y : K) : cmpK atol rtol .lt x y = true ↔ x < y := by
  simp [cmpK, cmpWith, ltK_iff]

theorem cmpK_gt (atol rtol x y : K) : cmpK atol rtol .gt x y = true ↔ y < x := by
  simp [cmpK, cmpWith, ltK_iff]

theorem cmpK_eq (atol rtol x y : K) :
    cmpK atol rtol .eq x y = true ↔ y - tolK atol rtol y ≤ x ∧ x ≤ y + tolK atol rtol y := by
  simp [cmpK, cmpWith, iscloseK_iff_tol]

theorem cmpK_ne (atol rtol x y : K) :
    cmpK atol rtol .ne x y = true ↔ x < y - tolK atol rtol y ∨ y + tolK atol rtol y < x := by
  have h := iscloseK_iff_tol atol rtol x y
  cases hc : iscloseK atol rtol x y with
  | true =>
    have := h.mp hc
    simp only [cmpK, cmpWith, hc, Bool.not_true, Bool.false_eq_true, false_iff, not_or, not_lt]
    exact this
  | false =>
    simp only [cmpK, cmpWith, hc, Bool.not_false, true_iff]
    by_contra hn
    simp only [not_or, not_lt] at hn
    have := h.mpr hn
    rw [hc] at this; cases this

theorem cmpK_le (atol rtol x y : K) (ha : 0 ≤ atol) (hr : 0 ≤ rtol) :
    cmpK atol rtol .le x y = true ↔ x ≤ y + tolK atol rtol y := by
  have ht := tolK_nonneg atol rtol y ha hr
  simp only [cmpK, cmpWith, Bool.or_eq_true, ltK_iff, iscloseK_iff_tol]
  constructor
  · rintro (h | ⟨_, h⟩)
    · linarith
    · exact h
  · intro h
    by_cases hxy : x < y
    · exact Or.inl hxy
    · exact Or.inr ⟨by linarith [not_lt.mp hxy], h⟩

theorem cmpK_ge (atol rtol x y : K) (ha : 0 ≤ atol) (hr : 0 ≤ rtol) :
    cmpK atol rtol .ge x y = true ↔ y - tolK atol rtol y ≤ x := by
  have ht := tolK_nonneg atol rtol y ha hr
  simp only [cmpK, cmpWith, Bool.or_eq_true, ltK_iff, iscloseK_iff_tol]
  constructor
  · rintro (h | ⟨h, _⟩)
    · linarith
    · exact h
  · intro h
    by_cases hxy : y < x
    · exact Or.inl hxy
    · exact Or.inr ⟨h, by linarith [not_lt.mp hxy]⟩

/-- the set of final values `x` a comparison with the prepared right operand `y` lets pass,
    written with plain order relations (for non-negative tolerances, see `cmpK_accepts`) -/
def condAccepts (atol rtol : K) : CmpOp → K → K → Prop
  | .eq, x, y => y - tolK atol rtol y ≤ x ∧ x ≤ y + tolK atol rtol y
  | .ne, x, y => x < y - tolK atol rtol y ∨ y + tolK atol rtol y < x
  | .lt, x, y => x < y
  | .gt, x, y => y < x
  | .le, x, y => x ≤ y + tolK atol rtol y
  | .ge, x, y => y - tolK atol rtol y ≤ x

theorem cmpK_accepts (atol rtol : K) (ha : 0 ≤ atol) (hr : 0 ≤ rtol) (op : CmpOp) (x y : K) :
    cmpK atol rtol op x y = true ↔ condAccepts atol rtol op x y := by
  cases op
  · exact cmpK_eq atol rtol x y
  · exact cmpK_ne atol rtol x y
  · exact cmpK_lt atol rtol x y
  · exact cmpK_gt atol rtol x y
  · exact cmpK_le atol rtol x y ha hr
  · exact cmpK_ge atol rtol x y ha hr

end SciVerif.C16
