import SciVerif.Lemmas.C19n
/-!
# C19 — Fortran declaration lines, the three forms
-/
namespace SciVerif.C19

theorem splitOn_joinWith (c : Char) : ∀ ls : List Str, ls ≠ [] → (∀ l ∈ ls, ∀ ch ∈ l, ch ≠ c) →
    splitOn c (joinWith [c] ls) = ls
  | [], h, _ => absurd rfl h
  | [a], _, h => by
    simp only [joinWith]
    exact splitOn_clean c a (h a (by simp))
  | a :: b :: r, _, h => by
    have ih := splitOn_joinWith c (b :: r) (by simp) (fun l hl => h l (by simp [hl]))
    simp only [joinWith, List.append_assoc, List.cons_append, List.nil_append] at ih ⊢
    rw [splitOn_append c a _ (h a (by simp)), ih]

theorem parseCommaNats_commaNats (sh : List Nat) (h : sh ≠ []) : parseCommaNats (commaNats sh) = some sh := by
  unfold parseCommaNats commaNats
  rw [splitOn_joinWith ',' (sh.map showNat) (by simpa using h) (by
    intro l hl
    obtain ⟨d, _, rfl⟩ := List.mem_map.mp hl
    exact showNat_no d ',' (by decide))]
  exact mapM_map_some showNat readNat readNat_showNat sh

theorem commaNats_no_paren (sh : List Nat) : ∀ ch ∈ commaNats sh, ch ≠ ')' := by
  have hc := clean_joinWith
  intro ch hch e
  subst e
  -- every character of the text is a digit or a comma
  have : ∀ (ls : List Str), (∀ l ∈ ls, ∀ x ∈ l, x ≠ ')') → ∀ x ∈ joinWith [','] ls, x ≠ ')' := by
    intro ls
    induction ls with
    | nil => intro _ x hx; simp [joinWith] at hx
    | cons a r ih =>
      intro h x hx
      cases r with
      | nil => exact h a (by simp) x (by simpa [joinWith] using hx)
      | cons b r =>
        simp only [joinWith, List.mem_append, List.mem_singleton] at hx
        rcases hx with (hx | hx) | hx
        · exact h a (by simp) x hx
        · subst hx; decide
        · exact ih (fun l hl => h l (by simp [hl])) x hx
  exact this (sh.map showNat) (by
    intro l hl
    obtain ⟨d, _, rfl⟩ := List.mem_map.mp hl
    exact showNat_no d ')' (by decide)) ')' hch rfl

/-- `  TYPE, ` -/
theorem readFortranLine_head (dtype rest : Str) (k : Kind) (bits : Nat) (hnc : ∀ ch ∈ dtype, ch ≠ ',')
    (hk : fortranKind dtype = some (k, bits)) :
    readFortranLine (' ' :: ' ' :: (dtype ++ (',' :: ' ' :: rest))) = readFortranRest dtype k bits rest := by
  have hsp : (dtype ++ (',' :: ' ' :: rest)).span (fun c => decide (c ≠ ',')) = (dtype, ',' :: ' ' :: rest) := by
    apply span_stop
    · intro ch hch; simpa using hnc ch hch
    · intro x r e; simp at e; simp [← e.1]
  simp only [readFortranLine, dropPrefix?, ↓reduceIte, Option.bind_eq_bind, Option.bind_some, hsp, hk]

/-- `NAME = ` up to the value -/
theorem name_span (name rest : Str) (hn : ∀ ch ∈ name, ch ≠ ' ') :
    (name ++ (' ' :: rest)).span (fun c => decide (c ≠ ' ')) = (name, ' ' :: rest) := by
  apply span_stop
  · intro ch hch; simpa using hn ch hch
  · intro x r e; simp at e; simp [← e.1]

/-- scalar parameters -/
theorem readFortranRest_scalar (p : Param) (s : Scalar) (hval : p.value = .leaf s) (dtype : Str) (bits : Nat)
    (hh : FHead p dtype bits) (hv : ValOK p.kind p.value) (name : Str) (hn : ∀ ch ∈ name, ch ≠ ' ') :
    readFortranRest dtype p.kind bits
      (cs!"parameter :: " ++ (name ++ (' ' :: '=' :: ' ' :: (printScalar styleFortran s ++ [';'])))) =
      some ⟨name, dtype, [], false, p.value⟩ := by
  have hsafe : SafeTree .doubled '[' ']' (tokTree styleFortran p.value) := safe_tokTree_fortran p.kind p.value hv
  rw [hval] at hsafe
  have hparse := parseInit_printTok .doubled '[' ']' good_bracket (tokTree styleFortran (.leaf s)) hsafe
  simp only [tokTree, printTok] at hparse
  have hfin := fortranFinish_ok p dtype bits hh hv name [] false (fun _ => Or.inr (by
    cases s with
    | s x => exact ⟨x, hval⟩
    | b x => rw [hval] at hv; simp [ValOK, ScalarOK] at hv; rename_i hk; rw [hk] at hv; cases hv
    | i x => rw [hval] at hv; simp [ValOK, ScalarOK] at hv; rename_i hk; rw [hk] at hv; rcases hv with h | h <;> cases h
    | f x => rw [hval] at hv; simp [ValOK, ScalarOK] at hv; rename_i hk; rw [hk] at hv; cases hv.1))
  rw [hval] at hfin
  simp only [tokTree] at hfin
  simp only [readFortranRest, dropPrefix_append, readFortranScalar, name_span name _ hn, Option.bind_eq_bind]
  rw [show (' ' :: '=' :: ' ' :: (printScalar styleFortran s ++ [';'])) =
      cs!" = " ++ (printScalar styleFortran s ++ [';']) from rfl, dropPrefix_append]
  simp only [Option.bind_some, dropLastChar_snoc, hparse, hval]
  exact hfin

/-! ## array constructors -/

theorem printScalar_ne_colons (k : Kind) (s : Scalar) (h : ScalarOK k s) : printScalar styleFortran s ≠ [':', ':'] := by
  cases s with
  | b v => cases v <;> decide
  | i v =>
    intro e
    have := showInt_floatChars v ':' (by simp only [printScalar] at e; rw [e]; simp)
    revert this; decide
  | f t =>
    intro e
    have := List.all_eq_true.mp h.2.2 ':' (by simp only [printScalar] at e; rw [e]; simp)
    revert this; decide
  | s v => simp [printScalar, quoteStr]

mutual
theorem flatten_toks_ne (k : Kind) : (v : Val) → ValOK k v → ∀ tok ∈ flatten (tokTree styleFortran v), tok ≠ [':', ':']
  | .leaf s, h, tok, ht => by
    simp only [tokTree, flatten, List.mem_singleton] at ht
    subst ht
    exact printScalar_ne_colons k s (by simpa [ValOK] using h)
  | .arr vs, h, tok, ht => by
    simp only [tokTree, flatten] at ht
    exact flattenList_toks_ne k vs (by simpa [ValOK] using h) tok ht
theorem flattenList_toks_ne (k : Kind) : (vs : List Val) → ValsOK k vs →
    ∀ tok ∈ flattenList (tokTrees styleFortran vs), tok ≠ [':', ':']
  | [], _, tok, ht => by simp [tokTrees, flattenList] at ht
  | v :: vs, h, tok, ht => by
    simp only [tokTrees, flattenList_cons, List.mem_append] at ht
    rcases ht with ht | ht
    · exact flatten_toks_ne k v h.1 tok ht
    · exact flattenList_toks_ne k vs h.2 tok ht
end

theorem stripTypeSpec_untyped (decl : Str) (toks : List Str) (h : ∀ tok ∈ toks, tok ≠ [':', ':']) :
    stripTypeSpec decl (toks.map Tree.leaf) = (toks.map Tree.leaf, false) := by
  cases toks with
  | nil => rfl
  | cons a r =>
    cases r with
    | nil => rfl
    | cons b r =>
      have hb : b ≠ [':', ':'] := h b (by simp)
      simp [stripTypeSpec, hb]

theorem stripTypeSpec_typed (decl : Str) (ts : List TokTree) :
    stripTypeSpec decl (Tree.leaf decl :: Tree.leaf [':', ':'] :: ts) = (ts, true) := by
  simp [stripTypeSpec]

/-- the inside of the constructor the exporter writes: `TYPE :: ` before the elements of a string array -/
def ctorInside (p : Param) (dtype : Str) : Str :=
  if p.value.isArr ∧ p.kind = Kind.str then dtype ++ (cs!" :: " ++ printVal styleFortran p.value)
  else printVal styleFortran p.value

/-- … and what the reader makes of it -/
theorem constructor_inside (p : Param) (dtype : Str) (bits : Nat) (hh : FHead p dtype bits)
    (hv : ValOK p.kind p.value) (sh : List Nat) (hr : rectShape p.value = some sh) (h0 : 0 ∉ sh) :
    ∃ items, InsideLands .doubled (ctorInside p dtype) items ∧
      stripTypeSpec dtype items = ((flatten (tokTree styleFortran p.value)).map Tree.leaf,
        decide (p.value.isArr ∧ p.kind = Kind.str)) := by
  have hsafe := safe_flatten .doubled '[' ']' _ (safe_tokTree_fortran p.kind p.value hv)
  have hflat := flat_val p.value sh hr h0
  unfold ctorInside
  by_cases hc : p.value.isArr ∧ p.kind = Kind.str
  · obtain ⟨hne, hpl⟩ := hh.typedPlain hc.2
    refine ⟨Tree.leaf dtype :: Tree.leaf [':', ':'] :: (flatten (tokTree styleFortran p.value)).map Tree.leaf, ?_, ?_⟩
    · rw [if_pos hc, hflat]
      exact inside_typed .doubled dtype hne hpl _ hsafe
    · rw [stripTypeSpec_typed]; simp [hc]
  · refine ⟨(flatten (tokTree styleFortran p.value)).map Tree.leaf, ?_, ?_⟩
    · rw [if_neg hc, hflat]
      exact inside_plain .doubled _ hsafe
    · rw [stripTypeSpec_untyped dtype _ (flatten_toks_ne p.kind p.value hv)]; simp [hc]

/-- one-dimensional arrays -/
theorem readFortranRest_vector (p : Param) (dtype : Str) (bits : Nat) (hh : FHead p dtype bits)
    (hv : ValOK p.kind p.value) (n : Nat) (hr : rectShape p.value = some [n]) (h0 : 0 ∉ [n])
    (hia : p.value.isArr = true) (name : Str) (hn : ∀ ch ∈ name, ch ≠ ' ') :
    readFortranRest dtype p.kind bits
      (cs!"dimension (" ++ (commaNats [n] ++ (cs!") :: " ++ (name ++ (cs!" = " ++
        (('[' :: (ctorInside p dtype ++ [']'])) ++ [';'])))))) =
      some ⟨name, dtype, [n], false, p.value⟩ := by
  obtain ⟨items, hin, hstrip⟩ := constructor_inside p dtype bits hh hv [n] hr h0
  have hparse := parseInit_bracket .doubled _ items hin
  obtain ⟨vs, hvs⟩ : ∃ vs, p.value = .arr vs := by
    cases hp : p.value with
    | leaf s => rw [hp] at hia; simp [Val.isArr] at hia
    | arr vs => exact ⟨vs, rfl⟩
  have hchild : ∀ t ∈ vs, rectShape t = some [] := by
    rw [hvs] at hr
    rcases rectShape_arr vs [n] hr with ⟨_, h2⟩ | ⟨s, h2, _, hall⟩
    · simp at h2; simp [h2] at h0
    · simp at h2; rw [h2.2] at hall; exact hall
  have htree : Tree.arr ((flatten (tokTree styleFortran p.value)).map Tree.leaf) = tokTree styleFortran p.value := by
    rw [hvs]
    simp only [tokTree, flatten]
    rw [tokTrees_flat styleFortran vs hchild]
  have hshape : rectShape (tokTree styleFortran p.value) = some [n] := by rw [rectShape_tokTree]; exact hr
  have hfin := fortranFinish_ok p dtype bits hh hv name [n] (decide (p.value.isArr ∧ p.kind = Kind.str))
    (fun hs => Or.inl (by simp [hia, hs]))
  have hspan : ∀ rest : Str, (commaNats [n] ++ (')' :: rest)).span (fun c => decide (c ≠ ')')) =
      (commaNats [n], ')' :: rest) := by
    intro rest
    apply span_stop
    · intro ch hch; simpa using commaNats_no_paren [n] ch hch
    · intro x r e; simp at e; simp [← e.1]
  have hnp : ∀ rest : Str, dropPrefix? (cs!"parameter :: ") (cs!"dimension (" ++ rest) = none := by
    intro rest; simp [dropPrefix?]
  rw [readFortranRest, hnp]
  simp only [dropPrefix_append, Option.bind_eq_bind, Option.bind_some]
  rw [show (cs!") :: " ++ (name ++ (cs!" = " ++ (('[' :: (ctorInside p dtype ++ [']'])) ++ [';'])))) =
      ')' :: (cs!" :: " ++ (name ++ (cs!" = " ++ (('[' :: (ctorInside p dtype ++ [']'])) ++ [';'])))) from rfl, hspan]
  simp only [parseCommaNats_commaNats [n] (by simp), Option.bind_some]
  rw [show (')' :: (cs!" :: " ++ (name ++ (cs!" = " ++ (('[' :: (ctorInside p dtype ++ [']'])) ++ [';']))))) =
      cs!") :: " ++ (name ++ (cs!" = " ++ (('[' :: (ctorInside p dtype ++ [']'])) ++ [';']))) from rfl, dropPrefix_append]
  simp only [readFortranVector]
  rw [show (name ++ (cs!" = " ++ (('[' :: (ctorInside p dtype ++ [']'])) ++ [';']))) =
      name ++ (' ' :: (cs!"= " ++ (('[' :: (ctorInside p dtype ++ [']'])) ++ [';']))) from rfl, name_span name _ hn]
  rw [show (' ' :: (cs!"= " ++ (('[' :: (ctorInside p dtype ++ [']'])) ++ [';']))) =
      cs!" = " ++ (('[' :: (ctorInside p dtype ++ [']'])) ++ [';']) from rfl]
  simp only [dropPrefix_append, Option.bind_eq_bind, Option.bind_some, dropLastChar_snoc, hparse, hstrip, htree, hshape]
  simpa using hfin

theorem orderList_ne_nil (k : Nat) (h : 0 < k) : orderList k ≠ [] := by
  cases k with
  | zero => omega
  | succ k => simp [orderList, List.range_succ]

/-- arrays of rank two and more -/
theorem readFortranRest_reshape (p : Param) (dtype : Str) (bits : Nat) (hh : FHead p dtype bits)
    (hv : ValOK p.kind p.value) (sh : List Nat) (hr : rectShape p.value = some sh) (h0 : 0 ∉ sh)
    (hrank : 1 < sh.length) (hia : p.value.isArr = true) (name : Str) (hn : ∀ ch ∈ name, ch ≠ ' ') :
    readFortranRest dtype p.kind bits
      (cs!"dimension (" ++ (commaNats sh ++ (cs!"), parameter :: " ++ (name ++ (cs!" = reshape(" ++
        (('[' :: (ctorInside p dtype ++ (cs!"],[" ++ (commaNats sh ++ (cs!"],order=[" ++
          (commaNats (orderList sh.length) ++ [']'])))))) ++ [')'])))))) =
      some ⟨name, dtype, sh, false, p.value⟩ := by
  obtain ⟨items, hin, hstrip⟩ := constructor_inside p dtype bits hh hv sh hr h0
  have hshne : sh ≠ [] := by intro e; rw [e] at hrank; simp at hrank
  have hparse := parseItems_reshape .doubled _ items hin sh (orderList sh.length) hshne
    (orderList_ne_nil _ (by omega))
  have hshape : rectShape (tokTree styleFortran p.value) = some sh := by rw [rectShape_tokTree]; exact hr
  have hresh := reshapeF_flatten (tokTree styleFortran p.value) sh hshape
  have hfin := fortranFinish_ok p dtype bits hh hv name sh (decide (p.value.isArr ∧ p.kind = Kind.str))
    (fun hs => Or.inl (by simp [hia, hs]))
  have hspan : ∀ rest : Str, (commaNats sh ++ (')' :: rest)).span (fun c => decide (c ≠ ')')) =
      (commaNats sh, ')' :: rest) := by
    intro rest
    apply span_stop
    · intro ch hch; simpa using commaNats_no_paren sh ch hch
    · intro x r e; simp at e; simp [← e.1]
  have hnp : ∀ rest : Str, dropPrefix? (cs!"parameter :: ") (cs!"dimension (" ++ rest) = none := by
    intro rest; simp [dropPrefix?]
  have hnv : ∀ rest : Str, dropPrefix? (cs!") :: ") (cs!"), parameter :: " ++ rest) = none := by
    intro rest; simp [dropPrefix?]
  rw [readFortranRest, hnp]
  simp only [dropPrefix_append, Option.bind_eq_bind, Option.bind_some]
  generalize hbody : ('[' :: (ctorInside p dtype ++ (cs!"],[" ++ (commaNats sh ++ (cs!"],order=[" ++
          (commaNats (orderList sh.length) ++ [']'])))))) = body at hparse ⊢
  rw [show (cs!"), parameter :: " ++ (name ++ (cs!" = reshape(" ++ (body ++ [')'])))) =
      ')' :: (cs!", parameter :: " ++ (name ++ (cs!" = reshape(" ++ (body ++ [')'])))) from rfl, hspan]
  simp only [parseCommaNats_commaNats sh hshne, Option.bind_some]
  rw [show (')' :: (cs!", parameter :: " ++ (name ++ (cs!" = reshape(" ++ (body ++ [')']))))) =
      cs!"), parameter :: " ++ (name ++ (cs!" = reshape(" ++ (body ++ [')']))) from rfl, hnv, dropPrefix_append]
  simp only [Option.bind_some, readFortranReshape]
  rw [show (name ++ (cs!" = reshape(" ++ (body ++ [')']))) =
      name ++ (' ' :: (cs!"= reshape(" ++ (body ++ [')']))) from rfl, name_span name _ hn]
  rw [show (' ' :: (cs!"= reshape(" ++ (body ++ [')']))) = cs!" = reshape(" ++ (body ++ [')']) from rfl]
  simp only [dropPrefix_append, Option.bind_eq_bind, Option.bind_some, dropLastChar_snoc, hparse, ↓reduceIte,
    natList_leaves, Option.map_some, hstrip, ne_eq, not_true_eq_false, mapM_leafTok, hresh]
  simpa using hfin

end SciVerif.C19
