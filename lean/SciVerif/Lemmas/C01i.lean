import SciVerif.Lemmas.C01h

/-!
# C01 helper lemmas, part 9 (character level): the tokeniser loop on the text of an item list.
-/
namespace SciVerif.C01
open SciVerif.C01.Gen

variable {A : Type} (alg : AtomAlg A) (lit : List Char → A)
variable (sa : Bufs A → List Char → Bufs A × Except String (Tok A))

/-! ### what the tokeniser needs of neighbouring items -/

def LItem.isLit : LItem → Bool
  | .lit _ => true
  | _ => false

def LItem.isOpr : LItem → Bool
  | .opr _ => true
  | _ => false

def LItem.firstLex : LItem → List Char
  | .lit t => t
  | .opr k => k.sym
  | .call1 f _ => f.sym
  | .call2 g _ _ => g.sym

/-- two literals are never adjacent (their texts would merge); what follows an operator symbol
    does not start with `*` or `=` (it would extend the symbol to an earlier-listed one) -/
def okNext (a b : LItem) : Prop :=
  (a.isLit = true → b.isLit = false) ∧ (a.isOpr = true → SafeHead b.firstLex)

def Adj : List LItem → Prop
  | [] => True
  | [_] => True
  | a :: b :: r => okNext a b ∧ Adj (b :: r)

/-- the nested solver evaluates every text of the argument -/
def ArgOK (a : E) : Prop :=
  LitOK alg lit a ∧
  ∀ (v : List Char) (j : Nat) (st : Bufs A), Pre (lexemes a) v →
    (sa st (strip (v ++ blanks j))).2 = .ok (.atom (eval alg lit a))

def ItemOK : LItem → Prop
  | .lit t => litSafe t = true ∧ alg.parse t = some (lit t)
  | .opr _ => True
  | .call1 _ a => ArgOK alg lit sa a
  | .call2 _ a b => ArgOK alg lit sa a ∧ ArgOK alg lit sa b

theorem itemLex_cons (it : LItem) : ∃ tl, itemLex it = it.firstLex :: tl := by
  cases it <;> simp [itemLex, LItem.firstLex]

theorem firstLex_ne_nil (it : LItem) (h : ItemOK alg lit sa it) : it.firstLex ≠ [] := by
  cases it with
  | lit t => exact (litSafe_good t h.1).1.1
  | opr k => exact (oprSym_props k).1.1
  | call1 f a => exact (f1Sym_props f).1.1
  | call2 g a b => exact (f2Sym_props g).1.1

theorem SafeHead.append {x : List Char} (h : SafeHead x) (hne : x ≠ []) (s : List Char) :
    SafeHead (x ++ s) := by
  cases x with
  | nil => exact absurd rfl hne
  | cons c cs => simpa [SafeHead] using h

theorem safeHead_blanks (j : Nat) (s : List Char) (hs : SafeHead s) : SafeHead (blanks j ++ s) := by
  cases j with
  | zero => simpa [blanks] using hs
  | succ j => rw [blanks_succ]; exact ⟨by simp, by simp⟩

theorem safeHead_nil : SafeHead [] := ⟨by simp, by simp⟩

/-- the text after an operator symbol does not extend the symbol -/
theorem safeHead_rest (a : LItem) (rest : List LItem) (u2 : List Char) (kk : Nat)
    (hopr : a.isOpr = true) (hadj : Adj (a :: rest)) (hok : ∀ it ∈ rest, ItemOK alg lit sa it)
    (hu : Pre (rest.flatMap itemLex) u2) : SafeHead (u2 ++ blanks kk) := by
  cases rest with
  | nil =>
    have hu0 : u2 = [] := Pre.nil_inv (by simpa using hu)
    subst hu0
    simpa using safeHead_blanks kk [] safeHead_nil
  | cons b r =>
    obtain ⟨tl, htl⟩ := itemLex_cons b
    simp only [List.flatMap_cons, htl, List.cons_append] at hu
    obtain ⟨j, s, rfl, _⟩ := Pre.cons_inv hu
    have hb := (hadj.1).2 hopr
    have hne := firstLex_ne_nil alg lit sa b (hok b (by simp))
    rw [List.append_assoc, List.append_assoc]
    exact safeHead_blanks j _ (hb.append hne _)

/-- the first lexeme of an expression is not empty and starts neither with `*` nor with `=` -/
theorem lexemes_head (e : E) (h : LitOK alg lit e) :
    ∃ x xs, lexemes e = x :: xs ∧ x ≠ [] ∧ SafeHead x := by
  induction e with
  | num t =>
    have := litSafe_good t h.1
    exact ⟨t, [], rfl, this.1.1, this.2.2.2⟩
  | fn1 f a _ =>
    exact ⟨f.sym, lexemes a ++ [[')']], by simp [lexemes], (f1Sym_props f).1.1, (f1Sym_props f).2.1⟩
  | fn2 g a b _ _ =>
    exact ⟨g.sym, lexemes a ++ [[',']] ++ lexemes b ++ [[')']], by simp [lexemes],
      (f2Sym_props g).1.1, (f2Sym_props g).2.1⟩
  | sign s e _ =>
    cases s
    · exact ⟨['+'], lexemes e, by simp [lexemes], by simp, ⟨by decide, by decide⟩⟩
    · exact ⟨['-'], lexemes e, by simp [lexemes], by simp, ⟨by decide, by decide⟩⟩
  | bin o l r ihl _ =>
    obtain ⟨x, xs, e1, h1, h2⟩ := ihl h.1
    exact ⟨x, xs ++ [o.sym] ++ lexemes r, by simp [lexemes, e1], h1, h2⟩
  | not e _ => exact ⟨['!'], lexemes e, by simp [lexemes], by simp, ⟨by decide, by decide⟩⟩

theorem safeHead_text (e : E) (h : LitOK alg lit e) (u s : List Char) (hu : Pre (lexemes e) u) :
    SafeHead (u ++ s) := by
  obtain ⟨x, xs, e1, h1, h2⟩ := lexemes_head alg lit e h
  rw [e1] at hu
  obtain ⟨j, s', rfl, _⟩ := Pre.cons_inv hu
  rw [List.append_assoc, List.append_assoc]
  exact safeHead_blanks j _ (h2.append h1 _)

/-! ### pending text on the left of the `Expression` -/

/-- blanks, or one literal between blanks, not yet turned into an atom -/
def Pending (lw p : List Char) : Prop :=
  (∃ k k', lw = blanks k ++ p ++ blanks k') ∧
  (p = [] ∨ (litSafe p = true ∧ alg.parse p = some (lit p)))

def pendTok (p : List Char) : List (Tok A) :=
  match p with
  | [] => []
  | _ => [.atom (lit p)]

theorem blanks_append (a b : Nat) : blanks a ++ blanks b = blanks (a + b) := by
  simp [blanks]

theorem strip_good (k k' : Nat) (c : List Char) (h : GoodLex c) : strip (blanks k ++ c ++ blanks k') = c := by
  obtain ⟨hne, hall⟩ := h
  cases c with
  | nil => exact absurd rfl hne
  | cons x cs =>
    exact strip_pad k k' x ((x :: cs).getLast hne) (x :: cs) rfl (hall x (by simp))
      (List.getLast?_eq_some_getLast hne) (hall _ (List.getLast_mem hne))

theorem Pending.blanks {lw p : List Char} (h : Pending alg lit lw p) (j : Nat) :
    Pending alg lit (lw ++ blanks j) p := by
  obtain ⟨⟨k, k', rfl⟩, hp⟩ := h
  exact ⟨⟨k, k' + j, by simp [List.append_assoc, blanks_append]⟩, hp⟩

theorem pending_nil : Pending alg lit [] [] := ⟨⟨0, 0, rfl⟩, Or.inl rfl⟩

theorem pushAtom_pending {lw p : List Char} (h : Pending alg lit lw p) (b : Bufs A) :
    pushAtom alg (strip lw) b = .ok ⟨b.left, b.right ++ pendTok lit p⟩ := by
  obtain ⟨⟨k, k', rfl⟩, hp⟩ := h
  rcases hp with rfl | ⟨hs, hparse⟩
  · simp [blanks_append, strip_blanks, pushAtom, pendTok]
  · have hg := (litSafe_good p hs).1
    rw [strip_good k k' p hg]
    cases p with
    | nil => exact absurd rfl hg.1
    | cons c cs => simp [pushAtom, hparse, pendTok, append]

/-! ### the tokeniser loop on the text of an item list -/

theorem solveArgs_one (x : List Char) (v : A) (st0 : Bufs A)
    (h : ∀ st, (sa st x).2 = .ok (.atom v)) : solveArgs sa st0 [x] = .ok [some v] := by
  have h0 := h st0
  cases hh : sa st0 x with
  | mk st' r =>
    rw [hh] at h0
    simp only at h0
    subst h0
    simp [solveArgs, hh, tokAtom]

theorem solveArgs_two (x y : List Char) (v w : A) (st0 : Bufs A)
    (hx : ∀ st, (sa st x).2 = .ok (.atom v)) (hy : ∀ st, (sa st y).2 = .ok (.atom w)) :
    solveArgs sa st0 [x, y] = .ok [some v, some w] := by
  have h0 := hx st0
  cases hh : sa st0 x with
  | mk st' r =>
    rw [hh] at h0
    simp only at h0
    subst h0
    have := solveArgs_one sa y w st' hy
    rw [solveArgs, hh]
    simp only [this, tokAtom]

/-- scanning one argument text up to the closing parenthesis -/
theorem scan_last (narg : Nat) (w r' l0 : List Char) (args : List (List Char)) (hw : nest w 0 = some 0) :
    parScan (stdPar narg) ((w ++ ')' :: r').length + 1) 1 ⟨l0, w ++ ')' :: r'⟩ args
      = some (⟨[], r'⟩, args ++ [strip (l0 ++ w)]) := by
  have e : (w ++ ')' :: r').length + 1 = (r'.length + 1 + 1) + w.length := by simp; omega
  have := parScan_nest narg w 0 0 (r'.length + 1 + 1) 1 l0 (')' :: r') args hw (by omega)
  rw [e, this, parScan_close_one]

/-- scanning one argument text up to a separator at depth 1 -/
theorem scan_sep (narg m : Nat) (w r' l0 : List Char) (args : List (List Char)) (hw : nest w 0 = some 0) :
    parScan (stdPar narg) (m + 1 + w.length) 1 ⟨l0, w ++ ',' :: r'⟩ args
      = parScan (stdPar narg) m 1 ⟨[], r'⟩ (args ++ [strip (l0 ++ w)]) := by
  have := parScan_nest narg w 0 0 (m + 1) 1 l0 (',' :: r') args hw (by omega)
  rw [this, parScan_sep_one]

theorem tok_items (its : List LItem) :
    Adj its → (∀ it ∈ its, ItemOK alg lit sa it) →
    ∀ (lw p u : List Char) (b : Bufs A) (k n : Nat),
      Pending alg lit lw p → (p ≠ [] → ∀ it, its.head? = some it → it.isLit = false) →
      Pre (its.flatMap itemLex) u → u.length + k + 1 ≤ n →
      tokLoop dflt alg sa n ⟨lw, u ++ blanks k⟩ b
        = .ok ⟨b.left, b.right ++ pendTok lit p ++ its.map (tokOf alg lit)⟩ := by
  induction its with
  | nil =>
    intro _ _ lw p u b k n hpend _ hu hn
    have hu0 : u = [] := Pre.nil_inv (by simpa using hu)
    subst hu0
    obtain ⟨m, rfl⟩ : ∃ m, n = (m + 1) + k := ⟨n - k - 1, by simp at hn; omega⟩
    have := tokLoop_blanks alg sa k (m + 1) lw [] b
    simp only [List.append_nil, List.nil_append] at this ⊢
    rw [this, tokLoop_end, pushAtom_pending alg lit (hpend.blanks alg lit k)]
    simp
  | cons it rest ih =>
    intro hadj hok lw p u b k n hpend hhead hu hn
    have hadj' : Adj rest := by
      cases rest with
      | nil => trivial
      | cons b r => exact hadj.2
    have hok' : ∀ x ∈ rest, ItemOK alg lit sa x := fun x hx => hok x (by simp [hx])
    simp only [List.flatMap_cons] at hu
    obtain ⟨u1, u2, rfl, hu1, hu2⟩ := Pre.append_inv hu
    cases it with
    | lit t =>
      obtain ⟨j, rfl⟩ := Pre.single_inv (by simpa [itemLex] using hu1)
      have hp : p = [] := by
        by_cases hp : p = []
        · exact hp
        · have := hhead hp (.lit t) rfl
          simp [LItem.isLit] at this
      subst hp
      have hit := hok (.lit t) (by simp)
      have hgood := litSafe_good t hit.1
      simp only [List.length_append, blanks_length] at hn
      obtain ⟨m, rfl⟩ : ∃ m, n = (m + t.length) + j := ⟨n - j - t.length, by omega⟩
      rw [show blanks j ++ t ++ u2 ++ blanks k = blanks j ++ (t ++ (u2 ++ blanks k)) by simp,
        tokLoop_blanks, tokLoop_lit alg sa t hgood.2.2.1]
      have hpend' : Pending alg lit (lw ++ blanks j ++ t) t := by
        obtain ⟨⟨a, a', e⟩, _⟩ := hpend
        refine ⟨⟨a + a' + j, 0, ?_⟩, Or.inr hit⟩
        rw [e]; simp [blanks]
      have hne : t ≠ [] := hgood.1.1
      rw [ih hadj' hok' _ t u2 b k m hpend' (fun _ x hx => by
          cases rest with
          | nil => simp at hx
          | cons y r =>
            simp only [List.head?_cons, Option.some.injEq] at hx
            subst hx
            exact hadj.1.1 rfl) hu2 (by omega)]
      cases t with
      | nil => exact absurd rfl hne
      | cons c cs => simp [pendTok, tokOf]
    | opr kk =>
      obtain ⟨j, rfl⟩ := Pre.single_inv (by simpa [itemLex] using hu1)
      have hsym := oprSym_props kk
      simp only [List.length_append, blanks_length] at hn
      have hlen : 0 < kk.sym.length := List.length_pos_iff.mpr hsym.1.1
      obtain ⟨m, rfl⟩ : ∃ m, n = (m + 1) + j := ⟨n - j - 1, by omega⟩
      have hsafe := safeHead_rest alg lit sa (.opr kk) rest u2 k rfl hadj hok' hu2
      rw [show blanks j ++ kk.sym ++ u2 ++ blanks k = blanks j ++ (kk.sym ++ (u2 ++ blanks k)) by simp,
        tokLoop_blanks,
        tokLoop_op alg sa (sym_facts kk) hsym.1.1 m _ _ b _ hsafe
          (pushAtom_pending alg lit (hpend.blanks alg lit j) b),
        ih hadj' hok' [] [] u2 _ k m (pending_nil alg lit) (fun h => absurd rfl h) hu2 (by omega)]
      simp [append, pendTok, tokOf, List.append_assoc]
    | call1 f a =>
      simp only [itemLex] at hu1
      obtain ⟨u12, u3, rfl, h12, h3⟩ := Pre.append_inv hu1
      obtain ⟨u1', ua, rfl, h1, ha⟩ := Pre.append_inv h12
      obtain ⟨j, rfl⟩ := Pre.single_inv h1
      obtain ⟨jc, rfl⟩ := Pre.single_inv h3
      have hsym := f1Sym_props f
      have harg : ArgOK alg lit sa a := hok (.call1 f a) (by simp)
      simp only [List.length_append, blanks_length, List.length_cons, List.length_nil] at hn
      have hlen : 0 < f.sym.length := List.length_pos_iff.mpr hsym.1.1
      obtain ⟨m, rfl⟩ : ∃ m, n = (m + 1) + j := ⟨n - j - 1, by omega⟩
      have hw : nest (ua ++ blanks jc) 0 = some 0 := by
        rw [nest_append, nest_text alg lit a harg.1 ua ha 0]; exact nest_blanks jc 0
      have hscan := scan_last 1 (ua ++ blanks jc) (u2 ++ blanks k) [] [] hw
      have hsafe : SafeHead ((ua ++ blanks jc) ++ ')' :: (u2 ++ blanks k)) := by
        rw [List.append_assoc]; exact safeHead_text alg lit a harg.1 ua _ ha
      rw [show blanks j ++ f.sym ++ ua ++ (blanks jc ++ [')']) ++ u2 ++ blanks k
            = blanks j ++ (f.sym ++ ((ua ++ blanks jc) ++ ')' :: (u2 ++ blanks k))) by simp,
        tokLoop_blanks,
        tokLoop_call alg sa (fact_fn1 f) hsym.1.1 m _ _ (u2 ++ blanks k) b _ _ [some (eval alg lit a)]
          hsafe (pushAtom_pending alg lit (hpend.blanks alg lit j) b) (by simpa using hscan) rfl
          (solveArgs_one sa _ _ _ (fun st => by simpa using harg.2 ua jc st ha)),
        ih hadj' hok' [] [] u2 _ k m (pending_nil alg lit) (fun h => absurd rfl h) hu2 (by omega)]
      simp [append, pendTok, tokOf, List.append_assoc]
    | call2 g a c =>
      simp only [itemLex] at hu1
      obtain ⟨u1234, u5, rfl, h1234, h5⟩ := Pre.append_inv hu1
      obtain ⟨u123, uc, rfl, h123, hc⟩ := Pre.append_inv h1234
      obtain ⟨u12, u3, rfl, h12, h3⟩ := Pre.append_inv h123
      obtain ⟨u1', ua, rfl, h1, ha⟩ := Pre.append_inv h12
      obtain ⟨j, rfl⟩ := Pre.single_inv h1
      obtain ⟨js, rfl⟩ := Pre.single_inv h3
      obtain ⟨jc, rfl⟩ := Pre.single_inv h5
      have hsym := f2Sym_props g
      have harg : ArgOK alg lit sa a ∧ ArgOK alg lit sa c := hok (.call2 g a c) (by simp)
      simp only [List.length_append, blanks_length, List.length_cons, List.length_nil] at hn
      have hlen : 0 < g.sym.length := List.length_pos_iff.mpr hsym.1.1
      obtain ⟨m, rfl⟩ : ∃ m, n = (m + 1) + j := ⟨n - j - 1, by omega⟩
      have hwa : nest (ua ++ blanks js) 0 = some 0 := by
        rw [nest_append, nest_text alg lit a harg.1.1 ua ha 0]; exact nest_blanks js 0
      have hwc : nest (uc ++ blanks jc) 0 = some 0 := by
        rw [nest_append, nest_text alg lit c harg.2.1 uc hc 0]; exact nest_blanks jc 0
      have hscan : parScan (stdPar 2)
          (((ua ++ blanks js) ++ ',' :: ((uc ++ blanks jc) ++ ')' :: (u2 ++ blanks k))).length + 1) 1
          ⟨[], (ua ++ blanks js) ++ ',' :: ((uc ++ blanks jc) ++ ')' :: (u2 ++ blanks k))⟩ []
          = some (⟨[], u2 ++ blanks k⟩, [strip (ua ++ blanks js), strip (uc ++ blanks jc)]) := by
        have e : ((ua ++ blanks js) ++ ',' :: ((uc ++ blanks jc) ++ ')' :: (u2 ++ blanks k))).length + 1
            = (((uc ++ blanks jc) ++ ')' :: (u2 ++ blanks k)).length + 1) + 1 + (ua ++ blanks js).length := by
          simp; omega
        rw [e, scan_sep 2 _ (ua ++ blanks js) _ [] [] hwa,
          scan_last 2 (uc ++ blanks jc) (u2 ++ blanks k) [] _ hwc]
        simp
      have hsafe : SafeHead ((ua ++ blanks js) ++ ',' :: ((uc ++ blanks jc) ++ ')' :: (u2 ++ blanks k))) := by
        rw [List.append_assoc]; exact safeHead_text alg lit a harg.1.1 ua _ ha
      rw [show blanks j ++ g.sym ++ ua ++ (blanks js ++ [',']) ++ uc ++ (blanks jc ++ [')']) ++ u2 ++ blanks k
            = blanks j ++ (g.sym ++ ((ua ++ blanks js) ++ ',' :: ((uc ++ blanks jc) ++ ')' :: (u2 ++ blanks k))))
            by simp,
        tokLoop_blanks,
        tokLoop_call alg sa (fact_fn2 g) hsym.1.1 m _ _ (u2 ++ blanks k) b _ _
          [some (eval alg lit a), some (eval alg lit c)]
          hsafe (pushAtom_pending alg lit (hpend.blanks alg lit j) b) hscan rfl
          (solveArgs_two sa _ _ _ _ _ (fun st => harg.1.2 ua js st ha) (fun st => harg.2.2 uc jc st hc)),
        ih hadj' hok' [] [] u2 _ k m (pending_nil alg lit) (fun h => absurd rfl h) hu2 (by omega)]
      simp [append, pendTok, tokOf, List.append_assoc]

end SciVerif.C01
