import SciVerif.Lemmas.C19q
import SciVerif.Model.C19Dip
/-!
# C19 — DIP text: the line reader inverts `ExportConfig.parse` for the boolean and numeric kinds
-/
namespace SciVerif.C19

/-! ## the bracket machine on lists joined by a bare comma (`",".join`) -/

mutual
def printTokC (o c : Char) : TokTree → Str
  | .leaf t => t
  | .arr ts => [o] ++ printToksC o c ts ++ [c]
def printToksC (o c : Char) : List TokTree → Str
  | [] => []
  | [t] => printTokC o c t
  | t :: u :: r => printTokC o c t ++ [','] ++ printToksC o c (u :: r)
end

mutual
theorem lands_treeC (q : Quoting) (o c : Char) (g : Good o c) : (t : TokTree) → SafeTree q o c t →
    ∀ (f : List TokTree) (rest : List (List TokTree)),
    Lands (mrun q o c ⟨f :: rest, [], .bare, false⟩ (printTokC o c t)) ⟨(t :: f) :: rest, [], .bare, false⟩
  | .leaf t, h, f, rest => by
    simp only [printTokC]
    exact lands_tok q o c t (by simpa [SafeTree] using h) f rest
  | .arr ts, h, f, rest => by
    simp only [printTokC, List.cons_append, List.nil_append]
    rw [mrun_cons, step_open q o c g, mrun_append, mrun_cons, mrun_nil]
    have h2 := lands_treesC q o c g ts (by simpa [SafeTree] using h) [] (f :: rest)
    rw [step_close q o c g _ (ts.reverse ++ []) f rest h2]
    simpa using lands_clean ((Tree.arr ts :: f) :: rest)
theorem lands_treesC (q : Quoting) (o c : Char) (g : Good o c) : (ts : List TokTree) → SafeTrees q o c ts →
    ∀ (f : List TokTree) (rest : List (List TokTree)),
    Lands (mrun q o c ⟨f :: rest, [], .bare, false⟩ (printToksC o c ts)) ⟨(ts.reverse ++ f) :: rest, [], .bare, false⟩
  | [], _, f, rest => by simpa [printToksC, mrun_nil] using lands_clean (f :: rest)
  | [t], h, f, rest => by
    simp only [printToksC]
    simpa using lands_treeC q o c g t (by simpa [SafeTrees] using h.1) f rest
  | t :: u :: r, h, f, rest => by
    simp only [printToksC]
    have h1 := lands_treeC q o c g t h.1 f rest
    rw [mrun_append, mrun_append, mrun_cons, step_sep q o c g _ _ h1 ',' (Or.inl rfl), mrun_nil]
    have h2 := lands_treesC q o c g (u :: r) h.2 (t :: f) rest
    simpa using h2
end

/-- the machine inverts the comma-only printer as well -/
theorem parseInit_printTokC (q : Quoting) (o c : Char) (g : Good o c) (t : TokTree) (h : SafeTree q o c t) :
    parseInit q o c (printTokC o c t) = some t := by
  obtain ⟨hb, hm, hf⟩ := lands_treeC q o c g t h [] []
  simp [parseInit, parseItems, MSt.init, hf]

/-! ## `_parse_dip_array` for the non-string kinds is that printer -/

theorem dipScalar_eq (k : Kind) (hk : k ≠ Kind.str) (e : Bool) (s : Scalar) (h : ScalarOK k s) :
    dipScalar e s = printScalar styleRust s := by
  cases s with
  | b v => cases v <;> simp [dipScalar, printScalar, styleRust]
  | i v => simp [dipScalar, printScalar]
  | f t => simp [dipScalar, printScalar]
  | s v => exact absurd h hk

mutual
theorem dipArray_eq (k : Kind) (hk : k ≠ Kind.str) : (v : Val) → ValOK k v →
    dipArray v = printTokC '[' ']' (tokTree styleRust v)
  | .leaf s, h => by
    simp only [dipArray, tokTree, printTokC]
    exact dipScalar_eq k hk true s (by simpa [ValOK] using h)
  | .arr vs, h => by
    simp only [dipArray, tokTree, printTokC]
    rw [dipArrayList_eq k hk vs (by simpa [ValOK] using h)]
theorem dipArrayList_eq (k : Kind) (hk : k ≠ Kind.str) : (vs : List Val) → ValsOK k vs →
    dipArrayList vs = printToksC '[' ']' (tokTrees styleRust vs)
  | [], _ => by simp [dipArrayList, tokTrees, printToksC]
  | [v], h => by
    simp only [dipArrayList, tokTrees, printToksC]
    exact dipArray_eq k hk v h.1
  | v :: w :: vs, h => by
    have h1 := dipArray_eq k hk v h.1
    have h2 := dipArrayList_eq k hk (w :: vs) h.2
    simp only [dipArrayList, tokTrees, printToksC, h1]
    simp only [tokTrees] at h2
    rw [h2]
end

/-- `_parse_dip_array` text of any nested boolean / numeric value, read as JSON nested lists and interpreted
    at its kind, is the value -/
theorem dipArray_roundtrip (k : Kind) (hk : k ≠ Kind.str) (v : Val) (hv : ValOK k v) :
    (parseInit .backslash '[' ']' (dipArray v)).bind (interp .backslash k (cs!"true") (cs!"false")) = some v := by
  have hparse := parseInit_printTokC styleRust.q '[' ']' good_bracket _ (safe_tree styleRust '[' ']' styleRust_ok k v hv)
  have hint := interp_tokTree styleRust (by decide) k v hv
  rw [dipArray_eq k hk v hv]
  simp only [styleRust] at hparse hint ⊢
  rw [hparse, Option.bind_some, hint]

/-! ## characters of the value token: no blank, no `#`, no newline -/

def tokCh (ch : Char) : Prop := ch ≠ ' ' ∧ ch ≠ '#' ∧ ch ≠ '\n'

theorem tokCh_of_floatChar (ch : Char) (h : floatChar ch = true) : tokCh ch := by
  refine ⟨?_, ?_, ?_⟩ <;> (intro e; subst e; revert h; decide)

theorem scalar_tokCh (k : Kind) (hk : k ≠ Kind.str) (s : Scalar) (h : ScalarOK k s) :
    ∀ ch ∈ printScalar styleRust s, tokCh ch := by
  cases s with
  | b v => cases v <;> simp [printScalar, styleRust, tokCh]
  | i v => exact fun ch hch => tokCh_of_floatChar ch (showInt_floatChars v ch hch)
  | f t => exact fun ch hch => tokCh_of_floatChar ch (List.all_eq_true.mp h.2.2 ch hch)
  | s v => exact absurd h hk

mutual
theorem dipArray_tokCh (k : Kind) (hk : k ≠ Kind.str) : (v : Val) → ValOK k v → ∀ ch ∈ dipArray v, tokCh ch
  | .leaf s, h => by
    simp only [dipArray]
    rw [dipScalar_eq k hk true s (by simpa [ValOK] using h)]
    exact scalar_tokCh k hk s (by simpa [ValOK] using h)
  | .arr vs, h => by
    have := dipArrayList_tokCh k hk vs (by simpa [ValOK] using h)
    intro ch hch
    simp only [dipArray, List.mem_append, List.mem_singleton] at hch
    rcases hch with (e | hch) | e
    · subst e; exact ⟨by decide, by decide, by decide⟩
    · exact this ch hch
    · subst e; exact ⟨by decide, by decide, by decide⟩
theorem dipArrayList_tokCh (k : Kind) (hk : k ≠ Kind.str) : (vs : List Val) → ValsOK k vs →
    ∀ ch ∈ dipArrayList vs, tokCh ch
  | [], _ => by simp [dipArrayList]
  | [v], h => by
    simp only [dipArrayList]
    exact dipArray_tokCh k hk v h.1
  | v :: w :: vs, h => by
    have h1 := dipArray_tokCh k hk v h.1
    have h2 := dipArrayList_tokCh k hk (w :: vs) h.2
    intro ch hch
    simp only [dipArrayList, List.mem_append, List.mem_singleton] at hch
    rcases hch with (hch | e) | hch
    · exact h1 ch hch
    · subst e; exact ⟨by decide, by decide, by decide⟩
    · exact h2 ch hch
end

theorem dipArray_ne_nil : (v : Val) → (k : Kind) → ValOK k v → k ≠ Kind.str → dipArray v ≠ []
  | .leaf s, k, h, hk => by
    simp only [dipArray]
    rw [dipScalar_eq k hk true s (by simpa [ValOK] using h)]
    cases s with
    | b v => cases v <;> simp [printScalar, styleRust]
    | i v => exact showInt_ne_nil v
    | f t => exact (by simpa [ValOK] using h : ScalarOK k (.f t)).2.1
    | s v => exact absurd (by simpa [ValOK] using h : ScalarOK k (.s v)) hk
  | .arr vs, _, _, _ => by simp [dipArray]

/-! ## the type keyword -/

/-- over the regenerated tables: every type the DIP parser accepts is exported under a keyword that reads back
    as that type, and the keyword contains neither `[` nor a blank -/
theorem dipKind_lookup : ∀ d ∈ Gen.dipTypes,
    (∃ t, lookupType bDip d.1 d.2 = some t ∧ dipKind t = some d ∧
      t.all (fun c => c ≠ '[' ∧ c ≠ ' ' ∧ c ≠ '\n') = true) := by
  decide +kernel

/-! ## one line -/

/-- the unit (if any) is one the parser reads as a unit -/
def UnitOK : Option Str → Prop
  | none => True
  | some u => u.all dipUnitChar = true ∧ ∃ x r, u = x :: r ∧ x ≠ '/' ∧ x ≠ '*' ∧ x ≠ '+' ∧ x ≠ '-'

def unitTail : Option Str → Str
  | some x => ' ' :: x
  | none => []

theorem dipUnit_tail (u : Option Str) (h : UnitOK u) : dipUnit (unitTail u) = some u := by
  cases u with
  | none => rfl
  | some x =>
    obtain ⟨hall, c, r, rfl, h1, h2, h3, h4⟩ := h
    simp only [unitTail, dipUnit, h1, h2, h3, h4, or_self, if_false, hall, if_true]

theorem readDipLine_parts (name t dtxt tok : Str) (k : Kind) (bits : Nat) (dims : Option (List Nat)) (u : Option Str)
    (hne : name ≠ []) (hname : name.all dipNameChar = true)
    (ht : ∀ ch ∈ t, ch ≠ '[' ∧ ch ≠ ' ') (hkind : dipKind t = some (k, bits)) (hk : k ≠ Kind.str)
    (hd0 : ∀ x r, dtxt = x :: r → x = '[')
    (hd : ∀ rest, dipDims (dtxt ++ (' ' :: rest)) = some (dims, ' ' :: rest))
    (htok : tok ≠ []) (htc : ∀ ch ∈ tok, tokCh ch) (hu : UnitOK u) :
    readDipLine (name ++ (' ' :: (t ++ (dtxt ++ (' ' :: '=' :: ' ' :: (tok ++ unitTail u)))))) =
      (dipValue k dims tok).map (fun v => ⟨name, k, bits, v, u, []⟩) := by
  have hsp1 : (name ++ (' ' :: (t ++ (dtxt ++ (' ' :: '=' :: ' ' :: (tok ++ unitTail u)))))).span dipNameChar =
      (name, ' ' :: (t ++ (dtxt ++ (' ' :: '=' :: ' ' :: (tok ++ unitTail u))))) := by
    apply span_stop
    · exact fun ch hch => List.all_eq_true.mp hname ch hch
    · intro x r e; simp at e; rw [← e.1]; decide
  have hsp2 : (t ++ (dtxt ++ (' ' :: '=' :: ' ' :: (tok ++ unitTail u)))).span (fun c => decide (c ≠ '[' ∧ c ≠ ' ')) =
      (t, dtxt ++ (' ' :: '=' :: ' ' :: (tok ++ unitTail u))) := by
    apply span_stop
    · intro ch hch; have := ht ch hch; simp [this.1, this.2]
    · intro x r e
      cases dtxt with
      | nil => simp at e; simp [← e.1]
      | cons y ys =>
        have := hd0 y ys rfl
        simp at e; simp [← e.1, this]
  have hsp3 : (tok ++ unitTail u).span (fun c => decide (c ≠ ' ' ∧ c ≠ '#')) = (tok, unitTail u) := by
    apply span_stop
    · intro ch hch
      have := htc ch hch
      simp [this.1, this.2.1]
    · intro x r e
      cases u with
      | none => simp [unitTail] at e
      | some u => simp [unitTail] at e; simp [← e.1]
  unfold readDipLine
  rw [hsp1]
  simp only [hne, if_false, dropPrefix?, if_true, Option.bind_eq_bind, Option.bind_some]
  rw [hsp2]
  simp only [hkind, Option.bind_some, hk, if_false, hd, dropPrefix?, if_true]
  rw [hsp3]
  simp only [htok, if_false, dipUnit_tail u hu, Option.bind_some]
  cases dipValue k dims tok <;> rfl

/-- what the DIP round trip asks of a parameter: a DIP name, a non-string type the parser accepts, a value of
    that kind, rectangular without empty levels, a readable unit -/
def ParamOKDipNum (p : Param) : Prop :=
  p.name ≠ [] ∧ p.name.all dipNameChar = true ∧ (p.kind, p.bits) ∈ Gen.dipTypes ∧ p.kind ≠ Kind.str ∧
  ValOK p.kind p.value ∧ (∃ sh, rectShape p.value = some sh ∧ 0 ∉ sh) ∧ UnitOK p.unit

theorem lineDip_form (p : Param) (t : Str) (ht : lookupType bDip p.kind p.bits = some t) (sh : List Nat)
    (hs : shapeOf p.value = some sh) (hk : p.kind ≠ Kind.str) :
    lineDip p = some (p.name ++ (' ' :: (t ++ ((match p.value with
        | .leaf _ => []
        | .arr _ => '[' :: (commaNats sh ++ [']'])) ++ (' ' :: '=' :: ' ' :: ((match p.value with
        | .leaf s => dipScalar false s
        | .arr _ => dipArray p.value) ++ unitTail p.unit)))))) := by
  unfold lineDip
  cases hv : p.value with
  | leaf s => cases hu : p.unit <;> simp [ht, unitTail]
  | arr vs =>
    rw [hv] at hs
    cases hu : p.unit <;> simp [ht, hs, hk, unitTail]

theorem joinWith_no (c : Char) (sep : Str) (hs : ∀ ch ∈ sep, ch ≠ c) : ∀ ls : List Str,
    (∀ l ∈ ls, ∀ ch ∈ l, ch ≠ c) → ∀ ch ∈ joinWith sep ls, ch ≠ c
  | [], _ => by simp [joinWith]
  | [a], h => by simpa [joinWith] using h a (by simp)
  | a :: b :: r, h => by
    intro ch hch
    simp only [joinWith, List.mem_append] at hch
    rcases hch with (h1 | h1) | h1
    · exact h a (by simp) ch h1
    · exact hs ch h1
    · exact joinWith_no c sep hs (b :: r) (fun l hl => h l (by simp [hl])) ch h1

theorem dipDims_commaNats (sh : List Nat) (hne : sh ≠ []) (rest : Str) :
    dipDims (('[' :: (commaNats sh ++ [']'])) ++ rest) = some (some sh, rest) := by
  have hsp : (commaNats sh ++ (']' :: rest)).span (fun c => decide (c ≠ ']')) = (commaNats sh, ']' :: rest) := by
    apply span_stop
    · intro ch hch
      have : ch ≠ ']' := by
        intro e; subst e
        unfold commaNats at hch
        have := joinWith_no ']' [','] (by decide) (sh.map showNat) (by
          intro l hl
          obtain ⟨d, _, rfl⟩ := List.mem_map.mp hl
          exact showNat_no d ']' (by decide))
        exact this _ hch rfl
      simp [this]
    · intro x r e; simp at e; simp [← e.1]
  simp only [List.cons_append, List.append_assoc, List.nil_append, dipDims, hsp, parseCommaNats_commaNats sh hne]

theorem readDipLine_lineDip_num (p : Param) (h : ParamOKDipNum p) :
    (lineDip p).bind readDipLine = some { p with tags := [] } := by
  obtain ⟨hne, hname, hty, hk, hv, ⟨sh, hr, h0⟩, hu⟩ := h
  obtain ⟨t, ht, hkind, htc⟩ := dipKind_lookup (p.kind, p.bits) hty
  have hs := shapeOf_of_rect p.value sh hr h0
  have htc' : ∀ ch ∈ t, ch ≠ '[' ∧ ch ≠ ' ' := by
    intro ch hch
    have := List.all_eq_true.mp htc ch hch
    simp at this
    exact ⟨this.1, this.2.1⟩
  rw [lineDip_form p t ht sh hs hk, Option.bind_some]
  cases hval0 : p.value with
  | leaf s =>
    have hsk : ScalarOK p.kind s := by rw [hval0] at hv; simpa [ValOK] using hv
    have hds : dipScalar false s = printScalar styleRust s := dipScalar_eq p.kind hk false s hsk
    have hne2 : printScalar styleRust s ≠ [] := by
      have := dipArray_ne_nil (.leaf s) p.kind (by simpa [ValOK] using hsk) hk
      simpa [dipArray, dipScalar_eq p.kind hk true s hsk] using this
    have hrs := readScalar_print styleRust (by decide) p.kind s hsk
    simp only [hds]
    rw [readDipLine_parts p.name t [] (printScalar styleRust s) p.kind p.bits none p.unit hne hname htc' hkind hk
      (by intro x r e; cases e) (by intro rest; rfl) hne2 (scalar_tokCh p.kind hk s hsk) hu]
    simp only [dipValue]
    simp only [styleRust] at hrs ⊢
    rw [hrs]
    cases p; simp_all
  | arr vs =>
    have hvk : ValOK p.kind (.arr vs) := by rw [hval0] at hv; exact hv
    have hrr : rectShape (Tree.arr vs : Val) = some sh := by rw [hval0] at hr; exact hr
    have hshne : sh ≠ [] := by
      rcases rectShape_arr vs sh hrr with ⟨_, rfl⟩ | ⟨s, rfl, _, _⟩ <;> simp
    have harr := dipArray_eq p.kind hk (.arr vs) hvk
    have hsafe := safe_tree styleRust '[' ']' styleRust_ok p.kind (.arr vs) hvk
    have hparse := parseInit_printTokC styleRust.q '[' ']' good_bracket _ hsafe
    have hshape : rectShape (tokTree styleRust (.arr vs)) = some sh := by rw [rectShape_tokTree, hrr]
    have hint := interp_tokTree styleRust (by decide) p.kind (.arr vs) hvk
    rw [readDipLine_parts p.name t ('[' :: (commaNats sh ++ [']'])) (dipArray (.arr vs)) p.kind p.bits (some sh) p.unit
      hne hname htc' hkind hk (by intro x r e; simp at e; exact e.1.symm)
      (by intro rest; exact dipDims_commaNats sh hshne _)
      (dipArray_ne_nil _ p.kind hvk hk) (dipArray_tokCh p.kind hk _ hvk) hu]
    simp only [dipValue, harr]
    simp only [styleRust] at hparse hint hshape ⊢
    simp only [hparse, Option.bind_eq_bind, Option.bind_some, hshape, ne_eq, not_true_eq_false, if_false, hint]
    cases p; simp_all

/-! ## whole texts -/

theorem mapM_some_map {α β : Type} (f : α → β) : ∀ l : List α, l.mapM (fun a => some (f a)) = some (l.map f)
  | [] => rfl
  | a :: l => by simp [List.mapM_cons, mapM_some_map f l]

theorem lineDip_clean_num (p : Param) (h : ParamOKDipNum p) (l : Str) (hl : lineDip p = some l) :
    clean l = true ∧ l ≠ [] := by
  obtain ⟨hne, hname, hty, hk, hv, ⟨sh, hr, h0⟩, hu⟩ := h
  obtain ⟨t, ht, hkind, htc⟩ := dipKind_lookup (p.kind, p.bits) hty
  have hs := shapeOf_of_rect p.value sh hr h0
  rw [lineDip_form p t ht sh hs hk] at hl
  injection hl with hl
  subst hl
  refine ⟨?_, by
    intro e
    have := congrArg List.length e
    simp at this⟩
  have c1 : clean p.name = true := by
    rw [clean_iff]
    intro ch hch e
    subst e
    have := List.all_eq_true.mp hname _ hch
    revert this; decide
  have c2 : clean t = true := by
    rw [clean_iff]
    intro ch hch
    have := List.all_eq_true.mp htc ch hch
    simp at this
    exact this.2.2
  have c3 : clean (commaNats sh) = true := by
    rw [clean_iff]
    exact joinWith_no '\n' [','] (by decide) (sh.map showNat) (by
      intro l hl
      obtain ⟨d, _, rfl⟩ := List.mem_map.mp hl
      exact showNat_no d '\n' (by decide))
  have c4 : clean (unitTail p.unit) = true := by
    cases hu' : p.unit with
    | none => rfl
    | some u =>
      rw [hu'] at hu
      rw [clean_iff]
      intro ch hch e
      subst e
      simp only [unitTail, List.mem_cons] at hch
      rcases hch with e | hch
      · revert e; decide
      · have := List.all_eq_true.mp hu.1 _ hch
        revert this; decide
  cases hval0 : p.value with
  | leaf s =>
    have hsk : ScalarOK p.kind s := by rw [hval0] at hv; simpa [ValOK] using hv
    have c5 : clean (dipScalar false s) = true := by
      rw [dipScalar_eq p.kind hk false s hsk, clean_iff]
      exact fun ch hch => (scalar_tokCh p.kind hk s hsk ch hch).2.2
    simp [clean_append, clean_cons, c1, c2, c4, c5]
  | arr vs =>
    have hvk : ValOK p.kind (.arr vs) := by rw [hval0] at hv; exact hv
    have c5 : clean (dipArray (.arr vs)) = true := by
      rw [clean_iff]
      exact fun ch hch => (dipArray_tokCh p.kind hk _ hvk ch hch).2.2
    simp [clean_append, clean_cons, c1, c2, c3, c4, c5]

/-! ## scalar string nodes -/

def dipEscChar (c : Char) : Str := if c = '\'' then ['\\', '\''] else if c = '"' then ['\\', '"'] else [c]

def endsBS : Str → Bool
  | [] => false
  | [c] => c = '\\'
  | _ :: c :: r => endsBS (c :: r)

theorem dipScalar_str (v : Str) : dipScalar false (.s v) = '"' :: (v.flatMap dipEscChar ++ ['"']) := by
  have : replaceChar '"' ['\\', '"'] (replaceChar '\'' ['\\', '\''] v) = v.flatMap dipEscChar := by
    unfold replaceChar
    rw [List.flatMap_assoc]
    congr 1
    funext x
    unfold dipEscChar
    by_cases h1 : x = '\'' 
    · subst h1; simp
    · by_cases h2 : x = '"'
      · subst h2; simp
      · simp [h1, h2]
  simp [dipScalar, this]

theorem dipStrGo_esc : ∀ (v : Str), endsBS v = false →
    dipStrGo false (v.flatMap dipEscChar ++ ['"']) = some (v, []) ∧
    (v ≠ [] → dipStrGo true (v.flatMap dipEscChar ++ ['"']) = some ('\\' :: v, []))
  | [], _ => by simp [dipStrGo]
  | c :: v, h => by
    have hv : v = [] ∨ endsBS v = false := by
      cases v with
      | nil => exact Or.inl rfl
      | cons d w => right; simpa [endsBS] using h
    by_cases h1 : c = '\''
    · subst h1
      have ih := dipStrGo_esc v (by rcases hv with rfl | h' <;> simp_all [endsBS])
      simp [List.flatMap_cons, dipEscChar, dipStrGo, ih.1]
    · by_cases h2 : c = '"'
      · subst h2
        have ih := dipStrGo_esc v (by rcases hv with rfl | h' <;> simp_all [endsBS])
        simp [List.flatMap_cons, dipEscChar, dipStrGo, ih.1]
      · by_cases h3 : c = '\\'
        · subst h3
          cases v with
          | nil => simp [endsBS] at h
          | cons d w =>
            have ih := dipStrGo_esc (d :: w) (by simpa [endsBS] using h)
            have ih2 := ih.2 (by simp)
            have e : ('\\' :: d :: w).flatMap dipEscChar ++ ['"'] = '\\' :: ((d :: w).flatMap dipEscChar ++ ['"']) := by
              rw [List.flatMap_cons]; simp [dipEscChar]
            rw [e]
            simp only [List.flatMap_cons, List.append_assoc] at ih2
            simp [dipStrGo, ih2]
        · have ih := dipStrGo_esc v (by rcases hv with rfl | h' <;> simp_all [endsBS])
          simp [List.flatMap_cons, dipEscChar, dipStrGo, h1, h2, h3, ih.1]

theorem esc_no_dollar (v : Str) (h : ∀ ch ∈ v, ch ≠ '$') : ∀ ch ∈ v.flatMap dipEscChar ++ ['"'], ch ≠ '$' := by
  intro ch hch
  simp only [List.mem_append, List.mem_flatMap, List.mem_singleton] at hch
  rcases hch with ⟨x, hx, hc⟩ | e
  · unfold dipEscChar at hc
    split at hc
    · simp at hc; rcases hc with e | e <;> (subst e; decide)
    · split at hc
      · simp at hc; rcases hc with e | e <;> (subst e; decide)
      · simp at hc; rw [hc]; exact h x hx
  · subst e; decide

theorem esc_clean (v : Str) (h : clean v = true) : clean (v.flatMap dipEscChar ++ ['"']) = true := by
  rw [clean_iff] at h ⊢
  intro ch hch
  simp only [List.mem_append, List.mem_flatMap, List.mem_singleton] at hch
  rcases hch with ⟨x, hx, hc⟩ | e
  · unfold dipEscChar at hc
    split at hc
    · simp at hc; rcases hc with e | e <;> (subst e; decide)
    · split at hc
      · simp at hc; rcases hc with e | e <;> (subst e; decide)
      · simp at hc; rw [hc]; exact h x hx
  · subst e; decide

/-- a scalar string node: any text without `$` and newline that does not end in a backslash -/
def ParamOKDipStr (p : Param) : Prop :=
  p.name ≠ [] ∧ p.name.all dipNameChar = true ∧ (p.kind, p.bits) ∈ Gen.dipTypes ∧ p.kind = Kind.str ∧ p.unit = none ∧
  ∃ v, p.value = .leaf (.s v) ∧ endsBS v = false ∧ (∀ ch ∈ v, ch ≠ '$') ∧ clean v = true

theorem lineDip_form_str (p : Param) (t : Str) (ht : lookupType bDip p.kind p.bits = some t) (v : Str)
    (hv : p.value = .leaf (.s v)) (hu : p.unit = none) :
    lineDip p = some (p.name ++ (' ' :: (t ++ (' ' :: '=' :: ' ' :: ('"' :: (v.flatMap dipEscChar ++ ['"'])))))) := by
  unfold lineDip
  simp [ht, hv, hu, dipScalar_str]

theorem readDipLine_strline (name t : Str) (bits : Nat) (v : Str)
    (hne : name ≠ []) (hname : name.all dipNameChar = true)
    (ht : ∀ ch ∈ t, ch ≠ '[' ∧ ch ≠ ' ') (hkind : dipKind t = some (Kind.str, bits))
    (hv1 : endsBS v = false) (hv2 : ∀ ch ∈ v, ch ≠ '$') :
    readDipLine (name ++ (' ' :: (t ++ (' ' :: '=' :: ' ' :: ('"' :: (v.flatMap dipEscChar ++ ['"'])))))) =
      some ⟨name, .str, bits, .leaf (.s v), none, []⟩ := by
  have hsp1 : (name ++ (' ' :: (t ++ (' ' :: '=' :: ' ' :: ('"' :: (v.flatMap dipEscChar ++ ['"'])))))).span dipNameChar =
      (name, ' ' :: (t ++ (' ' :: '=' :: ' ' :: ('"' :: (v.flatMap dipEscChar ++ ['"']))))) := by
    apply span_stop
    · exact fun ch hch => List.all_eq_true.mp hname ch hch
    · intro x r e; simp at e; rw [← e.1]; decide
  have hsp2 : (t ++ (' ' :: '=' :: ' ' :: ('"' :: (v.flatMap dipEscChar ++ ['"'])))).span (fun c => decide (c ≠ '[' ∧ c ≠ ' ')) =
      (t, ' ' :: '=' :: ' ' :: ('"' :: (v.flatMap dipEscChar ++ ['"']))) := by
    apply span_stop
    · intro ch hch; have := ht ch hch; simp [this.1, this.2]
    · intro x r e; simp at e; simp [← e.1]
  have hall : (v.flatMap dipEscChar ++ ['"']).all (fun c => decide (c ≠ '$')) = true := by
    rw [List.all_eq_true]
    intro ch hch
    simpa using esc_no_dollar v hv2 ch hch
  unfold readDipLine
  rw [hsp1]
  simp only [hne, if_false, dropPrefix?, if_true, Option.bind_eq_bind, Option.bind_some]
  rw [hsp2]
  have hd : ∀ rest : Str, dipDims (' ' :: rest) = some (none, ' ' :: rest) := fun _ => rfl
  simp only [hkind, Option.bind_some, hd, dropPrefix?, if_true, dipStrLine, hall, (dipStrGo_esc v hv1).1]

theorem readDipLine_lineDip_str (p : Param) (h : ParamOKDipStr p) :
    (lineDip p).bind readDipLine = some { p with tags := [] } := by
  obtain ⟨hne, hname, hty, hk, hu, v, hv, h1, h2, _⟩ := h
  obtain ⟨t, ht, hkind, htc⟩ := dipKind_lookup (p.kind, p.bits) hty
  have htc' : ∀ ch ∈ t, ch ≠ '[' ∧ ch ≠ ' ' := by
    intro ch hch
    have := List.all_eq_true.mp htc ch hch
    simp at this
    exact ⟨this.1, this.2.1⟩
  rw [lineDip_form_str p t ht v hv hu, Option.bind_some]
  simp only [hk] at hkind
  rw [readDipLine_strline p.name t p.bits v hne hname htc' hkind h1 h2]
  cases p; simp_all

theorem lineDip_clean_str (p : Param) (h : ParamOKDipStr p) (l : Str) (hl : lineDip p = some l) :
    clean l = true ∧ l ≠ [] := by
  obtain ⟨hne, hname, hty, hk, hu, v, hv, h1, h2, h3⟩ := h
  obtain ⟨t, ht, hkind, htc⟩ := dipKind_lookup (p.kind, p.bits) hty
  rw [lineDip_form_str p t ht v hv hu] at hl
  injection hl with hl
  subst hl
  refine ⟨?_, by
    intro e
    have := congrArg List.length e
    simp at this⟩
  have c1 : clean p.name = true := by
    rw [clean_iff]
    intro ch hch e
    subst e
    have := List.all_eq_true.mp hname _ hch
    revert this; decide
  have c2 : clean t = true := by
    rw [clean_iff]
    intro ch hch
    have := List.all_eq_true.mp htc ch hch
    simp at this
    exact this.2.2
  have c3 := esc_clean v h3
  simp [clean_append, clean_cons, c1, c2, c3]

/-- what the DIP round trip asks of a parameter: a boolean / numeric node or a scalar string node -/
def ParamOKDip (p : Param) : Prop := ParamOKDipNum p ∨ ParamOKDipStr p

theorem readDipLine_lineDip (p : Param) (h : ParamOKDip p) :
    (lineDip p).bind readDipLine = some { p with tags := [] } := by
  rcases h with h | h
  · exact readDipLine_lineDip_num p h
  · exact readDipLine_lineDip_str p h

theorem lineDip_clean (p : Param) (h : ParamOKDip p) (l : Str) (hl : lineDip p = some l) :
    clean l = true ∧ l ≠ [] := by
  rcases h with h | h
  · exact lineDip_clean_num p h l hl
  · exact lineDip_clean_str p h l hl

/-- **whole DIP texts** (boolean, numeric and scalar string nodes): export, split into lines, read every line = the same
    parameters in order -/
theorem readDip_exportDip (data : List Param) (hok : ∀ p ∈ data, ParamOKDip p) :
    (exportDip data).bind readDip = some (expectedDip data) := by
  have hlines := mapM_lines lineDip readDipLine (fun p => some { p with tags := [] }) data
    (fun p hp => readDipLine_lineDip p (hok p hp))
  have hexp : some (expectedDip data) = data.mapM (fun p => some ({ p with tags := [] } : Param)) := by
    rw [mapM_some_map]; rfl
  rw [hexp, ← hlines]
  unfold exportDip
  cases hm : data.mapM lineDip with
  | none => simp
  | some ls =>
    simp only [Option.bind_eq_bind, Option.bind_some]
    cases ls with
    | nil => simp [joinWith, readDip]
    | cons l ls =>
      have hall : ∀ x ∈ l :: ls, clean x = true ∧ x ≠ [] := by
        intro x hx
        obtain ⟨p, hp, hl⟩ := mapM_some_mem lineDip data (l :: ls) hm x hx
        exact lineDip_clean p (hok p hp) x hl
      have hne : joinWith ['\n'] (l :: ls) ≠ [] :=
        joinWith_ne_nil _ _ ⟨l, by simp, (hall l (by simp)).2⟩
      have hl := lines_joinWith (l :: ls) (by simp)
        (fun x hx => (clean_iff x).mp (hall x hx).1)
      simp [readDip, hne, hl]

end SciVerif.C19
