import SciVerif.Lemmas.C17z

/-! Refinement (C17), part 9: property lines.  The code attaches a property line to the LAST
    node of the environment, the specification to the node at a PATH; they coincide when the line
    follows its node (the documented placement). -/
namespace SciVerif.C17

theorem updateLast_append (f : Node → Except String Node) (init : List Node) (t t' : Node)
    (h : f t = .ok t') : updateLast f (init ++ [t]) = .ok (init ++ [t']) := by
  induction init with
  | nil => simp [updateLast, h]
  | cons a r ih =>
    cases hr : r ++ [t] with
    | nil => simp at hr
    | cons b c =>
      simp only [List.cons_append, hr, updateLast]
      rw [hr] at ih
      simp [ih]

theorem sUpdate_last (p : List Str) (f : SNode → Option SNode) (init : List SNode) (t t' : SNode)
    (hp : t.path = p) (hno : ∀ x ∈ init, x.path ≠ p) (h : f t = some t') :
    sUpdate p f (init ++ [t]) = some (init ++ [t']) := by
  induction init with
  | nil => simp [sUpdate, hp, h]
  | cons a r ih =>
    have ha : a.path ≠ p := hno a (by simp)
    simp only [List.cons_append, sUpdate, ha, if_false]
    rw [ih (fun x hx => hno x (by simp [hx]))]
    rfl

/-- the statement of a property line whose value is literal -/
def propStmt (path : List Str) : PropLine → SStmt
  | .constant => .constant path
  | .condition e => .condition path e
  | .format f => .format path f
  | .tags l => .tags path l
  | .option v u => .option path (.lit v) u
  | .description d => .description path d

/-- the property line stands where it belongs: the last node of the environment is the node at
    `path`, no earlier node has that name, and the node's type admits the property -/
def PropOK (env : Env) (path : List Str) (p : PropLine) : Prop :=
  ∃ init t, env.nodes = init ++ [t] ∧ splitDot t.name = path ∧ (∀ x ∈ init, x.name ≠ t.name) ∧
    (match p with
     | .format _ => t.kw = .str
     | .option _ _ => t.kw = .int ∨ t.kw = .float ∨ t.kw = .str
     | _ => True)

theorem good_applyProp {tbl : UnitTable} {t t' : Node} {p : PropLine} (hg : Good tbl t)
    (h : applyProp p t = .ok t') : Good tbl t' ∧ t'.name = t.name := by
  cases p <;> simp only [applyProp] at h
  · cases h; exact ⟨hg, rfl⟩
  · cases h; exact ⟨hg, rfl⟩
  · split at h
    · cases h; exact ⟨hg, rfl⟩
    · cases h
  · split at h
    · cases h; exact ⟨hg, rfl⟩
    · cases h
  · split at h
    · cases h; exact ⟨hg, rfl⟩
    · cases h
  · split at h
    · cases h; exact ⟨hg, rfl⟩
    · cases h

/-- A property line in its documented place: the specification's update of the node at the path
    and the code's update of the last node are the same update. -/
theorem refine_prop (tbl : UnitTable) (env : Env) (hinv : Inv tbl env) (path : List Str) (p : PropLine)
    (s' : SEnv) (hok : PropOK env path p) (h : sStep tbl (absEnv env) (propStmt path p) = .ok s') :
    ∃ env', step tbl env (.prop p) = .ok env' ∧ absEnv env' = s' ∧ Inv tbl env' := by
  obtain ⟨init, t, hnodes, hpath, huniq, hkw⟩ := hok
  have hgt : Good tbl t := hinv.1 t (by rw [hnodes]; simp)
  have hty : isTyped t.kw = true := hgt.1
  have hno : ∀ x ∈ init.map absN, x.path ≠ path := by
    intro x hx
    obtain ⟨y, hy, rfl⟩ := List.mem_map.mp hx
    intro e
    apply huniq y hy
    apply splitDot_inj
    rw [hpath]; exact e
  have habsnodes : (absEnv env).nodes = init.map absN ++ [absN t] := by simp [absEnv, hnodes]
  -- the model side: some t' with applyProp p t = ok t'
  have key : ∀ (g : SNode → SNode) (t' : Node), applyProp p t = .ok t' → absN t' = g (absN t) →
      sAttr (absEnv env) path g = .ok s' →
      ∃ env', step tbl env (.prop p) = .ok env' ∧ absEnv env' = s' ∧ Inv tbl env' := by
    intro g t' happ hg hs
    have hup := updateLast_append (applyProp p) init t t' happ
    refine ⟨{ env with nodes := init ++ [t'] }, by simp [step, hnodes, hup], ?_, ?_⟩
    · unfold sAttr at hs
      rw [habsnodes, sUpdate_last path (fun n => some (g n)) (init.map absN) (absN t) (g (absN t))
        (by simp [absN, hpath]) hno rfl] at hs
      simp only [Except.ok.injEq] at hs
      rw [← hs]
      simp [absEnv, hg]
    · obtain ⟨hg', _⟩ := good_applyProp hgt happ
      refine ⟨?_, hinv.2⟩
      intro n hn
      simp only [List.mem_append, List.mem_singleton] at hn
      rcases hn with hn | rfl
      · exact hinv.1 n (by rw [hnodes]; simp [hn])
      · exact hg'
  cases p with
  | constant => exact key _ { t with constant := true } rfl rfl (by simpa [propStmt, sStep] using h)
  | condition e => exact key _ { t with condition := some e } rfl rfl (by simpa [propStmt, sStep] using h)
  | format f =>
    have hk : t.kw = .str := hkw
    exact key _ { t with format := some f } (by simp [applyProp, hk]) rfl (by simpa [propStmt, sStep] using h)
  | tags l =>
    exact key _ { t with tags := t.tags ++ l } (by simp [applyProp, hty]) rfl (by simpa [propStmt, sStep] using h)
  | option v u =>
    have hk : t.kw = .int ∨ t.kw = .float ∨ t.kw = .str := hkw
    refine key (fun n => { n with options := n.options ++ [(v, u)] }) { t with options := t.options ++ [(v, u)] }
      (by simp [applyProp, hk]) rfl ?_
    simpa [propStmt, sStep, sEval, pickUnit_none] using h
  | description d =>
    exact key _ { t with description := addDescr t.description d } (by simp [applyProp, hty]) rfl
      (by simpa [propStmt, sStep] using h)

end SciVerif.C17
