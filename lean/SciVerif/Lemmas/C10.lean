import SciVerif.Model.C10
import Mathlib.Algebra.Ring.Defs
import Mathlib.Data.Nat.Cast.Basic
import Mathlib.Tactic.Ring

/-! Helper lemmas for C10: the `Composite` dict operations accumulate counts. -/
set_option linter.unusedSectionVars false
namespace SciVerif.C10
variable {α : Type} [Semiring α]

/-- the total proportion stored under key `k` (all entries with that key) -/
def total : Comps α → Str → α
  | [], _ => 0
  | (k', p) :: t, k => (if k' = k then p else 0) + total t k

def keys (cs : Comps α) : List Str := cs.map Prod.fst

theorem keys_cons (k : Str) (p : α) (t : Comps α) : keys ((k, p) :: t) = k :: keys t := rfl

theorem total_cadd (cs : Comps α) (k k' : Str) (p : α) :
    total (cadd cs k p) k' = total cs k' + (if k = k' then p else 0) := by
  induction cs with
  | nil => simp [cadd, total]
  | cons a t ih =>
    obtain ⟨ka, pa⟩ := a
    by_cases h : ka = k
    · subst h
      by_cases h2 : ka = k'
      · simp only [cadd, if_true, total, h2]
        rw [add_right_comm]
      · simp [cadd, total, h2]
    · simp only [cadd, h, if_false, total, ih]
      rw [add_assoc]

theorem total_caddAll (acc src : Comps α) (k : Str) :
    total (caddAll acc src) k = total acc k + total src k := by
  induction src generalizing acc with
  | nil => simp [caddAll, total]
  | cons a t ih =>
    obtain ⟨ka, pa⟩ := a
    have := ih (cadd acc ka pa)
    simp only [caddAll, List.foldl_cons] at this ⊢
    rw [this, total_cadd, total, add_assoc]

theorem total_cmul_aux (acc cs : Comps α) (x : α) (k : Str) :
    total (cs.foldl (fun a kp => cadd a kp.1 (kp.2 * x)) acc) k = total acc k + total cs k * x := by
  induction cs generalizing acc with
  | nil => simp [total]
  | cons a t ih =>
    obtain ⟨ka, pa⟩ := a
    simp only [List.foldl_cons, ih, total_cadd, total]
    by_cases h : ka = k <;> simp [h, add_mul, add_assoc]

theorem total_cmul (cs : Comps α) (x : α) (k : Str) : total (cmul cs x) k = total cs k * x := by
  simp [cmul, total_cmul_aux, total]

theorem total_cplus (a b : Comps α) (k : Str) : total (cplus a b) k = total a k + total b k := by
  simp [cplus, total_caddAll, total]

/-! ### keys -/

theorem keys_cadd (cs : Comps α) (k : Str) (p : α) :
    keys (cadd cs k p) = if k ∈ keys cs then keys cs else keys cs ++ [k] := by
  induction cs with
  | nil => simp [cadd, keys]
  | cons a t ih =>
    obtain ⟨ka, pa⟩ := a
    by_cases h : ka = k
    · subst h; simp [cadd, keys]
    · have h' : ¬ k = ka := fun e => h e.symm
      simp only [cadd, h, if_false, keys_cons, ih, List.mem_cons, h', false_or]
      by_cases hm : k ∈ keys t <;> simp [hm]

theorem nodup_cadd (cs : Comps α) (k : Str) (p : α) (h : (keys cs).Nodup) :
    (keys (cadd cs k p)).Nodup := by
  rw [keys_cadd]
  by_cases hk : k ∈ keys cs
  · simpa [hk] using h
  · simp only [hk, if_false]
    rw [List.nodup_append]
    refine ⟨h, by simp, ?_⟩
    intro a ha b hb
    simp only [List.mem_singleton] at hb
    subst hb
    intro e
    exact hk (e ▸ ha)

theorem nodup_foldl_cadd (g : Str × α → α) (src acc : Comps α) (h : (keys acc).Nodup) :
    (keys (src.foldl (fun a kp => cadd a kp.1 (g kp)) acc)).Nodup := by
  induction src generalizing acc with
  | nil => simpa using h
  | cons a t ih => exact ih _ (nodup_cadd acc a.1 (g a) h)

/-- keys after adding a whole (duplicate-free) dict: first-occurrence order -/
theorem keys_foldl_cadd (g : Str × α → α) (src acc : Comps α) (hs : (keys src).Nodup) :
    keys (src.foldl (fun a kp => cadd a kp.1 (g kp)) acc) =
      keys acc ++ (keys src).filter (fun k => !(keys acc).contains k) := by
  induction src generalizing acc with
  | nil => simp [keys]
  | cons a t ih =>
    obtain ⟨ka, pa⟩ := a
    rw [keys_cons, List.nodup_cons] at hs
    obtain ⟨hka, hs'⟩ := hs
    simp only [List.foldl_cons]
    rw [ih _ hs', keys_cadd, keys_cons]
    by_cases hk : ka ∈ keys acc
    · have hc : (keys acc).contains ka = true := by simpa using hk
      simp only [hk, if_true, List.filter_cons, hc, Bool.not_true]
      simp
    · have hc : (keys acc).contains ka = false := by simpa using hk
      simp only [hk, if_false, List.filter_cons, hc, Bool.not_false, if_true, List.append_assoc,
        List.singleton_append]
      congr 2
      apply List.filter_congr
      intro k hkt
      have hne : k ≠ ka := fun e => hka (e ▸ hkt)
      simp [hne]

/-- with duplicate-free keys the dict lookup is the total -/
theorem cget_eq_total (cs : Comps α) (k : Str) (h : (keys cs).Nodup) : cget cs k = total cs k := by
  induction cs with
  | nil => simp [cget, total]
  | cons a t ih =>
    obtain ⟨ka, pa⟩ := a
    simp only [keys, List.map_cons, List.nodup_cons] at h
    by_cases hk : ka = k
    · subst hk
      have : total t ka = 0 := by
        clear ih
        induction t with
        | nil => rfl
        | cons b t iht =>
          obtain ⟨kb, pb⟩ := b
          simp only [List.map_cons, List.mem_cons, not_or, List.nodup_cons] at h
          have hb : ¬ kb = ka := fun e => h.1.1 e.symm
          simp only [total, hb, if_false, zero_add]
          exact iht ⟨h.1.2, h.2.2⟩
      simp [cget, total, this]
    · simp [cget, total, hk, ih h.2]

/-- a duplicate-free dict is determined by its keys and lookups -/
theorem eq_of_keys_cget (cs : Comps α) (h : (keys cs).Nodup) :
    cs = (keys cs).map fun k => (k, cget cs k) := by
  induction cs with
  | nil => rfl
  | cons a t ih =>
    obtain ⟨ka, pa⟩ := a
    simp only [keys, List.map_cons, List.nodup_cons] at h
    simp only [keys, List.map_cons, cget, if_true, List.cons.injEq, true_and]
    conv => lhs; rw [ih h.2]
    simp only [keys, List.map_map]
    apply List.map_congr_left
    intro b hb
    have : ¬ ka = b.1 := fun e => h.1 (by simpa [e] using List.mem_map_of_mem (f := Prod.fst) hb)
    simp [Function.comp, this]

/-! ### the AST evaluation -/

theorem nodup_evalF (f : F) : (keys (evalF f : Comps α)).Nodup := by
  induction f with
  | sp s => simp [evalF, keys]
  | count f n ih => exact nodup_foldl_cadd (fun kp => kp.2 * (n : α)) _ [] (by simp [keys])
  | mulx f n ih => exact nodup_foldl_cadd (fun kp => kp.2 * (n : α)) _ [] (by simp [keys])
  | group f ih => exact ih
  | seq ws a b iha ihb =>
    exact nodup_foldl_cadd (fun kp => kp.2) _ _ (nodup_foldl_cadd (fun kp => kp.2) _ [] (by simp [keys]))
  | plus a b iha ihb =>
    exact nodup_foldl_cadd (fun kp => kp.2) _ _ (nodup_foldl_cadd (fun kp => kp.2) _ [] (by simp [keys]))

theorem total_evalF (f : F) (k : Str) : total (evalF f : Comps α) k = (expandCount k f : α) := by
  induction f with
  | sp s => by_cases h : s = k <;> simp [evalF, total, expandCount, h]
  | count f n ih => simp [evalF, total_cmul, ih, expandCount]
  | mulx f n ih => simp [evalF, total_cmul, ih, expandCount]
  | group f ih => simpa [evalF, expandCount] using ih
  | seq ws a b iha ihb => simp [evalF, total_cplus, iha, ihb, expandCount]
  | plus a b iha ihb => simp [evalF, total_cplus, iha, ihb, expandCount]

theorem filter_const_true (l : List Str) : l.filter (fun _ => true) = l := by
  induction l with
  | nil => rfl
  | cons a t ih => simp [List.filter_cons, ih]

theorem keys_cmul (cs : Comps α) (x : α) (h : (keys cs).Nodup) : keys (cmul cs x) = keys cs := by
  have := keys_foldl_cadd (fun kp => kp.2 * x) cs [] h
  simpa [cmul, keys, filter_const_true] using this

theorem keys_cplus (a b : Comps α) (ha : (keys a).Nodup) (hb : (keys b).Nodup) :
    keys (cplus a b) = keys a ++ (keys b).filter (fun k => !(keys a).contains k) := by
  have h1 : keys (caddAll [] a) = keys a := by
    have := keys_foldl_cadd (fun kp => kp.2) a [] ha
    simpa [caddAll, keys, filter_const_true] using this
  have := keys_foldl_cadd (fun kp => kp.2) b (caddAll [] a) hb
  simp only [cplus, caddAll] at this ⊢
  rw [this]
  simp only [caddAll] at h1
  rw [h1]

theorem keys_evalF (f : F) : keys (evalF f : Comps α) = speciesOf f := by
  induction f with
  | sp s => simp [evalF, keys, speciesOf]
  | count f n ih => simp only [evalF, speciesOf]; rw [keys_cmul _ _ (nodup_evalF f), ih]
  | mulx f n ih => simp only [evalF, speciesOf]; rw [keys_cmul _ _ (nodup_evalF f), ih]
  | group f ih => simpa [evalF, speciesOf] using ih
  | seq ws a b iha ihb =>
    simp only [evalF, speciesOf]; rw [keys_cplus _ _ (nodup_evalF a) (nodup_evalF b), iha, ihb]
  | plus a b iha ihb =>
    simp only [evalF, speciesOf]; rw [keys_cplus _ _ (nodup_evalF a) (nodup_evalF b), iha, ihb]

end SciVerif.C10
