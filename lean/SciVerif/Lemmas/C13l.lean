import SciVerif.Lemmas.C13k
/-!
`TableNode.parse` on a rendered table: header lines, an empty line, rows of simple cells.
-/
namespace SciVerif.C13

/-- a header line as written: column name, type keyword with suffix, optional dimension, optional unit -/
structure ColD where
  cname : Str
  a : Nat := 0
  ty : TyD
  dims : Option (List DimD) := none
  unit : Option (Nat × Str) := none

def ColD.render (c : ColD) : Str :=
  c.cname ++ (List.replicate (c.a + 1) ' ' ++ (c.ty.render ++ (renderDims c.dims ++ renderTail c.unit none)))

def ColD.Ok (c : ColD) : Prop :=
  NameOk c.cname ∧ DimsOk c.dims ∧ ∀ n x, c.unit = some (n, x) → UnitOk x

/-- the column node before the cells are attached -/
def ColD.node (tname : Str) (c : ColD) : Node × Bool :=
  ({ kind := .typed c.ty.ty, name := some (tname ++ ['.'] ++ c.cname), info := c.ty.info,
     units := c.unit.map Prod.snd }, c.dims.isSome)

theorem headerLine_render (tname : Str) (c : ColD) (hc : c.Ok) :
    headerLine tname c.render = .ok (c.node tname) := by
  obtain ⟨hn, hd, hu⟩ := hc
  obtain ⟨⟨c0, t0, hcn⟩, hall⟩ := hn
  have hb : (List.replicate (c.a + 1) ' ' ++ (c.ty.render ++ (renderDims c.dims ++ renderTail c.unit none))) = [] ∨
      ∃ x y, (List.replicate (c.a + 1) ' ' ++ (c.ty.render ++ (renderDims c.dims ++ renderTail c.unit none))) = x :: y ∧
        isNameCh x = false :=
    .inr ⟨' ', _, spaces_succ c.a _, by decide⟩
  have htw := takeWhile_append_of_all (p := isNameCh) c.cname _ hall hb
  have hdw := dropWhile_append_of_all (p := isNameCh) c.cname _ hall hb
  have hafter : renderTail c.unit none = [] ∨ ∃ x y, renderTail c.unit none = x :: y ∧ (x = ' ' ∨ x = '=' ∨ x = '#') := by
    rcases tail_head c.unit none with h | ⟨x, y, h, hx⟩
    · exact .inl h
    · exact .inr ⟨x, y, h, by rcases hx with h | h <;> simp [h]⟩
  obtain ⟨hk, hpd⟩ := renderDims_after c.dims hd _ hafter
  have hpt := partType_kw c.a c.ty _ hk
  have hne : c.cname.isEmpty = false := by rw [hcn]; rfl
  have hhead : (List.replicate (c.a + 1) ' ' ++ (c.ty.render ++ (renderDims c.dims ++ renderTail c.unit none))).head? = some ' ' := by
    rw [spaces_succ]; rfl
  have hdv : (dimsValue c.dims).isSome = c.dims.isSome := by cases c.dims <;> rfl
  unfold headerLine
  simp only [ColD.render, htw, hdw, hne, Bool.false_eq_true, if_false, hhead, bne_self_eq_false, Bool.and_false,
    hpt, hpd, bind, Except.bind]
  cases hun : c.unit with
  | none =>
    have : renderTail none none = ([] : Str) := rfl
    simp [this, partUnits, isBlank, ColD.node, hun, hdv]
  | some p =>
    obtain ⟨n, x⟩ := p
    have := partUnits_unit n x (hu n x hun) none
    simp only [renderComment] at this
    simp [this, isBlank, ColD.node, hun, hdv]

/-! ### csv rows of simple cells -/

/-- a cell without blanks, double quotes or white space -/
def SimpleCell (c : Str) : Prop := (∃ x r, c = x :: r) ∧ ∀ ch ∈ c, ch ≠ ' ' ∧ ch ≠ '"' ∧ isWs ch = false

theorem csvGo_inField (flds : List Str) (rest : Str) : ∀ (r fld : Str), (∀ ch ∈ r, ch ≠ ' ') →
    csvGo .inField fld flds (r ++ rest) = csvGo .inField (r.reverse ++ fld) flds rest := by
  intro r
  induction r with
  | nil => intro fld _; rfl
  | cons x t ih =>
    intro fld h
    have hx : (x == ' ') = false := by simp [h x (by simp)]
    simp only [List.cons_append, csvGo, hx, Bool.false_eq_true, if_false]
    rw [ih (x :: fld) (fun ch hch => h ch (List.mem_cons_of_mem _ hch))]
    simp

theorem csvGo_cells : ∀ (cells : List Str) (flds : List Str) (st : CsvSt), cells ≠ [] →
    (st = .startRec ∨ st = .startField) → (∀ c ∈ cells, SimpleCell c) →
    csvGo st [] flds (joinWith [' '] cells) = .ok (flds.reverse ++ cells) := by
  intro cells
  induction cells with
  | nil => intro _ _ h; exact absurd rfl h
  | cons c t ih =>
    intro flds st _ hst hall
    obtain ⟨⟨x, r, hcx⟩, hc⟩ := hall c (by simp)
    subst hcx
    have hx := hc x (by simp)
    have hxq : (x == '"') = false := by simp [hx.2.1]
    have hxs : (x == ' ') = false := by simp [hx.1]
    have hr : ∀ ch ∈ r, ch ≠ ' ' := fun ch hch => (hc ch (List.mem_cons_of_mem _ hch)).1
    have hstart : ∀ rest, csvGo st [] flds (x :: (r ++ rest)) = csvGo .inField (r.reverse ++ [x]) flds rest := by
      intro rest
      rcases hst with rfl | rfl <;>
      · simp only [csvGo, hxq, hxs, Bool.false_eq_true, if_false]
        exact csvGo_inField flds rest r [x] hr
    cases t with
    | nil =>
      have := hstart []
      simp only [List.append_nil] at this
      simp only [joinWith, this, csvGo]
      simp
    | cons c2 t2 =>
      have := hstart (' ' :: joinWith [' '] (c2 :: t2))
      simp only [joinWith, List.append_assoc, List.singleton_append, List.cons_append, List.nil_append]
      rw [this]
      simp only [csvGo, beq_self_eq_true, if_true]
      rw [ih ((r.reverse ++ [x]).reverse :: flds) .startField (by simp) (.inr rfl)
        (fun y hy => hall y (List.mem_cons_of_mem _ hy))]
      simp

theorem csvRow_cells (cells : List Str) (hne : cells ≠ []) (h : ∀ c ∈ cells, SimpleCell c) :
    csvRow (joinWith [' '] cells) = .ok cells := by
  have := csvGo_cells cells [] .startRec hne (.inl rfl) h
  simpa [csvRow] using this


/-! ### the whole table -/

theorem takeWhile_append_gen {α : Type} (p : α → Bool) (a b : List α) (ha : ∀ x ∈ a, p x = true)
    (hb : b = [] ∨ ∃ x r, b = x :: r ∧ p x = false) : (a ++ b).takeWhile p = a := by
  induction a with
  | nil =>
    rcases hb with rfl | ⟨x, r, rfl, hx⟩
    · rfl
    · simp [List.takeWhile_cons, hx]
  | cons y t ih =>
    have hy : p y = true := ha y (by simp)
    simp only [List.cons_append, List.takeWhile_cons, hy, if_true]
    rw [ih (fun x hx => ha x (List.mem_cons_of_mem _ hx))]

theorem dropWhile_append_gen {α : Type} (p : α → Bool) (a b : List α) (ha : ∀ x ∈ a, p x = true)
    (hb : b = [] ∨ ∃ x r, b = x :: r ∧ p x = false) : (a ++ b).dropWhile p = b := by
  induction a with
  | nil =>
    rcases hb with rfl | ⟨x, r, rfl, hx⟩
    · rfl
    · simp [List.dropWhile_cons, hx]
  | cons y t ih =>
    have hy : p y = true := ha y (by simp)
    simp only [List.cons_append, List.dropWhile_cons, hy, if_true]
    exact ih (fun x hx => ha x (List.mem_cons_of_mem _ hx))

theorem joinWith_concat_last (sep : Str) : ∀ (cells : List Str) (ini : Str) (y : Char),
    cells.getLast? = some (ini ++ [y]) → ∃ pre, joinWith sep cells = pre ++ [y] := by
  intro cells
  induction cells with
  | nil => intro ini y h; cases h
  | cons c t ih =>
    intro ini y h
    cases t with
    | nil =>
      simp only [List.getLast?_singleton, Option.some.injEq] at h
      exact ⟨ini, by simp [joinWith, h]⟩
    | cons c2 t2 =>
      have h' : (c2 :: t2).getLast? = some (ini ++ [y]) := by simpa [List.getLast?_cons_cons] using h
      obtain ⟨pre, hp⟩ := ih ini y h'
      exact ⟨c ++ sep ++ pre, by simp [joinWith, hp, List.append_assoc]⟩

theorem strip_row (cells : List Str) (hne : cells ≠ []) (h : ∀ c ∈ cells, SimpleCell c) :
    strip (joinWith [' '] cells) = joinWith [' '] cells := by
  -- first character
  obtain ⟨c0, t0, rfl⟩ : ∃ c0 t0, cells = c0 :: t0 := by
    cases cells with | nil => exact absurd rfl hne | cons a b => exact ⟨a, b, rfl⟩
  obtain ⟨⟨x, r, hx⟩, hc0⟩ := h c0 (by simp)
  have hxw : isWs x = false := (hc0 x (by rw [hx]; simp)).2.2
  have hhead : ∃ rest, joinWith [' '] (c0 :: t0) = x :: rest := by
    cases t0 with
    | nil => exact ⟨r, by simp [joinWith, hx]⟩
    | cons c2 t2 => exact ⟨r ++ [' '] ++ joinWith [' '] (c2 :: t2), by simp [joinWith, hx]⟩
  obtain ⟨rest, hj⟩ := hhead
  -- last character
  have hlast : ∃ cl, (c0 :: t0).getLast? = some cl := ⟨(c0 :: t0).getLast (by simp), List.getLast?_eq_getLast (by simp)⟩
  obtain ⟨cl, hcl⟩ := hlast
  have hclm : cl ∈ c0 :: t0 := List.mem_of_getLast? hcl
  obtain ⟨⟨x2, r2, hx2⟩, hcc⟩ := h cl hclm
  obtain ⟨ini, y, hiy⟩ : ∃ ini y, cl = ini ++ [y] := by
    rcases List.eq_nil_or_concat cl with h0 | ⟨ini, y, h1⟩
    · rw [h0] at hx2; cases hx2
    · exact ⟨ini, y, by simpa using h1⟩
  have hyw : isWs y = false := (hcc y (by rw [hiy]; simp)).2.2
  obtain ⟨pre, hpre⟩ := joinWith_concat_last [' '] (c0 :: t0) ini y (by rw [hcl, hiy])
  simp only [strip, rstrip]
  have hd : dropWs (joinWith [' '] (c0 :: t0)) = joinWith [' '] (c0 :: t0) := by
    rw [hj]; exact dropWs_cons x rest hxw
  rw [hd, hpre]
  simp [List.reverse_append, List.dropWhile_cons, hyw]

/-- a table as written inside the triple quotes -/
def renderTable (cols : List ColD) (rows : List (List Str)) : Str :=
  joinWith ['\n'] (cols.map ColD.render ++ [[]] ++ rows.map (joinWith [' ']))

/-- the column nodes: header order, every column an array of length `rows.length` carrying the cells of
    that column in row order -/
def columnNodes (tname : Str) (cols : List ColD) (rows : List (List Str)) : List Node :=
  ((cols.map (ColD.node tname)).zip (transposeCols cols.length rows)).map
    (fun (p : (Node × Bool) × List Str) =>
      { p.1.1 with raw := some (.cells p.1.2 p.2), dims := some [(some rows.length, some rows.length)] })

theorem mapM_ok_of_forall {β γ : Type} (f : β → R γ) (g : β → γ) : ∀ l : List β, (∀ x ∈ l, f x = .ok (g x)) →
    l.mapM f = .ok (l.map g) := by
  intro l
  induction l with
  | nil => intro _; rfl
  | cons a t ih =>
    intro h
    simp only [List.mapM_cons, h a (by simp), ih (fun x hx => h x (List.mem_cons_of_mem _ hx)), List.map_cons]
    rfl

theorem colD_render_chars (c : ColD) (hc : c.Ok) :
    (∃ x r, c.render = x :: r ∧ isWs x = false) ∧ ∀ ch ∈ c.render, ch ≠ '\n' := by
  obtain ⟨hn, hd, hu⟩ := hc
  obtain ⟨⟨c0, t0, hcn⟩, hall⟩ := hn
  refine ⟨⟨c0, t0 ++ (List.replicate (c.a + 1) ' ' ++ (c.ty.render ++ (renderDims c.dims ++ renderTail c.unit none))),
    by simp [ColD.render, hcn], (isNameCh_facts (hall c0 (by rw [hcn]; simp))).2.2.2.2.2.2.2⟩, ?_⟩
  intro ch hch
  simp only [ColD.render, List.mem_append] at hch
  rcases hch with h1 | h1 | h1 | h1 | h1
  · exact (NoEsc_name _ ⟨⟨c0, t0, hcn⟩, hall⟩ ch h1).2
  · exact (NoEsc_spaces _ ch h1).2
  · exact (NoEsc_ty _ ch h1).2
  · exact (NoEsc_dims _ hd ch h1).2
  · cases hun : c.unit with
    | none => rw [hun] at h1; simp [renderTail, renderComment] at h1
    | some p =>
      obtain ⟨n, x⟩ := p
      rw [hun] at h1
      simp only [renderTail, renderComment, List.append_nil, List.mem_append] at h1
      rcases h1 with h2 | h2
      · exact (NoEsc_spaces _ ch h2).2
      · have hu1 := (hu n x hun).2 ch h2
        intro e; rw [e] at hu1; revert hu1; decide

/-- **Table expansion.**  A table written as header lines `name type[dims] [unit]`, an empty line and
    `k ≥ 1` rows of simple cells (one blank between cells, as many cells as columns) expands to exactly
    the column definitions: in header order, named `table.column`, with the type, width/sign and unit
    of the header, dimension `[k]`, and the cells of that column in row order (read as JSON exactly
    when the header declares an inner dimension). -/
theorem expandTable0_render (tname : Str) (cols : List ColD) (rows : List (List Str))
    (hcols : cols ≠ []) (hcok : ∀ c ∈ cols, c.Ok) (hrows : rows ≠ [])
    (hr : ∀ r ∈ rows, r.length = cols.length ∧ ∀ c ∈ r, SimpleCell c) :
    expandTable0 (some (.text (renderTable cols rows))) (some tname) = .ok (columnNodes tname cols rows) := by
  have hrne : ∀ r ∈ rows, r ≠ [] := by
    intro r hrm e
    have := (hr r hrm).1
    rw [e] at this
    cases cols with | nil => exact hcols rfl | cons _ _ => simp at this
  -- the lines
  have hlines : splitOn '\n' (renderTable cols rows) = cols.map ColD.render ++ [[]] ++ rows.map (joinWith [' ']) := by
    apply splitOn_join '\n' _ (by simp)
    intro p hp ch hch
    simp only [List.mem_append, List.mem_map, List.mem_singleton] at hp
    rcases hp with (⟨c, hc, rfl⟩ | rfl) | ⟨r, hrm, rfl⟩
    · exact (colD_render_chars c (hcok c hc)).2 ch hch
    · cases hch
    · have : ∀ ch ∈ joinWith [' '] r, isWs ch = false ∨ ch = ' ' := by
        apply joinWith_chars (fun ch => isWs ch = false ∨ ch = ' ') ' ' (.inr rfl)
        intro x hx y hy
        exact .inl (((hr r hrm).2 x hx).2 y hy).2.2
      rcases this ch hch with h1 | h1
      · intro e; rw [e] at h1; revert h1; decide
      · rw [h1]; decide
  have hhdr_nb : ∀ l ∈ cols.map ColD.render, (fun l => !isBlank l) l = true := by
    intro l hl
    obtain ⟨c, hc, rfl⟩ := List.mem_map.mp hl
    obtain ⟨⟨x, r, hx, hxw⟩, _⟩ := colD_render_chars c (hcok c hc)
    simp [isBlank, hx, hxw]
  have htw := takeWhile_append_gen (fun l : Str => !isBlank l) (cols.map ColD.render)
    ([] :: rows.map (joinWith [' '])) hhdr_nb (.inr ⟨[], _, rfl, by simp [isBlank]⟩)
  have hdw := dropWhile_append_gen (fun l : Str => !isBlank l) (cols.map ColD.render)
    ([] :: rows.map (joinWith [' '])) hhdr_nb (.inr ⟨[], _, rfl, by simp [isBlank]⟩)
  have hassoc : cols.map ColD.render ++ [[]] ++ rows.map (joinWith [' ']) =
      cols.map ColD.render ++ ([] :: rows.map (joinWith [' '])) := by simp
  -- header lines
  have hhdr : (cols.map ColD.render).mapM (headerLine tname) = .ok (cols.map (ColD.node tname)) := by
    have := mapM_ok_of_forall (headerLine tname ∘ ColD.render) (ColD.node tname) cols
      (fun c hc => headerLine_render tname c (hcok c hc))
    rw [List.mapM_map]; exact this
  -- rows
  have hbody_ne : (rows.map (joinWith [' '])).isEmpty = false := by
    cases rows with | nil => exact absurd rfl hrows | cons _ _ => rfl
  have hbody_nb : (rows.map (joinWith [' '])).any isBlank = false := by
    simp only [List.any_eq_false, List.mem_map]
    intro l ⟨r, hrm, hl⟩
    subst hl
    obtain ⟨c0, t0, hr0⟩ : ∃ c0 t0, r = c0 :: t0 := by
      cases r with | nil => exact absurd rfl (hrne _ hrm) | cons a b => exact ⟨a, b, rfl⟩
    obtain ⟨⟨x, rr, hx⟩, hc0⟩ := (hr r hrm).2 c0 (by rw [hr0]; simp)
    have hxw : isWs x = false := (hc0 x (by rw [hx]; simp)).2.2
    subst hr0
    cases t0 with
    | nil => simp [joinWith, isBlank, hx, hxw]
    | cons c2 t2 => simp [joinWith, isBlank, hx, hxw]
  have hrowsM : (rows.map (joinWith [' '])).mapM (fun l => csvRow (strip l)) = .ok rows := by
    have := mapM_ok_of_forall ((fun l => csvRow (strip l)) ∘ joinWith [' ']) id rows
      (fun r hrm => by
        simp only [Function.comp]
        rw [strip_row r (hrne r hrm) (hr r hrm).2]
        exact csvRow_cells r (hrne r hrm) (hr r hrm).2)
    rw [List.mapM_map]; simpa using this
  have hlen : rows.any (fun r => r.length != (cols.map (ColD.node tname)).length) = false := by
    simp only [List.any_eq_false, List.length_map]
    intro r hrm
    simp [(hr r hrm).1]
  unfold expandTable0
  simp only [hlines, hassoc, htw, hdw, List.drop_succ_cons, List.drop_zero, hhdr, bind, Except.bind,
    hbody_ne, hbody_nb, Bool.or_false, Bool.false_eq_true, if_false, hrowsM, hlen]
  simp [columnNodes]

end SciVerif.C13
