import SciVerif.Lemmas.C14e
/-!
The column nodes produced by the executable `TableNode.parse` model are well-formed typed nodes, so
the table hypothesis of `C14_parse_refines_spec_tables` holds for the driver's parameters.
-/
namespace SciVerif.C13

theorem headerLine_typed (tname line : Str) (nd : Node) (b : Bool) (h : headerLine tname line = .ok (nd, b)) :
    (∃ t, nd.kind = .typed t) ∧ nd.name.isSome = true := by
  unfold headerLine at h
  simp only at h
  split at h
  · cases h
  · split at h
    · cases h
    · simp only [bind, Except.bind] at h
      cases hpt : partType (line.dropWhile isNameCh) with
      | error e => rw [hpt] at h; cases h
      | ok r =>
        obtain ⟨k, i, r0⟩ := r
        rw [hpt] at h
        simp only at h
        cases hpd : partDimension r0 with
        | error e => rw [hpd] at h; cases h
        | ok r2 =>
          rw [hpd] at h
          simp only at h
          split at h
          · cases h
          · cases k with
            | typed t =>
              simp only [Except.ok.injEq, Prod.mk.injEq] at h
              obtain ⟨h1, _⟩ := h
              subst h1
              exact ⟨⟨t, rfl⟩, rfl⟩
            | _ => cases h

theorem mapM_headerLine_typed (tname : Str) : ∀ (hdr : List Str) (cols : List (Node × Bool)),
    hdr.mapM (headerLine tname) = .ok cols → ∀ c ∈ cols, (∃ t, c.1.kind = .typed t) ∧ c.1.name.isSome = true := by
  intro hdr cols h c hc
  obtain ⟨l, _, hl⟩ := mapM_ok_mem (headerLine tname) hdr cols h c hc
  exact headerLine_typed tname l c.1 c.2 hl

theorem expandTable0_wf (raw : Option Raw) (name : Option Str) (cols : List Node)
    (h : expandTable0 raw name = .ok cols) : ∀ c ∈ cols, (∃ t, c.kind = .typed t) ∧ c.name.isSome = true := by
  unfold expandTable0 at h
  split at h
  · rename_i v tname
    simp only [bind, Except.bind] at h
    cases hm : ((splitOn '\n' v).takeWhile (fun l => !isBlank l)).mapM (headerLine tname) with
    | error e => rw [hm] at h; cases h
    | ok hc =>
      rw [hm] at h
      simp only at h
      split at h
      · cases h
      · cases hr : (((splitOn '\n' v).dropWhile (fun l => !isBlank l)).drop 1).mapM (fun l => csvRow (strip l)) with
        | error e => rw [hr] at h; cases h
        | ok rows =>
          rw [hr] at h
          simp only at h
          split at h
          · cases h
          · simp only [Except.ok.injEq] at h
            subst h
            intro c hcm
            obtain ⟨p, hp, rfl⟩ := List.mem_map.mp hcm
            have hp1 : p.1 ∈ hc := (List.of_mem_zip hp).1
            exact mapM_headerLine_typed tname _ hc hm p.1 hp1
  · cases h

/-- the driver's `TableNode.parse` yields well-formed typed column nodes -/
theorem expandTable_cols_wf (tbl : List UnitRow) (nd : Node) (cols : List Node)
    (h : (mkParams tbl).expandTable nd = .ok cols) : ∀ c ∈ cols, NodeWF c := by
  simp only [mkParams, expandTable] at h
  cases h0 : expandTable0 nd.raw nd.name with
  | error e => rw [h0] at h; cases h
  | ok cs =>
    rw [h0] at h
    simp only [Except.map, Except.ok.injEq] at h
    subst h
    intro c hc
    obtain ⟨c0, hc0, rfl⟩ := List.mem_map.mp hc
    obtain ⟨⟨t, ht⟩, hn⟩ := expandTable0_wf nd.raw nd.name cs h0 c0 hc0
    refine ⟨?_, ?_, ?_⟩
    · simp only [ht]; intro e; cases e
    · intro hk; simp only [ht] at hk; cases hk
    · intro t' _; exact hn

end SciVerif.C13
