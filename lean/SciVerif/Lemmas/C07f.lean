import SciVerif.Lemmas.C07e

/-!
Lemmas for C07, part 6: every operation of the library compiles to a valid description.
-/
namespace SciVerif.C07

theorem compile_valid_add {h : Heap} (w : WF h) (a b : Nat) (f : Facts) (s : Spec)
    (hc : compile h (.add a b f) = some s) : s.valid h := by
  simp only [compile] at hc
  split at hc
  · rename_i ma ca mb cb ba ea eb eba
    have sa := w.shapedB ea
    have sb := w.shapedB eb
    have okb := w.bu_ok_of eba
    split at hc
    · simp only [Option.some.injEq] at hc; subst hc; exact spec_valid_empty h
    · split at hc
      · simp only [Option.some.injEq] at hc; subst hc
        apply valid_initTail
        refine spec_valid_mk ?_ ?_ (by simp) okb (by simp)
        · intro t ht
          simp only [List.mem_cons, List.not_mem_nil, or_false] at ht
          rcases ht with rfl | rfl | rfl
          · exact valid_conv f cb sb
          · exact valid_ofRef ca sa
          · exact valid_conv f cb sb
        · exact valid_sum f ca cb sa sb
      · simp only [Option.some.injEq] at hc; subst hc
        apply valid_initTail
        refine spec_valid_mk ?_ ?_ (by simp) okb (by simp)
        · intro t ht
          simp only [List.mem_cons, List.not_mem_nil, or_false] at ht
          subst ht
          exact valid_conv f cb sb
        · exact valid_sum f ca cb sa sb
  · cases hc

theorem compile_valid_sub {h : Heap} (w : WF h) (a b : Nat) (f : Facts) (s : Spec)
    (hc : compile h (.sub a b f) = some s) : s.valid h := by
  simp only [compile] at hc
  split at hc
  · rename_i ma ca mb cb ba ea eb eba
    have sa := w.shapedB ea
    have sb := w.shapedB eb
    have okb := w.bu_ok_of eba
    split at hc
    · simp only [Option.some.injEq] at hc; subst hc; exact spec_valid_empty h
    · split at hc
      · simp only [Option.some.injEq] at hc; subst hc
        apply valid_initTail
        refine spec_valid_mk ?_ ?_ (by simp) okb (by simp)
        · intro t ht
          simp only [List.mem_cons, List.not_mem_nil, or_false] at ht
          rcases ht with rfl | rfl | rfl
          · exact valid_conv f cb sb
          · exact valid_ofRef ca sa
          · exact valid_conv f cb sb
        · exact valid_sum f ca cb sa sb
      · simp only [Option.some.injEq] at hc; subst hc
        apply valid_initTail
        refine spec_valid_mk ?_ ?_ (by simp) okb (by simp)
        · intro t ht
          simp only [List.mem_cons, List.not_mem_nil, or_false] at ht
          subst ht
          exact valid_conv f cb sb
        · exact valid_sum f ca cb sa sb
  · cases hc

theorem compile_valid_mul {h : Heap} (w : WF h) (a b : Nat) (f : Facts) (s : Spec)
    (hc : compile h (.mul a b f) = some s) : s.valid h := by
  simp only [compile] at hc
  split at hc
  · rename_i ma ca mb cb ea eb
    have sa := w.shapedB ea
    have sb := w.shapedB eb
    simp only [Option.some.injEq] at hc; subst hc
    apply valid_initTail
    refine spec_valid_mk (by simp) ?_ (by simp) trivial (by simp)
    exact valid_fresh_or _ _ _ _ sa sb _
  · cases hc

theorem compile_valid_div {h : Heap} (w : WF h) (a b : Nat) (f : Facts) (s : Spec)
    (hc : compile h (.div a b f) = some s) : s.valid h := by
  simp only [compile] at hc
  split at hc
  · rename_i ma ca mb cb ea eb
    have sa := w.shapedB ea
    have sb := w.shapedB eb
    simp only [Option.some.injEq] at hc; subst hc
    apply valid_initTail
    refine spec_valid_mk (by simp) ?_ (by simp) trivial (by simp)
    exact valid_fresh_or _ _ _ _ sa sb _
  · cases hc

theorem compile_valid_new {h : Heap} (isArr hasErr : Bool) (f : Facts) (s : Spec)
    (hc : compile h (.new isArr hasErr f) = some s) : s.valid h := by
  simp only [compile, Option.some.injEq] at hc; subst hc
  apply valid_initTail
  have hv : MagSpec.valid ⟨isArr, if hasErr then .fresh false else .none⟩ = true := by
    cases hasErr <;> simp [MagSpec.valid]
  obtain ⟨h1, h2, _⟩ := valid_scaled ⟨isArr, if hasErr then .fresh false else .none⟩ hasErr hv
  exact spec_valid_mk h1 h2 (by simp) trivial (by simp)

theorem compile_valid_pow {h : Heap} (w : WF h) (a : Nat) (f : Facts) (s : Spec)
    (hc : compile h (.pow a f) = some s) : s.valid h := by
  simp only [compile] at hc
  split at hc
  · rename_i ma ca ea
    have sa := w.shapedB ea
    simp only [Option.some.injEq] at hc; subst hc
    apply valid_initTail
    refine spec_valid_mk (by simp) ?_ (by simp) trivial (by simp)
    cases hce : ca.error <;> cases hv : ca.value.isArr <;> simp_all [MagSpec.valid, Ref.isNone, Ref.isArr]
  · cases hc

theorem compile_valid_neg {h : Heap} (w : WF h) (a : Nat) (f : Facts) (s : Spec)
    (hc : compile h (.neg a f) = some s) : s.valid h := by
  simp only [compile] at hc
  split at hc
  · rename_i ma ca ba ea eba
    have sa := w.shapedB ea
    simp only [Option.some.injEq] at hc; subst hc
    apply valid_initTail
    exact spec_valid_mk (by simp) (valid_ofRef ca sa) (by simp) (w.bu_ok_of eba) (by simp)
  · cases hc

theorem compile_valid_eq {h : Heap} (w : WF h) (a b : Nat) (f : Facts) (s : Spec)
    (hc : compile h (.eq a b f) = some s) : s.valid h := by
  simp only [compile] at hc
  split at hc
  · rename_i xa mb cb ea eb
    have sb := w.shapedB eb
    split at hc
    · simp only [Option.some.injEq] at hc; subst hc
      refine spec_valid_mk ?_ rfl ?_ trivial (by simp)
      · intro t ht
        split at ht
        · simp only [List.mem_cons, List.not_mem_nil, or_false] at ht; subst ht; exact valid_conv f cb sb
        · simp at ht
      · intro b hb; simp only [List.mem_cons, List.not_mem_nil, or_false] at hb; subst hb; trivial
    · simp only [Option.some.injEq] at hc; subst hc; exact spec_valid_empty h
  · cases hc

theorem compile_valid_ufunc {h : Heap} (w : WF h) (u : UF) (a : Nat) (f : Facts) (s : Spec)
    (hc : compile h (.ufunc u a f) = some s) : s.valid h := by
  simp only [compile] at hc
  split at hc
  · rename_i ma ca ba ea eba
    have sa := w.shapedB ea
    have okb := w.bu_ok_of eba
    split at hc
    · simp only [Option.some.injEq] at hc; subst hc; exact spec_valid_empty h
    · cases u <;> simp only [Option.some.injEq] at hc <;> subst hc
      · apply valid_initTail; exact spec_valid_mk (by simp) rfl (by simp) trivial (by simp)
      · apply valid_initTail
        refine spec_valid_mk ?_ rfl ?_ trivial (by simp)
        · intro t ht; simp only [List.mem_cons, List.not_mem_nil, or_false] at ht; subst ht
          exact valid_conv f ca sa
        · intro b hb; simp only [List.mem_cons, List.not_mem_nil, or_false] at hb; subst hb; trivial
      · apply valid_initTail
        obtain ⟨h1, h2, _⟩ := valid_scaled ⟨ca.value.isArr, .none⟩ false rfl
        refine spec_valid_mk ?_ h2 ?_ trivial (by simp)
        · intro t ht
          simp only [List.mem_cons] at ht
          rcases ht with rfl | ht
          · exact valid_conv f ca sa
          · exact h1 t ht
        · intro b hb; simp only [List.mem_cons, List.not_mem_nil, or_false] at hb
          rcases hb with rfl | rfl <;> trivial
      · apply valid_initTail; exact spec_valid_mk (by simp) rfl (by simp) okb (by simp)
      · apply valid_initTail; exact spec_valid_mk (by simp) rfl (by simp) okb (by simp)
      · exact spec_valid_empty h
  · cases hc

theorem compile_valid_space {h : Heap} (w : WF h) (a b : Nat) (f : Facts) (s : Spec)
    (hc : compile h (.space a b f) = some s) : s.valid h := by
  simp only [compile] at hc
  split at hc
  · rename_i xa mb cb ba ea eb eba
    have sb := w.shapedB eb
    have okb := w.bu_ok_of eba
    split at hc
    · simp only [Option.some.injEq] at hc; subst hc; exact spec_valid_empty h
    · simp only [Option.some.injEq] at hc; subst hc
      apply valid_initTail
      refine spec_valid_mk ?_ rfl ?_ okb (by simp)
      · intro t ht; simp only [List.mem_cons, List.not_mem_nil, or_false] at ht
        rcases ht with rfl | rfl
        · exact valid_conv f cb sb
        · rfl
      · intro b hb; simp only [List.mem_cons, List.not_mem_nil, or_false] at hb; subst hb; exact okb
  · cases hc

theorem compile_valid_space1 {h : Heap} (w : WF h) (b : Nat) (f : Facts) (s : Spec)
    (hc : compile h (.space1 b f) = some s) : s.valid h := by
  simp only [compile] at hc
  split at hc
  · rename_i xb bb eb ebb
    simp only [Option.some.injEq] at hc; subst hc
    apply valid_initTail
    refine spec_valid_mk ?_ rfl (by simp) (w.bu_ok_of ebb) (by simp)
    intro t ht; simp only [List.mem_cons, List.not_mem_nil, or_false] at ht; subst ht; rfl
  · cases hc

theorem compile_valid_value {h : Heap} (w : WF h) (a : Nat) (f : Facts) (s : Spec)
    (hc : compile h (.value a f) = some s) : s.valid h := by
  simp only [compile] at hc
  split at hc
  · rename_i ma ca ea
    have sa := w.shapedB ea
    have hb1 : ∀ b ∈ [BUSpec.fresh], b.ok h := by
      intro b hb; simp only [List.mem_cons, List.not_mem_nil, or_false] at hb; subst hb; trivial
    split at hc
    · simp only [Option.some.injEq] at hc; subst hc
      exact spec_valid_mk (by simp) rfl hb1 trivial (by simp)
    · simp only [Option.some.injEq] at hc; subst hc
      exact spec_valid_mk (by simp) (valid_conv f ca sa) hb1 trivial (by simp)
  · cases hc

theorem compile_valid_to {h : Heap} (w : WF h) (a : Nat) (u : UnitsArg) (f : Facts) (s : Spec)
    (hc : compile h (.to a u f) = some s) : s.valid h := by
  simp only [compile] at hc
  split at hc
  · rename_i ma ca ea
    have sa := w.shapedB ea
    obtain ⟨qa, hqa, _, _⟩ := magOf_some ea
    have tgt : ∀ x, Kind.assign a = Kind.assign x → ∃ c, h.q x = some c := by
      intro x hx; cases hx; exact ⟨qa, hqa⟩
    cases u with
    | text =>
      simp only at hc
      split at hc
      · simp only [Option.some.injEq] at hc; subst hc
        refine spec_valid_mk (by simp) rfl ?_ trivial (by simp)
        intro b hb; simp only [List.mem_cons, List.not_mem_nil, or_false] at hb; subst hb; trivial
      · simp only [Option.some.injEq] at hc; subst hc
        exact spec_valid_mk (by simp) (valid_conv f ca sa) (by simp) trivial tgt
    | buOf y =>
      simp only at hc
      split at hc
      · rename_i by_ eby
        have okb := w.bu_ok_of eby
        split at hc
        · simp only [Option.some.injEq] at hc; subst hc
          refine spec_valid_mk (by simp) rfl ?_ trivial (by simp)
          intro b hb; simp only [List.mem_cons, List.not_mem_nil, or_false] at hb; subst hb; exact okb
        · simp only [Option.some.injEq] at hc; subst hc
          exact spec_valid_mk (by simp) (valid_conv f ca sa) (by simp) okb tgt
      · cases hc
    | qty y =>
      simp only at hc
      split at hc
      · rename_i my cy by_ ey eby
        have sy := w.shapedB ey
        have okb := w.bu_ok_of eby
        split at hc
        · simp only [Option.some.injEq] at hc; subst hc; exact spec_valid_empty h
        · simp only [Option.some.injEq] at hc; subst hc
          refine spec_valid_mk ?_ ?_ (by simp) okb tgt
          · intro t ht; simp only [List.mem_cons, List.not_mem_nil, or_false] at ht; subst ht
            exact valid_conv f ca sa
          · cases hasErr2 ca cy <;> simp [MagSpec.valid]
      · cases hc
  · cases hc

theorem compile_valid_rebase {h : Heap} (a : Nat) (s : Spec)
    (hc : compile h (.rebase a) = some s) : s.valid h := by
  simp only [compile] at hc
  split at hc
  · rename_i ma ca ea
    obtain ⟨qa, hqa, _, _⟩ := magOf_some ea
    simp only [Option.some.injEq] at hc; subst hc
    refine spec_valid_mk ?_ ?_ (by simp) trivial ?_
    · intro t ht; simp only [List.mem_cons, List.not_mem_nil, or_false] at ht; subst ht; rfl
    · exact (valid_scaled ⟨ca.value.isArr, .none⟩ _ rfl).2.1
    · intro x hx; cases hx; exact ⟨qa, hqa⟩
  · cases hc

theorem compile_valid {h : Heap} (w : WF h) (op : Op) (s : Spec) (hc : compile h op = some s) :
    s.valid h := by
  cases op with
  | new isArr hasErr f => exact compile_valid_new isArr hasErr f s hc
  | add a b f => exact compile_valid_add w a b f s hc
  | sub a b f => exact compile_valid_sub w a b f s hc
  | mul a b f => exact compile_valid_mul w a b f s hc
  | div a b f => exact compile_valid_div w a b f s hc
  | pow a f => exact compile_valid_pow w a f s hc
  | neg a f => exact compile_valid_neg w a f s hc
  | eq a b f => exact compile_valid_eq w a b f s hc
  | ufunc u a f => exact compile_valid_ufunc w u a f s hc
  | space a b f => exact compile_valid_space w a b f s hc
  | space1 b f => exact compile_valid_space1 w b f s hc
  | value a f => exact compile_valid_value w a f s hc
  | to a u f => exact compile_valid_to w a u f s hc
  | rebase a => exact compile_valid_rebase a s hc
  | abse a => simp [compile] at hc
  | rele a => simp [compile] at hc
  | poke a e => simp [compile] at hc

theorem initTail_kind (f : Facts) (s : Spec) (he : Bool) : (initTail f s he).kind = s.kind := by
  unfold initTail; split <;> rfl

/-- which quantity cell an operation description assigns: none, or the target of the in-place method -/
theorem compile_kind {h : Heap} (op : Op) (s : Spec) (hc : compile h op = some s) :
    s.kind.target = none ∨ s.kind.target = target op := by
  cases op <;> simp only [compile] at hc <;> (repeat' split at hc) <;>
    first
    | (simp only [Option.some.injEq] at hc; subst hc; simp [initTail_kind, Kind.target, target]; done)
    | (cases hc; done)

end SciVerif.C07
