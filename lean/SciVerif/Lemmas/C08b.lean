import SciVerif.Lemmas.C06

/-!
Uncertainties at the quantity level (C08): the constructor's folding step multiplies value and
error by the same positive factor.
-/
namespace SciVerif.C06
open SciVerif.C08

set_option linter.unusedSectionVars false

variable {ι : Type} [DecidableEq ι]

theorem mul_exact_error (m : Mag ℝ) (f : ℝ) (hf : 0 < f) :
    (m.mul (Mag.exact f)).error = m.error.map (fun e => e * f) := by
  obtain ⟨v, e⟩ := m
  cases e <;> simp [Mag.mul, Mag.exact, mulErr, abs_of_pos hf]

theorem fold_error (env : ι → UnitInfo ℝ) (hpos : EnvPos env) (D : ι × Frac → Bool) (b : BU ι) (m : Mag ℝ) :
    (b.foldl (fun m p => if D p then m else m.mul (Mag.exact (unitFactor env p.1 p.2))) m).error =
      m.error.map (fun e => e * ((b.filter (fun p => !D p)).map (F env)).prod) := by
  induction b generalizing m with
  | nil => cases h : m.error <;> simp [h]
  | cons p t ih =>
    simp only [List.foldl_cons]
    rw [ih]
    by_cases h : D p
    · simp [h]
    · have hp : 0 < unitFactor env p.1 p.2 := F_pos env hpos p
      rw [if_neg h, mul_exact_error _ _ hp]
      cases m.error <;> simp [h, F, mul_assoc]

/-- the constructor (with its folding step) leaves the base-dimension magnitude — value *and*
    absolute error times the unit factor — unchanged -/
theorem new_baseMag (env : ι → UnitInfo ℝ) (hpos : EnvPos env) (m : Mag ℝ) (b : BU ι) :
    (Qty.new env m b).baseMag env =
      ⟨m.value * b.magnitude env, m.error.map (fun e => e * b.magnitude env)⟩ := by
  have hv := new_base env m b
  unfold Qty.new at hv ⊢
  split
  · rename_i h
    simp only [h, if_true, Qty.base] at hv
    simp only [Qty.baseMag, hv]
    congr 1
    rw [fold_error env hpos (fun p => (unitDims env p.1 p.2).nodim), magnitude_new, magnitude_eq, magnitude_eq,
      ← prod_split env (fun p => (unitDims env p.1 p.2).nodim) b]
    cases m.error <;> simp [mul_assoc]
  · rfl

theorem rebaseStep_pos (env : ι → UnitInfo ℝ) (hpos : EnvPos env)
    (acc : List (List Bool × ι × Frac) × ℝ) (p : ι × Frac) (h : 0 < acc.2) :
    0 < (rebaseStep env acc p).2 := by
  simp only [rebaseStep]
  cases List.find? (fun t => decide (t.1 = dimKey ((env p.1).dims.scale ⟨1, 1⟩))) acc.1 with
  | some t0 => exact mul_pos h (Real.rpow_pos_of_pos (div_pos (hpos _) (hpos _)) _)
  | none => exact h

/-- the conversion factor accumulated by `Quantity.rebase` is positive -/
theorem rebase_factor_pos (env : ι → UnitInfo ℝ) (hpos : EnvPos env) (b : BU ι)
    (acc : List (List Bool × ι × Frac) × ℝ) (h : 0 < acc.2) :
    0 < (b.foldl (rebaseStep env) acc).2 := by
  induction b generalizing acc with
  | nil => exact h
  | cons p t ih => exact ih _ (rebaseStep_pos env hpos acc p h)

end SciVerif.C06
