import SciVerif.Model.C18Str

/-! Template scanning inverts rendering for text and unsliced holes (C18). -/
namespace SciVerif.C18

theorem takeWhile_append_stop {α : Type} (p : α → Bool) (l : List α) (c : α) (r : List α)
    (hl : ∀ x ∈ l, p x = true) (hc : p c = false) :
    (l ++ c :: r).takeWhile p = l ∧ (l ++ c :: r).dropWhile p = c :: r := by
  induction l with
  | nil => simp [List.takeWhile, List.dropWhile, hc]
  | cons a l ih =>
    have ha := hl a (by simp)
    obtain ⟨h1, h2⟩ := ih (fun x hx => hl x (by simp [hx]))
    simp [List.takeWhile, List.dropWhile, ha, h1, h2]

def isFmtDigit (c : Char) : Bool := c.isDigit || c = '.'
def isFmtLetter (c : Char) : Bool := c = 's' || c = 'd' || c = 'f' || c = 'e' || c = 'b'

/-- a format specification the template grammar admits: `:[0-9.]*[sdfeb]+` -/
structure FmtOK (f : List Char) : Prop where
  ex : ∃ a b, f = ':' :: a ++ b ∧ (∀ c ∈ a, isFmtDigit c = true) ∧ (∀ c ∈ b, isFmtLetter c = true) ∧ b ≠ []

/-- specification-side pieces: text characters other than `{`, holes without slice -/
def PieceOK : Piece → Prop
  | .text c => c ≠ '{'
  | .hole p sl fm => p ≠ [] ∧ (∀ c ∈ p, c ≠ '}') ∧ sl = none ∧ (∀ f, fm = some f → FmtOK f)
  | .raise => False

/-- `{{path}fmt}` -/
def renderPiece : Piece → List Char
  | .text c => [c]
  | .hole p _ fm => '{' :: '{' :: p ++ '}' :: (fm.getD []) ++ ['}']
  | .raise => []

def renderPieces (ps : List Piece) : List Char := ps.flatMap renderPiece

theorem letter_not_digit (c : Char) (h : isFmtLetter c = true) : isFmtDigit c = false := by
  simp only [isFmtLetter, Bool.or_eq_true, decide_eq_true_eq] at h
  rcases h with (((rfl | rfl) | rfl) | rfl) | rfl <;> decide

theorem parseFormat_render (f more : List Char) (hf : FmtOK f) :
    parseFormat (f ++ '}' :: more) = some (f, '}' :: more) := by
  obtain ⟨a, b, rfl, ha, hb, hne⟩ := hf.ex
  cases b with
  | nil => exact absurd rfl hne
  | cons b0 bs =>
    have hb0 : isFmtLetter b0 = true := hb b0 (by simp)
    have hd0 : isFmtDigit b0 = false := letter_not_digit b0 hb0
    have e1 := takeWhile_append_stop (fun c => decide (c.isDigit = true ∨ c = '.')) a b0 (bs ++ '}' :: more)
      (by intro x hx; simpa [isFmtDigit] using ha x hx) (by simpa [isFmtDigit] using hd0)
    have e2 := takeWhile_append_stop (fun c => c = 's' || c = 'd' || c = 'f' || c = 'e' || c = 'b')
      (b0 :: bs) '}' more (by intro x hx; simpa [isFmtLetter] using hb x hx) (by decide)
    simp only [List.cons_append, List.append_assoc, parseFormat]
    rw [e1.1, e1.2]
    have e2' := e2
    simp only [List.cons_append] at e2'
    rw [e2'.1, e2'.2]
    simp

theorem parseSlice_none_of_head (s : List Char) (h : s.head? ≠ some '[') : parseSlice s = none := by
  cases s with
  | nil => rfl
  | cons c t =>
    simp only [List.head?_cons, ne_eq, Option.some.injEq] at h
    unfold parseSlice
    split
    · rename_i heq; simp at heq; exact absurd heq.1 h
    · rfl

theorem sliceRaises_false_of_head (s : List Char) (h : s.head? ≠ some '[') : sliceRaises s = false := by
  cases s with
  | nil => rfl
  | cons c t =>
    simp only [List.head?_cons, ne_eq, Option.some.injEq] at h
    unfold sliceRaises
    split
    · rename_i heq; simp at heq; exact absurd heq.1 h
    · rfl

theorem parseFormat_none_brace (more : List Char) : parseFormat ('}' :: more) = none := by
  simp [parseFormat]

theorem scan_piece (fuel : Nat) (p : Piece) (hp : PieceOK p) (more : List Char) :
    scanTemplate (fuel + 1) (renderPiece p ++ more) = p :: scanTemplate fuel more := by
  cases p with
  | text c =>
    simp only [PieceOK] at hp
    simp [renderPiece, scanTemplate, hp]
  | raise => exact hp.elim
  | hole path sl fm =>
    obtain ⟨hne, hnb, rfl, hfm⟩ := hp
    cases fm with
    | none =>
      have ht := takeWhile_append_stop (fun c => decide (c ≠ '}')) path '}' ('}' :: more)
        (by intro x hx; simpa using hnb x hx) (by decide)
      simp only [renderPiece, Option.getD_none, List.nil_append, List.cons_append, List.append_assoc,
        scanTemplate, if_true, List.dropWhile_cons_of_neg (show ¬ isWs '{' = true by decide)]
      rw [ht.1, ht.2]
      have hs : parseSlice ('}' :: more) = none := parseSlice_none_of_head _ (by simp)
      have hr : sliceRaises ('}' :: more) = false := sliceRaises_false_of_head _ (by simp)
      simp [hs, hr, parseFormat_none_brace, hne]
    | some f =>
      have hfo := hfm f rfl
      obtain ⟨a, b, hfe, _, _, _⟩ := hfo.ex
      have ht := takeWhile_append_stop (fun c => decide (c ≠ '}')) path '}' (f ++ '}' :: more)
        (by intro x hx; simpa using hnb x hx) (by decide)
      simp only [renderPiece, Option.getD_some, List.cons_append, List.append_assoc, List.nil_append,
        scanTemplate, if_true, List.dropWhile_cons_of_neg (show ¬ isWs '{' = true by decide)]
      rw [ht.1, ht.2]
      have hs : parseSlice (f ++ '}' :: more) = none := by
        apply parseSlice_none_of_head; rw [hfe]; simp
      have hr : sliceRaises (f ++ '}' :: more) = false := by
        apply sliceRaises_false_of_head; rw [hfe]; simp
      simp [hs, hr, parseFormat_render f more hfo, hne]

/-! rendering with slices (used only by the full statement kept in `Props/C18.lean`) -/

def renderBound : Option Nat → List Char
  | none => []
  | some n => (toString n).toList

def renderSlicePart : SliceEntry → List Char
  | .idx n => (toString n).toList
  | .range a b => renderBound a ++ ':' :: renderBound b

def renderSlice (sl : List SliceEntry) : List Char :=
  '[' :: (List.intercalate [','] (sl.map renderSlicePart)) ++ [']']

def renderPieceS : Piece → List Char
  | .text c => [c]
  | .hole p sl fm => '{' :: '{' :: p ++ '}' :: ((sl.map renderSlice).getD []) ++ (fm.getD []) ++ ['}']
  | .raise => []

/-- pieces of the template grammar including sliced holes -/
def PieceOKS : Piece → Prop
  | .text c => c ≠ '{'
  | .hole p sl fm => p ≠ [] ∧ (∀ c ∈ p, c ≠ '}') ∧ (∀ l, sl = some l → l ≠ []) ∧ (∀ f, fm = some f → FmtOK f)
  | .raise => False

theorem renderPiece_length (p : Piece) (hp : PieceOK p) : 1 ≤ (renderPiece p).length := by
  cases p <;> simp [renderPiece, PieceOK] at hp ⊢

theorem scan_render (ps : List Piece) (hp : ∀ p ∈ ps, PieceOK p) :
    ∀ fuel, (renderPieces ps).length < fuel → scanTemplate fuel (renderPieces ps) = ps := by
  induction ps with
  | nil => intro fuel _; cases fuel <;> simp [renderPieces, scanTemplate]
  | cons p ps ih =>
    intro fuel hf
    have hp0 := hp p (by simp)
    have hl := renderPiece_length p hp0
    cases fuel with
    | zero => simp at hf
    | succ n =>
      have hr : renderPieces (p :: ps) = renderPiece p ++ renderPieces ps := by simp [renderPieces]
      rw [hr] at hf ⊢
      rw [scan_piece n p hp0, ih (fun q hq => hp q (by simp [hq])) n (by simp at hf; omega)]

end SciVerif.C18
