import Mathlib.Analysis.SpecialFunctions.Pow.Real
import Mathlib.Data.List.Dedup
import SciVerif.Lemmas.C03i

/-! # C03 helper lemmas: the conversion factor over ℝ as a product over the whole exponent map -/
namespace SciVerif.C03

/-- the real number `x ** (n/d)` a symbolic factor stands for -/
noncomputable def factorR (f : Factor) : ℝ := ((f.base : ℚ) : ℝ) ^ ((f.exp.toRat : ℚ) : ℝ)

/-- the magnitude `BaseUnits.__init__` accumulates: the product of its factors -/
noncomputable def magR (fs : List Factor) : ℝ := (fs.map factorR).prod

/-- table magnitude of a key as a real number (1 for an unknown key) -/
noncomputable def keyMag (T : Tables) (u : UnitId) : ℝ := (((unitMag T u).getD 1 : ℚ) : ℝ)

/-- the specification's factor: `Π (prefix·unit)^e` over a multiset of (unit, exponent) pairs -/
noncomputable def specFactor (T : Tables) (l : List (UnitId × Rat)) : ℝ :=
  (l.map (fun ue => keyMag T ue.1 ^ ((ue.2 : ℚ) : ℝ))).prod

def ratPairs (m : ExpMap) : List (UnitId × Rat) := m.map (fun ue => (ue.1, ue.2.toRat))

theorem getUnitBase_factor (T : Tables) (u : UnitId) (e : Frac) (base : Base)
    (h : getUnitBase T u e = some base) : unitMag T u = some base.factor.base ∧ base.factor.exp = e := by
  unfold getUnitBase at h
  split at h
  · cases h
  · cases u with
    | sys n =>
      simp only at h
      split at h
      · cases h
      · rename_i row hrow; cases h; simp [unitMag, hrow]
    | std p b =>
      simp only at h
      split at h
      · cases h
      · rename_i row hrow
        split at h
        · rename_i hp; cases h; simp [unitMag, hrow, hp]
        · rename_i hp
          split at h
          · cases h
          · rename_i q hq; cases h; simp [unitMag, hrow, hp, hq]

theorem toRat_of_num_zero (e : Frac) (h : e.num = 0) : e.toRat = 0 := by
  simp [Frac.toRat, h]

/-- the loop of `BaseUnits.__init__`: the accumulated magnitude is the start value times
    `Π mag(u)^e` over all dict entries (a zero exponent contributes `x^0 = 1`) -/
theorem baseUnitsLoop_mag (T : Tables) (m : ExpMap) (acc b : BaseUnits)
    (h : baseUnitsLoop T m acc = some b) :
    magR b.factors = magR acc.factors * specFactor T (ratPairs m) := by
  induction m generalizing acc with
  | nil =>
    simp only [baseUnitsLoop, Option.some.injEq] at h
    subst h
    simp [specFactor, ratPairs]
  | cons x rest ih =>
    obtain ⟨u, e⟩ := x
    simp only [baseUnitsLoop] at h
    split at h
    · rename_i hz
      rw [ih acc h]
      simp [specFactor, ratPairs, toRat_of_num_zero e hz]
    · split at h
      · cases h
      · rename_i base hbase
        obtain ⟨hm, he⟩ := getUnitBase_factor T u e base hbase
        rw [ih _ h]
        simp only [magR, List.map_append, List.prod_append, List.map_cons, List.map_nil, List.prod_cons,
          List.prod_nil, mul_one, specFactor, ratPairs]
        have : factorR base.factor = keyMag T u ^ ((e.toRat : ℚ) : ℝ) := by
          unfold factorR keyMag
          rw [hm, he]; rfl
        rw [this]; ring

/-! ## regrouping a product of powers by key -/

theorem prod_ite_pow (M : UnitId → ℝ) (K : List UnitId) (hK : K.Nodup) (u : UnitId) (hu : u ∈ K) (c : ℝ) :
    (K.map (fun k => M k ^ (if u = k then c else 0))).prod = M u ^ c := by
  induction K with
  | nil => cases hu
  | cons a t ih =>
    simp only [List.nodup_cons] at hK
    simp only [List.map_cons, List.prod_cons]
    by_cases h : u = a
    · subst h
      have : (t.map (fun k => M k ^ (if u = k then c else 0))).prod = 1 := by
        have : ∀ k ∈ t, M k ^ (if u = k then c else (0:ℝ)) = 1 := by
          intro k hk
          have : ¬ u = k := fun e => hK.1 (e ▸ hk)
          simp [this]
        rw [List.prod_eq_one]
        intro x hx
        rw [List.mem_map] at hx
        obtain ⟨k, hk, rfl⟩ := hx
        exact this k hk
      rw [this]; simp
    · have hu' : u ∈ t := by
        rcases List.mem_cons.mp hu with h1 | h1
        · exact absurd h1 h
        · exact h1
      rw [ih hK.2 hu']
      simp [h]

/-- `Π_{(u,e)∈l} M u ^ e = Π_{k∈K} M k ^ (total exponent of k in l)` for positive `M` and any
    duplicate-free `K` containing the keys of `l` -/
theorem prod_regroup (M : UnitId → ℝ) (hM : ∀ k, 0 < M k) (l : List (UnitId × Rat)) (K : List UnitId)
    (hK : K.Nodup) (hl : ∀ ue ∈ l, ue.1 ∈ K) :
    (l.map (fun ue => M ue.1 ^ ((ue.2 : ℚ) : ℝ))).prod = (K.map (fun k => M k ^ ((expOf l k : ℚ) : ℝ))).prod := by
  induction l with
  | nil =>
    simp only [List.map_nil, List.prod_nil, expOf, List.sum_nil, Rat.cast_zero, Real.rpow_zero]
    symm
    rw [List.prod_eq_one]
    intro x hx
    rw [List.mem_map] at hx
    obtain ⟨k, _, rfl⟩ := hx
    rfl
  | cons a t ih =>
    obtain ⟨u, e⟩ := a
    have hu : u ∈ K := hl (u, e) (by simp)
    have ht : ∀ ue ∈ t, ue.1 ∈ K := fun ue h => hl ue (List.mem_cons_of_mem _ h)
    simp only [List.map_cons, List.prod_cons]
    rw [ih ht, ← prod_ite_pow M K hK u hu ((e : ℚ) : ℝ), ← List.prod_map_mul]
    congr 1
    apply List.map_congr_left
    intro k _
    simp only [expOf, List.map_cons, List.sum_cons]
    rw [← Real.rpow_add (hM k)]
    congr 1
    by_cases h : u = k <;> simp [h]

/-- two multisets that give every unit the same total exponent have the same factor -/
theorem specFactor_congr (T : Tables) (hM : ∀ k, 0 < keyMag T k) (l1 l2 : List (UnitId × Rat))
    (h : ∀ k, expOf l1 k = expOf l2 k) : specFactor T l1 = specFactor T l2 := by
  let K := (l1.map (·.1) ++ l2.map (·.1)).dedup
  have hK : K.Nodup := List.nodup_dedup _
  have h1 : ∀ ue ∈ l1, ue.1 ∈ K := by
    intro ue hue
    rw [List.mem_dedup, List.mem_append]
    exact Or.inl (List.mem_map_of_mem hue)
  have h2 : ∀ ue ∈ l2, ue.1 ∈ K := by
    intro ue hue
    rw [List.mem_dedup, List.mem_append]
    exact Or.inr (List.mem_map_of_mem hue)
  unfold specFactor
  rw [prod_regroup (keyMag T) hM l1 K hK h1, prod_regroup (keyMag T) hM l2 K hK h2]
  apply congrArg
  apply List.map_congr_left
  intro k _
  rw [h k]

theorem expOf_ratPairs (m : ExpMap) (k : UnitId) : expOf (ratPairs m) k = sumR m k := by
  simp [expOf, ratPairs, sumR, List.map_map, Function.comp_def]

/-! ## positivity of the table magnitudes -/

theorem factPositive_prop {T : Tables} (h : factPositive T = true) :
    (∀ p ∈ T.prefixes, 0 < p.mag) ∧ (∀ u ∈ T.units, 0 < u.mag) ∧ (∀ u ∈ T.sys, 0 < u.mag) := by
  unfold factPositive at h
  simp only [Bool.and_eq_true, List.all_eq_true, decide_eq_true_eq] at h
  exact ⟨fun p hp => h.1.1 p hp, fun u hu => (h.1.2 u hu).1.1, fun u hu => (h.2 u hu).1.1⟩

theorem keyMag_pos (T : Tables) (hpos : factPositive T = true) (k : UnitId) : 0 < keyMag T k := by
  obtain ⟨hp, hu, hs⟩ := factPositive_prop hpos
  unfold keyMag
  have key : 0 < (unitMag T k).getD 1 := by
    cases k with
    | sys n =>
      cases h : T.findSys n with
      | none => simp [unitMag, h]
      | some row => simpa [unitMag, h] using hs row (List.mem_of_find?_eq_some h)
    | std p b =>
      cases h : T.findUnit b with
      | none => simp [unitMag, h]
      | some row =>
        have hr := hu row (List.mem_of_find?_eq_some h)
        by_cases hp0 : p = []
        · simpa [unitMag, h, hp0] using hr
        · cases hq : T.findPrefix p with
          | none => simp [unitMag, h, hp0, hq]
          | some q =>
            have := hp q (List.mem_of_find?_eq_some hq)
            simpa [unitMag, h, hp0, hq] using mul_pos this hr
  exact_mod_cast key

end SciVerif.C03
