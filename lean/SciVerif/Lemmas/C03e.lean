import SciVerif.Lemmas.C03d

/-! # C03 helper lemmas: the dimension vector accumulated by `BaseUnits.__init__` -/
namespace SciVerif.C03

/-- eight entries, no zero denominator -/
def dimsOk (d : List Frac) : Prop := d.length = 8 ∧ ∀ f ∈ d, f.den ≠ 0

/-- every table row has a well-formed dimension vector (part of fact `factPositive`) -/
def tableDimsOk (T : Tables) : Prop := (∀ u ∈ T.units, dimsOk u.dims) ∧ (∀ u ∈ T.sys, dimsOk u.dims)

theorem map_toRat_addDims (a b : List Frac) (ha : ∀ f ∈ a, f.den ≠ 0) (hb : ∀ f ∈ b, f.den ≠ 0) :
    (addDims a b).map Frac.toRat = addRDims (a.map Frac.toRat) (b.map Frac.toRat) := by
  induction a generalizing b with
  | nil => simp [addDims, addRDims]
  | cons x t ih =>
    cases b with
    | nil => simp [addDims, addRDims]
    | cons y s =>
      have hx := ha x (by simp)
      have hy := hb y (by simp)
      have := ih s (fun f hf => ha f (List.mem_cons_of_mem _ hf)) (fun f hf => hb f (List.mem_cons_of_mem _ hf))
      simp only [addDims, addRDims, List.zipWith_cons_cons, List.map_cons] at this ⊢
      rw [this, Frac.toRat_add x y hx hy]

theorem addDims_dens (a b : List Frac) (ha : ∀ f ∈ a, f.den ≠ 0) (hb : ∀ f ∈ b, f.den ≠ 0) :
    ∀ f ∈ addDims a b, f.den ≠ 0 := by
  induction a generalizing b with
  | nil => simp [addDims]
  | cons x t ih =>
    cases b with
    | nil => simp [addDims]
    | cons y s =>
      intro f hf
      simp only [addDims, List.zipWith_cons_cons, List.mem_cons] at hf
      rcases hf with rfl | hf
      · exact Int.mul_ne_zero (ha x (by simp)) (hb y (by simp))
      · exact ih s (fun f hf => ha f (List.mem_cons_of_mem _ hf)) (fun f hf => hb f (List.mem_cons_of_mem _ hf)) f hf

theorem addDims_ok (a b : List Frac) (ha : dimsOk a) (hb : dimsOk b) : dimsOk (addDims a b) :=
  ⟨by simp [addDims, ha.1, hb.1], addDims_dens a b ha.2 hb.2⟩

theorem addRDims_zero_left (D S : List Rat) (h : S.length ≤ D.length) :
    addRDims (D.map (fun d => 0 * d)) S = S := by
  induction S generalizing D with
  | nil => simp [addRDims]
  | cons x t ih =>
    cases D with
    | nil => simp at h
    | cons d s =>
      have := ih s (by simpa using h)
      simp only [addRDims, List.map_cons, List.zipWith_cons_cons] at this ⊢
      rw [this]; simp

theorem addRDims_assoc (a b c : List Rat) : addRDims (addRDims a b) c = addRDims a (addRDims b c) := by
  induction a generalizing b c with
  | nil => simp [addRDims]
  | cons x t ih =>
    cases b with
    | nil => simp [addRDims]
    | cons y s =>
      cases c with
      | nil => simp [addRDims]
      | cons z r =>
        have := ih s r
        simp only [addRDims, List.zipWith_cons_cons] at this ⊢
        rw [this, add_assoc]

theorem addRDims_zero (X D : List Rat) (h : X.length ≤ D.length) :
    addRDims X (D.map (fun d => 0 * d)) = X := by
  induction X generalizing D with
  | nil => simp [addRDims]
  | cons x t ih =>
    cases D with
    | nil => simp at h
    | cons d s =>
      have := ih s (by simpa using h)
      simp only [addRDims, List.map_cons, List.zipWith_cons_cons] at this ⊢
      rw [this]; simp

theorem findUnit_mem (T : Tables) (b : Str) (row : UnitRow) (h : T.findUnit b = some row) : row ∈ T.units :=
  List.mem_of_find?_eq_some h
theorem findSys_mem (T : Tables) (b : Str) (row : SysRow) (h : T.findSys b = some row) : row ∈ T.sys :=
  List.mem_of_find?_eq_some h

/-- `get_unit_base` scales the row's dimension vector by the exponent -/
theorem getUnitBase_dims (T : Tables) (hT : tableDimsOk T) (u : UnitId) (e : Frac)
    (base : Base) (h : getUnitBase T u e = some base) :
    ∃ d0 : List Frac, unitDims T u = some (d0.map Frac.toRat) ∧ dimsOk d0 ∧
      base.dims = d0.map (·.mul e) := by
  unfold getUnitBase at h
  split at h
  · cases h
  · cases u with
    | sys n =>
      simp only at h
      split at h
      · cases h
      · rename_i row hrow
        cases h
        exact ⟨row.dims, by simp [unitDims, hrow], hT.2 row (findSys_mem T n row hrow), rfl⟩
    | std p b =>
      simp only at h
      split at h
      · cases h
      · rename_i row hrow
        have hok := hT.1 row (findUnit_mem T b row hrow)
        split at h
        · cases h; exact ⟨row.dims, by simp [unitDims, hrow], hok, rfl⟩
        · split at h
          · cases h
          · cases h; exact ⟨row.dims, by simp [unitDims, hrow], hok, rfl⟩

theorem scaled_ok (d0 : List Frac) (e : Frac) (h : dimsOk d0) (he : e.den ≠ 0) :
    dimsOk (d0.map (·.mul e)) := by
  refine ⟨by simp [h.1], ?_⟩
  intro f hf
  rw [List.mem_map] at hf
  obtain ⟨g, hg, rfl⟩ := hf
  exact Int.mul_ne_zero (h.2 g hg) he

theorem scaled_toRat (d0 : List Frac) (e : Frac) :
    (d0.map (·.mul e)).map Frac.toRat = (d0.map Frac.toRat).map (fun d => e.toRat * d) := by
  simp only [List.map_map]
  apply List.map_congr_left
  intro f _
  simp [Frac.toRat_mul, mul_comm]

theorem unitDims_length (T : Tables) (hT : tableDimsOk T) (u : UnitId) :
    ((unitDims T u).getD zeroRDims).length = 8 := by
  cases u with
  | sys n =>
    cases h : T.findSys n with
    | none => simp [unitDims, h, zeroRDims]
    | some row => simp [unitDims, h, (hT.2 row (findSys_mem T n row h)).1]
  | std p b =>
    cases h : T.findUnit b with
    | none => simp [unitDims, h, zeroRDims]
    | some row => simp [unitDims, h, (hT.1 row (findUnit_mem T b row h)).1]

theorem specDims_length (T : Tables) (hT : tableDimsOk T) (l : List (UnitId × Rat)) :
    (specDims T l).length = 8 := by
  induction l with
  | nil => simp [specDims, zeroRDims]
  | cons x t ih =>
    obtain ⟨u, e⟩ := x
    simp [specDims, addRDims, ih, unitDims_length T hT u]

/-- the loop of `BaseUnits.__init__`: the accumulated dimension vector is the start value plus
    `Σ e·dim(u)` over all dict entries -/
theorem baseUnitsLoop_dims (T : Tables) (hT : tableDimsOk T) (m : ExpMap) (acc b : BaseUnits)
    (hm : densOk m) (hacc : dimsOk acc.dims) (h : baseUnitsLoop T m acc = some b) :
    b.dims.map Frac.toRat =
      addRDims (acc.dims.map Frac.toRat) (specDims T (m.map (fun ue => (ue.1, ue.2.toRat)))) ∧
    dimsOk b.dims := by
  induction m generalizing acc with
  | nil =>
    simp only [baseUnitsLoop, Option.some.injEq] at h
    subst h
    refine ⟨?_, hacc⟩
    have hz := addRDims_zero (acc.dims.map Frac.toRat) zeroRDims (by simp [zeroRDims, hacc.1])
    simp only [List.map_nil, specDims]
    have hz0 : zeroRDims.map (fun d => (0 : Rat) * d) = zeroRDims := by simp [zeroRDims]
    rw [hz0] at hz
    exact hz.symm
  | cons x rest ih =>
    obtain ⟨u, e⟩ := x
    have he : e.den ≠ 0 := hm (u, e) (by simp)
    have hrest : densOk rest := fun y hy => hm y (List.mem_cons_of_mem _ hy)
    simp only [baseUnitsLoop] at h
    simp only [List.map_cons, specDims]
    split at h
    · rename_i hz
      obtain ⟨e1, d1⟩ := ih acc hrest hacc h
      refine ⟨?_, d1⟩
      rw [e1]
      have : e.toRat = 0 := by simp [Frac.toRat, hz]
      rw [this]
      have hl := unitDims_length T hT u
      have hs := specDims_length T hT (rest.map fun ue => (ue.1, ue.2.toRat))
      rw [addRDims_zero_left _ _ (by rw [hl, hs])]
    · split at h
      · cases h
      · rename_i base hbase
        obtain ⟨d0, hd0, hok0, hdims⟩ := getUnitBase_dims T hT u e base hbase
        have hbok : dimsOk base.dims := by rw [hdims]; exact scaled_ok d0 e hok0 he
        obtain ⟨e1, d1⟩ := ih _ hrest (addDims_ok acc.dims base.dims hacc hbok) h
        refine ⟨?_, d1⟩
        rw [e1]
        simp only
        rw [map_toRat_addDims acc.dims base.dims hacc.2 hbok.2, addRDims_assoc, hdims, scaled_toRat, hd0]
        rfl

end SciVerif.C03
