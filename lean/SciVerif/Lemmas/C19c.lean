import SciVerif.Lemmas.C19b
/-!
# C19 — typed values: print, read back with the machine, interpret
-/
namespace SciVerif.C19

mutual
def tokTree (st : Style) : Val → TokTree
  | .leaf s => .leaf (printScalar st s)
  | .arr vs => .arr (tokTrees st vs)
def tokTrees (st : Style) : List Val → List TokTree
  | [] => []
  | v :: vs => tokTree st v :: tokTrees st vs
end

/-- a scalar that belongs to kind `k` (a float is carried as the non-empty `str(float)` text;
    strings are arbitrary) -/
def ScalarOK (k : Kind) : Scalar → Prop
  | .b _ => k = Kind.bool
  | .i _ => k = Kind.int ∨ k = Kind.uint
  | .f t => k = Kind.float ∧ t ≠ [] ∧ t.all floatChar = true
  | .s _ => k = Kind.str

mutual
def ValOK (k : Kind) : Val → Prop
  | .leaf s => ScalarOK k s
  | .arr vs => ValsOK k vs
def ValsOK (k : Kind) : List Val → Prop
  | [] => True
  | v :: vs => ValOK k v ∧ ValsOK k vs
end

mutual
theorem printVal_eq (st : Style) (o c : Char) (ho : st.opn = [o]) (hc : st.cls = [c]) :
    (v : Val) → printVal st v = printTok o c (tokTree st v)
  | .leaf s => by simp [printVal, tokTree, printTok]
  | .arr vs => by simp [printVal, tokTree, printTok, ho, hc, printVals_eq st o c ho hc vs]
theorem printVals_eq (st : Style) (o c : Char) (ho : st.opn = [o]) (hc : st.cls = [c]) :
    (vs : List Val) → printVals st vs = printToks o c (tokTrees st vs)
  | [] => by simp [printVals, tokTrees, printToks]
  | [v] => by simp [printVals, tokTrees, printToks, printVal_eq st o c ho hc v]
  | v :: w :: vs => by
    have h1 := printVal_eq st o c ho hc v
    have h2 := printVals_eq st o c ho hc (w :: vs)
    simp only [printVals, tokTrees, printToks, h1]
    simp only [tokTrees] at h2
    rw [h2]
end

theorem floatChar_digit : ∀ d : Fin 10, floatChar (digitChar d.val) = true := by decide

theorem showNat_floatChars (n : Nat) : ∀ ch ∈ showNat n, floatChar ch = true := by
  intro ch h
  unfold showNat at h
  simp only [List.mem_map, List.mem_reverse] at h
  obtain ⟨d, hd, rfl⟩ := h
  exact floatChar_digit ⟨d, digitsLE_lt _ _ d hd⟩

theorem showInt_floatChars (i : Int) : ∀ ch ∈ showInt i, floatChar ch = true := by
  cases i with
  | ofNat n => exact showNat_floatChars n
  | negSucc n =>
    intro ch h
    simp only [showInt, List.mem_cons] at h
    rcases h with rfl | h
    · decide
    · exact showNat_floatChars _ ch h

theorem showInt_ne_nil (i : Int) : showInt i ≠ [] := by
  cases i with
  | ofNat n => obtain ⟨c, cs, h, _⟩ := showNat_head n; simp [showInt, h]
  | negSucc n => simp [showInt]

/-- what a style must satisfy for the bracket pair it is read with -/
structure StyleOK (st : Style) (o c : Char) : Prop where
  good : Good o c
  opn : st.opn = [o]
  cls : st.cls = [c]
  ne : st.tru ≠ st.fls
  tru : SafeTok st.q o c st.tru
  fls : SafeTok st.q o c st.fls
  fc : ∀ ch, floatChar ch = true → plainChar o c ch

theorem safe_scalar (st : Style) (o c : Char) (ok : StyleOK st o c) (k : Kind) (s : Scalar)
    (h : ScalarOK k s) : SafeTok st.q o c (printScalar st s) := by
  cases s with
  | b v => cases v <;> simp [printScalar, ok.tru, ok.fls]
  | i v => exact SafeTok.bare _ (showInt_ne_nil v) (fun ch hch => ok.fc ch (showInt_floatChars v ch hch))
  | f t =>
    obtain ⟨_, hne, hall⟩ := h
    exact SafeTok.bare _ hne (fun ch hch => ok.fc ch (List.all_eq_true.mp hall ch hch))
  | s v => exact SafeTok.quoted v

mutual
theorem safe_tree (st : Style) (o c : Char) (ok : StyleOK st o c) (k : Kind) :
    (v : Val) → ValOK k v → SafeTree st.q o c (tokTree st v)
  | .leaf s, h => by
    simp only [tokTree, SafeTree]
    exact safe_scalar st o c ok k s (by simpa [ValOK] using h)
  | .arr vs, h => by
    simp only [tokTree, SafeTree]
    exact safe_trees st o c ok k vs (by simpa [ValOK] using h)
theorem safe_trees (st : Style) (o c : Char) (ok : StyleOK st o c) (k : Kind) :
    (vs : List Val) → ValsOK k vs → SafeTrees st.q o c (tokTrees st vs)
  | [], _ => by simp [tokTrees, SafeTrees]
  | v :: vs, h => by
    simp only [tokTrees, SafeTrees]
    exact ⟨safe_tree st o c ok k v h.1, safe_trees st o c ok k vs h.2⟩
end

/-- decoding the literal body the exporter writes gives back the string, for EVERY string -/
theorem unescGo_escStr (q : Quoting) : ∀ v : Str, unescGo q .normal (escStr q v ++ ['"']) = some v
  | [] => by simp [escStr_nil, unescGo]
  | ch :: v => by
    have ih := unescGo_escStr q v
    rw [escStr_cons]
    cases q with
    | backslash =>
      by_cases h1 : ch = '\\'
      · subst h1; simp [escChar, unescGo, ih]
      · by_cases h2 : ch = '"'
        · subst h2; simp [escChar, unescGo, ih]
        · simp [escChar, unescGo, ih, h1, h2]
    | doubled =>
      by_cases h2 : ch = '"'
      · subst h2; simp [escChar, unescGo, ih]
      · simp [escChar, unescGo, ih, h2]

theorem unescBody_escStr (q : Quoting) (v : Str) : unescBody q (escStr q v ++ ['"']) = some v :=
  unescGo_escStr q v

theorem unquote_quote (q : Quoting) (v : Str) : unquote q (quoteStr q v) = some v := by
  simp [unquote, quoteStr, unescBody_escStr]

theorem readScalar_print (st : Style) (hne : st.tru ≠ st.fls) (k : Kind) (s : Scalar) (h : ScalarOK k s) :
    readScalar st.q k st.tru st.fls (printScalar st s) = some s := by
  cases s with
  | b v =>
    have hk : k = Kind.bool := h
    subst hk
    cases v
    · simp [readScalar, printScalar, Ne.symm hne]
    · simp [readScalar, printScalar]
  | i v =>
    rcases h with hk | hk <;> subst hk <;> simp [readScalar, printScalar, readInt_showInt]
  | f t =>
    obtain ⟨hk, hne', hall⟩ := h
    subst hk
    simp only [readScalar, printScalar, hall]
    simp [hne']
  | s v =>
    have hk : k = Kind.str := h
    subst hk
    simp only [readScalar, printScalar, unquote_quote]
    rfl

mutual
theorem interp_tokTree (st : Style) (hne : st.tru ≠ st.fls) (k : Kind) :
    (v : Val) → ValOK k v → interp st.q k st.tru st.fls (tokTree st v) = some v
  | .leaf s, h => by
    simp [tokTree, interp, readScalar_print st hne k s (by simpa [ValOK] using h)]
  | .arr vs, h => by
    simp [tokTree, interp, interp_tokTrees st hne k vs (by simpa [ValOK] using h)]
theorem interp_tokTrees (st : Style) (hne : st.tru ≠ st.fls) (k : Kind) :
    (vs : List Val) → ValsOK k vs → interpList st.q k st.tru st.fls (tokTrees st vs) = some vs
  | [], _ => by simp [tokTrees, interpList]
  | v :: vs, h => by
    simp [tokTrees, interpList, interp_tokTree st hne k v h.1, interp_tokTrees st hne k vs h.2]
end

/-- print a typed nested value, read it with the machine, interpret the tokens: identity -/
theorem roundtrip_val (st : Style) (o c : Char) (ok : StyleOK st o c) (k : Kind) (v : Val) (hv : ValOK k v) :
    (parseInit st.q o c (printVal st v)).bind (interp st.q k st.tru st.fls) = some v := by
  rw [printVal_eq st o c ok.opn ok.cls v, parseInit_printTok st.q o c ok.good _ (safe_tree st o c ok k v hv)]
  simp [interp_tokTree st ok.ne k v hv]

theorem plain_of_floatChar_brace : ∀ ch, floatChar ch = true → plainChar '{' '}' ch := by
  intro ch h
  refine ⟨?_, ?_, ?_, ?_, ?_⟩ <;> (intro e; subst e; revert h; decide)

theorem plain_of_floatChar_bracket : ∀ ch, floatChar ch = true → plainChar '[' ']' ch := by
  intro ch h
  refine ⟨?_, ?_, ?_, ?_, ?_⟩ <;> (intro e; subst e; revert h; decide)

theorem styleC_ok : StyleOK styleC '{' '}' where
  good := good_brace
  opn := rfl
  cls := rfl
  ne := by decide
  tru := SafeTok.bare _ (by decide) (by simp [styleC, plainChar])
  fls := SafeTok.bare _ (by decide) (by simp [styleC, plainChar])
  fc := plain_of_floatChar_brace

theorem styleRust_ok : StyleOK styleRust '[' ']' where
  good := good_bracket
  opn := rfl
  cls := rfl
  ne := by decide
  tru := SafeTok.bare _ (by decide) (by simp [styleRust, plainChar])
  fls := SafeTok.bare _ (by decide) (by simp [styleRust, plainChar])
  fc := plain_of_floatChar_bracket

end SciVerif.C19
