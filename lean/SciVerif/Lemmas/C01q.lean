import SciVerif.Lemmas.C01p

/-!
# C01 helper lemmas, part 17 (character level): the tokeniser loop on the text of an item list
  FOLLOWED BY more text (continuation form of `tok_items`), and the arity rejection of a call
  that comes after a well-formed prefix.
-/
namespace SciVerif.C01
open SciVerif.C01.Gen

variable {A : Type} (alg : AtomAlg A) (lit : List Char → A)
variable (sa : Bufs A → List Char → Bufs A × Except String (Tok A))

/-- the text after an operator symbol does not extend the symbol (with a continuation) -/
theorem safeHead_rest' (a : LItem) (rest : List LItem) (u2 tail : List Char)
    (hopr : a.isOpr = true) (hadj : Adj (a :: rest)) (hok : ∀ it ∈ rest, ItemOK alg lit sa it)
    (hu : Pre (rest.flatMap itemLex) u2) (ht : SafeHead tail) : SafeHead (u2 ++ tail) := by
  cases rest with
  | nil =>
    have hu0 : u2 = [] := Pre.nil_inv (by simpa using hu)
    subst hu0
    simpa using ht
  | cons b r =>
    obtain ⟨tl, htl⟩ := itemLex_cons b
    simp only [List.flatMap_cons, htl, List.cons_append] at hu
    obtain ⟨j, s, rfl, _⟩ := Pre.cons_inv hu
    have hb := (hadj.1).2 hopr
    have hne := firstLex_ne_nil alg lit sa b (hok b (by simp))
    simp only [List.append_assoc]
    exact safeHead_blanks j _ (hb.append hne _)

/-- Continuation form of `tok_items`: if the tokeniser loop raises `msg` on `tail` from every
    state with a pending literal or pending blanks, it raises `msg` on the text of any admissible
    item list followed by `tail`. -/
theorem tok_items_err (tail : List Char) (msg : String) (hsafe : SafeHead tail)
    (H : ∀ (m : Nat) (lw p : List Char) (b : Bufs A), Pending alg lit lw p → tail.length + 1 ≤ m →
      ∃ bb, tokLoop dflt alg sa m ⟨lw, tail⟩ b = .error (bb, msg))
    (its : List LItem) :
    Adj its → (∀ it ∈ its, ItemOK alg lit sa it) →
    ∀ (lw p u : List Char) (b : Bufs A) (n : Nat),
      Pending alg lit lw p → (p ≠ [] → ∀ it, its.head? = some it → it.isLit = false) →
      Pre (its.flatMap itemLex) u → u.length + tail.length + 1 ≤ n →
      ∃ bb, tokLoop dflt alg sa n ⟨lw, u ++ tail⟩ b = .error (bb, msg) := by
  induction its with
  | nil =>
    intro _ _ lw p u b n hpend _ hu hn
    have hu0 : u = [] := Pre.nil_inv (by simpa using hu)
    subst hu0
    simp only [List.nil_append]
    exact H n lw p b hpend (by simpa using hn)
  | cons it rest ih =>
    intro hadj hok lw p u b n hpend hhead hu hn
    have hadj' : Adj rest := by
      cases rest with
      | nil => trivial
      | cons b r => exact hadj.2
    have hok' : ∀ x ∈ rest, ItemOK alg lit sa x := fun x hx => hok x (by simp [hx])
    simp only [List.flatMap_cons] at hu
    obtain ⟨u1, u2, rfl, hu1, hu2⟩ := Pre.append_inv hu
    cases it with
    | lit t =>
      obtain ⟨j, rfl⟩ := Pre.single_inv (by simpa [itemLex] using hu1)
      have hp : p = [] := by
        by_cases hp : p = []
        · exact hp
        · have := hhead hp (.lit t) rfl
          simp [LItem.isLit] at this
      subst hp
      have hit := hok (.lit t) (by simp)
      have hgood := litSafe_good t hit.1
      simp only [List.length_append, blanks_length] at hn
      obtain ⟨m, rfl⟩ : ∃ m, n = (m + t.length) + j := ⟨n - j - t.length, by omega⟩
      rw [show blanks j ++ t ++ u2 ++ tail = blanks j ++ (t ++ (u2 ++ tail)) by simp,
        tokLoop_blanks, tokLoop_lit alg sa t hgood.2.2.1]
      have hpend' : Pending alg lit (lw ++ blanks j ++ t) t := by
        obtain ⟨⟨a, a', e⟩, _⟩ := hpend
        refine ⟨⟨a + a' + j, 0, ?_⟩, Or.inr hit⟩
        rw [e]; simp [blanks]
      exact ih hadj' hok' _ t u2 b m hpend' (fun _ x hx => by
          cases rest with
          | nil => simp at hx
          | cons y r =>
            simp only [List.head?_cons, Option.some.injEq] at hx
            subst hx
            exact hadj.1.1 rfl) hu2 (by omega)
    | opr kk =>
      obtain ⟨j, rfl⟩ := Pre.single_inv (by simpa [itemLex] using hu1)
      have hsym := oprSym_props kk
      simp only [List.length_append, blanks_length] at hn
      have hlen : 0 < kk.sym.length := List.length_pos_iff.mpr hsym.1.1
      obtain ⟨m, rfl⟩ : ∃ m, n = (m + 1) + j := ⟨n - j - 1, by omega⟩
      have hsafe' := safeHead_rest' alg lit sa (.opr kk) rest u2 tail rfl hadj hok' hu2 hsafe
      rw [show blanks j ++ kk.sym ++ u2 ++ tail = blanks j ++ (kk.sym ++ (u2 ++ tail)) by simp,
        tokLoop_blanks,
        tokLoop_op alg sa (sym_facts kk) hsym.1.1 m _ _ b _ hsafe'
          (pushAtom_pending alg lit (hpend.blanks alg lit j) b)]
      exact ih hadj' hok' [] [] u2 _ m (pending_nil alg lit) (fun h => absurd rfl h) hu2 (by omega)
    | call1 f a =>
      simp only [itemLex] at hu1
      obtain ⟨u12, u3, rfl, h12, h3⟩ := Pre.append_inv hu1
      obtain ⟨u1', ua, rfl, h1, ha⟩ := Pre.append_inv h12
      obtain ⟨j, rfl⟩ := Pre.single_inv h1
      obtain ⟨jc, rfl⟩ := Pre.single_inv h3
      have hsym := f1Sym_props f
      have harg : ArgOK alg lit sa a := hok (.call1 f a) (by simp)
      simp only [List.length_append, blanks_length, List.length_cons, List.length_nil] at hn
      have hlen : 0 < f.sym.length := List.length_pos_iff.mpr hsym.1.1
      obtain ⟨m, rfl⟩ : ∃ m, n = (m + 1) + j := ⟨n - j - 1, by omega⟩
      have hw : nest (ua ++ blanks jc) 0 = some 0 := by
        rw [nest_append, nest_text alg lit a harg.1 ua ha 0]; exact nest_blanks jc 0
      have hscan := scan_last 1 (ua ++ blanks jc) (u2 ++ tail) [] [] hw
      have hsafe' : SafeHead ((ua ++ blanks jc) ++ ')' :: (u2 ++ tail)) := by
        rw [List.append_assoc]; exact safeHead_text alg lit a harg.1 ua _ ha
      rw [show blanks j ++ f.sym ++ ua ++ (blanks jc ++ [')']) ++ u2 ++ tail
            = blanks j ++ (f.sym ++ ((ua ++ blanks jc) ++ ')' :: (u2 ++ tail))) by simp,
        tokLoop_blanks,
        tokLoop_call alg sa (fact_fn1 f) hsym.1.1 m _ _ (u2 ++ tail) b _ _ [some (eval alg lit a)]
          hsafe' (pushAtom_pending alg lit (hpend.blanks alg lit j) b) (by simpa using hscan) rfl
          (solveArgs_one sa _ _ _ (fun st => by simpa using harg.2 ua jc st ha))]
      exact ih hadj' hok' [] [] u2 _ m (pending_nil alg lit) (fun h => absurd rfl h) hu2 (by omega)
    | call2 g a c =>
      simp only [itemLex] at hu1
      obtain ⟨u1234, u5, rfl, h1234, h5⟩ := Pre.append_inv hu1
      obtain ⟨u123, uc, rfl, h123, hc⟩ := Pre.append_inv h1234
      obtain ⟨u12, u3, rfl, h12, h3⟩ := Pre.append_inv h123
      obtain ⟨u1', ua, rfl, h1, ha⟩ := Pre.append_inv h12
      obtain ⟨j, rfl⟩ := Pre.single_inv h1
      obtain ⟨js, rfl⟩ := Pre.single_inv h3
      obtain ⟨jc, rfl⟩ := Pre.single_inv h5
      have hsym := f2Sym_props g
      have harg : ArgOK alg lit sa a ∧ ArgOK alg lit sa c := hok (.call2 g a c) (by simp)
      simp only [List.length_append, blanks_length, List.length_cons, List.length_nil] at hn
      have hlen : 0 < g.sym.length := List.length_pos_iff.mpr hsym.1.1
      obtain ⟨m, rfl⟩ : ∃ m, n = (m + 1) + j := ⟨n - j - 1, by omega⟩
      have hwa : nest (ua ++ blanks js) 0 = some 0 := by
        rw [nest_append, nest_text alg lit a harg.1.1 ua ha 0]; exact nest_blanks js 0
      have hwc : nest (uc ++ blanks jc) 0 = some 0 := by
        rw [nest_append, nest_text alg lit c harg.2.1 uc hc 0]; exact nest_blanks jc 0
      have hscan : parScan (stdPar 2)
          (((ua ++ blanks js) ++ ',' :: ((uc ++ blanks jc) ++ ')' :: (u2 ++ tail))).length + 1) 1
          ⟨[], (ua ++ blanks js) ++ ',' :: ((uc ++ blanks jc) ++ ')' :: (u2 ++ tail))⟩ []
          = some (⟨[], u2 ++ tail⟩, [strip (ua ++ blanks js), strip (uc ++ blanks jc)]) := by
        have e : ((ua ++ blanks js) ++ ',' :: ((uc ++ blanks jc) ++ ')' :: (u2 ++ tail))).length + 1
            = (((uc ++ blanks jc) ++ ')' :: (u2 ++ tail)).length + 1) + 1 + (ua ++ blanks js).length := by
          simp; omega
        rw [e, scan_sep 2 _ (ua ++ blanks js) _ [] [] hwa,
          scan_last 2 (uc ++ blanks jc) (u2 ++ tail) [] _ hwc]
        simp
      have hsafe' : SafeHead ((ua ++ blanks js) ++ ',' :: ((uc ++ blanks jc) ++ ')' :: (u2 ++ tail))) := by
        rw [List.append_assoc]; exact safeHead_text alg lit a harg.1.1 ua _ ha
      rw [show blanks j ++ g.sym ++ ua ++ (blanks js ++ [',']) ++ uc ++ (blanks jc ++ [')']) ++ u2 ++ tail
            = blanks j ++ (g.sym ++ ((ua ++ blanks js) ++ ',' :: ((uc ++ blanks jc) ++ ')' :: (u2 ++ tail))))
            by simp,
        tokLoop_blanks,
        tokLoop_call alg sa (fact_fn2 g) hsym.1.1 m _ _ (u2 ++ tail) b _ _
          [some (eval alg lit a), some (eval alg lit c)]
          hsafe' (pushAtom_pending alg lit (hpend.blanks alg lit j) b) hscan rfl
          (solveArgs_two sa _ _ _ _ _ (fun st => harg.1.2 ua js st ha) (fun st => harg.2.2 uc jc st hc))]
      exact ih hadj' hok' [] [] u2 _ m (pending_nil alg lit) (fun h => absurd rfl h) hu2 (by omega)

theorem call_safeHead (c : Call) : SafeHead c.sym := by
  cases c with
  | f1 f => exact (f1Sym_props f).2.1
  | f2 g => exact (f2Sym_props g).2.1

/-- the tokeniser loop raises "arity" at a call with the wrong number of arguments, whatever
    literal or blanks are pending on the left -/
theorem tokLoop_arity_pending (c : Call) (Ts : List (List Char)) (hne : Ts ≠ [])
    (hb : ∀ T ∈ Ts, nest T 0 = some 0) (hk : Ts.length ≠ c.narg) (j : Nat) (rest : List Char)
    (m : Nat) (lw p : List Char) (b : Bufs A) (hpend : Pending alg lit lw p)
    (hm : (blanks j ++ (c.sym ++ (joinArgs Ts ++ ')' :: rest))).length + 1 ≤ m) :
    ∃ bb, tokLoop dflt alg sa m ⟨lw, blanks j ++ (c.sym ++ (joinArgs Ts ++ ')' :: rest))⟩ b
      = .error (bb, "arity") := by
  obtain ⟨hf, hnc, hsne⟩ := call_facts c
  have hscan := scan_args c.narg Ts hne hb rest []
  simp only [List.length_append, blanks_length] at hm
  obtain ⟨q, rfl⟩ : ∃ q, m = (q + 1) + j := ⟨m - j - 1, by omega⟩
  rw [tokLoop_blanks,
    tokLoop_call_arity alg sa hf hnc hsne _ _ _ _ _ _ _
      (pushAtom_pending alg lit (hpend.blanks alg lit j) b) (by simpa using hscan) (by simpa using hk)]
  exact ⟨_, rfl⟩

/-- A call with the wrong number of arguments AFTER a well-formed prefix -- a well-formed
    expression framed by operator symbols, e.g. `e o` --: `solve` raises "arity". -/
theorem solve_arity_after (hn : NegNeg alg) (e : E) (hwf : e.WF) (hl : LitOK alg lit e)
    (pre post : List LItem) (hpre : OprOnly pre) (hpost : OprOnly post)
    (hadj : Adj (pre ++ items e ++ post)) (u : List Char)
    (hu : Pre ((pre ++ items e ++ post).flatMap itemLex) u)
    (c : Call) (Ts : List (List Char)) (hne : Ts ≠ [])
    (hb : ∀ T ∈ Ts, nest T 0 = some 0) (hk : Ts.length ≠ c.narg) (j : Nat) (rest : List Char) :
    solve dflt alg dfltSteps (u ++ (blanks j ++ (c.sym ++ (joinArgs Ts ++ ')' :: rest))))
      = .error "arity" := by
  generalize htail : blanks j ++ (c.sym ++ (joinArgs Ts ++ ')' :: rest)) = tail
  have hlen : (lexemes e).length ≤ u.length := by
    have h1 := Pre.length_le hu (fun x hx => by
      simp only [List.flatMap_append, List.mem_append, List.mem_flatMap] at hx
      rcases hx with (⟨it, hit, hx⟩ | ⟨it, hit, hx⟩) | ⟨it, hit, hx⟩
      · exact oprLex_ne_nil it (hpre it hit) x hx
      · have : x ∈ lexemes e := by rw [lexemes_items]; exact List.mem_flatMap.mpr ⟨it, hit, hx⟩
        exact (lexemes_good alg lit e hl x this).1
      · exact oprLex_ne_nil it (hpost it hit) x hx)
    have h2 : (lexemes e).length ≤ ((pre ++ items e ++ post).flatMap itemLex).length := by
      rw [lexemes_items]; simp; omega
    omega
  have hd : cdepth e ≤ (u ++ tail).length := by
    have := cdepth_le_lexemes e; simp; omega
  have hargs := args_of_depth alg lit hn e hwf hl _ hd
  have hok : ∀ it ∈ pre ++ items e ++ post,
      ItemOK alg lit (nestedSolve alg (u ++ tail).length) it := by
    intro it hit
    simp only [List.mem_append] at hit
    rcases hit with (hit | hit) | hit
    · exact itemOK_opr alg lit _ it (hpre it hit)
    · exact itemOK_items alg lit _ e hl hargs it hit
    · exact itemOK_opr alg lit _ it (hpost it hit)
  have hsafe : SafeHead tail := by
    rw [← htail]
    exact safeHead_blanks j _ ((call_safeHead c).append (call_facts c).2.2 _)
  obtain ⟨bb, hbb⟩ := tok_items_err alg lit (nestedSolve alg (u ++ tail).length) tail "arity" hsafe
    (fun m lw p b hpend hm => by
      subst htail
      exact tokLoop_arity_pending alg lit _ c Ts hne hb hk j rest m lw p b hpend hm)
    _ hadj hok [] [] u ⟨[], []⟩ ((u ++ tail).length + 1) (pending_nil alg lit)
    (fun h => absurd rfl h) hu (by simp)
  unfold nestedSolve at hbb
  unfold solve solveI solveFrom resetBufs
  simp only [solveFromF, hbb]

end SciVerif.C01
