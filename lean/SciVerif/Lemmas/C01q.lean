import SciVerif.Lemmas.C01p

/-!
# C01 helper lemmas, part 17 (character level): the tokeniser loop on the text of an item list
  FOLLOWED BY more text (continuation form of `tok_items`), and the arity rejection of a call
  that comes after a well-formed prefix.
-/
namespace SciVerif.C01
open SciVerif.C01.Gen

variable {A : Type} (alg : AtomAlg A) (lit : List Char → A)
variable (sa : Bufs A → List Char → Bufs A × Except String (Tok A))

/-- the text after an operator symbol does not extend the symbol (with a continuation) -/
theorem safeHead_rest' (a : LItem) (rest : List LItem) (u2 tail : List Char)
    (hopr : a.isOpr = true) (hadj : Adj (a :: rest)) (hok : ∀ it ∈ rest, ItemOK alg lit sa it)
    (hu : Pre (rest.flatMap itemLex) u2) (ht : SafeHead tail) : SafeHead (u2 ++ tail) := by
  cases rest with
  | nil =>
    have hu0 : u2 = [] := Pre.nil_inv (by simpa using hu)
    subst hu0
    simpa using ht
  | cons b r =>
    obtain ⟨tl, htl⟩ := itemLex_cons b
    simp only [List.flatMap_cons, htl, List.cons_append] at hu
    obtain ⟨j, s, rfl, _⟩ := Pre.cons_inv hu
    have hb := (hadj.1).2 hopr
    have hne := firstLex_ne_nil alg lit sa b (hok b (by simp))
    simp only [List.append_assoc]
    exact safeHead_blanks j _ (hb.append hne _)

/-- Continuation form of `tok_items`: if the tokeniser loop raises `msg` on `tail` from every
    state with a pending literal or pending blanks, it raises `msg` on the text of any admissible
    item list followed by `tail`. -/
theorem tok_items_err (tail : List Char) (msg : String) (hsafe : SafeHead tail)
    (H : ∀ (m : Nat) (lw p : List Char) (b : Bufs A), Pending alg lit lw p → tail.length + 1 ≤ m →
      ∃ bb, tokLoop dflt alg sa m ⟨lw, tail⟩ b = .error (bb, msg))
    (its : List LItem) :
    Adj its → (∀ it ∈ its, ItemOK alg lit sa it) →
    ∀ (lw p u : List Char) (b : Bufs A) (n : Nat),
      Pending alg lit lw p → (p ≠ [] → ∀ it, its.head? = some it → it.isLit = false) →
      Pre (its.flatMap itemLex) u → u.length + tail.length + 1 ≤ n →
      ∃ bb, tokLoop dflt alg sa n ⟨lw, u ++ tail⟩ b = .error (bb, msg) := by
  induction its with
  | nil =>
    intro _ _ lw p u b n hpend _ hu hn
    have hu0 : u = [] := Pre.nil_inv (by simpa using hu)
    subst hu0
    simp only [List.nil_append]
    exact H n lw p b hpend (by simpa using hn)
  | cons it rest ih =>
    intro hadj hok lw p u b n hpend hhead hu hn
    have hadj' : Adj rest := by
      cases rest with
      | nil => trivial
      | cons b r => exact hadj.2
    have hok' : ∀ x ∈ rest, ItemOK alg lit sa x := fun x hx => hok x (by simp [hx])
    simp only [List.flatMap_cons] at hu
    obtain ⟨u1, u2, rfl, hu1, hu2⟩ := Pre.append_inv hu
    cases it with
    | lit t =>
      obtain ⟨j, rfl⟩ := Pre.single_inv (by simpa [itemLex] using hu1)
      have hp : p = [] := by
        by_cases hp : p = []
        · exact hp
        · have := hhead hp (.lit t) rfl
          simp [LItem.isLit] at this
      subst hp
      have hit := hok (.lit t) (by simp)
      have hgood := litSafe_good t hit.1
      simp only [List.length_append, blanks_length] at hn
      obtain ⟨m, rfl⟩ : ∃ m, n = (m + t.length) + j := ⟨n - j - t.length, by omega⟩
      rw [show blanks j ++ t ++ u2 ++ tail = blanks j ++ (t ++ (u2 ++ tail)) by simp,
        tokLoop_blanks, tokLoop_lit alg sa t hgood.2.2.1]
      have hpend' : Pending alg lit (lw ++ blanks j ++ t) t := by
        obtain ⟨⟨a, a', e⟩, _⟩ := hpend
        refine ⟨⟨a + a' + j, 0, ?_⟩, Or.inr hit⟩
        rw [e]; simp [blanks]
      exact ih hadj' hok' _ t u2 b m hpend' (fun _ x hx => by
          cases rest with
          | nil => simp at hx
          | cons y r =>
            simp only [List.head?_cons, Option.some.injEq] at hx
            subst hx
            exact hadj.1.1 rfl) hu2 (by omega)
    | opr kk =>
      obtain ⟨j, rfl⟩ := Pre.single_inv (by simpa [itemLex] using hu1)
      have hsym := oprSym_props kk
      simp only [List.length_append, blanks_length] at hn
      have hlen : 0 < kk.sym.length := List.length_pos_iff.mpr hsym.1.1
      obtain ⟨m, rfl⟩ : ∃ m, n = (m + 1) + j := ⟨n - j - 1, by omega⟩
      have hsafe' := safeHead_rest' alg lit sa (.opr kk) rest u2 tail rfl hadj hok' hu2 hsafe
      rw [show blanks j ++ kk.sym ++ u2 ++ tail = blanks j ++ (kk.sym ++ (u2 ++ tail)) by simp,
        tokLoop_blanks,
        tokLoop_op alg sa (sym_facts kk) hsym.1.1 m _ _ b _ hsafe'
          (pushAtom_pending alg lit (hpend.blanks alg lit j) b)]
      exact ih hadj' hok' [] [] u2 _ m (pending_nil alg lit) (fun h => absurd rfl h) hu2 (by omega)
    | call1 f a =>
      simp only [itemLex] at hu1
      obtain ⟨u12, u3, rfl, h12, h3⟩ := Pre.append_inv hu1
      obtain ⟨u1', ua, rfl, h1, ha⟩ := Pre.append_inv h12
      obtain ⟨j, rfl⟩ := Pre.single_inv h1
      obtain ⟨jc, rfl⟩ := Pre.single_inv h3
      have hsym := f1Sym_props f
      have harg : ArgOK alg lit sa a := hok (.call1 f a) (by simp)
      simp only [List.length_append, blanks_length, List.length_cons, List.length_nil] at hn
      have hlen : 0 < f.sym.length := List.length_pos_iff.mpr hsym.1.1
      obtain ⟨m, rfl⟩ : ∃ m, n = (m + 1) + j := ⟨n - j - 1, by omega⟩
      have hw : nest (ua ++ blanks jc) 0 = some 0 := by
        rw [nest_append, nest_text alg lit a harg.1 ua ha 0]; exact nest_blanks jc 0
      have hscan := scan_last 1 (ua ++ blanks jc) (u2 ++ tail) [] [] hw
      have hsafe' : SafeHead ((ua ++ blanks jc) ++ ')' :: (u2 ++ tail)) := by
        rw [List.append_assoc]; exact safeHead_text alg lit a harg.1 ua _ ha
      rw [show blanks j ++ f.sym ++ ua ++ (blanks jc ++ [')']) ++ u2 ++ tail
            = blanks j ++ (f.sym ++ ((ua ++ blanks jc) ++ ')' :: (u2 ++ tail))) by simp,
        tokLoop_blanks,
        tokLoop_call alg sa (fact_fn1 f) hsym.1.1 m _ _ (u2 ++ tail) b _ _ [some (eval alg lit a)]
          hsafe' (pushAtom_pending alg lit (hpend.blanks alg lit j) b) (by simpa using hscan) rfl
          (solveArgs_one sa _ _ _ (fun st => by simpa using harg.2 ua jc st ha))]
      exact ih hadj' hok' [] [] u2 _ m (pending_nil alg lit) (fun h => absurd rfl h) hu2 (by omega)
    | call2 g a c =>
      simp only [itemLex] at hu1
      obtain ⟨u1234, u5, rfl, h1234, h5⟩ := Pre.append_inv hu1
      obtain ⟨u123, uc, rfl, h123, hc⟩ := Pre.append_inv h1234
      obtain ⟨u12, u3, rfl, h12, h3⟩ := Pre.append_inv h123
      obtain ⟨u1', ua, rfl, h1, ha⟩ := Pre.append_inv h12
      obtain ⟨j, rfl⟩ := Pre.single_inv h1
      obtain ⟨js, rfl⟩ := Pre.single_inv h3
      obtain ⟨jc, rfl⟩ := Pre.single_inv h5
      have hsym := f2Sym_props g
      have harg : ArgOK alg lit sa a ∧ ArgOK alg lit sa c := hok (.call2 g a c) (by simp)
      simp only [List.length_append, blanks_length, List.length_cons, List.length_nil] at hn
      have hlen : 0 < g.sym.length := List.length_pos_iff.mpr hsym.1.1
      obtain ⟨m, rfl⟩ : ∃ m, n = (m + 1) + j := ⟨n - j - 1, by omega⟩
      have hwa : nest (ua ++ blanks js) 0 = some 0 := by
        rw [nest_append, nest_text alg lit a harg.1.1 ua ha 0]; exact nest_blanks js 0
      have hwc : nest (uc ++ blanks jc) 0 = some 0 := by
        rw [nest_append, nest_text alg lit c harg.2.1 uc hc 0]; exact nest_blanks jc 0
      have hscan : parScan (stdPar 2)
          (((ua ++ blanks js) ++ ',' :: ((uc ++ blanks jc) ++ ')' :: (u2 ++ tail))).length + 1) 1
          ⟨[], (ua ++ blanks js) ++ ',' :: ((uc ++ blanks jc) ++ ')' :: (u2 ++ tail))⟩ []
          = some (⟨[], u2 ++ tail⟩, [strip (ua ++ blanks js), strip (uc ++ blanks jc)]) := by
        have e : ((ua ++ blanks js) ++ ',' :: ((uc ++ blanks jc) ++ ')' :: (u2 ++ tail))).length + 1
            = (((uc ++ blanks jc) ++ ')' :: (u2 ++ tail)).length + 1) + 1 + (ua ++ blanks js).length := by
          simp; omega
        rw [e, scan_sep 2 _ (ua ++ blanks js) _ [] [] hwa,
          scan_last 2 (uc ++ blanks jc) (u2 ++ tail) [] _ hwc]
        simp
      have hsafe' : SafeHead ((ua ++ blanks js) ++ ',' :: ((uc ++ blanks jc) ++ ')' :: (u2 ++ tail))) := by
        rw [List.append_assoc]; exact safeHead_text alg lit a harg.1.1 ua _ ha
      rw [show blanks j ++ g.sym ++ ua ++ (blanks js ++ [',']) ++ uc ++ (blanks jc ++ [')']) ++ u2 ++ tail
            = blanks j ++ (g.sym ++ ((ua ++ blanks js) ++ ',' :: ((uc ++ blanks jc) ++ ')' :: (u2 ++ tail))))
            by simp,
        tokLoop_blanks,
        tokLoop_call alg sa (fact_fn2 g) hsym.1.1 m _ _ (u2 ++ tail) b _ _
          [some (eval alg lit a), some (eval alg lit c)]
          hsafe' (pushAtom_pending alg lit (hpend.blanks alg lit j) b) hscan rfl
          (solveArgs_two sa _ _ _ _ _ (fun st => harg.1.2 ua js st ha) (fun st => harg.2.2 uc jc st hc))]
      exact ih hadj' hok' [] [] u2 _ m (pending_nil alg lit) (fun h => absurd rfl h) hu2 (by omega)

theorem call_safeHead (c : Call) : SafeHead c.sym := by
  cases c with
  | f1 f => exact (f1Sym_props f).2.1
  | f2 g => exact (f2Sym_props g).2.1

/-- the tokeniser loop raises "arity" at a call with the wrong number of arguments, whatever
    literal or blanks are pending on the left -/
theorem tokLoop_arity_pending (c : Call) (Ts : List (List Char)) (hne : Ts ≠ [])
    (hb : ∀ T ∈ Ts, nest T 0 = some 0) (hk : Ts.length ≠ c.narg) (j : Nat) (rest : List Char)
    (m : Nat) (lw p : List Char) (b : Bufs A) (hpend : Pending alg lit lw p)
    (hm : (blanks j ++ (c.sym ++ (joinArgs Ts ++ ')' :: rest))).length + 1 ≤ m) :
    ∃ bb, tokLoop dflt alg sa m ⟨lw, blanks j ++ (c.sym ++ (joinArgs Ts ++ ')' :: rest))⟩ b
      = .error (bb, "arity") := by
  obtain ⟨hf, hnc, hsne⟩ := call_facts c
  have hscan := scan_args c.narg Ts hne hb rest []
  simp only [List.length_append, blanks_length] at hm
  obtain ⟨q, rfl⟩ : ∃ q, m = (q + 1) + j := ⟨m - j - 1, by omega⟩
  rw [tokLoop_blanks,
    tokLoop_call_arity alg sa hf hnc hsne _ _ _ _ _ _ _
      (pushAtom_pending alg lit (hpend.blanks alg lit j) b) (by simpa using hscan) (by simpa using hk)]
  exact ⟨_, rfl⟩

/-- A call with the wrong number of arguments AFTER a well-formed prefix -- a well-formed
    expression framed by operator symbols, e.g. `e o` --: `solve` raises "arity". -/
theorem solve_arity_after (hn : NegNeg alg) (e : E) (hwf : e.WF) (hl : LitOK alg lit e)
    (pre post : List LItem) (hpre : OprOnly pre) (hpost : OprOnly post)
    (hadj : Adj (pre ++ items e ++ post)) (u : List Char)
    (hu : Pre ((pre ++ items e ++ post).flatMap itemLex) u)
    (c : Call) (Ts : List (List Char)) (hne : Ts ≠ [])
    (hb : ∀ T ∈ Ts, nest T 0 = some 0) (hk : Ts.length ≠ c.narg) (j : Nat) (rest : List Char) :
    solve dflt alg dfltSteps (u ++ (blanks j ++ (c.sym ++ (joinArgs Ts ++ ')' :: rest))))
      = .error "arity" := by
  generalize htail : blanks j ++ (c.sym ++ (joinArgs Ts ++ ')' :: rest)) = tail
  have hlen : (lexemes e).length ≤ u.length := by
    have h1 := Pre.length_le hu (fun x hx => by
      simp only [List.flatMap_append, List.mem_append, List.mem_flatMap] at hx
      rcases hx with (⟨it, hit, hx⟩ | ⟨it, hit, hx⟩) | ⟨it, hit, hx⟩
      · exact oprLex_ne_nil it (hpre it hit) x hx
      · have : x ∈ lexemes e := by rw [lexemes_items]; exact List.mem_flatMap.mpr ⟨it, hit, hx⟩
        exact (lexemes_good alg lit e hl x this).1
      · exact oprLex_ne_nil it (hpost it hit) x hx)
    have h2 : (lexemes e).length ≤ ((pre ++ items e ++ post).flatMap itemLex).length := by
      rw [lexemes_items]; simp; omega
    omega
  have hd : cdepth e ≤ (u ++ tail).length := by
    have := cdepth_le_lexemes e; simp; omega
  have hargs := args_of_depth alg lit hn e hwf hl _ hd
  have hok : ∀ it ∈ pre ++ items e ++ post,
      ItemOK alg lit (nestedSolve alg (u ++ tail).length) it := by
    intro it hit
    simp only [List.mem_append] at hit
    rcases hit with (hit | hit) | hit
    · exact itemOK_opr alg lit _ it (hpre it hit)
    · exact itemOK_items alg lit _ e hl hargs it hit
    · exact itemOK_opr alg lit _ it (hpost it hit)
  have hsafe : SafeHead tail := by
    rw [← htail]
    exact safeHead_blanks j _ ((call_safeHead c).append (call_facts c).2.2 _)
  obtain ⟨bb, hbb⟩ := tok_items_err alg lit (nestedSolve alg (u ++ tail).length) tail "arity" hsafe
    (fun m lw p b hpend hm => by
      subst htail
      exact tokLoop_arity_pending alg lit _ c Ts hne hb hk j rest m lw p b hpend hm)
    _ hadj hok [] [] u ⟨[], []⟩ ((u ++ tail).length + 1) (pending_nil alg lit)
    (fun h => absurd rfl h) hu (by simp)
  unfold nestedSolve at hbb
  unfold solve solveI solveFrom resetBufs
  simp only [solveFromF, hbb]

/-! ### an error raised by the nested solver inside a call -/

theorem tokLoop_call_argerr {name : String} {sym : List Char} {narg : Nat}
    (h : rowFact dflt name sym (some (stdPar narg)) = true) (hne : sym ≠ []) (m : Nat)
    (lw r r' : List Char) (b b1 : Bufs A) (args : List (List Char)) (msg : String)
    (hs : SafeHead r) (hp : pushAtom alg (strip lw) b = .ok b1)
    (hscan : parScan (stdPar narg) (r.length + 1) 1 ⟨[], r⟩ [] = some (⟨[], r'⟩, args))
    (hlen : args.length = narg) (hargs : solveArgs sa ⟨[], []⟩ args = .error msg) :
    tokLoop dflt alg sa (m + 1) ⟨lw, sym ++ r⟩ b = .error (b1, msg) := by
  obtain ⟨row, hf, hsym, hpar⟩ := findOp_row h r hs
  have hemp : (sym ++ r).isEmpty = false := by
    cases sym with
    | nil => exact absurd rfl hne
    | cons c cs => rfl
  have hn : (stdPar narg).narg = narg := rfl
  simp [tokLoop, hemp, hf, Ex.popLeft, hp, hpar, Ex.remove, hsym, hscan, hn, hlen, hargs]

theorem solveArgs_one_err (x : List Char) (msg : String) (st0 : Bufs A)
    (h : ∀ st, (sa st x).2 = .error msg) : solveArgs sa st0 [x] = .error msg := by
  have h0 := h st0
  cases hh : sa st0 x with
  | mk st' r =>
    rw [hh] at h0
    simp only at h0
    subst h0
    simp [solveArgs, hh]

/-- the tokeniser loop at a one-argument call (parentheses included) whose argument the nested
    solver rejects with `msg`: raises `msg`, whatever is pending on the left -/
theorem tokLoop_argerr_pending (f : F1) (T rest : List Char) (hw : nest T 0 = some 0)
    (hs : SafeHead (T ++ ')' :: rest)) (msg : String)
    (h : ∀ st, (sa st (strip T)).2 = .error msg) (j : Nat)
    (m : Nat) (lw p : List Char) (b : Bufs A) (hpend : Pending alg lit lw p)
    (hm : (blanks j ++ (f.sym ++ (T ++ ')' :: rest))).length + 1 ≤ m) :
    ∃ bb, tokLoop dflt alg sa m ⟨lw, blanks j ++ (f.sym ++ (T ++ ')' :: rest))⟩ b
      = .error (bb, msg) := by
  have hsym := f1Sym_props f
  have hscan := scan_last 1 T rest [] [] hw
  simp only [List.length_append, blanks_length] at hm
  obtain ⟨q, rfl⟩ : ∃ q, m = (q + 1) + j := ⟨m - j - 1, by omega⟩
  rw [tokLoop_blanks,
    tokLoop_call_argerr alg sa (fact_fn1 f) hsym.1.1 q _ _ rest b _ _ msg hs
      (pushAtom_pending alg lit (hpend.blanks alg lit j) b) (by simpa using hscan) rfl
      (solveArgs_one_err sa _ _ _ (fun st => by simpa using h st))]
  exact ⟨_, rfl⟩

/-- fuel-general form: a one-argument call whose argument text is rejected by the nested solver,
    after the text of any admissible item list -/
theorem solveFromF_arg_err (n : Nat) (its : List LItem) (hadj : Adj its)
    (hok : ∀ it ∈ its, ItemOK alg lit (nestedSolve alg n) it) (u : List Char)
    (hu : Pre (its.flatMap itemLex) u) (f : F1) (T : List Char) (hw : nest T 0 = some 0)
    (j : Nat) (rest : List Char) (hs : SafeHead (T ++ ')' :: rest)) (msg : String)
    (h : (solveFromF dflt alg dfltSteps n ⟨[], []⟩ (strip T)).2 = .error msg) :
    (solveFromF dflt alg dfltSteps (n + 1) ⟨[], []⟩
      (u ++ (blanks j ++ (f.sym ++ (T ++ ')' :: rest))))).2 = .error msg := by
  have hsafe : SafeHead (blanks j ++ (f.sym ++ (T ++ ')' :: rest))) :=
    safeHead_blanks j _ ((f1Sym_props f).2.1.append (f1Sym_props f).1.1 _)
  obtain ⟨bb, hbb⟩ := tok_items_err alg lit (nestedSolve alg n) _ msg hsafe
    (fun m lw p b hpend hm =>
      tokLoop_argerr_pending alg lit _ f T rest hw hs msg
        (fun st => by simpa [nestedSolve, resetBufs] using h) j m lw p b hpend hm)
    its hadj hok [] [] u ⟨[], []⟩
    ((u ++ (blanks j ++ (f.sym ++ (T ++ ')' :: rest)))).length + 1) (pending_nil alg lit)
    (fun h => absurd rfl h) hu (by simp)
  unfold nestedSolve at hbb
  simp only [solveFromF, hbb]

/-- fuel-general form of `solve_framed_err` -/
theorem solveFromF_framed_err (hn : NegNeg alg) (e : E) (hwf : e.WF) (hl : LitOK alg lit e)
    (pre post : List LItem) (hpre : OprOnly pre) (hpost : OprOnly post)
    (hadj : Adj (pre ++ items e ++ post)) (u : List Char) (k : Nat)
    (hu : Pre ((pre ++ items e ++ post).flatMap itemLex) u) (m : String)
    (hs : solveToks dflt alg dfltSteps
      (pre.map (tokOf alg lit) ++ toks dflt alg lit e ++ post.map (tokOf alg lit)) = .error m)
    (n : Nat) (hd : cdepth e ≤ n) :
    (solveFromF dflt alg dfltSteps (n + 1) ⟨[], []⟩ (u ++ blanks k)).2 = .error m := by
  have hargs := args_of_depth alg lit hn e hwf hl _ hd
  have hok : ∀ it ∈ pre ++ items e ++ post, ItemOK alg lit (nestedSolve alg n) it := by
    intro it hit
    simp only [List.mem_append] at hit
    rcases hit with (hit | hit) | hit
    · exact itemOK_opr alg lit _ it (hpre it hit)
    · exact itemOK_items alg lit _ e hl hargs it hit
    · exact itemOK_opr alg lit _ it (hpost it hit)
  have ht := tok_items alg lit (nestedSolve alg n) _ hadj hok
    [] [] u ⟨[], []⟩ k ((u ++ blanks k).length + 1) (pending_nil alg lit) (fun h => absurd rfl h) hu
    (by simp [blanks_length])
  have ht' : tokLoop dflt alg (nestedSolve alg n) ((u ++ blanks k).length + 1)
      ⟨[], u ++ blanks k⟩ ⟨[], []⟩
      = .ok ⟨[], pre.map (tokOf alg lit) ++ toks dflt alg lit e ++ post.map (tokOf alg lit)⟩ := by
    rw [ht, toks_items]; simp [pendTok]
  exact solveFromF_of_tokens_err alg _ _ _ m ht' hs

/-- A one-argument call (parentheses included) whose argument is a well-formed expression
    followed by a dangling operator `o` that the step loop rejects, after the text of any
    admissible item list: the nested solver raises, and so does `solve`. -/
theorem solve_inner_err (hn : NegNeg alg) (its : List LItem) (hadj : Adj its) (u : List Char)
    (hu : Pre (its.flatMap itemLex) u) (f : F1) (j : Nat) (rest : List Char)
    (e' : E) (hwf' : e'.WF) (hl' : LitOK alg lit e') (o : OprK) (v : List Char) (k : Nat)
    (hv : Pre (lexemes e' ++ [o.sym]) v) (m : String)
    (hs : solveToks dflt alg dfltSteps (toks dflt alg lit e' ++ [tokOf alg lit (.opr o)]) = .error m)
    (hok : ∀ it ∈ its, ItemOK alg lit
      (nestedSolve alg (u ++ (blanks j ++ (f.sym ++ ((v ++ blanks k) ++ ')' :: rest)))).length) it) :
    solve dflt alg dfltSteps (u ++ (blanks j ++ (f.sym ++ ((v ++ blanks k) ++ ')' :: rest))))
      = .error m := by
  have hgood : ∀ x ∈ lexemes e' ++ [o.sym], GoodLex x := by
    intro x hx
    simp only [List.mem_append, List.mem_singleton] at hx
    rcases hx with hx | rfl
    · exact lexemes_good alg lit e' hl' x hx
    · exact (oprSym_props o).1
  have hlen : (lexemes e').length + 1 ≤ v.length := by
    have := Pre.length_le hv (fun x hx => (hgood x hx).1)
    simpa using this
  have hcd := cdepth_le_lexemes e'
  -- the inner text
  obtain ⟨v1, v2, rfl, hv1, hv2⟩ := Pre.append_inv hv
  obtain ⟨jo, rfl⟩ := Pre.single_inv hv2
  have hw : nest ((v1 ++ (blanks jo ++ o.sym)) ++ blanks k) 0 = some 0 := by
    rw [nest_append, nest_append, nest_text alg lit e' hl' v1 hv1 0]
    simp only [Option.bind_some]
    rw [nest_append, nest_blanks]
    simp only [Option.bind_some]
    rw [nest_neutral _ (oprSym_props o).2]
    exact nest_blanks k 0
  have hsafe : SafeHead (((v1 ++ (blanks jo ++ o.sym)) ++ blanks k) ++ ')' :: rest) := by
    rw [List.append_assoc, List.append_assoc]
    exact safeHead_text alg lit e' hl' v1 _ hv1
  have hstrip := strip_text k (Pre.append hv1 hv2) (by simp) hgood
  obtain ⟨q, hq⟩ : ∃ q, (u ++ (blanks j ++ (f.sym ++ (((v1 ++ (blanks jo ++ o.sym)) ++ blanks k)
      ++ ')' :: rest)))).length = q + 1 :=
    ⟨(u ++ (blanks j ++ (f.sym ++ (((v1 ++ (blanks jo ++ o.sym)) ++ blanks k)
      ++ ')' :: rest)))).length - 1, by simp; omega⟩
  have hdq : cdepth e' ≤ q := by
    simp only [List.length_append, List.length_cons, blanks_length] at hq hlen
    omega
  have hinner := solveFromF_framed_err alg lit hn e' hwf' hl' [] [.opr o] (fun _ h => by cases h)
    (fun it h => by simp only [List.mem_singleton] at h; subst h; rfl)
    (adj_post_opr alg lit e' hl' _) _ 0
    (by simpa [lexemes_items, itemLex] using hstrip) m (by simpa using hs) q hdq
  simp only [blanks, List.replicate_zero, List.append_nil] at hinner
  rw [hq] at hok
  have := solveFromF_arg_err alg lit (q + 1) its hadj hok u hu f _ hw j rest hsafe m
    (by simpa [blanks] using hinner)
  unfold solve solveI solveFrom resetBufs
  rw [hq]
  exact this

end SciVerif.C01
