import SciVerif.Lemmas.C13d
/-!
Scanner lemmas, part 2: value literals, `=`, dimensions.
-/
namespace SciVerif.C13

/-! ### value literals -/

inductive Lit where
  | bare (s : Str)      -- true, -34, 2.3e20, Canada, none, [1,2,3] …
  | dq (s : Str)        -- "…"
  | sq (s : Str)        -- '…'
  | tq (s : Str)        -- """…"""  (after block grouping; `s` is the escape-marked text)
deriving Repr, DecidableEq

def Lit.text : Lit → Str
  | .bare s => s | .dq s => s | .sq s => s | .tq s => s

def Lit.render : Lit → Str
  | .bare s => s
  | .dq s => '"' :: (s ++ ['"'])
  | .sq s => '\'' :: (s ++ ['\''])
  | .tq s => '"' :: '"' :: '"' :: (s ++ ['"', '"', '"'])

def Lit.Ok : Lit → Prop
  | .bare s => (∃ c r, s = c :: r ∧ c ≠ '{' ∧ c ≠ '(' ∧ c ≠ '"' ∧ c ≠ '\'') ∧ ∀ c ∈ s, c ≠ '#' ∧ isWs c = false
  | .dq s => ∀ c ∈ s, c ≠ '"'
  | .sq s => ∀ c ∈ s, c ≠ '\''
  | .tq s => ∀ c ∈ s, c ≠ '"'

theorem findClose_triple (tl : Str) (htl : tailOk tl = true) :
    ∀ (s acc : Str), (∀ c ∈ s, c ≠ '"') →
      findClose q3 acc (s ++ '"' :: '"' :: '"' :: tl) = some (acc.reverse ++ s, tl) := by
  intro s
  induction s with
  | nil =>
    intro acc _
    simp [findClose, q3, List.isPrefixOf, htl]
  | cons x t ih =>
    intro acc h
    have hx : x ≠ '"' := h x (by simp)
    have hq : ('"' == x) = false := by simp [Ne.symm hx]
    simp only [List.cons_append, findClose, q3, List.isPrefixOf, hq, Bool.false_and, Bool.false_eq_true, if_false]
    have := ih (x :: acc) (fun c hc => h c (List.mem_cons_of_mem _ hc))
    simp only [q3] at this
    rw [this]
    simp

theorem findClose_single (q : Char) (tl : Str) (htl : tailOk tl = true) :
    ∀ (s acc : Str), (∀ c ∈ s, c ≠ q) → findClose [q] acc (s ++ q :: tl) = some (acc.reverse ++ s, tl) := by
  intro s
  induction s with
  | nil =>
    intro acc _
    simp [findClose, List.isPrefixOf, htl]
  | cons x t ih =>
    intro acc h
    have hx : x ≠ q := h x (by simp)
    have hq : (q == x) = false := by simp [Ne.symm hx]
    simp only [List.cons_append, findClose, List.isPrefixOf, hq, Bool.false_and, Bool.false_eq_true, if_false]
    rw [ih (x :: acc) (fun c hc => h c (List.mem_cons_of_mem _ hc))]
    simp

theorem partValue_tq (s : Str) (hl : ∀ c ∈ s, c ≠ '"') (tl : Str) (htl : tailOk tl = true) :
    partValue ((Lit.tq s).render ++ tl) = .ok (s, tl) := by
  simp only [Lit.render, List.cons_append, List.append_assoc]
  have hb : partValue.bare ('"' :: '"' :: '"' :: (s ++ ('"' :: '"' :: '"' :: tl))) = .ok (s, tl) := by
    have e3 : quoted q3 ('"' :: '"' :: '"' :: (s ++ ('"' :: '"' :: '"' :: tl))) = some (s, tl) := by
      simp only [quoted, q3, List.isPrefixOf, beq_self_eq_true, Bool.true_and, if_true, List.length_cons,
        List.length_nil, List.drop_succ_cons, List.drop_zero]
      have := findClose_triple tl htl s [] hl
      simp only [q3] at this
      rw [this]
      simp
    simp only [partValue.bare, e3]
  simp only [List.nil_append]
  unfold partValue
  split
  · rename_i heq; exact absurd (List.cons.inj heq).1 (by decide)
  · rename_i heq; exact absurd (List.cons.inj heq).1 (by decide)
  · exact hb

/-- `part_value` consumes exactly the rendered literal (the text that follows is an optional
    unit and an optional comment) and yields the text written between the quotes / the bare word -/
theorem partValue_lit (l : Lit) (hl : l.Ok) (tl : Str) (htl : tailOk tl = true)
    (hh : tl = [] ∨ ∃ c r, tl = c :: r ∧ (c = ' ' ∨ c = '#')) :
    partValue (l.render ++ tl) = .ok (l.text, tl) := by
  cases l with
  | bare s =>
    obtain ⟨⟨c, r, rfl, h1, h2, h3, h4⟩, hall⟩ := hl
    simp only [Lit.render, Lit.text, List.cons_append]
    have hb : partValue.bare (c :: (r ++ tl)) = .ok (c :: r, tl) := by
      have e3 : quoted q3 (c :: (r ++ tl)) = none := by simp [quoted, q3, List.isPrefixOf, Ne.symm h3]
      have e2 : quoted q2 (c :: (r ++ tl)) = none := by simp [quoted, q2, List.isPrefixOf, Ne.symm h3]
      have e1 : quoted q1 (c :: (r ++ tl)) = none := by simp [quoted, q1, List.isPrefixOf, Ne.symm h4]
      have hp : ∀ x ∈ c :: r, (fun c => c != '#' && c != ' ') x = true := by
        intro x hx
        have := hall x hx
        have h5 : x ≠ ' ' := by intro e; rw [e] at this; exact absurd this.2 (by decide)
        simp [this.1, h5]
      have hbt : tl = [] ∨ ∃ x y, tl = x :: y ∧ (fun c => c != '#' && c != ' ') x = false := by
        rcases hh with h | ⟨x, y, h, hx⟩
        · exact .inl h
        · exact .inr ⟨x, y, h, by rcases hx with rfl | rfl <;> decide⟩
      have htw := takeWhile_append_of_all (p := fun c => c != '#' && c != ' ') (c :: r) tl hp hbt
      have hdw := dropWhile_append_of_all (p := fun c => c != '#' && c != ' ') (c :: r) tl hp hbt
      simp only [List.cons_append] at htw hdw
      simp only [partValue.bare, e3, e2, e1, htw, hdw]
      rfl
    unfold partValue
    split
    · rename_i heq; exact absurd (List.cons.inj heq).1 h1
    · rename_i heq; exact absurd (List.cons.inj heq).1 h2
    · exact hb
  | dq s =>
    simp only [Lit.render, Lit.text, List.cons_append, List.append_assoc, List.singleton_append]
    have hb : partValue.bare ('"' :: (s ++ '"' :: tl)) = .ok (s, tl) := by
      have e3 : quoted q3 ('"' :: (s ++ '"' :: tl)) = none := by
        cases s with
        | nil =>
          rcases hh with rfl | ⟨x, y, rfl, hx⟩
          · simp [quoted, q3, List.isPrefixOf]
          · have : ('"' == x) = false := by rcases hx with rfl | rfl <;> decide
            simp [quoted, q3, List.isPrefixOf, this]
        | cons x t =>
          have hx : x ≠ '"' := hl x (by simp)
          simp [quoted, q3, List.isPrefixOf, Ne.symm hx]
      have e2 : quoted q2 ('"' :: (s ++ '"' :: tl)) = some (s, tl) := by
        simp only [quoted, q2, List.isPrefixOf, beq_self_eq_true, Bool.true_and, if_true, List.length_cons,
          List.length_nil, List.drop_succ_cons, List.drop_zero]
        rw [findClose_single '"' tl htl s [] hl]
        simp
      simp only [partValue.bare, e3, e2]
    unfold partValue
    split
    · rename_i heq; exact absurd (List.cons.inj heq).1 (by decide)
    · rename_i heq; exact absurd (List.cons.inj heq).1 (by decide)
    · exact hb
  | sq s =>
    simp only [Lit.render, Lit.text, List.cons_append, List.append_assoc, List.singleton_append]
    have hb : partValue.bare ('\'' :: (s ++ '\'' :: tl)) = .ok (s, tl) := by
      have e3 : quoted q3 ('\'' :: (s ++ '\'' :: tl)) = none := by simp [quoted, q3, List.isPrefixOf]
      have e2 : quoted q2 ('\'' :: (s ++ '\'' :: tl)) = none := by simp [quoted, q2, List.isPrefixOf]
      have e1 : quoted q1 ('\'' :: (s ++ '\'' :: tl)) = some (s, tl) := by
        simp only [quoted, q1, List.isPrefixOf, beq_self_eq_true, Bool.true_and, if_true, List.length_cons,
          List.length_nil, List.drop_succ_cons, List.drop_zero]
        rw [findClose_single '\'' tl htl s [] hl]
        simp
      simp only [partValue.bare, e3, e2, e1]
    unfold partValue
    split
    · rename_i heq; exact absurd (List.cons.inj heq).1 (by decide)
    · rename_i heq; exact absurd (List.cons.inj heq).1 (by decide)
    · exact hb
  | tq s => exact partValue_tq s hl tl htl

theorem lit_head (l : Lit) (hl : l.Ok) : ∃ c r, l.render = c :: r ∧ isWs c = false := by
  cases l with
  | bare s =>
    obtain ⟨⟨c, r, rfl, _⟩, hall⟩ := hl
    exact ⟨c, r, rfl, (hall c (by simp)).2⟩
  | dq s => exact ⟨'"', s ++ ['"'], rfl, by decide⟩
  | sq s => exact ⟨'\'', s ++ ['\''], rfl, by decide⟩
  | tq s => exact ⟨'"', _, rfl, by decide⟩

/-! ### `=` -/

theorem partEqual_eq (a b : Nat) (v : Str) (hv : ∃ c r, v = c :: r ∧ isWs c = false) :
    partEqual (List.replicate a ' ' ++ '=' :: (List.replicate b ' ' ++ v)) = some v := by
  obtain ⟨c, r, rfl, hc⟩ := hv
  simp only [partEqual]
  rw [dropWs_spaces_cons a '=' _ (by decide)]
  simp only
  rw [dropWs_spaces_cons b c r hc]

theorem partEqual_none (a : Nat) (c : Char) (r : Str) (hc : isWs c = false) (he : c ≠ '=') :
    partEqual (List.replicate a ' ' ++ c :: r) = none := by
  simp only [partEqual]
  rw [dropWs_spaces_cons a c r hc]
  split
  · rename_i heq; exact absurd (List.cons.inj heq).1 he
  · rfl

theorem partEqual_blank (a : Nat) : partEqual (List.replicate a ' ') = none := by
  simp only [partEqual, dropWs_spaces_nil]

end SciVerif.C13
