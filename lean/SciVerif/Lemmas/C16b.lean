import SciVerif.Lemmas.C16
import Mathlib.Algebra.Order.Field.Basic
import Mathlib.Algebra.Order.AbsoluteValue.Basic
import Mathlib.Tactic.Linarith
import Mathlib.Tactic.FieldSimp
import Mathlib.Tactic.Ring

/-!
C16, the primitives made concrete over an ordered field: the tolerant equality
`np.isclose(a, b, rtol, atol)` = `|a − b| ≤ atol + rtol·|b|` (`NumberType.__eq__`, which is what
`option.value == self.value` in `validate_options` runs) and the linear conversion
`v · k_src / k_dst` of `NumberType.convert` between two units of one dimension.  The driver
(`Drive/C16.lean`) evaluates the same two formulas in `Float`; here they are the exact ones.
-/
set_option linter.unusedSectionVars false
namespace SciVerif.C16

variable {K : Type} [Field K] [LinearOrder K] [IsStrictOrderedRing K]

/-- the exact arithmetic of an ordered field -/
def fieldArith : Arith K :=
  ⟨fun a b => a - b, fun a b => a + b, fun a b => a * b, fun a b => a / b, fun a => |a|,
   fun a b => decide (a ≤ b)⟩

/-- unit rows with a list of exponents as dimension key -/
abbrev LinUnitK (K : Type) := LinUnit K (List Int)

/-- `np.isclose` — the model formula `iscloseA` read in the ordered field -/
def iscloseK (atol rtol a b : K) : Bool := iscloseA fieldArith atol rtol a b

/-- `NumberType.convert` — the model formula `convA` read in the ordered field -/
def convK (tbl : String → Option (LinUnitK K)) : Option String → Option String → K → Option K :=
  convA fieldArith tbl

/-- the primitives of the validation loop over an exact ordered field: the model's `arithPrim` -/
def fieldPrim (tbl : String → Option (LinUnitK K)) (atol rtol : K) : Prim K :=
  arithPrim fieldArith tbl atol rtol

theorem iscloseK_def (atol rtol a b : K) :
    iscloseK atol rtol a b = decide (|a - b| ≤ atol + rtol * |b|) := rfl

theorem convK_same (tbl : String → Option (LinUnitK K)) (s : String) (v : K) :
    convK tbl (some s) (some s) v = some v := by
  simp [convK, convA]

theorem convK_lin (tbl : String → Option (LinUnitK K)) (s d : String) (x y : LinUnitK K) (v : K)
    (h : s ≠ d) (hx : tbl s = some x) (hy : tbl d = some y) (hd : x.dims = y.dims) :
    convK tbl (some s) (some d) v = some (v * x.k / y.k) := by
  simp [convK, convA, fieldArith, h, hx, hy, hd]

theorem fieldPrim_conv (tbl : String → Option (LinUnitK K)) (atol rtol : K) :
    (fieldPrim tbl atol rtol).conv = convK tbl := rfl
theorem fieldPrim_isclose (tbl : String → Option (LinUnitK K)) (atol rtol : K) :
    (fieldPrim tbl atol rtol).isclose = iscloseK atol rtol := rfl

theorem iscloseK_iff (atol rtol a b : K) :
    iscloseK atol rtol a b = true ↔
      b - (atol + rtol * |b|) ≤ a ∧ a ≤ b + (atol + rtol * |b|) := by
  simp only [iscloseK_def, decide_eq_true_eq, abs_le]
  constructor <;> rintro ⟨h1, h2⟩ <;> constructor <;> linarith

theorem iscloseK_refl (atol rtol a : K) (ha : 0 ≤ atol) (hr : 0 ≤ rtol) :
    iscloseK atol rtol a a = true := by
  simp only [iscloseK_def, sub_self, abs_zero, decide_eq_true_eq]
  have := mul_nonneg hr (abs_nonneg a)
  linarith

/-- outside the tolerance band the comparison is false -/
theorem iscloseK_far (atol rtol a b : K) (h : atol + rtol * |b| < |a - b|) :
    iscloseK atol rtol a b = false := by
  simp only [iscloseK_def, decide_eq_false_iff_not, not_le]
  exact h

/-- across dimensions an option cannot be registered -/
theorem convK_other_dim (tbl : String → Option (LinUnitK K)) (s d : String) (x y : LinUnitK K) (v : K)
    (hx : tbl s = some x) (hy : tbl d = some y) (hd : x.dims ≠ y.dims) :
    convK tbl (some s) (some d) v = none := by
  have h : s ≠ d := by
    rintro rfl
    rw [hx] at hy
    exact hd (by cases hy; rfl)
  simp [convK, convA, h, hx, hy, hd]

/-- every element of a list on which `mapM` succeeds is mapped to `some` -/
theorem mapM_isSome_mem {α β : Type} (f : α → Option β) :
    ∀ (l : List α) (rs : List β), l.mapM f = some rs → ∀ o ∈ l, (f o).isSome := by
  intro l
  induction l with
  | nil => intro rs _ o ho; cases ho
  | cons a l ih =>
    intro rs h o ho
    simp only [List.mapM_cons] at h
    cases ha : f a with
    | none => simp [ha] at h
    | some b =>
      cases hl : l.mapM f with
      | none => simp [ha, hl] at h
      | some bs =>
        rcases List.mem_cons.mp ho with rfl | ho
        · simp [ha]
        · exact ih bs hl o ho

end SciVerif.C16
