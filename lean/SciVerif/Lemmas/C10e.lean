import SciVerif.Lemmas.C10d

/-! C10: the tokenizer of `ExpressionSolver.solve` on explicit solver text. -/
set_option linter.unusedSimpArgs false
namespace SciVerif.C10

/-! ### `strip` -/

theorem dropWhile_head_false {β : Type} (p : β → Bool) (a : β) (t : List β) (h : p a = false) :
    (a :: t).dropWhile p = a :: t := by simp [List.dropWhile_cons, h]

/-- a text whose first and last characters are not blank -/
def EdgeOK (w : Str) : Prop :=
  (∃ a t, w = a :: t ∧ isWs a = false) ∧ (∃ b t, w.reverse = b :: t ∧ isWs b = false)

theorem strip_of_edge (w : Str) (h : EdgeOK w) : strip w = w := by
  obtain ⟨⟨a, t, rfl, ha⟩, ⟨b, t', hb, hb'⟩⟩ := h
  unfold strip
  rw [dropWhile_head_false _ a t ha, hb, dropWhile_head_false _ b t' hb', ← hb, List.reverse_reverse]

theorem edge_of_plain (w : Str) (hne : w ≠ []) (h : Plain w) : EdgeOK w := by
  constructor
  · cases w with
    | nil => exact absurd rfl hne
    | cons a t => exact ⟨a, t, rfl, (h a (by simp)).2.2.2⟩
  · cases hr : w.reverse with
    | nil => simp at hr; exact absurd hr hne
    | cons b t =>
      refine ⟨b, t, rfl, (h b ?_).2.2.2⟩
      have : b ∈ w.reverse := by rw [hr]; simp
      simpa using this

theorem edge_append (x m y : Str) (hx : EdgeOK x) (hy : EdgeOK y) : EdgeOK (x ++ m ++ y) := by
  obtain ⟨⟨a, t, rfl, ha⟩, _⟩ := hx
  obtain ⟨_, ⟨b, t', hb, hb'⟩⟩ := hy
  exact ⟨⟨a, t ++ m ++ y, by simp, ha⟩, ⟨b, t' ++ (m.reverse ++ (a :: t).reverse), by simp [hb], hb'⟩⟩

/-! ### `OperatorPar.__init__` -/

def ParPlain (c : Char) : Prop := c ≠ '(' ∧ c ≠ ')' ∧ c ≠ ','

instance : DecidablePred ParPlain := fun c => by unfold ParPlain; infer_instance

theorem scanPar_run (w : Str) : ∀ (d : Nat) (acc r : Str), (∀ c ∈ w, ParPlain c) →
    scanPar d acc (w ++ r) = scanPar d (w.reverse ++ acc) r := by
  induction w with
  | nil => intro d acc r _; rfl
  | cons c t ih =>
    intro d acc r h
    have hc := h c (by simp)
    have := ih d (c :: acc) r (fun x hx => h x (by simp [hx]))
    simp only [List.cons_append, scanPar, beq_iff_eq, hc.1, hc.2.1, hc.2.2, if_false, false_and,
      Bool.false_and, List.reverse_cons, List.append_assoc, List.singleton_append]
    simpa [hc.2.2] using this

theorem parPlain_of_plainC {c : Char} (h : PlainC c) : ParPlain c := ⟨h.1, h.2.1, h.2.2.1⟩

theorem parPlain_symMul : ∀ c ∈ symMul, ParPlain c := by decide
theorem parPlain_symAdd : ∀ c ∈ symAdd, ParPlain c := by decide

/-- every species leaf satisfies `P` -/
def F.spAll (P : Str → Prop) : F → Prop
  | .sp s => P s
  | .count f _ => f.spAll P
  | .mulx f _ => f.spAll P
  | .group f => f.spAll P
  | .seq _ a b => a.spAll P ∧ b.spAll P
  | .plus a b => a.spAll P ∧ b.spAll P

theorem scanPar_rE (f : F) (hs : f.spAll Plain) : ∀ (d : Nat) (acc r : Str), 1 ≤ d →
    scanPar d acc (renderExplicit f ++ r) = scanPar d ((renderExplicit f).reverse ++ acc) r := by
  induction f with
  | sp s =>
    intro d acc r _
    exact scanPar_run s d acc r (fun c hc => parPlain_of_plainC (hs c hc))
  | count f n ih =>
    intro d acc r hd
    simp only [renderExplicit, List.append_assoc]
    rw [ih hs d acc _ hd, scanPar_run symMul _ _ _ parPlain_symMul,
      scanPar_run (digitsOf n) _ _ _ (fun c hc => parPlain_of_plainC (digitsOf_plain n c hc))]
    simp
  | mulx f n ih =>
    intro d acc r hd
    simp only [renderExplicit, List.append_assoc]
    rw [ih hs d acc _ hd, scanPar_run symMul _ _ _ parPlain_symMul,
      scanPar_run (digitsOf n) _ _ _ (fun c hc => parPlain_of_plainC (digitsOf_plain n c hc))]
    simp
  | group f ih =>
    intro d acc r hd
    have h1 : ((d + 1 == 1) = false) := by simp; omega
    simp only [renderExplicit, List.cons_append, List.append_assoc, List.singleton_append]
    rw [scanPar]
    simp only [beq_self_eq_true, if_true]
    rw [ih hs (d + 1) _ _ (by omega), scanPar]
    simp [h1]
  | seq ws a b iha ihb =>
    intro d acc r hd
    simp only [renderExplicit, List.append_assoc]
    rw [iha hs.1 d acc _ hd, scanPar_run symAdd _ _ _ parPlain_symAdd, ihb hs.2 d _ r hd]
    simp
  | plus a b iha ihb =>
    intro d acc r hd
    simp only [renderExplicit, List.append_assoc]
    rw [iha hs.1 d acc _ hd, scanPar_run symAdd _ _ _ parPlain_symAdd, ihb hs.2 d _ r hd]
    simp


/-! ### one step of the tokenizer -/

/-- `if left := self.expr.pop_left(): self.tokens.append(self.tokens.atom(left))` -/
def flushOf (valid : Str → Bool) (left : Str) (toks : List Tok) : Option (List Tok) :=
  let l := strip left.reverse
  if l.isEmpty then some toks else (atomOf valid l).map fun v => toks ++ [.atom v]

theorem solveAux_nil (valid : Str → Bool) (fuel : Nat) (left : Str) (toks : List Tok) :
    solveAux valid (fuel + 1) left [] toks = (flushOf valid left toks).bind reduce := by
  simp only [solveAux, flushOf]
  cases h : (if (strip left.reverse).isEmpty = true then some toks
    else Option.map (fun v => toks ++ [Tok.atom v]) (atomOf valid (strip left.reverse))) <;> simp

theorem solveAux_char (valid : Str → Bool) (fuel : Nat) (left r : Str) (c : Char) (toks : List Tok)
    (h1 : c ≠ '(') (h2 : c ≠ ' ') :
    solveAux valid (fuel + 1) left (c :: r) toks = solveAux valid fuel (c :: left) r toks := by
  have e1 : symMul.isPrefixOf (c :: r) = false := by
    simp [symMul, List.isPrefixOf, Ne.symm h2]
  have e2 : symAdd.isPrefixOf (c :: r) = false := by
    simp [symAdd, List.isPrefixOf, Ne.symm h2]
  simp only [solveAux, beq_iff_eq, h1, if_false, e1, e2]
  simp

theorem solveAux_mul (valid : Str → Bool) (fuel : Nat) (left r : Str) (toks : List Tok) :
    solveAux valid (fuel + 1) left (symMul ++ r) toks =
      (flushOf valid left toks).bind fun t => solveAux valid fuel [] r (t ++ [.mul]) := by
  have e1 : symMul.isPrefixOf (symMul ++ r) = true := by simp [symMul, List.isPrefixOf]
  have e0 : symMul ++ r = ' ' :: '*' :: ' ' :: r := rfl
  rw [e0] at e1 ⊢
  simp only [solveAux, flushOf, e1]
  cases h : (if (strip left.reverse).isEmpty = true then some toks
    else Option.map (fun v => toks ++ [Tok.atom v]) (atomOf valid (strip left.reverse))) <;> simp

theorem solveAux_add (valid : Str → Bool) (fuel : Nat) (left r : Str) (toks : List Tok) :
    solveAux valid (fuel + 1) left (symAdd ++ r) toks =
      (flushOf valid left toks).bind fun t => solveAux valid fuel [] r (t ++ [.add]) := by
  have e1 : symAdd.isPrefixOf (symAdd ++ r) = true := by simp [symAdd, List.isPrefixOf]
  have e2 : symMul.isPrefixOf (symAdd ++ r) = false := by simp [symAdd, symMul, List.isPrefixOf]
  have e0 : symAdd ++ r = ' ' :: '+' :: ' ' :: r := rfl
  rw [e0] at e1 e2 ⊢
  simp only [solveAux, flushOf, e1, e2]
  cases h : (if (strip left.reverse).isEmpty = true then some toks
    else Option.map (fun v => toks ++ [Tok.atom v]) (atomOf valid (strip left.reverse))) <;> simp

theorem solveAux_par (valid : Str → Bool) (fuel : Nat) (r arg rest : Str) (toks : List Tok) (v : Val)
    (hs : scanPar 1 [] r = some (arg, rest)) (hv : solveAux valid fuel [] arg [] = some v) :
    solveAux valid (fuel + 1) [] ('(' :: r) toks = solveAux valid fuel [] rest (toks ++ [.par v]) := by
  simp [solveAux, strip, hs, hv]

end SciVerif.C10
