import SciVerif.Lemmas.C13f
/-!
Scanner lemmas, part 4: the type keyword with width / sign suffix.
-/
namespace SciVerif.C13

inductive IntW where | w16 | w32 | w64
deriving Repr, DecidableEq
inductive FloatW where | w32 | w64 | w128
deriving Repr, DecidableEq

/-- the type as written: keyword with optional width / sign -/
inductive TyD where
  | bool
  | str
  | int (uns : Bool) (w : Option IntW)
  | float (w : Option FloatW)
deriving Repr, DecidableEq

def IntW.text : IntW → Str
  | .w16 => ['1', '6'] | .w32 => ['3', '2'] | .w64 => ['6', '4']
def IntW.bits : IntW → Nat
  | .w16 => 16 | .w32 => 32 | .w64 => 64
def FloatW.text : FloatW → Str
  | .w32 => ['3', '2'] | .w64 => ['6', '4'] | .w128 => ['1', '2', '8']
def FloatW.bits : FloatW → Nat
  | .w32 => 32 | .w64 => 64 | .w128 => 128

def TyD.render : TyD → Str
  | .bool => ['b', 'o', 'o', 'l']
  | .str => ['s', 't', 'r']
  | .int uns w => (if uns then ['u'] else []) ++ ['i', 'n', 't'] ++ (match w with | some x => x.text | none => [])
  | .float w => ['f', 'l', 'o', 'a', 't'] ++ (match w with | some x => x.text | none => [])

def TyD.ty : TyD → Ty
  | .bool => .bool | .str => .str | .int .. => .int | .float .. => .float

/-- width and sign stored in the type object (defaults: int 32 signed, float 64) -/
def TyD.info : TyD → TyInfo
  | .bool => {}
  | .str => {}
  | .int uns w => { precision := some (match w with | some x => x.bits | none => 32), unsigned := some uns }
  | .float w => { precision := some (match w with | some x => x.bits | none => 64) }

/-- what may follow the type keyword: nothing, `[`, a blank, `=` or `#` -/
def AfterKw (after : Str) : Prop :=
  after = [] ∨ ∃ c r, after = c :: r ∧ (c = '[' ∨ c = ' ' ∨ c = '=' ∨ c = '#')

theorem kw_bool : "bool".toList = ['b', 'o', 'o', 'l'] := by decide
theorem kw_str : "str".toList = ['s', 't', 'r'] := by decide
theorem kw_table : "table".toList = ['t', 'a', 'b', 'l', 'e'] := by decide
theorem kw_uint : "uint".toList = ['u', 'i', 'n', 't'] := by decide
theorem kw_int : "int".toList = ['i', 'n', 't'] := by decide
theorem kw_float : "float".toList = ['f', 'l', 'o', 'a', 't'] := by decide
theorem kw_16 : "16".toList = ['1', '6'] := by decide
theorem kw_32 : "32".toList = ['3', '2'] := by decide
theorem kw_64 : "64".toList = ['6', '4'] := by decide
theorem kw_128 : "128".toList = ['1', '2', '8'] := by decide

/-- the type patterns consume exactly the keyword with its suffix -/
theorem partTypeCore_kw (t : TyD) (after : Str) (h : AfterKw after) :
    partTypeCore (t.render ++ after) = .ok (.typed t.ty, t.info, after) := by
  rcases h with rfl | ⟨c, r, rfl, hc⟩
  · cases t with
    | bool => simp [partTypeCore, stripPrefix?, kw_bool, TyD.render, TyD.ty, TyD.info, List.isPrefixOf]
    | str => simp [partTypeCore, stripPrefix?, kw_bool, kw_str, TyD.render, TyD.ty, TyD.info, List.isPrefixOf]
    | int uns w =>
      cases uns <;> cases w with
      | none =>
        simp [partTypeCore, stripPrefix?, firstSuffix, kw_bool, kw_str, kw_table, kw_uint, kw_int, kw_16, kw_32, kw_64,
          TyD.render, TyD.ty, TyD.info, List.isPrefixOf, List.find?]
      | some x =>
        cases x <;>
        simp [partTypeCore, stripPrefix?, firstSuffix, kw_bool, kw_str, kw_table, kw_uint, kw_int, kw_16, kw_32, kw_64,
          TyD.render, TyD.ty, TyD.info, List.isPrefixOf, List.find?, IntW.text, IntW.bits, digitsToNat]
    | float w =>
      cases w with
      | none =>
        simp [partTypeCore, stripPrefix?, firstSuffix, kw_bool, kw_str, kw_table, kw_uint, kw_int, kw_float, kw_32, kw_64,
          kw_128, TyD.render, TyD.ty, TyD.info, List.isPrefixOf, List.find?]
      | some x =>
        cases x <;>
        simp [partTypeCore, stripPrefix?, firstSuffix, kw_bool, kw_str, kw_table, kw_uint, kw_int, kw_float, kw_32, kw_64,
          kw_128, TyD.render, TyD.ty, TyD.info, List.isPrefixOf, List.find?, FloatW.text, FloatW.bits, digitsToNat]
  · have hc1 : ('1' == c) = false := by rcases hc with rfl | rfl | rfl | rfl <;> decide
    have hc3 : ('3' == c) = false := by rcases hc with rfl | rfl | rfl | rfl <;> decide
    have hc6 : ('6' == c) = false := by rcases hc with rfl | rfl | rfl | rfl <;> decide
    cases t with
    | bool => simp [partTypeCore, stripPrefix?, kw_bool, TyD.render, TyD.ty, TyD.info, List.isPrefixOf]
    | str => simp [partTypeCore, stripPrefix?, kw_bool, kw_str, TyD.render, TyD.ty, TyD.info, List.isPrefixOf]
    | int uns w =>
      cases uns <;> cases w with
      | none =>
        simp [partTypeCore, stripPrefix?, firstSuffix, kw_bool, kw_str, kw_table, kw_uint, kw_int, kw_16, kw_32, kw_64,
          TyD.render, TyD.ty, TyD.info, List.isPrefixOf, List.find?, hc1, hc3, hc6]
      | some x =>
        cases x <;>
        simp [partTypeCore, stripPrefix?, firstSuffix, kw_bool, kw_str, kw_table, kw_uint, kw_int, kw_16, kw_32, kw_64,
          TyD.render, TyD.ty, TyD.info, List.isPrefixOf, List.find?, IntW.text, IntW.bits, digitsToNat]
    | float w =>
      cases w with
      | none =>
        simp [partTypeCore, stripPrefix?, firstSuffix, kw_bool, kw_str, kw_table, kw_uint, kw_int, kw_float, kw_32, kw_64,
          kw_128, TyD.render, TyD.ty, TyD.info, List.isPrefixOf, List.find?, hc1, hc3, hc6]
      | some x =>
        cases x <;>
        simp [partTypeCore, stripPrefix?, firstSuffix, kw_bool, kw_str, kw_table, kw_uint, kw_int, kw_float, kw_32, kw_64,
          kw_128, TyD.render, TyD.ty, TyD.info, List.isPrefixOf, List.find?, FloatW.text, FloatW.bits, digitsToNat]

theorem tyD_head (t : TyD) : ∃ c r, t.render = c :: r ∧ isWs c = false ∧ c ≠ '#' ∧ c ≠ '=' ∧ c ≠ '{' := by
  cases t with
  | bool => exact ⟨'b', _, rfl, by decide, by decide, by decide, by decide⟩
  | str => exact ⟨'s', _, rfl, by decide, by decide, by decide, by decide⟩
  | int uns w =>
    cases uns
    · exact ⟨'i', _, rfl, by decide, by decide, by decide, by decide⟩
    · exact ⟨'u', _, rfl, by decide, by decide, by decide, by decide⟩
  | float w => exact ⟨'f', _, rfl, by decide, by decide, by decide, by decide⟩

/-- `part_type`: one or more blanks, then the keyword -/
theorem partType_kw (n : Nat) (t : TyD) (after : Str) (h : AfterKw after) :
    partType (List.replicate (n + 1) ' ' ++ (t.render ++ after)) = .ok (.typed t.ty, t.info, after) := by
  obtain ⟨c, r, hr, hc, _⟩ := tyD_head t
  have hd : dropWs (List.replicate (n + 1) ' ' ++ (t.render ++ after)) = t.render ++ after := by
    rw [hr]
    exact dropWs_spaces_cons (n + 1) c (r ++ after) hc
  have hcons : List.replicate (n + 1) ' ' ++ (t.render ++ after) = ' ' :: (List.replicate n ' ' ++ (t.render ++ after)) := by
    simp [List.replicate_succ]
  unfold partType
  rw [hcons] at hd ⊢
  simp only [hd]
  simp [isWs, partTypeCore_kw t after h]

end SciVerif.C13
