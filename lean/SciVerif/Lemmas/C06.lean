import SciVerif.Lemmas.C08
import SciVerif.Model.C06

/-!
Helper lemmas for C06: the quantity model at the real numbers with positive unit factors.
-/
namespace SciVerif.C06
open SciVerif.C08

set_option linter.unusedSectionVars false

variable {ι : Type} [DecidableEq ι]

/-- all stored exponents have a non-zero denominator (true for every Fraction the code builds
    from ints / pairs with non-zero second entry) -/
def BU.WF (b : BU ι) : Prop := ∀ p ∈ b, p.2.den ≠ 0

/-- every unit factor of the tables is positive -/
def EnvPos (env : ι → UnitInfo ℝ) : Prop := ∀ u, 0 < (env u).factor

theorem toRat_cast (a : Frac) : ((a.toRat : ℚ) : ℝ) = (a.num : ℝ) / (a.den : ℝ) := by
  simp [Frac.toRat]

theorem toRat_add (a b : Frac) (ha : a.den ≠ 0) (hb : b.den ≠ 0) :
    (a.add b).toRat = a.toRat + b.toRat := by
  have h1 : (a.den : ℚ) ≠ 0 := Int.cast_ne_zero.mpr ha
  have h2 : (b.den : ℚ) ≠ 0 := Int.cast_ne_zero.mpr hb
  simp only [Frac.toRat, Frac.add]; push_cast; field_simp

theorem toRat_sub (a b : Frac) (ha : a.den ≠ 0) (hb : b.den ≠ 0) :
    (a.sub b).toRat = a.toRat + b.neg.toRat := by
  have h1 : (a.den : ℚ) ≠ 0 := Int.cast_ne_zero.mpr ha
  have h2 : (b.den : ℚ) ≠ 0 := Int.cast_ne_zero.mpr hb
  simp only [Frac.toRat, Frac.sub, Frac.neg]; push_cast; field_simp; ring

theorem toRat_neg (a : Frac) : a.neg.toRat = -a.toRat := by
  simp only [Frac.toRat, Frac.neg]; push_cast; ring

theorem toRat_mul (a b : Frac) : (a.mul b).toRat = a.toRat * b.toRat := by
  simp only [Frac.toRat, Frac.mul]; push_cast
  rw [mul_div_mul_comm]

theorem toRat_zero_num (a : Frac) (h : a.num = 0) : a.toRat = 0 := by
  simp [Frac.toRat, h]

/-- the factor one dict entry contributes -/
noncomputable def F (env : ι → UnitInfo ℝ) (p : ι × Frac) : ℝ := unitFactor env p.1 p.2

theorem F_eq (env : ι → UnitInfo ℝ) (p : ι × Frac) :
    F env p = (env p.1).factor ^ ((p.2.toRat : ℚ) : ℝ) := rfl

theorem F_pos (env : ι → UnitInfo ℝ) (h : EnvPos env) (p : ι × Frac) : 0 < F env p := by
  rw [F_eq]; exact Real.rpow_pos_of_pos (h _) _

theorem foldl_mul {α : Type} (f : α → ℝ) (l : List α) (acc : ℝ) :
    l.foldl (fun a p => a * f p) acc = acc * (l.map f).prod := by
  induction l generalizing acc with
  | nil => simp
  | cons h t ih => simp [ih, mul_assoc]

theorem magnitude_eq (env : ι → UnitInfo ℝ) (b : BU ι) :
    b.magnitude env = (b.map (F env)).prod := by
  have := foldl_mul (F env) b 1
  simpa [BU.magnitude, F] using this

theorem magnitude_pos (env : ι → UnitInfo ℝ) (h : EnvPos env) (b : BU ι) : 0 < b.magnitude env := by
  rw [magnitude_eq]
  apply List.prod_pos
  intro x hx
  obtain ⟨p, _, rfl⟩ := List.mem_map.mp hx
  exact F_pos env h p

theorem magnitude_cons (env : ι → UnitInfo ℝ) (p : ι × Frac) (b : BU ι) :
    BU.magnitude env (p :: b) = F env p * b.magnitude env := by
  simp [magnitude_eq]

/-- `baseunits[u] = f(baseunits[u]) if u in baseunits else g` multiplies the factor by `x^g`
    whenever `f` adds `g` to the exponent. -/
theorem magnitude_upd (env : ι → UnitInfo ℝ) (hpos : EnvPos env) (u : ι) (f : Frac → Frac) (g : Frac)
    (hf : ∀ e : Frac, e.den ≠ 0 → (f e).toRat = e.toRat + g.toRat) (b : BU ι) (hb : b.WF) :
    (b.upd u f g).magnitude env = b.magnitude env * F env (u, g) := by
  induction b with
  | nil => simp [BU.upd, magnitude_eq]
  | cons p t ih =>
    obtain ⟨k, e⟩ := p
    have he : e.den ≠ 0 := hb (k, e) (by simp)
    have ht : BU.WF t := fun q hq => hb q (by simp [hq])
    by_cases hk : k = u
    · subst hk
      simp only [BU.upd, if_true, magnitude_cons]
      rw [F_eq, F_eq, F_eq]
      simp only
      rw [hf e he]
      push_cast
      rw [Real.rpow_add (hpos k)]
      ring
    · simp only [BU.upd, hk, if_false, magnitude_cons, ih ht]
      ring

theorem upd_WF (u : ι) (f : Frac → Frac) (g : Frac) (hg : g.den ≠ 0)
    (hf : ∀ e : Frac, e.den ≠ 0 → (f e).den ≠ 0) (b : BU ι) (hb : b.WF) : (b.upd u f g).WF := by
  induction b with
  | nil => intro p hp; simp [BU.upd] at hp; subst hp; exact hg
  | cons p t ih =>
    obtain ⟨k, e⟩ := p
    have he : e.den ≠ 0 := hb (k, e) (by simp)
    have ht : BU.WF t := fun q hq => hb q (by simp [hq])
    by_cases hk : k = u
    · subst hk
      intro q hq
      simp only [BU.upd, if_true, List.mem_cons] at hq
      rcases hq with rfl | hq
      · exact hf e he
      · exact ht q hq
    · intro q hq
      simp only [BU.upd, hk, if_false, List.mem_cons] at hq
      rcases hq with rfl | hq
      · exact he
      · exact ih ht q hq

/-- deleting the entries with numerator 0 does not change the factor (`x^0 = 1`) -/
theorem magnitude_new (env : ι → UnitInfo ℝ) (b : BU ι) :
    (BU.new b).magnitude env = b.magnitude env := by
  induction b with
  | nil => rfl
  | cons p t ih =>
    by_cases h : p.2.num = 0
    · have : BU.new (p :: t) = BU.new t := by simp [BU.new, h]
      rw [this, ih, magnitude_cons, F_eq, toRat_zero_num _ h]
      simp
    · have : BU.new (p :: t) = p :: BU.new t := by simp [BU.new, h]
      rw [this, magnitude_cons, magnitude_cons, ih]

theorem new_WF (b : BU ι) (hb : b.WF) : (BU.new b).WF := fun p hp =>
  hb p (List.mem_of_mem_filter hp)

/-- the merge loop of `BaseUnits.__add__` / `__sub__` -/
theorem magnitude_merge (env : ι → UnitInfo ℝ) (hpos : EnvPos env) (f : Frac → Frac → Frac) (g : Frac → Frac)
    (hf : ∀ x e : Frac, x.den ≠ 0 → e.den ≠ 0 → (f x e).toRat = e.toRat + (g x).toRat)
    (hfd : ∀ x e : Frac, x.den ≠ 0 → e.den ≠ 0 → (f x e).den ≠ 0)
    (hgd : ∀ x : Frac, x.den ≠ 0 → (g x).den ≠ 0)
    (b a : BU ι) (ha : a.WF) (hb : b.WF) :
    (b.foldl (fun acc p => acc.upd p.1 (f p.2) (g p.2)) a).WF ∧
    (b.foldl (fun acc p => acc.upd p.1 (f p.2) (g p.2)) a).magnitude env =
      a.magnitude env * (b.map (fun p => F env (p.1, g p.2))).prod := by
  induction b generalizing a with
  | nil => simp [ha]
  | cons p t ih =>
    have hp : p.2.den ≠ 0 := hb p (by simp)
    have ht : BU.WF t := fun q hq => hb q (by simp [hq])
    have hw := upd_WF p.1 (f p.2) (g p.2) (hgd _ hp) (fun e he => hfd _ e hp he) a ha
    obtain ⟨w, m⟩ := ih (a.upd p.1 (f p.2) (g p.2)) hw ht
    refine ⟨by simpa using w, ?_⟩
    simp only [List.foldl_cons, List.map_cons, List.prod_cons]
    rw [m, magnitude_upd env hpos p.1 (f p.2) (g p.2) (fun e he => hf _ e hp he) a ha]
    ring

theorem magnitude_addU (env : ι → UnitInfo ℝ) (hpos : EnvPos env) (a b : BU ι) (ha : a.WF) (hb : b.WF) :
    (a.addU b).WF ∧ (a.addU b).magnitude env = a.magnitude env * b.magnitude env := by
  have h := magnitude_merge env hpos (fun x e => e.add x) (fun x => x)
    (fun x e hx he => toRat_add e x he hx)
    (fun x e hx he => by simp [Frac.add]; exact ⟨he, hx⟩) (fun x hx => hx) b a ha hb
  refine ⟨new_WF _ h.1, ?_⟩
  rw [BU.addU, magnitude_new, h.2, magnitude_eq env b]

theorem prod_neg (env : ι → UnitInfo ℝ) (hpos : EnvPos env) (b : BU ι) :
    (b.map (fun p => F env (p.1, p.2.neg))).prod = (b.magnitude env)⁻¹ := by
  induction b with
  | nil => simp [magnitude_eq]
  | cons p t ih =>
    simp only [List.map_cons, List.prod_cons, ih, magnitude_cons, mul_inv]
    congr 1
    rw [F_eq, F_eq]
    simp only [toRat_neg]
    push_cast
    rw [Real.rpow_neg (hpos _).le]

theorem magnitude_subU (env : ι → UnitInfo ℝ) (hpos : EnvPos env) (a b : BU ι) (ha : a.WF) (hb : b.WF) :
    (a.subU b).WF ∧ (a.subU b).magnitude env = a.magnitude env / b.magnitude env := by
  have h := magnitude_merge env hpos (fun x e => e.sub x) (fun x => x.neg)
    (fun x e hx he => toRat_sub e x he hx)
    (fun x e hx he => by simp [Frac.sub]; exact ⟨he, hx⟩) (fun x hx => by simpa [Frac.neg] using hx) b a ha hb
  refine ⟨new_WF _ h.1, ?_⟩
  rw [BU.subU, magnitude_new, h.2, prod_neg env hpos, div_eq_mul_inv]

/-- `BaseUnits.__mul__` : every exponent times `p` raises the factor to the power `p` -/
theorem magnitude_scale (env : ι → UnitInfo ℝ) (hpos : EnvPos env) (a : BU ι) (p : Frac) :
    (a.scale p).magnitude env = (a.magnitude env) ^ ((p.toRat : ℚ) : ℝ) := by
  rw [BU.scale, magnitude_new]
  induction a with
  | nil => simp [magnitude_eq]
  | cons q t ih =>
    simp only [List.map_cons, magnitude_cons, ih]
    rw [Real.mul_rpow (F_pos env hpos q).le (magnitude_pos env hpos t).le]
    congr 1
    rw [F_eq, F_eq]
    simp only [toRat_mul]
    push_cast
    rw [Real.rpow_mul (hpos _).le]

theorem scale_WF (a : BU ι) (p : Frac) (ha : a.WF) (hp : p.den ≠ 0) : (a.scale p).WF := by
  apply new_WF
  intro q hq
  obtain ⟨x, hx, rfl⟩ := List.mem_map.mp hq
  simp [Frac.mul]
  exact ⟨ha x hx, hp⟩

/-! folding of units when the dimensions vanish -/

theorem mul_exact_value (m : Mag ℝ) (f : ℝ) : (m.mul (Mag.exact f)).value = m.value * f := by
  simp [Mag.mul, Mag.exact]

theorem fold_value (env : ι → UnitInfo ℝ) (D : ι × Frac → Bool) (b : BU ι) (m : Mag ℝ) :
    (b.foldl (fun m p => if D p then m else m.mul (Mag.exact (unitFactor env p.1 p.2))) m).value =
      m.value * ((b.filter (fun p => !D p)).map (F env)).prod := by
  induction b generalizing m with
  | nil => simp
  | cons p t ih =>
    simp only [List.foldl_cons]
    rw [ih]
    by_cases h : D p
    · simp [h]
    · simp [h, mul_exact_value, F, mul_assoc]

theorem prod_split (env : ι → UnitInfo ℝ) (D : ι × Frac → Bool) (b : BU ι) :
    ((b.filter (fun p => !D p)).map (F env)).prod * ((b.filter D).map (F env)).prod = (b.map (F env)).prod := by
  induction b with
  | nil => simp
  | cons p t ih =>
    by_cases h : D p
    · simp [h, ← ih]; ring
    · simp [h, ← ih]; ring

/-- the constructor's folding step does not change the value in base dimensions -/
theorem new_base (env : ι → UnitInfo ℝ) (m : Mag ℝ) (b : BU ι) :
    (Qty.new env m b).base env = m.value * b.magnitude env := by
  unfold Qty.new
  split
  · simp only [Qty.base]
    rw [fold_value env (fun p => (unitDims env p.1 p.2).nodim), magnitude_new, magnitude_eq, magnitude_eq,
      ← prod_split env (fun p => (unitDims env p.1 p.2).nodim) b]
    ring
  · rfl

theorem Frac.beq_comm (a b : Frac) : a.beq b = b.beq a := by
  simp only [Frac.beq]
  rw [Bool.eq_iff_iff]
  simp only [beq_iff_eq]
  exact eq_comm

theorem Dims.beq_comm (a b : Dims) : Dims.beq a b = Dims.beq b a := by
  unfold Dims.beq
  congr 1
  induction a generalizing b with
  | nil => cases b <;> simp
  | cons x t ih =>
    cases b with
    | nil => simp
    | cons y s => simp [List.zipWith, Frac.beq_comm x y, ih s]

end SciVerif.C06
