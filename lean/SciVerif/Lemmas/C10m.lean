import SciVerif.Lemmas.C10i

/-! C10: pass 1–4 of `preprocess` on the SHORT notation of parenthesis-free formulas.
    Items (species with an optional count) separated by gaps (blanks or ` + `). -/
set_option linter.unusedSimpArgs false
set_option linter.unusedVariables false
namespace SciVerif.C10

/-- head of the text that follows an item: nothing, a capital, `[` or a blank -/
def Follow (w : Str) : Prop := w = [] ∨ ∃ c r, w = c :: r ∧ (isUp c = true ∨ c = '[' ∨ c = ' ')

def AllDig (dg : Str) : Prop := ∀ c ∈ dg, isDig c = true

theorem follow_facts (w : Str) (h : Follow w) :
    w = [] ∨ ∃ c r, w = c :: r ∧ c ≠ '{' ∧ isDig c = false ∧ isLow c = false := by
  rcases h with rfl | ⟨c, r, rfl, hc⟩
  · exact Or.inl rfl
  · refine Or.inr ⟨c, r, rfl, ?_⟩
    rcases hc with hu | rfl | rfl
    · have hr := up_range c hu
      refine ⟨ne_of_toNat _ _ (by show c.toNat ≠ 123; omega), ?_, ?_⟩
      · simp only [isDig, Bool.and_eq_false_iff, decide_eq_false_iff_not]
        right; intro h; have : c.toNat ≤ 57 := h; omega
      · simp only [isLow, Bool.and_eq_false_iff, decide_eq_false_iff_not]
        left; intro h; have : 97 ≤ c.toNat := h; omega
    · exact ⟨by decide, by decide, by decide⟩
    · exact ⟨by decide, by decide, by decide⟩

theorem matchBrace_nb (br w : Str) (hb : BraceOK br) (hw : ∀ c r, w = c :: r → c ≠ '{') :
    matchBrace (br ++ w) = (br, w) := by
  rcases hb with rfl | ⟨body, hne, hbody, rfl⟩
  · cases w with
    | nil => rfl
    | cons c r =>
      have := hw c r rfl
      simp only [List.nil_append, matchBrace]
      split
      · rename_i heq; simp only [List.cons.injEq] at heq; exact absurd heq.1 this
      · rfl
  · have hcls : ∀ c ∈ body, (isDig c || c == '+' || c == '-') = true := by
      intro c hc
      rcases hbody c hc with h | rfl | rfl
      · simp [h]
      · decide
      · decide
    have hq : (isDig '}' || '}' == '+' || '}' == '-') = false := by decide
    have h1 : (body ++ '}' :: w).takeWhile (fun c => isDig c || c == '+' || c == '-') = body := by
      rw [List.takeWhile_append_of_pos hcls, List.takeWhile_cons, hq]
      simp
    have h2 : (body ++ '}' :: w).dropWhile (fun c => isDig c || c == '+' || c == '-') = '}' :: w := by
      rw [List.dropWhile_append_of_pos hcls, List.dropWhile_cons, hq]
      simp
    have he : body.isEmpty = false := by
      cases body with
      | nil => exact absurd rfl hne
      | cons a t => rfl
    simp only [List.cons_append, List.append_assoc, List.singleton_append, List.nil_append, matchBrace,
      List.span_eq_takeWhile_dropWhile]
    rw [h2, h1]
    simp [he]

theorem span_dig_append (dg w : Str) (hd : AllDig dg) (hw : ∀ c r, w = c :: r → isDig c = false) :
    (dg ++ w).span isDig = (dg, w) := by
  rw [List.span_eq_takeWhile_dropWhile, List.takeWhile_append_of_pos hd, List.dropWhile_append_of_pos hd]
  cases w with
  | nil => simp
  | cons c r => simp [List.takeWhile_cons, List.dropWhile_cons, hw c r rfl]

theorem dig_head (dg w : Str) (hd : AllDig dg) (hne : dg ≠ []) :
    ∃ c r, dg ++ w = c :: r ∧ isDig c = true := by
  cases dg with
  | nil => exact absurd rfl hne
  | cons c t => exact ⟨c, t ++ w, rfl, hd c (by simp)⟩

theorem dig_not_letter (c : Char) (h : isDig c = true) : isUp c = false ∧ isLow c = false ∧ c ≠ '{' := by
  have hr := dig_range c h
  refine ⟨(inert_of_isDig c h).1, ?_, ne_of_toNat _ _ (by show c.toNat ≠ 123; omega)⟩
  simp only [isLow, Bool.and_eq_false_iff, decide_eq_false_iff_not]
  left; intro h; have : 97 ≤ c.toNat := h; omega

/-- a species with an optional count -/
structure Item where
  sp : Str
  dg : Str

def Item.text (it : Item) : Str := it.sp ++ it.dg
def Item.OK (it : Item) : Prop := SpeciesShape it.sp ∧ AllDig it.dg
/-- a single capital and nothing else: the only items whose capital merges with a following one -/
def Item.bare (it : Item) : Prop := (∃ u, isUp u = true ∧ it.sp = [u]) ∧ it.dg = []

/-- the species pattern matches exactly an item, unless it is a bare capital directly followed
    by another capital -/
theorem matchP_item (it : Item) (w : Str) (hok : it.OK) (hf : Follow w)
    (hnm : ¬ (it.bare ∧ ∃ c r, w = c :: r ∧ isUp c = true)) :
    ∃ k sym br, matchP (it.text ++ w) = some (k, sym, br, it.dg, w) ∧ k ≤ 1 ∧ sym ++ br = it.sp := by
  obtain ⟨⟨sym, br, hsp, hb, hsym⟩, hd⟩ := hok
  have hwf := follow_facts w hf
  have hnb : ∀ c r, it.dg ++ w = c :: r → c ≠ '{' := by
    intro c r e
    by_cases hdn : it.dg = []
    · rw [hdn] at e
      rcases hwf with rfl | ⟨c', r', rfl, h1, _, _⟩
      · cases e
      · simp only [List.nil_append, List.cons.injEq] at e; rw [← e.1]; exact h1
    · obtain ⟨c', r', e', hc'⟩ := dig_head it.dg w hd hdn
      rw [e'] at e; simp only [List.cons.injEq] at e; rw [← e.1]; exact (dig_not_letter c' hc').2.2
  have hnd : ∀ c r, w = c :: r → isDig c = false := by
    intro c r e
    rcases hwf with rfl | ⟨c', r', rfl, _, h2, _⟩
    · cases e
    · simp only [List.cons.injEq] at e; rw [← e.1]; exact h2
  have hmb := matchBrace_nb br (it.dg ++ w) hb hnb
  have hsd := span_dig_append it.dg w hd hnd
  have htext : it.text ++ w = sym ++ (br ++ (it.dg ++ w)) := by simp [Item.text, hsp, List.append_assoc]
  rw [htext]
  rcases hsym with ⟨u, hu, rfl⟩ | ⟨u, l, hu, hl, rfl⟩ | ⟨x, hx, rfl⟩
  · refine ⟨1, [u], br, ?_, le_refl 1, hsp.symm⟩
    have hhead : br ++ (it.dg ++ w) = [] ∨ ∃ c r, br ++ (it.dg ++ w) = c :: r ∧ isUp c = false ∧ isLow c = false := by
      rcases hb with rfl | ⟨body, _, _, rfl⟩
      · by_cases hdn : it.dg = []
        · rw [hdn]
          rcases hwf with rfl | ⟨c', r', rfl, _, _, h3⟩
          · exact Or.inl rfl
          · refine Or.inr ⟨c', r', rfl, ?_, h3⟩
            by_contra hup
            exact hnm ⟨⟨⟨u, hu, by simpa using hsp⟩, hdn⟩, c', r', rfl, by simpa using hup⟩
        · obtain ⟨c', r', e', hc'⟩ := dig_head it.dg w hd hdn
          exact Or.inr ⟨c', r', by simpa using e', (dig_not_letter c' hc').1, (dig_not_letter c' hc').2.1⟩
      · exact Or.inr ⟨'{', _, rfl, by decide, by decide⟩
    show matchP (u :: (br ++ (it.dg ++ w))) = _
    rw [matchP_up1 u _ hu hhead, hmb, hsd]
  · refine ⟨1, [u, l], br, ?_, le_refl 1, hsp.symm⟩
    show matchP (u :: l :: (br ++ (it.dg ++ w))) = _
    rw [matchP_up2 u l _ hu hl (low_inert l hl).1, hmb, hsd]
  · refine ⟨0, ['[', x, ']'], br, ?_, by omega, hsp.symm⟩
    have hxx : (x == 'p' || x == 'n' || x == 'e') = true := by
      rcases hx with rfl | rfl | rfl <;> decide
    show matchP ('[' :: x :: ']' :: (br ++ (it.dg ++ w))) = _
    rw [matchP_nuc x _ hxx, hmb, hsd]

theorem startsP_up (c : Char) (r : Str) (h : isUp c = true) : startsP (c :: r) = true := by
  simp only [startsP, matchP, h, if_true]
  split <;> (try split) <;> simp

theorem startsP_shape (sp w : Str) (h : SpeciesShape sp) : startsP (sp ++ w) = true := by
  obtain ⟨sym, br, rfl, _, hsym⟩ := h
  rcases hsym with ⟨u, hu, rfl⟩ | ⟨u, l, hu, _, rfl⟩ | ⟨x, hx, rfl⟩
  · exact startsP_up u _ hu
  · exact startsP_up u _ hu
  · have hxx : (x == 'p' || x == 'n' || x == 'e') = true := by
      rcases hx with rfl | rfl | rfl <;> decide
    show startsP ('[' :: x :: ']' :: (br ++ w)) = true
    simp [startsP, matchP_nuc x _ hxx]


/-! ### chains of items -/

/-- what stands between two items: `n` blanks (the implicit addition, unresolved) or ` + ` -/
inductive Gap where
  | blanks (n : Nat)
  | plus
  deriving DecidableEq

def Gap.text : Gap → Str
  | .blanks n => List.replicate n ' '
  | .plus => symAdd

abbrev Rest := List (Gap × Item)

def chainText (it : Item) : Rest → Str
  | [] => it.text
  | (g, it2) :: t => it.text ++ g.text ++ chainText it2 t

def restOK (r : Rest) : Prop := ∀ gi ∈ r, gi.2.OK

theorem chainText_head (it : Item) (r : Rest) (hok : it.OK) :
    ∃ c t, chainText it r = c :: t ∧ (isUp c = true ∨ c = '[') := by
  obtain ⟨⟨sym, br, hsp, _, hsym⟩, _⟩ := hok
  have : ∃ c t, it.sp = c :: t ∧ (isUp c = true ∨ c = '[') := by
    rcases hsym with ⟨u, hu, rfl⟩ | ⟨u, l, hu, _, rfl⟩ | ⟨x, _, rfl⟩
    · exact ⟨u, br, by simpa using hsp, Or.inl hu⟩
    · exact ⟨u, l :: br, by simpa using hsp, Or.inl hu⟩
    · exact ⟨'[', x :: ']' :: br, by simpa using hsp, Or.inr rfl⟩
  obtain ⟨c, t, e, hc⟩ := this
  cases r with
  | nil => exact ⟨c, t ++ it.dg, by simp [chainText, Item.text, e], hc⟩
  | cons gi r' => exact ⟨c, t ++ it.dg ++ gi.1.text ++ chainText gi.2 r', by simp [chainText, Item.text, e], hc⟩

/-- the text after an item (gap and the rest of the chain) -/
def after : Rest → Str
  | [] => []
  | (g, it2) :: t => g.text ++ chainText it2 t

theorem chainText_eq (it : Item) (r : Rest) : chainText it r = it.text ++ after r := by
  cases r with
  | nil => simp [chainText, after]
  | cons gi t => obtain ⟨g, it2⟩ := gi; simp [chainText, after, List.append_assoc]

theorem follow_after (r : Rest) (h : restOK r) : Follow (after r) := by
  cases r with
  | nil => exact Or.inl rfl
  | cons gi t =>
    obtain ⟨g, it2⟩ := gi
    have hok : it2.OK := h (g, it2) (by simp)
    obtain ⟨c, t', e, hc⟩ := chainText_head it2 t hok
    cases g with
    | blanks n =>
      cases n with
      | zero =>
        refine Or.inr ⟨c, t', by simp [after, Gap.text, e], ?_⟩
        rcases hc with h | h
        · exact Or.inl h
        · exact Or.inr (Or.inl h)
      | succ n => exact Or.inr ⟨' ', List.replicate n ' ' ++ chainText it2 t, by simp [after, Gap.text, List.replicate_succ], Or.inr (Or.inr rfl)⟩
    | plus => exact Or.inr ⟨' ', '+' :: ' ' :: chainText it2 t, rfl, Or.inr (Or.inr rfl)⟩

/-- the bare capital `it` merges with the next item: no blank in between and a capital follows -/
def merges (it : Item) : Rest → Prop
  | (.blanks 0, it2) :: _ => it.bare ∧ ∃ u t, it2.sp = u :: t ∧ isUp u = true
  | _ => False

noncomputable instance (it : Item) (r : Rest) : Decidable (merges it r) := by
  classical exact inferInstance

/-- the effect of one substitution of pass 1 attempted at the start of item `it` -/
noncomputable def stepAt (it : Item) : Rest → Option Rest
  | [] => none
  | (g, it2) :: t =>
    if merges it ((g, it2) :: t) then
      match stepAt it2 t with
      | some t' => some ((g, it2) :: t')
      | none => some ((.plus, it2) :: t)
    else
      match g with
      | .blanks _ => some ((.plus, it2) :: t)
      | .plus => none


/-! ### pass 1 at one position -/

theorem matchP_up_some (c : Char) (r : Str) (h : isUp c = true) :
    ∃ k sym br dg rest, matchP (c :: r) = some (k + 1, sym, br, dg, rest) := by
  simp only [matchP, h, if_true, List.span_eq_takeWhile_dropWhile, List.takeWhile_cons, List.length_cons]
  split
  · split <;> exact ⟨_, _, _, _, _, rfl⟩
  · exact ⟨_, _, _, _, _, rfl⟩

theorem matchP_cons_up (u u2 : Char) (w' : Str) (hu : isUp u = true) (hu2 : isUp u2 = true) :
    matchP (u :: u2 :: w') =
      (matchP (u2 :: w')).map fun r => (r.1 + 1, u :: r.2.1, r.2.2.1, r.2.2.2.1, r.2.2.2.2) := by
  simp only [matchP, hu, hu2, if_true, List.span_eq_takeWhile_dropWhile, List.takeWhile_cons,
    List.dropWhile_cons, List.length_cons]
  split
  · split <;> simp
  · simp

theorem pass1At_cons_up (u u2 : Char) (w' : Str) (hu : isUp u = true) (hu2 : isUp u2 = true) :
    pass1At (u :: u2 :: w') =
      some (match pass1At (u2 :: w') with
        | some x => u :: x
        | none => u :: symAdd ++ (u2 :: w')) := by
  obtain ⟨k, sym, br, dg, rest, hm⟩ := matchP_up_some u2 w' hu2
  have hm2 := matchP_cons_up u u2 w' hu hu2
  rw [hm] at hm2
  simp only [Option.map_some] at hm2
  simp only [pass1At, hm, hm2]
  by_cases hs : startsP (List.dropWhile isWs rest) = true
  · simp [hs]
  · simp only [hs, Bool.false_eq_true, if_false]
    have h2 : k + 1 + 1 ≥ 2 := by omega
    simp only [h2, if_true]
    by_cases hk : k + 1 ≥ 2
    · simp only [hk, if_true]
      have : k + 1 + 1 - 1 = (k + 1 - 1) + 1 := by omega
      rw [this]
      simp [List.take_succ_cons, List.drop_succ_cons]
    · have hk0 : k = 0 := by omega
      subst hk0
      simp

/-- Lemma A: pass 1 attempted at the start of an item of a chain -/
theorem pass1At_chain (r : Rest) : ∀ (it : Item), it.OK → restOK r →
    pass1At (chainText it r) = (stepAt it r).map (chainText it) := by
  induction r with
  | nil =>
    intro it hok _
    obtain ⟨k, sym, br, hm, hk, _⟩ := matchP_item it [] hok (Or.inl rfl) (by rintro ⟨_, c, r, e, _⟩; cases e)
    have hk2 : ¬ k ≥ 2 := by omega
    simp only [List.append_nil] at hm
    have hs0 : startsP ([] : Str) = false := rfl
    simp only [chainText, stepAt, pass1At, hm, List.dropWhile_nil, hs0, hk2, if_false,
      Bool.false_eq_true, Option.map_none]
  | cons gi t ih =>
    intro it hok hr
    obtain ⟨g, it2⟩ := gi
    have hok2 : it2.OK := hr (g, it2) (by simp)
    have hr2 : restOK t := fun x hx => hr x (by simp [hx])
    by_cases hmg : merges it ((g, it2) :: t)
    · -- the capital run continues into the next item
      have hg : g = .blanks 0 := by
        cases g with
        | blanks n => cases n with
          | zero => rfl
          | succ n => simp [merges] at hmg
        | plus => simp [merges] at hmg
      subst hg
      obtain ⟨⟨⟨u, hu, hsp⟩, hdg⟩, u2, t2, hsp2, hu2⟩ := hmg
      have hhead : ∃ w', chainText it2 t = u2 :: w' := by
        cases t with
        | nil => exact ⟨t2 ++ it2.dg, by simp [chainText, Item.text, hsp2]⟩
        | cons gj t' => exact ⟨t2 ++ it2.dg ++ gj.1.text ++ chainText gj.2 t', by simp [chainText, Item.text, hsp2]⟩
      obtain ⟨w', hw'⟩ := hhead
      have htext : chainText it ((Gap.blanks 0, it2) :: t) = u :: u2 :: w' := by
        simp [chainText, Item.text, hsp, hdg, Gap.text, hw']
      have hmg' : merges it ((Gap.blanks 0, it2) :: t) := ⟨⟨⟨u, hu, hsp⟩, hdg⟩, u2, t2, hsp2, hu2⟩
      rw [htext, pass1At_cons_up u u2 w' hu hu2, ← hw', ih it2 hok2 hr2]
      simp only [stepAt, hmg', if_true]
      cases hst : stepAt it2 t with
      | some t' =>
        simp [chainText, Item.text, hsp, hdg, Gap.text]
      | none =>
        simp [chainText, Item.text, hsp, hdg, Gap.text, symAdd]
    · -- the pattern matches exactly this item
      have hfol := follow_after ((g, it2) :: t) hr
      have hnm : ¬ (it.bare ∧ ∃ c r, after ((g, it2) :: t) = c :: r ∧ isUp c = true) := by
        rintro ⟨hb, c, r, e, hc⟩
        apply hmg
        cases g with
        | plus => simp [after, Gap.text, symAdd] at e; rw [← e.1] at hc; exact absurd hc (by decide)
        | blanks n =>
          cases n with
          | succ n =>
            simp [after, Gap.text, List.replicate_succ] at e
            rw [← e.1] at hc; exact absurd hc (by decide)
          | zero =>
            obtain ⟨c2, t2, e2, hc2⟩ := chainText_head it2 t hok2
            simp only [after, Gap.text, List.replicate_zero, List.nil_append] at e
            rw [e2] at e
            simp only [List.cons.injEq] at e
            obtain ⟨⟨sym, br, hsp2, _, hsym⟩, _⟩ := hok2
            refine ⟨hb, c, ?_⟩
            rcases hsym with ⟨u, hu, rfl⟩ | ⟨u, l, hu, _, rfl⟩ | ⟨x, _, rfl⟩
            · exact ⟨br, by
                have : it2.sp = u :: br := by simpa using hsp2
                have e3 : chainText it2 t = u :: (br ++ it2.dg ++ after t) := by
                  rw [chainText_eq]; simp [Item.text, this]
                rw [e3] at e2; simp only [List.cons.injEq] at e2
                rw [this, ← e.1, e2.1], hc⟩
            · exact ⟨l :: br, by
                have : it2.sp = u :: l :: br := by simpa using hsp2
                have e3 : chainText it2 t = u :: (l :: br ++ it2.dg ++ after t) := by
                  rw [chainText_eq]; simp [Item.text, this]
                rw [e3] at e2; simp only [List.cons.injEq] at e2
                rw [this, ← e.1, e2.1], hc⟩
            · exfalso
              have : it2.sp = '[' :: x :: ']' :: br := by simpa using hsp2
              have e3 : chainText it2 t = '[' :: (x :: ']' :: br ++ it2.dg ++ after t) := by
                rw [chainText_eq]; simp [Item.text, this]
              rw [e3] at e2; simp only [List.cons.injEq] at e2
              rw [← e.1, ← e2.1] at hc
              exact absurd hc (by decide)
      obtain ⟨k, sym, br, hm, hk, hsb⟩ := matchP_item it _ hok hfol hnm
      have hk2 : ¬ k ≥ 2 := by omega
      rw [chainText_eq, show after ((g, it2) :: t) = g.text ++ chainText it2 t from rfl] at *
      simp only [pass1At, hm, stepAt, hmg, if_false, hk2]
      cases g with
      | plus =>
        have : startsP (List.dropWhile isWs (Gap.plus.text ++ chainText it2 t)) = false := by
          simp [Gap.text, symAdd, List.dropWhile_cons, isWs, startsP_inert '+' _ (by decide)]
        simp [this]
      | blanks n =>
        have hdw : List.dropWhile isWs ((Gap.blanks n).text ++ chainText it2 t) = chainText it2 t := by
          obtain ⟨c2, t2, e2, hc2⟩ := chainText_head it2 t hok2
          have hws : isWs c2 = false := by
            rcases hc2 with h | rfl
            · exact (word_plain c2 (Or.inl (up_range c2 h))).1.2.2.2
            · decide
          rw [e2]
          simp only [Gap.text]
          rw [List.dropWhile_append_of_pos (by intro c hc; rw [List.eq_of_mem_replicate hc]; decide)]
          simp [List.dropWhile_cons, hws]
        have hsp : startsP (chainText it2 t) = true := by
          rw [chainText_eq, Item.text, List.append_assoc]; exact startsP_shape _ _ hok2.1
        simp only [Gap.text] at hdw
        simp only [Option.map_some, chainText, Gap.text]
        simp only [hdw, hsp, if_true]
        congr 1
        rw [hsb]
        simp [Item.text, List.append_assoc]


/-! ### one step of pass 1 on a chain, and its fixed point -/

theorem pass1Step_inert (w x : Str) (hw : ∀ c ∈ w, Inert c) :
    pass1Step (w ++ x) = (pass1Step x).map (w ++ ·) := by
  induction w with
  | nil => simp
  | cons c t ih =>
    have hc := hw c (by simp)
    simp only [List.cons_append, pass1Step, pass1At, matchP_none c _ hc, ih (fun y hy => hw y (by simp [hy]))]
    cases pass1Step x <;> simp

theorem item_tail_inert (it : Item) (hok : it.OK) :
    ∃ c0 tl, it.text = c0 :: tl ∧ ∀ c ∈ tl, Inert c := by
  obtain ⟨⟨c0, t, hs, _, ht⟩, _, _, _⟩ := speciesText_of_shape it.sp hok.1
  refine ⟨c0, t ++ it.dg, by simp [Item.text, hs], ?_⟩
  intro c hc
  rcases List.mem_append.mp hc with h | h
  · exact ht c h
  · exact inert_of_isDig c (hok.2 c h)

theorem gap_inert (g : Gap) : ∀ c ∈ g.text, Inert c := by
  cases g with
  | blanks n => intro c hc; rw [List.eq_of_mem_replicate hc]; decide
  | plus => exact inert_symAdd

noncomputable def stepChain (it : Item) : Rest → Option Rest
  | [] => none
  | (g, it2) :: t =>
    match stepAt it ((g, it2) :: t) with
    | some r' => some r'
    | none => (stepChain it2 t).map ((g, it2) :: ·)

/-- Lemma B: `re.sub(…, count=1)` on a chain -/
theorem pass1Step_chain (r : Rest) : ∀ (it : Item), it.OK → restOK r →
    pass1Step (chainText it r) = (stepChain it r).map (chainText it) := by
  induction r with
  | nil =>
    intro it hok hr
    obtain ⟨c0, tl, htx, htl⟩ := item_tail_inert it hok
    have hA := pass1At_chain [] it hok hr
    simp only [chainText, stepAt, Option.map_none] at hA
    simp only [chainText, stepChain, Option.map_none]
    rw [htx] at hA ⊢
    simp only [pass1Step, hA]
    have := pass1Step_inert tl [] htl
    simp only [List.append_nil] at this
    rw [this]; rfl
  | cons gi t ih =>
    intro it hok hr
    obtain ⟨g, it2⟩ := gi
    have hok2 : it2.OK := hr (g, it2) (by simp)
    have hr2 : restOK t := fun x hx => hr x (by simp [hx])
    obtain ⟨c0, tl, htx, htl⟩ := item_tail_inert it hok
    have hA := pass1At_chain ((g, it2) :: t) it hok hr
    cases hst : stepAt it ((g, it2) :: t) with
    | some r' =>
      rw [hst] at hA
      simp only [stepChain, hst, Option.map_some]
      have e : chainText it ((g, it2) :: t) = c0 :: (tl ++ g.text ++ chainText it2 t) := by
        simp [chainText, htx, List.append_assoc]
      rw [e] at hA ⊢
      simp only [pass1Step, hA, Option.map_some]
    | none =>
      rw [hst] at hA
      simp only [stepChain, hst, Option.map_none] at hA ⊢
      have e : chainText it ((g, it2) :: t) = c0 :: (tl ++ (g.text ++ chainText it2 t)) := by
        simp [chainText, htx, List.append_assoc]
      rw [e] at hA ⊢
      simp only [pass1Step, hA]
      rw [pass1Step_inert tl _ htl, pass1Step_inert g.text _ (gap_inert g), ih it2 hok2 hr2]
      cases stepChain it2 t with
      | none => rfl
      | some t' => simp [chainText, htx, List.append_assoc]

def unres : Rest → Nat
  | [] => 0
  | (.blanks _, _) :: t => unres t + 1
  | (.plus, _) :: t => unres t

def allPlus (r : Rest) : Rest := r.map fun gi => (Gap.plus, gi.2)

theorem merges_gap (it it2 : Item) (g : Gap) (t : Rest) (h : merges it ((g, it2) :: t)) : g = .blanks 0 := by
  cases g with
  | blanks n => cases n with
    | zero => rfl
    | succ n => simp [merges] at h
  | plus => simp [merges] at h

theorem stepAt_spec (r : Rest) : ∀ (it : Item) (r' : Rest), stepAt it r = some r' →
    allPlus r' = allPlus r ∧ unres r' + 1 = unres r := by
  induction r with
  | nil => intro it r' h; simp [stepAt] at h
  | cons gi t ih =>
    intro it r' h
    obtain ⟨g, it2⟩ := gi
    by_cases hmg : merges it ((g, it2) :: t)
    · have hg := merges_gap it it2 g t hmg
      subst hg
      simp only [stepAt, hmg, if_true] at h
      cases hst : stepAt it2 t with
      | some t' =>
        rw [hst] at h
        simp only [Option.some.injEq] at h
        subst h
        obtain ⟨e1, e2⟩ := ih it2 t' hst
        exact ⟨by simp only [allPlus, List.map_cons] at e1 ⊢; rw [e1], by simp only [unres]; omega⟩
      | none =>
        rw [hst] at h
        simp only [Option.some.injEq] at h
        subst h
        exact ⟨rfl, by simp [unres]⟩
    · simp only [stepAt, hmg, if_false] at h
      cases g with
      | blanks n =>
        simp only [Option.some.injEq] at h
        subst h
        exact ⟨rfl, by simp [unres]⟩
      | plus => simp at h

theorem stepChain_spec (r : Rest) : ∀ (it : Item) (r' : Rest), stepChain it r = some r' →
    allPlus r' = allPlus r ∧ unres r' + 1 = unres r := by
  induction r with
  | nil => intro it r' h; simp [stepChain] at h
  | cons gi t ih =>
    intro it r' h
    obtain ⟨g, it2⟩ := gi
    simp only [stepChain] at h
    cases hst : stepAt it ((g, it2) :: t) with
    | some r'' =>
      rw [hst] at h
      simp only [Option.some.injEq] at h
      subst h
      exact stepAt_spec _ it r'' hst
    | none =>
      rw [hst] at h
      cases hsc : stepChain it2 t with
      | none => rw [hsc] at h; simp at h
      | some t' =>
        rw [hsc] at h
        simp only [Option.map_some, Option.some.injEq] at h
        subst h
        obtain ⟨e1, e2⟩ := ih it2 t' hsc
        have hg : g = .plus := by
          by_cases hmg : merges it ((g, it2) :: t)
          · simp only [stepAt, hmg, if_true] at hst
            cases h2 : stepAt it2 t <;> rw [h2] at hst <;> simp at hst
          · simp only [stepAt, hmg, if_false] at hst
            cases g with
            | blanks n => simp at hst
            | plus => rfl
        subst hg
        exact ⟨by simp only [allPlus, List.map_cons] at e1 ⊢; rw [e1], by simp only [unres]; exact e2⟩

theorem stepChain_none (r : Rest) : ∀ (it : Item), stepChain it r = none → unres r = 0 := by
  induction r with
  | nil => intro it _; rfl
  | cons gi t ih =>
    intro it h
    obtain ⟨g, it2⟩ := gi
    simp only [stepChain] at h
    cases hst : stepAt it ((g, it2) :: t) with
    | some r'' => rw [hst] at h; simp at h
    | none =>
      rw [hst] at h
      have hg : g = .plus := by
        by_cases hmg : merges it ((g, it2) :: t)
        · simp only [stepAt, hmg, if_true] at hst
          cases h2 : stepAt it2 t <;> rw [h2] at hst <;> simp at hst
        · simp only [stepAt, hmg, if_false] at hst
          cases g with
          | blanks n => simp at hst
          | plus => rfl
      subst hg
      cases hsc : stepChain it2 t with
      | none => simp only [unres]; exact ih it2 hsc
      | some t' => rw [hsc] at h; simp at h

theorem allPlus_of_unres (r : Rest) (h : unres r = 0) : allPlus r = r := by
  induction r with
  | nil => rfl
  | cons gi t ih =>
    obtain ⟨g, it2⟩ := gi
    cases g with
    | blanks n => simp [unres] at h
    | plus => simp only [unres] at h; simp only [allPlus, List.map_cons] at ih ⊢; rw [ih h]

theorem restOK_allPlus (r : Rest) (h : restOK r) : restOK (allPlus r) := by
  intro gi hgi
  simp only [allPlus, List.mem_map] at hgi
  obtain ⟨x, hx, rfl⟩ := hgi
  exact h x hx

/-- pass 1 on a chain: every implicit addition becomes ` + `, whatever the order of resolution -/
theorem pass1_chain (n : Nat) : ∀ (it : Item) (r : Rest) (fuel : Nat), it.OK → restOK r → unres r = n → n ≤ fuel →
    pass1 fuel (chainText it r) = chainText it (allPlus r) := by
  induction n with
  | zero =>
    intro it r fuel hok hr hn _
    rw [allPlus_of_unres r hn]
    have hnone : stepChain it r = none := by
      cases hsc : stepChain it r with
      | none => rfl
      | some r' => have := (stepChain_spec r it r' hsc).2; omega
    cases fuel with
    | zero => rfl
    | succ f => simp [pass1, pass1Step_chain r it hok hr, hnone]
  | succ n ih =>
    intro it r fuel hok hr hn hfuel
    obtain ⟨f, rfl⟩ : ∃ f, fuel = f + 1 := ⟨fuel - 1, by omega⟩
    cases hsc : stepChain it r with
    | none => have := stepChain_none r it hsc; omega
    | some r' =>
      obtain ⟨e1, e2⟩ := stepChain_spec r it r' hsc
      have hr' : restOK r' := by
        intro gi hgi
        have : (Gap.plus, gi.2) ∈ allPlus r' := by
          simp only [allPlus, List.mem_map]; exact ⟨gi, hgi, rfl⟩
        rw [e1] at this
        simp only [allPlus, List.mem_map] at this
        obtain ⟨x, hx, hxe⟩ := this
        have : x.2 = gi.2 := by simpa using congrArg Prod.snd hxe
        rw [← this]; exact hr x hx
      simp only [pass1, pass1Step_chain r it hok hr, hsc, Option.map_some]
      rw [ih it r' f hok hr' (by omega) (by omega), e1]

end SciVerif.C10
