import SciVerif.Lemmas.C13d
/-!
C13 — the escape marks of `DIP._determine_node` after the repair e0ecb06: the mark `$@` itself is
replaced first (`$@` → `$@03`) and restored last, so that a text which *contains* `$@00`, `$@01`,
`$@02` (or any `$@…`) literally comes back unchanged.  `encodeM` / `decodeM` are the repaired
functions (the old `encode` / `decode` of `Model/C13.lean` wrapped in the new outer step); no
Mathlib, so the driver can run them.
-/
namespace SciVerif.C13

def markAt : Str := ['$', '@']
def enc3 : Str := ['$', '@', '0', '3']

/-- `line.replace("$@", "$@03")` — the first encoding step of the repaired code -/
def esc (s : Str) : Str := replaceAll markAt enc3 s

/-- the repaired encoding: the mark itself first, then the three old marks -/
def encodeM (s : Str) : Str := encode (esc s)
/-- the repaired decoding: the three old marks, the mark itself last -/
def decodeM (s : Str) : Str := replaceAll enc3 markAt (decode s)

theorem replaceAll_step' (pat rep : Str) (c : Char) (t : Str) (h : pat.isPrefixOf (c :: t) = false) :
    replaceAll pat rep (c :: t) = c :: replaceAll pat rep t := by
  rw [replaceAll]
  simp [h]

theorem esc_nil : esc [] = [] := replaceAll_nil _ _

theorem esc_mark (t : Str) : esc ('$' :: '@' :: t) = '$' :: '@' :: '0' :: '3' :: esc t := by
  simp only [esc]
  rw [replaceAll]
  simp [markAt, enc3, List.isPrefixOf]

theorem esc_other (c : Char) (t : Str) (h : ¬ (c = '$' ∧ t.head? = some '@')) :
    esc (c :: t) = c :: esc t := by
  simp only [esc]
  by_cases hc : c = '$'
  · subst hc
    have ht : t.head? ≠ some '@' := fun e => h ⟨rfl, e⟩
    rw [replaceAll]
    have : (markAt.isPrefixOf ('$' :: t) && !markAt.isEmpty) = false := by
      cases t with
      | nil => simp [markAt, List.isPrefixOf]
      | cons x r =>
        have hx : x ≠ '@' := fun e => ht (by simp [e])
        simp [markAt, List.isPrefixOf, Ne.symm hx]
    rw [if_neg (by simp [this])]
  · exact replaceAll_head _ _ c (by simp [markAt, Ne.symm hc]) t

/-- the first character is never changed -/
theorem esc_head (s : Str) : (esc s).head? = s.head? := by
  cases s with
  | nil => rw [esc_nil]
  | cons c t =>
    by_cases h : c = '$' ∧ t.head? = some '@'
    · obtain ⟨rfl, ht⟩ := h
      cases t with
      | nil => simp at ht
      | cons x r =>
        have : x = '@' := by simpa using ht
        subst this
        rw [esc_mark]; rfl
    · rw [esc_other c t h]; rfl

/-- case analysis used by every induction below -/
theorem esc_cases (s : Str) :
    s = [] ∨ (∃ t, s = '$' :: '@' :: t) ∨ (∃ c t, s = c :: t ∧ ¬ (c = '$' ∧ t.head? = some '@')) := by
  cases s with
  | nil => exact .inl rfl
  | cons c t =>
    by_cases h : c = '$' ∧ t.head? = some '@'
    · obtain ⟨rfl, ht⟩ := h
      cases t with
      | nil => simp at ht
      | cons x r =>
        have : x = '@' := by simpa using ht
        subst this
        exact .inr (.inl ⟨r, rfl⟩)
    · exact .inr (.inr ⟨c, t, rfl, h⟩)

/-- a four-character mark `$@0d` is not found at the head of `c :: esc t` unless `c :: t` starts with `$@` -/
theorem mark_not_prefix (d : Char) (c : Char) (t : Str) (h : ¬ (c = '$' ∧ t.head? = some '@')) :
    List.isPrefixOf ['$', '@', '0', d] (c :: esc t) = false := by
  by_cases hc : c = '$'
  · subst hc
    have ht : (esc t).head? ≠ some '@' := by rw [esc_head]; exact fun e => h ⟨rfl, e⟩
    cases he : esc t with
    | nil => simp [List.isPrefixOf]
    | cons x r =>
      have hx : x ≠ '@' := fun e => ht (by simp [he, e])
      simp [List.isPrefixOf, Ne.symm hx]
  · simp [List.isPrefixOf, Ne.symm hc]

/-- after the first step no old mark `$@00`, `$@01`, `$@02` occurs: every `$@` is followed by `03` -/
theorem replaceAll_oldmark_esc (d : Char) (hd : d ≠ '3') (rep : Str) :
    ∀ (n : Nat) (s : Str), s.length ≤ n → replaceAll ['$', '@', '0', d] rep (esc s) = esc s := by
  intro n
  induction n with
  | zero =>
    intro s hs
    have : s = [] := List.eq_nil_of_length_eq_zero (by omega)
    subst this; rw [esc_nil]; exact replaceAll_nil _ _
  | succ n ih =>
    intro s hs
    rcases esc_cases s with rfl | ⟨t, rfl⟩ | ⟨c, t, rfl, h⟩
    · rw [esc_nil]; exact replaceAll_nil _ _
    · rw [esc_mark]
      have hlen : t.length ≤ n := by simp at hs; omega
      rw [replaceAll_step' _ _ '$' _ (by simp [List.isPrefixOf, hd]),
        replaceAll_head _ _ '@' (by simp), replaceAll_head _ _ '0' (by simp),
        replaceAll_head _ _ '3' (by simp), ih t hlen]
    · rw [esc_other c t h]
      have hlen : t.length ≤ n := by simp at hs; omega
      rw [replaceAll_step' _ _ c _ (mark_not_prefix d c t h), ih t hlen]

/-- the last decoding step undoes the first encoding step -/
theorem replaceAll_enc3_esc :
    ∀ (n : Nat) (s : Str), s.length ≤ n → replaceAll enc3 markAt (esc s) = s := by
  intro n
  induction n with
  | zero =>
    intro s hs
    have : s = [] := List.eq_nil_of_length_eq_zero (by omega)
    subst this; rw [esc_nil]; exact replaceAll_nil _ _
  | succ n ih =>
    intro s hs
    rcases esc_cases s with rfl | ⟨t, rfl⟩ | ⟨c, t, rfl, h⟩
    · rw [esc_nil]; exact replaceAll_nil _ _
    · rw [esc_mark]
      have hlen : t.length ≤ n := by simp at hs; omega
      rw [replaceAll]
      have : (enc3.isPrefixOf ('$' :: '@' :: '0' :: '3' :: esc t) && !enc3.isEmpty) = true := by
        simp [enc3, List.isPrefixOf]
      rw [if_pos this]
      have hdrop : ('$' :: '@' :: '0' :: '3' :: esc t).drop enc3.length = esc t := rfl
      rw [hdrop, ih t hlen]; rfl
    · rw [esc_other c t h]
      have hlen : t.length ≤ n := by simp at hs; omega
      rw [enc3, replaceAll_step' _ _ c _ (mark_not_prefix '3' c t h), ← enc3, ih t hlen]

/-- the first step adds no backslash and no newline -/
theorem NoEsc_esc : ∀ (n : Nat) (s : Str), s.length ≤ n → NoEsc s → NoEsc (esc s) := by
  intro n
  induction n with
  | zero =>
    intro s hs _
    have : s = [] := List.eq_nil_of_length_eq_zero (by omega)
    subst this; rw [esc_nil]; intro c hc; cases hc
  | succ n ih =>
    intro s hs hne
    rcases esc_cases s with rfl | ⟨t, rfl⟩ | ⟨c, t, rfl, h⟩
    · rw [esc_nil]; intro c hc; cases hc
    · rw [esc_mark]
      have hlen : t.length ≤ n := by simp at hs; omega
      have ht : NoEsc t := fun c hc => hne c (by simp [hc])
      intro c hc
      simp only [List.mem_cons] at hc
      rcases hc with rfl | rfl | rfl | rfl | hc
      · exact ⟨by decide, by decide⟩
      · exact ⟨by decide, by decide⟩
      · exact ⟨by decide, by decide⟩
      · exact ⟨by decide, by decide⟩
      · exact ih t hlen ht c hc
    · rw [esc_other c t h]
      have hlen : t.length ≤ n := by simp at hs; omega
      have ht : NoEsc t := fun x hx => hne x (by simp [hx])
      intro x hx
      rcases List.mem_cons.mp hx with rfl | hx
      · exact hne x (by simp)
      · exact ih t hlen ht x hx

/-- on text without `$` the repaired functions are the old ones -/
theorem esc_noDollar (s : Str) (h : ∀ c ∈ s, c ≠ '$') : esc s = s :=
  replaceAll_id _ _ '$' rfl s h

theorem encodeM_noDollar (s : Str) (h : ∀ c ∈ s, c ≠ '$') : encodeM s = encode s := by
  simp only [encodeM, esc_noDollar s h]

theorem decodeM_noDollar (x : Str) (h : ∀ c ∈ decode x, c ≠ '$') : decodeM x = decode x :=
  replaceAll_id _ _ '$' rfl _ h

end SciVerif.C13
