import SciVerif.Lemmas.C03g

/-! # C03 helper lemmas: tokenising any rendering of a unit AST yields the tokens of the AST, and the
passes evaluate them from the left: `unitSolver T s = evalU T a` for every rendering `s` of `a` -/
namespace SciVerif.C03

/-- value of a leaf text: what `AtomParser` returns (`none`: it raises) -/
def leafVal (T : Tables) (t : Str) : Option Atom :=
  match atomParse T t with
  | .ok v => some v
  | .error _ => none

/-- the AST evaluated with the model's own atom parser and `Atom.__mul__/__truediv__` -/
def evalU (T : Tables) : U → Option Atom
  | .atom p b x => leafVal T (p ++ b ++ x)
  | .sys n x => leafVal T (n ++ x)
  | .num t => leafVal T t
  | .mul a b => match evalU T a, evalU T b with
    | some x, some y => some (x.mul y)
    | _, _ => none
  | .div a b => match evalU T a, evalU T b with
    | some x, some y => x.div y
    | _, _ => none
  | .par a => evalU T a

/-- the token list the tokenising loop produces for the AST -/
def toksOf (T : Tables) : U → List Tok
  | .mul a b => toksOf T a ++ Tok.mul :: toksOf T b
  | .div a b => toksOf T a ++ Tok.div :: toksOf T b
  | .par a => [Tok.par (evalU T a)]
  | a => [Tok.val (evalU T a)]

theorem strip_blank (l : Str) (h : blank l) : strip l = [] := by
  unfold strip
  have : ∀ l : Str, blank l → l.dropWhile isSpace = [] := by
    intro l
    induction l with
    | nil => intro _; rfl
    | cons c t ih =>
      intro hb
      unfold blank at hb
      simp only [List.all_cons, Bool.and_eq_true] at hb
      simp [List.dropWhile_cons, hb.1, ih hb.2]
  rw [this l h]; rfl

theorem strip_padded (l t r : Str) (hl : blank l) (hr : blank r) (hne : t ≠ [])
    (hall : t.all isPlainChar = true) : strip (l ++ t ++ r) = t := by
  rw [List.all_eq_true] at hall
  unfold strip
  obtain ⟨c, t', rfl⟩ : ∃ c t', t = c :: t' := by
    cases t with
    | nil => exact absurd rfl hne
    | cons c t' => exact ⟨c, t', rfl⟩
  have h1 : (l ++ (c :: t') ++ r).dropWhile isSpace = (c :: t') ++ r := by
    have := dropWhile_blank_prefix l c (t' ++ r) hl (plain_not_special c (hall c (by simp))).2.2.2.2.2
    simpa using this
  rw [h1]
  rcases List.eq_nil_or_concat (c :: t') with h0 | ⟨t'', c2, h0⟩
  · cases h0
  · have hc2 : isSpace c2 = false := by
      refine (plain_not_special c2 (hall c2 ?_)).2.2.2.2.2
      rw [h0]; simp
    have := dropTrail_blank_suffix t'' c2 r hr hc2
    rw [h0]
    simpa using this

/-- characters the tokenising loop just shifts -/
def tokPlain (w : Str) : Prop := ∀ c ∈ w, c ≠ '(' ∧ c ≠ '*' ∧ c ≠ '/'

theorem tokPlain_of_plain (w : Str) (h : w.all isPlainChar = true) : tokPlain w := by
  intro c hc
  rw [List.all_eq_true] at h
  obtain ⟨h1, _, h3, h4, _, _⟩ := plain_not_special c (h c hc)
  exact ⟨h1, h3, h4⟩

theorem tokPlain_of_blank (w : Str) (h : blank w) : tokPlain w := by
  intro c hc
  unfold blank at h
  rw [List.all_eq_true] at h
  obtain ⟨h1, _, h3, h4, _⟩ := space_not_special c (h c hc)
  exact ⟨h1, h3, h4⟩

theorem TokRel.shifts {T : Tables} (w tail left : Str) (toks res : List Tok) (hw : tokPlain w)
    (h : TokRel T tail (w.reverse ++ left) toks res) : TokRel T (w ++ tail) left toks res := by
  induction w generalizing left with
  | nil => simpa using h
  | cons c t ih =>
    obtain ⟨h1, h2, h3⟩ := hw c (by simp)
    have ht : tokPlain t := fun x hx => hw x (List.mem_cons_of_mem _ hx)
    refine TokRel.shift c (t ++ tail) left toks res h1 h2 h3 (ih (c :: left) ht ?_)
    simpa using h

theorem flushLeft_blank (T : Tables) (l : Str) (toks : List Tok) (h : blank l) :
    flushLeft T l.reverse toks = .ok toks := by
  unfold flushLeft
  simp only [List.reverse_reverse, strip_blank l h, if_true]

theorem flushLeft_text (T : Tables) (l t r : Str) (toks : List Tok) (v : Atom) (hl : blank l) (hr : blank r)
    (hne : t ≠ []) (hall : t.all isPlainChar = true) (hv : atomParse T t = .ok v) :
    flushLeft T (l ++ t ++ r).reverse toks = .ok (toks ++ [.val (some v)]) := by
  unfold flushLeft
  simp only [List.reverse_reverse, strip_padded l t r hl hr hne hall, hne, if_false, hv]

theorem argsPass_append (a b : List Tok) : argsPass (a ++ b) = argsPass a ++ argsPass b := by
  simp [argsPass]

/-- a term that is not a product/quotient contributes one token, whose value is the term's value -/
theorem argsPass_term (T : Tables) (b : U) (hb : b.isOp = false) :
    argsPass (toksOf T b) = [.val (evalU T b)] := by
  cases b with
  | mul _ _ => cases hb
  | div _ _ => cases hb
  | par a => simp [toksOf, argsPass, evalU]
  | atom p q x => simp [toksOf, argsPass]
  | sys n x => simp [toksOf, argsPass]
  | num t => simp [toksOf, argsPass]

/-- the passes evaluate the tokens of a left-associative AST to its value -/
theorem binPass_toksOf (T : Tables) (a : U) (hla : a.leftAssoc = true) (v : Atom)
    (hv : evalU T a = some v) (more : List Tok) :
    binPass [] (argsPass (toksOf T a) ++ more) = binPass [.val (some v)] more := by
  induction a generalizing v more with
  | atom p b x => simp [toksOf, argsPass, hv, binPass]
  | sys n x => simp [toksOf, argsPass, hv, binPass]
  | num t => simp [toksOf, argsPass, hv, binPass]
  | par a _ =>
    simp only [evalU] at hv
    simp [toksOf, argsPass, hv, binPass]
  | mul a b iha _ =>
    simp only [U.leftAssoc, Bool.and_eq_true, Bool.not_eq_true'] at hla
    obtain ⟨⟨hla1, _⟩, hbop⟩ := hla
    simp only [evalU] at hv
    cases hx : evalU T a with
    | none => simp [hx] at hv
    | some x =>
      cases hy : evalU T b with
      | none => simp [hx, hy] at hv
      | some y =>
        simp only [hx, hy, Option.some.injEq] at hv
        subst hv
        simp only [toksOf, argsPass_append, List.append_assoc]
        have : argsPass (Tok.mul :: toksOf T b) = Tok.mul :: argsPass (toksOf T b) := by simp [argsPass]
        rw [this, argsPass_term T b hbop, hy, List.cons_append, iha hla1 x hx]
        simp [binPass]
  | div a b iha _ =>
    simp only [U.leftAssoc, Bool.and_eq_true, Bool.not_eq_true'] at hla
    obtain ⟨⟨hla1, _⟩, hbop⟩ := hla
    simp only [evalU] at hv
    cases hx : evalU T a with
    | none => simp [hx] at hv
    | some x =>
      cases hy : evalU T b with
      | none => simp [hx, hy] at hv
      | some y =>
        simp only [hx, hy] at hv
        simp only [toksOf, argsPass_append, List.append_assoc]
        have : argsPass (Tok.div :: toksOf T b) = Tok.div :: argsPass (toksOf T b) := by simp [argsPass]
        rw [this, argsPass_term T b hbop, hy, List.cons_append, iha hla1 x hx]
        simp [binPass, hv]

theorem passes_toksOf (T : Tables) (a : U) (hla : a.leftAssoc = true) (v : Atom)
    (hv : evalU T a = some v) :
    binPass [] (argsPass (toksOf T a)) = .ok [.val (some v)] ∧ finish [.val (some v)] = .ok (some v) := by
  have := binPass_toksOf T a hla v hv []
  simp only [List.append_nil] at this
  rw [this]
  simp [binPass, finish]

/-- tokenising ANY rendering of the AST (any blanks), followed by any continuation `tail`:
    whatever the loop does on `tail` once the tokens of `a` are flushed, it does after reading
    the rendering -/
theorem tok_renders (T : Tables) (a : U) :
    ∀ (s : Str), Renders a s → a.plainLeaves → a.leftAssoc = true → (∃ v, evalU T a = some v) →
    ∀ (tail : Str) (toks res : List Tok),
      (∀ left' toks', flushLeft T left' toks' = .ok (toks ++ toksOf T a) → TokRel T tail left' toks' res) →
      TokRel T (s ++ tail) [] toks res := by
  induction a with
  | mul a b iha ihb =>
    intro s h hp hla he tail toks res K
    cases h with
    | leaf _ t l r ht _ _ => cases ht
    | mul _ _ s1 s2 h1 h2 =>
      simp only [U.leftAssoc, Bool.and_eq_true, Bool.not_eq_true'] at hla
      obtain ⟨v, hv⟩ := he
      simp only [evalU] at hv
      have hea : ∃ x, evalU T a = some x := by
        cases hx : evalU T a with
        | none => simp [hx] at hv
        | some x => exact ⟨x, rfl⟩
      have heb : ∃ y, evalU T b = some y := by
        cases hy : evalU T b with
        | none => obtain ⟨x, hx⟩ := hea; simp [hx, hy] at hv
        | some y => exact ⟨y, rfl⟩
      have e : s1 ++ '*' :: s2 ++ tail = s1 ++ ('*' :: (s2 ++ tail)) := by simp
      rw [e]
      apply iha s1 h1 hp.1 hla.1.1 hea
      intro left' toks' hfl
      refine TokRel.mul _ left' toks' _ res hfl ?_
      apply ihb s2 h2 hp.2 hla.1.2 heb
      intro left'' toks'' hfl2
      apply K
      rw [hfl2]; simp [toksOf]
  | div a b iha ihb =>
    intro s h hp hla he tail toks res K
    cases h with
    | leaf _ t l r ht _ _ => cases ht
    | div _ _ s1 s2 h1 h2 =>
      simp only [U.leftAssoc, Bool.and_eq_true, Bool.not_eq_true'] at hla
      obtain ⟨v, hv⟩ := he
      simp only [evalU] at hv
      have hea : ∃ x, evalU T a = some x := by
        cases hx : evalU T a with
        | none => simp [hx] at hv
        | some x => exact ⟨x, rfl⟩
      have heb : ∃ y, evalU T b = some y := by
        cases hy : evalU T b with
        | none => obtain ⟨x, hx⟩ := hea; simp [hx, hy] at hv
        | some y => exact ⟨y, rfl⟩
      have e : s1 ++ '/' :: s2 ++ tail = s1 ++ ('/' :: (s2 ++ tail)) := by simp
      rw [e]
      apply iha s1 h1 hp.1 hla.1.1 hea
      intro left' toks' hfl
      refine TokRel.div _ left' toks' _ res hfl ?_
      apply ihb s2 h2 hp.2 hla.1.2 heb
      intro left'' toks'' hfl2
      apply K
      rw [hfl2]; simp [toksOf]
  | par a iha =>
    intro s h hp hla he tail toks res K
    cases h with
    | leaf _ t l r ht _ _ => cases ht
    | par _ s' l r hl hr h' =>
      obtain ⟨v, hv⟩ := he
      simp only [evalU] at hv
      simp only [U.leftAssoc] at hla
      have e : l ++ '(' :: s' ++ ')' :: r ++ tail = l ++ ('(' :: (s' ++ ')' :: (r ++ tail))) := by simp
      rw [e]
      apply TokRel.shifts l _ [] toks res (tokPlain_of_blank l hl)
      rw [List.append_nil]
      have harg : TokRel T (strip s') [] [] (toksOf T a) := by
        have := iha (strip s') (renders_strip h' hp) hp hla ⟨v, hv⟩ [] [] (toksOf T a)
          (fun left' toks' hfl => TokRel.nil left' toks' _ (by simpa using hfl))
        simpa using this
      obtain ⟨hbin, hfin⟩ := passes_toksOf T a hla v hv
      refine TokRel.par _ l.reverse toks toks (strip s') (r ++ tail) (toksOf T a) _ (some v) res
        (flushLeft_blank T l toks hl) (scanPar_arg h' hp _) harg hbin hfin ?_
      apply TokRel.shifts r tail [] _ res (tokPlain_of_blank r hr)
      rw [List.append_nil]
      apply K
      rw [flushLeft_blank T r _ hr]
      simp [toksOf, hv]
  | atom p b x =>
    intro s h hp hla he tail toks res K
    cases h with
    | leaf _ t l r ht hl hr =>
      obtain ⟨v, hv⟩ := he
      obtain ⟨t', h1, hne, hall⟩ := hp
      rw [ht] at h1; cases h1
      simp only [U.leafText, Option.some.injEq] at ht
      subst ht
      have hparse : atomParse T (p ++ b ++ x) = .ok v := by
        simp only [evalU, leafVal] at hv
        split at hv
        · rename_i w hw; cases hv; exact hw
        · cases hv
      have hplain : tokPlain (l ++ (p ++ b ++ x) ++ r) := by
        intro c hc
        rcases List.mem_append.mp hc with h1 | h1
        · rcases List.mem_append.mp h1 with h2 | h2
          · exact tokPlain_of_blank l hl c h2
          · exact tokPlain_of_plain _ hall c h2
        · exact tokPlain_of_blank r hr c h1
      apply TokRel.shifts _ tail [] toks res hplain
      rw [List.append_nil]
      apply K
      rw [flushLeft_text T l _ r toks v hl hr hne hall hparse]
      simp [toksOf, hv]
  | sys n x =>
    intro s h hp hla he tail toks res K
    cases h with
    | leaf _ t l r ht hl hr =>
      obtain ⟨v, hv⟩ := he
      obtain ⟨t', h1, hne, hall⟩ := hp
      rw [ht] at h1; cases h1
      simp only [U.leafText, Option.some.injEq] at ht
      subst ht
      have hparse : atomParse T (n ++ x) = .ok v := by
        simp only [evalU, leafVal] at hv
        split at hv
        · rename_i w hw; cases hv; exact hw
        · cases hv
      have hplain : tokPlain (l ++ (n ++ x) ++ r) := by
        intro c hc
        rcases List.mem_append.mp hc with h1 | h1
        · rcases List.mem_append.mp h1 with h2 | h2
          · exact tokPlain_of_blank l hl c h2
          · exact tokPlain_of_plain _ hall c h2
        · exact tokPlain_of_blank r hr c h1
      apply TokRel.shifts _ tail [] toks res hplain
      rw [List.append_nil]
      apply K
      rw [flushLeft_text T l _ r toks v hl hr hne hall hparse]
      simp [toksOf, hv]
  | num t0 =>
    intro s h hp hla he tail toks res K
    cases h with
    | leaf _ t l r ht hl hr =>
      obtain ⟨v, hv⟩ := he
      obtain ⟨t', h1, hne, hall⟩ := hp
      rw [ht] at h1; cases h1
      simp only [U.leafText, Option.some.injEq] at ht
      subst ht
      have hparse : atomParse T t0 = .ok v := by
        simp only [evalU, leafVal] at hv
        split at hv
        · rename_i w hw; cases hv; exact hw
        · cases hv
      have hplain : tokPlain (l ++ t0 ++ r) := by
        intro c hc
        rcases List.mem_append.mp hc with h1 | h1
        · rcases List.mem_append.mp h1 with h2 | h2
          · exact tokPlain_of_blank l hl c h2
          · exact tokPlain_of_plain _ hall c h2
        · exact tokPlain_of_blank r hr c h1
      apply TokRel.shifts _ tail [] toks res hplain
      rw [List.append_nil]
      apply K
      rw [flushLeft_text T l _ r toks v hl hr hne hall hparse]
      simp [toksOf, hv]

/-- TEXT LEVEL: for every rendering (any blanks) of a left-associative AST whose leaves are plain
    texts, `UnitSolver` returns exactly the value of the AST -/
theorem unitSolver_renders (T : Tables) (a : U) (s : Str) (h : Renders a s) (hp : a.plainLeaves)
    (hla : a.leftAssoc = true) (v : Atom) (hv : evalU T a = some v) : unitSolver T s = .ok v := by
  have htok : TokRel T s [] [] (toksOf T a) := by
    have := tok_renders T a s h hp hla ⟨v, hv⟩ [] [] (toksOf T a)
      (fun left' toks' hfl => TokRel.nil left' toks' _ (by simpa using hfl))
    simpa using this
  obtain ⟨hbin, hfin⟩ := passes_toksOf T a hla v hv
  exact unitSolver_of_TokRel htok hbin hfin

end SciVerif.C03
