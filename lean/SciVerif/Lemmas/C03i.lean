import SciVerif.Lemmas.C03c
import SciVerif.Lemmas.C03d
import SciVerif.Lemmas.C03h

/-! # C03 helper lemmas: the value of an AST (model side) against its denotation (spec side) -/
namespace SciVerif.C03

/-! ## character classes -/

theorem digit_range (c : Char) (h : c.isDigit = true) : 48 ≤ c.toNat ∧ c.toNat ≤ 57 := by
  unfold Char.isDigit at h
  simp only [Bool.and_eq_true, decide_eq_true_eq] at h
  exact ⟨UInt32.le_iff_toNat_le.mp h.1, UInt32.le_iff_toNat_le.mp h.2⟩

theorem space_range (c : Char) (h : isSpace c = true) : c.toNat ≤ 32 := by
  unfold isSpace at h
  simp only [Bool.or_eq_true, Bool.and_eq_true, decide_eq_true_eq, beq_iff_eq] at h
  rcases h with (h | h) | h
  · subst h; decide
  · omega
  · omega

/-- a character of a number literal or of an exponent text is plain -/
theorem plain_of_numalpha_or_exp (c : Char) (h : isNumAlpha c = true ∨ isExpChar c = true) :
    isPlainChar c = true := by
  have hcases : c.isDigit = true ∨ c = '-' ∨ c = '.' ∨ c = 'e' ∨ c = '+' ∨ c = ':' := by
    rcases h with h | h
    · unfold isNumAlpha at h
      simp only [Bool.or_eq_true, beq_iff_eq] at h
      rcases h with (((h | h) | h) | h) | h
      · exact Or.inl h
      · exact Or.inr (Or.inl h)
      · exact Or.inr (Or.inr (Or.inl h))
      · exact Or.inr (Or.inr (Or.inr (Or.inl h)))
      · exact Or.inr (Or.inr (Or.inr (Or.inr (Or.inl h))))
    · unfold isExpChar at h
      simp only [Bool.or_eq_true, beq_iff_eq] at h
      rcases h with ((h | h) | h) | h
      · exact Or.inl h
      · exact Or.inr (Or.inr (Or.inr (Or.inr (Or.inr h))))
      · exact Or.inr (Or.inr (Or.inr (Or.inr (Or.inl h))))
      · exact Or.inr (Or.inl h)
  rcases hcases with h | h | h | h | h | h
  · obtain ⟨h1, h2⟩ := digit_range c h
    unfold isPlainChar
    simp only [Bool.not_eq_true', Bool.or_eq_false_iff, beq_eq_false_iff_ne, ne_eq]
    refine ⟨⟨⟨⟨⟨?_, ?_⟩, ?_⟩, ?_⟩, ?_⟩, ?_⟩
    · intro hc; subst hc; revert h1; decide
    · intro hc; subst hc; revert h1; decide
    · intro hc; subst hc; revert h1; decide
    · intro hc; subst hc; revert h1; decide
    · intro hc; subst hc; revert h1; decide
    · cases hs : isSpace c with
      | false => rfl
      | true => have := space_range c hs; omega
  all_goals (subst h; decide)

theorem parseNat_digits (s : Str) (n : Nat) (h : parseNat s = some n) : s ≠ [] ∧ s.all Char.isDigit = true := by
  unfold parseNat at h
  split at h
  · rename_i hc; exact hc
  · cases h

theorem digit_isExp (c : Char) (h : c.isDigit = true) : isExpChar c = true := by
  unfold isExpChar; simp [h]

theorem parseInt_chars (s : Str) (i : Int) (h : parseInt s = some i) : s ≠ [] ∧ s.all isExpChar = true := by
  have key : ∀ r : Str, ∀ n, parseNat r = some n → r.all isExpChar = true := by
    intro r n hn
    exact all_imp digit_isExp r (parseNat_digits r n hn).2
  unfold parseInt at h
  split at h
  · rename_i r
    cases hn : parseNat r with
    | none => simp [hn] at h
    | some n =>
      refine ⟨by simp, ?_⟩
      simp only [List.all_cons, key r n hn, Bool.and_true]; decide
  · rename_i r
    cases hn : parseNat r with
    | none => simp [hn] at h
    | some n =>
      refine ⟨by simp, ?_⟩
      simp only [List.all_cons, key r n hn, Bool.and_true]; decide
  · cases hn : parseNat s with
    | none => simp [hn] at h
    | some n => exact ⟨(parseNat_digits s n hn).1, key s n hn⟩

/-- whatever `Fraction.from_string` reads is a non-empty run of exponent characters -/
theorem fromString_chars (x : Str) (f : Frac) (h : Frac.fromString x = some f) :
    x ≠ [] ∧ x.all isExpChar = true := by
  unfold Frac.fromString at h
  have hsplit := @List.takeWhile_append_dropWhile _ (fun c => c != ':') x
  split at h
  · cases hp : parseInt x with
    | none => simp [hp] at h
    | some n => exact parseInt_chars x n hp
  · rename_i c b hd
    split at h
    · rename_i n d hn hdd
      have h1 := parseInt_chars _ n hn
      have h2 := parseInt_chars _ d hdd
      have hc : c = ':' := by
        have := @List.head_dropWhile_not _ (fun c => c != ':') x (by rw [hd]; simp)
        simp only [hd, List.head_cons] at this
        simpa using this
      subst hc
      rw [← hsplit, hd]
      refine ⟨by simp, ?_⟩
      rw [List.all_append, h1.2]
      simp only [List.all_cons, h2.2, Bool.and_true, Bool.true_and]; decide
    · cases h

/-! ## exponent maps with distinct keys -/

def keysNodup (m : ExpMap) : Prop := (m.map (·.1)).Nodup

theorem keys_set (m : ExpMap) (u : UnitId) (e : Frac) :
    (m.set u e).map (·.1) = if u ∈ m.map (·.1) then m.map (·.1) else m.map (·.1) ++ [u] := by
  induction m with
  | nil => simp [ExpMap.set]
  | cons a t ih =>
    obtain ⟨k, w⟩ := a
    by_cases hk : k = u
    · subst hk; simp [ExpMap.set]
    · simp only [ExpMap.set, hk, if_false, List.map_cons, ih, List.mem_cons]
      have : ¬ u = k := fun h => hk h.symm
      by_cases hm : u ∈ t.map (·.1) <;> simp [hm, this]

theorem keysNodup_set (m : ExpMap) (u : UnitId) (e : Frac) (h : keysNodup m) : keysNodup (m.set u e) := by
  unfold keysNodup at h ⊢
  rw [keys_set]
  split
  · exact h
  · rename_i hn
    rw [List.nodup_append]
    refine ⟨h, by simp, ?_⟩
    intro a ha b hb
    simp at hb; subst hb
    intro hab; subst hab; exact hn ha

theorem keysNodup_addEntry (m : ExpMap) (ue : UnitId × Frac) (h : keysNodup m) : keysNodup (m.addEntry ue) := by
  unfold ExpMap.addEntry
  split <;> exact keysNodup_set _ _ _ h

theorem keysNodup_subEntry (m : ExpMap) (ue : UnitId × Frac) (h : keysNodup m) : keysNodup (m.subEntry ue) := by
  unfold ExpMap.subEntry
  split <;> exact keysNodup_set _ _ _ h

theorem keysNodup_mergeAdd (a b : ExpMap) (h : keysNodup a) : keysNodup (a.mergeAdd b) := by
  unfold ExpMap.mergeAdd
  induction b generalizing a with
  | nil => exact h
  | cons x t ih => exact ih _ (keysNodup_addEntry a x h)

theorem keysNodup_mergeSub (a b : ExpMap) (h : keysNodup a) : keysNodup (a.mergeSub b) := by
  unfold ExpMap.mergeSub
  induction b generalizing a with
  | nil => exact h
  | cons x t ih => exact ih _ (keysNodup_subEntry a x h)

theorem sumR_of_not_mem (m : ExpMap) (v : UnitId) (h : v ∉ m.map (·.1)) : sumR m v = 0 := by
  induction m with
  | nil => simp [sumR]
  | cons a t ih =>
    simp only [List.map_cons, List.mem_cons, not_or] at h
    have h1 : ¬ a.1 = v := fun e => h.1 e.symm
    have := ih h.2
    simp only [sumR, List.map_cons, List.sum_cons, h1, if_false] at this ⊢
    rw [this]; simp

theorem sumR_eq_expR (m : ExpMap) (v : UnitId) (h : keysNodup m) : sumR m v = expR m v := by
  induction m with
  | nil => simp [sumR, expR, ExpMap.get]
  | cons a t ih =>
    obtain ⟨k, e⟩ := a
    unfold keysNodup at h
    simp only [List.map_cons, List.nodup_cons] at h
    by_cases hk : k = v
    · subst hk
      have := sumR_of_not_mem t k h.1
      simp only [sumR, List.map_cons, List.sum_cons, if_true] at this ⊢
      rw [this]
      simp [expR, ExpMap.get]
    · have := ih h.2
      simp only [sumR, List.map_cons, List.sum_cons, hk, if_false] at this ⊢
      rw [this]
      simp [expR, ExpMap.get, hk]

/-! ## leaves -/

theorem admissibleB_row (T : Tables) (p b : Str) (h : admissibleB T p b = true) :
    ∃ row ∈ T.units, row.sym = b ∧ p ∈ [] :: admPrefixes T row := by
  unfold admissibleB at h
  rw [List.any_eq_true] at h
  obtain ⟨row, hr, hc⟩ := h
  simp only [Bool.and_eq_true, Bool.or_eq_true, beq_iff_eq] at hc
  refine ⟨row, hr, hc.1, ?_⟩
  rcases hc.2 with h0 | h0
  · subst h0; simp
  · apply List.mem_cons_of_mem
    unfold admPrefixes
    rw [List.mem_filter]
    exact ⟨by simpa [List.contains_iff_mem] using h0.1, h0.2⟩

theorem one_toRat : Frac.one.toRat = 1 := by
  unfold Frac.one Frac.toRat; simp

/-- the exponent text of a valid leaf, model reading against spec reading -/
theorem specExp_frac (x : Str) (e : Rat) (h : specExp x = some e) :
    ∃ f : Frac, expTextOf x f ∧ f.den ≠ 0 ∧ f.toRat = e := by
  unfold specExp at h
  split at h
  · rename_i hx
    cases h
    exact ⟨Frac.one, Or.inl ⟨hx, rfl⟩, by decide, one_toRat⟩
  · rename_i hx
    split at h
    · rename_i f hf
      split at h
      · cases h
      · rename_i hd
        cases h
        exact ⟨f, Or.inr ⟨hx, (fromString_chars x f hf).2, hf⟩, hd, rfl⟩
    · cases h

theorem expTextOf_chars (x : Str) (f : Frac) (h : expTextOf x f) : x.all isExpChar = true := by
  rcases h with ⟨rfl, _⟩ | ⟨_, h, _⟩
  · rfl
  · exact h

theorem factF7_prop {T : Tables} (h : factF7 T = true) :
    (∀ p ∈ T.prefixKeys, p.all isPlainChar = true) ∧ (∀ u ∈ T.units, u.sym.all isPlainChar = true) ∧
    (∀ u ∈ T.sys, u.sym.all isPlainChar = true ∧ u.sym.head? = some '#' ∧
      ∃ c, u.sym.getLast? = some c ∧ isExpChar c = false) := by
  unfold factF7 at h
  simp only [Bool.and_eq_true, List.all_eq_true] at h
  refine ⟨fun p hp => by rw [List.all_eq_true]; exact fun c hc => h.1.1 p hp c hc,
    fun u hu => by rw [List.all_eq_true]; exact fun c hc => h.1.2 u hu c hc, ?_⟩
  intro u hu
  have := h.2 u hu
  obtain ⟨⟨h1, h2⟩, h3⟩ := this
  refine ⟨by rw [List.all_eq_true]; exact h1, by simpa using h2, ?_⟩
  split at h3
  · rename_i c hc; exact ⟨c, hc, by simpa using h3⟩
  · cases h3

theorem findSys_sym (T : Tables) (n : Str) (row : SysRow) (h : T.findSys n = some row) :
    row ∈ T.sys ∧ row.sym = n := by
  unfold Tables.findSys at h
  exact ⟨List.mem_of_find?_eq_some h, by simpa using List.find?_some h⟩

/-- completeness of the system-unit branch of `AtomParser` -/
theorem unitParse_sys_complete (T : Tables) (h7 : factF7 T = true) (n x : Str) (f : Frac)
    (hn : (T.findSys n).isSome = true) (hx : expTextOf x f) :
    unitParse T (n ++ x) = .ok (.sys n, f) ∧ numberParts (n ++ x) = none := by
  obtain ⟨row, hrow⟩ := Option.isSome_iff_exists.mp hn
  obtain ⟨hmem, hsym⟩ := findSys_sym T n row hrow
  obtain ⟨_, hhead, c, hlast, hc⟩ := (factF7_prop h7).2.2 row hmem
  rw [hsym] at hhead hlast
  obtain ⟨n', rfl⟩ : ∃ n', n = '#' :: n' := by
    cases n with
    | nil => simp at hhead
    | cons a t => simp at hhead; exact ⟨t, by rw [hhead]⟩
  constructor
  · obtain ⟨hd, ht⟩ := trail_of_append isExpChar ('#' :: n') x c (expTextOf_chars x f hx) hlast hc
    have hsp : isExpChar ' ' = false := by decide
    have hexp : (if x = [] then some Frac.one else Frac.fromString x) = some f := by
      rcases hx with ⟨rfl, rfl⟩ | ⟨hne, _, hf⟩
      · rfl
      · simp [hne, hf]
    unfold unitParse
    simp only [dropTrail_cons isExpChar ' ' _ hsp, trailRun_cons isExpChar ' ' _ hsp, hd, ht, hexp]
    simp [List.isPrefixOf, hn]
  · cases hnp : numberParts ('#' :: n' ++ x) with
    | none => rfl
    | some r =>
      exfalso
      have := numberParts_alpha _ r hnp
      rw [List.all_eq_true] at this
      have := this '#' (by simp)
      revert this; decide

/-! ## the value of an AST against its denotation -/

/-- what a valid AST evaluates to on the model side, compared with its denotation -/
structure Agrees (v : Atom) (d : Den) : Prop where
  mag : v.mag = d.coef
  dens : densOk v.units
  nodup : keysNodup v.units
  exps : ∀ u, expR v.units u = expOf d.exps u

theorem single_agrees (k : UnitId) (f : Frac) (e : Rat) (hd : f.den ≠ 0) (he : f.toRat = e) :
    Agrees ⟨1, [(k, f)]⟩ ⟨1, [(k, e)]⟩ := by
  refine ⟨rfl, ?_, ?_, ?_⟩
  · intro ue hue; simp at hue; subst hue; exact hd
  · simp [keysNodup]
  · intro u
    by_cases h : k = u <;> simp [expR, ExpMap.get, expOf, h, he]

theorem expOf_append (l1 l2 : List (UnitId × Rat)) (u : UnitId) :
    expOf (l1 ++ l2) u = expOf l1 u + expOf l2 u := by
  simp [expOf, List.sum_append]

theorem expOf_neg (l : List (UnitId × Rat)) (u : UnitId) : expOf (negExps l) u = - expOf l u := by
  unfold expOf negExps
  induction l with
  | nil => simp
  | cons a t ih =>
    simp only [List.map_cons, List.sum_cons] at ih ⊢
    rw [ih]
    by_cases h : a.1 = u <;> simp [h]; ring

/-- every AST with a denotation evaluates on the model side, to a value that agrees with it;
    its leaves are plain texts -/
theorem evalU_denote (T : Tables) (h1 : factF1 T = true) (h2 : factF2 T = true) (h3 : factF3 T = true)
    (h4 : factF4 T = true) (h7 : factF7 T = true) (a : U) :
    ∀ d, denote T a = some d → a.plainLeaves ∧ ∃ v, evalU T a = some v ∧ Agrees v d := by
  induction a with
  | atom p b x =>
    intro d hd
    simp only [denote] at hd
    split at hd
    · rename_i hadm
      obtain ⟨row, hrow, hsym, hp⟩ := admissibleB_row T p b hadm
      cases he : specExp x with
      | none => simp [he] at hd
      | some e =>
        simp only [he, Option.map_some, Option.some.injEq] at hd
        subst hd
        obtain ⟨f, hx, hfd, hfe⟩ := specExp_frac x e he
        subst hsym
        have hparse : atomParse T (p ++ row.sym ++ x) = .ok ⟨1, [(.std p row.sym, f)]⟩ := by
          unfold atomParse
          rw [numberParts_none_of_symbol T h4 row hrow p x,
            unitParse_complete T h1 h2 h3 h4 row hrow p hp x f hx]
        obtain ⟨c, hlast, _⟩ := factF2_prop h2 row hrow
        have hne : p ++ row.sym ++ x ≠ [] := by
          intro h
          have : row.sym = [] := (List.append_eq_nil_iff.mp (List.append_eq_nil_iff.mp h).1).2
          rw [this] at hlast; cases hlast
        have hplain : (p ++ row.sym ++ x).all isPlainChar = true := by
          rw [List.all_append, List.all_append]
          have hp' : p.all isPlainChar = true := by
            rcases List.mem_cons.mp hp with rfl | hp'
            · rfl
            · exact (factF7_prop h7).1 p (mem_admPrefixes hp').1
          rw [hp', (factF7_prop h7).2.1 row hrow]
          simp only [Bool.true_and]
          exact all_imp (fun c hc => plain_of_numalpha_or_exp c (Or.inr hc)) x (expTextOf_chars x f hx)
        exact ⟨⟨_, rfl, hne, hplain⟩, _, by simp only [evalU, leafVal, hparse], single_agrees _ f e hfd hfe⟩
    · cases hd
  | sys n x =>
    intro d hd
    simp only [denote] at hd
    split at hd
    · rename_i hn
      cases he : specExp x with
      | none => simp [he] at hd
      | some e =>
        simp only [he, Option.map_some, Option.some.injEq] at hd
        subst hd
        obtain ⟨f, hx, hfd, hfe⟩ := specExp_frac x e he
        obtain ⟨hu, hnum⟩ := unitParse_sys_complete T h7 n x f hn hx
        have hparse : atomParse T (n ++ x) = .ok ⟨1, [(.sys n, f)]⟩ := by
          unfold atomParse; rw [hnum, hu]
        obtain ⟨row, hrow⟩ := Option.isSome_iff_exists.mp hn
        obtain ⟨hmem, hsym⟩ := findSys_sym T n row hrow
        obtain ⟨hpl, hhead, _⟩ := (factF7_prop h7).2.2 row hmem
        rw [hsym] at hpl hhead
        have hne : n ++ x ≠ [] := by
          intro h
          have : n = [] := (List.append_eq_nil_iff.mp h).1
          rw [this] at hhead; simp at hhead
        have hplain : (n ++ x).all isPlainChar = true := by
          rw [List.all_append, hpl]
          simp only [Bool.true_and]
          exact all_imp (fun c hc => plain_of_numalpha_or_exp c (Or.inr hc)) x (expTextOf_chars x f hx)
        exact ⟨⟨_, rfl, hne, hplain⟩, _, by simp only [evalU, leafVal, hparse], single_agrees _ f e hfd hfe⟩
    · cases hd
  | num t =>
    intro d hd
    simp only [denote] at hd
    cases hp : numberParts t with
    | none => simp [hp] at hd
    | some parts =>
      cases hq : floatOfParts parts with
      | none => simp [hp, hq] at hd
      | some q =>
        simp only [hp, hq, Option.bind_some, Option.map_some, Option.some.injEq] at hd
        subst hd
        have hparse : atomParse T t = .ok ⟨q, []⟩ := by
          unfold atomParse; simp [hp, hq]
        have hne : t ≠ [] := by
          intro h; subst h
          have : numberParts [] = none := by decide
          rw [this] at hp; cases hp
        have hplain : t.all isPlainChar = true :=
          all_imp (fun c hc => plain_of_numalpha_or_exp c (Or.inl hc)) t (numberParts_alpha t parts hp)
        refine ⟨⟨_, rfl, hne, hplain⟩, (⟨q, []⟩ : Atom), by simp only [evalU, leafVal, hparse], rfl, ?_, ?_, ?_⟩
        · intro ue hue; simp at hue
        · simp [keysNodup]
        · intro u; simp [expR, ExpMap.get, expOf]
  | mul a b iha ihb =>
    intro d hd
    simp only [denote] at hd
    cases hx : denote T a with
    | none => simp [hx] at hd
    | some dx =>
      cases hy : denote T b with
      | none => simp [hx, hy] at hd
      | some dy =>
        simp only [hx, hy, Option.some.injEq] at hd
        subst hd
        obtain ⟨pa, va, hva, aa⟩ := iha dx hx
        obtain ⟨pb, vb, hvb, ab⟩ := ihb dy hy
        refine ⟨⟨pa, pb⟩, va.mul vb, by simp [evalU, hva, hvb], ?_, ?_, ?_, ?_⟩
        · simp [Atom.mul, aa.mag, ab.mag]
        · exact (mergeAdd_spec va.units vb.units (.sys []) aa.dens ab.dens).2
        · exact keysNodup_mergeAdd _ _ aa.nodup
        · intro u
          have := (mergeAdd_spec va.units vb.units u aa.dens ab.dens).1
          simp only [Atom.mul]
          rw [this, sumR_eq_expR _ _ ab.nodup, aa.exps, ab.exps, expOf_append]
  | div a b iha ihb =>
    intro d hd
    simp only [denote] at hd
    cases hx : denote T a with
    | none => simp [hx] at hd
    | some dx =>
      cases hy : denote T b with
      | none => simp [hx, hy] at hd
      | some dy =>
        simp only [hx, hy] at hd
        split at hd
        · cases hd
        · rename_i hz
          cases hd
          obtain ⟨pa, va, hva, aa⟩ := iha dx hx
          obtain ⟨pb, vb, hvb, ab⟩ := ihb dy hy
          have hz' : ¬ vb.mag = 0 := by rw [ab.mag]; exact hz
          refine ⟨⟨pa, pb⟩, ⟨va.mag / vb.mag, va.units.mergeSub vb.units⟩,
            by simp [evalU, hva, hvb, Atom.div, hz'], ?_, ?_, ?_, ?_⟩
          · simp [aa.mag, ab.mag]
          · exact (mergeSub_spec va.units vb.units (.sys []) aa.dens ab.dens).2
          · exact keysNodup_mergeSub _ _ aa.nodup
          · intro u
            have := (mergeSub_spec va.units vb.units u aa.dens ab.dens).1
            simp only
            rw [this, sumR_eq_expR _ _ ab.nodup, aa.exps, ab.exps, expOf_append, expOf_neg]
            ring
  | par a iha =>
    intro d hd
    simp only [denote] at hd
    obtain ⟨pa, va, hva, aa⟩ := iha d hd
    exact ⟨pa, va, by simp [evalU, hva], aa⟩

end SciVerif.C03
