import SciVerif.Lemmas.C19m
/-!
# C19 — Fortran declaration lines: `readFortranLine (lineFortran p) = expected p` under the guard
-/
namespace SciVerif.C19

/-! ## declared types -/

theorem fortran_table : ∀ r ∈ Gen.typeRows, r.1 = bFortran → ∀ t, r.2.2.2 = some t → r.2.1 ≠ Kind.str →
    charLen? t = none ∧ t.all (fun c => c ≠ ',' ∧ c ≠ '\n') = true ∧
    (r.2.1 = Kind.bool → (targetKind bFortran t).map (·.1) = some Kind.bool) ∧
    (r.2.1 = Kind.int → targetKind bFortran t = some (Kind.int, r.2.2.1)) ∧
    (r.2.1 = Kind.float → r.2.2.1 = 32 → targetKind bFortran t = some (Kind.float, 32)) := by
  decide +kernel

theorem charLen_character (n : Nat) : charLen? (cs!"character(len=" ++ (showNat n ++ [')'])) = some n := by
  have h := dropLastChar_snoc ')' (showNat n)
  simp only [charLen?, dropPrefix_append, Option.bind_eq_bind, Option.bind_some, h, readNat_showNat]

theorem lookupType_row' (b : Str) (k : Kind) (bits : Nat) (t : Str) (h : lookupType b k bits = some t) :
    ∃ r ∈ Gen.typeRows, r.1 = b ∧ r.2.1 = k ∧ r.2.2.1 = bits ∧ r.2.2.2 = some t := by
  unfold lookupType at h
  split at h
  · rename_i r hf
    have hm := List.mem_of_find?_eq_some hf
    have hp := List.find?_some hf
    simp at hp
    exact ⟨r, hm, hp.1, hp.2.1, hp.2.2, h⟩
  · cases h

/-- what the reader learns from the declared type of a guarded parameter -/
structure FHead (p : Param) (dtype : Str) (bits : Nat) : Prop where
  nocomma : ∀ ch ∈ dtype, ch ≠ ','
  cleanT : clean dtype = true
  kind : fortranKind dtype = some (p.kind, bits)
  fits : fitsInt bits p.value = true
  lens : ∀ n ∈ strLens p.value, n ≤ bits
  narrow : decide (p.kind = Kind.float ∧ bits > 32) = false
  typedPlain : p.kind = Kind.str → dtype ≠ [] ∧ ∀ ch ∈ dtype, plainChar '[' ']' ch

theorem showNat_no (n : Nat) (c : Char) (hc : floatChar c = false) : ∀ ch ∈ showNat n, ch ≠ c := by
  intro ch h e
  subst e
  have := showNat_floatChars n ch h
  rw [hc] at this
  cases this

theorem fhead (p : Param) (hg : fortranGuard p = true) (hv : ValOK p.kind p.value) (dtype : Str)
    (ht : fortranType p (printVal styleFortran p.value) = some dtype) : ∃ bits, FHead p dtype bits := by
  unfold fortranType at ht
  by_cases hs : p.kind = Kind.str
  · simp only [hs, if_true, Option.some.injEq] at ht
    subst ht
    refine ⟨utf8Len (printVal styleFortran p.value), ?_⟩
    have hplain : ∀ ch ∈ cs!"character(len=" ++ (showNat (utf8Len (printVal styleFortran p.value)) ++ [')']),
        plainChar '[' ']' ch ∧ ch ≠ ',' ∧ ch ≠ '\n' := by
      intro ch hch
      simp only [List.mem_append, List.mem_singleton] at hch
      rcases hch with hch | hch | hch
      · revert ch; simp [plainChar]
      · have h1 := showNat_plain _ ch hch
        exact ⟨h1, h1.2.2.2.1, floatChar_ne_nl ch (showNat_floatChars _ ch hch)⟩
      · subst hch; simp [plainChar]
    have e : cs!"character(len=" ++ showNat (utf8Len (printVal styleFortran p.value)) ++ [')'] =
        cs!"character(len=" ++ (showNat (utf8Len (printVal styleFortran p.value)) ++ [')']) := by simp
    rw [e]
    exact {
      nocomma := fun ch hch => (hplain ch hch).2.1
      cleanT := (clean_iff _).mpr (fun ch hch => (hplain ch hch).2.2)
      kind := by simp only [fortranKind, charLen_character, hs]
      fits := fitsInt_other _ p.kind (by rw [hs]; exact ⟨by decide, by decide⟩) p.value hv
      lens := fun n hn => strLens_le styleFortran p.value n hn
      narrow := by simp [hs]
      typedPlain := fun _ => ⟨by simp, fun ch hch => (hplain ch hch).1⟩ }
  · simp only [hs, if_false] at ht
    obtain ⟨r, hm, h1, h2, h3, h4⟩ := lookupType_row' bFortran p.kind p.bits dtype ht
    obtain ⟨f1, f2, f3, f4, f5⟩ := fortran_table r hm h1 dtype h4 (by rw [h2]; exact hs)
    have hall := List.all_eq_true.mp f2
    have hnc : ∀ ch ∈ dtype, ch ≠ ',' := fun ch hch => by have := hall ch hch; simp at this; exact this.1
    have hcl : clean dtype = true := (clean_iff _).mpr (fun ch hch => by have := hall ch hch; simp at this; exact this.2)
    have hlens : ∀ n ∈ strLens p.value, n ≤ 0 := by
      intro n hn; rw [strLens_other p.kind hs p.value hv] at hn; simp at hn
    cases hk : p.kind with
    | str => exact absurd hk hs
    | uint => simp [fortranGuard, hk] at hg
    | bool =>
      have h5 := f3 (by rw [h2]; exact hk)
      cases htk : targetKind bFortran dtype with
      | none => simp [htk] at h5
      | some kb =>
        obtain ⟨k', b'⟩ := kb
        simp [htk] at h5
        subst h5
        exact ⟨b', {
          nocomma := hnc, cleanT := hcl
          kind := by simp only [fortranKind, f1, htk, hk]
          fits := fitsInt_other _ p.kind (by rw [hk]; exact ⟨by decide, by decide⟩) p.value hv
          lens := fun n hn => by have := hlens n hn; omega
          narrow := by simp [hk]
          typedPlain := fun e => by rw [hk] at e; cases e }⟩
    | int =>
      have h5 := f4 (by rw [h2]; exact hk)
      rw [h3] at h5
      exact ⟨p.bits, {
        nocomma := hnc, cleanT := hcl
        kind := by simp only [fortranKind, f1, h5, hk]
        fits := by simpa [fortranGuard, hk] using hg
        lens := fun n hn => by have := hlens n hn; omega
        narrow := by simp [hk]
        typedPlain := fun e => by rw [hk] at e; cases e }⟩
    | float =>
      have hb : p.bits = 32 := by simpa [fortranGuard, hk] using hg
      have h5 := f5 (by rw [h2]; exact hk) (by rw [h3]; exact hb)
      exact ⟨32, {
        nocomma := hnc, cleanT := hcl
        kind := by simp only [fortranKind, f1, h5, hk]
        fits := fitsInt_other _ p.kind (by rw [hk]; exact ⟨by decide, by decide⟩) p.value hv
        lens := fun n hn => by have := hlens n hn; omega
        narrow := by simp
        typedPlain := fun e => by rw [hk] at e; cases e }⟩

/-- the final checks of the reader succeed -/
theorem fortranFinish_ok (p : Param) (dtype : Str) (bits : Nat) (hh : FHead p dtype bits)
    (hv : ValOK p.kind p.value) (name : Str) (dims : List Nat) (typed : Bool)
    (hty : p.kind = Kind.str → typed = true ∨ ∃ x, p.value = .leaf (.s x)) :
    fortranFinish dtype p.kind bits name dims (tokTree styleFortran p.value) typed =
      some ⟨name, dtype, dims, false, p.value⟩ := by
  have hi := interp_tokTree_fortran p.kind p.value hv
  have hcond : lensOK typed bits (strLens p.value) = true := by
    cases hl : strLens p.value with
    | nil => rfl
    | cons n ns =>
      simp only [lensOK]
      have hle : (n :: ns).all (· ≤ bits) = true := by
        rw [← hl]
        exact List.all_eq_true.mpr (fun m hm => by simpa using hh.lens m hm)
      have hs : p.kind = Kind.str := by
        by_cases hne : p.kind = Kind.str
        · exact hne
        · rw [strLens_other p.kind hne p.value hv] at hl
          cases hl
      rcases hty hs with h | ⟨x, hx⟩
      · simp only [h, Bool.true_or, Bool.true_and]
        exact hle
      · rw [hx] at hl
        simp only [strLens, List.cons.injEq] at hl
        obtain ⟨_, rfl⟩ := hl
        simp only [List.all_nil, Bool.or_true, Bool.true_and]
        exact hle
  have hn := hh.narrow
  simp only [fortranFinish, hi, Option.bind_eq_bind, Option.bind_some, hh.fits, not_true_eq_false, if_false, hn]
  simp [hcond]

end SciVerif.C19
