import SciVerif.Lemmas.C17p

/-! Refinement (C17), part 10: whole nested programs with group lines and property lines. -/
namespace SciVerif.C17

/-- a line of a nested program: a group line, a statement written at indent `i` with the
    (relative, possibly dotted) name `nm`, or a property line for the node at `path` -/
inductive HLine where
  | group (i : Nat) (nm : Str)
  | stmt (i : Nat) (nm : Str) (s : SStmt)
  | prop (path : List Str) (p : PropLine)

def HLine.item : HLine → Option Item
  | .group i nm => some (.node (groupNode i nm))
  | .stmt i nm s => (conc s).map (itemAt i nm)
  | .prop _ p => some (.prop p)

def HLine.stmt? : HLine → Option SStmt
  | .group _ _ => none
  | .stmt _ _ s => some s
  | .prop path p => some (propStmt path p)

/-- side conditions of a nested program, checked along the joint run: every statement is in the
    fragment (`InFrag`), the hierarchy gives its line the path the statement addresses, and a
    property line stands after the node it is meant for (`PropOK`) -/
def RunH (tbl : UnitTable) : Env → List HLine → Prop
  | _, [] => True
  | env, .group i nm :: rest => RunH tbl { env with parents := regStackOf env.parents i nm } rest
  | env, .stmt i nm s :: rest =>
    InFrag (absEnv env) s ∧ PathOK env.parents i nm s ∧
    ∀ it env', (conc s).map (itemAt i nm) = some it → step tbl env it = .ok env' → RunH tbl env' rest
  | env, .prop path p :: rest =>
    PropOK env path p ∧ ∀ env', step tbl env (.prop p) = .ok env' → RunH tbl env' rest

theorem refine_runH (tbl : UnitTable) (lines : List HLine) (items : List Item) (env : Env) (s' : SEnv)
    (hinv : Inv tbl env) (hrun : RunH tbl env lines) (hc : lines.mapM HLine.item = some items)
    (h : sRun tbl (absEnv env) (lines.filterMap HLine.stmt?) = .ok s') :
    ∃ env', items.foldlM (step tbl) env = .ok env' ∧ absEnv env' = s' ∧ Inv tbl env' := by
  induction lines generalizing items env with
  | nil =>
    simp at hc; subst hc
    simp only [List.filterMap_nil, sRun, Except.ok.injEq] at h
    exact ⟨env, rfl, h, hinv⟩
  | cons l rest ih =>
    simp only [List.mapM_cons] at hc
    cases hli : l.item with
    | none => simp [hli] at hc
    | some it =>
      cases hcr : rest.mapM HLine.item with
      | none => simp [hli, hcr] at hc
      | some its =>
        simp [hli, hcr] at hc
        subst hc
        cases l with
        | group i nm =>
          simp only [HLine.item, Option.some.injEq] at hli
          subst hli
          simp only [List.filterMap_cons, HLine.stmt?] at h
          have hst := step_group tbl env i nm
          have habs : absEnv { env with parents := regStackOf env.parents i nm } = absEnv env := rfl
          obtain ⟨env', hr, ha, hi'⟩ := ih its { env with parents := regStackOf env.parents i nm }
            ⟨hinv.1, hinv.2⟩ hrun hcr (by rw [habs]; exact h)
          refine ⟨env', ?_, ha, hi'⟩
          simp only [List.foldlM_cons, hst, bind, Except.bind]
          exact hr
        | prop path p =>
          simp only [HLine.item, Option.some.injEq] at hli
          subst hli
          simp only [List.filterMap_cons, HLine.stmt?, sRun] at h
          cases hs : sStep tbl (absEnv env) (propStmt path p) with
          | error e => simp [hs] at h
          | ok s1 =>
            simp only [hs] at h
            obtain ⟨hok, hnext⟩ := hrun
            obtain ⟨env1, hstep, habs, hinv1⟩ := refine_prop tbl env hinv path p s1 hok hs
            have hr1 := hnext env1 hstep
            rw [← habs] at h
            obtain ⟨env', hr, ha, hi'⟩ := ih its env1 hinv1 hr1 hcr h
            refine ⟨env', ?_, ha, hi'⟩
            simp only [List.foldlM_cons, hstep, bind, Except.bind]
            exact hr
        | stmt i nm s =>
          simp only [HLine.item] at hli
          cases hcs : conc s with
          | none => simp [hcs] at hli
          | some it0 =>
            simp only [hcs, Option.map_some, Option.some.injEq] at hli
            subst hli
            simp only [List.filterMap_cons, HLine.stmt?, sRun] at h
            cases hs : sStep tbl (absEnv env) s with
            | error e => simp [hs] at h
            | ok s1 =>
              simp only [hs] at h
              obtain ⟨hf, hp, hnext⟩ := hrun
              obtain ⟨env1, hstep, habs, hinv1⟩ := refine_step_at tbl env hinv i nm s it0 s1 hf hp hcs hs
              have hr1 := hnext (itemAt i nm it0) env1 (by simp [hcs]) hstep
              rw [← habs] at h
              obtain ⟨env', hr, ha, hi'⟩ := ih its env1 hinv1 hr1 hcr h
              refine ⟨env', ?_, ha, hi'⟩
              simp only [List.foldlM_cons, hstep, bind, Except.bind]
              exact hr


end SciVerif.C17
