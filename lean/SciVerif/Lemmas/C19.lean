import SciVerif.Model.C19Read
/-!
# C19 — lemmas: decimal numerals and the bracket machine
-/
namespace SciVerif.C19

/-! ## decimal numerals -/

theorem charDigit_digitChar_fin : ∀ d : Fin 10, charDigit? (digitChar d.val) = some d.val := by decide

theorem charDigit_digitChar {d : Nat} (h : d < 10) : charDigit? (digitChar d) = some d :=
  charDigit_digitChar_fin ⟨d, h⟩

theorem digitsLE_lt : ∀ (f n : Nat), ∀ d ∈ digitsLE f n, d < 10
  | 0, _ => by simp [digitsLE]
  | f + 1, n => by
    intro d hd
    unfold digitsLE at hd
    split at hd
    · simp at hd; omega
    · simp at hd
      rcases hd with h | h
      · omega
      · exact digitsLE_lt f _ d h

theorem valLE_digitsLE : ∀ (f n : Nat), n < f → valLE (digitsLE f n) = n
  | 0, _, h => by omega
  | f + 1, n, h => by
    unfold digitsLE
    split
    · simp [valLE]
    · have := valLE_digitsLE f (n / 10) (by omega)
      simp [valLE, this]; omega

theorem digitsLE_ne_nil (f n : Nat) : digitsLE (f + 1) n ≠ [] := by
  unfold digitsLE; split <;> simp

theorem digitsOf_map : ∀ (l : List Nat), (∀ d ∈ l, d < 10) → digitsOf (l.map digitChar) = some l
  | [], _ => rfl
  | d :: ds, h => by
    have h1 := charDigit_digitChar (h d (by simp))
    have h2 := digitsOf_map ds (fun x hx => h x (by simp [hx]))
    simp [digitsOf, h1, h2]

theorem readNat_showNat (n : Nat) : readNat (showNat n) = some n := by
  unfold readNat showNat
  have hl : ∀ d ∈ (digitsLE (n + 1) n).reverse, d < 10 := by
    intro d hd; exact digitsLE_lt _ _ d (by simpa using hd)
  rw [digitsOf_map _ hl]
  have hne := digitsLE_ne_nil n n
  cases hr : (digitsLE (n + 1) n).reverse with
  | nil => simp at hr; exact absurd hr hne
  | cons d ds =>
    simp only []
    rw [← hr, List.reverse_reverse, valLE_digitsLE _ _ (by omega)]

/-- the first character of a numeral is a digit, never `-` -/
theorem showNat_head (n : Nat) : ∃ c cs, showNat n = c :: cs ∧ c ≠ '-' := by
  unfold showNat
  have hne := digitsLE_ne_nil n n
  cases hr : (digitsLE (n + 1) n).reverse with
  | nil => simp at hr; exact absurd hr hne
  | cons d ds =>
    refine ⟨digitChar d, ds.map digitChar, by simp, ?_⟩
    have hd : d < 10 := digitsLE_lt _ _ d (by
      have : d ∈ (digitsLE (n + 1) n).reverse := by rw [hr]; simp
      simpa using this)
    intro e
    have := charDigit_digitChar hd
    rw [e] at this
    simp [charDigit?] at this

theorem readInt_showInt (i : Int) : readInt (showInt i) = some i := by
  cases i with
  | ofNat n =>
    obtain ⟨c, cs, hc, hne⟩ := showNat_head n
    have h := readNat_showNat n
    simp only [showInt]
    rw [hc] at h ⊢
    unfold readInt
    split
    · rename_i heq; simp at heq; exact absurd heq.1 hne
    · simp [h]
  | negSucc n =>
    simp only [showInt, readInt, readNat_showNat]
    simp [Int.negSucc_eq]

end SciVerif.C19
