import SciVerif.Lemmas.C03k

/-! # C03 helper lemmas: `Fraction.rebase` keeps the value; `Quantity(1,text)` in base units -/
namespace SciVerif.C03

theorem rebase_spec (e : Frac) (he : e.den ≠ 0) : e.rebase.toRat = e.toRat ∧ e.rebase.den ≠ 0 := by
  unfold Frac.rebase
  simp only
  generalize h1 : (if e.num = 0 then (⟨0, 1⟩ : Frac) else e) = a1
  have p1 : a1.toRat = e.toRat ∧ a1.den ≠ 0 := by
    by_cases hz : e.num = 0
    · simp only [hz, if_true] at h1; subst h1
      simp [Frac.toRat, hz]
    · simp only [hz, if_false] at h1; subst h1; exact ⟨rfl, he⟩
  generalize h2 : (if a1.den < 0 then (⟨-a1.num, -a1.den⟩ : Frac) else a1) = a2
  have p2 : a2.toRat = e.toRat ∧ a2.den ≠ 0 := by
    by_cases hn : a1.den < 0
    · simp only [hn, if_true] at h2; subst h2
      refine ⟨?_, by simpa using p1.2⟩
      rw [← p1.1]
      simp only [Frac.toRat]; push_cast
      rw [neg_div_neg_eq]
    · simp only [hn, if_false] at h2; subst h2; exact p1
  split
  · rename_i hg
    have hg0 : ((Int.gcd a2.num a2.den : Nat) : Int) ≠ 0 := by omega
    have hgq : (((Int.gcd a2.num a2.den : Nat) : Int) : ℚ) ≠ 0 := by exact_mod_cast hg0
    have d1 : ((Int.gcd a2.num a2.den : Nat) : Int) ∣ a2.num := Int.gcd_dvd_left _ _
    have d2 : ((Int.gcd a2.num a2.den : Nat) : Int) ∣ a2.den := Int.gcd_dvd_right _ _
    constructor
    · rw [← p2.1]
      simp only [Frac.toRat]
      rw [Int.cast_div d1 hgq, Int.cast_div d2 hgq]
      have : (a2.den : ℚ) ≠ 0 := by exact_mod_cast p2.2
      field_simp
    · simp only
      intro h0
      have := Int.mul_ediv_cancel' d2
      rw [h0] at this
      simp at this
      exact p2.2 this.symm
  · exact p2

theorem specFactor_append (T : Tables) (l1 l2 : List (UnitId × Rat)) :
    specFactor T (l1 ++ l2) = specFactor T l1 * specFactor T l2 := by
  simp [specFactor, List.prod_append]

theorem ratPairs_append (a b : ExpMap) : ratPairs (a ++ b) = ratPairs a ++ ratPairs b := by
  simp [ratPairs]

/-- the dict `BaseUnits.__init__` leaves behind (zero exponents deleted, the others rebased)
    has the same factor as the dict it was given -/
theorem baseUnitsLoop_entries (T : Tables) (m : ExpMap) (acc b : BaseUnits) (hm : densOk m)
    (h : baseUnitsLoop T m acc = some b) :
    specFactor T (ratPairs b.entries) = specFactor T (ratPairs acc.entries) * specFactor T (ratPairs m) ∧
    (densOk acc.entries → densOk b.entries) := by
  induction m generalizing acc with
  | nil =>
    simp only [baseUnitsLoop, Option.some.injEq] at h
    subst h
    simp [specFactor, ratPairs]
  | cons x rest ih =>
    obtain ⟨u, e⟩ := x
    have he : e.den ≠ 0 := hm (u, e) (by simp)
    have hrest : densOk rest := fun y hy => hm y (List.mem_cons_of_mem _ hy)
    simp only [baseUnitsLoop] at h
    split at h
    · rename_i hz
      obtain ⟨e1, d1⟩ := ih acc hrest h
      refine ⟨?_, d1⟩
      rw [e1]
      simp [specFactor, ratPairs, toRat_of_num_zero e hz]
    · split at h
      · cases h
      · rename_i base hbase
        obtain ⟨e1, d1⟩ := ih _ hrest h
        obtain ⟨r1, r2⟩ := rebase_spec e he
        constructor
        · rw [e1]
          simp only [ratPairs_append, specFactor_append]
          simp only [specFactor, ratPairs, List.map_cons, List.map_nil, List.prod_cons, List.prod_nil, r1]
          ring
        · intro hacc
          apply d1
          intro ue hue
          rcases List.mem_append.mp hue with h1 | h1
          · exact hacc ue h1
          · simp at h1; subst h1; exact r2

/-- the "rebase if dimensions are zero" block of `Quantity.__init__` only moves factors from
    the units into the number -/
theorem nodimLoop_mag (T : Tables) (m keep keep' : ExpMap) (fs fs' : List Factor)
    (h : nodimLoop T m keep fs = some (keep', fs')) :
    magR fs' * specFactor T (ratPairs keep') =
      magR fs * specFactor T (ratPairs keep) * specFactor T (ratPairs m) := by
  induction m generalizing keep fs with
  | nil =>
    simp only [nodimLoop, Option.some.injEq, Prod.mk.injEq] at h
    obtain ⟨rfl, rfl⟩ := h
    simp [specFactor, ratPairs]
  | cons x rest ih =>
    obtain ⟨u, e⟩ := x
    simp only [nodimLoop] at h
    split at h
    · cases h
    · rename_i base hbase
      obtain ⟨hm, he⟩ := getUnitBase_factor T u e base hbase
      have hf : factorR base.factor = keyMag T u ^ ((e.toRat : ℚ) : ℝ) := by
        unfold factorR keyMag
        rw [hm, he]; rfl
      split at h
      · rw [ih _ _ h]
        simp only [ratPairs_append, specFactor_append]
        simp only [specFactor, ratPairs, List.map_cons, List.map_nil, List.prod_cons, List.prod_nil]
        ring
      · rw [ih _ _ h]
        simp only [magR, List.map_append, List.prod_append, List.map_cons, List.map_nil, List.prod_cons,
          List.prod_nil, hf]
        simp only [specFactor, ratPairs, List.map_cons, List.prod_cons]
        ring

/-- what `Quantity(1,text)` is in base units: number × moved factors × magnitude of its units -/
noncomputable def QuantityOut.total (q : QuantityOut) : ℝ :=
  ((q.coef : ℚ) : ℝ) * magR q.factors * magR q.base.factors

/-- `Quantity(1,text)` for any rendering of an AST with a denotation: whenever it is built, its
    value in base units is the numeric coefficient times `Π (prefix·unit)^e` -/
theorem quantity_total (T : Tables) (h1 : factF1 T = true) (h2 : factF2 T = true) (h3 : factF3 T = true)
    (h4 : factF4 T = true) (h7 : factF7 T = true) (hpos : factPositive T = true)
    (a : U) (s : Str) (hs : Renders a s) (hla : a.leftAssoc = true) (d : Den) (hd : denote T a = some d)
    (q : QuantityOut) (hq : quantityOfText T s = .ok q) :
    q.total = ((d.coef : ℚ) : ℝ) * specFactor T d.exps := by
  obtain ⟨v, b, hsolve, hag, _, hb, hmag⟩ := baseUnits_total T h1 h2 h3 h4 h7 hpos a s hs hla d hd
  unfold quantityOfText at hq
  simp only [hsolve, hb] at hq
  split at hq
  · -- dimensionless: factors of units with dimensions move into the number
    split at hq
    · cases hq
    · rename_i keep fs hloop
      split at hq
      · cases hq
      · rename_i b2 hb2
        cases hq
        have e1 := nodimLoop_mag T b.entries [] keep [] fs hloop
        have e2 := baseUnitsLoop_mag T keep BaseUnits.empty b2 hb2
        have e3 := (baseUnitsLoop_entries T v.units BaseUnits.empty b hag.dens hb).1
        simp only [BaseUnits.empty, magR, List.map_nil, List.prod_nil, one_mul, ratPairs, specFactor] at e1 e2 e3
        have e4 : specFactor T (ratPairs v.units) = specFactor T d.exps := by
          apply specFactor_congr T (keyMag_pos T hpos)
          intro k
          rw [expOf_ratPairs, sumR_eq_expR _ _ hag.nodup, hag.exps]
        simp only [QuantityOut.total, magR]
        rw [hag.mag, mul_assoc, e2]
        simp only [specFactor, ratPairs] at e4
        rw [e1, e3, e4]
        rfl
  · cases hq
    simp only [QuantityOut.total, magR, List.map_nil, List.prod_nil, mul_one]
    rw [hag.mag]
    congr 1

end SciVerif.C03
