import SciVerif.Model.C07

/-!
Lemmas for C07, part 1: the heap invariant `WF`, the frame relation `Frame`, and their preservation by the
primitive heap actions (allocation of a scalar/array, `Magnitude.__init__`, `BaseUnits.__init__`,
attribute assignment).
-/
namespace SciVerif.C07

@[simp] theorem upd_same {α : Type} (f : Loc → Option α) (l : Loc) (c : α) : upd f l c l = some c := by
  simp [upd]

theorem upd_ne {α : Type} (f : Loc → Option α) (l i : Loc) (c : α) (h : i ≠ l) : upd f l c i = f i := by
  simp [upd, h]

/-- The invariant.  Bounds (`*_lt`), no dangling reference (`q_ok m_ok b_ok`), an error array only together
    with a value array (`shaped`), and OWNERSHIP: a Magnitude object belongs to at most one quantity
    (`own_mag`), an array object to at most one attribute of one Magnitude (`own_arr`). -/
structure WF (h : Heap) : Prop where
  q_lt : ∀ l c, h.q l = some c → l < h.n
  m_lt : ∀ l c, h.m l = some c → l < h.n
  a_lt : ∀ l c, h.a l = some c → l < h.n
  b_lt : ∀ l c, h.b l = some c → l < h.n
  d_lt : ∀ l c, h.d l = some c → l < h.n
  q_ok : ∀ l c, h.q l = some c → (∃ mc, h.m c.mag = some mc) ∧ (∃ bc, h.b c.bu = some bc)
  m_ok : ∀ l c f r, h.m l = some c → c.field f = .arr r → ∃ t, h.a r = some t
  b_ok : ∀ l c, h.b l = some c → ∃ dc, h.d c.dict = some dc ∧ dc.normalised = true
  shaped : ∀ l c r, h.m l = some c → c.error = .arr r → c.value.isArr = true
  own_mag : ∀ x y cx cy, h.q x = some cx → h.q y = some cy → cx.mag = cy.mag → x = y
  own_arr : ∀ l1 l2 c1 c2 f1 f2 r, h.m l1 = some c1 → h.m l2 = some c2 →
      c1.field f1 = .arr r → c2.field f2 = .arr r → l1 = l2 ∧ f1 = f2

theorem WF.empty : WF Heap.empty := by
  constructor <;> intros <;> simp_all [Heap.empty]

/-- no Magnitude attribute refers to array `r` -/
def Unref (h : Heap) (r : Loc) : Prop := ∀ l c f, h.m l = some c → c.field f ≠ .arr r

/-- no quantity owns Magnitude `ml` -/
def Unowned (h : Heap) (ml : Loc) : Prop := ∀ x c, h.q x = some c → c.mag ≠ ml

theorem WF.unref_of_ge {h : Heap} (w : WF h) {r : Loc} (hr : h.n ≤ r) : Unref h r := by
  intro l c f hm hf
  obtain ⟨t, ht⟩ := w.m_ok l c f r hm hf
  have := w.a_lt r t ht
  omega

theorem WF.unowned_of_ge {h : Heap} (w : WF h) {ml : Loc} (hr : h.n ≤ ml) : Unowned h ml := by
  intro x c hq he
  obtain ⟨⟨mc, hmc⟩, _⟩ := w.q_ok x c hq
  have := w.m_lt _ mc hmc
  omega

/-- Old cells are kept, except possibly the quantity cell `qx`, the Magnitude cell `mx`, the array `ax`.
    BaseUnits objects and dicts are never excepted: they are frozen. -/
structure Frame (h h' : Heap) (qx mx ax : Option Loc) : Prop where
  n_le : h.n ≤ h'.n
  q_eq : ∀ l, l < h.n → some l ≠ qx → h'.q l = h.q l
  m_eq : ∀ l, l < h.n → some l ≠ mx → h'.m l = h.m l
  a_eq : ∀ l, l < h.n → some l ≠ ax → h'.a l = h.a l
  b_eq : ∀ l, l < h.n → h'.b l = h.b l
  d_eq : ∀ l, l < h.n → h'.d l = h.d l

abbrev Ext (h h' : Heap) : Prop := Frame h h' none none none

theorem Frame.refl (h : Heap) : Ext h h := by
  constructor <;> intros <;> first | rfl | exact Nat.le_refl _

theorem Frame.trans {h1 h2 h3 : Heap} {qx mx ax : Option Loc}
    (f1 : Frame h1 h2 qx mx ax) (f2 : Frame h2 h3 qx mx ax) : Frame h1 h3 qx mx ax := by
  have := f1.n_le
  constructor
  · exact Nat.le_trans f1.n_le f2.n_le
  · intro l hl hx; rw [f2.q_eq l (by omega) hx, f1.q_eq l hl hx]
  · intro l hl hx; rw [f2.m_eq l (by omega) hx, f1.m_eq l hl hx]
  · intro l hl hx; rw [f2.a_eq l (by omega) hx, f1.a_eq l hl hx]
  · intro l hl; rw [f2.b_eq l (by omega), f1.b_eq l hl]
  · intro l hl; rw [f2.d_eq l (by omega), f1.d_eq l hl]

theorem Ext.weaken {h h' : Heap} (f : Ext h h') (qx mx ax : Option Loc) : Frame h h' qx mx ax := by
  constructor
  · exact f.n_le
  · intro l hl _; exact f.q_eq l hl (by simp)
  · intro l hl _; exact f.m_eq l hl (by simp)
  · intro l hl _; exact f.a_eq l hl (by simp)
  · exact f.b_eq
  · exact f.d_eq

/-! ### generic updates -/

/-- taking a fresh token -/
theorem WF.bump {h : Heap} (w : WF h) : WF { h with n := h.n + 1 } := by
  constructor
  · intro l c hq; have := w.q_lt l c hq; simp; omega
  · intro l c hq; have := w.m_lt l c hq; simp; omega
  · intro l c hq; have := w.a_lt l c hq; simp; omega
  · intro l c hq; have := w.b_lt l c hq; simp; omega
  · intro l c hq; have := w.d_lt l c hq; simp; omega
  · exact w.q_ok
  · exact w.m_ok
  · exact w.b_ok
  · exact w.shaped
  · exact w.own_mag
  · exact w.own_arr

/-- a new array object -/
theorem WF.allocArr {h : Heap} (w : WF h) (t : Tok) :
    WF { h with a := upd h.a h.n t, n := h.n + 1 } := by
  constructor
  · intro l c hq; have := w.q_lt l c hq; simp; omega
  · intro l c hq; have := w.m_lt l c hq; simp; omega
  · intro l c hq
    by_cases e : l = h.n
    · subst e; simp
    · simp only [upd_ne _ _ _ _ e] at hq; have := w.a_lt l c hq; simp; omega
  · intro l c hq; have := w.b_lt l c hq; simp; omega
  · intro l c hq; have := w.d_lt l c hq; simp; omega
  · exact w.q_ok
  · intro l c f r hm hf
    obtain ⟨t', ht'⟩ := w.m_ok l c f r hm hf
    have := w.a_lt r t' ht'
    exact ⟨t', by simp [upd_ne _ _ _ _ (show r ≠ h.n by omega), ht']⟩
  · exact w.b_ok
  · exact w.shaped
  · exact w.own_mag
  · exact w.own_arr

/-- a new Magnitude object whose arrays are not referenced by anybody else -/
theorem WF.allocMag {h : Heap} (w : WF h) (c : Mag)
    (hok : ∀ f r, c.field f = .arr r → (∃ t, h.a r = some t) ∧ Unref h r)
    (hne : ∀ r, c.value = .arr r → c.error ≠ .arr r)
    (hsh : ∀ r, c.error = .arr r → c.value.isArr = true) :
    WF { h with m := upd h.m h.n c, n := h.n + 1 } := by
  constructor
  · intro l c hq; have := w.q_lt l c hq; simp; omega
  · intro l c' hq
    by_cases e : l = h.n
    · subst e; simp
    · simp only [upd_ne _ _ _ _ e] at hq; have := w.m_lt l c' hq; simp; omega
  · intro l c hq; have := w.a_lt l c hq; simp; omega
  · intro l c hq; have := w.b_lt l c hq; simp; omega
  · intro l c hq; have := w.d_lt l c hq; simp; omega
  · intro l c' hq
    obtain ⟨⟨mc, hmc⟩, hb⟩ := w.q_ok l c' hq
    have := w.m_lt _ mc hmc
    exact ⟨⟨mc, by simp [upd_ne _ _ _ _ (show c'.mag ≠ h.n by omega), hmc]⟩, hb⟩
  · intro l c' f r hm hf
    by_cases e : l = h.n
    · subst e; simp only [upd_same, Option.some.injEq] at hm; subst hm; exact (hok f r hf).1
    · simp only [upd_ne _ _ _ _ e] at hm; exact w.m_ok l c' f r hm hf
  · exact w.b_ok
  · intro l c' r hm he
    by_cases e : l = h.n
    · subst e; simp only [upd_same, Option.some.injEq] at hm; subst hm; exact hsh r he
    · simp only [upd_ne _ _ _ _ e] at hm; exact w.shaped l c' r hm he
  · exact w.own_mag
  · intro l1 l2 c1 c2 f1 f2 r h1 h2 e1 e2
    by_cases a1 : l1 = h.n <;> by_cases a2 : l2 = h.n
    · subst a1; subst a2
      simp only [upd_same, Option.some.injEq] at h1 h2; subst h1; subst h2
      refine ⟨rfl, ?_⟩
      cases f1 <;> cases f2 <;> simp_all [Mag.field]
    · subst a1
      simp only [upd_same, Option.some.injEq] at h1; subst h1
      simp only [upd_ne _ _ _ _ a2] at h2
      exact absurd e2 ((hok f1 r e1).2 l2 c2 f2 h2)
    · subst a2
      simp only [upd_same, Option.some.injEq] at h2; subst h2
      simp only [upd_ne _ _ _ _ a1] at h1
      exact absurd e1 ((hok f2 r e2).2 l1 c1 f1 h1)
    · simp only [upd_ne _ _ _ _ a1] at h1
      simp only [upd_ne _ _ _ _ a2] at h2
      exact w.own_arr l1 l2 c1 c2 f1 f2 r h1 h2 e1 e2

end SciVerif.C07
