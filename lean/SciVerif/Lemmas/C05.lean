import SciVerif.Lemmas.C04
import Mathlib.Analysis.SpecialFunctions.Log.Base
import Mathlib.Analysis.SpecialFunctions.Pow.Real
import Mathlib.Tactic.LinearCombination

/-! Helper definitions and lemmas for C05: decidable table checks, the real-number
    instance of the model's transcendental operations, inverse laws. -/
set_option linter.unusedSectionVars false

namespace SciVerif.C05
open SciVerif.C04

/-- The model's operations over the reals. -/
noncomputable instance : LogOps ℝ where
  ofRat q := (q : ℝ)
  log10 x := Real.logb 10 x
  ln := Real.log
  exp := Real.exp
  pow10 x := (10 : ℝ) ^ x

theorem ofRat_real (q : Rat) : (LogOps.ofRat q : ℝ) = (q : ℝ) := rfl
theorem log10_real (x : ℝ) : (LogOps.log10 x : ℝ) = Real.logb 10 x := rfl
theorem ln_real (x : ℝ) : (LogOps.ln x : ℝ) = Real.log x := rfl
theorem exp_real (x : ℝ) : (LogOps.exp x : ℝ) = Real.exp x := rfl
theorem pow10_real (x : ℝ) : (LogOps.pow10 x : ℝ) = (10 : ℝ) ^ x := rfl

/-! ## decidable checks over the regenerated tables -/

def temps : List String := ["K", "Cel", "degF", "degR"]

/-- a temperature method computes the standard affine map between the scales it sees -/
def tempEntryOk (e : TempEntry) : Bool :=
  match innerScale e.u, innerScale e.v with
  | some su, some sv => e.a == stdA su sv && e.b == stdB su sv && e.name == e.u ++ "_" ++ e.v
  | _, _ => false

/-- for the ordered pair (u, v): if the temperature class handles it, both methods exist and
    are mutually inverse affine maps -/
def tempPairInv (T : Tables) (u v : String) : Bool :=
  if T.tempProcess.contains u || T.tempProcess.contains v then
    match findTemp T.tempMethods (u ++ "_" ++ v), findTemp T.tempMethods (v ++ "_" ++ u) with
    | some e, some e' => e.a * e'.a == 1 && e'.a * e.b + e'.b == 0
    | _, _ => false
  else true

theorem tempPairInv_spec (T : Tables) (u v : String) (h : tempPairInv T u v = true)
    (ht : (T.tempProcess.contains u || T.tempProcess.contains v) = true) :
    ∃ e e', findTemp T.tempMethods (u ++ "_" ++ v) = some e ∧
      findTemp T.tempMethods (v ++ "_" ++ u) = some e' ∧ e.a * e'.a = 1 ∧ e'.a * e.b + e'.b = 0 := by
  unfold tempPairInv at h
  rw [if_pos ht] at h
  cases h1 : findTemp T.tempMethods (u ++ "_" ++ v) with
  | none => simp [h1] at h
  | some e =>
    cases h2 : findTemp T.tempMethods (v ++ "_" ++ u) with
    | none => simp [h1, h2] at h
    | some e' =>
      simp only [h1, h2, Bool.and_eq_true, beq_iff_eq] at h
      exact ⟨e, e', rfl, rfl, h.1, h.2⟩

/-- `g` undoes `f` (as real functions, on `f`'s domain) -/
def inverseFn : LogFn → LogFn → Bool
  | .shift e, .shift e' => e + e' == 0
  | .scale c, .unscale c' => c == c' && c != 0
  | .unscale c, .scale c' => c == c' && c != 0
  | .ratioB k c, .bRatio k' c' => k == k' && k != 0 && c * c' == 1
  | .bRatio k c, .ratioB k' c' => k == k' && k != 0 && c * c' == 1
  | .ratioNp k c, .npRatio k' c' => k == k' && k != 0 && c * c' == 1
  | .npRatio k c, .ratioNp k' c' => k == k' && k != 0 && c * c' == 1
  | _, _ => false

/-- lookup as `LogarithmicUnitType._istype` does it: table first, then the method name -/
def lookupLog (T : Tables) (key : String) : Option LogEntry :=
  match findLog T.logConversions key with
  | some e => some e
  | none => findLog T.logMethods key

def logEntryInv (T : Tables) (e : LogEntry) : Bool :=
  e.key == e.u ++ "_" ++ e.v &&
  match lookupLog T (e.v ++ "_" ++ e.u) with
  | some e' => inverseFn e.fn e'.fn
  | none => false

def mapGet (m : List (String × Rat)) (k : String) : Option Rat := (m.find? (·.1 == k)).map (·.2)

/-- documented levels incl. the plain bel against power / amplitude ratios -/
def docAll : List (String × String × Rat × Rat) := docLevels ++ [("B", "PR", 1, 1), ("B", "AR", 2, 1)]
def docNepers : List (String × String × Rat) := [("Np", "PR", mkRat 1 2), ("Np", "AR", 1)]

/-- the two table entries of a documented level are `k·log10(x/ref)` and its inverse, with
    the reference expressed in the table's base magnitude of the linear unit -/
def docLevelOk (T : Tables) (mags : List (String × Rat)) (d : String × String × Rat × Rat) : Bool :=
  match d with
  | (L, lin, k, ref) =>
    match mapGet mags lin, findLog T.logConversions (lin ++ "_" ++ L), findLog T.logConversions (L ++ "_" ++ lin) with
    | some m, some e, some e' =>
      e.fn == .ratioB k (1 / (ref * m)) && e'.fn == .bRatio k (ref * m) && mapGet mags L == some 1
    | _, _, _ => false

def docNeperOk (T : Tables) (d : String × String × Rat) : Bool :=
  match d with
  | (L, lin, k) =>
    match findLog T.logConversions (lin ++ "_" ++ L), findLog T.logConversions (L ++ "_" ++ lin) with
    | some e, some e' => e.fn == .ratioNp k 1 && e'.fn == .npRatio k 1
    | _, _ => false

def pow10Rat (e : Int) : Rat := if 0 ≤ e then (10 : Rat) ^ e.toNat else 1 / (10 : Rat) ^ (-e).toNat

def docOf (L : String) : Option (String × Rat × Rat) :=
  (docLevels.find? (·.1 == L)).map (fun d => (d.2.1, d.2.2.1, d.2.2.2))

/-- a `shift` entry between two documented dB-type units adds `k·log10(ref_u/ref_v)` bels -/
def shiftOk (e : LogEntry) : Bool :=
  match e.fn with
  | .shift s =>
    match docOf e.u, docOf e.v with
    | some (lu, ku, ru), some (lv, kv, rv) =>
      lu == lv && ku == kv && s.den == 1 && pow10Rat s.num == (if ku == 2 then (ru / rv) * (ru / rv) else ru / rv)
    | _, _ => e.u == e.v && s == 0
  | _ => true

/-- every unit of the process list converts to itself by `value + 0` -/
def selfOk (T : Tables) (s : String) : Bool :=
  match lookupLog T (s ++ "_" ++ s) with
  | some e => e.fn == .shift 0
  | none => false

/-! ## real-analysis lemmas -/

theorem affine_roundtrip (a b a' b' m1 m2 x : ℝ) (h : a * a' = 1) (h' : a' * b + b' = 0)
    (h1 : m1 ≠ 0) (h2 : m2 ≠ 0) : (a' * ((a * (x * m1) + b) / m2 * m2) + b') / m1 = x := by
  rw [div_mul_cancel₀ _ h2, div_eq_iff h1]
  linear_combination (x * m1) * h + h'

theorem ten_pos : (0 : ℝ) < 10 := by norm_num
theorem ten_ne_one : (10 : ℝ) ≠ 1 := by norm_num

/-- the domain on which a method body is injective/meaningful: the argument of a logarithm
    is positive -/
def InDomain (f : LogFn) (x : ℝ) : Prop :=
  match f with
  | .ratioB _ c => 0 < x * (c : ℝ)
  | .ratioNp _ c => 0 < x * (c : ℝ)
  | _ => True

theorem inverseFn_apply (f g : LogFn) (h : inverseFn f g = true) (x : ℝ) (hx : InDomain f x) :
    g.apply (f.apply x) = x := by
  cases f <;> cases g <;> simp only [inverseFn, Bool.false_eq_true] at h
  case shift.shift e e' =>
    have : (e : ℝ) + (e' : ℝ) = 0 := by
      have := (beq_iff_eq.mp h); exact_mod_cast this
    simp only [LogFn.apply, ofRat_real]; linarith
  case scale.unscale c c' =>
    simp only [Bool.and_eq_true, beq_iff_eq, bne_iff_ne] at h
    have hc : (c' : ℝ) ≠ 0 := by rw [← h.1]; exact_mod_cast h.2
    simp only [LogFn.apply, ofRat_real, h.1]
    field_simp
  case unscale.scale c c' =>
    simp only [Bool.and_eq_true, beq_iff_eq, bne_iff_ne] at h
    have hc : (c' : ℝ) ≠ 0 := by rw [← h.1]; exact_mod_cast h.2
    simp only [LogFn.apply, ofRat_real, h.1]
    field_simp
  case ratioB.bRatio k c k' c' =>
    simp only [Bool.and_eq_true, beq_iff_eq, bne_iff_ne] at h
    obtain ⟨⟨hk, hk0⟩, hc⟩ := h
    have hk0' : (k' : ℝ) ≠ 0 := by rw [← hk]; exact_mod_cast hk0
    have hc' : (c : ℝ) * (c' : ℝ) = 1 := by exact_mod_cast hc
    simp only [InDomain] at hx
    simp only [LogFn.apply, ofRat_real, log10_real, pow10_real, hk]
    rw [mul_div_cancel_left₀ _ hk0', Real.rpow_logb ten_pos ten_ne_one hx, mul_assoc, hc', mul_one]
  case bRatio.ratioB k c k' c' =>
    simp only [Bool.and_eq_true, beq_iff_eq, bne_iff_ne] at h
    obtain ⟨⟨hk, hk0⟩, hc⟩ := h
    have hk0' : (k' : ℝ) ≠ 0 := by rw [← hk]; exact_mod_cast hk0
    have hc' : (c : ℝ) * (c' : ℝ) = 1 := by exact_mod_cast hc
    simp only [LogFn.apply, ofRat_real, log10_real, pow10_real, hk]
    rw [mul_assoc, hc', mul_one, Real.logb_rpow ten_pos ten_ne_one, mul_div_cancel₀ _ hk0']
  case ratioNp.npRatio k c k' c' =>
    simp only [Bool.and_eq_true, beq_iff_eq, bne_iff_ne] at h
    obtain ⟨⟨hk, hk0⟩, hc⟩ := h
    have hk0' : (k' : ℝ) ≠ 0 := by rw [← hk]; exact_mod_cast hk0
    have hc' : (c : ℝ) * (c' : ℝ) = 1 := by exact_mod_cast hc
    simp only [InDomain] at hx
    simp only [LogFn.apply, ofRat_real, ln_real, exp_real, hk]
    rw [mul_div_cancel_left₀ _ hk0', Real.exp_log hx, mul_assoc, hc', mul_one]
  case npRatio.ratioNp k c k' c' =>
    simp only [Bool.and_eq_true, beq_iff_eq, bne_iff_ne] at h
    obtain ⟨⟨hk, hk0⟩, hc⟩ := h
    have hk0' : (k' : ℝ) ≠ 0 := by rw [← hk]; exact_mod_cast hk0
    have hc' : (c : ℝ) * (c' : ℝ) = 1 := by exact_mod_cast hc
    simp only [LogFn.apply, ofRat_real, ln_real, exp_real, hk]
    rw [mul_assoc, hc', mul_one, Real.log_exp, mul_div_cancel₀ _ hk0']

/-! ## rule selection for the two special classes -/

theorem touches_single {α : Type} (P : List String) (b1 b2 : BU α) (u v : String)
    (hu : b1.units = [u]) (hv : b2.units = [v]) :
    touches P b1 b2 = (P.contains u || P.contains v) := by
  simp [touches, hu, hv]

theorem pick_temperature (b1 b2 : BU ℝ) (u v : String) (e : TempEntry)
    (hu : b1.units = [u]) (hv : b2.units = [v])
    (ht : (Gen.tempProcess.contains u || Gen.tempProcess.contains v) = true)
    (he : findTemp Gen.tempMethods (u ++ "_" ++ v) = some e) :
    pick (unitTypes Gen.tables) b1 b2
      = .ok (fun x => ((e.a : ℝ) * (x * b1.magnitude) + (e.b : ℝ)) / b2.magnitude) := by
  have ht' : touches Gen.tables.tempProcess b1 b2 = true := by
    rw [touches_single _ _ _ u v hu hv]; exact ht
  have he' : findTemp Gen.tables.tempMethods (u ++ "_" ++ v) = some e := he
  rw [unitTypes_gen]
  simp only [pick, temperature, ht', if_true, hu, hv, he', ofRat_real]


theorem lookupLog_apply (T : Tables) (key : String) (e : LogEntry) (h : lookupLog T key = some e) :
    (match findLog T.logConversions key with
      | some e => (Sel.accept (e.fn.apply) : Sel ℝ)
      | none =>
        match findLog T.logMethods key with
        | some e => .accept (e.fn.apply)
        | none => .missing) = .accept (e.fn.apply) := by
  unfold lookupLog at h
  cases h1 : findLog T.logConversions key with
  | some e1 => simp only [h1, Option.some.injEq] at h; simp [h]
  | none => simp only [h1] at h; simp [h]

/-- the logarithmic class decides a pair of single units one of which is logarithmic, none
    being `Cel`/`degF` -/
theorem pick_logarithmic (b1 b2 : BU ℝ) (u v : String) (e : LogEntry)
    (hu : b1.units = [u]) (hv : b2.units = [v])
    (htt : (Gen.tempProcess.contains u || Gen.tempProcess.contains v) = false)
    (ht : (Gen.logProcess.contains u || Gen.logProcess.contains v) = true)
    (he : lookupLog Gen.tables (u ++ "_" ++ v) = some e) :
    pick (unitTypes Gen.tables) b1 b2
      = .ok (fun x => e.fn.apply (x * b1.magnitude) / b2.magnitude) := by
  have ht' : touches Gen.tables.logProcess b1 b2 = true := by
    rw [touches_single _ _ _ u v hu hv]; exact ht
  have htt' : touches Gen.tables.tempProcess b1 b2 = false := by
    rw [touches_single _ _ _ u v hu hv]; exact htt
  rw [unitTypes_gen]
  have e1 : (temperature Gen.tables : Rule ℝ) b1 b2 = .decline := temperature_declines _ _ _ htt'
  have e2 : (logarithmic Gen.tables : Rule ℝ) b1 b2 = .accept (e.fn.apply) := by
    simp only [logarithmic, ht', if_true, hu, hv, List.length_singleton, beq_self_eq_true, Bool.true_or,
      Bool.and_self, List.head?_cons]
    exact lookupLog_apply _ _ _ he
  simp only [pick, e1, e2]

/-- arithmetic core of `LogarithmicUnitType.add/sub` = the documented power sum -/
theorem level_arith (sub? : Bool) (m x y : ℝ) :
    LogOps.log10 ((if sub? then (LogOps.pow10 (x * m) - LogOps.pow10 (y * m) : ℝ)
        else LogOps.pow10 (x * m) + LogOps.pow10 (y * m))) / m = specLevelOp sub? m x y := by
  have ten : (LogOps.ofRat 10 : ℝ) = 10 := by simp [ofRat_real]
  simp only [specLevelOp, ten]
  have e1 : x * m * 10 / 10 = x * m := by ring
  have e2 : y * m * 10 / 10 = y * m := by ring
  rw [e1, e2, mul_div_mul_left _ _ (by norm_num : (10 : ℝ) ≠ 0)]

/-! ## unit environments -/

theorem close_reverse (types : List String) (rec : List String) (h : rec.Nodup) :
    envClose (rec.reverse ++ types) rec = types := by
  induction rec with
  | nil => rfl
  | cons d rest ih =>
    have hd : d ∉ rest := (List.nodup_cons.mp h).1
    have hr : rest.Nodup := (List.nodup_cons.mp h).2
    have hd' : d ∉ rest.reverse := by simpa using hd
    simp only [envClose, List.foldl_cons, List.reverse_cons, List.append_assoc, List.singleton_append]
    rw [List.erase_append_right _ hd', List.erase_cons_head]
    exact ih hr

theorem open_inv (types0 : List String) (defs : List String) (types rec : List String)
    (h1 : types = rec.reverse ++ types0) (h2 : rec.Nodup) :
    ∃ rec', envOpenAux types rec defs = (rec'.reverse ++ types0, rec') ∧ rec'.Nodup := by
  induction defs generalizing types rec with
  | nil => exact ⟨rec, by simp [envOpenAux, h1], h2⟩
  | cons d ds ih =>
    simp only [envOpenAux]
    by_cases hc : types.contains d = true
    · simp only [hc, if_true]; exact ih types rec h1 h2
    · simp only [hc, Bool.false_eq_true, if_false]
      apply ih
      · simp [h1]
      · have hnot : d ∉ types := by simpa using hc
        have : d ∉ rec := by
          intro hm; apply hnot; rw [h1]; simp [hm]
        exact List.nodup_append.mpr ⟨h2, by simp, by
          intro a ha b hb
          simp only [List.mem_singleton] at hb
          subst hb
          intro e; subst e; exact this ha⟩

end SciVerif.C05
