import SciVerif.Lemmas.C03e
import SciVerif.Lemmas.C03l

/-! # C03 helper lemmas: the dimension vector of `BaseUnits(text)` against the denotation -/
namespace SciVerif.C03

theorem getD_zipWith_add : ∀ (a b : List Rat), a.length = b.length → ∀ i : Nat,
    (List.zipWith (· + ·) a b)[i]?.getD 0 = a[i]?.getD 0 + b[i]?.getD 0
  | [], [], _, i => by simp
  | [], _ :: _, h, _ => by simp at h
  | _ :: _, [], h, _ => by simp at h
  | x :: a, y :: b, h, 0 => by simp
  | x :: a, y :: b, h, i + 1 => by
    simp only [List.zipWith_cons_cons, List.getElem?_cons_succ]
    exact getD_zipWith_add a b (by simpa using h) i

theorem getD_map_mul (D : List Rat) (e : Rat) (i : Nat) :
    (D.map (fun d => e * d))[i]?.getD 0 = e * D[i]?.getD 0 := by
  rw [List.getElem?_map]
  cases D[i]? <;> simp

/-- dimension vector of a key (zeros for an unknown key) -/
def keyDims (T : Tables) (u : UnitId) : List Rat := (unitDims T u).getD zeroRDims

/-- component `i` of `Σ e·dim(u)` is `Σ e·dim(u)ᵢ` -/
theorem specDims_component (T : Tables) (hT : tableDimsOk T) (l : List (UnitId × Rat)) (i : Nat) :
    (specDims T l)[i]?.getD 0 = (l.map (fun ue => ue.2 * (keyDims T ue.1)[i]?.getD 0)).sum := by
  induction l with
  | nil =>
    simp only [specDims, List.map_nil, List.sum_nil, zeroRDims]
    rw [List.getElem?_replicate]
    split <;> simp
  | cons x t ih =>
    obtain ⟨u, e⟩ := x
    simp only [specDims, addRDims, List.map_cons, List.sum_cons]
    rw [getD_zipWith_add _ _ (by simp [unitDims_length T hT u, specDims_length T hT t]), getD_map_mul, ih]
    rfl

theorem sum_ite_mul (c : UnitId → Rat) (K : List UnitId) (hK : K.Nodup) (u : UnitId) (hu : u ∈ K) (e : Rat) :
    (K.map (fun k => (if u = k then e else 0) * c k)).sum = e * c u := by
  induction K with
  | nil => cases hu
  | cons a t ih =>
    simp only [List.nodup_cons] at hK
    simp only [List.map_cons, List.sum_cons]
    by_cases h : u = a
    · subst h
      have : (t.map (fun k => (if u = k then e else 0) * c k)).sum = 0 := by
        apply List.sum_eq_zero
        intro x hx
        rw [List.mem_map] at hx
        obtain ⟨k, hk, rfl⟩ := hx
        have : ¬ u = k := fun e' => hK.1 (e' ▸ hk)
        simp [this]
      rw [this]; simp
    · have hu' : u ∈ t := by
        rcases List.mem_cons.mp hu with h1 | h1
        · exact absurd h1 h
        · exact h1
      rw [ih hK.2 hu']
      simp [h]

theorem sum_regroup (c : UnitId → Rat) (l : List (UnitId × Rat)) (K : List UnitId) (hK : K.Nodup)
    (hl : ∀ ue ∈ l, ue.1 ∈ K) :
    (l.map (fun ue => ue.2 * c ue.1)).sum = (K.map (fun k => expOf l k * c k)).sum := by
  induction l with
  | nil =>
    simp only [List.map_nil, List.sum_nil, expOf]
    symm
    apply List.sum_eq_zero
    intro x hx
    rw [List.mem_map] at hx
    obtain ⟨k, _, rfl⟩ := hx
    simp
  | cons a t ih =>
    obtain ⟨u, e⟩ := a
    have hu : u ∈ K := hl (u, e) (by simp)
    have ht : ∀ ue ∈ t, ue.1 ∈ K := fun ue h => hl ue (List.mem_cons_of_mem _ h)
    simp only [List.map_cons, List.sum_cons]
    rw [ih ht, ← sum_ite_mul c K hK u hu e, ← List.sum_map_add]
    congr 1
    apply List.map_congr_left
    intro k _
    simp only [expOf, List.map_cons, List.sum_cons]
    ring

/-- two multisets that give every unit the same total exponent have the same dimension vector -/
theorem specDims_congr (T : Tables) (hT : tableDimsOk T) (l1 l2 : List (UnitId × Rat))
    (h : ∀ k, expOf l1 k = expOf l2 k) : specDims T l1 = specDims T l2 := by
  let K := (l1.map (·.1) ++ l2.map (·.1)).dedup
  have hK : K.Nodup := List.nodup_dedup _
  have h1 : ∀ ue ∈ l1, ue.1 ∈ K := by
    intro ue hue
    rw [List.mem_dedup, List.mem_append]
    exact Or.inl (List.mem_map_of_mem hue)
  have h2 : ∀ ue ∈ l2, ue.1 ∈ K := by
    intro ue hue
    rw [List.mem_dedup, List.mem_append]
    exact Or.inr (List.mem_map_of_mem hue)
  have hcomp : ∀ i : Nat, (specDims T l1)[i]?.getD 0 = (specDims T l2)[i]?.getD 0 := by
    intro i
    rw [specDims_component T hT l1 i, specDims_component T hT l2 i,
      sum_regroup (fun u => (keyDims T u)[i]?.getD 0) l1 K hK h1,
      sum_regroup (fun u => (keyDims T u)[i]?.getD 0) l2 K hK h2]
    congr 1
    apply List.map_congr_left
    intro k _
    rw [h k]
  have hl1 := specDims_length T hT l1
  have hl2 := specDims_length T hT l2
  apply List.ext_getElem (by rw [hl1, hl2])
  intro i hi1 hi2
  have := hcomp i
  rw [List.getElem?_eq_getElem hi1, List.getElem?_eq_getElem hi2] at this
  simpa using this

/-- `BaseUnits(text)` for any rendering of an AST with a denotation: its dimension vector is
    `Σ e·dim(u)` over the denotation's multiset -/
theorem baseUnits_dims_total (T : Tables) (h1 : factF1 T = true) (h2 : factF2 T = true) (h3 : factF3 T = true)
    (h4 : factF4 T = true) (h7 : factF7 T = true) (hpos : factPositive T = true) (hT : tableDimsOk T)
    (a : U) (s : Str) (hs : Renders a s) (hla : a.leftAssoc = true) (d : Den) (hd : denote T a = some d) :
    ∃ b, baseUnitsOfText T s = .ok b ∧ b.dims.map Frac.toRat = specDims T d.exps := by
  obtain ⟨v, b, _, hag, htext, hb, _⟩ := baseUnits_total T h1 h2 h3 h4 h7 hpos a s hs hla d hd
  refine ⟨b, htext, ?_⟩
  have hz : dimsOk BaseUnits.empty.dims := by
    refine ⟨by simp [BaseUnits.empty, zeroDims], ?_⟩
    intro f hf
    simp only [BaseUnits.empty, zeroDims, List.mem_replicate] at hf
    rw [hf.2]; decide
  obtain ⟨e1, _⟩ := baseUnitsLoop_dims T hT v.units BaseUnits.empty b hag.dens hz hb
  rw [e1]
  have h0 : BaseUnits.empty.dims.map Frac.toRat = zeroRDims.map (fun d => 0 * d) := by
    simp [BaseUnits.empty, zeroDims, zeroRDims, Frac.toRat, Frac.zero]
  rw [h0, addRDims_zero_left _ _ (by simp [zeroRDims, specDims_length T hT])]
  apply specDims_congr T hT
  intro k
  have := expOf_ratPairs v.units k
  unfold ratPairs at this
  rw [this, sumR_eq_expR _ _ hag.nodup, hag.exps]

end SciVerif.C03
