import SciVerif.Lemmas.C19f
/-!
# C19 — Bash: quote removal undoes the exporter's escaping, for every string
-/
namespace SciVerif.C19

def bashEscChar (ch : Char) : Str :=
  if ch = '\\' then ['\\', '\\'] else if ch = '"' then ['\\', '"'] else if ch = '$' then ['\\', '$']
  else if ch = '`' then ['\\', '`'] else [ch]

theorem bashEsc_nil : bashEsc [] = [] := rfl

/-- the four sequential `str.replace` calls act character by character -/
theorem bashEsc_cons (ch : Char) (v : Str) : bashEsc (ch :: v) = bashEscChar ch ++ bashEsc v := by
  by_cases h1 : ch = '\\'
  · subst h1; simp [bashEsc, bashEscChar, replaceChar_cons]
  · by_cases h2 : ch = '"'
    · subst h2; simp [bashEsc, bashEscChar, replaceChar_cons]
    · by_cases h3 : ch = '$'
      · subst h3; simp [bashEsc, bashEscChar, replaceChar_cons]
      · by_cases h4 : ch = '`'
        · subst h4; simp [bashEsc, bashEscChar, replaceChar_cons]
        · simp [bashEsc, bashEscChar, replaceChar_cons, h1, h2, h3, h4]

theorem bashDq_esc : ∀ (v rest : Str), bashDqGo false (bashEsc v ++ '"' :: rest) = some (v, rest)
  | [], rest => by simp [bashEsc_nil, bashDqGo]
  | ch :: v, rest => by
    have ih := bashDq_esc v rest
    rw [bashEsc_cons]
    by_cases h1 : ch = '\\'
    · subst h1; simp [bashEscChar, bashDqGo, bashDqSpecial, ih]
    · by_cases h2 : ch = '"'
      · subst h2; simp [bashEscChar, bashDqGo, bashDqSpecial, ih]
      · by_cases h3 : ch = '$'
        · subst h3; simp [bashEscChar, bashDqGo, bashDqSpecial, ih]
        · by_cases h4 : ch = '`'
          · subst h4; simp [bashEscChar, bashDqGo, bashDqSpecial, ih]
          · simp [bashEscChar, bashDqGo, ih, h1, h2, h3, h4]

/-- a string value, written by `_parse_scalar` and read by Bash as one word, is unchanged -/
theorem bashWordValue_scalar (v : Str) : bashWordValue (bashScalar (.s v)) = some v := by
  have := bashDq_esc v []
  simp [bashWordValue, bashScalar, bashDq, this]

end SciVerif.C19
