import SciVerif.Lemmas.C17v

/-! Refinement (C17), part 6: the import step, one step of the fragment, whole runs. -/
namespace SciVerif.C17

theorem nodup_of_map {α β : Type} (f : α → β) (l : List α) (h : (l.map f).Nodup) : l.Nodup := by
  induction l with
  | nil => exact List.nodup_nil
  | cons a t ih =>
    simp only [List.map_cons, List.nodup_cons] at h ⊢
    exact ⟨fun hm => h.1 (List.mem_map_of_mem hm), ih h.2⟩

theorem good_mkCopy (tbl : UnitTable) (imp : Node) (hi : imp.indent = 0) (q : Query) (n : Node)
    (hg : Good tbl n) : CopyOK tbl (mkCopy imp (qRename q n)) := by
  obtain ⟨hk, ⟨v, hv, hcf⟩, hsl, hu, hint⟩ := hg
  refine ⟨hi, ?_, ?_⟩
  · cases q <;> exact ⟨hk, ⟨v, hv, hcf⟩, hsl, hu, hint⟩
  · cases q <;> simp [mkCopy, qRename, rawValue, hv]

theorem setValue_copy (tbl : UnitTable) (c : Node) (hc : CopyOK tbl c) : setValue c = .ok c := by
  obtain ⟨hi, ⟨hk, ⟨v, hv, hcf⟩, hsl, hu, hint⟩, hraw⟩ := hc
  have hm : c.kw ≠ .mod := by intro e; rw [e] at hk; simp [isTyped] at hk
  have hcv : castValue c v = some v := by rw [castValue_eq_conforms c v hsl hk]; exact hcf
  have hr : c.raw = some v := by rw [hraw, hv]
  unfold setValue
  simp only [hr, hm, if_false, hv, hcv]
  congr 1
  cases c
  simp_all

/-- an imported copy whose name already exists: the main loop assigns it to that node -/
theorem processNode_land (tbl : UnitTable) (env : Env) (c : Node) (hc : CopyOK tbl c) (ns' : List Node)
    (h : modifyFirst tbl c env.nodes = .ok (some ns')) :
    processNode tbl env c = .ok { env with parents := [(0, c.name)], nodes := ns' } := by
  have hsv := setValue_copy tbl c hc
  obtain ⟨hi, ⟨hk, _, _, hu, _⟩, _⟩ := hc
  have hg : c.kw ≠ .group := by intro e; rw [e] at hk; simp [isTyped] at hk
  unfold processNode
  rw [unitCheck_ok tbl c hk hu]
  simp only [register_zero env.parents c hi, hg, if_false, hsv, h]

/-- one imported copy: re-created, or assigned to the existing node of that name — exactly
    what the specification's `sImportOne` does to the abstraction -/
theorem import_one (tbl : UnitTable) (env : Env) (hgood : ∀ n ∈ env.nodes, Good tbl n) (c : Node)
    (hc : CopyOK tbl c) (ss' : List SNode)
    (h : sImportOne tbl (env.nodes.map absN) (absN c) = some ss') :
    ∃ env', processNode tbl env c = .ok env' ∧ env'.nodes.map absN = ss' ∧
      (∀ n ∈ env'.nodes, Good tbl n) ∧ env'.sources = env.sources ∧ env'.units = env.units ∧
      env'.srcUnits = env.srcUnits := by
  unfold sImportOne at h
  cases hany : (env.nodes.map absN).any (fun m => decide (m.path = (absN c).path)) with
  | false =>
    simp only [hany, Bool.false_eq_true, if_false, Option.some.injEq] at h
    have hfresh : ∀ t ∈ env.nodes, t.name ≠ c.name := by
      intro t ht e
      have : (env.nodes.map absN).any (fun m => decide (m.path = (absN c).path)) = true := by
        rw [List.any_eq_true]
        exact ⟨absN t, List.mem_map_of_mem ht, by simp [absN, e]⟩
      rw [this] at hany
      cases hany
    refine ⟨_, processNode_copy tbl env c hc hfresh, by simp [← h], ?_, rfl, rfl, rfl⟩
    intro n hn
    simp only [List.mem_append, List.mem_singleton] at hn
    rcases hn with hn | rfl
    · exact hgood n hn
    · exact hc.2.1
  | true =>
    simp only [hany, if_true] at h
    obtain ⟨v, hv, _, hval⟩ := good_conf hc.2.1
    simp only [hval] at h
    have hraw : c.raw = some v := by rw [hc.2.2, hv]
    have hpath : (absN c).path = splitDot c.name := rfl
    rw [hpath] at h
    obtain ⟨ns', hmf, habs, hg'⟩ := modifyFirst_abs tbl c v env.nodes ss'
      (fun t => if t.kw = (absN c).kw then specModF tbl v (absN c).unit t else none)
      (by
        intro t _ s' hs
        by_cases hk : (absN t).kw = (absN c).kw
        · simp only [hk, if_true] at hs
          refine ⟨hs, Or.inr ?_⟩
          have : t.kw = c.kw := hk
          rw [this]
        · simp [hk] at hs)
      hgood hraw h
    exact ⟨_, processNode_land tbl env c hc ns' hmf, habs, hg', rfl, rfl, rfl⟩

theorem import_all (tbl : UnitTable) (cs : List Node) (env : Env) (hgood : ∀ n ∈ env.nodes, Good tbl n)
    (hok : ∀ c ∈ cs, CopyOK tbl c) (ss' : List SNode)
    (h : sImportAll tbl (env.nodes.map absN) (cs.map absN) = some ss') :
    ∃ env', cs.foldlM (processNode tbl) env = .ok env' ∧ env'.nodes.map absN = ss' ∧
      (∀ n ∈ env'.nodes, Good tbl n) ∧ env'.sources = env.sources ∧ env'.units = env.units ∧
      env'.srcUnits = env.srcUnits := by
  induction cs generalizing env with
  | nil =>
    simp only [List.map_nil, sImportAll, Option.some.injEq] at h
    exact ⟨env, rfl, h, hgood, rfl, rfl, rfl⟩
  | cons c rest ih =>
    simp only [List.map_cons, sImportAll] at h
    cases h1 : sImportOne tbl (env.nodes.map absN) (absN c) with
    | none => simp [h1] at h
    | some s1 =>
      simp only [h1] at h
      obtain ⟨env1, hp, habs, hg1, hs1, hu1, hq1⟩ := import_one tbl env hgood c (hok c (by simp)) s1 h1
      rw [← habs] at h
      obtain ⟨env', hrun, habs', hg', hs', hu', hq'⟩ := ih env1 hg1 (fun x hx => hok x (by simp [hx])) h
      refine ⟨env', ?_, habs', hg', hs'.trans hs1, hu'.trans hu1, hq'.trans hq1⟩
      simp only [List.foldlM_cons, hp, bind, Except.bind]
      exact hrun

/-- an import: whenever the specification accepts it (re-creating the selected nodes below the
    destination, assigning to nodes that exist there already), the main loop does the same -/
theorem refine_imp (tbl : UnitTable) (env : Env) (hinv : Inv tbl env) (dest : List Str)
    (source : Option Str) (q : SQuery) (item : Item) (s' : SEnv)
    (hfrag : InFrag (absEnv env) (.imp dest source q))
    (hc : conc (.imp dest source q) = some item)
    (h : sStep tbl (absEnv env) (.imp dest source q) = .ok s') :
    ∃ env', step tbl env item = .ok env' ∧ absEnv env' = s' ∧ Inv tbl env' := by
  obtain ⟨hws, hd, hb1, hb2, hq, hsel⟩ := hfrag
  simp only [conc, Option.some.injEq] at hc
  simp only [sStep] at h
  cases hl : sLookup (absEnv env) source with
  | none => simp [hl] at h
  | some ss =>
    have hne := hsel ss hl
    obtain ⟨ns, hreq, hss, hgood⟩ := requestNodes_abs tbl env hinv source hws (renderQ q) ss hl
    obtain ⟨hpq, hqq⟩ := parse_render q hq
    have hsrc : '?' ∉ source.getD [] := by
      cases source with
      | none => simp
      | some x => exact (hws x rfl).2
    have hname : ∀ nm, importName (impLine dest source q).name nm = impName dest nm :=
      fun nm => importName_impLine dest _ nm hb1 hb2
    have hselabs := import_sel_abs q hq dest hd (impLine dest source q) hname ns
    rw [← hss] at hselabs
    have hselne : (select q ss).map (sReroot dest q) ≠ [] := by simpa using hne
    have hemp : ((select q ss).map (sReroot dest q)).isEmpty = false := by
      cases hx : (select q ss).map (sReroot dest q) with
      | nil => exact absurd hx hselne
      | cons a t => rfl
    simp only [hl, hemp, Bool.false_eq_true, if_false] at h
    cases hall : sImportAll tbl (absEnv env).nodes ((select q ss).map (sReroot dest q)) with
    | none => simp [hall] at h
    | some ss' =>
      simp only [hall, Except.ok.injEq] at h
      have hrq : request env (source.getD [] ++ '?' :: renderQ q) .any = .ok (query ns (toQuery q)) := by
        unfold request
        rw [splitQ_render _ _ hsrc hqq]
        simp only [hreq, hpq, countCheck]
      have hqs : query ns (toQuery q) ≠ [] := by
        intro e
        rw [e] at hselabs
        exact hselne hselabs.symm
      have himp : importNodes env (impLine dest source q) =
          .ok ((query ns (toQuery q)).map (mkCopy (impLine dest source q))) := by
        unfold importNodes
        have hr : (impLine dest source q).ref = some (source.getD [] ++ '?' :: renderQ q) := rfl
        simp only [hr, hrq]
        cases hx : query ns (toQuery q) with
        | nil => exact absurd hx hqs
        | cons a t => rfl
      have hok : ∀ c ∈ (query ns (toQuery q)).map (mkCopy (impLine dest source q)), CopyOK tbl c := by
        intro c hcm
        obtain ⟨m, hm, rfl⟩ := List.mem_map.mp hcm
        obtain ⟨n, hn, _, rfl⟩ := (mem_query ns (toQuery q) m).mp hm
        exact good_mkCopy tbl _ rfl (toQuery q) n (hgood n hn)
      rw [← hselabs] at hall
      obtain ⟨env', hrun, habs, hg', hsrcs, hunits, hsu⟩ := import_all tbl _ env hinv.1 hok ss' hall
      refine ⟨env', ?_, ?_, ⟨hg', by rw [hsrcs]; exact hinv.2⟩⟩
      · rw [← hc]
        have hk : (impLine dest source q).kw = .imp := rfl
        simp only [step, hk, if_true, himp]
        exact hrun
      · rw [← h]
        simp only [absEnv, habs, hsrcs, hunits, hsu]

/-- One statement of the fragment: whenever the specification accepts it, the model's main loop
    accepts its line and ends in a state whose abstraction is the specification's new state. -/
theorem refine_step (tbl : UnitTable) (env : Env) (hinv : Inv tbl env) (stmt : SStmt) (item : Item)
    (s' : SEnv) (hfrag : InFrag (absEnv env) stmt) (hc : conc stmt = some item)
    (h : sStep tbl (absEnv env) stmt = .ok s') :
    ∃ env', step tbl env item = .ok env' ∧ absEnv env' = s' ∧ Inv tbl env' := by
  cases stmt with
  | defn path kw dims sv unit => exact refine_defn tbl env hinv path kw dims sv unit item s' hfrag hc h
  | modl path sv unit => exact refine_modl tbl env hinv path sv unit item s' hfrag hc h
  | imp dest source q => exact refine_imp tbl env hinv dest source q item s' hfrag hc h
  | constant path => exact absurd hfrag (by simp [InFrag])
  | condition path e => exact absurd hfrag (by simp [InFrag])
  | format path f => exact absurd hfrag (by simp [InFrag])
  | tags path l => exact absurd hfrag (by simp [InFrag])
  | option path r u => exact absurd hfrag (by simp [InFrag])
  | description path d => exact absurd hfrag (by simp [InFrag])
  | decl path kw dims unit => exact absurd hfrag (by simp [InFrag])
  | unitdef name v unit => exact absurd hfrag (by simp [InFrag])
  | unitimp a b => exact absurd hfrag (by simp [InFrag])
  | caseCond v => exact absurd hfrag (by simp [InFrag])
  | caseElse => exact absurd hfrag (by simp [InFrag])
  | caseEnd => exact absurd hfrag (by simp [InFrag])

/-- the side conditions hold along the specification's run -/
def FragRun (tbl : UnitTable) : SEnv → List SStmt → Prop
  | _, [] => True
  | senv, s :: rest => InFrag senv s ∧ ∀ senv', sStep tbl senv s = .ok senv' → FragRun tbl senv' rest

theorem refine_run (tbl : UnitTable) (stmts : List SStmt) (items : List Item) (env : Env) (s' : SEnv)
    (hinv : Inv tbl env) (hfrag : FragRun tbl (absEnv env) stmts) (hc : stmts.mapM conc = some items)
    (h : sRun tbl (absEnv env) stmts = .ok s') :
    ∃ env', items.foldlM (step tbl) env = .ok env' ∧ absEnv env' = s' ∧ Inv tbl env' := by
  induction stmts generalizing items env with
  | nil =>
    simp at hc; subst hc
    simp only [sRun, Except.ok.injEq] at h
    exact ⟨env, rfl, h, hinv⟩
  | cons st rest ih =>
    simp only [List.mapM_cons] at hc
    cases hci : conc st with
    | none => simp [hci] at hc
    | some it =>
      cases hcr : rest.mapM conc with
      | none => simp [hci, hcr] at hc
      | some its =>
        simp [hci, hcr] at hc
        subst hc
        simp only [sRun] at h
        cases hs : sStep tbl (absEnv env) st with
        | error e => simp [hs] at h
        | ok s1 =>
          simp only [hs] at h
          obtain ⟨hf1, hf2⟩ := hfrag
          obtain ⟨env1, hstep, habs, hinv1⟩ := refine_step tbl env hinv st it s1 hf1 hci hs
          have hfr := hf2 s1 hs
          rw [← habs] at hfr h
          obtain ⟨env', hrun, habs', hinv'⟩ := ih its env1 hinv1 hfr hcr h
          refine ⟨env', ?_, habs', hinv'⟩
          simp only [List.foldlM_cons, hstep, bind, Except.bind]
          exact hrun

end SciVerif.C17
