import SciVerif.Lemmas.C17v

/-! Refinement (C17), part 6: the import step, one step of the fragment, whole runs. -/
namespace SciVerif.C17

theorem nodup_of_map {α β : Type} (f : α → β) (l : List α) (h : (l.map f).Nodup) : l.Nodup := by
  induction l with
  | nil => exact List.nodup_nil
  | cons a t ih =>
    simp only [List.map_cons, List.nodup_cons] at h ⊢
    exact ⟨fun hm => h.1 (List.mem_map_of_mem hm), ih h.2⟩

theorem good_mkCopy (tbl : UnitTable) (imp : Node) (hi : imp.indent = 0) (q : Query) (n : Node)
    (hg : Good tbl n) : CopyOK tbl (mkCopy imp (qRename q n)) := by
  obtain ⟨hk, ⟨v, hv, hcf⟩, hsl, hu, hint⟩ := hg
  refine ⟨hi, ?_, ?_⟩
  · cases q <;> exact ⟨hk, ⟨v, hv, hcf⟩, hsl, hu, hint⟩
  · cases q <;> simp [mkCopy, qRename, rawValue, hv]

/-- an import: whenever the specification adds the re-rooted selection, the main loop appends
    exactly the corresponding nodes -/
theorem refine_imp (tbl : UnitTable) (env : Env) (hinv : Inv tbl env) (dest : List Str)
    (source : Option Str) (q : SQuery) (item : Item) (s' : SEnv)
    (hfrag : InFrag (absEnv env) (.imp dest source q))
    (hc : conc (.imp dest source q) = some item)
    (h : sStep tbl (absEnv env) (.imp dest source q) = .ok s') :
    ∃ env', step tbl env item = .ok env' ∧ absEnv env' = s' ∧ Inv tbl env' := by
  obtain ⟨hws, hd, hb1, hb2, hq, hsel⟩ := hfrag
  simp only [conc, Option.some.injEq] at hc
  simp only [sStep] at h
  cases hl : sLookup (absEnv env) source with
  | none => simp [hl] at h
  | some ss =>
    obtain ⟨hne, hnd⟩ := hsel ss hl
    obtain ⟨ns, hreq, hss, hgood⟩ := requestNodes_abs tbl env hinv source hws (renderQ q) ss hl
    obtain ⟨hpq, hqq⟩ := parse_render q hq
    have hsrc : '?' ∉ source.getD [] := by
      cases source with
      | none => simp
      | some x => exact (hws x rfl).2
    have hname : ∀ nm, importName (impLine dest source q).name nm = impName dest nm :=
      fun nm => importName_impLine dest _ nm hb1 hb2
    have hselabs := import_sel_abs q hq dest hd (impLine dest source q) hname ns
    rw [← hss] at hselabs
    have hselne : (select q ss).map (sReroot dest q) ≠ [] := by simpa using hne
    have hemp : ((select q ss).map (sReroot dest q)).isEmpty = false := by
      cases hx : (select q ss).map (sReroot dest q) with
      | nil => exact absurd hx hselne
      | cons a t => rfl
    simp only [hl, hemp, Bool.false_eq_true, if_false] at h
    cases hcol : ((select q ss).map (sReroot dest q)).any
        (fun n => (absEnv env).nodes.any (fun m => decide (m.path = n.path))) with
    | true => simp [hcol] at h
    | false =>
      simp only [hcol, Bool.false_eq_true, if_false, Except.ok.injEq] at h
      -- the model's request and import
      have hrq : request env (source.getD [] ++ '?' :: renderQ q) .any = .ok (query ns (toQuery q)) := by
        unfold request
        rw [splitQ_render _ _ hsrc hqq]
        simp only [hreq, hpq, countCheck]
      have hqs : query ns (toQuery q) ≠ [] := by
        intro e
        rw [e] at hselabs
        exact hselne hselabs.symm
      have himp : importNodes env (impLine dest source q) =
          .ok ((query ns (toQuery q)).map (mkCopy (impLine dest source q))) := by
        unfold importNodes
        have hr : (impLine dest source q).ref = some (source.getD [] ++ '?' :: renderQ q) := rfl
        simp only [hr, hrq]
        cases hx : query ns (toQuery q) with
        | nil => exact absurd hx hqs
        | cons a t => rfl
      -- the copies
      have hok : ∀ c ∈ (query ns (toQuery q)).map (mkCopy (impLine dest source q)), CopyOK tbl c := by
        intro c hcm
        obtain ⟨m, hm, rfl⟩ := List.mem_map.mp hcm
        obtain ⟨n, hn, _, rfl⟩ := (mem_query ns (toQuery q) m).mp hm
        exact good_mkCopy tbl _ rfl (toQuery q) n (hgood n hn)
      have hpaths : ((query ns (toQuery q)).map (mkCopy (impLine dest source q))).map (fun c => splitDot c.name) =
          ((select q ss).map (sReroot dest q)).map (·.path) := by
        rw [← hselabs]
        simp only [List.map_map]
        apply List.map_congr_left
        intro n _
        rfl
      have hndn : (((query ns (toQuery q)).map (mkCopy (impLine dest source q))).map (·.name)).Nodup := by
        have : ((((query ns (toQuery q)).map (mkCopy (impLine dest source q))).map (·.name)).map splitDot).Nodup := by
          rw [List.map_map]
          have e : (splitDot ∘ fun c : Node => c.name) = fun c => splitDot c.name := rfl
          rw [e, hpaths, List.map_map]
          exact hnd
        exact nodup_of_map splitDot _ this
      have hfresh : ∀ c ∈ (query ns (toQuery q)).map (mkCopy (impLine dest source q)),
          ∀ t ∈ env.nodes, t.name ≠ c.name := by
        intro c hcm t ht e
        have hcin : absN c ∈ (select q ss).map (sReroot dest q) := by
          rw [← hselabs]; exact List.mem_map_of_mem hcm
        have : ((select q ss).map (sReroot dest q)).any
            (fun n => (absEnv env).nodes.any (fun m => decide (m.path = n.path))) = true := by
          rw [List.any_eq_true]
          refine ⟨absN c, hcin, ?_⟩
          rw [List.any_eq_true]
          exact ⟨absN t, List.mem_map_of_mem ht, by simp [absN, absNode, e]⟩
        rw [this] at hcol
        cases hcol
      obtain ⟨env', hrun, hnodes, hsrcs, _⟩ := fold_copies tbl _ env hok hndn hfresh
      refine ⟨env', ?_, ?_, ?_⟩
      · rw [← hc]
        have hk : (impLine dest source q).kw = .imp := rfl
        simp only [step, hk, if_true, himp]
        exact hrun
      · rw [← h]
        simp only [absEnv, hnodes, hsrcs, List.map_append, hselabs]
      · refine ⟨?_, ?_⟩
        · intro n hn
          rw [hnodes] at hn
          simp only [List.mem_append] at hn
          rcases hn with hn | hn
          · exact hinv.1 n hn
          · exact (hok n hn).2.1
        · rw [hsrcs]; exact hinv.2

/-- One statement of the fragment: whenever the specification accepts it, the model's main loop
    accepts its line and ends in a state whose abstraction is the specification's new state. -/
theorem refine_step (tbl : UnitTable) (env : Env) (hinv : Inv tbl env) (stmt : SStmt) (item : Item)
    (s' : SEnv) (hfrag : InFrag (absEnv env) stmt) (hc : conc stmt = some item)
    (h : sStep tbl (absEnv env) stmt = .ok s') :
    ∃ env', step tbl env item = .ok env' ∧ absEnv env' = s' ∧ Inv tbl env' := by
  cases stmt with
  | defn path kw dims sv unit => exact refine_defn tbl env hinv path kw dims sv unit item s' hfrag hc h
  | modl path sv unit => exact refine_modl tbl env hinv path sv unit item s' hfrag hc h
  | imp dest source q => exact refine_imp tbl env hinv dest source q item s' hfrag hc h
  | constant path => exact absurd hfrag (by simp [InFrag])
  | condition path e => exact absurd hfrag (by simp [InFrag])
  | format path f => exact absurd hfrag (by simp [InFrag])
  | tags path l => exact absurd hfrag (by simp [InFrag])
  | option path r u => exact absurd hfrag (by simp [InFrag])
  | description path d => exact absurd hfrag (by simp [InFrag])

/-- the side conditions hold along the specification's run -/
def FragRun (tbl : UnitTable) : SEnv → List SStmt → Prop
  | _, [] => True
  | senv, s :: rest => InFrag senv s ∧ ∀ senv', sStep tbl senv s = .ok senv' → FragRun tbl senv' rest

theorem refine_run (tbl : UnitTable) (stmts : List SStmt) (items : List Item) (env : Env) (s' : SEnv)
    (hinv : Inv tbl env) (hfrag : FragRun tbl (absEnv env) stmts) (hc : stmts.mapM conc = some items)
    (h : sRun tbl (absEnv env) stmts = .ok s') :
    ∃ env', items.foldlM (step tbl) env = .ok env' ∧ absEnv env' = s' ∧ Inv tbl env' := by
  induction stmts generalizing items env with
  | nil =>
    simp at hc; subst hc
    simp only [sRun, Except.ok.injEq] at h
    exact ⟨env, rfl, h, hinv⟩
  | cons st rest ih =>
    simp only [List.mapM_cons] at hc
    cases hci : conc st with
    | none => simp [hci] at hc
    | some it =>
      cases hcr : rest.mapM conc with
      | none => simp [hci, hcr] at hc
      | some its =>
        simp [hci, hcr] at hc
        subst hc
        simp only [sRun] at h
        cases hs : sStep tbl (absEnv env) st with
        | error e => simp [hs] at h
        | ok s1 =>
          simp only [hs] at h
          obtain ⟨hf1, hf2⟩ := hfrag
          obtain ⟨env1, hstep, habs, hinv1⟩ := refine_step tbl env hinv st it s1 hf1 hci hs
          have hfr := hf2 s1 hs
          rw [← habs] at hfr h
          obtain ⟨env', hrun, habs', hinv'⟩ := ih its env1 hinv1 hfr hcr h
          refine ⟨env', ?_, habs', hinv'⟩
          simp only [List.foldlM_cons, hstep, bind, Except.bind]
          exact hrun

end SciVerif.C17
