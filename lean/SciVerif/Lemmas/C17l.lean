import SciVerif.Lemmas.C17k

/-! Refinement (C17), part 14: the invariant `Inv` as a computation (`invB`), sound and complete.
    `Val` is a nested inductive without derived `DecidableEq`; equality of values is decided by
    the structural test `valEqB` / `valsEqB`. -/
namespace SciVerif.C17

mutual
def valEqB : Val → Val → Bool
  | .num a, .num b => decide (a = b)
  | .bool a, .bool b => decide (a = b)
  | .str a, .str b => decide (a = b)
  | .arr a, .arr b => valsEqB a b
  | _, _ => false
def valsEqB : List Val → List Val → Bool
  | [], [] => true
  | x :: t, y :: u => valEqB x y && valsEqB t u
  | _, _ => false
end

mutual
theorem valEqB_iff : ∀ a b : Val, valEqB a b = true ↔ a = b
  | .num a, .num b => by simp [valEqB]
  | .bool a, .bool b => by simp [valEqB]
  | .str a, .str b => by simp [valEqB]
  | .arr a, .arr b => by simp [valEqB, valsEqB_iff a b]
  | .num _, .bool _ => by simp [valEqB]
  | .num _, .str _ => by simp [valEqB]
  | .num _, .arr _ => by simp [valEqB]
  | .bool _, .num _ => by simp [valEqB]
  | .bool _, .str _ => by simp [valEqB]
  | .bool _, .arr _ => by simp [valEqB]
  | .str _, .num _ => by simp [valEqB]
  | .str _, .bool _ => by simp [valEqB]
  | .str _, .arr _ => by simp [valEqB]
  | .arr _, .num _ => by simp [valEqB]
  | .arr _, .bool _ => by simp [valEqB]
  | .arr _, .str _ => by simp [valEqB]
theorem valsEqB_iff : ∀ a b : List Val, valsEqB a b = true ↔ a = b
  | [], [] => by simp [valsEqB]
  | x :: t, y :: u => by simp [valsEqB, valEqB_iff x y, valsEqB_iff t u]
  | [], _ :: _ => by simp [valsEqB]
  | _ :: _, [] => by simp [valsEqB]
end

/-- `conforms kw dims v = some v` as a computation -/
def confB (kw : Kw) (dims : List Dim) (v : Val) : Bool :=
  match conforms kw dims v with
  | none => false
  | some w => valEqB w v

theorem confB_iff (kw : Kw) (dims : List Dim) (v : Val) :
    confB kw dims v = true ↔ conforms kw dims v = some v := by
  unfold confB
  cases conforms kw dims v with
  | none => simp
  | some w => simp [valEqB_iff]

/-- `Good` as a computation -/
def goodB (tbl : UnitTable) (n : Node) : Bool :=
  isTyped n.kw &&
  (match n.value with
   | none => false
   | some v => confB n.kw n.dims v) &&
  n.slice.isEmpty && unitOk tbl n.kw n.unitsRaw && (decide (n.kw ≠ .int) || n.unitsRaw.isNone)

theorem goodB_iff (tbl : UnitTable) (n : Node) : goodB tbl n = true ↔ Good tbl n := by
  unfold goodB Good
  have hv : (match n.value with
      | none => false
      | some v => confB n.kw n.dims v) = true ↔ ∃ v, n.value = some v ∧ conforms n.kw n.dims v = some v := by
    cases n.value with
    | none => simp
    | some v => simp [confB_iff]
  have hi : (decide (n.kw ≠ .int) || n.unitsRaw.isNone) = true ↔ (n.kw = .int → n.unitsRaw = none) := by
    by_cases hk : n.kw = .int <;> simp [hk]
  simp only [Bool.and_eq_true, hv, hi, List.isEmpty_iff, and_assoc]

/-- `Inv` as a computation: every stored node and every node of every remote source is `Good` -/
def invB (tbl : UnitTable) (env : Env) : Bool :=
  env.nodes.all (goodB tbl) && env.sources.all (fun s => s.2.all (goodB tbl))

theorem invB_iff (tbl : UnitTable) (env : Env) : invB tbl env = true ↔ Inv tbl env := by
  simp [invB, Inv, goodB_iff]

end SciVerif.C17
