import SciVerif.Lemmas.C03

/-! # C03 helper lemmas: the table facts as propositions, atom parser completeness -/
namespace SciVerif.C03

theorem run_then_stop (p : Char → Bool) (l : Str) (c : Char) (r : Str)
    (hl : l.all p = true) (hc : p c = false) :
    (l ++ c :: r).dropWhile p = c :: r ∧ (l ++ c :: r).takeWhile p = l := by
  induction l with
  | nil => simp [hc]
  | cons a t ih =>
    simp only [List.all_cons, Bool.and_eq_true] at hl
    obtain ⟨i1, i2⟩ := ih hl.2
    simp [hl.1, i1, i2]

theorem trail_of_append (p : Char → Bool) (a x : Str) (c : Char)
    (hx : x.all p = true) (ha : a.getLast? = some c) (hc : p c = false) :
    dropTrail p (a ++ x) = a ∧ trailRun p (a ++ x) = x := by
  obtain ⟨a', rfl⟩ := List.getLast?_eq_some_iff.mp ha
  unfold dropTrail trailRun
  have hr : (a' ++ [c] ++ x).reverse = x.reverse ++ c :: a'.reverse := by simp
  have hx' : x.reverse.all p = true := by rw [List.all_reverse]; exact hx
  obtain ⟨h1, h2⟩ := run_then_stop p x.reverse c a'.reverse hx' hc
  rw [hr, h1, h2]
  simp

/-! ## the Boolean table facts as propositions -/

theorem factF1_prop {T : Tables} (h : factF1 T = true) (u : UnitRow) (hu : u ∈ T.units)
    (p : Str) (hp : p ∈ [] :: admPrefixes T u) : findBase T (' ' :: (p ++ u.sym)) = some u := by
  unfold factF1 at h
  rw [List.all_eq_true] at h
  have := h u hu
  rw [List.all_eq_true] at this
  simpa using this p hp

theorem factF2_prop {T : Tables} (h : factF2 T = true) (u : UnitRow) (hu : u ∈ T.units) :
    ∃ c, u.sym.getLast? = some c ∧ isExpChar c = false := by
  unfold factF2 at h
  rw [List.all_eq_true] at h
  have := h u hu
  split at this
  · rename_i c hc; exact ⟨c, hc, by simpa using this⟩
  · cases this

theorem factF3_prop {T : Tables} (h : factF3 T = true) : ([] : Str) ∉ T.prefixKeys := by
  unfold factF3 at h
  simp only [Bool.and_eq_true, List.all_eq_true] at h
  intro hm
  have := h.2 [] hm
  simp at this

theorem factF4_units {T : Tables} (h : factF4 T = true) (u : UnitRow) (hu : u ∈ T.units) :
    (∃ c ∈ u.sym, isNumAlpha c = false) ∧ u.sym.head? ≠ some '#' ∧ u.sym.head? ≠ some ' ' := by
  unfold factF4 at h
  simp only [Bool.and_eq_true, List.all_eq_true] at h
  have := h.1 u hu
  simp only [List.any_eq_true, bne_iff_ne, ne_eq, Bool.not_eq_true'] at this
  obtain ⟨⟨⟨⟨c, hc, hn⟩, h2⟩, h3⟩, _⟩ := this
  exact ⟨⟨c, hc, hn⟩, h2, h3⟩

theorem factF4_prefixes {T : Tables} (h : factF4 T = true) (p : Str) (hp : p ∈ T.prefixKeys) :
    p.head? ≠ some '#' := by
  unfold factF4 at h
  simp only [Bool.and_eq_true, List.all_eq_true] at h
  have := h.2 p hp
  simp only [bne_iff_ne, ne_eq] at this
  exact this.1

theorem factF4_noBlank {T : Tables} (h : factF4 T = true) : noBlankHead T :=
  fun u hu => (factF4_units h u hu).2.2

theorem mem_admPrefixes {T : Tables} {u : UnitRow} {p : Str} (hp : p ∈ admPrefixes T u) :
    p ∈ T.prefixKeys ∧ admits T u p = true := by
  unfold admPrefixes at hp
  rw [List.mem_filter] at hp
  exact hp

theorem unitParse_complete (T : Tables) (h1 : factF1 T = true) (h2 : factF2 T = true)
    (h3 : factF3 T = true) (h4 : factF4 T = true) (u : UnitRow) (hu : u ∈ T.units)
    (p : Str) (hp : p ∈ [] :: admPrefixes T u) (x : Str) (e : Frac) (hx : expTextOf x e) :
    unitParse T (p ++ u.sym ++ x) = .ok (.std p u.sym, e) := by
  obtain ⟨c, hlast, hc⟩ := factF2_prop h2 u hu
  have hxall : x.all isExpChar = true := by
    rcases hx with ⟨rfl, _⟩ | ⟨_, h, _⟩
    · rfl
    · exact h
  have hlast' : (p ++ u.sym).getLast? = some c := by
    rw [List.getLast?_append, hlast]; rfl
  obtain ⟨hd, ht⟩ := trail_of_append isExpChar (p ++ u.sym) x c hxall hlast' hc
  have hsp : isExpChar ' ' = false := by decide
  have hexp : (if x = [] then some Frac.one else Frac.fromString x) = some e := by
    rcases hx with ⟨rfl, rfl⟩ | ⟨hne, _, hf⟩
    · rfl
    · simp [hne, hf]
  have hhead : (p ++ u.sym).head? ≠ some '#' := by
    rcases List.mem_cons.mp hp with rfl | hp'
    · simpa using (factF4_units h4 u hu).2.1
    · have := factF4_prefixes h4 p (mem_admPrefixes hp').1
      cases p with
      | nil => simpa using (factF4_units h4 u hu).2.1
      | cons a t => simpa using this
  have hsys : [' ', '#'].isPrefixOf (' ' :: (p ++ u.sym)) = false := by
    cases hq : p ++ u.sym with
    | nil => rfl
    | cons a t =>
      rw [hq] at hhead
      have : a ≠ '#' := by simpa using hhead
      simp [List.isPrefixOf, this]
      intro h; exact absurd h.symm this
  have hbase := factF1_prop h1 u hu p hp
  have hpre : (List.take ((' ' :: (p ++ u.sym)).length - u.sym.length) (' ' :: (p ++ u.sym))).drop 1 = p := by
    have : (' ' :: (p ++ u.sym)).length - u.sym.length = (' ' :: p).length := by simp; omega
    rw [this]
    have : ' ' :: (p ++ u.sym) = (' ' :: p) ++ u.sym := by simp
    rw [this, List.take_left' rfl]
    rfl
  unfold unitParse
  simp only [dropTrail_cons isExpChar ' ' _ hsp, trailRun_cons isExpChar ' ' _ hsp, hd, ht, hexp, hsys,
    hbase, hpre]
  rcases List.mem_cons.mp hp with rfl | hp'
  · have hn := factF3_prop h3
    simp [hn]
  · obtain ⟨hk, ha⟩ := mem_admPrefixes hp'
    simp [hk, ha]

/-- F1 makes the reading of a text as prefix ++ symbol unique: `check_unique_symbols`' condition -/
theorem reading_unique (T : Tables) (h1 : factF1 T = true) (u1 u2 : UnitRow) (hu1 : u1 ∈ T.units)
    (hu2 : u2 ∈ T.units) (p1 p2 : Str) (hp1 : p1 ∈ [] :: admPrefixes T u1)
    (hp2 : p2 ∈ [] :: admPrefixes T u2) (h : p1 ++ u1.sym = p2 ++ u2.sym) : u1 = u2 ∧ p1 = p2 := by
  have a := factF1_prop h1 u1 hu1 p1 hp1
  have b := factF1_prop h1 u2 hu2 p2 hp2
  have e : (' ' :: (p1 ++ u1.sym)) = (' ' :: (p2 ++ u2.sym)) := by simp [h]
  rw [e, b] at a
  have hu : u2 = u1 := by simpa using a
  subst hu
  exact ⟨rfl, List.append_cancel_right h⟩

end SciVerif.C03
