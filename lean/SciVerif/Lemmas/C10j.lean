import SciVerif.Lemmas.C10b
import SciVerif.Model.C10Spec
import Mathlib.Data.Rat.Cast.Defs
import Mathlib.Tactic.NormNum
import Mathlib.Tactic.Ring

/-! C10: the specification's isotope formula coincides with the model of `get_isotope`. -/
namespace SciVerif.C10

theorem lookupElem_eq_find (tbl : List Elem) (s : Str) :
    lookupElem tbl s = tbl.find? (fun el => el.sym == s) := by
  induction tbl with
  | nil => rfl
  | cons a t ih =>
    by_cases h : a.sym = s
    · simp [lookupElem, List.find?_cons, h]
    · simp [lookupElem, List.find?_cons, h, ih]

theorem lookupIso_eq_find (isos : List Iso) (a : Nat) :
    lookupIso isos a = isos.find? (fun i => i.A == a) := by
  induction isos with
  | nil => rfl
  | cons i t ih =>
    by_cases h : i.A = a
    · simp [lookupIso, List.find?_cons, h]
    · simp [lookupIso, List.find?_cons, h, ih]

theorem lookupIso_some_A (isos : List Iso) (a : Nat) (i : Iso) (h : lookupIso isos a = some i) : i.A = a := by
  induction isos with
  | nil => simp [lookupIso] at h
  | cons j t ih =>
    by_cases hj : j.A = a
    · simp only [lookupIso, hj, if_true, Option.some.injEq] at h; rw [← h]; exact hj
    · simp only [lookupIso, hj, if_false] at h; exact ih h

/-- for an explicitly given isotope the specification (`N = A − Z`, `e = Z + q`,
    `mass = M + q·mₑ` read off the table) and the model of `Element.get_isotope` agree on every
    input, including the failing ones -/
theorem spec_iso_eq_model (tbl : List Elem) (me : Rat) (nuc : Char → Option Rat) (natural : Bool)
    (sym : Str) (A : Nat) (hA : A ≠ 0) (q : Int) :
    Spec.speciesData tbl me nuc natural (.iso sym A q) =
      (getIsotope tbl me sym A q).map fun d => ⟨d.mass, d.Z, d.N, d.e⟩ := by
  simp only [Spec.speciesData, getIsotope, ← lookupElem_eq_find]
  cases hE : lookupElem tbl sym with
  | none => rfl
  | some el =>
    simp only [hA, ne_eq, not_false_eq_true, if_true, ← lookupIso_eq_find]
    cases hI : lookupIso el.isos A with
    | none => rfl
    | some i =>
      simp only [Option.map_some, Spec.isoData]
      have hiA : i.A = A := lookupIso_some_A _ _ _ hI
      congr 2
      · rw [hiA]; push_cast; rfl
      · push_cast; rfl

end SciVerif.C10
