import SciVerif.Lemmas.C10b
import Mathlib.Tactic.Ring

/-! C10: `np.argmax` model returns the first maximum. -/
namespace SciVerif.C10

/-- `idx` is the position of the first maximum of `l` -/
def FirstMax (l : List Rat) (idx : Nat) : Prop :=
  ∃ x, l[idx]? = some x ∧ (∀ y ∈ l, y ≤ x) ∧ (∀ j, j < idx → ∀ y, l[j]? = some y → y < x)

theorem argmaxFrom_spec (t : List Rat) : ∀ (pre : List Rat) (b : Rat) (bi : Nat),
    pre[bi]? = some b → (∀ y ∈ pre, y ≤ b) → (∀ j, j < bi → ∀ y, pre[j]? = some y → y < b) →
    FirstMax (pre ++ t) (argmaxFrom b bi pre.length t) := by
  induction t with
  | nil =>
    intro pre b bi h1 h2 h3
    simp only [argmaxFrom, List.append_nil]
    exact ⟨b, h1, h2, h3⟩
  | cons x t ih =>
    intro pre b bi h1 h2 h3
    have hbi : bi < pre.length := by
      by_contra hc
      rw [List.getElem?_eq_none (by omega)] at h1
      cases h1
    simp only [argmaxFrom]
    have happ : pre ++ x :: t = (pre ++ [x]) ++ t := by simp
    have hlen : (pre ++ [x]).length = pre.length + 1 := by simp
    by_cases hlt : b < x
    · simp only [hlt, if_true]
      rw [happ, ← hlen]
      apply ih (pre ++ [x]) x pre.length
      · simp
      · intro y hy
        rcases List.mem_append.mp hy with hy | hy
        · exact le_of_lt (lt_of_le_of_lt (h2 y hy) hlt)
        · simp only [List.mem_singleton] at hy; subst hy; exact le_refl _
      · intro j hj y hy
        rw [List.getElem?_append_left hj] at hy
        exact lt_of_le_of_lt (h2 y (List.mem_of_getElem? hy)) hlt
    · simp only [hlt, if_false]
      rw [happ, ← hlen]
      apply ih (pre ++ [x]) b bi
      · rw [List.getElem?_append_left hbi]; exact h1
      · intro y hy
        rcases List.mem_append.mp hy with hy | hy
        · exact h2 y hy
        · simp only [List.mem_singleton] at hy; subst hy; exact not_lt.mp hlt
      · intro j hj y hy
        rw [List.getElem?_append_left (by omega)] at hy
        exact h3 j hj y hy

theorem argmax_spec (l : List Rat) (idx : Nat) (h : argmax l = some idx) : FirstMax l idx := by
  cases l with
  | nil => simp [argmax] at h
  | cons x t =>
    simp only [argmax, Option.some.injEq] at h
    subst h
    have := argmaxFrom_spec t [x] x 0 (by simp) (by simp) (by intro j hj; omega)
    simpa using this

theorem sumR_cons (x : Rat) (l : List Rat) : sumR (x :: l) = x + sumR l := by
  have : ∀ (l : List Rat) (a : Rat), l.foldl (· + ·) a = a + l.foldl (· + ·) 0 := by
    intro l
    induction l with
    | nil => intro a; simp
    | cons y t ih => intro a; simp only [List.foldl_cons]; rw [ih (a + y), ih (0 + y)]; ring
  simp only [sumR, List.foldl_cons]
  rw [this l (0 + x)]; ring

end SciVerif.C10
