import SciVerif.Lemmas.C19
/-!
# C19 — the bracket machine reads back what the nested-list printer writes
-/
namespace SciVerif.C19

/-- admissible bracket pair -/
structure Good (o c : Char) : Prop where
  oq : o ≠ '"'
  oc : o ≠ ','
  os : o ≠ ' '
  cq : c ≠ '"'
  cc : c ≠ ','
  cs : c ≠ ' '
  ne : o ≠ c

theorem good_brace : Good '{' '}' := by constructor <;> decide
theorem good_bracket : Good '[' ']' := by constructor <;> decide

def plainChar (o c ch : Char) : Prop := ch ≠ '"' ∧ ch ≠ o ∧ ch ≠ c ∧ ch ≠ ',' ∧ ch ≠ ' '

/-- tokens the machine reads back verbatim -/
inductive SafeTok (o c : Char) : Str → Prop
  | bare (t : Str) (hne : t ≠ []) (h : ∀ ch ∈ t, plainChar o c ch) : SafeTok o c t
  | quoted (b : Str) (h : ∀ ch ∈ b, ch ≠ '"') : SafeTok o c ('"' :: b ++ ['"'])

mutual
def printTok (o c : Char) : TokTree → Str
  | .leaf t => t
  | .arr ts => [o] ++ printToks o c ts ++ [c]
def printToks (o c : Char) : List TokTree → Str
  | [] => []
  | [t] => printTok o c t
  | t :: u :: r => printTok o c t ++ [',', ' '] ++ printToks o c (u :: r)
end

mutual
def SafeTree (o c : Char) : TokTree → Prop
  | .leaf t => SafeTok o c t
  | .arr ts => SafeTrees o c ts
def SafeTrees (o c : Char) : List TokTree → Prop
  | [] => True
  | t :: ts => SafeTree o c t ∧ SafeTrees o c ts
end

/-- `s1` is not failed, not inside a string, and closing its token gives `tgt` -/
def Lands (s1 tgt : MSt) : Prop := s1.bad = false ∧ s1.mode ≠ .inStr ∧ s1.flush = tgt

theorem mrun_append (o c : Char) (s : MSt) (a b : Str) :
    mrun o c s (a ++ b) = mrun o c (mrun o c s a) b := by
  simp [mrun, List.foldl_append]

theorem mrun_cons (o c : Char) (s : MSt) (a : Char) (b : Str) :
    mrun o c s (a :: b) = mrun o c (mstep o c s a) b := rfl

theorem mrun_nil (o c : Char) (s : MSt) : mrun o c s [] = s := rfl

/-- plain characters pile up in the pending token -/
theorem run_plain (o c : Char) : ∀ (l : Str) (st : List (List TokTree)) (tok : Str),
    (∀ ch ∈ l, plainChar o c ch) →
    mrun o c ⟨st, tok, .bare, false⟩ l = ⟨st, l.reverse ++ tok, .bare, false⟩
  | [], st, tok, _ => by simp [mrun]
  | ch :: l, st, tok, h => by
    have hc : plainChar o c ch := h ch (by simp)
    obtain ⟨h1, h2, h3, h4, h5⟩ := hc
    rw [mrun_cons]
    have : mstep o c ⟨st, tok, .bare, false⟩ ch = ⟨st, ch :: tok, .bare, false⟩ := by
      simp [mstep, h1, h2, h3, h4, h5]
    rw [this, run_plain o c l st (ch :: tok) (fun x hx => h x (by simp [hx]))]
    simp

/-- inside a string every non-quote character is kept -/
theorem run_instr (o c : Char) : ∀ (l : Str) (st : List (List TokTree)) (tok : Str),
    (∀ ch ∈ l, ch ≠ '"') →
    mrun o c ⟨st, tok, .inStr, false⟩ l = ⟨st, l.reverse ++ tok, .inStr, false⟩
  | [], st, tok, _ => by simp [mrun]
  | ch :: l, st, tok, h => by
    have hc : ch ≠ '"' := h ch (by simp)
    rw [mrun_cons]
    have : mstep o c ⟨st, tok, .inStr, false⟩ ch = ⟨st, ch :: tok, .inStr, false⟩ := by
      simp [mstep, hc]
    rw [this, run_instr o c l st (ch :: tok) (fun x hx => h x (by simp [hx]))]
    simp

theorem lands_tok (o c : Char) (t : Str) (ht : SafeTok o c t) (f : List TokTree)
    (rest : List (List TokTree)) :
    Lands (mrun o c ⟨f :: rest, [], .bare, false⟩ t) ⟨(Tree.leaf t :: f) :: rest, [], .bare, false⟩ := by
  cases ht with
  | bare _ hne h =>
    rw [run_plain o c t _ _ h]
    refine ⟨rfl, by simp, ?_⟩
    cases hr : t.reverse with
    | nil => simp at hr; exact absurd hr hne
    | cons x xs =>
      have : t = (x :: xs).reverse := by rw [← hr]; simp
      simp [MSt.flush, this]
  | quoted b h =>
    rw [List.cons_append, mrun_cons]
    have h1 : mstep o c ⟨f :: rest, [], .bare, false⟩ '"' = ⟨f :: rest, ['"'], .inStr, false⟩ := by
      simp [mstep]
    rw [h1, mrun_append, run_instr o c b _ _ h, mrun_cons, mrun_nil]
    have h2 : mstep o c ⟨f :: rest, b.reverse ++ ['"'], .inStr, false⟩ '"' =
        ⟨f :: rest, '"' :: (b.reverse ++ ['"']), .strDone, false⟩ := by
      simp [mstep]
    rw [h2]
    refine ⟨rfl, by simp, ?_⟩
    simp [MSt.flush]

theorem step_sep (o c : Char) (g : Good o c) (s1 tgt : MSt) (h : Lands s1 tgt) (ch : Char)
    (hch : ch = ',' ∨ ch = ' ') : mstep o c s1 ch = tgt := by
  obtain ⟨hb, hm, hf⟩ := h
  have hq : ch ≠ '"' := by rcases hch with e | e <;> (subst e; decide)
  have ho : ch ≠ o := by rcases hch with e | e <;> (subst e; intro e2; first | exact g.oc e2.symm | exact g.os e2.symm)
  have hc : ch ≠ c := by rcases hch with e | e <;> (subst e; intro e2; first | exact g.cc e2.symm | exact g.cs e2.symm)
  unfold mstep
  simp only [hb]
  cases hmode : s1.mode with
  | inStr => exact absurd hmode hm
  | bare => simp [hq, ho, hc, hch, hf]
  | strDone => simp [hq, ho, hc, hch, hf]

theorem step_open (o c : Char) (g : Good o c) (st : List (List TokTree)) :
    mstep o c ⟨st, [], .bare, false⟩ o = ⟨[] :: st, [], .bare, false⟩ := by
  have := g.oq
  simp [mstep, this, MSt.flush]

theorem step_close (o c : Char) (g : Good o c) (s1 : MSt) (f' g' : List TokTree)
    (rest : List (List TokTree)) (h : Lands s1 ⟨f' :: g' :: rest, [], .bare, false⟩) :
    mstep o c s1 c = ⟨(Tree.arr f'.reverse :: g') :: rest, [], .bare, false⟩ := by
  obtain ⟨hb, hm, hf⟩ := h
  have hq := g.cq
  have ho : c ≠ o := fun e => g.ne e.symm
  unfold mstep
  simp only [hb]
  cases hmode : s1.mode with
  | inStr => exact absurd hmode hm
  | bare => simp [hq, ho, hf]
  | strDone => simp [hq, ho, hf]

theorem lands_clean (st : List (List TokTree)) : Lands ⟨st, [], .bare, false⟩ ⟨st, [], .bare, false⟩ :=
  ⟨rfl, by simp, by simp [MSt.flush]⟩

mutual
/-- printing a safe tree and running the machine over it appends that tree to the open frame -/
theorem lands_tree (o c : Char) (g : Good o c) : (t : TokTree) → SafeTree o c t →
    ∀ (f : List TokTree) (rest : List (List TokTree)),
    Lands (mrun o c ⟨f :: rest, [], .bare, false⟩ (printTok o c t)) ⟨(t :: f) :: rest, [], .bare, false⟩
  | .leaf t, h, f, rest => by
    simp only [printTok]
    exact lands_tok o c t (by simpa [SafeTree] using h) f rest
  | .arr ts, h, f, rest => by
    simp only [printTok, List.cons_append, List.nil_append]
    rw [mrun_cons, step_open o c g, mrun_append, mrun_cons, mrun_nil]
    have h2 := lands_trees o c g ts (by simpa [SafeTree] using h) [] (f :: rest)
    rw [step_close o c g _ (ts.reverse ++ []) f rest h2]
    simpa using lands_clean ((Tree.arr ts :: f) :: rest)
theorem lands_trees (o c : Char) (g : Good o c) : (ts : List TokTree) → SafeTrees o c ts →
    ∀ (f : List TokTree) (rest : List (List TokTree)),
    Lands (mrun o c ⟨f :: rest, [], .bare, false⟩ (printToks o c ts)) ⟨(ts.reverse ++ f) :: rest, [], .bare, false⟩
  | [], _, f, rest => by simpa [printToks, mrun_nil] using lands_clean (f :: rest)
  | [t], h, f, rest => by
    simp only [printToks]
    simpa using lands_tree o c g t (by simpa [SafeTrees] using h.1) f rest
  | t :: u :: r, h, f, rest => by
    simp only [printToks]
    have h1 := lands_tree o c g t h.1 f rest
    rw [mrun_append, mrun_append, mrun_cons, step_sep o c g _ _ h1 ',' (Or.inl rfl), mrun_cons,
      step_sep o c g _ _ (lands_clean _) ' ' (Or.inr rfl), mrun_nil]
    have h2 := lands_trees o c g (u :: r) h.2 (t :: f) rest
    simpa using h2
end

/-- **the machine inverts the printer** -/
theorem parseInit_printTok (o c : Char) (g : Good o c) (t : TokTree) (h : SafeTree o c t) :
    parseInit o c (printTok o c t) = some t := by
  obtain ⟨hb, hm, hf⟩ := lands_tree o c g t h [] []
  simp [parseInit, parseItems, MSt.init, hf]

end SciVerif.C19
