import SciVerif.Lemmas.C19
/-!
# C19 — the bracket machine reads back what the nested-list printer writes
-/
namespace SciVerif.C19

/-- admissible bracket pair -/
structure Good (o c : Char) : Prop where
  oq : o ≠ '"'
  oc : o ≠ ','
  os : o ≠ ' '
  cq : c ≠ '"'
  cc : c ≠ ','
  cs : c ≠ ' '
  ne : o ≠ c

theorem good_brace : Good '{' '}' := by constructor <;> decide
theorem good_bracket : Good '[' ']' := by constructor <;> decide

def plainChar (o c ch : Char) : Prop := ch ≠ '"' ∧ ch ≠ o ∧ ch ≠ c ∧ ch ≠ ',' ∧ ch ≠ ' '

/-- tokens the machine reads back verbatim: bare words and EVERY string literal the exporters write -/
inductive SafeTok (q : Quoting) (o c : Char) : Str → Prop
  | bare (t : Str) (hne : t ≠ []) (h : ∀ ch ∈ t, plainChar o c ch) : SafeTok q o c t
  | quoted (v : Str) : SafeTok q o c (quoteStr q v)

mutual
def printTok (o c : Char) : TokTree → Str
  | .leaf t => t
  | .arr ts => [o] ++ printToks o c ts ++ [c]
def printToks (o c : Char) : List TokTree → Str
  | [] => []
  | [t] => printTok o c t
  | t :: u :: r => printTok o c t ++ [',', ' '] ++ printToks o c (u :: r)
end

mutual
def SafeTree (q : Quoting) (o c : Char) : TokTree → Prop
  | .leaf t => SafeTok q o c t
  | .arr ts => SafeTrees q o c ts
def SafeTrees (q : Quoting) (o c : Char) : List TokTree → Prop
  | [] => True
  | t :: ts => SafeTree q o c t ∧ SafeTrees q o c ts
end

/-- `s1` is not failed, not inside a string, and closing its token gives `tgt` -/
def Lands (s1 tgt : MSt) : Prop := s1.bad = false ∧ (s1.mode = .bare ∨ s1.mode = .strDone) ∧ s1.flush = tgt

theorem mrun_append (q : Quoting) (o c : Char) (s : MSt) (a b : Str) :
    mrun q o c s (a ++ b) = mrun q o c (mrun q o c s a) b := by
  simp [mrun, List.foldl_append]

theorem mrun_cons (q : Quoting) (o c : Char) (s : MSt) (a : Char) (b : Str) :
    mrun q o c s (a :: b) = mrun q o c (mstep q o c s a) b := rfl

theorem mrun_nil (q : Quoting) (o c : Char) (s : MSt) : mrun q o c s [] = s := rfl

/-- plain characters pile up in the pending token -/
theorem run_plain (q : Quoting) (o c : Char) : ∀ (l : Str) (st : List (List TokTree)) (tok : Str),
    (∀ ch ∈ l, plainChar o c ch) →
    mrun q o c ⟨st, tok, .bare, false⟩ l = ⟨st, l.reverse ++ tok, .bare, false⟩
  | [], st, tok, _ => by simp [mrun]
  | ch :: l, st, tok, h => by
    have hc : plainChar o c ch := h ch (by simp)
    obtain ⟨h1, h2, h3, h4, h5⟩ := hc
    rw [mrun_cons]
    have : mstep q o c ⟨st, tok, .bare, false⟩ ch = ⟨st, ch :: tok, .bare, false⟩ := by
      simp [mstep, h1, h2, h3, h4, h5]
    rw [this, run_plain q o c l st (ch :: tok) (fun x hx => h x (by simp [hx]))]
    simp

/-! ### string-literal bodies, character by character -/

/-- what one character of the value becomes inside the literal -/
def escChar (q : Quoting) (ch : Char) : Str :=
  match q with
  | .backslash => if ch = '\\' then ['\\', '\\'] else if ch = '"' then ['\\', '"'] else [ch]
  | .doubled => if ch = '"' then ['"', '"'] else [ch]

theorem replaceChar_nil (c : Char) (r : Str) : replaceChar c r [] = [] := rfl

theorem replaceChar_cons (c : Char) (r : Str) (x : Char) (s : Str) :
    replaceChar c r (x :: s) = (if x = c then r else [x]) ++ replaceChar c r s := by
  simp [replaceChar]

theorem replaceChar_append (c : Char) (r : Str) (a b : Str) :
    replaceChar c r (a ++ b) = replaceChar c r a ++ replaceChar c r b := by
  simp [replaceChar]

/-- the two sequential `str.replace` calls act character by character -/
theorem escStr_cons (q : Quoting) (ch : Char) (v : Str) : escStr q (ch :: v) = escChar q ch ++ escStr q v := by
  cases q with
  | backslash =>
    by_cases h1 : ch = '\\'
    · subst h1; simp [escStr, escChar, replaceChar_cons]
    · by_cases h2 : ch = '"'
      · subst h2; simp [escStr, escChar, replaceChar_cons]
      · simp [escStr, escChar, replaceChar_cons, h1, h2]
  | doubled =>
    by_cases h2 : ch = '"'
    · subst h2; simp [escStr, escChar, replaceChar_cons]
    · simp [escStr, escChar, replaceChar_cons, h2]

theorem escStr_nil (q : Quoting) : escStr q [] = [] := by cases q <;> rfl

/-- inside a literal the body of `escStr q v` is consumed and leaves the machine inside the literal -/
theorem run_instr (q : Quoting) (o c : Char) : ∀ (v : Str) (st : List (List TokTree)) (tok : Str),
    mrun q o c ⟨st, tok, .inStr, false⟩ (escStr q v) = ⟨st, (escStr q v).reverse ++ tok, .inStr, false⟩
  | [], st, tok => by simp [escStr_nil, mrun_nil]
  | ch :: v, st, tok => by
    rw [escStr_cons, mrun_append]
    have key : mrun q o c ⟨st, tok, .inStr, false⟩ (escChar q ch) =
        ⟨st, (escChar q ch).reverse ++ tok, .inStr, false⟩ := by
      cases q with
      | backslash =>
        by_cases h1 : ch = '\\'
        · subst h1; simp [escChar, mrun, mstep]
        · by_cases h2 : ch = '"'
          · subst h2; simp [escChar, mrun, mstep]
          · simp [escChar, mrun, mstep, h1, h2]
      | doubled =>
        by_cases h2 : ch = '"'
        · subst h2; simp [escChar, mrun, mstep]
        · simp [escChar, mrun, mstep, h2]
    rw [key, run_instr q o c v st _]
    simp

theorem lands_tok (q : Quoting) (o c : Char) (t : Str) (ht : SafeTok q o c t) (f : List TokTree)
    (rest : List (List TokTree)) :
    Lands (mrun q o c ⟨f :: rest, [], .bare, false⟩ t) ⟨(Tree.leaf t :: f) :: rest, [], .bare, false⟩ := by
  cases ht with
  | bare _ hne h =>
    rw [run_plain q o c t _ _ h]
    refine ⟨rfl, by simp, ?_⟩
    cases hr : t.reverse with
    | nil => simp at hr; exact absurd hr hne
    | cons x xs =>
      have : t = (x :: xs).reverse := by rw [← hr]; simp
      simp [MSt.flush, this]
  | quoted v =>
    unfold quoteStr
    rw [List.cons_append, mrun_cons]
    have h1 : mstep q o c ⟨f :: rest, [], .bare, false⟩ '"' = ⟨f :: rest, ['"'], .inStr, false⟩ := by
      simp [mstep]
    rw [h1, mrun_append, run_instr q o c v _ _, mrun_cons, mrun_nil]
    have h2 : mstep q o c ⟨f :: rest, (escStr q v).reverse ++ ['"'], .inStr, false⟩ '"' =
        ⟨f :: rest, '"' :: ((escStr q v).reverse ++ ['"']), .strDone, false⟩ := by
      simp [mstep]
    rw [h2]
    refine ⟨rfl, by simp, ?_⟩
    simp [MSt.flush]

theorem step_sep (q : Quoting) (o c : Char) (g : Good o c) (s1 tgt : MSt) (h : Lands s1 tgt) (ch : Char)
    (hch : ch = ',' ∨ ch = ' ') : mstep q o c s1 ch = tgt := by
  obtain ⟨hb, hm, hf⟩ := h
  have hq : ch ≠ '"' := by rcases hch with e | e <;> (subst e; decide)
  have ho : ch ≠ o := by rcases hch with e | e <;> (subst e; intro e2; first | exact g.oc e2.symm | exact g.os e2.symm)
  have hc : ch ≠ c := by rcases hch with e | e <;> (subst e; intro e2; first | exact g.cc e2.symm | exact g.cs e2.symm)
  unfold mstep
  simp only [hb]
  rcases hm with hmode | hmode <;> simp [hmode, hq, ho, hc, hch, hf]

theorem step_open (q : Quoting) (o c : Char) (g : Good o c) (st : List (List TokTree)) :
    mstep q o c ⟨st, [], .bare, false⟩ o = ⟨[] :: st, [], .bare, false⟩ := by
  have := g.oq
  simp [mstep, this, MSt.flush]

theorem step_close (q : Quoting) (o c : Char) (g : Good o c) (s1 : MSt) (f' g' : List TokTree)
    (rest : List (List TokTree)) (h : Lands s1 ⟨f' :: g' :: rest, [], .bare, false⟩) :
    mstep q o c s1 c = ⟨(Tree.arr f'.reverse :: g') :: rest, [], .bare, false⟩ := by
  obtain ⟨hb, hm, hf⟩ := h
  have hq := g.cq
  have ho : c ≠ o := fun e => g.ne e.symm
  unfold mstep
  simp only [hb]
  rcases hm with hmode | hmode <;> simp [hmode, hq, ho, hf]

theorem lands_clean (st : List (List TokTree)) : Lands ⟨st, [], .bare, false⟩ ⟨st, [], .bare, false⟩ :=
  ⟨rfl, by simp, by simp [MSt.flush]⟩

mutual
/-- printing a safe tree and running the machine over it appends that tree to the open frame -/
theorem lands_tree (q : Quoting) (o c : Char) (g : Good o c) : (t : TokTree) → SafeTree q o c t →
    ∀ (f : List TokTree) (rest : List (List TokTree)),
    Lands (mrun q o c ⟨f :: rest, [], .bare, false⟩ (printTok o c t)) ⟨(t :: f) :: rest, [], .bare, false⟩
  | .leaf t, h, f, rest => by
    simp only [printTok]
    exact lands_tok q o c t (by simpa [SafeTree] using h) f rest
  | .arr ts, h, f, rest => by
    simp only [printTok, List.cons_append, List.nil_append]
    rw [mrun_cons, step_open q o c g, mrun_append, mrun_cons, mrun_nil]
    have h2 := lands_trees q o c g ts (by simpa [SafeTree] using h) [] (f :: rest)
    rw [step_close q o c g _ (ts.reverse ++ []) f rest h2]
    simpa using lands_clean ((Tree.arr ts :: f) :: rest)
theorem lands_trees (q : Quoting) (o c : Char) (g : Good o c) : (ts : List TokTree) → SafeTrees q o c ts →
    ∀ (f : List TokTree) (rest : List (List TokTree)),
    Lands (mrun q o c ⟨f :: rest, [], .bare, false⟩ (printToks o c ts)) ⟨(ts.reverse ++ f) :: rest, [], .bare, false⟩
  | [], _, f, rest => by simpa [printToks, mrun_nil] using lands_clean (f :: rest)
  | [t], h, f, rest => by
    simp only [printToks]
    simpa using lands_tree q o c g t (by simpa [SafeTrees] using h.1) f rest
  | t :: u :: r, h, f, rest => by
    simp only [printToks]
    have h1 := lands_tree q o c g t h.1 f rest
    rw [mrun_append, mrun_append, mrun_cons, step_sep q o c g _ _ h1 ',' (Or.inl rfl), mrun_cons,
      step_sep q o c g _ _ (lands_clean _) ' ' (Or.inr rfl), mrun_nil]
    have h2 := lands_trees q o c g (u :: r) h.2 (t :: f) rest
    simpa using h2
end

/-- **the machine inverts the printer** -/
theorem parseInit_printTok (q : Quoting) (o c : Char) (g : Good o c) (t : TokTree) (h : SafeTree q o c t) :
    parseInit q o c (printTok o c t) = some t := by
  obtain ⟨hb, hm, hf⟩ := lands_tree q o c g t h [] []
  simp [parseInit, parseItems, MSt.init, hf]

end SciVerif.C19
