import SciVerif.Lemmas.C01k

/-!
# C01 helper lemmas, part 12: the tokeniser alone; grammar literals are tokenizer-safe texts.
-/
namespace SciVerif.C01
open SciVerif.C01.Gen

variable {A : Type} (alg : AtomAlg A) (lit : List Char → A)

theorem argsOK_solve (hn : NegNeg alg) (e : E) (hwf : e.WF) (hl : LitOK alg lit e) :
    ArgsOK alg lit (fun st a => solveI dflt alg dfltSteps st a) e := by
  induction e with
  | num t => trivial
  | fn1 f a _ =>
    refine ⟨hl, fun v j st hv => ?_⟩
    have hs := strip_text j hv (lexemes_ne_nil a) (lexemes_good alg lit a hl)
    have h := solve_text alg lit hn a hwf hl _ 0 hs
    simp only [blanks, List.replicate_zero, List.append_nil] at h
    exact h
  | fn2 g a b _ _ =>
    refine ⟨⟨hl.1, fun v j st hv => ?_⟩, ⟨hl.2, fun v j st hv => ?_⟩⟩
    · have hs := strip_text j hv (lexemes_ne_nil a) (lexemes_good alg lit a hl.1)
      have h := solve_text alg lit hn a hwf.1 hl.1 _ 0 hs
      simp only [blanks, List.replicate_zero, List.append_nil] at h
      exact h
    · have hs := strip_text j hv (lexemes_ne_nil b) (lexemes_good alg lit b hl.2)
      have h := solve_text alg lit hn b hwf.2 hl.2 _ 0 hs
      simp only [blanks, List.replicate_zero, List.append_nil] at h
      exact h
  | sign s e ih => exact ih hwf.1 hl
  | bin o l r ihl ihr => exact ⟨ihl hwf.1 hl.1, ihr hwf.2.1 hl.2⟩
  | not e ih => exact ih hwf.1 hl

theorem tokenize_text (hn : NegNeg alg) (e : E) (hwf : e.WF) (hl : LitOK alg lit e)
    (u : List Char) (k : Nat) (hu : Pre (lexemes e) u) :
    tokenize dflt alg dfltSteps (u ++ blanks k) = .ok (toks dflt alg lit e) := by
  unfold tokenize
  rw [tokLoop_text alg lit (fun st a => solveI dflt alg dfltSteps st a) e hl
    (argsOK_solve alg lit hn e hwf hl) u k _ hu
    (by simp [blanks_length])]

/-! ### grammar literals -/

theorem litScan_digits (d r : List Char) (h : ∀ c ∈ d, isDigit c = true) :
    litScan (d ++ r) = litScan r := by
  induction d with
  | nil => rfl
  | cons c d ih =>
    have hc := h c (by simp)
    have hne : c ≠ 'e' := by rintro rfl; revert hc; decide
    simp [litScan, hne, hc, ih (fun x hx => h x (by simp [hx]))]

theorem litScan_all_digits (r : List Char) (h : r.all isDigit = true) : litScan r = true := by
  have := litScan_digits r [] (by simpa using h)
  simpa [litScan] using this

theorem litScan_exp (r : List Char) (h : expOK r = true) : litScan r = true := by
  cases r with
  | nil => rfl
  | cons c r' =>
    simp only [expOK, Bool.and_eq_true, beq_iff_eq, Bool.not_eq_eq_eq_not, Bool.not_true,
      List.isEmpty_eq_false_iff] at h
    obtain ⟨⟨rfl, hne⟩, hall⟩ := h
    cases r' with
    | nil => exact absurd rfl hne
    | cons d ds =>
      have hd : isDigit d = true := by
        simp only [List.all_cons, Bool.and_eq_true] at hall; exact hall.1
      have hrest := litScan_all_digits _ hall
      have hde : d ≠ 'e' := by rintro rfl; revert hd; decide
      simp only [litScan, hde, if_false, hd, Bool.true_or, Bool.true_and] at hrest
      simp [litScan, hd, hde, hrest]

theorem takeWhile_all (p : Char → Bool) (l : List Char) : ∀ c ∈ l.takeWhile p, p c = true := by
  induction l with
  | nil => intro c hc; cases hc
  | cons x xs ih =>
    intro c hc
    by_cases hx : p x = true
    · simp only [List.takeWhile_cons, hx, if_true, List.mem_cons] at hc
      rcases hc with rfl | hc
      · exact hx
      · exact ih c hc
    · simp [List.takeWhile_cons, hx] at hc

/-- every number literal of the grammar (`digits[.digits*][e digits]`, `.digits[e digits]`) is a
    text the theorems admit -/
theorem grammarLit_safe (s : List Char) (h : isGrammarLit s = true) : litSafe s = true := by
  unfold isGrammarLit at h
  have hsplit : s = s.takeWhile isDigit ++ s.dropWhile isDigit := (List.takeWhile_append_dropWhile).symm
  have hds := takeWhile_all isDigit s
  generalize s.dropWhile isDigit = r1 at h hsplit
  generalize s.takeWhile isDigit = ds at h hsplit hds
  simp only [] at h
  cases r1 with
  | nil =>
    simp only [Bool.not_eq_eq_eq_not, Bool.not_true, List.isEmpty_eq_false_iff] at h
    have : litScan s = true := by rw [hsplit, litScan_digits _ _ hds]; rfl
    have hne : s ≠ [] := by rw [hsplit]; simpa using h
    simp [litSafe, this, hne]
  | cons c r =>
    simp only [] at h
    have hne : s ≠ [] := by rw [hsplit]; simp
    by_cases hc : c = '.'
    · simp only [hc, if_true, Bool.and_eq_true] at h
      have hfs := takeWhile_all isDigit r
      have hr : r = r.takeWhile isDigit ++ r.dropWhile isDigit := (List.takeWhile_append_dropWhile).symm
      have h2 := litScan_exp _ h.2
      have : litScan s = true := by
        rw [hsplit, litScan_digits _ _ hds, hc]
        have : litScan ('.' :: r) = litScan r := by simp [litScan]
        rw [this, hr, litScan_digits _ _ hfs]; exact h2
      simp [litSafe, this, hne]
    · simp only [hc, if_false, Bool.and_eq_true] at h
      have h2 := litScan_exp _ h.2
      have : litScan s = true := by rw [hsplit, litScan_digits _ _ hds]; exact h2
      simp [litSafe, this, hne]

end SciVerif.C01
