import SciVerif.Lemmas.C19j
/-!
# C19 — Fortran declaration lines and whole modules: machine lemmas for composite texts
-/
namespace SciVerif.C19

/-! ## more about the bracket machine -/

/-- opening a bracket from any landed state (a pending bare token is closed first) -/
theorem step_open_lands (q : Quoting) (o c : Char) (g : Good o c) (s1 : MSt) (st : List (List TokTree))
    (h : Lands s1 ⟨st, [], .bare, false⟩) : mstep q o c s1 o = ⟨[] :: st, [], .bare, false⟩ := by
  obtain ⟨hb, hm, hf⟩ := h
  have hq := g.oq
  unfold mstep
  simp only [hb]
  rcases hm with hmode | hmode <;> simp [hmode, hq, hf]

/-- a bracketed group: if the inside lands on `items`, the group is appended as one array -/
theorem run_bracket (q : Quoting) (o c : Char) (g : Good o c) (x : Str) (items f : List TokTree)
    (rest : List (List TokTree)) (s0 : MSt) (h0 : Lands s0 ⟨f :: rest, [], .bare, false⟩)
    (hin : Lands (mrun q o c ⟨[] :: f :: rest, [], .bare, false⟩ x) ⟨items.reverse :: f :: rest, [], .bare, false⟩) :
    mrun q o c s0 (o :: (x ++ [c])) = ⟨(Tree.arr items :: f) :: rest, [], .bare, false⟩ := by
  rw [mrun_cons, step_open_lands q o c g s0 _ h0, mrun_append, mrun_cons, mrun_nil,
    step_close q o c g _ items.reverse f rest hin]
  simp

theorem lands_of_eq (s t : MSt) (h : s = t) (ht : t.tok = [] ∧ t.mode = .bare ∧ t.bad = false) : Lands s t := by
  subst h
  obtain ⟨h1, h2, h3⟩ := ht
  exact ⟨h3, Or.inl h2, by simp [MSt.flush, h1]⟩

/-- a bare token after a landed state that was just separated -/
theorem lands_bare (q : Quoting) (o c : Char) (t : Str) (hne : t ≠ []) (h : ∀ ch ∈ t, plainChar o c ch)
    (f : List TokTree) (rest : List (List TokTree)) :
    Lands (mrun q o c ⟨f :: rest, [], .bare, false⟩ t) ⟨(Tree.leaf t :: f) :: rest, [], .bare, false⟩ :=
  lands_tok q o c t (SafeTok.bare t hne h) f rest

/-- `2,3,2` : numerals separated by commas only -/
theorem lands_commaNats (q : Quoting) : ∀ (l : List Nat), l ≠ [] → ∀ (f : List TokTree) (rest : List (List TokTree)),
    Lands (mrun q '[' ']' ⟨f :: rest, [], .bare, false⟩ (commaNats l))
      ⟨((l.map (fun d => Tree.leaf (showNat d))).reverse ++ f) :: rest, [], .bare, false⟩
  | [], h, _, _ => absurd rfl h
  | [d], _, f, rest => by
    simpa [commaNats, joinWith] using lands_bare q '[' ']' (showNat d) (showNat_ne_nil d) (showNat_plain d) f rest
  | d :: e :: l, _, f, rest => by
    have h1 := lands_bare q '[' ']' (showNat d) (showNat_ne_nil d) (showNat_plain d) f rest
    have ih := lands_commaNats q (e :: l) (by simp) (Tree.leaf (showNat d) :: f) rest
    simp only [commaNats, List.map_cons, joinWith] at ih ⊢
    rw [mrun_append, mrun_append, mrun_cons, step_sep q '[' ']' good_bracket _ _ h1 ',' (Or.inl rfl), mrun_nil]
    simpa using ih

/-! ## the inside of a Fortran array constructor -/

/-- the inside of the brackets lands on `items`, whatever frame lies below -/
def InsideLands (q : Quoting) (x : Str) (items : List TokTree) : Prop :=
  ∀ (f : List TokTree) (rest : List (List TokTree)),
    Lands (mrun q '[' ']' ⟨[] :: f :: rest, [], .bare, false⟩ x) ⟨items.reverse :: f :: rest, [], .bare, false⟩

theorem inside_plain (q : Quoting) (ts : List TokTree) (h : SafeTrees q '[' ']' ts) :
    InsideLands q (printToks '[' ']' ts) ts := by
  intro f rest
  simpa using lands_trees q '[' ']' good_bracket ts h [] (f :: rest)

/-- `TYPE :: a, b, …` -/
theorem inside_typed (q : Quoting) (dtype : Str) (hne : dtype ≠ []) (hp : ∀ ch ∈ dtype, plainChar '[' ']' ch)
    (ts : List TokTree) (h : SafeTrees q '[' ']' ts) :
    InsideLands q (dtype ++ (cs!" :: " ++ printToks '[' ']' ts)) (Tree.leaf dtype :: Tree.leaf [':', ':'] :: ts) := by
  intro f rest
  have h1 := lands_bare q '[' ']' dtype hne hp [] (f :: rest)
  have h2 := lands_bare q '[' ']' [':', ':'] (by simp) (by simp [plainChar]) [Tree.leaf dtype] (f :: rest)
  have h3 := lands_trees q '[' ']' good_bracket ts h [Tree.leaf [':', ':'], Tree.leaf dtype] (f :: rest)
  rw [mrun_append, List.cons_append, mrun_cons, step_sep q '[' ']' good_bracket _ _ h1 ' ' (Or.inr rfl)]
  rw [show (cs!":: " ++ printToks '[' ']' ts) = [':', ':'] ++ (' ' :: printToks '[' ']' ts) by simp]
  rw [mrun_append, mrun_cons, step_sep q '[' ']' good_bracket _ _ h2 ' ' (Or.inr rfl)]
  simpa using h3

/-- `[ … ]` as the whole text -/
theorem parseInit_bracket (q : Quoting) (x : Str) (items : List TokTree) (h : InsideLands q x items) :
    parseInit q '[' ']' ('[' :: (x ++ [']'])) = some (Tree.arr items) := by
  have := run_bracket q '[' ']' good_bracket x items [] [] ⟨[[]], [], .bare, false⟩ (lands_clean _) (h [] [])
  simp [parseInit, parseItems, MSt.init, this, MSt.flush]

/-- `[ … ],[dims],order=[ord]` : the arguments of `reshape` -/
theorem parseItems_reshape (q : Quoting) (x : Str) (items : List TokTree) (h : InsideLands q x items)
    (dims ord : List Nat) (hd : dims ≠ []) (ho : ord ≠ []) :
    parseItems q '[' ']' ('[' :: (x ++ (cs!"],[" ++ (commaNats dims ++ (cs!"],order=[" ++ (commaNats ord ++ [']'])))))) =
      some [Tree.arr items, Tree.arr (dims.map (fun d => Tree.leaf (showNat d))), Tree.leaf (cs!"order="),
            Tree.arr (ord.map (fun d => Tree.leaf (showNat d)))] := by
  let s0 : MSt := ⟨[[]], [], .bare, false⟩
  have e1 := run_bracket q '[' ']' good_bracket x items [] [] s0 (lands_clean _) (h [] [])
  -- first group, then `,`
  have hsplit : ('[' :: (x ++ (cs!"],[" ++ (commaNats dims ++ (cs!"],order=[" ++ (commaNats ord ++ [']'])))))) =
      ('[' :: (x ++ [']'])) ++ (',' :: (('[' :: (commaNats dims ++ [']'])) ++ (',' :: (cs!"order=" ++
        ('[' :: (commaNats ord ++ [']'])))))) := by simp
  have hdl : InsideLands q (commaNats dims) (dims.map (fun d => Tree.leaf (showNat d))) := by
    intro f rest
    simpa using lands_commaNats q dims hd [] (f :: rest)
  have hol : InsideLands q (commaNats ord) (ord.map (fun d => Tree.leaf (showNat d))) := by
    intro f rest
    simpa using lands_commaNats q ord ho [] (f :: rest)
  have hb := lands_bare q '[' ']' (cs!"order=") (by simp) (by simp [plainChar])
    [Tree.arr (dims.map (fun d => Tree.leaf (showNat d))), Tree.arr items] []
  have hrun : mrun q '[' ']' MSt.init
      ('[' :: (x ++ (cs!"],[" ++ (commaNats dims ++ (cs!"],order=[" ++ (commaNats ord ++ [']'])))))) =
      ⟨[[Tree.arr (ord.map (fun d => Tree.leaf (showNat d))), Tree.leaf (cs!"order="),
         Tree.arr (dims.map (fun d => Tree.leaf (showNat d))), Tree.arr items]], [], .bare, false⟩ := by
    rw [hsplit, mrun_append, show MSt.init = s0 from rfl, e1, mrun_cons,
      step_sep q '[' ']' good_bracket _ _ (lands_clean _) ',' (Or.inl rfl), mrun_append,
      run_bracket q '[' ']' good_bracket (commaNats dims) _ [Tree.arr items] [] _ (lands_clean _) (hdl _ _),
      mrun_cons, step_sep q '[' ']' good_bracket _ _ (lands_clean _) ',' (Or.inl rfl), mrun_append,
      run_bracket q '[' ']' good_bracket (commaNats ord) _ _ [] _ hb (hol _ _)]
  unfold parseItems
  rw [hrun]
  simp [MSt.flush]

end SciVerif.C19
