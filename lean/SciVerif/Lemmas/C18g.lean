import SciVerif.Lemmas.C18e
import SciVerif.Lemmas.C18f

/-!
String level with parentheses and functions (C18): the tokenisation loop, the argument scanner and
the recursive solves turn the text of a nested tree into the tree's token list (main induction after
`tok_items` of `Lemmas/C01i.lean`, fuel indexed by the nesting depth).
-/
namespace SciVerif.C18

variable {Q : Type}

/-- Text trees: like `E`, with the optional blanks written out.  An atom is its text with the blanks
    around it; a parenthesis-type node `f( … )` (`f = "par"` for plain parentheses) carries the
    blanks before the symbol, inside the parentheses around each argument and after `)`. -/
inductive T where
  | lit (a : List Char)
  | bin (o : String) (l r : T)
  | pre (u : String) (e : T)
  | par (f : String) (k1 i : Nat) (e : T) (j k2 : Nat)
  | par2 (f : String) (k1 i : Nat) (a : T) (j m1 : Nat) (b : T) (m2 k2 : Nat)

def T.toE : T → E (List Char)
  | .lit a => .lit a
  | .bin o l r => .bin o l.toE r.toE
  | .pre u e => .pre u e.toE
  | .par f _ _ e _ _ => if f = "par" then .par e.toE else .fn1 f e.toE
  | .par2 f _ _ a _ _ b _ _ => .fn2 f a.toE b.toE

def T.text (table : List OpDef) : T → List Char
  | .lit a => a
  | .bin o l r => l.text table ++ (symOf table o ++ r.text table)
  | .pre u e => symOf table u ++ e.text table
  | .par f k1 i e j k2 =>
      blanks k1 ++ (symOf table f ++ (blanks i ++ (e.text table ++ (blanks j ++ (')' :: blanks k2)))))
  | .par2 f k1 i a j m1 b m2 k2 =>
      blanks k1 ++ (symOf table f ++ (blanks i ++ (a.text table ++ (blanks j ++ (',' ::
        (blanks m1 ++ (b.text table ++ (blanks m2 ++ (')' :: blanks k2)))))))))

def T.depth : T → Nat
  | .lit _ => 0
  | .bin _ l r => max l.depth r.depth
  | .pre _ e => e.depth
  | .par _ _ _ e _ _ => e.depth + 1
  | .par2 _ _ _ a _ _ b _ _ => max a.depth b.depth + 1

/-- tokens of the tree; `val` gives the value of an already solved argument -/
def T.toks (val : T → Q) (av : List Char → Q) : T → Toks Q
  | .lit a => [.atom (av a)]
  | .bin o l r => l.toks val av ++ .op o :: r.toks val av
  | .pre u e => .op u :: e.toks val av
  | .par f _ _ e _ _ => [.par f [val e]]
  | .par2 f _ _ a _ _ b _ _ => [.par f [val a, val b]]

def T.steps : T → Nat
  | .lit a => a.length
  | .bin _ l r => l.steps + 1 + r.steps
  | .pre _ e => 1 + e.steps
  | .par _ k1 _ _ _ k2 => k1 + 1 + k2
  | .par2 _ k1 _ _ _ _ _ _ k2 => k1 + 1 + k2

/-- what is left in `expr.left` when the tree has been read -/
def T.pend : T → List Char
  | .lit a => a
  | .bin _ _ r => r.pend
  | .pre _ e => e.pend
  | .par _ _ _ _ _ k2 => blanks k2
  | .par2 _ _ _ _ _ _ _ _ k2 => blanks k2

/-- the token the pending text is flushed to: an atom after an atom, nothing after `)` -/
def T.fl (av : List Char → Q) : T → Toks Q
  | .lit a => [.atom (av a)]
  | .bin _ _ r => r.fl av
  | .pre _ e => e.fl av
  | _ => []

def T.emitted (val : T → Q) (av : List Char → Q) : T → Toks Q
  | .lit _ => []
  | .bin o l r => l.emitted val av ++ (l.fl av ++ .op o :: r.emitted val av)
  | .pre u e => .op u :: e.emitted val av
  | .par f _ _ e _ _ => [.par f [val e]]
  | .par2 f _ _ a _ _ b _ _ => [.par f [val a, val b]]

/-- the parenthesis-type operator `f` with `narg` arguments is what the tokeniser finds -/
def HitsPar (table : List OpDef) (f : String) (narg : Nat) (rest : List Char) : Prop :=
  ∃ d, hits table (symOf table f ++ rest) = some d ∧ d.key = f ∧ d.sym = symOf table f ∧
    d.isPar = true ∧ d.narg = narg ∧ d.sym ≠ []

/-- side conditions, relative to the text that follows the tree (all decidable for a concrete text):
    no operator symbol starts inside an atom or a run of blanks, every symbol is the first match at
    its position, every argument is balanced and starts / ends with a non-blank character, and the
    same conditions hold for every argument read as a text of its own. -/
def T.QuietN (table : List OpDef) : T → List Char → Prop
  | .lit a, rest => strip a ≠ [] ∧ Quiet table a rest
  | .bin o l r, rest => HitsOp table o (r.text table ++ rest) ∧
      l.QuietN table (symOf table o ++ (r.text table ++ rest)) ∧ r.QuietN table rest
  | .pre u e, rest => HitsOp table u (e.text table ++ rest) ∧ e.QuietN table rest
  | .par f k1 i e j k2, rest =>
      Quiet table (blanks k1) (symOf table f ++ (blanks i ++ (e.text table ++ (blanks j ++ (')' :: (blanks k2 ++ rest)))))) ∧
      HitsPar table f 1 (blanks i ++ (e.text table ++ (blanks j ++ (')' :: (blanks k2 ++ rest))))) ∧
      Quiet table (blanks k2) rest ∧ Stripped (e.text table) ∧ nest (e.text table) 0 = some 0 ∧
      e.QuietN table []
  | .par2 f k1 i a j m1 b m2 k2, rest =>
      Quiet table (blanks k1) (symOf table f ++ (blanks i ++ (a.text table ++ (blanks j ++ (',' ::
        (blanks m1 ++ (b.text table ++ (blanks m2 ++ (')' :: (blanks k2 ++ rest)))))))))) ∧
      HitsPar table f 2 (blanks i ++ (a.text table ++ (blanks j ++ (',' ::
        (blanks m1 ++ (b.text table ++ (blanks m2 ++ (')' :: (blanks k2 ++ rest))))))))) ∧
      Quiet table (blanks k2) rest ∧ Stripped (a.text table) ∧ nest (a.text table) 0 = some 0 ∧
      Stripped (b.text table) ∧ nest (b.text table) 0 = some 0 ∧
      a.QuietN table [] ∧ b.QuietN table []

def T.AtomsOK (atom : List Char → Option Q) (av : List Char → Q) : T → Prop
  | .lit a => atom (strip a) = some (av a)
  | .bin _ l r => l.AtomsOK atom av ∧ r.AtomsOK atom av
  | .pre _ e => e.AtomsOK atom av
  | .par _ _ _ e _ _ => e.AtomsOK atom av
  | .par2 _ _ _ a _ _ b _ _ => a.AtomsOK atom av ∧ b.AtomsOK atom av

/-- every argument's token list is solved by the machine to its value `val` -/
def T.ArgsOK (S : Sem Q) (keys : List String) (steps : List Step) (val : T → Q) (av : List Char → Q) : T → Prop
  | .lit _ => True
  | .bin _ l r => l.ArgsOK S keys steps val av ∧ r.ArgsOK S keys steps val av
  | .pre _ e => e.ArgsOK S keys steps val av
  | .par _ _ _ e _ _ => machine S keys steps (e.toks val av) = some (.atom (val e)) ∧ e.ArgsOK S keys steps val av
  | .par2 _ _ _ a _ _ b _ _ =>
      machine S keys steps (a.toks val av) = some (.atom (val a)) ∧ a.ArgsOK S keys steps val av ∧
      machine S keys steps (b.toks val av) = some (.atom (val b)) ∧ b.ArgsOK S keys steps val av

theorem T.toks_eq (val : T → Q) (av : List Char → Q) (t : T) :
    t.emitted val av ++ t.fl av = t.toks val av := by
  induction t with
  | lit a => simp [T.emitted, T.fl, T.toks]
  | bin o l r ihl ihr => simp [T.emitted, T.fl, T.toks, ← ihl, ← ihr]
  | pre u e ih => simp [T.emitted, T.fl, T.toks, ← ih]
  | par f k1 i e j k2 _ => simp [T.emitted, T.fl, T.toks]
  | par2 f k1 i a j m1 b m2 k2 _ _ => simp [T.emitted, T.fl, T.toks]

/-- argument texts and their solved values, pairwise -/
inductive AllSolved {α β : Type} (R : α → β → Prop) : List α → List β → Prop where
  | nil : AllSolved R [] []
  | cons {a b l m} : R a b → AllSolved R l m → AllSolved R (a :: l) (b :: m)

theorem mapM_allSolved {α β : Type} (R : α → β → Prop) (F : α → Option β) (l : List α) (m : List β)
    (h : AllSolved R l m) (hF : ∀ a q, R a q → F a = some q) : List.mapM F l = some m := by
  induction h with
  | nil => rfl
  | cons h _ ih => simp [List.mapM_cons, hF _ _ h, ih]

variable (S : Sem Q) (table : List OpDef) (steps : List Step) (atom : List Char → Option Q)

/-- flushing the pending text: an atom for a tree that ends with an atom, nothing after `)` -/
theorem T.flush (av : List Char → Q) (t : T) : ∀ rest, t.QuietN table rest → t.AtomsOK atom av →
    ∀ toks : Toks Q, (if (strip t.pend).isEmpty then some toks
      else (atom (strip t.pend)).map fun q => toks ++ [.atom q]) = some (toks ++ t.fl av) := by
  induction t with
  | lit a =>
    intro rest hq ha toks
    have hne : (strip a).isEmpty = false := by
      cases h : strip a with
      | nil => exact absurd h hq.1
      | cons _ _ => rfl
    simp only [T.AtomsOK] at ha
    simp [T.pend, T.fl, hne, ha]
  | bin o l r _ ihr => intro rest hq ha toks; exact ihr rest hq.2.2 ha.2 toks
  | pre u e ih => intro rest hq ha toks; exact ih rest hq.2 ha toks
  | par f k1 i e j k2 _ => intro rest _ _ toks; simp [T.pend, T.fl, strip_blanks]
  | par2 f k1 i a j m1 b m2 k2 _ _ => intro rest _ _ toks; simp [T.pend, T.fl, strip_blanks]

/-- one loop iteration at a parenthesis-type symbol: flush nothing (only blanks are pending), scan the
    arguments, solve them recursively, append the operator token -/
theorem loop_parsym (fuel : Nat) (f : String) (R right2 : List Char) (args : List (List Char)) (vals : List Q)
    (n : Nat) (left : List Char) (toks : Toks Q)
    (h : HitsPar table f args.length R) (hl : strip left.reverse = [])
    (hscan : scanArgs (R.length + 1) 1 [] R [] = some (args, right2))
    (hsolve : AllSolved (fun a q => solveStr S table steps atom fuel a = some (.atom q)) args vals) :
    solveStr.loop S table steps atom fuel (n + 1) left (symOf table f ++ R) toks =
      solveStr.loop S table steps atom fuel n [] right2 (toks ++ [.par f vals]) := by
  obtain ⟨d, hd, hk, hs, hp, hn, hne⟩ := h
  rw [← hs] at hd ⊢
  cases hsym : d.sym with
  | nil => exact absurd hsym hne
  | cons c cs =>
    rw [hsym] at hd
    simp only [List.cons_append]
    rw [solveStr.loop]
    simp only [hits, List.cons_append] at hd
    have hdrop : List.drop d.sym.length (c :: (cs ++ R)) = R := by
      rw [hsym]
      have := List.drop_left' (l₁ := c :: cs) (l₂ := R) rfl
      simpa using this
    simp only [hd, hp, hk, hl, hdrop, List.isEmpty_nil, if_true, hscan, hn, ne_eq, not_true_eq_false,
      if_false]
    rw [mapM_allSolved _ _ _ _ hsolve (by intro a q h; simp [h])]

theorem len_pad (i j : Nat) (w R : List Char) (c : Char) :
    (blanks i ++ (w ++ (blanks j ++ c :: R))).length + 1 = (R.length + 1) + 1 + (blanks i ++ (w ++ blanks j)).length := by
  simp [blanks_length]; omega

/-- `W` from `L`: if reading the text of `t` works as stated, the whole solve of the text is the
    machine run on the tree's tokens. -/
theorem solve_of_loop (val : T → Q) (av : List Char → Q) (t : T)
    (hL : ∀ fuel, t.depth ≤ fuel → ∀ (rest : List Char) (n : Nat) (toks : Toks Q),
      t.QuietN table rest → t.AtomsOK atom av → t.ArgsOK S (table.map (·.key)) steps val av →
      solveStr.loop S table steps atom fuel (n + t.steps) [] (t.text table ++ rest) toks =
        solveStr.loop S table steps atom fuel n t.pend.reverse rest (toks ++ t.emitted val av))
    (fuel : Nat) (hdep : t.depth ≤ fuel) (hq : t.QuietN table []) (ha : t.AtomsOK atom av)
    (hr : t.ArgsOK S (table.map (·.key)) steps val av) :
    solveStr S table steps atom (fuel + 1) (t.text table) =
      machine S (table.map (·.key)) steps (t.toks val av) := by
  have hsteps : ∀ (t : T) rest, t.QuietN table rest → t.steps ≤ (t.text table).length := by
    intro t
    induction t with
    | lit a => intro _ _; simp [T.steps, T.text]
    | bin o l r ihl ihr =>
      intro rest hq
      obtain ⟨⟨d, _, _, hs, _, hne⟩, hql, hqr⟩ := hq
      have h1 := ihl _ hql
      have h2 := ihr _ hqr
      have h3 : 1 ≤ (symOf table o).length := by
        rw [← hs]; cases h : d.sym with
        | nil => exact absurd h hne
        | cons _ _ => simp
      simp [T.steps, T.text]; omega
    | pre u e ih =>
      intro rest hq
      obtain ⟨⟨d, _, _, hs, _, hne⟩, hqe⟩ := hq
      have := ih _ hqe
      have h1 : 1 ≤ (symOf table u).length := by
        rw [← hs]; cases h : d.sym with
        | nil => exact absurd h hne
        | cons _ _ => simp
      simp [T.steps, T.text]; omega
    | par f k1 i e j k2 _ =>
      intro rest _
      simp [T.steps, T.text, blanks_length]; omega
    | par2 f k1 i a j m1 b m2 k2 _ _ =>
      intro rest _
      simp [T.steps, T.text, blanks_length]; omega
  have hle := hsteps t [] hq
  have e1 : (t.text table).length + 1 = (((t.text table).length - t.steps) + 1) + t.steps := by omega
  have hl := hL fuel hdep [] (((t.text table).length - t.steps) + 1) [] hq ha hr
  simp only [List.append_nil] at hl
  rw [solveStr]
  rw [e1, hl, solveStr.loop]
  simp only [List.reverse_reverse, List.nil_append]
  rw [T.flush table atom av t [] hq ha, T.toks_eq]

/-- Main induction (`L`): reading the text of a nested tree from an empty `expr.left` — atoms and
    operator symbols as in the flat case, a parenthesis-type symbol by scanning its arguments
    (depth counting, separators), solving each argument recursively (one unit of fuel per nesting
    level) and appending the operator token with the solved values. -/
theorem loop_nest (val : T → Q) (av : List Char → Q) (t : T) :
    ∀ fuel, t.depth ≤ fuel → ∀ (rest : List Char) (n : Nat) (toks : Toks Q),
      t.QuietN table rest → t.AtomsOK atom av → t.ArgsOK S (table.map (·.key)) steps val av →
      solveStr.loop S table steps atom fuel (n + t.steps) [] (t.text table ++ rest) toks =
        solveStr.loop S table steps atom fuel n t.pend.reverse rest (toks ++ t.emitted val av) := by
  induction t with
  | lit a =>
    intro fuel _ rest n toks hq _ _
    simpa [T.steps, T.text, T.pend, T.emitted] using loop_quiet S table steps atom fuel a rest hq.2 n [] toks
  | pre u e ih =>
    intro fuel hdep rest n toks hq ha hr
    obtain ⟨hh, hqe⟩ := hq
    have : n + (T.pre u e).steps = (n + e.steps) + 1 := by simp [T.steps]; omega
    rw [this]
    simp only [T.text, List.append_assoc]
    rw [loop_sym S table steps atom fuel u _ hh]
    simp only [List.reverse_nil, show strip ([] : List Char) = [] from rfl, List.isEmpty_nil, if_true,
      Option.bind_some]
    rw [ih fuel hdep _ _ _ hqe ha hr]
    simp [T.pend, T.emitted]
  | bin o l r ihl ihr =>
    intro fuel hdep rest n toks hq ha hr
    obtain ⟨hh, hql, hqr⟩ := hq
    have hdl : l.depth ≤ fuel := by simp [T.depth] at hdep; omega
    have hdr : r.depth ≤ fuel := by simp [T.depth] at hdep; omega
    have : n + (T.bin o l r).steps = ((n + r.steps) + 1) + l.steps := by simp [T.steps]; omega
    rw [this]
    simp only [T.text, List.append_assoc]
    rw [ihl fuel hdl _ _ _ hql ha.1 hr.1, loop_sym S table steps atom fuel o _ hh]
    simp only [List.reverse_reverse]
    rw [T.flush table atom av l _ hql ha.1]
    simp only [Option.bind_some]
    rw [ihr fuel hdr _ _ _ hqr ha.2 hr.2]
    simp [T.pend, T.emitted]
  | par f k1 i e j k2 ih =>
    intro fuel hdep rest n toks hq ha hr
    obtain ⟨hq1, hhit, hq2, hstr, hnest, hqe⟩ := hq
    obtain ⟨hm, hre⟩ := hr
    cases fuel with
    | zero => simp [T.depth] at hdep
    | succ f' =>
      have hde : e.depth ≤ f' := by simp [T.depth] at hdep; omega
      have hW := solve_of_loop S table steps atom val av e ih f' hde hqe ha hre
      have : n + (T.par f k1 i e j k2).steps = ((n + k2) + 1) + (blanks k1).length := by
        simp [T.steps, blanks_length]; omega
      rw [this]
      simp only [T.text, List.append_assoc, List.cons_append]
      rw [loop_quiet S table steps atom (f' + 1) (blanks k1) _ hq1]
      simp only [List.append_nil]
      have hscan := scan_last i j (e.text table) (blanks k2 ++ rest) [] ((blanks k2 ++ rest).length + 1) hstr hnest
      rw [← len_pad i j (e.text table) (blanks k2 ++ rest) ')'] at hscan
      rw [loop_parsym S table steps atom (f' + 1) f _ (blanks k2 ++ rest) [e.text table] [val e] _ _ _
        (by first | exact hhit | simpa using hhit) (by simp [blanks_reverse, strip_blanks])
        (by first | exact hscan | simpa using hscan)
        (AllSolved.cons (by rw [hW, hm]) AllSolved.nil)]
      have : n + k2 = n + (blanks k2).length := by simp [blanks_length]
      rw [this, loop_quiet S table steps atom (f' + 1) (blanks k2) rest hq2]
      simp [T.pend, T.emitted]
  | par2 f k1 i a j m1 b m2 k2 iha ihb =>
    intro fuel hdep rest n toks hq ha hr
    obtain ⟨hq1, hhit, hq2, hsa, hna, hsb, hnb, hqa, hqb⟩ := hq
    obtain ⟨hma, hra, hmb, hrb⟩ := hr
    cases fuel with
    | zero => simp [T.depth] at hdep
    | succ f' =>
      have hda : a.depth ≤ f' := by simp [T.depth] at hdep; omega
      have hdb : b.depth ≤ f' := by simp [T.depth] at hdep; omega
      have hWa := solve_of_loop S table steps atom val av a iha f' hda hqa ha.1 hra
      have hWb := solve_of_loop S table steps atom val av b ihb f' hdb hqb ha.2 hrb
      have : n + (T.par2 f k1 i a j m1 b m2 k2).steps = ((n + k2) + 1) + (blanks k1).length := by
        simp [T.steps, blanks_length]; omega
      rw [this]
      simp only [T.text, List.append_assoc, List.cons_append]
      rw [loop_quiet S table steps atom (f' + 1) (blanks k1) _ hq1]
      simp only [List.append_nil]
      have hscan2 := scan_last m1 m2 (b.text table) (blanks k2 ++ rest) [a.text table]
        ((blanks k2 ++ rest).length + 1) hsb hnb
      rw [← len_pad m1 m2 (b.text table) (blanks k2 ++ rest) ')'] at hscan2
      have hscan1 := scan_sep i j (a.text table)
        (blanks m1 ++ (b.text table ++ (blanks m2 ++ ')' :: (blanks k2 ++ rest)))) []
        ((blanks m1 ++ (b.text table ++ (blanks m2 ++ ')' :: (blanks k2 ++ rest)))).length + 1) hsa hna
      rw [← len_pad i j (a.text table) _ ','] at hscan1
      simp only [List.nil_append] at hscan1 hscan2
      rw [hscan2] at hscan1
      rw [loop_parsym S table steps atom (f' + 1) f _ (blanks k2 ++ rest) [a.text table, b.text table]
        [val a, val b] _ _ _
        (by first | exact hhit | simpa using hhit) (by simp [blanks_reverse, strip_blanks])
        (by first | exact hscan1 | simpa using hscan1)
        (AllSolved.cons (by rw [hWa, hma]) (AllSolved.cons (by rw [hWb, hmb]) AllSolved.nil))]
      have : n + k2 = n + (blanks k2).length := by simp [blanks_length]
      rw [this, loop_quiet S table steps atom (f' + 1) (blanks k2) rest hq2]
      simp [T.pend, T.emitted]

/-- The whole string-level solve of a nested tree is the machine run on the tree's token list. -/
theorem solve_nest (val : T → Q) (av : List Char → Q) (t : T) (fuel : Nat) (hdep : t.depth ≤ fuel)
    (hq : t.QuietN table []) (ha : t.AtomsOK atom av) (hr : t.ArgsOK S (table.map (·.key)) steps val av) :
    solveStr S table steps atom (fuel + 1) (t.text table) =
      machine S (table.map (·.key)) steps (t.toks val av) :=
  solve_of_loop S table steps atom val av t (loop_nest S table steps atom val av t) fuel hdep hq ha hr

theorem T.toks_toE (sub : E (List Char) → Q) (av : List Char → Q) (t : T) :
    t.toks (fun x => sub x.toE) av = t.toE.toks sub av := by
  induction t with
  | lit a => rfl
  | bin o l r ihl ihr => simp [T.toks, T.toE, E.toks, ihl, ihr]
  | pre u e ih => simp [T.toks, T.toE, E.toks, ih]
  | par f k1 i e j k2 _ =>
    simp only [T.toks, T.toE]
    split
    · rename_i h; subst h; rfl
    · rfl
  | par2 f k1 i a j m1 b m2 k2 _ _ => rfl

/-- the arguments of a well-formed tree are solved by the machine (token-level theorem) -/
theorem T.argsOK_of (G : Grammar) (sub : E (List Char) → Q) (av : List Char → Q) (keys : List String)
    (hm : ∀ e : E (List Char), e.WF G → machine S keys steps (e.toks sub av) = some (.atom (sub e)))
    (t : T) (hw : t.toE.WF G) : t.ArgsOK S keys steps (fun x => sub x.toE) av := by
  induction t with
  | lit a => trivial
  | bin o l r ihl ihr =>
    obtain ⟨_, _, _, _, hwl, hwr⟩ := hw
    exact ⟨ihl hwl, ihr hwr⟩
  | pre u e ih => exact ih hw.2.2.2
  | par f k1 i e j k2 ih =>
    have hwe : e.toE.WF G := by
      simp only [T.toE] at hw
      split at hw
      · exact hw
      · exact hw.2
    exact ⟨by rw [T.toks_toE]; exact hm _ hwe, ih hwe⟩
  | par2 f k1 i a j m1 b m2 k2 iha ihb =>
    obtain ⟨_, hwa, hwb⟩ := hw
    exact ⟨by rw [T.toks_toE]; exact hm _ hwa, iha hwa, by rw [T.toks_toE]; exact hm _ hwb, ihb hwb⟩

theorem T.depth_le_length (t : T) : t.depth ≤ (t.text table).length := by
  induction t with
  | lit a => simp [T.depth]
  | bin o l r ihl ihr => simp [T.depth, T.text]; omega
  | pre u e ih => simp [T.depth, T.text]; omega
  | par f k1 i e j k2 ih => simp [T.depth, T.text]; omega
  | par2 f k1 i a j m1 b m2 k2 iha ihb => simp [T.depth, T.text]; omega

/-! ### a decidable form of the side conditions -/

def quietB (a rest : List Char) : Bool :=
  (List.range a.length).all (fun i => (hits table (a.drop i ++ rest)).isNone)

def hitsOpB (k : String) (rest : List Char) : Bool :=
  match hits table (symOf table k ++ rest) with
  | some d => d.key == k && d.sym == symOf table k && !d.isPar && !d.sym.isEmpty
  | none => false

def hitsParB (f : String) (narg : Nat) (rest : List Char) : Bool :=
  match hits table (symOf table f ++ rest) with
  | some d => d.key == f && d.sym == symOf table f && d.isPar && d.narg == narg && !d.sym.isEmpty
  | none => false

def strippedB (c : List Char) : Bool :=
  (match c.head? with | some x => !isWs x | none => false) &&
  (match c.getLast? with | some y => !isWs y | none => false)

def T.quietNB : T → List Char → Bool
  | .lit a, rest => !(strip a).isEmpty && quietB table a rest
  | .bin o l r, rest => hitsOpB table o (r.text table ++ rest) &&
      l.quietNB (symOf table o ++ (r.text table ++ rest)) && r.quietNB rest
  | .pre u e, rest => hitsOpB table u (e.text table ++ rest) && e.quietNB rest
  | .par f k1 i e j k2, rest =>
      quietB table (blanks k1) (symOf table f ++ (blanks i ++ (e.text table ++ (blanks j ++ (')' :: (blanks k2 ++ rest)))))) &&
      hitsParB table f 1 (blanks i ++ (e.text table ++ (blanks j ++ (')' :: (blanks k2 ++ rest))))) &&
      quietB table (blanks k2) rest && strippedB (e.text table) && (nest (e.text table) 0 == some 0) &&
      e.quietNB []
  | .par2 f k1 i a j m1 b m2 k2, rest =>
      quietB table (blanks k1) (symOf table f ++ (blanks i ++ (a.text table ++ (blanks j ++ (',' ::
        (blanks m1 ++ (b.text table ++ (blanks m2 ++ (')' :: (blanks k2 ++ rest)))))))))) &&
      hitsParB table f 2 (blanks i ++ (a.text table ++ (blanks j ++ (',' ::
        (blanks m1 ++ (b.text table ++ (blanks m2 ++ (')' :: (blanks k2 ++ rest))))))))) &&
      quietB table (blanks k2) rest && strippedB (a.text table) && (nest (a.text table) 0 == some 0) &&
      strippedB (b.text table) && (nest (b.text table) 0 == some 0) &&
      a.quietNB [] && b.quietNB []

theorem hitsOp_of_B (k : String) (rest : List Char) (h : hitsOpB table k rest = true) : HitsOp table k rest := by
  unfold hitsOpB at h
  split at h
  · rename_i d hd
    simp only [Bool.and_eq_true, beq_iff_eq, Bool.not_eq_true', List.isEmpty_eq_false_iff] at h
    exact ⟨d, hd, h.1.1.1, h.1.1.2, h.1.2, h.2⟩
  · exact absurd h (by simp)

theorem hitsPar_of_B (f : String) (narg : Nat) (rest : List Char) (h : hitsParB table f narg rest = true) :
    HitsPar table f narg rest := by
  unfold hitsParB at h
  split at h
  · rename_i d hd
    simp only [Bool.and_eq_true, beq_iff_eq, Bool.not_eq_true', List.isEmpty_eq_false_iff] at h
    exact ⟨d, hd, h.1.1.1.1, h.1.1.1.2, h.1.1.2, h.1.2, h.2⟩
  · exact absurd h (by simp)

theorem stripped_of_B (c : List Char) (h : strippedB c = true) : Stripped c := by
  unfold strippedB at h
  simp only [Bool.and_eq_true] at h
  obtain ⟨h1, h2⟩ := h
  constructor
  · cases hx : c.head? with
    | none => simp [hx] at h1
    | some x => exact ⟨x, rfl, by simpa [hx] using h1⟩
  · cases hy : c.getLast? with
    | none => simp [hy] at h2
    | some y => exact ⟨y, rfl, by simpa [hy] using h2⟩

/-- the side conditions of the nested string-level theorems can be decided -/
theorem T.quietN_of_B (t : T) : ∀ rest, t.quietNB table rest = true → t.QuietN table rest := by
  induction t with
  | lit a =>
    intro rest h
    simp only [T.quietNB, Bool.and_eq_true, Bool.not_eq_true', List.isEmpty_eq_false_iff] at h
    exact ⟨h.1, quiet_of_all table a rest h.2⟩
  | bin o l r ihl ihr =>
    intro rest h
    simp only [T.quietNB, Bool.and_eq_true] at h
    exact ⟨hitsOp_of_B table o _ h.1.1, ihl _ h.1.2, ihr _ h.2⟩
  | pre u e ih =>
    intro rest h
    simp only [T.quietNB, Bool.and_eq_true] at h
    exact ⟨hitsOp_of_B table u _ h.1, ih _ h.2⟩
  | par f k1 i e j k2 ih =>
    intro rest h
    simp only [T.quietNB, Bool.and_eq_true, beq_iff_eq] at h
    obtain ⟨⟨⟨⟨⟨h1, h2⟩, h3⟩, h4⟩, h5⟩, h6⟩ := h
    exact ⟨quiet_of_all table _ _ h1, hitsPar_of_B table f 1 _ h2, quiet_of_all table _ _ h3,
      stripped_of_B _ h4, h5, ih _ h6⟩
  | par2 f k1 i a j m1 b m2 k2 iha ihb =>
    intro rest h
    simp only [T.quietNB, Bool.and_eq_true, beq_iff_eq] at h
    obtain ⟨⟨⟨⟨⟨⟨⟨⟨h1, h2⟩, h3⟩, h4⟩, h5⟩, h6⟩, h7⟩, h8⟩, h9⟩ := h
    exact ⟨quiet_of_all table _ _ h1, hitsPar_of_B table f 2 _ h2, quiet_of_all table _ _ h3,
      stripped_of_B _ h4, h5, stripped_of_B _ h6, h7, iha _ h8, ihb _ h9⟩

end SciVerif.C18
