import SciVerif.Lemmas.C13l
/-!
Inline arrays of arbitrary nesting depth: `json.loads` on a rendered rectangular nested list gives
its shape and its elements in row-major order.
-/
namespace SciVerif.C13

/-- `Rendered s sh toks`: the text `s` is a rectangular nested list of shape `sh` whose leaves, in
    row-major order, are the words `toks` — a single word (shape `[]`), or `[item,…,item]` with
    `n ≥ 1` items that are themselves rendered with one common shape. -/
inductive Rendered : Str → List Nat → List Tok → Prop where
  | tok (t : Str) (h : TokOk t) : Rendered t [] [.bare t]
  | arr (items : List (Str × List Tok)) (sh : List Nat) (hne : items ≠ [])
      (h : ∀ it ∈ items, Rendered it.1 sh it.2) :
      Rendered ('[' :: (joinWith [','] (items.map Prod.fst) ++ [']'])) (items.length :: sh)
        (items.flatMap Prod.snd)

def totalLen (items : List (Str × List Tok)) : Nat := (items.map (fun it => it.1.length)).sum

/-- what the induction provides for one item -/
def ItemOk (sh0 : List Nat) (it : Str × List Tok) : Prop :=
  (∃ c r, it.1 = c :: r ∧ isWs c = false ∧ c ≠ ']') ∧
  ∀ (f : Nat) (rest : Str), it.1.length + 1 ≤ f → (rest = [] ∨ ∃ c r, rest = c :: r ∧ isDelim c = true) →
    pVal f (it.1 ++ rest) = .ok (sh0, it.2, rest)

theorem pElems_items (sh0 : List Nat) : ∀ (items : List (Str × List Tok)) (f n : Nat) (acc : List Tok)
    (sh : Option (List Nat)) (rest : Str),
    items ≠ [] → (∀ it ∈ items, ItemOk sh0 it) → totalLen items + items.length + 1 ≤ f →
    (sh = none ∨ sh = some sh0) →
    pElems f (joinWith [','] (items.map Prod.fst) ++ ']' :: rest) sh n acc =
      .ok ((n + items.length) :: sh0, acc ++ items.flatMap Prod.snd, rest) := by
  intro items
  induction items with
  | nil => intro _ _ _ _ _ h; exact absurd rfl h
  | cons it ts ih =>
    intro f n acc sh rest _ hok hf hsh
    obtain ⟨_, hpv⟩ := hok it (by simp)
    have htl : totalLen (it :: ts) = it.1.length + totalLen ts := by simp [totalLen]
    obtain ⟨f', rfl⟩ : ∃ f', f = f' + 1 := ⟨f - 1, by omega⟩
    cases ts with
    | nil =>
      have h0 : totalLen ([] : List (Str × List Tok)) = 0 := rfl
      simp only [List.map_cons, List.map_nil, joinWith]
      unfold pElems
      simp only [bind, Except.bind]
      rw [hpv f' (']' :: rest) (by simp only [List.length_cons, List.length_nil] at hf; omega)
        (.inr ⟨']', rest, rfl, by decide⟩)]
      rcases hsh with rfl | rfl
      · simp only [Bool.false_eq_true, if_false]
        rw [dropWs_cons ']' rest (by decide)]
        simp
      · simp only [bne_self_eq_false, Bool.false_eq_true, if_false]
        rw [dropWs_cons ']' rest (by decide)]
        simp
    | cons it2 ts2 =>
      have htl2 : totalLen (it2 :: ts2) = it2.1.length + totalLen ts2 := by simp [totalLen]
      simp only [List.map_cons, joinWith, List.append_assoc, List.singleton_append, List.cons_append,
        List.nil_append]
      unfold pElems
      simp only [bind, Except.bind]
      rw [hpv f' (',' :: (joinWith [','] (it2.1 :: ts2.map Prod.fst) ++ ']' :: rest))
        (by simp only [List.length_cons] at hf; omega) (.inr ⟨',', _, rfl, by decide⟩)]
      have hrec := ih f' (n + 1) (acc ++ it.2) (some sh0) rest (by simp)
        (fun x hx => hok x (List.mem_cons_of_mem _ hx))
        (by simp only [List.length_cons] at hf ⊢; omega) (.inr rfl)
      simp only [List.map_cons] at hrec
      have hfin : ((n + 1 + (it2 :: ts2).length) :: sh0, acc ++ it.2 ++ List.flatMap Prod.snd (it2 :: ts2), rest) =
          ((n + (it :: it2 :: ts2).length) :: sh0, acc ++ List.flatMap Prod.snd (it :: it2 :: ts2), rest) := by
        simp only [List.length_cons, List.flatMap_cons, List.append_assoc]
        congr 2
        omega
      rcases hsh with rfl | rfl
      · simp only [Bool.false_eq_true, if_false]
        rw [dropWs_cons ',' _ (by decide)]
        simp only
        rw [hrec, hfin]
      · simp only [bne_self_eq_false, Bool.false_eq_true, if_false]
        rw [dropWs_cons ',' _ (by decide)]
        simp only
        rw [hrec, hfin]

theorem joinWith_length_le (items : List (Str × List Tok)) :
    totalLen items ≤ (joinWith [','] (items.map Prod.fst)).length ∧
    (items ≠ [] → totalLen items + items.length ≤ (joinWith [','] (items.map Prod.fst)).length + 1) := by
  induction items with
  | nil => simp [totalLen, joinWith]
  | cons a t ih =>
    cases t with
    | nil => simp [totalLen, joinWith]
    | cons b t2 =>
      have h2 := ih.2 (by simp)
      simp only [totalLen, List.map_cons, List.sum_cons, joinWith, List.length_append, List.length_cons,
        List.length_nil] at ih h2 ⊢
      constructor
      · omega
      · intro _; omega

/-- `json.loads` on a rendered nested list: shape and leaves, for every nesting depth -/
theorem pVal_rendered {s : Str} {sh : List Nat} {toks : List Tok} (h : Rendered s sh toks) :
    ItemOk sh (s, toks) := by
  induction h with
  | tok t ht =>
    obtain ⟨c, r, hcr, _, _, hb, hw⟩ := tokOk_head t ht
    refine ⟨⟨c, r, hcr, hw, hb⟩, ?_⟩
    intro f rest hf hrest
    obtain ⟨f', rfl⟩ : ∃ f', f = f' + 1 := ⟨f - 1, by omega⟩
    exact pVal_tok f' t rest ht hrest
  | arr items sh0 hne _ ih =>
    refine ⟨⟨'[', _, rfl, by decide, by decide⟩, ?_⟩
    intro f rest hf hrest
    obtain ⟨f', rfl⟩ : ∃ f', f = f' + 1 := ⟨f - 1, by omega⟩
    -- first character of the first item
    obtain ⟨it0, ts, rfl⟩ : ∃ it0 ts, items = it0 :: ts := by
      cases items with | nil => exact absurd rfl hne | cons a b => exact ⟨a, b, rfl⟩
    obtain ⟨⟨c, r, hc0, hcw, hcb⟩, _⟩ := ih it0 (by simp)
    have hc : it0.1 = c :: r := hc0
    have hbody : ∃ r', joinWith [','] ((it0 :: ts).map Prod.fst) ++ ']' :: rest = c :: r' := by
      cases ts with
      | nil => exact ⟨r ++ ']' :: rest, by simp [joinWith, hc]⟩
      | cons b t2 => exact ⟨r ++ ',' :: (joinWith [','] ((b :: t2).map Prod.fst) ++ ']' :: rest), by simp [joinWith, hc]⟩
    obtain ⟨r', hr'⟩ := hbody
    have hlen := (joinWith_length_le (it0 :: ts)).2 (by simp)
    have hfuel : totalLen (it0 :: ts) + (it0 :: ts).length + 1 ≤ f' := by
      simp only [List.length_cons, List.length_append, List.length_nil] at hf hlen ⊢
      omega
    have hpe := pElems_items sh0 (it0 :: ts) f' 0 [] none rest (by simp) (fun x hx => ih x hx) hfuel (.inl rfl)
    show pVal (f' + 1) ('[' :: (joinWith [','] ((it0 :: ts).map Prod.fst) ++ [']']) ++ rest) = _
    simp only [List.cons_append, List.append_assoc, List.singleton_append, List.nil_append]
    unfold pVal
    rw [dropWs_cons '[' _ (by decide)]
    simp only
    rw [hr', dropWs_cons c r' hcw]
    split
    · rename_i heq; exact absurd (List.cons.inj heq).1 hcb
    · rw [← hr', hpe]
      simp

/-- whole text: the fuel `parseJson` supplies is enough -/
theorem parseJson_rendered {s : Str} {sh : List Nat} {toks : List Tok} (h : Rendered s sh toks) :
    parseJson s = .ok (sh, toks) := by
  obtain ⟨_, hp⟩ := pVal_rendered h
  have := hp (s.length + 1) [] (Nat.le_refl _) (.inl rfl)
  simp only [List.append_nil] at this
  simp [parseJson, this, bind, Except.bind, isBlank]

end SciVerif.C13
