import SciVerif.Lemmas.C19g
/-!
# C19 — whole Rust files: `readRust (exportRust data) = expected data`
-/
namespace SciVerif.C19

/-! ## splitting a joined text into its lines -/

theorem splitOn_ne_nil (c : Char) : ∀ s : Str, splitOn c s ≠ []
  | [] => by simp [splitOn]
  | x :: xs => by
    have := splitOn_ne_nil c xs
    simp only [splitOn]
    split
    · simp
    · split <;> simp

theorem splitOn_clean (c : Char) : ∀ a : Str, (∀ ch ∈ a, ch ≠ c) → splitOn c a = [a]
  | [], _ => by simp [splitOn]
  | x :: xs, h => by
    have ih := splitOn_clean c xs (fun ch hch => h ch (by simp [hch]))
    have hx : x ≠ c := h x (by simp)
    simp [splitOn, ih, hx]

theorem splitOn_append (c : Char) : ∀ (a rest : Str), (∀ ch ∈ a, ch ≠ c) →
    splitOn c (a ++ c :: rest) = a :: splitOn c rest
  | [], rest, _ => by
    have hne := splitOn_ne_nil c rest
    cases hs : splitOn c rest with
    | nil => exact absurd hs hne
    | cons h t => simp [splitOn, hs]
  | x :: xs, rest, h => by
    have ih := splitOn_append c xs rest (fun ch hch => h ch (by simp [hch]))
    have hx : x ≠ c := h x (by simp)
    simp [splitOn, ih, hx]

theorem lines_joinWith : ∀ ls : List Str, ls ≠ [] → (∀ l ∈ ls, ∀ ch ∈ l, ch ≠ '\n') →
    lines (joinWith ['\n'] ls) = ls
  | [], h, _ => absurd rfl h
  | [a], _, h => by
    simp only [joinWith, lines]
    exact splitOn_clean '\n' a (h a (by simp))
  | a :: b :: r, _, h => by
    have ih := lines_joinWith (b :: r) (by simp) (fun l hl => h l (by simp [hl]))
    simp only [joinWith, lines, List.append_assoc, List.cons_append, List.nil_append] at ih ⊢
    rw [splitOn_append '\n' a _ (h a (by simp)), ih]

theorem joinWith_ne_nil (sep : Str) : ∀ ls : List Str, (∃ l ∈ ls, l ≠ []) → joinWith sep ls ≠ []
  | [], h => by simp at h
  | [a], h => by simpa [joinWith] using h
  | a :: b :: r, h => by
    simp only [joinWith]
    intro e
    simp at e
    obtain ⟨ha, hs, hr⟩ := e
    obtain ⟨l, hl, hne⟩ := h
    rcases List.mem_cons.mp hl with rfl | hl
    · exact hne ha
    · exact joinWith_ne_nil sep (b :: r) ⟨l, hl, hne⟩ hr

/-! ## exporting and reading line by line -/

/-- if every line reads back as the expected symbol, so does the list of lines -/
theorem mapM_lines {α β γ : Type} (line : α → Option β) (read : β → Option γ) (exp : α → Option γ) :
    ∀ data : List α, (∀ p ∈ data, (line p).bind read = exp p) →
      (data.mapM line).bind (fun ls => ls.mapM read) = data.mapM exp
  | [], _ => by simp
  | p :: ps, h => by
    have hp := h p (by simp)
    have ih := mapM_lines line read exp ps (fun q hq => h q (by simp [hq]))
    simp only [List.mapM_cons, Option.bind_eq_bind, Option.pure_def]
    cases hl : line p with
    | none => rw [hl] at hp; simp at hp; simp [← hp]
    | some l =>
      rw [hl] at hp
      simp only [Option.bind_some] at hp
      cases hls : ps.mapM line with
      | none =>
        rw [hls] at ih
        simp only [Option.bind_none] at ih
        simp only [Option.bind_some, Option.bind_none, ← ih]
        cases exp p <;> rfl
      | some ls =>
        rw [hls] at ih
        simp only [Option.bind_some] at ih
        simp [List.mapM_cons, hp, ih]

end SciVerif.C19
