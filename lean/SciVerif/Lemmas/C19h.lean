import SciVerif.Lemmas.C19g
/-!
# C19 — whole Rust files: `readRust (exportRust data) = expected data`
-/
namespace SciVerif.C19

/-! ## splitting a joined text into its lines -/

theorem splitOn_ne_nil (c : Char) : ∀ s : Str, splitOn c s ≠ []
  | [] => by simp [splitOn]
  | x :: xs => by
    have := splitOn_ne_nil c xs
    simp only [splitOn]
    split
    · simp
    · split <;> simp

theorem splitOn_clean (c : Char) : ∀ a : Str, (∀ ch ∈ a, ch ≠ c) → splitOn c a = [a]
  | [], _ => by simp [splitOn]
  | x :: xs, h => by
    have ih := splitOn_clean c xs (fun ch hch => h ch (by simp [hch]))
    have hx : x ≠ c := h x (by simp)
    simp [splitOn, ih, hx]

theorem splitOn_append (c : Char) : ∀ (a rest : Str), (∀ ch ∈ a, ch ≠ c) →
    splitOn c (a ++ c :: rest) = a :: splitOn c rest
  | [], rest, _ => by
    have hne := splitOn_ne_nil c rest
    cases hs : splitOn c rest with
    | nil => exact absurd hs hne
    | cons h t => simp [splitOn, hs]
  | x :: xs, rest, h => by
    have ih := splitOn_append c xs rest (fun ch hch => h ch (by simp [hch]))
    have hx : x ≠ c := h x (by simp)
    simp [splitOn, ih, hx]

theorem lines_joinWith : ∀ ls : List Str, ls ≠ [] → (∀ l ∈ ls, ∀ ch ∈ l, ch ≠ '\n') →
    lines (joinWith ['\n'] ls) = ls
  | [], h, _ => absurd rfl h
  | [a], _, h => by
    simp only [joinWith, lines]
    exact splitOn_clean '\n' a (h a (by simp))
  | a :: b :: r, _, h => by
    have ih := lines_joinWith (b :: r) (by simp) (fun l hl => h l (by simp [hl]))
    simp only [joinWith, lines, List.append_assoc, List.cons_append, List.nil_append] at ih ⊢
    rw [splitOn_append '\n' a _ (h a (by simp)), ih]

theorem joinWith_ne_nil (sep : Str) : ∀ ls : List Str, (∃ l ∈ ls, l ≠ []) → joinWith sep ls ≠ []
  | [], h => by simp at h
  | [a], h => by simpa [joinWith] using h
  | a :: b :: r, h => by
    simp only [joinWith]
    intro e
    simp at e
    obtain ⟨ha, hs, hr⟩ := e
    obtain ⟨l, hl, hne⟩ := h
    rcases List.mem_cons.mp hl with rfl | hl
    · exact hne ha
    · exact joinWith_ne_nil sep (b :: r) ⟨l, hl, hne⟩ hr

/-! ## exporting and reading line by line -/

/-- if every line reads back as the expected symbol, so does the list of lines -/
theorem mapM_lines {α β γ : Type} (line : α → Option β) (read : β → Option γ) (exp : α → Option γ) :
    ∀ data : List α, (∀ p ∈ data, (line p).bind read = exp p) →
      (data.mapM line).bind (fun ls => ls.mapM read) = data.mapM exp
  | [], _ => by simp
  | p :: ps, h => by
    have hp := h p (by simp)
    have ih := mapM_lines line read exp ps (fun q hq => h q (by simp [hq]))
    simp only [List.mapM_cons, Option.bind_eq_bind, Option.pure_def]
    cases hl : line p with
    | none => rw [hl] at hp; simp at hp; simp [← hp]
    | some l =>
      rw [hl] at hp
      simp only [Option.bind_some] at hp
      cases hls : ps.mapM line with
      | none =>
        rw [hls] at ih
        simp only [Option.bind_none] at ih
        simp only [Option.bind_some, Option.bind_none, ← ih]
        cases exp p <;> rfl
      | some ls =>
        rw [hls] at ih
        simp only [Option.bind_some] at ih
        simp [List.mapM_cons, hp, ih]

theorem mapM_some_mem {α β : Type} (f : α → Option β) : ∀ (data : List α) (ls : List β),
    data.mapM f = some ls → ∀ l ∈ ls, ∃ p ∈ data, f p = some l
  | [], ls, h, l, hl => by simp at h; subst h; simp at hl
  | p :: ps, ls, h, l, hl => by
    simp only [List.mapM_cons, Option.bind_eq_bind, Option.pure_def] at h
    cases hp : f p with
    | none => simp [hp] at h
    | some b =>
      cases hps : ps.mapM f with
      | none => simp [hp, hps] at h
      | some bs =>
        simp [hp, hps] at h
        subst h
        rcases List.mem_cons.mp hl with rfl | hl
        · exact ⟨p, by simp, hp⟩
        · obtain ⟨q, hq, hfq⟩ := mapM_some_mem f ps bs hps l hl
          exact ⟨q, by simp [hq], hfq⟩

/-! ## exported lines contain no newline -/

theorem mem_escStr (q : Quoting) : ∀ (v : Str) (ch : Char), ch ∈ escStr q v → ch ∈ v ∨ ch = '\\' ∨ ch = '"'
  | [], ch, h => by simp [escStr_nil] at h
  | x :: v, ch, h => by
    rw [escStr_cons, List.mem_append] at h
    rcases h with h | h
    · cases q with
      | backslash =>
        simp only [escChar] at h
        split at h
        · simp at h; rcases h with h | h <;> simp [h]
        · split at h
          · simp at h; rcases h with h | h <;> simp [h]
          · simp at h; simp [h]
      | doubled =>
        simp only [escChar] at h
        split at h
        · simp at h; simp [h]
        · simp at h; simp [h]
    · rcases mem_escStr q v ch h with h | h
      · exact Or.inl (by simp [h])
      · exact Or.inr h

mutual
/-- no string leaf contains a newline -/
def NoNL : Val → Prop
  | .leaf (.s v) => ∀ ch ∈ v, ch ≠ '\n'
  | .leaf _ => True
  | .arr vs => NoNLs vs
def NoNLs : List Val → Prop
  | [] => True
  | v :: vs => NoNL v ∧ NoNLs vs
end

theorem floatChar_ne_nl (ch : Char) (h : floatChar ch = true) : ch ≠ '\n' := by
  intro e; subst e; revert h; decide

theorem printScalar_noNL (st : Style) (hT : ∀ ch ∈ st.tru, ch ≠ '\n') (hF : ∀ ch ∈ st.fls, ch ≠ '\n')
    (k : Kind) (s : Scalar) (hk : ScalarOK k s) (hn : NoNL (.leaf s)) : ∀ ch ∈ printScalar st s, ch ≠ '\n' := by
  intro ch hch
  cases s with
  | b v => cases v <;> simp [printScalar] at hch <;> first | exact hT ch hch | exact hF ch hch
  | i v => exact floatChar_ne_nl ch (showInt_floatChars v ch hch)
  | f t => exact floatChar_ne_nl ch (List.all_eq_true.mp hk.2.2 ch hch)
  | s v =>
    simp only [printScalar, quoteStr, List.mem_cons, List.mem_append, List.mem_nil_iff, or_false] at hch
    rcases hch with rfl | hch | rfl
    · decide
    · rcases mem_escStr st.q v ch hch with h | rfl | rfl
      · exact hn ch h
      · decide
      · decide
    · decide

mutual
theorem printVal_noNL (st : Style) (hT : ∀ ch ∈ st.tru, ch ≠ '\n') (hF : ∀ ch ∈ st.fls, ch ≠ '\n')
    (hO : ∀ ch ∈ st.opn, ch ≠ '\n') (hC : ∀ ch ∈ st.cls, ch ≠ '\n') (k : Kind) :
    (v : Val) → ValOK k v → NoNL v → ∀ ch ∈ printVal st v, ch ≠ '\n'
  | .leaf s, hv, hn => by
    simp only [printVal]
    exact printScalar_noNL st hT hF k s (by simpa [ValOK] using hv) hn
  | .arr vs, hv, hn => by
    intro ch hch
    simp only [printVal, List.mem_append] at hch
    rcases hch with (hch | hch) | hch
    · exact hO ch hch
    · exact printVals_noNL st hT hF hO hC k vs (by simpa [ValOK] using hv) (by simpa [NoNL] using hn) ch hch
    · exact hC ch hch
theorem printVals_noNL (st : Style) (hT : ∀ ch ∈ st.tru, ch ≠ '\n') (hF : ∀ ch ∈ st.fls, ch ≠ '\n')
    (hO : ∀ ch ∈ st.opn, ch ≠ '\n') (hC : ∀ ch ∈ st.cls, ch ≠ '\n') (k : Kind) :
    (vs : List Val) → ValsOK k vs → NoNLs vs → ∀ ch ∈ printVals st vs, ch ≠ '\n'
  | [], _, _ => by simp [printVals]
  | [v], hv, hn => by
    simp only [printVals]
    exact printVal_noNL st hT hF hO hC k v hv.1 hn.1
  | v :: w :: vs, hv, hn => by
    intro ch hch
    simp only [printVals, List.mem_append, List.mem_cons, List.mem_nil_iff, or_false] at hch
    rcases hch with (hch | rfl | rfl) | hch
    · exact printVal_noNL st hT hF hO hC k v hv.1 hn.1 ch hch
    · decide
    · decide
    · exact printVals_noNL st hT hF hO hC k (w :: vs) hv.2 hn.2 ch hch
end

theorem showNat_ne_nl (n : Nat) : ∀ ch ∈ showNat n, ch ≠ '\n' :=
  fun ch h => floatChar_ne_nl ch (showNat_floatChars n ch h)

theorem rust_names_noNL : ∀ t ∈ targets bRust, t.all (fun c => c ≠ '\n') = true := by decide +kernel

theorem lineRust_noNL (ren : Bool) (p : Param) (l : Str) (h : lineRust ren p = some l)
    (hn : ∀ ch ∈ rename ren p.name, ch ≠ '\n') (hv : ValOK p.kind p.value) (hnl : NoNL p.value) :
    (∀ ch ∈ l, ch ≠ '\n') ∧ l ≠ [] := by
  unfold lineRust at h
  cases ht : lookupType bRust p.kind p.bits with
  | none => simp [ht] at h
  | some dtype =>
    cases hs : shapeOf p.value with
    | none => simp [ht, hs] at h
    | some sh =>
      simp [ht, hs] at h
      subst h
      obtain ⟨n, _, hmem⟩ := targetKind_of_lookup bRust (by simp) p.kind p.bits dtype ht
      have hd := List.all_eq_true.mp (rust_names_noNL dtype hmem)
      have hval := printVal_noNL styleRust (by decide) (by decide) (by decide) (by decide) p.kind p.value hv hnl
      refine ⟨?_, by simp⟩
      intro ch hch
      rw [rustType_eq] at hch
      simp only [List.mem_append, List.mem_cons, List.mem_nil_iff, or_false, List.mem_replicate,
        List.mem_flatMap, List.mem_reverse] at hch
      rcases hch with (((((hch | hch) | hch | hch) | hch) | hch) | hch) | hch
      all_goals first
        | (rcases hch with rfl | rfl | rfl | rfl | rfl | rfl | rfl | rfl | rfl | rfl <;> decide)
        | exact hn ch hch
        | (rcases hch with rfl | rfl <;> decide)
        | (obtain ⟨_, rfl⟩ := hch; decide)
        | (rcases hch with hch | ⟨d, _, hch⟩
           · have := hd ch hch; simpa using this
           · simp only [rseg, List.mem_cons, List.mem_append, List.mem_nil_iff, or_false] at hch
             rcases hch with rfl | rfl | hch | rfl
             · decide
             · decide
             · exact showNat_ne_nl d ch hch
             · decide)
        | (rcases hch with rfl | rfl | rfl <;> decide)
        | exact hval ch hch
        | (subst hch; decide)

end SciVerif.C19
