import SciVerif.Lemmas.C19g
/-!
# C19 — whole Rust files: `readRust (exportRust data) = expected data`
-/
namespace SciVerif.C19

/-! ## splitting a joined text into its lines -/

theorem splitOn_ne_nil (c : Char) : ∀ s : Str, splitOn c s ≠ []
  | [] => by simp [splitOn]
  | x :: xs => by
    have := splitOn_ne_nil c xs
    simp only [splitOn]
    split
    · simp
    · split <;> simp

theorem splitOn_clean (c : Char) : ∀ a : Str, (∀ ch ∈ a, ch ≠ c) → splitOn c a = [a]
  | [], _ => by simp [splitOn]
  | x :: xs, h => by
    have ih := splitOn_clean c xs (fun ch hch => h ch (by simp [hch]))
    have hx : x ≠ c := h x (by simp)
    simp [splitOn, ih, hx]

theorem splitOn_append (c : Char) : ∀ (a rest : Str), (∀ ch ∈ a, ch ≠ c) →
    splitOn c (a ++ c :: rest) = a :: splitOn c rest
  | [], rest, _ => by
    have hne := splitOn_ne_nil c rest
    cases hs : splitOn c rest with
    | nil => exact absurd hs hne
    | cons h t => simp [splitOn, hs]
  | x :: xs, rest, h => by
    have ih := splitOn_append c xs rest (fun ch hch => h ch (by simp [hch]))
    have hx : x ≠ c := h x (by simp)
    simp [splitOn, ih, hx]

theorem lines_joinWith : ∀ ls : List Str, ls ≠ [] → (∀ l ∈ ls, ∀ ch ∈ l, ch ≠ '\n') →
    lines (joinWith ['\n'] ls) = ls
  | [], h, _ => absurd rfl h
  | [a], _, h => by
    simp only [joinWith, lines]
    exact splitOn_clean '\n' a (h a (by simp))
  | a :: b :: r, _, h => by
    have ih := lines_joinWith (b :: r) (by simp) (fun l hl => h l (by simp [hl]))
    simp only [joinWith, lines, List.append_assoc, List.cons_append, List.nil_append] at ih ⊢
    rw [splitOn_append '\n' a _ (h a (by simp)), ih]

theorem joinWith_ne_nil (sep : Str) : ∀ ls : List Str, (∃ l ∈ ls, l ≠ []) → joinWith sep ls ≠ []
  | [], h => by simp at h
  | [a], h => by simpa [joinWith] using h
  | a :: b :: r, h => by
    simp only [joinWith]
    intro e
    simp at e
    obtain ⟨ha, hs, hr⟩ := e
    obtain ⟨l, hl, hne⟩ := h
    rcases List.mem_cons.mp hl with rfl | hl
    · exact hne ha
    · exact joinWith_ne_nil sep (b :: r) ⟨l, hl, hne⟩ hr

/-! ## exporting and reading line by line -/

/-- if every line reads back as the expected symbol, so does the list of lines -/
theorem mapM_lines {α β γ : Type} (line : α → Option β) (read : β → Option γ) (exp : α → Option γ) :
    ∀ data : List α, (∀ p ∈ data, (line p).bind read = exp p) →
      (data.mapM line).bind (fun ls => ls.mapM read) = data.mapM exp
  | [], _ => by simp
  | p :: ps, h => by
    have hp := h p (by simp)
    have ih := mapM_lines line read exp ps (fun q hq => h q (by simp [hq]))
    simp only [List.mapM_cons, Option.bind_eq_bind, Option.pure_def]
    cases hl : line p with
    | none => rw [hl] at hp; simp at hp; simp [← hp]
    | some l =>
      rw [hl] at hp
      simp only [Option.bind_some] at hp
      cases hls : ps.mapM line with
      | none =>
        rw [hls] at ih
        simp only [Option.bind_none] at ih
        simp only [Option.bind_some, Option.bind_none, ← ih]
        cases exp p <;> rfl
      | some ls =>
        rw [hls] at ih
        simp only [Option.bind_some] at ih
        simp [List.mapM_cons, hp, ih]

theorem mapM_some_mem {α β : Type} (f : α → Option β) : ∀ (data : List α) (ls : List β),
    data.mapM f = some ls → ∀ l ∈ ls, ∃ p ∈ data, f p = some l
  | [], ls, h, l, hl => by simp at h; subst h; simp at hl
  | p :: ps, ls, h, l, hl => by
    simp only [List.mapM_cons, Option.bind_eq_bind, Option.pure_def] at h
    cases hp : f p with
    | none => simp [hp] at h
    | some b =>
      cases hps : ps.mapM f with
      | none => simp [hp, hps] at h
      | some bs =>
        simp [hp, hps] at h
        subst h
        rcases List.mem_cons.mp hl with rfl | hl
        · exact ⟨p, by simp, hp⟩
        · obtain ⟨q, hq, hfq⟩ := mapM_some_mem f ps bs hps l hl
          exact ⟨q, by simp [hq], hfq⟩

/-! ## exported lines contain no newline -/

/-- no newline in a text -/
def clean (s : Str) : Bool := s.all (fun c => c ≠ '\n')

theorem clean_iff (s : Str) : clean s = true ↔ ∀ ch ∈ s, ch ≠ '\n' := by
  simp [clean, List.all_eq_true]

theorem clean_append (a b : Str) : clean (a ++ b) = (clean a && clean b) := by simp [clean, List.all_append]

theorem clean_cons (c : Char) (s : Str) : clean (c :: s) = (decide (c ≠ '\n') && clean s) := by simp [clean]

theorem clean_nil : clean [] = true := rfl

theorem clean_escChar (q : Quoting) (x : Char) (h : x ≠ '\n') : clean (escChar q x) = true := by
  cases q <;> simp only [escChar] <;> (repeat' split) <;> simp [clean, h]

theorem clean_escStr (q : Quoting) : ∀ v : Str, clean v = true → clean (escStr q v) = true
  | [], _ => by simp [escStr_nil, clean]
  | x :: v, h => by
    rw [clean_cons] at h
    simp at h
    rw [escStr_cons, clean_append, clean_escChar q x h.1, clean_escStr q v h.2]
    rfl

mutual
/-- no string leaf contains a newline -/
def NoNL : Val → Prop
  | .leaf (.s v) => clean v = true
  | .leaf _ => True
  | .arr vs => NoNLs vs
def NoNLs : List Val → Prop
  | [] => True
  | v :: vs => NoNL v ∧ NoNLs vs
end

theorem floatChar_ne_nl (ch : Char) (h : floatChar ch = true) : ch ≠ '\n' := by
  intro e; subst e; revert h; decide

theorem clean_of_floatChars (t : Str) (h : ∀ ch ∈ t, floatChar ch = true) : clean t = true :=
  (clean_iff t).mpr (fun ch hch => floatChar_ne_nl ch (h ch hch))

theorem clean_showNat (n : Nat) : clean (showNat n) = true := clean_of_floatChars _ (showNat_floatChars n)

theorem printScalar_clean (st : Style) (hT : clean st.tru = true) (hF : clean st.fls = true)
    (k : Kind) (s : Scalar) (hk : ScalarOK k s) (hn : NoNL (.leaf s)) : clean (printScalar st s) = true := by
  cases s with
  | b v => cases v <;> simp [printScalar, hT, hF]
  | i v => exact clean_of_floatChars _ (showInt_floatChars v)
  | f t => exact clean_of_floatChars _ (fun ch hch => List.all_eq_true.mp hk.2.2 ch hch)
  | s v =>
    have hv : clean v = true := hn
    simp [printScalar, quoteStr, clean_cons, clean_append, clean_escStr st.q v hv, clean_nil]

mutual
theorem printVal_clean (st : Style) (hT : clean st.tru = true) (hF : clean st.fls = true)
    (hO : clean st.opn = true) (hC : clean st.cls = true) (k : Kind) :
    (v : Val) → ValOK k v → NoNL v → clean (printVal st v) = true
  | .leaf s, hv, hn => by
    simp only [printVal]
    exact printScalar_clean st hT hF k s (by simpa [ValOK] using hv) hn
  | .arr vs, hv, hn => by
    have := printVals_clean st hT hF hO hC k vs (by simpa [ValOK] using hv) (by simpa [NoNL] using hn)
    simp [printVal, clean_append, hO, hC, this]
theorem printVals_clean (st : Style) (hT : clean st.tru = true) (hF : clean st.fls = true)
    (hO : clean st.opn = true) (hC : clean st.cls = true) (k : Kind) :
    (vs : List Val) → ValsOK k vs → NoNLs vs → clean (printVals st vs) = true
  | [], _, _ => by simp [printVals, clean_nil]
  | [v], hv, hn => by
    simp only [printVals]
    exact printVal_clean st hT hF hO hC k v hv.1 hn.1
  | v :: w :: vs, hv, hn => by
    have h1 := printVal_clean st hT hF hO hC k v hv.1 hn.1
    have h2 := printVals_clean st hT hF hO hC k (w :: vs) hv.2 hn.2
    simp [printVals, clean_append, clean_cons, h1, h2]
end

theorem rust_names_clean : ∀ t ∈ targets bRust, clean t = true := by decide +kernel

theorem clean_rsegs : ∀ l : List Nat, clean (l.flatMap rseg) = true
  | [] => rfl
  | d :: l => by
    simp [List.flatMap_cons, rseg, clean_append, clean_cons, clean_showNat, clean_rsegs l]

theorem clean_replicate (n : Nat) : clean (List.replicate n '[') = true := by
  simp [clean]

theorem lineRust_clean (ren : Bool) (p : Param) (l : Str) (h : lineRust ren p = some l)
    (hn : clean (rename ren p.name) = true) (hv : ValOK p.kind p.value) (hnl : NoNL p.value) :
    clean l = true ∧ l ≠ [] := by
  unfold lineRust at h
  cases ht : lookupType bRust p.kind p.bits with
  | none => simp [ht] at h
  | some dtype =>
    cases hs : shapeOf p.value with
    | none => simp [ht, hs] at h
    | some sh =>
      simp [ht, hs] at h
      subst h
      obtain ⟨n, _, hmem⟩ := targetKind_of_lookup bRust (by simp) p.kind p.bits dtype ht
      have hd := rust_names_clean dtype hmem
      have hval := printVal_clean styleRust (by decide) (by decide) (by decide) (by decide) p.kind p.value hv hnl
      refine ⟨?_, by simp⟩
      simp [rustType_eq, clean_append, clean_cons, clean_nil, hn, hd, hval, clean_rsegs, clean_replicate]

/-- what the whole-file theorem asks of a parameter -/
def ParamOKRust (ren : Bool) (p : Param) : Prop :=
  (∀ ch ∈ rename ren p.name, ch ≠ ':') ∧ clean (rename ren p.name) = true ∧ ValOK p.kind p.value ∧
  NoNL p.value ∧ ∃ sh, rectShape p.value = some sh ∧ 0 ∉ sh

/-- **whole Rust files**: export, split into lines, read every line = the expected symbols of all
    selected parameters, in order (both undefined exactly when some node has no Rust type) -/
theorem readRust_exportRust (ren : Bool) (data : List Param) (hok : ∀ p ∈ data, ParamOKRust ren p) :
    (exportRust ren data).bind readRust = expected bRust ren [] data := by
  have hlines := mapM_lines (lineRust ren) readRustLine (fun p => expectedSym bRust ren false p) data
    (fun p hp => by
      obtain ⟨h1, _, h3, _, sh, h5, h6⟩ := hok p hp
      exact readRustLine_lineRust ren p sh h1 h3 h5 h6)
  have hexp : expected bRust ren [] data = data.mapM (fun p => expectedSym bRust ren false p) := by
    simp [expected]
  rw [hexp, ← hlines]
  unfold exportRust
  cases hm : data.mapM (lineRust ren) with
  | none => simp
  | some ls =>
    simp only [Option.bind_eq_bind, Option.bind_some]
    cases ls with
    | nil => simp [joinWith, readRust]
    | cons l ls =>
      have hall : ∀ x ∈ l :: ls, clean x = true ∧ x ≠ [] := by
        intro x hx
        obtain ⟨p, hp, hl⟩ := mapM_some_mem (lineRust ren) data (l :: ls) hm x hx
        obtain ⟨_, h2, h3, h4, _⟩ := hok p hp
        exact lineRust_clean ren p x hl h2 h3 h4
      have hne : joinWith ['\n'] (l :: ls) ≠ [] :=
        joinWith_ne_nil _ _ ⟨l, by simp, (hall l (by simp)).2⟩
      have hl := lines_joinWith (l :: ls) (by simp)
        (fun x hx => (clean_iff x).mp (hall x hx).1)
      simp [readRust, hne, hl]

end SciVerif.C19
