import SciVerif.Lemmas.C17j

/-! Refinement (C17), part 13: the side conditions of NESTED programs (`RunH` / `RunN`) as an
    executable check along the model's own run. -/
namespace SciVerif.C17

def pathOKB (ps : List (Nat × Str)) (i : Nat) (nm : Str) : SStmt → Bool
  | .defn path _ _ _ _ => decide (regNameOf ps i nm = joinDot path)
  | .modl path _ _ => decide (regNameOf ps i nm = joinDot path)
  | _ => true

theorem pathOKB_iff (ps : List (Nat × Str)) (i : Nat) (nm : Str) (s : SStmt) :
    pathOKB ps i nm s = true ↔ PathOK ps i nm s := by
  cases s <;> simp [pathOKB, PathOK]

/-- `PropOK` as a computation on the node list -/
def propOKB (env : Env) (path : List Str) (p : PropLine) : Bool :=
  match env.nodes.getLast? with
  | none => false
  | some t =>
    decide (splitDot t.name = path) && env.nodes.dropLast.all (fun x => decide (x.name ≠ t.name)) &&
    (match p with
     | .format _ => decide (t.kw = .str)
     | .option _ _ => decide (t.kw = .int ∨ t.kw = .float ∨ t.kw = .str)
     | _ => true)

theorem propOKB_sound (env : Env) (path : List Str) (p : PropLine) (h : propOKB env path p = true) :
    PropOK env path p := by
  unfold propOKB at h
  cases hl : env.nodes.getLast? with
  | none => simp [hl] at h
  | some t =>
    simp only [hl, Bool.and_eq_true, decide_eq_true_eq, List.all_eq_true] at h
    obtain ⟨⟨h1, h2⟩, h3⟩ := h
    obtain ⟨ys, hys⟩ := List.getLast?_eq_some_iff.mp hl
    have hd : env.nodes.dropLast = ys := by rw [hys]; simp
    rw [hd] at h2
    refine ⟨ys, t, hys, h1, h2, ?_⟩
    cases p <;> simp_all

/-- the side conditions of one `HLine` -/
def lineHB (env : Env) : HLine → Bool
  | .group _ _ => true
  | .stmt i nm s => inFragB (absEnv env) s && pathOKB env.parents i nm s
  | .prop path p => propOKB env path p

theorem lineHB_sound (tbl : UnitTable) (env : Env) (l : HLine) (h : lineHB env l = true) :
    RunH tbl env [l] := by
  cases l with
  | group i nm => trivial
  | stmt i nm s =>
    simp only [lineHB, Bool.and_eq_true] at h
    exact ⟨inFragB_sound _ s h.1, (pathOKB_iff _ i nm s).mp h.2, fun _ _ _ _ => trivial⟩
  | prop path p => exact ⟨propOKB_sound env path p h, fun _ _ => trivial⟩

/-- `RunN` as a computation: the check of every line in the environment the model's own run
    reaches (an import line at indent `i` must state the destination `impDest` computes) -/
def runNB (tbl : UnitTable) : Env → List NLine → Bool
  | _, [] => true
  | env, .base l :: rest =>
    lineHB env l &&
    (match l.item with
     | none => true
     | some it => match step tbl env it with
       | .ok env' => runNB tbl env' rest
       | .error _ => true)
  | env, .imp i pre dest source q :: rest =>
    inFragB (absEnv env) (.imp dest source q) && decide ('{' ∉ joinDot pre) &&
    decide (dest = impDest env.parents i pre) &&
    (match step tbl env (.node (impAt i pre source q)) with
     | .ok env' => runNB tbl env' rest
     | .error _ => true)

theorem runNB_sound (tbl : UnitTable) (env : Env) (lines : List NLine) (h : runNB tbl env lines = true) :
    RunN tbl env lines := by
  induction lines generalizing env with
  | nil => trivial
  | cons l rest ih =>
    cases l with
    | base l0 =>
      simp only [runNB, Bool.and_eq_true] at h
      refine ⟨lineHB_sound tbl env l0 h.1, ?_⟩
      intro it env' hit hst
      have h2 := h.2
      simp only [hit, hst] at h2
      exact ih env' h2
    | imp i pre dest source q =>
      simp only [runNB, Bool.and_eq_true, decide_eq_true_eq] at h
      obtain ⟨⟨⟨h1, h2⟩, h3⟩, h4⟩ := h
      refine ⟨inFragB_sound _ _ h1, h2, by rw [h3]; exact (impDest_ok env.parents i pre).1, ?_⟩
      intro env' hst
      simp only [hst] at h4
      exact ih env' h4

/-! ### the excluded case of the import side condition: an import that selects nothing -/

/-- When the specification's import selects no node (it then allows rejection: `mayReject`), the
    model's import line — at any indent, with any written prefix — is an error. -/
theorem imp_empty_rejected (tbl : UnitTable) (env : Env) (hinv : Inv tbl env) (i : Nat) (pre : List Str)
    (source : Option Str) (q : SQuery) (hws : WFSource source) (hq : WFQ q) (ss : List SNode)
    (hl : sLookup (absEnv env) source = some ss) (hsel : select q ss = []) :
    ∃ e, step tbl env (.node (impAt i pre source q)) = .error e := by
  obtain ⟨ns, hreq, hss, _⟩ := requestNodes_abs tbl env hinv source hws (renderQ q) ss hl
  obtain ⟨hpq, hqq⟩ := parse_render q hq
  have hsrc : '?' ∉ source.getD [] := by
    cases source with
    | none => simp
    | some x => exact (hws x rfl).2
  have hrq : request env (source.getD [] ++ '?' :: renderQ q) .any = .ok (query ns (toQuery q)) := by
    unfold request
    rw [splitQ_render _ _ hsrc hqq]
    simp only [hreq, hpq, countCheck]
  have hq0 : query ns (toQuery q) = [] := by
    rw [hss, select_abs q hq ns] at hsel
    have hf : ns.filter (qMatches (toQuery q)) = [] := by simpa using hsel
    simp [query, hf]
  have hk : (impAt i pre source q).kw = .imp := rfl
  have hr : (impAt i pre source q).ref = some (source.getD [] ++ '?' :: renderQ q) := rfl
  exact ⟨"import: no nodes", by simp [step, hk, importNodes, hr, hrq, hq0]⟩

end SciVerif.C17
