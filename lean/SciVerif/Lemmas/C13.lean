import SciVerif.Model.C13Spec
/-!
Hierarchy lemmas for C13: the stack kept by `HierarchyList.register` is the chain of
"previous smaller indentation" lines.
-/
namespace SciVerif.C13

/-- popping everything `≥ d` from an ancestor chain taken at bound `m ≥ d` gives the chain at `d` -/
theorem dropWhile_anc (d : Nat) : ∀ (rest : List (Nat × Str)) (m : Nat), d ≤ m →
    (anc m rest).dropWhile (fun p => decide (d ≤ p.1)) = anc d rest := by
  intro rest
  induction rest with
  | nil => intro m _; simp [anc]
  | cons a r ih =>
    intro m hm
    obtain ⟨e, n⟩ := a
    by_cases h1 : e < m
    · by_cases h2 : e < d
      · have : ¬ d ≤ e := by omega
        simp [anc, h1, h2, this]
      · have h3 : d ≤ e := by omega
        simp only [anc, h1, h2, if_true, if_false, List.dropWhile_cons, h3, decide_true]
        exact ih e h3
    · have h2 : ¬ e < d := by omega
      simp only [anc, h1, h2, if_false]
      exact ih m hm

/-- the state of the parent stack after a sequence of name-bearing lines -/
def stackAfter : List (Nat × Str) → Stack
  | [] => []
  | x :: earlier => x :: anc x.1 earlier

/-- one `register` call keeps the invariant (`earlier` is latest-first) -/
theorem push_stackAfter (earlier : List (Nat × Str)) (d : Nat) (nm : Str) :
    push (stackAfter earlier) d nm = stackAfter ((d, nm) :: earlier) := by
  cases earlier with
  | nil => simp [push, stackAfter, anc]
  | cons x r =>
    obtain ⟨e, n⟩ := x
    simp only [push, stackAfter]
    congr 1
    by_cases h : e < d
    · have : ¬ d ≤ e := by omega
      simp [anc, h, this]
    · have h3 : d ≤ e := by omega
      simp only [anc, h, if_false, List.dropWhile_cons, h3, decide_true, if_true]
      exact dropWhile_anc d r e h3

/-- registering a whole sequence (text order) from the empty stack -/
def registerAll : Stack → List (Nat × Str) → Stack
  | st, [] => st
  | st, (d, nm) :: t => registerAll (push st d nm) t

theorem registerAll_stackAfter (earlier ls : List (Nat × Str)) :
    registerAll (stackAfter earlier) ls = stackAfter (ls.reverse ++ earlier) := by
  induction ls generalizing earlier with
  | nil => simp [registerAll]
  | cons a t ih =>
    obtain ⟨d, nm⟩ := a
    simp only [registerAll, push_stackAfter, ih, List.reverse_cons, List.append_assoc,
      List.singleton_append]

/-- the chain is strictly increasing in indentation from the root to the line -/
theorem anc_sorted (m : Nat) (rest : List (Nat × Str)) :
    (anc m rest).Pairwise (fun a b => b.1 < a.1) ∧ ∀ a ∈ anc m rest, a.1 < m := by
  induction rest generalizing m with
  | nil => simp [anc]
  | cons x r ih =>
    obtain ⟨e, n⟩ := x
    by_cases h : e < m
    · obtain ⟨p, q⟩ := ih e
      rw [show anc m ((e, n) :: r) = (e, n) :: anc e r by simp [anc, h]]
      refine ⟨List.pairwise_cons.mpr ⟨fun a ha => q a ha, p⟩, ?_⟩
      intro a ha
      rcases List.mem_cons.mp ha with rfl | ha
      · exact h
      · exact Nat.lt_trans (q a ha) h
    · simp only [anc, h, if_false]
      exact ih m

/-- `anc` is "iterate `parent?`": the head is the nearest earlier line with a smaller
    indentation, the tail is the chain of that line. -/
theorem anc_eq_iterate_parent (m : Nat) (earlier : List (Nat × Str)) :
    anc m earlier =
      match earlier.dropWhile (fun p => !decide (p.1 < m)) with
      | [] => []
      | p :: rest => p :: anc p.1 rest := by
  induction earlier with
  | nil => simp [anc]
  | cons x r ih =>
    obtain ⟨e, n⟩ := x
    by_cases h : e < m
    · simp [anc, h]
    · simp only [anc, h, if_false, List.dropWhile_cons, decide_false, Bool.not_false, if_true]
      exact ih

theorem parent?_eq_head (m : Nat) (earlier : List (Nat × Str)) :
    parent? m earlier = (anc m earlier).head? := by
  induction earlier with
  | nil => simp [parent?, anc]
  | cons x r ih =>
    obtain ⟨e, n⟩ := x
    by_cases h : e < m
    · simp [parent?, anc, h]
    · simp only [parent?, anc, h, if_false, List.find?_cons, decide_false]
      exact ih

end SciVerif.C13
