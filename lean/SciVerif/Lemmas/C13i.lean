import SciVerif.Lemmas.C13h
/-!
Block grouping (`DIP._get_queue`) and the escape marks on block text.
-/
namespace SciVerif.C13

theorem takeBlock_append (cl : Str) (rest : List Str) (hcl : hasTriple cl = true) :
    ∀ (blk acc : List Str), (∀ l ∈ blk, hasTriple l = false) →
      takeBlock acc (blk ++ cl :: rest) = some (acc.reverse ++ blk, cl, rest) := by
  intro blk
  induction blk with
  | nil => intro acc _; simp [takeBlock, hcl]
  | cons l t ih =>
    intro acc h
    have hl : hasTriple l = false := h l (by simp)
    simp only [List.cons_append, takeBlock, hl, Bool.false_eq_true, if_false]
    rw [ih (l :: acc) (fun x hx => h x (List.mem_cons_of_mem _ hx))]
    simp

/-- a line without triple quote is queued as it is -/
theorem getQueue_plain (l : Str) (t : List Str) (hl : hasTriple l = false) :
    getQueue (l :: t) = (getQueue t).map (fun q => l :: q) := by
  rw [getQueue]
  simp only [hl, Bool.false_eq_true, if_false, bind, Except.bind]
  cases getQueue t <;> rfl

/-- a line containing `"""` swallows the following lines up to and including the next line
    containing `"""`: the queue gets ONE logical line — head line, the block lines joined by
    newlines, the closing line without its leading blanks — and grouping continues after it -/
theorem getQueue_block (hd cl : Str) (blk rest : List Str) (hhd : hasTriple hd = true)
    (hblk : ∀ l ∈ blk, hasTriple l = false) (hcl : hasTriple cl = true) :
    getQueue (hd :: (blk ++ cl :: rest)) =
      (getQueue rest).map (fun q => (hd ++ joinWith ['\n'] blk ++ lstrip cl) :: q) := by
  have htb := takeBlock_append cl rest hcl blk [] hblk
  simp only [List.reverse_nil, List.nil_append] at htb
  rw [getQueue]
  simp only [hhd, if_true]
  split
  · rename_i heq; rw [htb] at heq; cases heq
  · rename_i b c r heq
    rw [htb] at heq
    simp only [Option.some.injEq, Prod.mk.injEq] at heq
    obtain ⟨rfl, rfl, rfl⟩ := heq
    simp only [bind, Except.bind]
    cases getQueue rest <;> rfl

/-- an unterminated block makes `_get_queue` raise -/
theorem getQueue_unterminated (hd : Str) (blk : List Str) (hhd : hasTriple hd = true)
    (hblk : ∀ l ∈ blk, hasTriple l = false) : getQueue (hd :: blk) = .error .fail := by
  have htb : ∀ (b acc : List Str), (∀ l ∈ b, hasTriple l = false) → takeBlock acc b = none := by
    intro b
    induction b with
    | nil => intro acc _; rfl
    | cons l t ih =>
      intro acc h
      simp only [takeBlock, h l (by simp), Bool.false_eq_true, if_false]
      exact ih (l :: acc) (fun x hx => h x (List.mem_cons_of_mem _ hx))
  rw [getQueue]
  simp only [hhd, if_true]
  split
  · rfl
  · rename_i b c r heq; rw [htb blk [] hblk] at heq; cases heq


/-! ### escape marks on text that contains newlines -/

theorem replaceAll_step (pat rep : Str) (c : Char) (t : Str) (h : pat.isPrefixOf (c :: t) = false) :
    replaceAll pat rep (c :: t) = c :: replaceAll pat rep t := by
  rw [replaceAll]
  simp [h]

/-- newline → `$@02` -/
def encNL (s : Str) : Str := replaceAll ['\n'] enc2 s

theorem encNL_nil : encNL [] = [] := replaceAll_nil _ _

theorem encNL_nl (t : Str) : encNL ('\n' :: t) = '$' :: '@' :: '0' :: '2' :: encNL t := by
  simp only [encNL]
  rw [replaceAll]
  simp [List.isPrefixOf, enc2]

theorem encNL_cons (c : Char) (t : Str) (h : c ≠ '\n') : encNL (c :: t) = c :: encNL t := by
  simp only [encNL]
  exact replaceAll_head _ _ c (by simpa using Ne.symm h) t

theorem encode_noBackslash (s : Str) (h : ∀ c ∈ s, c ≠ '\\') : encode s = encNL s := by
  simp only [encode, encNL]
  rw [replaceAll_id _ _ '\\' rfl s h, replaceAll_id _ _ '\\' rfl s h]

theorem encNL_append (a b : Str) : encNL (a ++ b) = encNL a ++ encNL b := by
  induction a with
  | nil => simp [encNL_nil]
  | cons c t ih =>
    by_cases h : c = '\n'
    · subst h; simp [encNL_nl, ih]
    · simp [encNL_cons c _ h, ih]

theorem encNL_noNL (s : Str) (h : ∀ c ∈ s, c ≠ '\n') : encNL s = s :=
  replaceAll_id _ _ '\n' rfl s h

theorem encNL_chars (p : Char → Prop) (h1 : p '$') (h2 : p '@') (h3 : p '0') (h4 : p '2') :
    ∀ s : Str, (∀ c ∈ s, p c) → ∀ c ∈ encNL s, p c := by
  intro s
  induction s with
  | nil => intro _ c hc; rw [encNL_nil] at hc; cases hc
  | cons x t ih =>
    intro h c hc
    have iht := ih (fun y hy => h y (List.mem_cons_of_mem _ hy))
    by_cases hx : x = '\n'
    · subst hx
      rw [encNL_nl] at hc
      simp only [List.mem_cons] at hc
      rcases hc with rfl | rfl | rfl | rfl | hc
      · exact h1
      · exact h2
      · exact h3
      · exact h4
      · exact iht c hc
    · rw [encNL_cons x t hx] at hc
      rcases List.mem_cons.mp hc with hcx | hc
      · rw [hcx]; exact h x (by simp)
      · exact iht c hc

/-- the marks `$@00`, `$@01` do not occur in newline-marked text without `$` -/
theorem replaceAll_mark_encNL (d : Char) (hd : d ≠ '2') (rep : Str) :
    ∀ t : Str, (∀ c ∈ t, c ≠ '$') → replaceAll ['$', '@', '0', d] rep (encNL t) = encNL t := by
  intro t
  induction t with
  | nil => intro _; rw [encNL_nil]; exact replaceAll_nil _ _
  | cons x r ih =>
    intro h
    have ihr := ih (fun c hc => h c (List.mem_cons_of_mem _ hc))
    by_cases hx : x = '\n'
    · subst hx
      rw [encNL_nl]
      have hd' : (d == '2') = false := by simp [hd]
      rw [replaceAll_step _ _ '$' _ (by simp [List.isPrefixOf, hd']),
        replaceAll_head _ _ '@' (by simp), replaceAll_head _ _ '0' (by simp),
        replaceAll_head _ _ '2' (by simp), ihr]
    · rw [encNL_cons x r hx]
      have hx2 : x ≠ '$' := h x (by simp)
      rw [replaceAll_head _ _ x (by simpa using Ne.symm hx2), ihr]

theorem replaceAll_mark2_encNL : ∀ t : Str, (∀ c ∈ t, c ≠ '$') → replaceAll enc2 ['\n'] (encNL t) = t := by
  intro t
  induction t with
  | nil => intro _; rw [encNL_nil]; exact replaceAll_nil _ _
  | cons x r ih =>
    intro h
    have ihr := ih (fun c hc => h c (List.mem_cons_of_mem _ hc))
    by_cases hx : x = '\n'
    · subst hx
      rw [encNL_nl, replaceAll]
      have : (enc2.isPrefixOf ('$' :: '@' :: '0' :: '2' :: encNL r) && !enc2.isEmpty) = true := by
        simp [enc2, List.isPrefixOf]
      rw [if_pos this]
      have hdrop : ('$' :: '@' :: '0' :: '2' :: encNL r).drop enc2.length = encNL r := by
        have : enc2.length = 4 := by decide
        rw [this]; rfl
      rw [hdrop, ihr]
      rfl
    · rw [encNL_cons x r hx]
      have hx2 : x ≠ '$' := h x (by simp)
      have : enc2.head? ≠ some x := by
        have : enc2.head? = some '$' := by decide
        rw [this]; intro e; exact hx2 (Option.some.inj e).symm
      rw [replaceAll_head _ _ x this, ihr]

/-- the escape marks are undone: text without `$` and backslash comes back unchanged -/
theorem decode_encNL (t : Str) (h : ∀ c ∈ t, c ≠ '$') : decode (encNL t) = t := by
  simp only [decode]
  have e0 : enc0 = ['$', '@', '0', '0'] := by decide
  have e1 : enc1 = ['$', '@', '0', '1'] := by decide
  rw [e0, replaceAll_mark_encNL '0' (by decide) _ t h, e1, replaceAll_mark_encNL '1' (by decide) _ t h,
    replaceAll_mark2_encNL t h]


/-! ### a definition whose value is a triple-quoted block -/

theorem NoEsc_append {a b : Str} (ha : NoEsc a) (hb : NoEsc b) : NoEsc (a ++ b) := by
  intro c hc
  rcases List.mem_append.mp hc with h | h
  · exact ha c h
  · exact hb c h

theorem NoEsc_spaces (n : Nat) : NoEsc (List.replicate n ' ') := by
  intro c hc
  have := List.eq_of_mem_replicate hc
  subst this
  exact ⟨by decide, by decide⟩

theorem NoEsc_name (nm : Str) (h : NameOk nm) : NoEsc nm := by
  intro c hc
  have hn := h.2 c hc
  constructor <;> (intro e; rw [e] at hn; exact absurd hn (by decide))

theorem NoEsc_ty (t : TyD) : NoEsc t.render := by
  intro c hc
  cases t with
  | bool => simp [TyD.render] at hc; rcases hc with rfl | rfl | rfl <;> exact ⟨by decide, by decide⟩
  | str => simp [TyD.render] at hc; rcases hc with rfl | rfl | rfl <;> exact ⟨by decide, by decide⟩
  | int uns w =>
    cases uns <;> cases w with
    | none => simp [TyD.render] at hc; rcases hc with rfl | rfl | rfl | rfl <;> exact ⟨by decide, by decide⟩
    | some x =>
      cases x <;> simp [TyD.render, IntW.text] at hc <;>
        rcases hc with rfl | rfl | rfl | rfl | rfl | rfl <;> exact ⟨by decide, by decide⟩
  | float w =>
    cases w with
    | none => simp [TyD.render] at hc; rcases hc with rfl | rfl | rfl | rfl | rfl <;> exact ⟨by decide, by decide⟩
    | some x =>
      cases x <;> simp [TyD.render, FloatW.text] at hc <;>
        rcases hc with rfl | rfl | rfl | rfl | rfl | rfl | rfl | rfl <;> exact ⟨by decide, by decide⟩

theorem isDimCh_noEsc {c : Char} (h : isDimCh c = true) : c ≠ '\\' ∧ c ≠ '\n' := by
  constructor <;> (intro e; rw [e] at h; exact absurd h (by decide))

theorem NoEsc_dims (dims : Option (List DimD)) (h : DimsOk dims) : NoEsc (renderDims dims) := by
  cases dims with
  | none => intro c hc; cases hc
  | some ds =>
    intro c hc
    simp only [renderDims, List.mem_cons, List.mem_append, List.not_mem_nil, or_false] at hc
    rcases hc with rfl | hc | rfl
    · exact ⟨by decide, by decide⟩
    · apply isDimCh_noEsc
      refine joinWith_chars (fun c => isDimCh c = true) ',' (by decide) _ ?_ c hc
      intro x hx y hy
      obtain ⟨d, hd, rfl⟩ := List.mem_map.mp hx
      exact ((dimD_chars d (h.2 d hd)).1 y hy).1
    · exact ⟨by decide, by decide⟩

/-- a definition line up to (not including) its value -/
def definePrefix (nm : Str) (a : Nat) (ty : TyD) (dims : Option (List DimD)) (b c : Nat) : Str :=
  nm ++ (List.replicate (a + 1) ' ' ++ (ty.render ++ (renderDims dims ++
    (List.replicate b ' ' ++ '=' :: List.replicate c ' '))))

theorem define_render_prefix (nm : Str) (a : Nat) (ty : TyD) (dims : Option (List DimD)) (b c : Nat) (v : ValD) :
    (LineD.define nm a ty dims b c v).render = definePrefix nm a ty dims b c ++ v.render := by
  simp [LineD.render, definePrefix, List.append_assoc]

theorem NoEsc_definePrefix (nm : Str) (a : Nat) (ty : TyD) (dims : Option (List DimD)) (b c : Nat)
    (hn : NameOk nm) (hd : DimsOk dims) : NoEsc (definePrefix nm a ty dims b c) := by
  unfold definePrefix
  refine NoEsc_append (NoEsc_name nm hn) (NoEsc_append (NoEsc_spaces _) (NoEsc_append (NoEsc_ty ty)
    (NoEsc_append (NoEsc_dims dims hd) (NoEsc_append (NoEsc_spaces _) ?_))))
  intro x hx
  rcases List.mem_cons.mp hx with rfl | hx
  · exact ⟨by decide, by decide⟩
  · exact NoEsc_spaces c x hx

theorem hasTriple_suffix (b : Str) : ∀ a : Str, hasTriple (a ++ '"' :: '"' :: '"' :: b) = true := by
  intro a
  induction a with
  | nil => simp [hasTriple, List.isPrefixOf]
  | cons x t ih => simp [hasTriple, ih]

theorem hasTriple_noQuote : ∀ l : Str, (∀ c ∈ l, c ≠ '"') → hasTriple l = false := by
  intro l
  induction l with
  | nil => intro _; rfl
  | cons x t ih =>
    intro h
    have hx : x ≠ '"' := h x (by simp)
    simp [hasTriple, List.isPrefixOf, Ne.symm hx, ih (fun c hc => h c (List.mem_cons_of_mem _ hc))]

/-- the block text: what stands between the opening and the closing line -/
def blockText (blk : List Str) : Str := joinWith ['\n'] blk

/-- the node of a definition whose value is the block text -/
def blockNode (k : Nat) (nm : Str) (ty : TyD) (dims : Option (List DimD)) (text : Str) (unit : Option (Nat × Str)) : Node :=
  { kind := .typed ty.ty, indent := k, name := some nm, info := ty.info, dims := dimsValue dims, raw := some (.text text), units := unit.map Prod.snd }

/-- `_get_queue` + lexer on a definition with a triple-quoted block value: the head line
    `<indent>name type[dims] = """`, the block lines, and the closing line `<blanks>""" [unit] [# comment]`
    become ONE logical line, and that line is lexed to the definition node whose raw value is the
    block lines joined by newlines. -/
theorem block_value_roundtrip (k j : Nat) (nm : Str) (a : Nat) (ty : TyD) (dims : Option (List DimD)) (b c : Nat)
    (blk rest : List Str) (unit cm : Option (Nat × Str))
    (hn : NameOk nm) (hd : DimsOk dims) (hu : ∀ n x, unit = some (n, x) → UnitOk x)
    (htail : NoEsc (renderTail unit cm))
    (hblk : ∀ l ∈ blk, ∀ x ∈ l, x ≠ '"' ∧ x ≠ '\\' ∧ x ≠ '$') :
    let logical := List.replicate k ' ' ++ (definePrefix nm a ty dims b c ++
      ('"' :: '"' :: '"' :: (blockText blk ++ '"' :: '"' :: '"' :: renderTail unit cm)))
    getQueue ((List.replicate k ' ' ++ (definePrefix nm a ty dims b c ++ ['"', '"', '"'])) ::
        (blk ++ (List.replicate j ' ' ++ '"' :: '"' :: '"' :: renderTail unit cm) :: rest)) =
      (getQueue rest).map (fun q => logical :: q) ∧
    determine logical = .ok (blockNode k nm ty dims (blockText blk) unit) := by
  intro logical
  have htext : ∀ x ∈ blockText blk, x ≠ '"' ∧ x ≠ '\\' ∧ x ≠ '$' := by
    apply joinWith_chars (fun x => x ≠ '"' ∧ x ≠ '\\' ∧ x ≠ '$') '\n' ⟨by decide, by decide, by decide⟩
    exact hblk
  constructor
  · have h1 : hasTriple (List.replicate k ' ' ++ (definePrefix nm a ty dims b c ++ ['"', '"', '"'])) = true := by
      have := hasTriple_suffix [] (List.replicate k ' ' ++ definePrefix nm a ty dims b c)
      simpa [List.append_assoc] using this
    have h2 : hasTriple (List.replicate j ' ' ++ '"' :: '"' :: '"' :: renderTail unit cm) = true :=
      hasTriple_suffix _ _
    have h3 : ∀ l ∈ blk, hasTriple l = false := fun l hl => hasTriple_noQuote l (fun x hx => (hblk l hl x hx).1)
    rw [getQueue_block _ _ blk rest h1 h3 h2]
    have hls : lstrip (List.replicate j ' ' ++ '"' :: '"' :: '"' :: renderTail unit cm) =
        '"' :: '"' :: '"' :: renderTail unit cm := dropWs_spaces_cons j '"' _ (by decide)
    rw [hls]
    have : (List.replicate k ' ' ++ (definePrefix nm a ty dims b c ++ ['"', '"', '"']) ++ joinWith ['\n'] blk ++
        '"' :: '"' :: '"' :: renderTail unit cm) = logical := by
      simp [logical, blockText, List.append_assoc]
    rw [this]
  · let v : ValD := { lit := .tq (encNL (blockText blk)), unit := unit, cm := cm }
    let d : LineD := .define nm a ty dims b c v
    have hvok : v.Ok := by
      refine ⟨?_, hu⟩
      show ∀ x ∈ encNL (blockText blk), x ≠ '"'
      exact encNL_chars (fun x => x ≠ '"') (by decide) (by decide) (by decide) (by decide) _
        (fun x hx => (htext x hx).1)
    have hdok : d.Ok := ⟨hn, hd, hvok⟩
    have hpre := NoEsc_definePrefix nm a ty dims b c hn hd
    let line : Str := definePrefix nm a ty dims b c ++
      ('"' :: '"' :: '"' :: (blockText blk ++ '"' :: '"' :: '"' :: renderTail unit cm))
    have hnb : ∀ x ∈ line, x ≠ '\\' := by
      intro x hx
      simp only [line, List.mem_append, List.mem_cons] at hx
      rcases hx with h | rfl | rfl | rfl | h | rfl | rfl | rfl | h
      · exact (hpre x h).1
      all_goals first
        | decide
        | exact (htext x h).2.1
        | exact (htail x h).1
    have henc : encode line = d.render := by
      rw [encode_noBackslash line hnb, define_render_prefix]
      have q3nl : encNL ['"', '"', '"'] = ['"', '"', '"'] := encNL_noNL _ (by decide)
      have e : line = definePrefix nm a ty dims b c ++ (['"', '"', '"'] ++ (blockText blk ++
          (['"', '"', '"'] ++ renderTail unit cm))) := by simp [line]
      rw [e, encNL_append, encNL_append, encNL_append, encNL_append, q3nl,
        encNL_noNL _ (fun x hx => (hpre x hx).2), encNL_noNL _ (fun x hx => (htail x hx).2)]
      simp [ValD.render, Lit.render, v, List.append_assoc]
    have := determine_render_enc k line d hdok henc
    rw [show logical = List.replicate k ' ' ++ line from rfl, this]
    simp only [d, LineD.node, v, Lit.text, decode_encNL _ (fun x hx => (htext x hx).2.2), blockNode]

end SciVerif.C13
