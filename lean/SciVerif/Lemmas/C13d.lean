import SciVerif.Lemmas.C13c
/-!
Scanner lemmas for the literal round trip (C13): each `part_*` scanner consumes exactly the
rendered field and leaves the rest.
-/
namespace SciVerif.C13

/-! ### generic list facts -/

theorem takeWhile_append_of_all {p : Char → Bool} (a b : Str) (ha : ∀ c ∈ a, p c = true)
    (hb : b = [] ∨ ∃ c r, b = c :: r ∧ p c = false) : (a ++ b).takeWhile p = a := by
  induction a with
  | nil =>
    rcases hb with rfl | ⟨c, r, rfl, hc⟩
    · rfl
    · simp [List.takeWhile_cons, hc]
  | cons x t ih =>
    have hx : p x = true := ha x (by simp)
    simp only [List.cons_append, List.takeWhile_cons, hx, if_true]
    rw [ih (fun c hc => ha c (List.mem_cons_of_mem _ hc))]

theorem dropWhile_append_of_all {p : Char → Bool} (a b : Str) (ha : ∀ c ∈ a, p c = true)
    (hb : b = [] ∨ ∃ c r, b = c :: r ∧ p c = false) : (a ++ b).dropWhile p = b := by
  induction a with
  | nil =>
    rcases hb with rfl | ⟨c, r, rfl, hc⟩
    · rfl
    · simp [List.dropWhile_cons, hc]
  | cons x t ih =>
    have hx : p x = true := ha x (by simp)
    simp only [List.cons_append, List.dropWhile_cons, hx, if_true]
    exact ih (fun c hc => ha c (List.mem_cons_of_mem _ hc))

theorem dropWs_spaces_cons (k : Nat) (c : Char) (r : Str) (hc : isWs c = false) :
    dropWs (List.replicate k ' ' ++ c :: r) = c :: r := by
  simp only [dropWs]
  rw [dropWhile_spaces]
  simp [List.dropWhile_cons, hc]

theorem dropWs_spaces_nil (k : Nat) : dropWs (List.replicate k ' ') = [] := by
  have := dropWhile_spaces k []
  simpa [dropWs] using this

theorem dropWs_cons (c : Char) (r : Str) (hc : isWs c = false) : dropWs (c :: r) = c :: r := by
  simp [dropWs, List.dropWhile_cons, hc]

/-! ### escape marks: text without backslash / newline / `$` is left alone -/

theorem replaceAll_nil (pat rep : Str) : replaceAll pat rep [] = [] := by
  rw [replaceAll]

theorem replaceAll_id (pat rep : Str) (c0 : Char) (hp : pat.head? = some c0) :
    ∀ s : Str, (∀ c ∈ s, c ≠ c0) → replaceAll pat rep s = s := by
  intro s
  induction s with
  | nil => intro _; exact replaceAll_nil pat rep
  | cons x t ih =>
    intro h
    have hx : x ≠ c0 := h x (by simp)
    rw [replaceAll_head pat rep x (by rw [hp]; intro e; exact hx (Option.some.inj e).symm)]
    rw [ih (fun c hc => h c (List.mem_cons_of_mem _ hc))]

/-- no backslash and no newline -/
def NoEsc (s : Str) : Prop := ∀ c ∈ s, c ≠ '\\' ∧ c ≠ '\n'

theorem encode_noEsc (s : Str) (h : NoEsc s) : encode s = s := by
  simp only [encode]
  rw [replaceAll_id _ _ '\\' rfl s (fun c hc => (h c hc).1),
    replaceAll_id _ _ '\\' rfl s (fun c hc => (h c hc).1),
    replaceAll_id _ _ '\n' rfl s (fun c hc => (h c hc).2)]

theorem decode_noDollar (s : Str) (h : ∀ c ∈ s, c ≠ '$') : decode s = s := by
  simp only [decode]
  rw [replaceAll_id _ _ '$' rfl s h, replaceAll_id _ _ '$' rfl s h, replaceAll_id _ _ '$' rfl s h]

/-! ### units and trailing comment -/

/-- a unit as written: non-empty, `[^\s#=]+`, not starting with an arithmetic sign -/
def UnitOk (x : Str) : Prop :=
  (∃ c r, x = c :: r ∧ c ≠ '/' ∧ c ≠ '*' ∧ c ≠ '+' ∧ c ≠ '-') ∧ ∀ c ∈ x, isUnitCh c = true

/-- optional trailing comment: `n` blanks, `#`, any text -/
def renderComment : Option (Nat × Str) → Str
  | some (n, c) => List.replicate n ' ' ++ '#' :: c
  | none => []

/-- optional unit (`n+1` blanks, unit) followed by the optional comment -/
def renderTail (u : Option (Nat × Str)) (cm : Option (Nat × Str)) : Str :=
  (match u with | some (n, x) => List.replicate (n + 1) ' ' ++ x | none => []) ++ renderComment cm

theorem endOrComment_comment (cm : Option (Nat × Str)) : endOrComment (renderComment cm) = true := by
  cases cm with
  | none => rfl
  | some p =>
    obtain ⟨n, c⟩ := p
    simp only [renderComment, endOrComment]
    rw [dropWs_spaces_cons n '#' c (by decide)]
    rfl

theorem comment_head (cm : Option (Nat × Str)) :
    renderComment cm = [] ∨ ∃ c r, renderComment cm = c :: r ∧ (c = ' ' ∨ c = '#') := by
  cases cm with
  | none => exact .inl rfl
  | some p =>
    obtain ⟨n, c⟩ := p
    right
    cases n with
    | zero => exact ⟨'#', c, rfl, .inr rfl⟩
    | succ m => exact ⟨' ', List.replicate m ' ' ++ '#' :: c, by simp [renderComment, List.replicate_succ], .inl rfl⟩

theorem comment_head_notUnit (cm : Option (Nat × Str)) :
    renderComment cm = [] ∨ ∃ c r, renderComment cm = c :: r ∧ isUnitCh c = false := by
  rcases comment_head cm with h | ⟨c, r, h, hc⟩
  · exact .inl h
  · exact .inr ⟨c, r, h, by rcases hc with rfl | rfl <;> decide⟩

theorem partUnits_comment (cm : Option (Nat × Str)) :
    partUnits (renderComment cm) = (none, renderComment cm) := by
  cases cm with
  | none => rfl
  | some p =>
    obtain ⟨n, c⟩ := p
    cases n with
    | zero => simp [renderComment, partUnits, isWs]
    | succ m =>
      have hr : renderComment (some (m + 1, c)) = ' ' :: (List.replicate m ' ' ++ '#' :: c) := by
        simp [renderComment, List.replicate_succ]
      rw [hr]
      have hd : dropWs (' ' :: (List.replicate m ' ' ++ '#' :: c)) = '#' :: c := by
        have := dropWs_spaces_cons (m + 1) '#' c (by decide)
        simpa [List.replicate_succ] using this
      simp only [partUnits, hd]
      simp [isWs, isUnitCh]

theorem partUnits_unit (n : Nat) (x : Str) (hx : UnitOk x) (cm : Option (Nat × Str)) :
    partUnits (renderTail (some (n, x)) cm) = (some x, renderComment cm) := by
  obtain ⟨⟨c, r, rfl, h1, h2, h3, h4⟩, hall⟩ := hx
  have hcu : isUnitCh c = true := hall c (by simp)
  have hcw : isWs c = false := by
    simp only [isUnitCh, Bool.and_eq_true, Bool.not_eq_eq_eq_not, Bool.not_true] at hcu
    exact hcu.1.1
  have hr : renderTail (some (n, c :: r)) cm = ' ' :: (List.replicate n ' ' ++ (c :: r ++ renderComment cm)) := by
    simp [renderTail, List.replicate_succ]
  rw [hr]
  have hd : dropWs (' ' :: (List.replicate n ' ' ++ (c :: r ++ renderComment cm))) = c :: (r ++ renderComment cm) := by
    have := dropWs_spaces_cons (n + 1) c (r ++ renderComment cm) hcw
    simpa [List.replicate_succ] using this
  have htw : ((c :: r) ++ renderComment cm).takeWhile isUnitCh = c :: r :=
    takeWhile_append_of_all (c :: r) _ hall (comment_head_notUnit cm)
  have hdw : ((c :: r) ++ renderComment cm).dropWhile isUnitCh = renderComment cm :=
    dropWhile_append_of_all (c :: r) _ hall (comment_head_notUnit cm)
  simp only [partUnits, hd]
  have e1 : (c == '/' || c == '*' || c == '+' || c == '-') = false := by simp [h1, h2, h3, h4]
  simp only [isWs, beq_self_eq_true, Bool.true_or, if_true, e1, Bool.false_eq_true, if_false]
  have htw' : (c :: (r ++ renderComment cm)).takeWhile isUnitCh = c :: r := htw
  have hdw' : (c :: (r ++ renderComment cm)).dropWhile isUnitCh = renderComment cm := hdw
  rw [htw', hdw']
  rfl

theorem tailOk_tail (u : Option (Nat × Str)) (cm : Option (Nat × Str)) (hu : ∀ n x, u = some (n, x) → UnitOk x) :
    tailOk (renderTail u cm) = true := by
  cases u with
  | none =>
    simp only [renderTail, List.nil_append, tailOk, endOrComment_comment, Bool.true_or]
  | some p =>
    obtain ⟨n, x⟩ := p
    have hx := hu n x rfl
    obtain ⟨⟨c, r, rfl, _⟩, hall⟩ := hx
    have hcu : isUnitCh c = true := hall c (by simp)
    have hcw : isWs c = false := by
      simp only [isUnitCh, Bool.and_eq_true, Bool.not_eq_eq_eq_not, Bool.not_true] at hcu
      exact hcu.1.1
    have hr : renderTail (some (n, c :: r)) cm = ' ' :: (List.replicate n ' ' ++ (c :: r ++ renderComment cm)) := by
      simp [renderTail, List.replicate_succ]
    have hd : dropWs (' ' :: (List.replicate n ' ' ++ (c :: r ++ renderComment cm))) = (c :: r) ++ renderComment cm := by
      have := dropWs_spaces_cons (n + 1) c (r ++ renderComment cm) hcw
      simpa [List.replicate_succ] using this
    rw [hr]
    simp only [tailOk, hd]
    rw [takeWhile_append_of_all (c :: r) _ hall (comment_head_notUnit cm),
      dropWhile_append_of_all (c :: r) _ hall (comment_head_notUnit cm), endOrComment_comment]
    simp [isWs]

theorem tail_head (u : Option (Nat × Str)) (cm : Option (Nat × Str)) :
    renderTail u cm = [] ∨ ∃ c r, renderTail u cm = c :: r ∧ (c = ' ' ∨ c = '#') := by
  cases u with
  | none => simpa [renderTail] using comment_head cm
  | some p =>
    obtain ⟨n, x⟩ := p
    exact .inr ⟨' ', List.replicate n ' ' ++ x ++ renderComment cm, by simp [renderTail, List.replicate_succ], .inl rfl⟩

end SciVerif.C13
