import SciVerif.Lemmas.C15b

/-! C15, arbitrary line sequences: the stack of open branches mirrors the declarative
    "latest line indented no deeper than `k`" description (`specOpenAt`), hence every
    misplaced clause line makes the machine fail. -/
namespace SciVerif.C15

/-- Indents strictly increase towards the top of the stack. -/
def SortedSt : List Branch → Prop
  | [] => True
  | b :: bs => Below b.cur.indent bs ∧ SortedSt bs

theorem sortedSt_closeGE (k : Nat) {st : List Branch} (h : SortedSt st) : SortedSt (closeGE k st) := by
  induction st with
  | nil => exact h
  | cons b bs ih =>
    by_cases hk : k ≤ b.cur.indent
    · simpa [closeGE, hk] using ih h.2
    · simpa [closeGE, hk] using h

/-- The current clause of the branch open at exactly indent `k` (after closing everything deeper). -/
def openTop (k : Nat) (st : List Branch) : Option Case :=
  match closeGE (k + 1) st with
  | b :: _ => if b.cur.indent = k then some b.cur else none
  | [] => none

theorem openTop_closeGE (k i : Nat) (st : List Branch) :
    openTop k (closeGE i st) = if i ≤ k then none else openTop k st := by
  by_cases h : i ≤ k
  · simp only [h, if_true]
    have hb : Below (k + 1) (closeGE i st) := (closeGE_below i st).mono (by omega)
    unfold openTop
    rw [closeGE_of_below hb]
    cases hx : closeGE i st with
    | nil => rfl
    | cons b bs =>
      have := closeGE_below i st b (by rw [hx]; rfl)
      have hne : ¬ b.cur.indent = k := by omega
      simp [hne]
  · simp only [h, if_false]
    unfold openTop
    rw [closeGE_closeGE_le (by omega)]

theorem openTop_push (k i : Nat) (b : Branch) (X : List Branch) (hi : b.cur.indent = i) :
    openTop k (b :: X) = if i ≤ k then (if i = k then some b.cur else none) else openTop k X := by
  subst hi
  by_cases h : b.cur.indent ≤ k
  · have h1 : ¬ k + 1 ≤ b.cur.indent := by omega
    simp [openTop, closeGE, h1, h]
  · have h1 : k + 1 ≤ b.cur.indent := by omega
    simp [openTop, closeGE, h1, h]

theorem openTop_below (k i : Nat) (X : List Branch) (hX : Below i X) (h : i ≤ k) : openTop k X = none := by
  unfold openTop
  rw [closeGE_of_below (hX.mono (by omega))]
  cases X with
  | nil => rfl
  | cons b bs =>
    have := hX b rfl
    have hne : ¬ b.cur.indent = k := by omega
    simp [hne]

theorem openTop_some {i : Nat} {st : List Branch} {c : Case} (h : openTop i st = some c) :
    ∃ b bs, closeGE (i + 1) st = b :: bs ∧ b.cur.indent = i ∧ b.cur = c := by
  unfold openTop at h
  cases hc : closeGE (i + 1) st with
  | nil => simp [hc] at h
  | cons b bs =>
    simp only [hc] at h
    by_cases hi : b.cur.indent = i
    · simp only [hi, if_true, Option.some.injEq] at h
      exact ⟨b, bs, rfl, hi, h⟩
    · simp [hi] at h

theorem openTop_of_top {i : Nat} {st : List Branch} {b : Branch} {bs : List Branch}
    (h : closeGE (i + 1) st = b :: bs) (hi : b.cur.indent = i) : openTop i st = some b.cur := by
  simp [openTop, h, hi]

/-- `same_branch = False`: everything indented at least like the clause was closed. -/
theorem closeFor_false {i : Nat} {p : List Comp} {st : List Branch} (h : (closeFor i p st).2 = false) :
    (closeFor i p st).1 = closeGE i st := by
  induction st with
  | nil => rfl
  | cons b bs ih =>
    by_cases h1 : b.cur.indent < i
    · have : ¬ i ≤ b.cur.indent := by omega
      simp [closeFor, h1, closeGE, this]
    · by_cases h2 : b.cur.indent = i ∧ b.cur.path = p
      · simp [closeFor, h2] at h
      · have : i ≤ b.cur.indent := by omega
        simp only [closeFor, h1, h2, if_false] at h ⊢
        simp [closeGE, this, ih h]

/-- `same_branch = True`: after closing everything deeper, a branch of exactly this indent
    and path is on top. -/
theorem closeFor_true {i : Nat} {p : List Comp} {st : List Branch} (hs : SortedSt st)
    (h : (closeFor i p st).2 = true) :
    ∃ b bs, closeGE (i + 1) st = b :: bs ∧ b.cur.indent = i ∧ b.cur.path = p ∧ (closeFor i p st).1 = b :: bs := by
  induction st with
  | nil => simp [closeFor] at h
  | cons b bs ih =>
    by_cases h1 : b.cur.indent < i
    · simp [closeFor, h1] at h
    · by_cases h2 : b.cur.indent = i ∧ b.cur.path = p
      · have : ¬ i + 1 ≤ b.cur.indent := by omega
        exact ⟨b, bs, by simp [closeGE, this], h2.1, h2.2, by simp [closeFor, h2]⟩
      · simp only [closeFor, h1, h2, if_false] at h ⊢
        by_cases h3 : i + 1 ≤ b.cur.indent
        · obtain ⟨b', bs', e1, e2, e3, e4⟩ := ih hs.2 h
          exact ⟨b', bs', by simp [closeGE, h3, e1], e2, e3, e4⟩
        · -- a branch of this indent but another path: nothing of this indent below it
          exfalso
          have hbi : b.cur.indent = i := by omega
          have hbel : Below i bs := hbi ▸ hs.1
          cases bs with
          | nil => simp [closeFor] at h
          | cons c cs =>
            have := hbel c rfl
            simp [closeFor, this] at h

theorem mem_closeGE {k : Nat} {st : List Branch} {b : Branch} (h : b ∈ closeGE k st) : b ∈ st := by
  induction st with
  | nil => simp [closeGE] at h
  | cons c cs ih =>
    by_cases hk : k ≤ c.cur.indent
    · simp only [closeGE, hk, if_true] at h
      exact List.mem_cons_of_mem _ (ih h)
    · simpa [closeGE, hk] using h

/-- What a clause line does to the stack, in one of three shapes. -/
inductive Effect (i : Nat) (path : List Comp) (st : List Branch) : Kw → List Branch → Prop
  | push (c : Bool) (nb : Branch) (X : List Branch) (hi : nb.cur.indent = i) (ht : nb.cur.ctype = .case)
      (hX : Below i X) (hs : SortedSt X) (hk : ∀ k, k < i → openTop k X = openTop k st)
      (hp : nb.cur.path = path) :
      Effect i path st (.case c) (nb :: X)
  | pushElse (nb : Branch) (X : List Branch) (hi : nb.cur.indent = i) (ht : nb.cur.ctype = .els)
      (hX : Below i X) (hs : SortedSt X) (hk : ∀ k, k < i → openTop k X = openTop k st)
      (ho : ∃ c0, openTop i st = some c0 ∧ c0.ctype = .case ∧ c0.path = path) (hp : nb.cur.path = path) :
      Effect i path st .els (nb :: X)
  | pop (X : List Branch) (hX : Below i X) (hs : SortedSt X)
      (hk : ∀ k, k < i → openTop k X = openTop k st)
      (ho : ∃ c0, openTop i st = some c0 ∧ c0.path = path) :
      Effect i path st .fin X

theorem openTop_tail {i k : Nat} {st : List Branch} {b : Branch} {bs : List Branch}
    (h : closeGE (i + 1) st = b :: bs) (hi : b.cur.indent = i) (hk : k < i) :
    openTop k bs = openTop k st := by
  have h1 := openTop_closeGE k (i + 1) st
  have h2 : ¬ i + 1 ≤ k := by omega
  simp only [h2, if_false] at h1
  rw [← h1, h, openTop_push k i b bs hi]
  have : ¬ i ≤ k := by omega
  simp [this]

theorem solveCase_effect {s s' : St} {ps : List (Nat × List Comp)} {i : Nat} {kw : Kw}
    (hs : SortedSt s.state) (h : solveCase s ps i kw = .ok s') :
    Effect i (fullName ps).dropLast s.state kw s'.state ∧ s'.parents = ps := by
  unfold solveCase at h
  simp only [] at h
  cases hr : closeFor i (fullName ps).dropLast s.state with
  | mk X same =>
  rw [hr] at h
  simp only at h
  cases same with
  | false =>
    have hX : X = closeGE i s.state := by
      have := closeFor_false (i := i) (p := (fullName ps).dropLast) (st := s.state) (by rw [hr])
      rw [hr] at this; exact this
    have hk : ∀ k, k < i → openTop k X = openTop k s.state := by
      intro k hk
      rw [hX, openTop_closeGE]
      have : ¬ i ≤ k := by omega
      simp [this]
    cases kw with
    | case c =>
      simp only [Bool.false_and, Bool.false_eq_true, if_false, Except.ok.injEq] at h
      subst h
      exact ⟨.push c _ X rfl rfl (hX ▸ closeGE_below i s.state) (hX ▸ sortedSt_closeGE i hs) hk rfl, rfl⟩
    | els => simp at h
    | fin => simp at h
    | group => simp at h
    | node m v => simp at h
    | prop p => simp at h
    | imp nd => simp at h
    | unit b => simp at h
  | true =>
    obtain ⟨b, bs, e1, e2, e3, e4⟩ := closeFor_true (i := i) (p := (fullName ps).dropLast) hs (by rw [hr])
    rw [hr] at e4
    simp only at e4
    subst e4
    have hsort : SortedSt (b :: bs) := e1 ▸ sortedSt_closeGE (i + 1) hs
    have hbel : Below i bs := e2 ▸ hsort.1
    have hk : ∀ k, k < i → openTop k bs = openTop k s.state := fun k hk => openTop_tail e1 e2 hk
    have hopen := openTop_of_top e1 e2
    cases kw with
    | case c =>
      by_cases hel : topIsElse (b :: bs) = true
      · simp [hel] at h
      · simp only [Bool.true_and, hel, Bool.false_eq_true, if_false, if_true, switchCase,
          Except.ok.injEq] at h
        subst h
        exact ⟨.push c _ bs rfl rfl hbel hsort.2 hk rfl, rfl⟩
    | els =>
      by_cases hel : topIsElse (b :: bs) = true
      · simp [hel] at h
      · have hc : b.cur.ctype = .case := by
          cases hct : b.cur.ctype with
          | case => rfl
          | els => simp [topIsElse, hct] at hel
        simp only [Bool.not_eq_true] at hel
        simp only [Bool.true_and, hel, Bool.not_false, if_true, switchCase, Except.ok.injEq] at h
        subst h
        exact ⟨.pushElse _ bs rfl rfl hbel hsort.2 hk ⟨b.cur, hopen, hc, e3⟩ rfl, rfl⟩
    | fin =>
      simp only [if_true, List.tail_cons, Except.ok.injEq] at h
      subst h
      exact ⟨.pop bs hbel hsort.2 hk ⟨b.cur, hopen, e3⟩, rfl⟩
    | group => simp at h
    | node m v => simp at h
    | prop p => simp at h
    | imp nd => simp at h
    | unit b => simp at h

/-! ## the specification side -/

theorem lastAtMost_snoc (k : Nat) (before : List Line) (l : Line) :
    lastAtMost k (before ++ [l]) = if l.indent ≤ k then some l else lastAtMost k before := by
  simp only [lastAtMost, List.reverse_append, List.reverse_cons, List.reverse_nil, List.nil_append,
    List.singleton_append, List.find?_cons]
  by_cases h : l.indent ≤ k <;> simp [h]

def clauseInfo (l : Line) : Option (CType × List String) :=
  match l.kw with
  | .case _ => some (.case, l.name)
  | .els => some (.els, l.name)
  | _ => none

theorem specOpenAt_snoc (k : Nat) (before : List Line) (l : Line) :
    specOpenAt k (before ++ [l]) =
      if l.indent ≤ k then (if l.indent = k then clauseInfo l else none) else specOpenAt k before := by
  unfold specOpenAt
  rw [lastAtMost_snoc]
  by_cases h : l.indent ≤ k
  · simp only [h, if_true]
    by_cases h2 : l.indent = k
    · simp only [h2, if_true, clauseInfo]; cases l.kw <;> rfl
    · simp [h2]
  · simp [h]

/-- The declared open clause (type, written parent) and the machine's open clause agree;
    `P` = hierarchical name in front of the written parent. -/
def Matches (P : List Comp) : Option (CType × List String) → Option Case → Prop
  | none, o => o = none
  | some (t, q), o => ∃ c, o = some c ∧ c.ctype = t ∧ c.path = P ++ nms q

theorem popGE_register_le {j i : Nat} (h : j ≤ i) (ps : List (Nat × List Comp)) (c : List Comp) :
    popGE j (register ps i c) = popGE j ps := by
  simp [register, popGE, h, popGE_popGE_le h]

/-- The machine's stack agrees with the declarative description of the history. -/
structure Inv (before : List Line) (s : St) : Prop where
  sorted : SortedSt s.state
  agree : ∀ k, Matches (fullName (popGE k s.parents)) (specOpenAt k before) (openTop k s.state)

theorem inv_init : Inv [] St.init :=
  ⟨trivial, fun k => by simp [openTop, St.init, closeGE, specOpenAt, lastAtMost, Matches]⟩

theorem inv_step {before : List Line} {s s' : St} {l : Line} {o : List Eff} (hinv : Inv before s)
    (h : step s l = .ok (s', o)) : Inv (before ++ [l]) s' := by
  obtain ⟨i, x, kw⟩ := l
  have plain : ∀ s'', s''.state = closeGE i s.state →
      (∀ k, k < i → popGE k s''.parents = popGE k s.parents) →
      clauseInfo ⟨i, x, kw⟩ = none → Inv (before ++ [⟨i, x, kw⟩]) s'' := by
    intro s'' hst hpar hct
    refine ⟨hst ▸ sortedSt_closeGE i hinv.sorted, fun k => ?_⟩
    rw [hst, openTop_closeGE, specOpenAt_snoc]
    by_cases h1 : i ≤ k
    · simp [h1, hct, Matches]
    · simp only [h1, if_false]
      rw [hpar k (by omega)]
      exact hinv.agree k
  have clause : ∀ s1 n kw', solveCase s1 (register s.parents i (nms x ++ [.cs n])) i kw' = .ok s' →
      s1.state = s.state → clauseInfo ⟨i, x, kw'⟩ = clauseInfo ⟨i, x, kw⟩ →
      Inv (before ++ [⟨i, x, kw⟩]) s' := by
    intro s1 n kw' hsol hst hci
    obtain ⟨eff, hpar⟩ := solveCase_effect (hst ▸ hinv.sorted) hsol
    rw [hst] at eff
    have hpath : (fullName (register s.parents i (nms x ++ [.cs n]))).dropLast
        = fullName (popGE i s'.parents) ++ nms x := by
      rw [hpar, popGE_register_le (Nat.le_refl i)]
      simp [register, path_cons]
    have hlow : ∀ k, k < i → popGE k s'.parents = popGE k s.parents := by
      intro k hk
      rw [hpar, popGE_register_le (by omega)]
    -- the three shapes share the treatment of the levels below and above `i`
    have low : ∀ (T X : List Branch), s'.state = T → (∀ k, k < i → openTop k T = openTop k X) →
        (∀ k, k < i → openTop k X = openTop k s.state) → ∀ k, ¬ i ≤ k →
        Matches (fullName (popGE k s'.parents)) (specOpenAt k (before ++ [⟨i, x, kw⟩])) (openTop k s'.state) := by
      intro T X hT h1 h2 k hk
      rw [specOpenAt_snoc]
      simp only [hk, if_false]
      rw [hT, h1 k (by omega), h2 k (by omega), hlow k (by omega)]
      exact hinv.agree k
    generalize hT : s'.state = T at eff
    cases eff with
    | push c nb X hi ht hX hs hk hp =>
      refine ⟨hT ▸ ⟨hi ▸ hX, hs⟩, fun k => ?_⟩
      by_cases h1 : i ≤ k
      · rw [hT, openTop_push k i nb X hi, specOpenAt_snoc, ← hci]
        by_cases h2 : i = k
        · subst h2
          simp only [Nat.le_refl, if_true, clauseInfo, Matches]
          exact ⟨nb.cur, rfl, ht, by rw [hp, hpath]⟩
        · simp [h1, h2, Matches]
      · exact low _ X hT (fun k hk => by rw [openTop_push k i nb X hi]; simp [Nat.not_le.mpr hk]) hk k h1
    | pushElse nb X hi ht hX hs hk _ hp =>
      refine ⟨hT ▸ ⟨hi ▸ hX, hs⟩, fun k => ?_⟩
      by_cases h1 : i ≤ k
      · rw [hT, openTop_push k i nb X hi, specOpenAt_snoc, ← hci]
        by_cases h2 : i = k
        · subst h2
          simp only [Nat.le_refl, if_true, clauseInfo, Matches]
          exact ⟨nb.cur, rfl, ht, by rw [hp, hpath]⟩
        · simp [h1, h2, Matches]
      · exact low _ X hT (fun k hk => by rw [openTop_push k i nb X hi]; simp [Nat.not_le.mpr hk]) hk k h1
    | pop X hX hs hk _ =>
      refine ⟨hT ▸ hs, fun k => ?_⟩
      by_cases h1 : i ≤ k
      · rw [hT, specOpenAt_snoc, ← hci, openTop_below k i _ hX h1]
        by_cases h2 : i = k <;> simp [h1, h2, clauseInfo, Matches]
      · exact low _ _ hT (fun k _ => rfl) hk k h1
  cases kw with
  | group =>
    simp only [step, Except.ok.injEq, Prod.mk.injEq] at h
    exact plain s' (by rw [← h.1]) (fun k hk => by rw [← h.1]; exact popGE_register_le (by omega) _ _) rfl
  | prop p =>
    simp only [step, Except.ok.injEq, Prod.mk.injEq] at h
    exact plain s' (by rw [← h.1]) (fun k _ => by rw [← h.1]) rfl
  | unit b =>
    simp only [step, Except.ok.injEq, Prod.mk.injEq] at h
    exact plain s' (by rw [← h.1]) (fun k _ => by rw [← h.1]) rfl
  | imp nd =>
    simp only [step, Except.ok.injEq, Prod.mk.injEq] at h
    exact plain s' (by rw [← h.1]) (fun k hk => by rw [← h.1]; exact popGE_register_le (by omega) _ _) rfl
  | node m v =>
    simp only [step] at h
    by_cases hf : falseCase (closeGE i s.state) = true
    · simp only [hf, if_true, Except.ok.injEq, Prod.mk.injEq] at h
      exact plain s' (by rw [← h.1]) (fun k hk => by rw [← h.1]; exact popGE_register_le (by omega) _ _) rfl
    · simp only [hf, Bool.false_eq_true, if_false, Except.ok.injEq, Prod.mk.injEq] at h
      exact plain s' (by rw [← h.1]; simp [closeGE_closeGE_le (Nat.le_refl i)])
        (fun k hk => by rw [← h.1]; exact popGE_register_le (by omega) _ _) rfl
  | case c =>
    simp only [step] at h
    cases hsol : solveCase { s with numCases := s.numCases + 1 }
        (register s.parents i (nms x ++ [.cs (s.numCases + 1)])) i
        (.case (c && !falseCase (closeGE i s.state))) with
    | error e => simp [hsol] at h
    | ok s2 =>
      simp only [hsol, Except.ok.injEq, Prod.mk.injEq] at h
      exact clause { s with numCases := s.numCases + 1 } _ (.case (c && !falseCase (closeGE i s.state)))
        (h.1 ▸ hsol) rfl rfl
  | els =>
    simp only [step] at h
    cases hsol : solveCase { s with numCases := s.numCases + 1 }
        (register s.parents i (nms x ++ [.cs (s.numCases + 1)])) i .els with
    | error e => simp [hsol] at h
    | ok s2 =>
      simp only [hsol, Except.ok.injEq, Prod.mk.injEq] at h
      exact clause { s with numCases := s.numCases + 1 } _ _ (h.1 ▸ hsol) rfl rfl
  | fin =>
    simp only [step] at h
    cases hsol : solveCase { s with numCases := s.numCases + 1 }
        (register s.parents i (nms x ++ [.cs (s.numCases + 1)])) i .fin with
    | error e => simp [hsol] at h
    | ok s2 =>
      simp only [hsol, Except.ok.injEq, Prod.mk.injEq] at h
      exact clause { s with numCases := s.numCases + 1 } _ _ (h.1 ▸ hsol) rfl rfl

/-- A `@case`/`@else` continuing a block whose current clause is `@else` is refused. -/
theorem step_after_else (s : St) (k : Nat) (x : List String) (blk : Branch) (B : List Branch)
    (kw : Kw) (hkw : kw = .els ∨ ∃ c, kw = .case c)
    (hB : closeGE (k + 1) s.state = blk :: B) (hi : blk.cur.indent = k)
    (hpath : blk.cur.path = fullName (popGE k s.parents) ++ nms x) (ht : blk.cur.ctype = .els) :
    step s ⟨k, x, kw⟩ = .error () := by
  have hp := path_cons k (nms x) (.cs (s.numCases + 1)) (popGE k s.parents)
  have hc := closeFor_same (path := fullName (popGE k s.parents) ++ nms x) hB hi hpath
  rcases hkw with rfl | ⟨c, rfl⟩ <;>
    simp [step, solveCase, hp, hc, register, topIsElse, ht]

/-- A misplaced clause line is refused by the step function. -/
theorem step_misplaced {before : List Line} {s : St} {l : Line} (hinv : Inv before s)
    (hm : misplacedAt before l = true) : step s l = .error () := by
  obtain ⟨i, x, kw⟩ := l
  cases hstep : step s ⟨i, x, kw⟩ with
  | error e => rfl
  | ok r =>
    exfalso
    obtain ⟨s', o⟩ := r
    have hpn : (fullName (register s.parents i (nms x ++ [.cs (s.numCases + 1)]))).dropLast
        = fullName (popGE i s.parents) ++ nms x := by
      simp [register, path_cons]
    have hag := hinv.agree i
    cases kw with
    | group => simp [misplacedAt] at hm
    | node m v => simp [misplacedAt] at hm
    | prop p => simp [misplacedAt] at hm
    | imp nd => simp [misplacedAt] at hm
    | unit b => simp [misplacedAt] at hm
    | case c =>
      simp only [misplacedAt, beq_iff_eq] at hm
      rw [hm] at hag
      obtain ⟨c0, ho, ht, hp⟩ := hag
      obtain ⟨b, bs, e1, e2, e3⟩ := openTop_some ho
      rw [step_after_else s i x b bs (.case c) (Or.inr ⟨c, rfl⟩) e1 e2 (by rw [e3, hp]) (by rw [e3, ht])] at hstep
      cases hstep
    | els =>
      simp only [step] at hstep
      cases hsol : solveCase { s with numCases := s.numCases + 1 }
          (register s.parents i (nms x ++ [.cs (s.numCases + 1)])) i .els with
      | error e => simp [hsol] at hstep
      | ok s2 =>
        have eff := (solveCase_effect (s := { s with numCases := s.numCases + 1 }) hinv.sorted hsol).1
        generalize s2.state = T at eff
        cases eff with
        | pushElse nb X hi ht hX hs hk ho hp =>
          obtain ⟨c0, ho1, ho2, ho3⟩ := ho
          simp only at ho1
          rw [ho1] at hag
          cases hspec : specOpenAt i before with
          | none => rw [hspec] at hag; simp [Matches] at hag
          | some tq =>
            obtain ⟨t, q⟩ := tq
            rw [hspec] at hag
            obtain ⟨c1, e1, e2, e3⟩ := hag
            simp only [Option.some.injEq] at e1
            subst e1
            have hq : q = x := by
              rw [ho3, hpn] at e3
              exact (nms_inj (List.append_cancel_left e3)).symm
            have htt : t = .case := by rw [← e2, ho2]
            simp [misplacedAt, hspec, hq, htt] at hm
    | fin =>
      simp only [step] at hstep
      cases hsol : solveCase { s with numCases := s.numCases + 1 }
          (register s.parents i (nms x ++ [.cs (s.numCases + 1)])) i .fin with
      | error e => simp [hsol] at hstep
      | ok s2 =>
        have eff := (solveCase_effect (s := { s with numCases := s.numCases + 1 }) hinv.sorted hsol).1
        generalize s2.state = T at eff
        cases eff with
        | pop X hX hs hk ho =>
          obtain ⟨c0, ho1, ho3⟩ := ho
          simp only at ho1
          rw [ho1] at hag
          cases hspec : specOpenAt i before with
          | none => rw [hspec] at hag; simp [Matches] at hag
          | some tq =>
            obtain ⟨t, q⟩ := tq
            rw [hspec] at hag
            obtain ⟨c1, e1, e2, e3⟩ := hag
            simp only [Option.some.injEq] at e1
            subst e1
            have hq : q = x := by
              rw [ho3, hpn] at e3
              exact (nms_inj (List.append_cancel_left e3)).symm
            cases t <;> simp [misplacedAt, hspec, hq] at hm

theorem run_misplaced {before ls : List Line} {s : St} (hinv : Inv before s)
    (hm : misplacedFrom before ls = true) : run s ls = .error () := by
  induction ls generalizing before s with
  | nil => simp [misplacedFrom] at hm
  | cons l ls ih =>
    simp only [misplacedFrom, Bool.or_eq_true] at hm
    cases hstep : step s l with
    | error e => simp [run, hstep]
    | ok r =>
      obtain ⟨s1, o1⟩ := r
      cases hm with
      | inl h => rw [step_misplaced hinv h] at hstep; cases hstep
      | inr h =>
        have := ih (inv_step hinv hstep) h
        simp [run, hstep, this]

theorem popGE_zero (ps : List (Nat × List Comp)) : popGE 0 ps = [] := by
  induction ps with
  | nil => rfl
  | cons p ps ih => simp [popGE, ih]

end SciVerif.C15
