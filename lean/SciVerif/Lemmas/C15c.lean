import SciVerif.Lemmas.C15

/-! C15, arbitrary line sequences: the stack of open branches mirrors the declarative
    "latest line indented no deeper than `k`" description (`specOpenAt`), hence every
    misplaced `@else`/`@end` makes the machine fail. -/
namespace SciVerif.C15

/-- Indents strictly increase towards the top of the stack. -/
def SortedSt : List Branch → Prop
  | [] => True
  | b :: bs => Below b.cur.indent bs ∧ SortedSt bs

theorem sortedSt_closeGE (k : Nat) {st : List Branch} (h : SortedSt st) : SortedSt (closeGE k st) := by
  induction st with
  | nil => exact h
  | cons b bs ih =>
    by_cases hk : k ≤ b.cur.indent
    · simpa [closeGE, hk] using ih h.2
    · simpa [closeGE, hk] using h

/-- The clause type of the branch open at exactly indent `k` (after closing everything deeper). -/
def openAt (k : Nat) (st : List Branch) : Option CType :=
  match closeGE (k + 1) st with
  | b :: _ => if b.cur.indent = k then some b.cur.ctype else none
  | [] => none

theorem openAt_closeGE (k i : Nat) (st : List Branch) :
    openAt k (closeGE i st) = if i ≤ k then none else openAt k st := by
  by_cases h : i ≤ k
  · simp only [h, if_true]
    have hb : Below (k + 1) (closeGE i st) := (closeGE_below i st).mono (by omega)
    unfold openAt
    rw [closeGE_of_below hb]
    cases hx : closeGE i st with
    | nil => rfl
    | cons b bs =>
      have := closeGE_below i st b (by rw [hx]; rfl)
      have hne : ¬ b.cur.indent = k := by omega
      simp [hne]
  · simp only [h, if_false]
    unfold openAt
    rw [closeGE_closeGE_le (by omega)]

theorem openAt_push (k i : Nat) (b : Branch) (X : List Branch) (hi : b.cur.indent = i) :
    openAt k (b :: X) = if i ≤ k then (if i = k then some b.cur.ctype else none) else openAt k X := by
  subst hi
  by_cases h : b.cur.indent ≤ k
  · have h1 : ¬ k + 1 ≤ b.cur.indent := by omega
    simp [openAt, closeGE, h1, h]
  · have h1 : k + 1 ≤ b.cur.indent := by omega
    simp [openAt, closeGE, h1, h]

theorem openAt_below (k i : Nat) (X : List Branch) (hX : Below i X) (h : i ≤ k) : openAt k X = none := by
  unfold openAt
  rw [closeGE_of_below (hX.mono (by omega))]
  cases X with
  | nil => rfl
  | cons b bs =>
    have := hX b rfl
    have hne : ¬ b.cur.indent = k := by omega
    simp [hne]

/-- `same_branch = False`: everything indented at least like the clause was closed. -/
theorem closeFor_false {i : Nat} {p : List Comp} {st : List Branch} (h : (closeFor i p st).2 = false) :
    (closeFor i p st).1 = closeGE i st := by
  induction st with
  | nil => rfl
  | cons b bs ih =>
    by_cases h1 : b.cur.indent < i
    · have : ¬ i ≤ b.cur.indent := by omega
      simp [closeFor, h1, closeGE, this]
    · by_cases h2 : b.cur.indent = i ∧ b.cur.path = p
      · simp [closeFor, h2] at h
      · have : i ≤ b.cur.indent := by omega
        simp only [closeFor, h1, h2, if_false] at h ⊢
        simp [closeGE, this, ih h]

/-- `same_branch = True`: after closing everything deeper, a branch of exactly this indent is on top. -/
theorem closeFor_true {i : Nat} {p : List Comp} {st : List Branch} (hs : SortedSt st)
    (h : (closeFor i p st).2 = true) :
    ∃ b bs, closeGE (i + 1) st = b :: bs ∧ b.cur.indent = i ∧ (closeFor i p st).1 = b :: bs := by
  induction st with
  | nil => simp [closeFor] at h
  | cons b bs ih =>
    by_cases h1 : b.cur.indent < i
    · simp [closeFor, h1] at h
    · by_cases h2 : b.cur.indent = i ∧ b.cur.path = p
      · have : ¬ i + 1 ≤ b.cur.indent := by omega
        exact ⟨b, bs, by simp [closeGE, this], h2.1, by simp [closeFor, h2]⟩
      · simp only [closeFor, h1, h2, if_false] at h ⊢
        by_cases h3 : i + 1 ≤ b.cur.indent
        · obtain ⟨b', bs', e1, e2, e3⟩ := ih hs.2 h
          exact ⟨b', bs', by simp [closeGE, h3, e1], e2, e3⟩
        · -- a branch of this indent but another path: nothing of this indent below it
          exfalso
          have hbi : b.cur.indent = i := by omega
          have hbel : Below i bs := hbi ▸ hs.1
          cases bs with
          | nil => simp [closeFor] at h
          | cons c cs =>
            have := hbel c rfl
            simp [closeFor, this] at h

theorem openAt_of_top {i : Nat} {st : List Branch} {b : Branch} {bs : List Branch}
    (h : closeGE (i + 1) st = b :: bs) (hi : b.cur.indent = i) : openAt i st = some b.cur.ctype := by
  simp [openAt, h, hi]

/-- What a clause line does to the stack, in one of two shapes. -/
inductive Effect (i : Nat) (path : List Comp) (st : List Branch) : Kw → List Branch → Prop
  | push (c : Bool) (nb : Branch) (X : List Branch) (hi : nb.cur.indent = i) (ht : nb.cur.ctype = .case)
      (hX : Below i X) (hs : SortedSt X) (hk : ∀ k, k < i → openAt k X = openAt k st)
      (hp : nb.cur.path = path) (hsub : ∀ b ∈ X, b ∈ st) :
      Effect i path st (.case c) (nb :: X)
  | pushElse (nb : Branch) (X : List Branch) (hi : nb.cur.indent = i) (ht : nb.cur.ctype = .els)
      (hX : Below i X) (hs : SortedSt X) (hk : ∀ k, k < i → openAt k X = openAt k st)
      (ho : openAt i st = some .case) (hp : nb.cur.path = path) (hsub : ∀ b ∈ X, b ∈ st) :
      Effect i path st .els (nb :: X)
  | pop (X : List Branch) (hX : Below i X) (hs : SortedSt X)
      (hk : ∀ k, k < i → openAt k X = openAt k st) (ho : openAt i st ≠ none) (hsub : ∀ b ∈ X, b ∈ st) :
      Effect i path st .fin X

theorem mem_closeGE {k : Nat} {st : List Branch} {b : Branch} (h : b ∈ closeGE k st) : b ∈ st := by
  induction st with
  | nil => simp [closeGE] at h
  | cons c cs ih =>
    by_cases hk : k ≤ c.cur.indent
    · simp only [closeGE, hk, if_true] at h
      exact List.mem_cons_of_mem _ (ih h)
    · simpa [closeGE, hk] using h

theorem openAt_tail {i k : Nat} {st : List Branch} {b : Branch} {bs : List Branch}
    (h : closeGE (i + 1) st = b :: bs) (hi : b.cur.indent = i) (hk : k < i) :
    openAt k bs = openAt k st := by
  have h1 := openAt_closeGE k (i + 1) st
  have h2 : ¬ i + 1 ≤ k := by omega
  simp only [h2, if_false] at h1
  rw [← h1, h, openAt_push k i b bs hi]
  have : ¬ i ≤ k := by omega
  simp [this]

theorem solveCase_effect {s s' : St} {ps : List (Nat × Comp)} {i : Nat} {kw : Kw}
    (hs : SortedSt s.state) (h : solveCase s ps i kw = .ok s') :
    Effect i (fullName ps).dropLast s.state kw s'.state ∧ s'.parents = ps := by
  unfold solveCase at h
  simp only [] at h
  cases hr : closeFor i (fullName ps).dropLast s.state with
  | mk X same =>
  rw [hr] at h
  simp only at h
  cases same with
  | false =>
    have hX : X = closeGE i s.state := by
      have := closeFor_false (i := i) (p := (fullName ps).dropLast) (st := s.state) (by rw [hr])
      rw [hr] at this; exact this
    have hk : ∀ k, k < i → openAt k X = openAt k s.state := by
      intro k hk
      rw [hX, openAt_closeGE]
      have : ¬ i ≤ k := by omega
      simp [this]
    cases kw with
    | case c =>
      simp only [Bool.false_and, Bool.false_eq_true, if_false, Except.ok.injEq] at h
      subst h
      exact ⟨.push c _ X rfl rfl (hX ▸ closeGE_below i s.state) (hX ▸ sortedSt_closeGE i hs) hk rfl
        (fun b hb => mem_closeGE (hX ▸ hb)), rfl⟩
    | els => simp at h
    | fin => simp at h
    | group => simp at h
    | node m v => simp at h
  | true =>
    obtain ⟨b, bs, e1, e2, e3⟩ := closeFor_true (i := i) (p := (fullName ps).dropLast) hs (by rw [hr])
    rw [hr] at e3
    simp only at e3
    subst e3
    have hsort : SortedSt (b :: bs) := e1 ▸ sortedSt_closeGE (i + 1) hs
    have hbel : Below i bs := e2 ▸ hsort.1
    have hk : ∀ k, k < i → openAt k bs = openAt k s.state := fun k hk => openAt_tail e1 e2 hk
    have hopen := openAt_of_top e1 e2
    have hsub : ∀ b' ∈ bs, b' ∈ s.state := fun b' hb' =>
      mem_closeGE (k := i + 1) (by rw [e1]; exact List.mem_cons_of_mem _ hb')
    cases kw with
    | case c =>
      by_cases hel : topIsElse (b :: bs) = true
      · simp [hel] at h
      · simp only [Bool.true_and, hel, Bool.false_eq_true, if_false, if_true, switchCase,
          Except.ok.injEq] at h
        subst h
        exact ⟨.push c _ bs rfl rfl hbel hsort.2 hk rfl hsub, rfl⟩
    | els =>
      by_cases hel : topIsElse (b :: bs) = true
      · simp [hel] at h
      · have hc : b.cur.ctype = .case := by
          cases hct : b.cur.ctype with
          | case => rfl
          | els => simp [topIsElse, hct] at hel
        simp only [Bool.not_eq_true] at hel
        simp only [Bool.true_and, hel, Bool.not_false, if_true, switchCase, Except.ok.injEq] at h
        subst h
        exact ⟨.pushElse _ bs rfl rfl hbel hsort.2 hk (by rw [hopen, hc]) rfl hsub, rfl⟩
    | fin =>
      simp only [if_true, List.tail_cons, Except.ok.injEq] at h
      subst h
      exact ⟨.pop bs hbel hsort.2 hk (by rw [hopen]; simp) hsub, rfl⟩
    | group => simp at h
    | node m v => simp at h

/-! ## the specification side -/

theorem lastAtMost_snoc (k : Nat) (before : List Line) (l : Line) :
    lastAtMost k (before ++ [l]) = if l.indent ≤ k then some l else lastAtMost k before := by
  simp only [lastAtMost, List.reverse_append, List.reverse_cons, List.reverse_nil, List.nil_append,
    List.singleton_append, List.find?_cons]
  by_cases h : l.indent ≤ k <;> simp [h]

def clauseType : Kw → Option CType
  | .case _ => some .case
  | .els => some .els
  | _ => none

theorem specOpenAt_snoc (k : Nat) (before : List Line) (l : Line) :
    specOpenAt k (before ++ [l]) =
      if l.indent ≤ k then (if l.indent = k then clauseType l.kw else none) else specOpenAt k before := by
  unfold specOpenAt
  rw [lastAtMost_snoc]
  by_cases h : l.indent ≤ k
  · simp only [h, if_true]
    by_cases h2 : l.indent = k
    · simp only [h2, if_true]; cases l.kw <;> rfl
    · simp [h2]
  · simp [h]

theorem sorted_all_lt {X : List Branch} : ∀ {i : Nat}, SortedSt X → Below i X → ∀ b ∈ X, b.cur.indent < i := by
  induction X with
  | nil => intro i _ _ b hb; simp at hb
  | cons c cs ih =>
    intro i hs hX b hb
    have hc := hX c rfl
    rcases List.mem_cons.mp hb with rfl | hb'
    · exact hc
    · exact Nat.lt_trans (ih hs.2 hs.1 b hb') hc

theorem popGE_register_le {j i : Nat} (h : j ≤ i) (ps : List (Nat × Comp)) (c : Comp) :
    popGE j (register ps i c) = popGE j ps := by
  simp [register, popGE, h, popGE_popGE_le h]

/-- The machine's stack agrees with the declarative description of the history. -/
structure Inv (before : List Line) (s : St) : Prop where
  sorted : SortedSt s.state
  agree : ∀ k, openAt k s.state = specOpenAt k before
  paths : ∀ b ∈ s.state, b.cur.path = fullName (popGE b.cur.indent s.parents)

theorem inv_init : Inv [] St.init :=
  ⟨trivial, fun k => by simp [openAt, St.init, closeGE, specOpenAt, lastAtMost],
   fun b hb => by simp [St.init] at hb⟩

theorem inv_step {before : List Line} {s s' : St} {l : Line} {o : List Eff} (hinv : Inv before s)
    (h : step s l = .ok (s', o)) : Inv (before ++ [l]) s' := by
  obtain ⟨i, x, kw⟩ := l
  have plain : ∀ s'', s''.state = closeGE i s.state → s''.parents = register s.parents i (.nm x) →
      clauseType kw = none → Inv (before ++ [⟨i, x, kw⟩]) s'' := by
    intro s'' hst hpar hct
    refine ⟨hst ▸ sortedSt_closeGE i hinv.sorted, fun k => ?_, fun b hb => ?_⟩
    · rw [hst, openAt_closeGE, specOpenAt_snoc, hinv.agree k]
      by_cases h1 : i ≤ k <;> simp [h1, hct]
    · rw [hst] at hb
      have hlt := sorted_all_lt (sortedSt_closeGE i hinv.sorted) (closeGE_below i s.state) b hb
      rw [hpar, popGE_register_le (by omega)]
      exact hinv.paths b (mem_closeGE hb)
  have clause : ∀ s1 n, solveCase s1 (register s.parents i (.cs n)) i kw = .ok s' → s1.state = s.state →
      Inv (before ++ [⟨i, x, kw⟩]) s' := by
    intro s1 n hsol hst
    obtain ⟨eff, hpar⟩ := solveCase_effect (hst ▸ hinv.sorted) hsol
    rw [hst] at eff
    have hpath : (fullName (register s.parents i (.cs n))).dropLast = fullName (popGE i s'.parents) := by
      rw [hpar, popGE_register_le (Nat.le_refl i)]
      simp [register, path_cons]
    have hold : ∀ X : List Branch, SortedSt X → Below i X → (∀ b ∈ X, b ∈ s.state) →
        ∀ b ∈ X, b.cur.path = fullName (popGE b.cur.indent s'.parents) := by
      intro X hs hX hsub b hb
      have hlt := sorted_all_lt hs hX b hb
      rw [hpar, popGE_register_le (by omega)]
      exact hinv.paths b (hsub b hb)
    generalize hT : s'.state = T at eff
    cases eff with
    | push c nb X hi ht hX hs hk hp hsub =>
      refine ⟨hT ▸ ⟨hi ▸ hX, hs⟩, fun k => ?_, fun b hb => ?_⟩
      · rw [hT, openAt_push k i nb X hi, specOpenAt_snoc]
        by_cases h1 : i ≤ k
        · simp [h1, clauseType, ht]
        · simp only [h1, if_false]
          rw [hk k (by omega), hinv.agree k]
      · rw [hT] at hb
        rcases List.mem_cons.mp hb with rfl | hb'
        · rw [hp, hi, hpath]
        · exact hold X hs hX hsub b hb'
    | pushElse nb X hi ht hX hs hk _ hp hsub =>
      refine ⟨hT ▸ ⟨hi ▸ hX, hs⟩, fun k => ?_, fun b hb => ?_⟩
      · rw [hT, openAt_push k i nb X hi, specOpenAt_snoc]
        by_cases h1 : i ≤ k
        · simp [h1, clauseType, ht]
        · simp only [h1, if_false]
          rw [hk k (by omega), hinv.agree k]
      · rw [hT] at hb
        rcases List.mem_cons.mp hb with rfl | hb'
        · rw [hp, hi, hpath]
        · exact hold X hs hX hsub b hb'
    | pop X hX hs hk _ hsub =>
      refine ⟨hT ▸ hs, fun k => ?_, fun b hb => ?_⟩
      · rw [hT, specOpenAt_snoc]
        by_cases h1 : i ≤ k
        · simp [h1, clauseType, openAt_below k i _ hX h1]
        · simp only [h1, if_false]
          rw [hk k (by omega), hinv.agree k]
      · rw [hT] at hb
        exact hold _ hs hX hsub b hb
  cases kw with
  | group =>
    simp only [step, Except.ok.injEq, Prod.mk.injEq] at h
    exact plain s' (by rw [← h.1]) (by rw [← h.1]) rfl
  | node m v =>
    simp only [step] at h
    by_cases hf : falseCase (closeGE i s.state) = true
    · simp only [hf, if_true, Except.ok.injEq, Prod.mk.injEq] at h
      exact plain s' (by rw [← h.1]) (by rw [← h.1]) rfl
    · simp only [hf, Bool.false_eq_true, if_false, Except.ok.injEq, Prod.mk.injEq] at h
      exact plain s' (by rw [← h.1]; simp [closeGE_closeGE_le (Nat.le_refl i)]) (by rw [← h.1]) rfl
  | case c =>
    simp only [step] at h
    cases hsol : solveCase { s with numCases := s.numCases + 1 } (register s.parents i (.cs (s.numCases + 1))) i (.case c) with
    | error e => simp [hsol] at h
    | ok s2 =>
      simp only [hsol, Except.ok.injEq, Prod.mk.injEq] at h
      exact clause { s with numCases := s.numCases + 1 } _ (h.1 ▸ hsol) rfl
  | els =>
    simp only [step] at h
    cases hsol : solveCase { s with numCases := s.numCases + 1 } (register s.parents i (.cs (s.numCases + 1))) i .els with
    | error e => simp [hsol] at h
    | ok s2 =>
      simp only [hsol, Except.ok.injEq, Prod.mk.injEq] at h
      exact clause { s with numCases := s.numCases + 1 } _ (h.1 ▸ hsol) rfl
  | fin =>
    simp only [step] at h
    cases hsol : solveCase { s with numCases := s.numCases + 1 } (register s.parents i (.cs (s.numCases + 1))) i .fin with
    | error e => simp [hsol] at h
    | ok s2 =>
      simp only [hsol, Except.ok.injEq, Prod.mk.injEq] at h
      exact clause { s with numCases := s.numCases + 1 } _ (h.1 ▸ hsol) rfl

theorem openAt_some {i : Nat} {st : List Branch} {t : CType} (h : openAt i st = some t) :
    ∃ b bs, closeGE (i + 1) st = b :: bs ∧ b.cur.indent = i ∧ b.cur.ctype = t := by
  unfold openAt at h
  cases hc : closeGE (i + 1) st with
  | nil => simp [hc] at h
  | cons b bs =>
    simp only [hc] at h
    by_cases hi : b.cur.indent = i
    · simp only [hi, if_true, Option.some.injEq] at h
      exact ⟨b, bs, rfl, hi, h⟩
    · simp [hi] at h

/-- A `@case`/`@else` continuing a block whose current clause is `@else` is refused. -/
theorem step_after_else (s : St) (k : Nat) (x : String) (blk : Branch) (B : List Branch)
    (kw : Kw) (hkw : kw = .els ∨ ∃ c, kw = .case c)
    (hB : closeGE (k + 1) s.state = blk :: B) (hi : blk.cur.indent = k)
    (hpath : blk.cur.path = fullName (popGE k s.parents)) (ht : blk.cur.ctype = .els) :
    step s ⟨k, x, kw⟩ = .error () := by
  have hp := path_cons k (.cs (s.numCases + 1)) (popGE k s.parents)
  have hc := closeFor_same (path := fullName (popGE k s.parents)) hB hi hpath
  rcases hkw with rfl | ⟨c, rfl⟩ <;>
    simp [step, solveCase, hp, hc, register, topIsElse, ht]

/-- A misplaced clause line is refused by the step function. -/
theorem step_misplaced {before : List Line} {s : St} {l : Line} (hinv : Inv before s)
    (hm : misplacedAt before l = true) : step s l = .error () := by
  obtain ⟨i, x, kw⟩ := l
  cases hstep : step s ⟨i, x, kw⟩ with
  | error e => rfl
  | ok r =>
    exfalso
    obtain ⟨s', o⟩ := r
    cases kw with
    | group => simp [misplacedAt] at hm
    | node m v => simp [misplacedAt] at hm
    | case c =>
      simp only [misplacedAt, beq_iff_eq] at hm
      obtain ⟨b, bs, e1, e2, e3⟩ := openAt_some ((hinv.agree i).trans hm)
      have hmem : b ∈ s.state := mem_closeGE (k := i + 1) (by rw [e1]; exact List.mem_cons_self)
      have hpath := hinv.paths b hmem
      rw [e2] at hpath
      rw [step_after_else s i x b bs (.case c) (Or.inr ⟨c, rfl⟩) e1 e2 hpath e3] at hstep
      cases hstep
    | els =>
      simp only [step] at hstep
      cases hsol : solveCase { s with numCases := s.numCases + 1 } (register s.parents i (.cs (s.numCases + 1))) i .els with
      | error e => simp [hsol] at hstep
      | ok s2 =>
        have eff := (solveCase_effect (s := { s with numCases := s.numCases + 1 }) hinv.sorted hsol).1
        generalize s2.state = T at eff
        cases eff with
        | pushElse nb X hi ht hX hs hk ho =>
          have : specOpenAt i before = some .case := by rw [← hinv.agree i]; exact ho
          simp [misplacedAt, this] at hm
    | fin =>
      simp only [step] at hstep
      cases hsol : solveCase { s with numCases := s.numCases + 1 } (register s.parents i (.cs (s.numCases + 1))) i .fin with
      | error e => simp [hsol] at hstep
      | ok s2 =>
        have eff := (solveCase_effect (s := { s with numCases := s.numCases + 1 }) hinv.sorted hsol).1
        generalize s2.state = T at eff
        cases eff with
        | pop X hX hs hk ho =>
          have : specOpenAt i before ≠ none := by rw [← hinv.agree i]; exact ho
          simp [misplacedAt] at hm
          exact this hm

theorem run_misplaced {before ls : List Line} {s : St} (hinv : Inv before s)
    (hm : misplacedFrom before ls = true) : run s ls = .error () := by
  induction ls generalizing before s with
  | nil => simp [misplacedFrom] at hm
  | cons l ls ih =>
    simp only [misplacedFrom, Bool.or_eq_true] at hm
    cases hstep : step s l with
    | error e => simp [run, hstep]
    | ok r =>
      obtain ⟨s1, o1⟩ := r
      cases hm with
      | inl h => rw [step_misplaced hinv h] at hstep; cases hstep
      | inr h =>
        have := ih (inv_step hinv hstep) h
        simp [run, hstep, this]

end SciVerif.C15
