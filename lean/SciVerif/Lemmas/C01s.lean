import SciVerif.Lemmas.C01r

/-!
# C01 helper lemmas, part 19 (character level): a call with the wrong number of arguments as a
  rejected core text (to be wrapped in nested one-argument calls).
-/
namespace SciVerif.C01
open SciVerif.C01.Gen

variable {A : Type} (alg : AtomAlg A) (lit : List Char → A)

theorem nest_shift (w : List Char) :
    ∀ (k k' j : Nat), nest w k = some k' → nest w (k + j) = some (k' + j) := by
  induction w with
  | nil => intro k k' j h; simp only [nest, Option.some.injEq] at h ⊢; omega
  | cons c cs ih =>
    intro k k' j h
    simp only [nest] at h ⊢
    by_cases h1 : c = '('
    · simp only [h1, if_true] at h ⊢
      have := ih (k + 1) k' j h
      rwa [show k + 1 + j = k + j + 1 by omega] at this
    · simp only [h1, if_false] at h ⊢
      by_cases h2 : c = ')'
      · simp only [h2, if_true] at h ⊢
        by_cases hk : k = 0
        · simp [hk] at h
        · have hkj : k + j ≠ 0 := by omega
          simp only [hk, hkj, if_false] at h ⊢
          have := ih (k - 1) k' j h
          rwa [show k - 1 + j = k + j - 1 by omega] at this
      · simp only [h2, if_false] at h ⊢
        by_cases h3 : c = ','
        · simp only [h3, if_true] at h ⊢
          by_cases hk : k = 0
          · simp [hk] at h
          · have hkj : k + j ≠ 0 := by omega
            simp only [hk, hkj, if_false] at h ⊢
            exact ih k k' j h
        · simp only [h3, if_false] at h ⊢
          exact ih k k' j h

theorem nest_joinArgs (Ts : List (List Char)) (hne : Ts ≠ [])
    (hb : ∀ T ∈ Ts, nest T 0 = some 0) (k : Nat) : nest (joinArgs Ts) (k + 1) = some (k + 1) := by
  induction Ts with
  | nil => exact absurd rfl hne
  | cons T Ts ih =>
    have hT : nest T (k + 1) = some (k + 1) := by
      have := nest_shift T 0 0 (k + 1) (hb T (by simp))
      simpa using this
    cases Ts with
    | nil => simpa [joinArgs] using hT
    | cons T' Ts' =>
      have := ih (by simp) (fun X hX => hb X (by simp [hX]))
      simp only [joinArgs]
      rw [nest_append, hT]
      simp only [Option.bind_some, nest]
      simpa using this

include lit in
/-- a call with the wrong number of balanced arguments is a rejected core text -/
theorem badCore_arity (c : Call) (Ts : List (List Char)) (hne : Ts ≠ [])
    (hb : ∀ T ∈ Ts, nest T 0 = some 0) (hk : Ts.length ≠ c.narg) :
    BadCore alg "arity" (c.sym ++ (joinArgs Ts ++ [')'])) 0 := by
  obtain ⟨hf, hnc, hsne⟩ := call_facts c
  have hgood : GoodLex c.sym ∧ ∀ k, nest c.sym k = some (k + 1) := by
    cases c with
    | f1 f => exact ⟨(f1Sym_props f).1, (f1Sym_props f).2.2⟩
    | f2 g => exact ⟨(f2Sym_props g).1, (f2Sym_props g).2.2⟩
  refine ⟨?_, ?_, ?_, ?_, ?_⟩
  · intro k
    rw [nest_append, hgood.2 k]
    simp only [Option.bind_some]
    rw [nest_append, nest_joinArgs Ts hne hb k]
    simp [nest]
  · exact (call_safeHead c).append hsne _
  · cases hs : c.sym with
    | nil => exact absurd hs hsne
    | cons x xs =>
      refine ⟨x, ')', by simp, hgood.1.2 x (by rw [hs]; simp), ?_, by decide⟩
      rw [← List.append_assoc, List.getLast?_append]
      simp
  · have hl : 0 < c.sym.length := List.length_pos_iff.mpr hsne
    simp only [List.length_append]
    omega
  · intro n _
    obtain ⟨bb, hbb⟩ := tokLoop_arity_pending alg lit (nestedSolve alg n) c Ts hne hb hk 0 []
      ((c.sym ++ (joinArgs Ts ++ [')'])).length + 1) [] [] ⟨[], []⟩ (pending_nil alg lit)
      (by simp [blanks])
    unfold nestedSolve at hbb
    simp only [blanks, List.replicate_zero, List.nil_append] at hbb
    simp only [solveFromF, hbb]

/-- A call with the wrong number of arguments inside ANY number of nested one-argument calls /
    parentheses, after the text of an admissible item list. -/
theorem solve_nested_arity (its : List LItem) (hadj : Adj its) (u : List Char)
    (hu : Pre (its.flatMap itemLex) u) (N : Nat) (hN : N ≤ u.length)
    (hok : ∀ n, N ≤ n → ∀ it ∈ its, ItemOK alg lit (nestedSolve alg n) it)
    (f : F1) (j : Nat) (rest : List Char) (fs : List (F1 × Nat × Nat))
    (c : Call) (Ts : List (List Char)) (hne : Ts ≠ [])
    (hb : ∀ T ∈ Ts, nest T 0 = some 0) (hk : Ts.length ≠ c.narg) (a b : Nat) :
    solve dflt alg dfltSteps
      (u ++ (blanks j ++ (f.sym ++ (nestCalls fs (blanks a ++ (c.sym ++ (joinArgs Ts ++ [')'])) ++ blanks b)
        ++ ')' :: rest)))) = .error "arity" := by
  obtain ⟨a', b', C', e, hC'⟩ := badCore_nest alg lit "arity" fs
    (blanks a ++ (c.sym ++ (joinArgs Ts ++ [')'])) ++ blanks b) 0
    ⟨a, b, _, rfl, badCore_arity alg lit c Ts hne hb hk⟩
  rw [e]
  exact solve_badCore alg lit its hadj u hu f j rest "arity" C' _ hC' a' b'
    (hok _ (by simp only [List.length_append]; omega))

end SciVerif.C01
