import SciVerif.Model.C01Spec

/-!
# C01 helper lemmas, part 6 (character level, table independent):
  blanks and `strip`, texts of lexeme lists with arbitrary blanks, the nesting counter,
  the first-match lemma for `findOp`, the iterations of the argument scanner.
-/
namespace SciVerif.C01

/-! ### blanks and `strip` -/

def blanks (k : Nat) : List Char := List.replicate k ' '

theorem blanks_succ (k : Nat) : blanks (k + 1) = ' ' :: blanks k := rfl

theorem blanks_length (k : Nat) : (blanks k).length = k := by simp [blanks]

theorem blanks_reverse (k : Nat) : (blanks k).reverse = blanks k := by simp [blanks]

theorem dropWhile_blanks (k : Nat) (r : List Char) :
    (blanks k ++ r).dropWhile isWs = r.dropWhile isWs := by
  induction k with
  | zero => rfl
  | succ k ih =>
    rw [blanks_succ, List.cons_append, List.dropWhile_cons]
    have : isWs ' ' = true := by decide
    simp [this, ih]

theorem dropWhile_nonws (c : Char) (r : List Char) (h : isWs c = false) :
    (c :: r).dropWhile isWs = c :: r := by
  simp [List.dropWhile_cons, h]

/-- `strip` of a text padded with blanks whose first and last characters are not blank -/
theorem strip_pad (k k' : Nat) (x y : Char) (c : List Char)
    (hx : c.head? = some x) (hxw : isWs x = false)
    (hy : c.getLast? = some y) (hyw : isWs y = false) :
    strip (blanks k ++ c ++ blanks k') = c := by
  unfold strip
  rw [List.append_assoc, dropWhile_blanks]
  cases c with
  | nil => simp at hx
  | cons x' c' =>
    simp only [List.head?_cons, Option.some.injEq] at hx
    subst hx
    rw [List.cons_append, dropWhile_nonws _ _ hxw, ← List.cons_append, List.reverse_append,
      blanks_reverse, dropWhile_blanks]
    have hh : (x' :: c').reverse.head? = some y := by rw [List.head?_reverse]; exact hy
    cases hr : (x' :: c').reverse with
    | nil => rw [hr] at hh; simp at hh
    | cons y' ys =>
      rw [hr] at hh
      simp only [List.head?_cons, Option.some.injEq] at hh
      subst hh
      rw [dropWhile_nonws _ _ hyw, ← hr, List.reverse_reverse]

theorem strip_blanks (k : Nat) : strip (blanks k) = [] := by
  unfold strip
  have : (blanks k).dropWhile isWs = [] := by
    have := dropWhile_blanks k []
    simpa using this
  rw [this]; rfl

/-! ### texts: lexemes with arbitrary blanks in front of each -/

/-- `Pre xs u`: `u` is the concatenation of the lexemes `xs`, each preceded by any number of blanks -/
inductive Pre : List (List Char) → List Char → Prop
  | nil : Pre [] []
  | cons (k : Nat) (x : List Char) {xs : List (List Char)} {s : List Char} :
      Pre xs s → Pre (x :: xs) (blanks k ++ x ++ s)

theorem Pre.nil_inv {u : List Char} (h : Pre [] u) : u = [] := by cases h; rfl

theorem Pre.cons_inv {x : List Char} {xs : List (List Char)} {u : List Char} (h : Pre (x :: xs) u) :
    ∃ k s, u = blanks k ++ x ++ s ∧ Pre xs s := by
  cases h with
  | cons k _ hs => exact ⟨k, _, rfl, hs⟩

theorem Pre.append_inv {xs ys : List (List Char)} {u : List Char} (h : Pre (xs ++ ys) u) :
    ∃ u1 u2, u = u1 ++ u2 ∧ Pre xs u1 ∧ Pre ys u2 := by
  induction xs generalizing u with
  | nil => exact ⟨[], u, rfl, Pre.nil, h⟩
  | cons x xs ih =>
    obtain ⟨k, s, rfl, hs⟩ := Pre.cons_inv h
    obtain ⟨u1, u2, rfl, h1, h2⟩ := ih hs
    exact ⟨blanks k ++ x ++ u1, u2, by simp, Pre.cons k x h1, h2⟩

theorem Pre.append {xs ys : List (List Char)} {u1 u2 : List Char} (h1 : Pre xs u1) (h2 : Pre ys u2) :
    Pre (xs ++ ys) (u1 ++ u2) := by
  induction h1 with
  | nil => simpa using h2
  | cons k x _ ih =>
    have := Pre.cons k x ih
    simpa [List.append_assoc] using this

theorem Pre.single_inv {x u : List Char} (h : Pre [x] u) : ∃ k, u = blanks k ++ x := by
  obtain ⟨k, s, rfl, hs⟩ := Pre.cons_inv h
  rw [Pre.nil_inv hs]
  exact ⟨k, by simp⟩

/-- the rendering function produces such a text, followed by trailing blanks -/
theorem joinBlanks_pre (xs : List (List Char)) (bl : List Nat) :
    ∃ u k, joinBlanks bl xs = u ++ blanks k ∧ Pre xs u := by
  induction xs generalizing bl with
  | nil => exact ⟨[], bl.headD 0, by simp [joinBlanks, blanks], Pre.nil⟩
  | cons x xs ih =>
    obtain ⟨u, k, e, h⟩ := ih bl.tail
    exact ⟨blanks (bl.headD 0) ++ x ++ u, k, by simp [joinBlanks, e, blanks], Pre.cons _ x h⟩

/-- a lexeme is not empty and contains no blank -/
def GoodLex (x : List Char) : Prop := x ≠ [] ∧ ∀ c ∈ x, isWs c = false

theorem Pre.last_nonws {xs : List (List Char)} {u : List Char} (h : Pre xs u) (hne : xs ≠ [])
    (hg : ∀ x ∈ xs, GoodLex x) : ∃ y, u.getLast? = some y ∧ isWs y = false := by
  induction h with
  | nil => exact absurd rfl hne
  | @cons k x xs s hs ih =>
    have gx := hg x (by simp)
    cases xs with
    | nil =>
      rw [Pre.nil_inv hs]
      obtain ⟨hx, hall⟩ := gx
      refine ⟨x.getLast hx, ?_, hall _ (List.getLast_mem hx)⟩
      simp [List.getLast?_append, List.getLast?_eq_some_getLast hx]
    | cons x2 xs2 =>
      obtain ⟨y, hy, hw⟩ := ih (by simp) (fun z hz => hg z (by simp [hz]))
      refine ⟨y, ?_, hw⟩
      rw [List.getLast?_append, hy]; rfl

theorem Pre.length_le {xs : List (List Char)} {u : List Char} (h : Pre xs u)
    (hg : ∀ x ∈ xs, x ≠ []) : xs.length ≤ u.length := by
  induction h with
  | nil => simp
  | @cons k x xs s hs ih =>
    have := ih (fun z hz => hg z (by simp [hz]))
    have hx : 0 < x.length := List.length_pos_iff.mpr (hg x (by simp))
    simp; omega

/-- The argument string the scanner hands to the nested solver: the stripped text of a non-empty
    lexeme list is again such a text (no leading blanks). -/
theorem strip_text {xs : List (List Char)} {u : List Char} (k : Nat) (h : Pre xs u) (hne : xs ≠ [])
    (hg : ∀ x ∈ xs, GoodLex x) : Pre xs (strip (u ++ blanks k)) := by
  cases xs with
  | nil => exact absurd rfl hne
  | cons x xs =>
    obtain ⟨k0, s, rfl, hs⟩ := Pre.cons_inv h
    have hp : Pre (x :: xs) (blanks 0 ++ x ++ s) := Pre.cons 0 x hs
    obtain ⟨y, hy, hyw⟩ := Pre.last_nonws hp (by simp) hg
    obtain ⟨hx, hall⟩ := hg x (by simp)
    cases x with
    | nil => exact absurd rfl hx
    | cons c cs =>
      have e : strip (blanks k0 ++ (c :: cs) ++ s ++ blanks k) = (c :: cs) ++ s := by
        have := strip_pad k0 k c y ((c :: cs) ++ s) (by simp) (hall c (by simp))
          (by simpa [blanks] using hy) hyw
        simpa [List.append_assoc] using this
      rw [e]
      simpa [blanks] using hp

/-! ### nesting counter of `(` `)` `,` -/

/-- relative depth after a text; `none` when the depth would go below the start or a comma
    occurs at the starting depth -/
def nest : List Char → Nat → Option Nat
  | [], k => some k
  | c :: cs, k =>
      if c = '(' then nest cs (k + 1)
      else if c = ')' then (if k = 0 then none else nest cs (k - 1))
      else if c = ',' then (if k = 0 then none else nest cs k)
      else nest cs k

/-- a character the scanner and the depth counter ignore -/
def Neutral (c : Char) : Prop := c ≠ '(' ∧ c ≠ ')' ∧ c ≠ ','

instance : DecidablePred Neutral := fun c => by unfold Neutral; infer_instance

theorem nest_append (u v : List Char) (k : Nat) : nest (u ++ v) k = (nest u k).bind (nest v) := by
  induction u generalizing k with
  | nil => rfl
  | cons c cs ih =>
    simp only [List.cons_append, nest]
    split
    · exact ih _
    · split
      · split
        · rfl
        · exact ih _
      · split
        · split
          · rfl
          · exact ih _
        · exact ih _

theorem nest_neutral (u : List Char) (h : ∀ c ∈ u, Neutral c) (k : Nat) : nest u k = some k := by
  induction u with
  | nil => rfl
  | cons c cs ih =>
    obtain ⟨h1, h2, h3⟩ := h c (by simp)
    simp [nest, h1, h2, h3, ih (fun d hd => h d (by simp [hd]))]

theorem nest_blanks (j k : Nat) : nest (blanks j) k = some k :=
  nest_neutral _ (fun c hc => by
    have : c = ' ' := by simpa [blanks] using (List.mem_replicate.mp hc).2
    subst this; exact ⟨by decide, by decide, by decide⟩) k

/-! ### `findOp`: first row whose symbol prefixes the text -/

theorem isPrefixOf_append_self (a r : List Char) : a.isPrefixOf (a ++ r) = true := by
  induction a with
  | nil => simp [List.isPrefixOf]
  | cons c cs ih => simp [List.isPrefixOf, ih]

/-- a prefix of `a ++ r` is a prefix of `a`, or extends `a` by a non-empty prefix of `r` -/
theorem prefix_split (p a r : List Char) (h : p.isPrefixOf (a ++ r) = true) :
    p.isPrefixOf a = true ∨
      ∃ c cs, p.drop a.length = c :: cs ∧ a.isPrefixOf p = true ∧ r.head? = some c := by
  induction a generalizing p with
  | nil =>
    cases p with
    | nil => left; rfl
    | cons c cs =>
      right
      cases r with
      | nil => simp [List.isPrefixOf] at h
      | cons d ds =>
        simp only [List.nil_append, List.isPrefixOf, Bool.and_eq_true, beq_iff_eq] at h
        exact ⟨c, cs, rfl, by simp [List.isPrefixOf], by simp [h.1]⟩
  | cons x a ih =>
    cases p with
    | nil => left; rfl
    | cons y p =>
      simp only [List.cons_append, List.isPrefixOf, Bool.and_eq_true, beq_iff_eq] at h
      obtain ⟨rfl, h2⟩ := h
      rcases ih p h2 with h3 | ⟨c, cs, e1, e2, e3⟩
      · left; simp [List.isPrefixOf, h3]
      · right; exact ⟨c, cs, by simpa using e1, by simp [List.isPrefixOf, e2], e3⟩

/-- no earlier row's symbol is a prefix of `a` -/
def earlierOK (rows : List OpRow) (a : List Char) : Bool :=
  rows.all (fun r => !(r.symbol.isPrefixOf a))

/-- the characters by which an earlier row's symbol continues `a` -/
def clashChars (rows : List OpRow) (a : List Char) : List Char :=
  rows.filterMap (fun r => if a.isPrefixOf r.symbol then (r.symbol.drop a.length).head? else none)

theorem findOpFrom_first (rows : List OpRow) (i j : Nat) (row : OpRow) (r : List Char)
    (hrow : rows[i]? = some row)
    (he : earlierOK (rows.take i) row.symbol = true)
    (hc : ∀ c ∈ clashChars (rows.take i) row.symbol, r.head? ≠ some c) :
    findOpFrom j rows (row.symbol ++ r) = some (j + i, row) := by
  induction rows generalizing i j with
  | nil => simp at hrow
  | cons q qs ih =>
    cases i with
    | zero =>
      simp only [List.getElem?_cons_zero, Option.some.injEq] at hrow
      subst hrow
      simp [findOpFrom, isPrefixOf_append_self]
    | succ i =>
      simp only [List.getElem?_cons_succ] at hrow
      simp only [List.take_succ_cons, earlierOK, List.all_cons, Bool.and_eq_true,
        Bool.not_eq_eq_eq_not, Bool.not_true] at he
      have hq : q.symbol.isPrefixOf (row.symbol ++ r) = false := by
        cases hqq : q.symbol.isPrefixOf (row.symbol ++ r) with
        | false => rfl
        | true =>
          exfalso
          rcases prefix_split _ _ _ hqq with h1 | ⟨c, cs, e1, e2, e3⟩
          · rw [he.1] at h1; cases h1
          · have hf : (if row.symbol.isPrefixOf q.symbol = true then
                (q.symbol.drop row.symbol.length).head? else none) = some c := by
              rw [if_pos e2, e1]; rfl
            have hm : c ∈ clashChars (List.take (i + 1) (q :: qs)) row.symbol := by
              unfold clashChars
              rw [List.take_succ_cons, List.filterMap_cons, hf]
              exact List.mem_cons_self
            exact hc c hm e3
      have := ih i (j + 1) hrow he.2 (fun c hcm => hc c (by
        simp only [clashChars, List.take_succ_cons, List.filterMap_cons] at hcm ⊢
        split <;> simp_all))
      simp only [findOpFrom, hq, Bool.false_eq_true, if_false]
      rw [this]; congr 2; omega

theorem findOpFrom_none (rows : List OpRow) (j : Nat) (s : List Char)
    (h : ∀ r ∈ rows, r.symbol.isPrefixOf s = false) : findOpFrom j rows s = none := by
  induction rows generalizing j with
  | nil => rfl
  | cons q qs ih =>
    simp [findOpFrom, h q (by simp), ih (j + 1) (fun r hr => h r (by simp [hr]))]

/-! ### the argument scanner with one-character symbols -/

def stdPar (narg : Nat) : ParSpec := ⟨['('], [','], [')'], narg⟩

theorem parScan_neutral (narg n d : Nat) (l r : List Char) (c : Char) (args : List (List Char))
    (h : Neutral c) :
    parScan (stdPar narg) (n + 1) d ⟨l, c :: r⟩ args = parScan (stdPar narg) n d ⟨l ++ [c], r⟩ args := by
  obtain ⟨h1, h2, h3⟩ := h
  have e1 : ('(' == c) = false := by simp [Ne.symm h1]
  have e2 : (',' == c) = false := by simp [Ne.symm h3]
  have e3 : (')' == c) = false := by simp [Ne.symm h2]
  simp [parScan, stdPar, List.isPrefixOf, e1, e2, e3, Ex.shift]

theorem parScan_open (narg n d : Nat) (l r : List Char) (args : List (List Char)) :
    parScan (stdPar narg) (n + 1) d ⟨l, '(' :: r⟩ args
      = parScan (stdPar narg) n (d + 1) ⟨l ++ ['('], r⟩ args := by
  simp [parScan, stdPar, List.isPrefixOf, Ex.shift]

theorem parScan_sep_deep (narg n d : Nat) (l r : List Char) (args : List (List Char)) (hd : d ≠ 1) :
    parScan (stdPar narg) (n + 1) d ⟨l, ',' :: r⟩ args
      = parScan (stdPar narg) n d ⟨l ++ [','], r⟩ args := by
  have e1 : ('(' == ',') = false := by decide
  have e3 : (')' == ',') = false := by decide
  simp [parScan, stdPar, List.isPrefixOf, e1, e3, hd, Ex.shift]

theorem parScan_sep_one (narg n : Nat) (l r : List Char) (args : List (List Char)) :
    parScan (stdPar narg) (n + 1) 1 ⟨l, ',' :: r⟩ args
      = parScan (stdPar narg) n 1 ⟨[], r⟩ (args ++ [strip l]) := by
  have e1 : ('(' == ',') = false := by decide
  simp [parScan, stdPar, List.isPrefixOf, e1, Ex.remove, Ex.popLeft]

theorem parScan_close_deep (narg n d : Nat) (l r : List Char) (args : List (List Char)) (hd : d ≠ 1) :
    parScan (stdPar narg) (n + 1) d ⟨l, ')' :: r⟩ args
      = parScan (stdPar narg) n (d - 1) ⟨l ++ [')'], r⟩ args := by
  have e1 : ('(' == ')') = false := by decide
  have e2 : (',' == ')') = false := by decide
  simp [parScan, stdPar, List.isPrefixOf, e1, e2, hd, Ex.shift]

theorem parScan_close_one (narg n : Nat) (l r : List Char) (args : List (List Char)) :
    parScan (stdPar narg) (n + 1) 1 ⟨l, ')' :: r⟩ args = some (⟨[], r⟩, args ++ [strip l]) := by
  have e1 : ('(' == ')') = false := by decide
  have e2 : (',' == ')') = false := by decide
  simp [parScan, stdPar, List.isPrefixOf, e1, e2, Ex.remove, Ex.popLeft]

/-- Scanning a text whose relative depth goes from `k` to `k'` without touching the start depth:
    the depth counter follows, the text is collected on the left. -/
theorem parScan_nest (narg : Nat) (w : List Char) :
    ∀ (k k' n d : Nat) (l r : List Char) (args : List (List Char)), nest w k = some k' → 1 ≤ d →
      parScan (stdPar narg) (n + w.length) (d + k) ⟨l, w ++ r⟩ args
        = parScan (stdPar narg) n (d + k') ⟨l ++ w, r⟩ args := by
  induction w with
  | nil => intro k k' n d l r args h _; simp [nest] at h; subst h; simp
  | cons c cs ih =>
    intro k k' n d l r args h hd
    have ef : n + (c :: cs).length = (n + cs.length) + 1 := by simp; omega
    rw [ef, List.cons_append]
    simp only [nest] at h
    by_cases h1 : c = '('
    · subst h1
      simp only [if_true] at h
      rw [parScan_open, show d + k + 1 = d + (k + 1) by omega, ih (k + 1) k' n d _ r args h hd]
      simp
    · by_cases h2 : c = ')'
      · subst h2
        simp only [h1, if_false, if_true] at h
        by_cases hk : k = 0
        · simp [hk] at h
        · simp only [hk, if_false] at h
          rw [parScan_close_deep _ _ _ _ _ _ (by omega), show d + k - 1 = d + (k - 1) by omega,
            ih (k - 1) k' n d _ r args h hd]
          simp
      · by_cases h3 : c = ','
        · subst h3
          simp only [h1, h2, if_false, if_true] at h
          by_cases hk : k = 0
          · simp [hk] at h
          · simp only [hk, if_false] at h
            rw [parScan_sep_deep _ _ _ _ _ _ (by omega), ih k k' n d _ r args h hd]
            simp
        · simp only [h1, h2, h3, if_false] at h
          rw [parScan_neutral _ _ _ _ _ _ _ ⟨h1, h2, h3⟩, ih k k' n d _ r args h hd]
          simp

end SciVerif.C01
