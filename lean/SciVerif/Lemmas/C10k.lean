import SciVerif.Model.C10Heap
import SciVerif.Lemmas.C10

/-! C10/C11: the object store refines the value semantics; frame property of `add`. -/
set_option linter.unusedSimpArgs false
set_option linter.unusedVariables false
namespace SciVerif.C10

/-- no composite shares a component object with another one (or with itself twice), every
    component object has been allocated, composites beyond `nobj` do not exist -/
structure Heap.WF (h : Heap) : Prop where
  beyond : ∀ i, h.nobj ≤ i → h.objs i = []
  alloc : ∀ i kc, kc ∈ h.objs i → kc.2 < h.next
  disjoint : ∀ i j kc kc', kc ∈ h.objs i → kc' ∈ h.objs j → kc.2 = kc'.2 → i = j
  nodup : ∀ i, ((h.objs i).map Prod.snd).Nodup

theorem findCell_mem (l : List (Str × Nat)) (k : Str) (c : Nat) (h : findCell l k = some c) :
    (k, c) ∈ l := by
  induction l with
  | nil => simp [findCell] at h
  | cons a t ih =>
    obtain ⟨k', c'⟩ := a
    by_cases hk : k' = k
    · simp only [findCell, hk, if_true, Option.some.injEq] at h
      subst hk h; simp
    · simp only [findCell, hk, if_false] at h
      exact List.mem_cons_of_mem _ (ih h)

theorem read_add_some (cells : Nat → Rat) (l : List (Str × Nat)) (k : Str) (c : Nat) (p : Rat)
    (hn : (l.map Prod.snd).Nodup) (hf : findCell l k = some c) :
    l.map (fun kc => (kc.1, if kc.2 = c then cells c + p else cells kc.2)) =
      cadd (l.map fun kc => (kc.1, cells kc.2)) k p := by
  induction l with
  | nil => simp [findCell] at hf
  | cons a t ih =>
    obtain ⟨k', c'⟩ := a
    simp only [List.map_cons, List.nodup_cons] at hn
    by_cases hk : k' = k
    · simp only [findCell, hk, if_true, Option.some.injEq] at hf
      subst hf
      simp only [List.map_cons, hk, if_true, cadd]
      congr 1
      apply List.map_congr_left
      intro kc hkc
      have : kc.2 ≠ c' := fun e => hn.1 (e ▸ List.mem_map_of_mem (f := Prod.snd) hkc)
      simp [this]
    · simp only [findCell, hk, if_false] at hf
      have hc : c' ≠ c := fun e => hn.1 (e ▸ List.mem_map_of_mem (f := Prod.snd) (findCell_mem t k c hf))
      simp only [List.map_cons, cadd, hk, if_false, hc, ih hn.2 hf]

theorem cadd_none (l : Comps Rat) (k : Str) (p : Rat) (h : ∀ kp ∈ l, kp.1 ≠ k) : cadd l k p = l ++ [(k, p)] := by
  induction l with
  | nil => rfl
  | cons a t ih =>
    obtain ⟨k', p'⟩ := a
    have hk : k' ≠ k := h (k', p') (by simp)
    simp [cadd, hk, ih (fun kp hkp => h kp (by simp [hkp]))]

theorem findCell_none (l : List (Str × Nat)) (k : Str) (h : findCell l k = none) : ∀ kc ∈ l, kc.1 ≠ k := by
  induction l with
  | nil => simp
  | cons a t ih =>
    obtain ⟨k', c'⟩ := a
    by_cases hk : k' = k
    · simp [findCell, hk] at h
    · simp only [findCell, hk, if_false] at h
      intro kc hkc
      rcases List.mem_cons.mp hkc with rfl | hkc
      · exact hk
      · exact ih h kc hkc

/-- `add` on composite `i` is `Composite.add` on its observable dict -/
theorem read_add_self (h : Heap) (hw : h.WF) (i : Nat) (k : Str) (p : Rat) :
    (h.add i k p).read i = cadd (h.read i) k p := by
  unfold Heap.add
  cases hf : findCell (h.objs i) k with
  | some c =>
    simp only [Heap.read]
    exact read_add_some h.cells (h.objs i) k c p (hw.nodup i) hf
  | none =>
    simp only [Heap.read, if_true, List.map_append, List.map_cons, List.map_nil]
    rw [cadd_none _ k p (by
      intro kp hkp
      simp only [List.mem_map] at hkp
      obtain ⟨kc, hkc, rfl⟩ := hkp
      exact findCell_none _ k hf kc hkc)]
    congr 1
    apply List.map_congr_left
    intro kc hkc
    have : kc.2 ≠ h.next := Nat.ne_of_lt (hw.alloc i kc hkc)
    simp [this]

/-- frame: `add` on composite `i` changes no other composite -/
theorem read_add_other (h : Heap) (hw : h.WF) (i j : Nat) (hij : j ≠ i) (k : Str) (p : Rat) :
    (h.add i k p).read j = h.read j := by
  unfold Heap.add
  cases hf : findCell (h.objs i) k with
  | some c =>
    simp only [Heap.read]
    apply List.map_congr_left
    intro kc hkc
    have : kc.2 ≠ c := by
      intro e
      exact hij (hw.disjoint j i kc (k, c) hkc (findCell_mem _ k c hf) e)
    simp [this]
  | none =>
    simp only [Heap.read, hij, if_false]
    apply List.map_congr_left
    intro kc hkc
    have : kc.2 ≠ h.next := Nat.ne_of_lt (hw.alloc j kc hkc)
    simp [this]

theorem wf_add (h : Heap) (hw : h.WF) (i : Nat) (hi : i < h.nobj) (k : Str) (p : Rat) : (h.add i k p).WF := by
  unfold Heap.add
  cases hf : findCell (h.objs i) k with
  | some c => exact ⟨hw.beyond, hw.alloc, hw.disjoint, hw.nodup⟩
  | none =>
    refine ⟨?_, ?_, ?_, ?_⟩
    · intro i' hi'
      have : i' ≠ i := by intro e; subst e; exact absurd hi (by simpa using hi')
      simpa [this] using hw.beyond i' hi'
    · intro i' kc hkc
      simp only at hkc ⊢
      by_cases e : i' = i
      · simp only [e, if_true, List.mem_append, List.mem_singleton] at hkc
        rcases hkc with hkc | rfl
        · exact Nat.lt_succ_of_lt (hw.alloc i kc hkc)
        · exact Nat.lt_succ_self _
      · simp only [e, if_false] at hkc
        exact Nat.lt_succ_of_lt (hw.alloc i' kc hkc)
    · intro i1 i2 kc kc' h1 h2 e
      simp only at h1 h2
      have old : ∀ i' kc, (kc ∈ (if i' = i then h.objs i ++ [(k, h.next)] else h.objs i')) →
          (kc ∈ h.objs i' ∧ kc.2 < h.next) ∨ (i' = i ∧ kc.2 = h.next) := by
        intro i' kc hkc
        by_cases e' : i' = i
        · simp only [e', if_true, List.mem_append, List.mem_singleton] at hkc
          rcases hkc with hkc | rfl
          · exact Or.inl ⟨e' ▸ hkc, hw.alloc i kc hkc⟩
          · exact Or.inr ⟨e', rfl⟩
        · simp only [e', if_false] at hkc
          exact Or.inl ⟨hkc, hw.alloc i' kc hkc⟩
      rcases old i1 kc h1 with ⟨m1, l1⟩ | ⟨e1, n1⟩ <;> rcases old i2 kc' h2 with ⟨m2, l2⟩ | ⟨e2, n2⟩
      · exact hw.disjoint i1 i2 kc kc' m1 m2 e
      · omega
      · omega
      · rw [e1, e2]
    · intro i'
      simp only
      by_cases e : i' = i
      · simp only [e, if_true, List.map_append, List.map_cons, List.map_nil]
        rw [List.nodup_append]
        refine ⟨hw.nodup i, by simp, ?_⟩
        intro a ha b hb
        simp only [List.mem_singleton] at hb
        subst hb
        simp only [List.mem_map] at ha
        obtain ⟨kc, hkc, rfl⟩ := ha
        exact Nat.ne_of_lt (hw.alloc i kc hkc)
      · simpa [e] using hw.nodup i'

theorem nobj_add (h : Heap) (i : Nat) (k : Str) (p : Rat) : (h.add i k p).nobj = h.nobj := by
  unfold Heap.add; cases findCell (h.objs i) k <;> rfl

/-- adding a whole dict to composite `n`: value semantics for `n`, nothing else changes -/
theorem addAll_spec (src : Comps Rat) : ∀ (h : Heap), h.WF → ∀ n, n < h.nobj →
    (h.addAll n src).WF ∧ (h.addAll n src).nobj = h.nobj ∧
    (h.addAll n src).read n = caddAll (h.read n) src ∧
    ∀ j, j ≠ n → (h.addAll n src).read j = h.read j := by
  induction src with
  | nil => intro h hw n hn; exact ⟨hw, rfl, rfl, fun _ _ => rfl⟩
  | cons kp t ih =>
    intro h hw n hn
    have hw' := wf_add h hw n hn kp.1 kp.2
    have hn' : n < (h.add n kp.1 kp.2).nobj := by rw [nobj_add]; exact hn
    obtain ⟨w, e0, e1, e2⟩ := ih (h.add n kp.1 kp.2) hw' n hn'
    refine ⟨w, by rw [show (h.addAll n (kp :: t)) = (h.add n kp.1 kp.2).addAll n t from rfl, e0, nobj_add], ?_, ?_⟩
    · show ((h.add n kp.1 kp.2).addAll n t).read n = _
      rw [e1, read_add_self h hw]; rfl
    · intro j hj
      show ((h.add n kp.1 kp.2).addAll n t).read j = _
      rw [e2 j hj, read_add_other h hw n j hj]

theorem wf_alloc (h : Heap) (hw : h.WF) : h.alloc.WF ∧ h.alloc.read h.nobj = [] ∧ ∀ j, h.alloc.read j = h.read j := by
  refine ⟨⟨fun i hi => hw.beyond i (by simp [Heap.alloc] at hi; omega), hw.alloc, hw.disjoint, hw.nodup⟩, ?_, fun _ => rfl⟩
  simp [Heap.read, Heap.alloc, hw.beyond h.nobj (le_refl _)]

theorem wf_empty : Heap.empty.WF := ⟨fun _ _ => rfl, by simp [Heap.empty], by simp [Heap.empty], by simp [Heap.empty]⟩

/-- `a + b` creates composite `h.nobj` with the value `_add` gives and leaves everything else alone -/
theorem plus_spec (h : Heap) (hw : h.WF) (i j : Nat) (hi : i < h.nobj) (hj : j < h.nobj) :
    (h.plus i j).WF ∧ (h.plus i j).nobj = h.nobj + 1 ∧
    (h.plus i j).read h.nobj = cplus (h.read i) (h.read j) ∧
    ∀ m, m ≠ h.nobj → (h.plus i j).read m = h.read m := by
  obtain ⟨wa, ra, fa⟩ := wf_alloc h hw
  have hn : h.nobj < h.alloc.nobj := by simp [Heap.alloc]
  obtain ⟨w1, n1, r1, f1⟩ := addAll_spec (h.read i) h.alloc wa h.nobj hn
  obtain ⟨w2, n2, r2, f2⟩ := addAll_spec (h.read j) _ w1 h.nobj (by rw [n1]; exact hn)
  refine ⟨w2, by rw [Heap.plus, n2, n1]; rfl, ?_, ?_⟩
  · rw [Heap.plus, r2, r1, ra]; rfl
  · intro m hm
    rw [Heap.plus, f2 m hm, f1 m hm, fa]

end SciVerif.C10
