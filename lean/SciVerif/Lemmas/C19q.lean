import SciVerif.Lemmas.C19p
/-!
# C19 — Bash associative arrays (rank >= 2): `declare -A N`, `N[i,j]=v` …, `export N`
-/
namespace SciVerif.C19

theorem noPrefix' : ∀ (pre name : Str) (c : Char) (w : Str), (∀ ch ∈ name, ch ≠ ' ') → ' ' ∈ pre → c ∉ pre →
    dropPrefix? pre (name ++ c :: w) = none
  | [], _, _, _, _, h, _ => by simp at h
  | a :: pre, [], c, w, _, _, he => by
    have : a ≠ c := fun e => he (by simp [e])
    simp [dropPrefix?, this]
  | a :: pre, x :: name, c, w, hn, hs, he => by
    by_cases e : a = x
    · subst e
      have ha : a ≠ ' ' := hn a (by simp)
      have hs' : ' ' ∈ pre := by
        rcases List.mem_cons.mp hs with h | h
        · exact absurd h.symm ha
        · exact h
      have ih := noPrefix' pre name c w (fun ch hch => hn ch (by simp [hch])) hs' (fun h => he (by simp [h]))
      simpa [dropPrefix?] using ih
    · simp [dropPrefix?, e]

/-- the symbol table while an associative array is being filled: earlier symbols, then this one -/
def assocAcc (prev : List BSym) (name : Str) (exp : Bool) (items : List (Str × Str)) : List BSym :=
  prev ++ [⟨name, .assoc, exp, items⟩]

theorem readBashLine_declare (acc : List BSym) (name : Str) :
    readBashLine acc (cs!"declare -A " ++ name) = some (assocAcc acc name false []) := by
  unfold readBashLine
  rw [dropPrefix_append]
  rfl

theorem map_fresh (prev : List BSym) (name : Str) (f : BSym → BSym) (h : ∀ s ∈ prev, s.name ≠ name) :
    prev.map (fun s => if s.name = name then f s else s) = prev := by
  induction prev with
  | nil => rfl
  | cons a r ih =>
    have ha : a.name ≠ name := h a (by simp)
    simp [ha, ih (fun s hs => h s (by simp [hs]))]

/-- one element line `NAME[i,j]=value` -/
theorem readBashLine_item (prev : List BSym) (name key : Str) (items : List (Str × Str)) (k : Kind) (s : Scalar)
    (hn : ∀ ch ∈ name, bashNameChar ch = true) (hkey : ∀ ch ∈ key, ch ≠ ']') (hk : ScalarOK k s)
    (hfresh : ∀ x ∈ prev, x.name ≠ name) :
    readBashLine (assocAcc prev name false items) (name ++ '[' :: (key ++ ']' :: '=' :: bashScalar s)) =
      some (assocAcc prev name false (items ++ [(key, bashValueText s)])) := by
  have hsp : ∀ ch ∈ name, ch ≠ ' ' := fun ch hch => (bashNameChar_ne ch (hn ch hch)).2.2
  have h1 : dropPrefix? (cs!"declare -A ") (name ++ '[' :: (key ++ ']' :: '=' :: bashScalar s)) = none :=
    noPrefix' _ name '[' _ hsp (by decide) (by decide)
  have h2 : dropPrefix? (cs!"export ") (name ++ '[' :: (key ++ ']' :: '=' :: bashScalar s)) = none :=
    noPrefix' _ name '[' _ hsp (by decide) (by decide)
  have h3 : (name ++ '[' :: (key ++ ']' :: '=' :: bashScalar s)).span bashNameChar =
      (name, '[' :: (key ++ ']' :: '=' :: bashScalar s)) := by
    apply span_stop
    · exact hn
    · intro x r e; simp at e; simp [← e.1, bashNameChar]
  have h4 : (key ++ ']' :: '=' :: bashScalar s).span (fun c => decide (c ≠ ']')) = (key, ']' :: '=' :: bashScalar s) := by
    apply span_stop
    · intro ch hch; simpa using hkey ch hch
    · intro x r e; simp at e; simp [← e.1]
  have h5 := bashWordValue_bashScalar k s hk
  have h6 : (assocAcc prev name false items).find? (fun x => decide (x.name = name ∧ x.kind = .assoc)) =
      some ⟨name, .assoc, false, items⟩ := by
    have hnone : prev.find? (fun x => decide (x.name = name ∧ x.kind = .assoc)) = none := by
      rw [List.find?_eq_none]
      intro x hx
      have := hfresh x hx
      simp [this]
    unfold assocAcc
    rw [List.find?_append, hnone]
    simp
  simp only [readBashLine, h1, bashHead, h2, h3, readBashTail, h4, Bool.false_eq_true, if_false, h5, h6]
  simp [assocAcc, map_fresh prev name _ hfresh]

/-- the closing `export NAME` -/
theorem readBashLine_export (prev : List BSym) (name : Str) (items : List (Str × Str))
    (hn : ∀ ch ∈ name, bashNameChar ch = true) (hfresh : ∀ x ∈ prev, x.name ≠ name) :
    readBashLine (assocAcc prev name false items) (cs!"export " ++ name) =
      some (assocAcc prev name true items) := by
  have h1 : dropPrefix? (cs!"declare -A ") (cs!"export " ++ name) = none := by simp [dropPrefix?]
  have h3 : name.span bashNameChar = (name, []) := by
    have := span_stop bashNameChar name [] hn (by intro x r e; cases e)
    simpa using this
  simp only [readBashLine, h1, bashHead, dropPrefix_append, h3, readBashTail, if_true]
  simp [assocAcc, map_fresh prev name _ hfresh]

theorem commaNats_no (c : Char) (hc : floatChar c = false) (hcomma : c ≠ ',') (sh : List Nat) :
    ∀ ch ∈ commaNats sh, ch ≠ c := by
  have : ∀ (ls : List Str), (∀ l ∈ ls, ∀ x ∈ l, x ≠ c) → ∀ x ∈ joinWith [','] ls, x ≠ c := by
    intro ls
    induction ls with
    | nil => intro _ x hx; simp [joinWith] at hx
    | cons a r ih =>
      intro h x hx
      cases r with
      | nil => exact h a (by simp) x (by simpa [joinWith] using hx)
      | cons b r =>
        simp only [joinWith, List.mem_append, List.mem_singleton] at hx
        rcases hx with (hx | hx) | hx
        · exact h a (by simp) x hx
        · subst hx; exact fun e => hcomma e.symm
        · exact ih (fun l hl => h l (by simp [hl])) x hx
  exact this (sh.map showNat) (by
    intro l hl
    obtain ⟨d, _, rfl⟩ := List.mem_map.mp hl
    exact showNat_no d c hc)

mutual
/-- the element lines of an associative array fill the symbol in the order of the expected items -/
theorem fold_assoc (prev : List BSym) (name : Str) (k : Kind) (hn : ∀ ch ∈ name, bashNameChar ch = true)
    (hfresh : ∀ x ∈ prev, x.name ≠ name) : (v : Val) → ValOK k v → ∀ (coord : List Nat) (items : List (Str × Str)),
    (bashAssoc name coord v).foldlM readBashLine (assocAcc prev name false items) =
      some (assocAcc prev name false (items ++ (match v with
        | .leaf _ => []
        | .arr ws => bashItemsList coord 0 ws)))
  | .leaf _, _, coord, items => by simp [bashAssoc]
  | .arr ws, h, coord, items => by
    simp only [bashAssoc]
    exact fold_assocList prev name k hn hfresh ws (by simpa [ValOK] using h) coord 0 items
theorem fold_assocList (prev : List BSym) (name : Str) (k : Kind) (hn : ∀ ch ∈ name, bashNameChar ch = true)
    (hfresh : ∀ x ∈ prev, x.name ≠ name) : (vs : List Val) → ValsOK k vs →
    ∀ (coord : List Nat) (i : Nat) (items : List (Str × Str)),
    (bashAssocList name coord i vs).foldlM readBashLine (assocAcc prev name false items) =
      some (assocAcc prev name false (items ++ bashItemsList coord i vs))
  | [], _, coord, i, items => by simp [bashAssocList, bashItemsList]
  | .leaf s :: vs, h, coord, i, items => by
    have hs : ScalarOK k s := by simpa [ValOK] using h.1
    have hkey := commaNats_no ']' (by decide) (by decide) (coord ++ [i])
    have h1 := readBashLine_item prev name (commaNats (coord ++ [i])) items k s hn hkey hs hfresh
    have ih := fold_assocList prev name k hn hfresh vs h.2 coord (i + 1)
      (items ++ [(commaNats (coord ++ [i]), bashValueText s)])
    simp only [bashAssocList, List.foldlM_cons, bashItemsList, bashItems]
    rw [show (name ++ ['['] ++ commaNats (coord ++ [i]) ++ [']', '='] ++ bashScalar s) =
      (name ++ '[' :: (commaNats (coord ++ [i]) ++ ']' :: '=' :: bashScalar s)) by simp, h1]
    simpa using ih
  | .arr ws :: vs, h, coord, i, items => by
    have h1 := fold_assoc prev name k hn hfresh (.arr ws) h.1 (coord ++ [i]) items
    have ih := fold_assocList prev name k hn hfresh vs h.2 coord (i + 1)
      (items ++ bashItemsList (coord ++ [i]) 0 ws)
    simp only [bashAssoc] at h1
    simp only [bashAssocList, List.foldlM_append, h1, bashItemsList, bashItems]
    simpa using ih
end

/-! ## one parameter of any rank -/

/-- what the whole-file theorem asks of a parameter (any rank) -/
def ParamOKBashAll (ren : Bool) (p : Param) : Prop :=
  (∀ ch ∈ rename ren p.name, bashNameChar ch = true) ∧ clean (rename ren p.name) = true ∧ NoNL p.value ∧
  ValOK p.kind p.value ∧ ∃ sh, rectShape p.value = some sh ∧ 0 ∉ sh

theorem leaves_of_children : ∀ vs : List Val, (∀ t ∈ vs, rectShape t = some []) → ∃ ss : List Scalar, vs = ss.map Tree.leaf
  | [], _ => ⟨[], rfl⟩
  | v :: vs, h => by
    obtain ⟨s, rfl⟩ := leaf_of_shape_nil v (h v (by simp))
    obtain ⟨ss, rfl⟩ := leaves_of_children vs (fun t ht => h t (by simp [ht]))
    exact ⟨s :: ss, rfl⟩

theorem valsOK_leaves (k : Kind) : ∀ ss : List Scalar, ValsOK k (ss.map Tree.leaf) → ∀ s ∈ ss, ScalarOK k s
  | [], _, s, hs => by simp at hs
  | t :: ss, h, s, hs => by
    simp only [List.map_cons, ValsOK] at h
    rcases List.mem_cons.mp hs with rfl | hs
    · simpa [ValOK] using h.1
    · exact valsOK_leaves k ss h.2 s hs

/-- scalars and one-dimensional arrays in the form the flat theorem uses -/
theorem flat_of_rank_le_one (ren : Bool) (p : Param) (hok : ParamOKBashAll ren p) (sh : List Nat)
    (hr : rectShape p.value = some sh) (h0 : 0 ∉ sh) (hrank : sh.length ≤ 1) : ParamOKBash ren p := by
  obtain ⟨hn, hcn, hnl, hv, _⟩ := hok
  refine ⟨hn, hcn, hnl, ?_⟩
  cases sh with
  | nil =>
    obtain ⟨s, hs⟩ := leaf_of_shape_nil p.value hr
    exact Or.inl ⟨s, hs, by rw [hs] at hv; simpa [ValOK] using hv⟩
  | cons n r =>
    have hr0 : r = [] := by cases r with
      | nil => rfl
      | cons _ _ => simp at hrank
    subst hr0
    cases hp : p.value with
    | leaf s => rw [hp] at hr; simp [rectShape] at hr
    | arr vs =>
      rw [hp] at hr hv
      rcases rectShape_arr vs [n] hr with ⟨_, h2⟩ | ⟨s, h2, hne, hall⟩
      · simp at h2; simp [h2] at h0
      · simp at h2
        rw [h2.2] at hall
        obtain ⟨ss, rfl⟩ := leaves_of_children vs hall
        refine Or.inr ⟨ss, ?_, rfl, valsOK_leaves p.kind ss (by simpa [ValOK] using hv)⟩
        intro e; subst e; exact hne rfl

mutual
theorem assoc_lines_clean (name : Str) (hcn : clean name = true) (k : Kind) :
    (v : Val) → ValOK k v → NoNL v → ∀ (coord : List Nat), ∀ l ∈ bashAssoc name coord v, clean l = true ∧ l ≠ []
  | .leaf _, _, _, coord, l, hl => by simp [bashAssoc] at hl
  | .arr ws, hv, hn, coord, l, hl => by
    simp only [bashAssoc] at hl
    exact assocList_lines_clean name hcn k ws (by simpa [ValOK] using hv) (by simpa [NoNL] using hn) coord 0 l hl
theorem assocList_lines_clean (name : Str) (hcn : clean name = true) (k : Kind) :
    (vs : List Val) → ValsOK k vs → NoNLs vs → ∀ (coord : List Nat) (i : Nat),
      ∀ l ∈ bashAssocList name coord i vs, clean l = true ∧ l ≠ []
  | [], _, _, coord, i, l, hl => by simp [bashAssocList] at hl
  | .leaf s :: vs, hv, hn, coord, i, l, hl => by
    simp only [bashAssocList, List.mem_cons] at hl
    rcases hl with rfl | hl
    · have hs : ScalarOK k s := by simpa [ValOK] using hv.1
      have := clean_bashScalar k s hs hn.1
      refine ⟨?_, by simp⟩
      simp [clean_append, clean_cons, hcn, clean_commaNats, this]
    · exact assocList_lines_clean name hcn k vs hv.2 hn.2 coord (i + 1) l hl
  | .arr ws :: vs, hv, hn, coord, i, l, hl => by
    simp only [bashAssocList, List.mem_append] at hl
    rcases hl with hl | hl
    · exact assoc_lines_clean name hcn k (.arr ws) hv.1 hn.1 (coord ++ [i]) l (by simpa [bashAssoc] using hl)
    · exact assocList_lines_clean name hcn k vs hv.2 hn.2 coord (i + 1) l hl
end

/-- the lines of one parameter, read after any symbols with other names, add exactly its symbol -/
theorem param_lines (exp ren : Bool) (p : Param) (hok : ParamOKBashAll ren p) (acc : List BSym)
    (hfresh : ∀ x ∈ acc, x.name ≠ rename ren p.name) :
    ∃ ls, lineBash exp ren p = some ls ∧ ls.foldlM readBashLine acc = some (acc ++ [bashSymOf exp ren p]) ∧
      ∀ l ∈ ls, clean l = true ∧ l ≠ [] := by
  obtain ⟨hn, hcn, hnl, hv, sh, hr, h0⟩ := hok
  by_cases hrank : sh.length ≤ 1
  · have hflat := flat_of_rank_le_one ren p ⟨hn, hcn, hnl, hv, sh, hr, h0⟩ sh hr h0 hrank
    refine ⟨[lineBash1 exp ren p], lineBash_flat exp ren p hflat, ?_, ?_⟩
    · simp [List.foldlM_cons, readBashLine_line1 exp ren p hflat acc]
    · intro l hl
      simp only [List.mem_singleton] at hl
      subst hl
      exact lineBash1_clean exp ren p hflat
  · have hs := shapeOf_of_rect p.value sh hr h0
    obtain ⟨ws, hws⟩ : ∃ ws, p.value = .arr ws := by
      cases hp : p.value with
      | leaf s => rw [hp] at hr; simp [rectShape] at hr; rw [hr] at hrank; simp at hrank
      | arr ws => exact ⟨ws, rfl⟩
    have hlen : sh.length > 1 := by omega
    let name := rename ren p.name
    refine ⟨[cs!"declare -A " ++ name] ++ bashAssoc name [] p.value ++ (if exp then [cs!"export " ++ name] else []), ?_, ?_, ?_⟩
    · simp only [lineBash, hws] at hs ⊢
      simp [hs, hlen, name]
    · have hfold := fold_assoc acc name p.kind hn hfresh p.value hv [] []
      have hsym : bashSymOf exp ren p = ⟨name, .assoc, exp, bashItems [] p.value⟩ := by
        unfold bashSymOf
        rw [hs]
        cases sh with
        | nil => simp at hlen
        | cons a r =>
          cases r with
          | nil => simp at hlen
          | cons b r => rfl
      rw [hsym]
      rw [List.foldlM_append, List.foldlM_append]
      simp only [List.foldlM_cons, List.foldlM_nil, readBashLine_declare, Option.bind_eq_bind, Option.bind_some,
        Option.pure_def, hfold, List.nil_append]
      rw [hws]
      simp only [bashItems]
      cases exp
      · simp [assocAcc]
      · have he := readBashLine_export acc name (bashItemsList [] 0 ws) hn hfresh
        simp only [if_true, List.foldlM_cons, List.foldlM_nil, he, Option.bind_eq_bind, Option.bind_some, Option.pure_def]
        simp [assocAcc]
    · intro l hl
      simp only [List.mem_append, List.mem_singleton] at hl
      rcases hl with (hl | hl) | hl
      · subst hl
        refine ⟨?_, by simp⟩
        show clean (cs!"declare -A " ++ rename ren p.name) = true
        rw [clean_append, hcn]; decide
      · exact assoc_lines_clean name hcn p.kind p.value hv hnl [] l hl
      · cases exp
        · simp at hl
        · simp at hl
          subst hl
          refine ⟨?_, by simp⟩
          show clean (cs!"export " ++ rename ren p.name) = true
          rw [clean_append, hcn]; decide

/-! ## whole files, any rank -/

theorem bashSymOf_name (exp ren : Bool) (p : Param) : (bashSymOf exp ren p).name = rename ren p.name := rfl

/-- parameter after parameter: the lines of all parameters, read in order, give all symbols in order -/
theorem foldlM_params (exp ren : Bool) : ∀ (data : List Param) (acc : List BSym),
    (∀ p ∈ data, ParamOKBashAll ren p) → (data.map (fun p => rename ren p.name)).Nodup →
    (∀ x ∈ acc, ∀ p ∈ data, x.name ≠ rename ren p.name) →
    ∃ lss, data.mapM (lineBash exp ren) = some lss ∧
      lss.flatten.foldlM readBashLine acc = some (acc ++ data.map (bashSymOf exp ren)) ∧
      ∀ l ∈ lss.flatten, clean l = true ∧ l ≠ []
  | [], acc, _, _, _ => ⟨[], rfl, by simp, by simp⟩
  | p :: ps, acc, hok, hnd, hacc => by
    obtain ⟨ls, h1, h2, h3⟩ := param_lines exp ren p (hok p (by simp)) acc (fun x hx => hacc x hx p (by simp))
    have hnd' : (ps.map (fun p => rename ren p.name)).Nodup := (List.nodup_cons.mp hnd).2
    have hnotin : rename ren p.name ∉ ps.map (fun p => rename ren p.name) := (List.nodup_cons.mp hnd).1
    obtain ⟨lss, i1, i2, i3⟩ := foldlM_params exp ren ps (acc ++ [bashSymOf exp ren p])
      (fun q hq => hok q (by simp [hq])) hnd' (by
        intro x hx q hq
        rcases List.mem_append.mp hx with hx | hx
        · exact hacc x hx q (by simp [hq])
        · simp only [List.mem_singleton] at hx
          subst hx
          rw [bashSymOf_name]
          intro e
          exact hnotin (List.mem_map.mpr ⟨q, hq, e.symm⟩))
    refine ⟨ls :: lss, by simp [List.mapM_cons, h1, i1], ?_, ?_⟩
    · rw [List.flatten_cons, List.foldlM_append, h2]
      simp only [Option.bind_eq_bind, Option.bind_some, i2]
      simp
    · intro l hl
      rw [List.flatten_cons, List.mem_append] at hl
      rcases hl with hl | hl
      · exact h3 l hl
      · exact i3 l hl

/-- **whole Bash files**, scalars, indexed and associative arrays -/
theorem readBash_exportBash_all (exp ren : Bool) (data : List Param) (hok : ∀ p ∈ data, ParamOKBashAll ren p)
    (hnd : (data.map (fun p => rename ren p.name)).Nodup) :
    (exportBash exp ren data).bind readBash = some (expectedBash exp ren data) := by
  obtain ⟨lss, h1, h2, h3⟩ := foldlM_params exp ren data [] hok hnd (by simp)
  simp only [exportBash, h1, Option.bind_eq_bind, Option.bind_some, expectedBash_eq]
  cases hfl : lss.flatten with
  | nil =>
    rw [hfl] at h2
    simp at h2
    simp [joinWith, readBash, h2]
  | cons l ls =>
    rw [hfl] at h2 h3
    have hne : joinWith ['\n'] (l :: ls) ≠ [] :=
      joinWith_ne_nil _ _ ⟨l, by simp, (h3 l (by simp)).2⟩
    have hl := lines_joinWith (l :: ls) (by simp) (fun x hx => (clean_iff x).mp (h3 x hx).1)
    simp only [readBash, hne, if_false, hl, h2, List.nil_append]

end SciVerif.C19
