import SciVerif.Lemmas.C10q

/-! C10: sequences of units — parenthesis-free chains and parenthesised chains with optional
    counts — separated by blanks: `(OH)2 (CH3)3`, `Ca(OH)2 (H2O)6`, `(NH4)2 S O4`. -/
set_option linter.unusedSimpArgs false
set_option linter.unusedVariables false
namespace SciVerif.C10

/-- a unit: a chain, or a parenthesised chain with a count text (possibly empty) -/
inductive U where
  | ch (it : Item) (r : Rest)
  | gr (it : Item) (r : Rest) (dg : Str)

def U.OK : U → Prop
  | .ch it r => it.OK ∧ restOK r
  | .gr it r dg => it.OK ∧ restOK r ∧ AllDig dg

def U.isCh : U → Bool
  | .ch _ _ => true
  | .gr _ _ _ => false

/-- units separated by `k` blanks or by ` + ` -/
inductive Sq where
  | one (u : U)
  | cons (u : U) (g : Gap) (s : Sq)

def Sq.head : Sq → U
  | .one u => u
  | .cons u _ _ => u

/-- no two chains side by side (they would be one chain) -/
def Sq.valid : Sq → Prop
  | .one u => u.OK
  | .cons u k s => u.OK ∧ s.valid ∧ (u.isCh = true → s.head.isCh = false)

def mulTxt (dg : Str) : Str := if dg.isEmpty then [] else symMul ++ dg

/-- the text of a unit after `st` passes -/
def ux (st : Nat) : U → Str
  | .ch it r => if st = 0 then chainText it r else if st = 1 then chainText it (allPlus r) else explChain it r
  | .gr it r dg =>
    '(' :: ((if st = 0 then chainText it r else if st = 1 then chainText it (allPlus r) else explChain it r) ++
      ')' :: (if st = 4 then mulTxt dg else dg))

def sepx (st : Nat) (g : Gap) (next : U) : Str :=
  match g with
  | .plus => symAdd
  | .blanks k => if st = 4 then symAdd else if st = 3 ∧ next.isCh = false then symAdd else List.replicate k ' '

def tx (st : Nat) : Sq → Str
  | .one u => ux st u
  | .cons u k s => ux st u ++ (sepx st k s.head ++ tx st s)

theorem blanks_eq (k : Nat) : ∀ c ∈ List.replicate k ' ', c = ' ' := fun c hc => List.eq_of_mem_replicate hc
theorem blanks_inert (k : Nat) : ∀ c ∈ List.replicate k ' ', Inert c := by
  intro c hc; rw [blanks_eq k c hc]; decide
theorem blanks_ws (k : Nat) : ∀ c ∈ List.replicate k ' ', isWs c = true := by
  intro c hc; rw [blanks_eq k c hc]; decide

theorem tx_head_gr (st : Nat) (s : Sq) (h : s.head.isCh = false) : ∃ Y, tx st s = '(' :: Y := by
  cases s with
  | one u => cases u with
    | ch it r => simp [Sq.head, U.isCh] at h
    | gr it r dg => exact ⟨_, rfl⟩
  | cons u k s' => cases u with
    | ch it r => simp [Sq.head, U.isCh] at h
    | gr it r dg => exact ⟨_, by simp [tx, ux]; rfl⟩

/-! ### pass 1 -/

theorem steps_uncons (e : Char) (he : Inert e) (m : Nat) : ∀ (s t : Str), StepsTo m (e :: s) (e :: t) →
    StepsTo m s t := by
  have hstep : ∀ x, pass1Step (e :: x) = (pass1Step x).map (e :: ·) := by
    intro x
    have := pass1Step_inert [e] x (by intro c hc; rw [List.mem_singleton.mp hc]; exact he)
    simpa using this
  induction m with
  | zero =>
    intro s t h
    obtain ⟨h1, hn⟩ := h
    rw [hstep] at hn
    refine ⟨by simpa using h1, ?_⟩
    cases hp : pass1Step s with
    | none => rfl
    | some x => rw [hp] at hn; cases hn
  | succ m ih =>
    intro s t h
    obtain ⟨x, hx, hs⟩ := h
    rw [hstep] at hx
    cases hp : pass1Step s with
    | none => rw [hp] at hx; cases hx
    | some x' =>
      rw [hp] at hx
      simp only [Option.map_some, Option.some.injEq] at hx
      subst hx
      exact ⟨x', hp, ih x' t hs⟩

theorem steps_digits (dg : Str) (hd : AllDig dg) : StepsTo 0 dg dg := by
  have := N1_run dg [] (fun c hc => inert_of_isDig c (hd c hc)) N1_nil
  exact ⟨rfl, by simpa [N1] using this⟩

theorem steps_seq (s : Sq) : s.valid → ∃ n, n ≤ (tx 0 s).length ∧ StepsTo n (tx 0 s) (tx 1 s) := by
  have hq2 : Sep [')'] := ⟨[], ')', rfl, by simp, Or.inl (Or.inr rfl)⟩
  have hlp : ∀ c ∈ ['('], Inert c := by decide
  induction s with
  | one u =>
    intro hv
    cases u with
    | ch it r =>
      refine ⟨unres r, ?_, by simpa [tx, ux] using steps_chain (unres r) it r hv.1 hv.2 rfl⟩
      have := unres_le r it; have := length_le_chainText r it hv.1 hv.2
      simp only [tx, ux, if_true]; omega
    | gr it r dg =>
      obtain ⟨hok, hr, hd⟩ := hv
      have sB := steps_sep [')'] hq2 (unres r) _ _ 0 dg dg (steps_chain (unres r) it r hok hr rfl) (steps_digits dg hd)
      have := steps_prefix ['('] hlp _ _ _ sB
      refine ⟨unres r + 0, ?_, by simpa [tx, ux] using this⟩
      have := unres_le r it; have := length_le_chainText r it hok hr
      simp only [tx, ux, if_true, List.length_cons, List.length_append]; omega
  | cons u g s ih =>
    intro hv
    obtain ⟨hu, hvs, h1⟩ := hv
    obtain ⟨m, hm, hs⟩ := ih hvs
    cases u with
    | ch it r =>
      have hg : s.head.isCh = false := h1 rfl
      obtain ⟨Y0, e0⟩ := tx_head_gr 0 s hg
      obtain ⟨Y1, e1⟩ := tx_head_gr 1 s hg
      rw [e0, e1] at hs
      cases g with
      | blanks k =>
        have hs' := steps_uncons '(' (by decide) m _ _ hs
        have hq1 : Sep (List.replicate k ' ' ++ ['(']) := ⟨_, '(', rfl, blanks_eq k, Or.inl (Or.inl rfl)⟩
        have := steps_sep _ hq1 (unres r) _ _ m _ _ (steps_chain (unres r) it r hu.1 hu.2 rfl) hs'
        refine ⟨unres r + m, ?_, by simpa [tx, ux, sepx, e0, e1, List.append_assoc] using this⟩
        have := unres_le r it; have := length_le_chainText r it hu.1 hu.2
        simp only [tx, ux, if_true, List.length_cons, List.length_append]; omega
      | plus =>
        have hs' := steps_cons_inert ' ' (by decide) m _ _ hs
        have hq1 : Sep ([' '] ++ ['+']) := ⟨[' '], '+', rfl, by simp, Or.inr ⟨rfl, by simp⟩⟩
        have := steps_sep _ hq1 (unres r) _ _ m _ _ (steps_chain (unres r) it r hu.1 hu.2 rfl) hs'
        refine ⟨unres r + m, ?_, by simpa [tx, ux, sepx, e0, e1, symAdd, List.append_assoc] using this⟩
        have := unres_le r it; have := length_le_chainText r it hu.1 hu.2
        simp only [tx, ux, if_true, List.length_cons, List.length_append]; omega
    | gr it r dg =>
      obtain ⟨hok, hr, hd⟩ := hu
      have hp : ∀ c ∈ dg ++ sepx 0 g s.head, Inert c := by
        intro c hc
        rcases List.mem_append.mp hc with h | h
        · exact inert_of_isDig c (hd c h)
        · cases g with
          | blanks k => exact blanks_inert k c (by simpa [sepx] using h)
          | plus => exact inert_symAdd c (by simpa [sepx] using h)
      have e01 : sepx 1 g s.head = sepx 0 g s.head := by cases g <;> simp [sepx]
      have s1 := steps_prefix _ hp m _ _ hs
      have sB := steps_sep [')'] hq2 (unres r) _ _ m _ _ (steps_chain (unres r) it r hok hr rfl) s1
      have := steps_prefix ['('] hlp _ _ _ sB
      refine ⟨unres r + m, ?_, by simpa [tx, ux, e01, List.append_assoc] using this⟩
      have := unres_le r it; have := length_le_chainText r it hok hr
      simp only [tx, ux, if_true, List.length_cons, List.length_append]; omega

/-! ### pass 2 -/

/-- pass 2 on a resolved chain followed by blanks and a parenthesis -/
theorem P2_chain_X (bl : Str) (e : Char) (s0 tX : Str) (hbl : ∀ c ∈ bl, c = ' ') (he : Mark e ∨ bl ≠ [])
    (h : P2 (bl ++ e :: s0) tX) (r : Rest) (it : Item) (hok : it.OK) (hr : restOK r) :
    P2 (chainText it (allPlus r) ++ (bl ++ e :: s0)) (explChain it r ++ tX) := by
  apply P2_chain_tail _ _ _ r it hok hr
  intro it' hok'
  cases bl with
  | nil =>
    simp only [List.nil_append] at h ⊢
    have he' : Mark e := by
      rcases he with he | hne
      · exact he
      · exact absurd rfl hne
    exact P2_item_mark it' s0 tX e he' hok' h
  | cons b t =>
    have hb : b = ' ' := hbl b (by simp)
    subst hb
    refine P2_item it' _ _ hok' (Or.inr ⟨' ', t ++ e :: s0, by simp, Or.inr (Or.inr rfl)⟩) ?_ h
    rintro ⟨_, c, r', e', hc⟩
    simp only [List.cons_append, List.cons.injEq] at e'
    rw [← e'.1] at hc; exact absurd hc (by decide)

theorem P2_seq (s : Sq) : s.valid → P2 (tx 1 s) (tx 2 s) := by
  induction s with
  | one u =>
    intro hv
    cases u with
    | ch it r => simpa [tx, ux] using P2_chain r it hv.1 hv.2
    | gr it r dg =>
      obtain ⟨hok, hr, hd⟩ := hv
      have hdd : P2 (')' :: dg) (')' :: dg) := by
        have := P2_run (')' :: dg) [] [] (by
          intro c hc
          rcases List.mem_cons.mp hc with rfl | h
          · decide
          · exact inert_of_isDig c (hd c h)) P2_nil
        simpa using this
      have := P2_inert '(' _ _ (by decide) (P2_chain_X [] ')' dg _ (by simp) (Or.inl (Or.inr rfl)) hdd r it hok hr)
      simpa [tx, ux] using this
  | cons u g s ih =>
    intro hv
    obtain ⟨hu, hvs, h1⟩ := hv
    have hs := ih hvs
    cases u with
    | ch it r =>
      have hg : s.head.isCh = false := h1 rfl
      obtain ⟨Y1, e1⟩ := tx_head_gr 1 s hg
      cases g with
      | blanks k =>
        have hX := P2_run (List.replicate k ' ') _ _ (blanks_inert k) hs
        rw [e1] at hX
        have := P2_chain_X _ '(' Y1 _ (blanks_eq k) (Or.inl (Or.inl rfl)) hX r it hu.1 hu.2
        simpa [tx, ux, sepx, e1, List.append_assoc] using this
      | plus =>
        have hX := P2_run symAdd _ _ inert_symAdd hs
        have := P2_chain_X [' '] '+' (' ' :: tx 1 s) _ (by simp) (Or.inr (by simp)) hX r it hu.1 hu.2
        simpa [tx, ux, sepx, symAdd, List.append_assoc] using this
    | gr it r dg =>
      obtain ⟨hok, hr, hd⟩ := hu
      have e12 : sepx 2 g s.head = sepx 1 g s.head := by cases g <;> simp [sepx]
      have hp : ∀ c ∈ ')' :: (dg ++ sepx 1 g s.head), Inert c := by
        intro c hc
        rcases List.mem_cons.mp hc with rfl | h
        · decide
        · rcases List.mem_append.mp h with h | h
          · exact inert_of_isDig c (hd c h)
          · cases g with
            | blanks k => exact blanks_inert k c (by simpa [sepx] using h)
            | plus => exact inert_symAdd c (by simpa [sepx] using h)
      have hX := P2_run _ _ _ hp hs
      simp only [List.cons_append] at hX
      have := P2_inert '(' _ _ (by decide) (P2_chain_X [] ')' _ _ (by simp) (Or.inl (Or.inr rfl)) hX r it hok hr)
      simpa [tx, ux, e12, List.append_assoc] using this

/-! ### pass 3 -/

theorem isEmpty_false_of_ne' {dg : Str} (h : dg ≠ []) : dg.isEmpty = false := by
  cases dg with
  | nil => exact absurd rfl h
  | cons a t => rfl

theorem P3_lparen (r tr : Str) (h : P3 r tr) : P3 ('(' :: r) ('(' :: tr) := by
  intro fuel hf
  cases fuel with
  | zero => simp at hf
  | succ n =>
    simp only [List.length_cons] at hf
    rw [pass3_lparen, h n (by omega)]

theorem P3_lparen_tail (r tr : Str) (h : P3 ('(' :: r) ('(' :: tr)) : P3 r tr := by
  intro fuel hf
  have := h (fuel + 1) (by simp only [List.length_cons]; omega)
  rw [pass3_lparen] at this
  simpa using this

theorem notSpec3_look (l : Char) (h : notSpec3 l = true) : l ≠ '(' ∧ isWs l = false := by
  simp only [notSpec3, Bool.not_eq_true', Bool.or_eq_false_iff] at h
  exact ⟨by simpa using h.1.2, h.2⟩

/-- what follows a chain: given how pass 3 treats any final word in front of `rest` -/
def Fin3 (rest trest : Str) : Prop :=
  ∀ (w0 : Str) (l : Char), (∀ c ∈ w0, c ≠ '(' ∧ isWs c = false) → notSpec3 l = true →
    P3 (w0 ++ l :: rest) (w0 ++ l :: trest)

theorem P3_item_gen (rest trest : Str) (hfin : Fin3 rest trest) (it : Item) (hok : it.OK) :
    P3 (it.expl ++ rest) (it.expl ++ trest) := by
  have hsl := sp_look it hok
  by_cases hd : it.dg = []
  · obtain ⟨w0, l, e, hl⟩ := shape_last it.sp hok.1
    have := hfin w0 l (sublist_look l e hsl) hl
    simpa [Item.expl, hd, e, List.append_assoc] using this
  · obtain ⟨d0, l, e, hl⟩ := dig_last it.dg hok.2 hd
    have hdl := dig_look it.dg hok.2
    have h1 := hfin d0 l (sublist_look l e hdl) hl
    have e1 : ∀ z : Str, d0 ++ l :: z = it.dg ++ z := by intro z; rw [e]; simp
    rw [e1, e1] at h1
    obtain ⟨h2, h3⟩ := P3_op' '*' (Or.inr rfl) _ _ h1 (head_look it.dg _ hd hdl)
    have := P3_run it.sp _ _ hsl h3 h2
    have hde : it.dg.isEmpty = false := by
      cases h : it.dg with
      | nil => exact absurd h hd
      | cons a t => rfl
    simpa [Item.expl, hde, symMul, List.append_assoc] using this

theorem P3_explChain_gen (rest trest : Str) (hfin : Fin3 rest trest) (r : Rest) :
    ∀ (it : Item), it.OK → restOK r → P3 (explChain it r ++ rest) (explChain it r ++ trest) := by
  induction r with
  | nil => intro it hok _; exact P3_item_gen rest trest hfin it hok
  | cons gi t ih =>
    intro it hok hr
    obtain ⟨g, it2⟩ := gi
    have hok2 : it2.OK := hr (g, it2) (by simp)
    have hr2 : restOK t := fun x hx => hr x (by simp [hx])
    have := P3_item_mid it hok _ _ (ih it2 hok2 hr2) (explChain_head t it2 hok2 _)
    simpa [explChain, List.append_assoc] using this

/-- the group closes with `)dg`, then blanks and the next `(` -/
theorem fin3_close_paren (dg bl X tX : Str) (hd : AllDig dg) (hbl : ∀ c ∈ bl, isWs c = true) (hX : P3 X tX) :
    Fin3 (')' :: (dg ++ (bl ++ '(' :: X))) (')' :: (dg ++ (symAdd ++ '(' :: tX))) := by
  intro w0 l hw hl
  have hdl := dig_look dg hd
  by_cases hdn : dg = []
  · subst hdn
    have := P3_before bl X tX hbl hX ')' (by decide) (w0 ++ [l]) (by
      intro c hc
      rcases List.mem_append.mp hc with h | h
      · exact hw c h
      · rw [List.mem_singleton.mp h]; exact notSpec3_look l hl)
    simpa [List.append_assoc] using this
  · obtain ⟨d0, ld, e, hld⟩ := dig_last dg hd hdn
    have := P3_before bl X tX hbl hX ld hld (w0 ++ l :: ')' :: d0) (by
      intro c hc
      rcases List.mem_append.mp hc with h | h
      · exact hw c h
      · rcases List.mem_cons.mp h with rfl | h
        · exact notSpec3_look _ hl
        · rcases List.mem_cons.mp h with rfl | h
          · decide
          · exact sublist_look ld e hdl c h)
    rw [e]
    simpa [List.append_assoc] using this

/-- what follows needs no change and the look-ahead from the final word does not reach a `(` -/
theorem fin3_run (rest trest : Str) (hl3 : look3 rest = true) (h : P3 rest trest) : Fin3 rest trest := by
  intro w0 l hw hl
  have := P3_run (w0 ++ [l]) rest trest (by
    intro c hc
    rcases List.mem_append.mp hc with h | h
    · exact hw c h
    · rw [List.mem_singleton.mp h]; exact notSpec3_look l hl) hl3 h
  simpa [List.append_assoc] using this

theorem look3_blank (bl' X : Str) (hbl : ∀ c ∈ bl', c = ' ')
    (hX : ∃ a t, X = a :: t ∧ isWs a = false ∧ a ≠ '(') : look3 (' ' :: (bl' ++ X)) = true := by
  obtain ⟨a, t, rfl, ha, hp⟩ := hX
  have e1 : notSpec3 ' ' = false := by decide
  have hws : ∀ c ∈ ' ' :: bl', isWs c = true := by
    intro c hc
    rcases List.mem_cons.mp hc with rfl | h
    · decide
    · rw [hbl c h]; decide
  simp only [look3, List.dropWhile_cons, e1, Bool.false_eq_true, if_false]
  rw [← List.dropWhile_cons, ← List.cons_append, List.dropWhile_append_of_pos hws]
  simp only [List.dropWhile_cons, ha, Bool.false_eq_true, if_false]
  split
  · rename_i heq; simp only [List.cons.injEq] at heq; exact absurd heq.1 hp
  · rfl

theorem P3_blanks (k : Nat) (X tX : Str) (h : P3 X tX)
    (hX : ∃ a t, X = a :: t ∧ isWs a = false ∧ a ≠ '(') :
    P3 (List.replicate k ' ' ++ X) (List.replicate k ' ' ++ tX) := by
  induction k with
  | zero => simpa using h
  | succ k ih =>
    rw [List.replicate_succ, List.cons_append, List.cons_append]
    exact P3_copy ' ' _ _ (look3_blank _ X (blanks_eq k) hX) ih


theorem look3_item_op (it : Item) (hok : it.OK) (x : Str) : look3 (it.expl ++ (symAdd ++ x)) = true := by
  have hsl := sp_look it hok
  have h1 : ∀ (c : Char) (y : Str), (c = '+' ∨ c = '*') → look3 (it.sp ++ ' ' :: c :: y) = true := by
    intro c y hc
    apply look3_run it.sp _ hsl
    apply look3_ws_stop c y <;> rcases hc with rfl | rfl <;> decide
  by_cases hd : it.dg = []
  · have := h1 '+' (' ' :: x) (Or.inl rfl)
    simpa [Item.expl, hd, symAdd] using this
  · have := h1 '*' (' ' :: (it.dg ++ (symAdd ++ x))) (Or.inr rfl)
    simpa [Item.expl, isEmpty_false_of_ne' hd, symMul, List.append_assoc] using this

/-- a word glued in front of the last item of a chain -/
theorem P3_item_gen_w (rest trest : Str) (hfin : Fin3 rest trest) (it : Item) (hok : it.OK)
    (w : Str) (hw : ∀ c ∈ w, c ≠ '(' ∧ isWs c = false) :
    P3 (w ++ (it.expl ++ rest)) (w ++ (it.expl ++ trest)) := by
  have hsl := sp_look it hok
  have hwsp : ∀ c ∈ w ++ it.sp, c ≠ '(' ∧ isWs c = false := by
    intro c hc
    rcases List.mem_append.mp hc with h | h
    · exact hw c h
    · exact hsl c h
  by_cases hd : it.dg = []
  · obtain ⟨s0, l, e, hl⟩ := shape_last it.sp hok.1
    have := hfin (w ++ s0) l (by
      intro c hc
      rcases List.mem_append.mp hc with h | h
      · exact hw c h
      · exact sublist_look l e hsl c h) hl
    simpa [Item.expl, hd, e, List.append_assoc] using this
  · obtain ⟨d0, l, e, hl⟩ := dig_last it.dg hok.2 hd
    have hdl := dig_look it.dg hok.2
    have h1 := hfin d0 l (sublist_look l e hdl) hl
    have e1 : ∀ z : Str, d0 ++ l :: z = it.dg ++ z := by intro z; rw [e]; simp
    rw [e1, e1] at h1
    obtain ⟨h2, h3⟩ := P3_op' '*' (Or.inr rfl) _ _ h1 (head_look it.dg _ hd hdl)
    have := P3_run (w ++ it.sp) _ _ hwsp h3 h2
    simpa [Item.expl, isEmpty_false_of_ne' hd, symMul, List.append_assoc] using this

theorem P3_explChain_gen_w (rest trest : Str) (hfin : Fin3 rest trest) (r : Rest) (it : Item)
    (hok : it.OK) (hr : restOK r) (w : Str) (hw : ∀ c ∈ w, c ≠ '(' ∧ isWs c = false) :
    P3 (w ++ (explChain it r ++ rest)) (w ++ (explChain it r ++ trest)) := by
  cases r with
  | nil => exact P3_item_gen_w rest trest hfin it hok w hw
  | cons gi t =>
    obtain ⟨g, it2⟩ := gi
    have h := P3_explChain_gen rest trest hfin ((g, it2) :: t) it hok hr
    have hl : look3 (explChain it ((g, it2) :: t) ++ rest) = true := by
      have := look3_item_op it hok (explChain it2 t ++ rest)
      simpa [explChain, List.append_assoc] using this
    exact P3_run w _ _ hw hl h

theorem tx_head_ch (s : Sq) (hv : s.valid) (h : s.head.isCh = true) :
    ∃ a t, tx 2 s = a :: t ∧ isWs a = false ∧ a ≠ '(' := by
  cases s with
  | one u => cases u with
    | ch it r =>
      have := explChain_head r it hv.1 []
      simpa [tx, ux] using this
    | gr it r dg => simp [Sq.head, U.isCh] at h
  | cons u k s' => cases u with
    | ch it r =>
      have := explChain_head r it hv.1.1 (sepx 2 k s'.head ++ tx 2 s')
      simpa [tx, ux] using this
    | gr it r dg => simp [Sq.head, U.isCh] at h

theorem I3_unit_tail (r : Rest) (it : Item) (hok : it.OK) (hr : restOK r) (dg : Str) (hd : AllDig dg) :
    I3 (explChain it r ++ ')' :: dg) := by
  have hnp := explChain_noparen r it hok hr
  have hdl := dig_look dg hd
  intro fuel
  apply pass3_noparen
  intro c hc
  rcases List.mem_append.mp hc with h | h
  · exact (hnp c h).1
  · rcases List.mem_cons.mp h with rfl | h
    · decide
    · exact (hdl c h).1

/-- an explicit ` + ` in front of `(` is left alone by pass 3 -/
theorem P3_plus_lparen (Y tY : Str) (h : P3 Y tY) :
    P3 (symAdd ++ '(' :: Y) (symAdd ++ '(' :: tY) ∧ look3 (symAdd ++ '(' :: Y) = true := by
  have h0 : P3 (' ' :: '(' :: Y) (' ' :: '(' :: tY) := by
    intro fuel hf
    cases fuel with
    | zero => simp at hf
    | succ n =>
      simp only [List.length_cons] at hf
      have e1 : notSpec3 ' ' = false := by decide
      have e2 : isWs ' ' = true := by decide
      have e3 : isWs '(' = false := by decide
      simp [pass3, List.span_eq_takeWhile_dropWhile, List.takeWhile_cons, List.dropWhile_cons, e1, e2, e3,
        h n (by omega)]
  have h1 := P3_copy '+' _ _ (look3_stop '+' _ (by decide) (by decide) (by decide)) h0
  have hl : look3 (' ' :: '+' :: ' ' :: '(' :: Y) = true := look3_ws_stop '+' _ (by decide) (by decide)
  exact ⟨P3_copy ' ' _ _ hl h1, hl⟩

theorem fin3_nil : Fin3 [] [] := fin3_run [] [] (by decide) (P3_of_I3 [] I3_nil)

theorem look_nil : ∀ c ∈ ([] : Str), c ≠ '(' ∧ isWs c = false := by intro c hc; cases hc

theorem P3_seq_aux (s : Sq) : s.valid → P3 (tx 2 s) (tx 3 s) ∧
    (s.head.isCh = true → ∀ w : Str, (∀ c ∈ w, c ≠ '(' ∧ isWs c = false) → P3 (w ++ tx 2 s) (w ++ tx 3 s)) := by
  induction s with
  | one u =>
    intro hv
    cases u with
    | ch it r =>
      have hw := fun w hw => P3_explChain_gen_w [] [] fin3_nil r it hv.1 hv.2 w hw
      refine ⟨by simpa [tx, ux] using hw [] look_nil, fun _ w hw' => ?_⟩
      simpa [tx, ux] using hw w hw'
    | gr it r dg =>
      obtain ⟨hok, hr, hd⟩ := hv
      have := P3_lparen _ _ (P3_of_I3 _ (I3_unit_tail r it hok hr dg hd))
      exact ⟨by simpa [tx, ux] using this, fun h => by simp [Sq.head, U.isCh] at h⟩
  | cons u g s ih =>
    intro hv
    obtain ⟨hu, hvs, h1⟩ := hv
    obtain ⟨hs, hsw⟩ := ih hvs
    cases u with
    | ch it r =>
      have hg : s.head.isCh = false := h1 rfl
      obtain ⟨Y2, e2⟩ := tx_head_gr 2 s hg
      obtain ⟨Y3, e3⟩ := tx_head_gr 3 s hg
      rw [e2, e3] at hs
      have hY := P3_lparen_tail _ _ hs
      cases g with
      | blanks k =>
        have hfin : Fin3 (List.replicate k ' ' ++ '(' :: Y2) (symAdd ++ '(' :: Y3) :=
          fun w0 l hw hl => P3_before (List.replicate k ' ') Y2 Y3 (blanks_ws k) hY l hl w0 hw
        have hw := fun w hw => P3_explChain_gen_w _ _ hfin r it hu.1 hu.2 w hw
        refine ⟨by simpa [tx, ux, sepx, hg, e2, e3, List.append_assoc] using hw [] look_nil, fun _ w hw' => ?_⟩
        simpa [tx, ux, sepx, hg, e2, e3, List.append_assoc] using hw w hw'
      | plus =>
        obtain ⟨hp, hl⟩ := P3_plus_lparen Y2 Y3 hY
        have hfin : Fin3 (symAdd ++ '(' :: Y2) (symAdd ++ '(' :: Y3) := fin3_run _ _ hl hp
        have hw := fun w hw => P3_explChain_gen_w _ _ hfin r it hu.1 hu.2 w hw
        refine ⟨by simpa [tx, ux, sepx, hg, e2, e3, List.append_assoc] using hw [] look_nil, fun _ w hw' => ?_⟩
        simpa [tx, ux, sepx, hg, e2, e3, List.append_assoc] using hw w hw'
    | gr it r dg =>
      obtain ⟨hok, hr, hd⟩ := hu
      refine ⟨?_, fun h => by simp [Sq.head, U.isCh] at h⟩
      have hlook : ∀ c ∈ ')' :: dg, c ≠ '(' ∧ isWs c = false := by
        intro c hc
        rcases List.mem_cons.mp hc with rfl | h
        · decide
        · exact dig_look dg hd c h
      by_cases hg : s.head.isCh = false
      · obtain ⟨Y2, e2⟩ := tx_head_gr 2 s hg
        obtain ⟨Y3, e3⟩ := tx_head_gr 3 s hg
        rw [e2, e3] at hs
        have hY := P3_lparen_tail _ _ hs
        cases g with
        | blanks k =>
          have := P3_lparen _ _ (P3_explChain_gen _ _ (fin3_close_paren dg (List.replicate k ' ') Y2 Y3 hd (blanks_ws k) hY) r it hok hr)
          simpa [tx, ux, sepx, hg, e2, e3, List.append_assoc] using this
        | plus =>
          obtain ⟨hp, hl⟩ := P3_plus_lparen Y2 Y3 hY
          have hrest := P3_run (')' :: dg) _ _ hlook hl hp
          have hl3' := look3_run (')' :: dg) _ hlook hl
          have := P3_lparen _ _ (P3_explChain_gen _ _ (fin3_run _ _ hl3' hrest) r it hok hr)
          simpa [tx, ux, sepx, hg, e2, e3, List.append_assoc] using this
      · have hc : s.head.isCh = true := by simpa using hg
        have hhead := tx_head_ch s hvs hc
        cases g with
        | plus =>
          obtain ⟨hp, hl⟩ := P3_op' '+' (Or.inl rfl) _ _ hs hhead
          have hrest := P3_run (')' :: dg) _ _ hlook hl hp
          have hl3' := look3_run (')' :: dg) _ hlook hl
          have := P3_lparen _ _ (P3_explChain_gen _ _ (fin3_run _ _ hl3' hrest) r it hok hr)
          simpa [tx, ux, sepx, hc, symAdd, List.append_assoc] using this
        | blanks k =>
          cases k with
          | zero =>
            have hfin : Fin3 (')' :: (dg ++ tx 2 s)) (')' :: (dg ++ tx 3 s)) := by
              intro w0 l hw hl
              have := hsw hc (w0 ++ l :: ')' :: dg) (by
                intro c hc'
                rcases List.mem_append.mp hc' with h | h
                · exact hw c h
                · rcases List.mem_cons.mp h with rfl | h
                  · exact notSpec3_look _ hl
                  · exact hlook c h)
              simpa [List.append_assoc] using this
            have := P3_lparen _ _ (P3_explChain_gen _ _ hfin r it hok hr)
            simpa [tx, ux, sepx, hc, List.append_assoc] using this
          | succ k' =>
            have hb := P3_blanks (k' + 1) _ _ hs hhead
            have hl3 : look3 (List.replicate (k' + 1) ' ' ++ tx 2 s) = true := by
              rw [List.replicate_succ, List.cons_append]
              exact look3_blank _ _ (blanks_eq k') hhead
            have hrest := P3_run (')' :: dg) _ _ hlook hl3 hb
            have hl3' := look3_run (')' :: dg) _ hlook hl3
            have := P3_lparen _ _ (P3_explChain_gen _ _ (fin3_run _ _ hl3' hrest) r it hok hr)
            simpa [tx, ux, sepx, hc, List.append_assoc] using this

theorem P3_seq (s : Sq) (hv : s.valid) : P3 (tx 2 s) (tx 3 s) := (P3_seq_aux s hv).1

/-! ### pass 4 -/

def P4 (w tw : Str) : Prop := ∀ fuel, w.length < fuel → pass4 fuel w = tw

theorem P4_copy (c : Char) (r tr : Str) (hc : c ≠ ')') (h : P4 r tr) : P4 (c :: r) (c :: tr) := by
  intro fuel hf
  cases fuel with
  | zero => simp at hf
  | succ n =>
    simp only [List.length_cons] at hf
    simp [pass4, hc, h n (by omega)]

theorem P4_run (w r tr : Str) (hw : ∀ c ∈ w, c ≠ ')') (h : P4 r tr) : P4 (w ++ r) (w ++ tr) := by
  induction w with
  | nil => exact h
  | cons c t ih => exact P4_copy c _ _ (hw c (by simp)) (ih (fun x hx => hw x (by simp [hx])))

theorem P4_noparen (w : Str) (hw : ∀ c ∈ w, c ≠ ')') : P4 w w := fun fuel _ => pass4_noparen w fuel hw

theorem P4_close_end (dg : Str) (hd : AllDig dg) : P4 (')' :: dg) (')' :: mulTxt dg) := by
  intro fuel hf
  cases fuel with
  | zero => simp at hf
  | succ n => exact pass4_close dg hd n

theorem isEmpty_false_of_ne {dg : Str} (h : dg ≠ []) : dg.isEmpty = false := by
  cases dg with
  | nil => exact absurd rfl h
  | cons a t => rfl

theorem mem_tw {p : Char → Bool} : ∀ (l : Str) (c : Char), c ∈ l.takeWhile p → p c = true := by
  intro l
  induction l with
  | nil => intro c hc; simp at hc
  | cons a t ih =>
    intro c hc
    by_cases ha : p a = true
    · simp only [List.takeWhile_cons, ha, if_true] at hc
      rcases List.mem_cons.mp hc with rfl | h
      · exact ha
      · exact ih c h
    · simp [List.takeWhile_cons, ha] at hc

/-- `)n + (…`: the count becomes ` * n`, the ` + ` stays -/
theorem P4_close_plus (dg Y tY : Str) (hd : AllDig dg) (h : P4 Y tY) :
    P4 (')' :: (dg ++ (symAdd ++ Y))) (')' :: (mulTxt dg ++ (symAdd ++ tY))) := by
  intro fuel hf
  cases fuel with
  | zero => simp at hf
  | succ n =>
    have hsp := span_dig_append dg (symAdd ++ Y) hd (by intro c r e; simp [symAdd] at e; rw [← e.1]; decide)
    have h2 : P4 ('+' :: ' ' :: Y) ('+' :: ' ' :: tY) := P4_copy '+' _ _ (by decide) (P4_copy ' ' _ _ (by decide) h)
    have hlen : ('+' :: ' ' :: Y).length < n := by
      simp only [List.length_cons, List.length_append, symAdd] at hf ⊢; omega
    have hw : (' ' :: '+' :: ' ' :: Y).span isWs = ([' '], '+' :: ' ' :: Y) := by
      simp [List.span_eq_takeWhile_dropWhile, List.takeWhile_cons, List.dropWhile_cons, isWs]
    have hn : ('+' :: ' ' :: Y).span notSpec4 = ([], '+' :: ' ' :: Y) := by
      simp [List.span_eq_takeWhile_dropWhile, List.takeWhile_cons, List.dropWhile_cons, notSpec4]
    have e : symAdd ++ Y = ' ' :: '+' :: ' ' :: Y := rfl
    rw [e] at hsp ⊢
    simp only [pass4, hsp, hw, hn, h2 n hlen]
    by_cases hdn : dg = []
    · subst hdn; simp [mulTxt]; rfl
    · simp [mulTxt, isEmpty_false_of_ne hdn, symMul, List.append_assoc]; rfl

/-- `)n␣*X…` with `X` starting with an ordinary character that is not a digit: ` * n + ` and `X…`
    as pass 4 leaves it -/
theorem P4_close_gen (dg X tX : Str) (k : Nat) (hd : AllDig dg) (h : P4 X tX)
    (hX : ∃ a t, X = a :: t ∧ notSpec4 a = true ∧ isDig a = false) :
    P4 (')' :: (dg ++ (List.replicate k ' ' ++ X))) (')' :: (mulTxt dg ++ (symAdd ++ tX))) := by
  obtain ⟨a, t, rfl, ha, had⟩ := hX
  have haw : isWs a = false := by
    simp only [notSpec4, Bool.not_eq_true', Bool.or_eq_false_iff] at ha; exact ha.2
  intro fuel hf
  cases fuel with
  | zero => simp at hf
  | succ n =>
    have hsp := span_dig_append dg (List.replicate k ' ' ++ a :: t) hd (by
      intro c r e
      cases k with
      | zero => simp only [List.replicate_zero, List.nil_append, List.cons.injEq] at e; rw [← e.1]; exact had
      | succ k' =>
        rw [List.replicate_succ, List.cons_append] at e
        simp only [List.cons.injEq] at e; rw [← e.1]; decide)
    have hw : (List.replicate k ' ' ++ a :: t).span isWs = (List.replicate k ' ', a :: t) := by
      rw [List.span_eq_takeWhile_dropWhile, List.takeWhile_append_of_pos (blanks_ws _),
        List.dropWhile_append_of_pos (blanks_ws _)]
      simp [List.takeWhile_cons, List.dropWhile_cons, haw]
    have hg3 : ∀ c ∈ (a :: t).takeWhile notSpec4, c ≠ ')' := by
      intro c hc
      have := mem_tw _ c hc
      intro e; subst e; simp [notSpec4] at this
    have hne : ((a :: t).takeWhile notSpec4).isEmpty = false := by simp [List.takeWhile_cons, ha]
    have hcat : (a :: t).takeWhile notSpec4 ++ (a :: t).dropWhile notSpec4 = a :: t := List.takeWhile_append_dropWhile
    have hlen : (a :: t).length < ((a :: t).takeWhile notSpec4).length + n := by
      simp only [List.length_cons, List.length_append, List.length_replicate] at hf ⊢; omega
    have hrest : (a :: t).takeWhile notSpec4 ++ pass4 n ((a :: t).dropWhile notSpec4) = tX := by
      rw [← pass4_copy _ _ hg3 n, hcat]; exact h _ hlen
    simp only [pass4, hsp, hw, List.span_eq_takeWhile_dropWhile]
    by_cases hdn : dg = []
    · subst hdn
      simp only [List.isEmpty_nil, Bool.not_true, Bool.false_and, hne, Bool.not_false, if_true,
        Bool.false_eq_true, if_false, mulTxt]
      simp [List.append_assoc, hrest]
    · simp only [isEmpty_false_of_ne hdn, hne, Bool.not_false, Bool.and_self, if_true, mulTxt,
        Bool.false_eq_true, if_false]
      simp [List.append_assoc, hrest]

theorem notSpec4_word (c : Char) (h : WordCode c.toNat) : notSpec4 c = true := by
  have hp := word_plain c h
  have h1 : c ≠ '+' := by
    apply ne_of_toNat; show c.toNat ≠ 43
    rcases h with h | h | h <;> omega
  simp [notSpec4, hp.2, h1, hp.1.2.1, hp.1.2.2.2]

theorem up_not_dig (u : Char) (hu : isUp u = true) : isDig u = false := by
  have hr := up_range u hu
  simp only [isDig, Bool.and_eq_false_iff, decide_eq_false_iff_not]
  right; intro h; have : u.toNat ≤ 57 := h; omega

theorem sp_head4 (it : Item) (hok : it.OK) : ∃ a t, it.sp = a :: t ∧ notSpec4 a = true ∧ isDig a = false := by
  obtain ⟨⟨sym, br, hsp, _, hsym⟩, _⟩ := hok
  rcases hsym with ⟨u, hu, rfl⟩ | ⟨u, l, hu, _, rfl⟩ | ⟨x, _, rfl⟩
  · exact ⟨u, br, by simpa using hsp, notSpec4_word u (Or.inl (up_range u hu)), up_not_dig u hu⟩
  · exact ⟨u, l :: br, by simpa using hsp, notSpec4_word u (Or.inl (up_range u hu)), up_not_dig u hu⟩
  · exact ⟨'[', x :: ']' :: br, by simpa using hsp, by decide, by decide⟩

theorem explChain_head4 (r : Rest) (it : Item) (hok : it.OK) (rest : Str) :
    ∃ a t, explChain it r ++ rest = a :: t ∧ notSpec4 a = true ∧ isDig a = false := by
  obtain ⟨a, t, e, ha⟩ := sp_head4 it hok
  cases r with
  | nil => exact ⟨a, _, by simp [explChain, Item.expl, e]; rfl, ha⟩
  | cons gi t' =>
    obtain ⟨g, it2⟩ := gi
    exact ⟨a, _, by simp [explChain, Item.expl, e]; rfl, ha⟩

theorem tx_head_ch4 (s : Sq) (hv : s.valid) (h : s.head.isCh = true) :
    ∃ a t, tx 3 s = a :: t ∧ notSpec4 a = true ∧ isDig a = false := by
  cases s with
  | one u => cases u with
    | ch it r =>
      have := explChain_head4 r it hv.1 []
      simpa [tx, ux] using this
    | gr it r dg => simp [Sq.head, U.isCh] at h
  | cons u k s' => cases u with
    | ch it r =>
      have := explChain_head4 r it hv.1.1 (sepx 3 k s'.head ++ tx 3 s')
      simpa [tx, ux] using this
    | gr it r dg => simp [Sq.head, U.isCh] at h

theorem P4_seq (s : Sq) : s.valid → P4 (tx 3 s) (tx 4 s) := by
  induction s with
  | one u =>
    intro hv
    cases u with
    | ch it r =>
      have hnp := explChain_noparen r it hv.1 hv.2
      simpa [tx, ux] using P4_noparen _ (fun c hc => (hnp c hc).2)
    | gr it r dg =>
      obtain ⟨hok, hr, hd⟩ := hv
      have hnp := explChain_noparen r it hok hr
      have := P4_copy '(' _ _ (by decide) (P4_run _ _ _ (fun c hc => (hnp c hc).2) (P4_close_end dg hd))
      simpa [tx, ux] using this
  | cons u g s ih =>
    intro hv
    obtain ⟨hu, hvs, h1⟩ := hv
    have hs := ih hvs
    cases u with
    | ch it r =>
      have hg : s.head.isCh = false := h1 rfl
      have hnp := explChain_noparen r it hu.1 hu.2
      have hsa : ∀ c ∈ symAdd, c ≠ ')' := by decide
      have := P4_run _ _ _ (fun c hc => (hnp c hc).2) (P4_run _ _ _ hsa hs)
      cases g <;> simpa [tx, ux, sepx, hg, List.append_assoc] using this
    | gr it r dg =>
      obtain ⟨hok, hr, hd⟩ := hu
      have hnp := explChain_noparen r it hok hr
      have hplus := P4_copy '(' _ _ (by decide) (P4_run _ _ _ (fun c hc => (hnp c hc).2) (P4_close_plus dg _ _ hd hs))
      cases g with
      | plus => simpa [tx, ux, sepx, List.append_assoc] using hplus
      | blanks k =>
        by_cases hg : s.head.isCh = false
        · simpa [tx, ux, sepx, hg, List.append_assoc] using hplus
        · have hc : s.head.isCh = true := by simpa using hg
          have := P4_copy '(' _ _ (by decide) (P4_run _ _ _ (fun c hc => (hnp c hc).2)
            (P4_close_gen dg _ _ k hd hs (tx_head_ch4 s hvs hc)))
          simpa [tx, ux, sepx, hc, List.append_assoc] using this

/-- `preprocess` on a sequence of units -/
theorem preprocess_seq (s : Sq) (hv : s.valid) : preprocess (tx 0 s) = tx 4 s := by
  obtain ⟨n, hn, hst⟩ := steps_seq s hv
  have h1 := pass1_of_steps n _ _ (2 * (tx 0 s).length + 2) hst (by omega)
  simp only [preprocess, h1]
  rw [P2_seq s hv _ (by omega), P3_seq s hv _ (by omega), P4_seq s hv _ (by omega)]


/-! ### formula ASTs: right-nested sequences of units -/

def F.isGr : F → Bool
  | .group _ => true
  | .count (.group _) _ => true
  | _ => false

def F.headGr : F → Bool
  | .seq _ a _ => a.isGr
  | .plus a _ => a.isGr
  | f => f.isGr

/-- a sequence `u₁ ␣* u₂ ␣* … uₙ` (right-nested juxtapositions or explicit ` + `) of units, each a parenthesis-free
    formula or a parenthesised parenthesis-free group without or with a count, with any number
    of blanks (also none) between them; two parenthesis-free units are never adjacent (together
    they are one such unit) -/
def F.units : F → Prop
  | .seq k a b => (a.flat ∧ b.flat) ∨
      ((a.flat ∨ a.group1) ∧ b.units ∧ (a.isGr = false → b.headGr = true))
  | .plus a b => (a.flat ∧ b.flat) ∨
      ((a.flat ∨ a.group1) ∧ b.units ∧ (a.isGr = false → b.headGr = true))
  | f => f.flat ∨ f.group1

theorem flat_not_gr (f : F) (h : f.flat) : f.isGr = false := by
  cases f with
  | count g n => cases g <;> simp_all [F.flat, F.isGr]
  | group g => simp [F.flat] at h
  | _ => rfl

theorem group1_gr (f : F) (h : f.group1) : f.isGr = true := by
  cases f with
  | count g n => cases g <;> simp_all [F.group1, F.isGr]
  | group g => rfl
  | _ => simp [F.group1] at h

theorem unit_spec (f : F) (h : f.flat ∨ f.group1) (hs : f.spAll SpeciesShape) :
    ∃ u : U, u.OK ∧ ux 0 u = render f ∧ ux 4 u = renderExplicit f ∧ u.isCh = !f.isGr := by
  rcases h with h | h
  · obtain ⟨h1, h2, h3, h4⟩ := toChain_spec f h hs
    exact ⟨.ch (toChain f).1 (toChain f).2, ⟨h3, h4⟩, by simp [ux, h1], by simp [ux, h2],
      by simp [U.isCh, flat_not_gr f h]⟩
  · cases f with
    | group g =>
      obtain ⟨h1, h2, h3, h4⟩ := toChain_spec g h hs
      exact ⟨.gr (toChain g).1 (toChain g).2 [], ⟨h3, h4, by intro c hc; cases hc⟩,
        by simp [ux, render, h1], by simp [ux, renderExplicit, h2, mulTxt], rfl⟩
    | count f' n =>
      cases f' with
      | group g =>
        obtain ⟨h1, h2, h3, h4⟩ := toChain_spec g h hs
        have hne : (digitsOf n).isEmpty = false := isEmpty_false_of_ne (digitsOf_ne_nil n)
        exact ⟨.gr (toChain g).1 (toChain g).2 (digitsOf n), ⟨h3, h4, allDig_digitsOf n⟩,
          by simp [ux, render, h1], by simp [ux, renderExplicit, h2, mulTxt, hne, List.append_assoc], rfl⟩
      | _ => exact absurd h (by simp [F.group1])
    | _ => exact absurd h (by simp [F.group1])

theorem one_spec (f : F) (h : f.flat ∨ f.group1) (hh : f.headGr = f.isGr) (hs : f.spAll SpeciesShape) :
    ∃ s : Sq, s.valid ∧ tx 0 s = render f ∧ tx 4 s = renderExplicit f ∧ s.head.isCh = !f.headGr := by
  obtain ⟨u, h1, h2, h3, h4⟩ := unit_spec f h hs
  exact ⟨.one u, h1, h2, h3, by rw [hh]; exact h4⟩

theorem seq_spec (f : F) : f.units → f.spAll SpeciesShape →
    ∃ s : Sq, s.valid ∧ tx 0 s = render f ∧ tx 4 s = renderExplicit f ∧ s.head.isCh = !f.headGr := by
  induction f with
  | sp s => intro h hs; exact one_spec _ h rfl hs
  | count g n _ => intro h hs; exact one_spec _ h rfl hs
  | mulx g n _ => intro h hs; exact one_spec _ h rfl hs
  | group g _ => intro h hs; exact one_spec _ h rfl hs
  | plus a b _ ihb =>
    intro h hs
    rcases h with ⟨ha, hb⟩ | ⟨ha, hb, c1⟩
    · obtain ⟨u, h1, h2, h3, h4⟩ := unit_spec (.plus a b) (Or.inl ⟨ha, hb⟩) hs
      refine ⟨.one u, h1, h2, h3, ?_⟩
      simp only [Sq.head, F.headGr, h4, flat_not_gr a ha]
      rfl
    · obtain ⟨u, u1, u2, u3, u4⟩ := unit_spec a ha hs.1
      obtain ⟨sb, s1, s2, s3, s4⟩ := ihb hb hs.2
      refine ⟨.cons u .plus sb, ⟨u1, s1, ?_⟩, ?_, ?_, ?_⟩
      · intro hu
        rw [u4] at hu
        rw [s4, c1 (by simpa using hu)]; rfl
      · simp [tx, sepx, u2, s2, render]
      · simp [tx, sepx, u3, s3, renderExplicit]
      · simp [Sq.head, F.headGr, u4]
  | seq k a b _ ihb =>
    intro h hs
    rcases h with ⟨ha, hb⟩ | ⟨ha, hb, c1⟩
    · obtain ⟨u, h1, h2, h3, h4⟩ := unit_spec (.seq k a b) (Or.inl ⟨ha, hb⟩) hs
      refine ⟨.one u, h1, h2, h3, ?_⟩
      simp only [Sq.head, F.headGr, h4, flat_not_gr a ha]
      rfl
    · obtain ⟨u, u1, u2, u3, u4⟩ := unit_spec a ha hs.1
      obtain ⟨sb, s1, s2, s3, s4⟩ := ihb hb hs.2
      refine ⟨.cons u (.blanks k) sb, ⟨u1, s1, ?_⟩, ?_, ?_, ?_⟩
      · intro hu
        rw [u4] at hu
        rw [s4, c1 (by simpa using hu)]; rfl
      · simp [tx, sepx, u2, s2, render]
      · simp [tx, sepx, u3, s3, renderExplicit]
      · simp [Sq.head, F.headGr, u4]

theorem tx0_ne_nil (s : Sq) (hv : s.valid) : tx 0 s ≠ [] := by
  have : ∀ u : U, u.OK → ∀ rest, ux 0 u ++ rest ≠ [] := by
    intro u hu rest
    cases u with
    | ch it r =>
      obtain ⟨c, t, e, _⟩ := chainText_head it r hu.1
      simp [ux, e]
    | gr it r dg => simp [ux]
  cases s with
  | one u => have := this u hv []; simpa [tx] using this
  | cons u k s' => exact this u hv.1 _

theorem preprocess_units (f : F) (hf : f.units) (hs : f.spAll SpeciesShape) :
    preprocess (render f) = renderExplicit f ∧ render f ≠ [] := by
  obtain ⟨s, h1, h2, h3, _⟩ := seq_spec f hf hs
  rw [← h2, ← h3]
  exact ⟨preprocess_seq s h1, tx0_ne_nil s h1⟩


/-! ### any nesting of the juxtaposition tree -/

def Sq.last : Sq → U
  | .one u => u
  | .cons _ _ s => s.last

def Sq.app : Sq → Gap → Sq → Sq
  | .one u, g, t => .cons u g t
  | .cons u g' s, g, t => .cons u g' (s.app g t)

theorem app_head (s : Sq) (g : Gap) (t : Sq) : (s.app g t).head = s.head := by
  cases s <;> rfl

theorem app_last (s : Sq) (g : Gap) (t : Sq) : (s.app g t).last = t.last := by
  induction s with
  | one u => rfl
  | cons u g' s ih => simpa [Sq.app, Sq.last] using ih

theorem app_valid (s : Sq) (g : Gap) (t : Sq) (hs : s.valid) (ht : t.valid)
    (hj : s.last.isCh = true → t.head.isCh = false) : (s.app g t).valid := by
  induction s with
  | one u => exact ⟨hs, ht, hj⟩
  | cons u g' s ih =>
    obtain ⟨h1, h2, h3⟩ := hs
    exact ⟨h1, ih h2 hj, by rw [app_head]; exact h3⟩

theorem sepx0 (g : Gap) (u : U) : sepx 0 g u = g.text := by cases g <;> simp [sepx, Gap.text]
theorem sepx4 (g : Gap) (u : U) : sepx 4 g u = symAdd := by cases g <;> simp [sepx]

theorem app_tx0 (s : Sq) (g : Gap) (t : Sq) : tx 0 (s.app g t) = tx 0 s ++ (g.text ++ tx 0 t) := by
  induction s with
  | one u => simp [Sq.app, tx, sepx0]
  | cons u g' s ih => simp [Sq.app, tx, sepx0, ih, List.append_assoc]

theorem app_tx4 (s : Sq) (g : Gap) (t : Sq) : tx 4 (s.app g t) = tx 4 s ++ (symAdd ++ tx 4 t) := by
  induction s with
  | one u => simp [Sq.app, tx, sepx4]
  | cons u g' s ih => simp [Sq.app, tx, sepx4, ih, List.append_assoc]

def F.headGrT : F → Bool
  | .seq _ a _ => a.headGrT
  | .plus a _ => a.headGrT
  | f => f.isGr

def F.lastGr : F → Bool
  | .seq _ _ b => b.lastGr
  | .plus _ b => b.lastGr
  | f => f.isGr

/-- any tree of juxtapositions (any blanks) and explicit ` + ` whose leaves are units —
    parenthesis-free formulas or parenthesised parenthesis-free groups without or with a count —
    such that no two parenthesis-free units meet at a junction (together they are one unit) -/
def F.unitsT : F → Prop
  | .seq _ a b => (a.flat ∧ b.flat) ∨ (a.unitsT ∧ b.unitsT ∧ (a.lastGr = false → b.headGrT = true))
  | .plus a b => (a.flat ∧ b.flat) ∨ (a.unitsT ∧ b.unitsT ∧ (a.lastGr = false → b.headGrT = true))
  | f => f.flat ∨ f.group1

theorem flat_ends (f : F) : f.flat → f.headGrT = false ∧ f.lastGr = false := by
  induction f with
  | seq k a b iha ihb => intro h; exact ⟨(iha h.1).1, (ihb h.2).2⟩
  | plus a b iha ihb => intro h; exact ⟨(iha h.1).1, (ihb h.2).2⟩
  | sp s => intro h; exact ⟨rfl, rfl⟩
  | count g n _ => intro h; exact ⟨flat_not_gr _ h, flat_not_gr _ h⟩
  | mulx g n _ => intro h; exact ⟨rfl, rfl⟩
  | group g _ => intro h; exact absurd h (by simp [F.flat])

theorem oneT_spec (f : F) (h : f.flat ∨ f.group1) (hh : f.headGrT = f.isGr) (hl : f.lastGr = f.isGr)
    (hs : f.spAll SpeciesShape) :
    ∃ s : Sq, s.valid ∧ tx 0 s = render f ∧ tx 4 s = renderExplicit f ∧ s.head.isCh = !f.headGrT ∧
      s.last.isCh = !f.lastGr := by
  obtain ⟨u, h1, h2, h3, h4⟩ := unit_spec f h hs
  exact ⟨.one u, h1, h2, h3, by rw [hh]; exact h4, by rw [hl]; exact h4⟩

theorem seqT_spec (f : F) : f.unitsT → f.spAll SpeciesShape →
    ∃ s : Sq, s.valid ∧ tx 0 s = render f ∧ tx 4 s = renderExplicit f ∧ s.head.isCh = !f.headGrT ∧
      s.last.isCh = !f.lastGr := by
  induction f with
  | sp s => intro h hs; exact oneT_spec _ h rfl rfl hs
  | count g n _ => intro h hs; exact oneT_spec _ h rfl rfl hs
  | mulx g n _ => intro h hs; exact oneT_spec _ h rfl rfl hs
  | group g _ => intro h hs; exact oneT_spec _ h rfl rfl hs
  | plus a b iha ihb =>
    intro h hs
    rcases h with ⟨ha, hb⟩ | ⟨ha, hb, c1⟩
    · obtain ⟨u, h1, h2, h3, h4⟩ := unit_spec (.plus a b) (Or.inl ⟨ha, hb⟩) hs
      have he := flat_ends (.plus a b) ⟨ha, hb⟩
      exact ⟨.one u, h1, h2, h3, by rw [he.1]; exact h4, by rw [he.2]; exact h4⟩
    · obtain ⟨sa, a1, a2, a3, a4, a5⟩ := iha ha hs.1
      obtain ⟨sb, b1, b2, b3, b4, b5⟩ := ihb hb hs.2
      refine ⟨sa.app .plus sb, app_valid _ _ _ a1 b1 ?_, ?_, ?_, ?_, ?_⟩
      · intro hu
        rw [a5] at hu
        rw [b4, c1 (by simpa using hu)]; rfl
      · simp [app_tx0, a2, b2, render, Gap.text]
      · simp [app_tx4, a3, b3, renderExplicit]
      · rw [app_head, a4]; rfl
      · rw [app_last, b5]; rfl
  | seq k a b iha ihb =>
    intro h hs
    rcases h with ⟨ha, hb⟩ | ⟨ha, hb, c1⟩
    · obtain ⟨u, h1, h2, h3, h4⟩ := unit_spec (.seq k a b) (Or.inl ⟨ha, hb⟩) hs
      have he := flat_ends (.seq k a b) ⟨ha, hb⟩
      exact ⟨.one u, h1, h2, h3, by rw [he.1]; exact h4, by rw [he.2]; exact h4⟩
    · obtain ⟨sa, a1, a2, a3, a4, a5⟩ := iha ha hs.1
      obtain ⟨sb, b1, b2, b3, b4, b5⟩ := ihb hb hs.2
      refine ⟨sa.app (.blanks k) sb, app_valid _ _ _ a1 b1 ?_, ?_, ?_, ?_, ?_⟩
      · intro hu
        rw [a5] at hu
        rw [b4, c1 (by simpa using hu)]; rfl
      · simp [app_tx0, a2, b2, render, Gap.text]
      · simp [app_tx4, a3, b3, renderExplicit]
      · rw [app_head, a4]; rfl
      · rw [app_last, b5]; rfl

theorem preprocess_unitsT (f : F) (hf : f.unitsT) (hs : f.spAll SpeciesShape) :
    preprocess (render f) = renderExplicit f ∧ render f ≠ [] := by
  obtain ⟨s, h1, h2, h3, _⟩ := seqT_spec f hf hs
  rw [← h2, ← h3]
  exact ⟨preprocess_seq s h1, tx0_ne_nil s h1⟩

end SciVerif.C10
