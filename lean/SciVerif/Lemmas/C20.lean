import SciVerif.Model.C20

namespace SciVerif.C20
variable {K V : Type} [DecidableEq K]

theorem map_fst_dset (m : List (K × V)) (k : K) (v : V) :
    (dset m k v).map Prod.fst =
      if k ∈ m.map Prod.fst then m.map Prod.fst else m.map Prod.fst ++ [k] := by
  induction m with
  | nil => simp [dset]
  | cons kv t ih =>
    obtain ⟨k', v'⟩ := kv
    by_cases h : k' = k
    · subst h; simp [dset]
    · have h' : ¬ k = k' := fun e => h e.symm
      simp only [dset, h, if_false, List.map_cons, ih, List.mem_cons, h', false_or]
      split <;> simp

theorem map_fst_ddel (m : List (K × V)) (k : K) :
    (ddel m k).map Prod.fst = (m.map Prod.fst).erase k := by
  induction m with
  | nil => simp [ddel]
  | cons kv t ih =>
    obtain ⟨k', v'⟩ := kv
    by_cases h : k' = k
    · subst h; simp [ddel]
    · simp [ddel, h, ih, List.erase_cons_tail]

theorem dget_of_getElem (m : List (K × V)) (hn : (m.map Prod.fst).Nodup) (i : Nat) (kv : K × V)
    (h : m[i]? = some kv) : dget m kv.1 = some kv.2 := by
  induction m generalizing i with
  | nil => simp at h
  | cons a t ih =>
    obtain ⟨k', v'⟩ := a
    cases i with
    | zero => simp at h; subst h; simp [dget]
    | succ j =>
      simp at h
      simp only [List.map_cons, List.nodup_cons] at hn
      have hne : ¬ k' = kv.1 := by
        intro e
        apply hn.1
        rw [e]
        exact List.mem_map.mpr ⟨kv, List.mem_of_getElem? h, rfl⟩
      simp [dget, hne, ih hn.2 j h]

theorem pyIndex_map {α β : Type} (f : α → β) (l : List α) (i : Int) :
    pyIndex (l.map f) i = (pyIndex l i).map f := by
  unfold pyIndex
  simp only [List.length_map]
  split
  · simp
  · split <;> simp

theorem pyIndex_mem {α : Type} (l : List α) (i : Int) (a : α) (h : pyIndex l i = some a) :
    ∃ n : Nat, l[n]? = some a := by
  unfold pyIndex at h
  split at h
  · exact ⟨_, h⟩
  · split at h
    · exact ⟨_, h⟩
    · simp at h

def Inv (t : Tbl K V) : Prop := t.keys = t.data.map Prod.fst ∧ t.keys.Nodup

theorem step_refines (t : Tbl K V) (h : Inv t) (op : Op K V) :
    Inv (t.step op).1 ∧ (t.step op).1.data = (specStep t.data op).1 ∧
      (t.step op).2 = (specStep t.data op).2 := by
  obtain ⟨hk, hn⟩ := h
  cases op with
  | append k v =>
    refine ⟨⟨?_, ?_⟩, rfl, rfl⟩
    · simp only [Tbl.step, map_fst_dset, hk]
    · simp only [Tbl.step]
      split
      · exact hn
      · rename_i hnot
        exact List.nodup_append.mpr ⟨hn, by simp, by
          intro a ha b hb
          simp at hb; subst hb
          intro e; subst e; exact hnot ha⟩
  | del k =>
    simp only [Tbl.step, specStep, ← hk]
    split
    · refine ⟨⟨?_, ?_⟩, rfl, rfl⟩
      · simp [map_fst_ddel, hk]
      · exact hn.erase k
    · exact ⟨⟨hk, hn⟩, rfl, rfl⟩
  | getKey k =>
    simp only [Tbl.step, specStep]
    split <;> exact ⟨⟨hk, hn⟩, rfl, rfl⟩
  | getPos i =>
    simp only [Tbl.step, specStep, hk, pyIndex_map]
    cases hp : pyIndex t.data i with
    | none => exact ⟨⟨hk, hn⟩, rfl, rfl⟩
    | some kv =>
      obtain ⟨n, hn'⟩ := pyIndex_mem _ _ _ hp
      have := dget_of_getElem t.data (hk ▸ hn) n kv hn'
      simp only [Option.map_some, this]
      exact ⟨⟨hk, hn⟩, by trivial⟩
  | len => exact ⟨⟨hk, hn⟩, rfl, rfl⟩
  | keys => exact ⟨⟨hk, hn⟩, rfl, by simp [Tbl.step, specStep, hk]⟩
  | items => exact ⟨⟨hk, hn⟩, rfl, rfl⟩
  | contains k => exact ⟨⟨hk, hn⟩, rfl, by simp [Tbl.step, specStep, hk]⟩

theorem run_refines (t : Tbl K V) (h : Inv t) (ops : List (Op K V)) :
    Inv (t.run ops).1 ∧ (t.run ops).1.data = (specRun t.data ops).1 ∧
      (t.run ops).2 = (specRun t.data ops).2 := by
  induction ops generalizing t with
  | nil => exact ⟨h, rfl, rfl⟩
  | cons op ops ih =>
    obtain ⟨h1, h2, h3⟩ := step_refines t h op
    obtain ⟨i1, i2, i3⟩ := ih (t.step op).1 h1
    simp only [Tbl.run, specRun]
    rw [← h2, ← h3]
    exact ⟨i1, i2, by rw [i3]⟩

end SciVerif.C20
