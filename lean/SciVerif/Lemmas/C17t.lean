import SciVerif.Lemmas.C17s

/-! Refinement (C17), part 3: injection, concretisation of statements, step and run simulation. -/
namespace SciVerif.C17

/-! ### conformance is kept by slicing -/

theorem castList_forall (k : Kw) (l : List Val) :
    castList k l = some l ↔ ∀ x ∈ l, castElem k x = some x := by
  induction l with
  | nil => simp [castList]
  | cons x t ih =>
    constructor
    · intro h
      simp only [castList] at h
      cases hx : castElem k x with
      | none => simp [hx] at h
      | some a =>
        cases ht : castList k t with
        | none => simp [hx, ht] at h
        | some b =>
          simp only [hx, ht, Option.some.injEq, List.cons.injEq] at h
          obtain ⟨rfl, rfl⟩ := h
          intro y hy
          simp only [List.mem_cons] at hy
          rcases hy with rfl | hy
          · exact hx
          · exact (ih.mp ht) y hy
    · intro h
      have h1 := h x (by simp)
      have h2 := ih.mpr (fun y hy => h y (by simp [hy]))
      simp [castList, h1, h2]

theorem conf_arr (k : Kw) (l : List Val) : Conf k (.arr l) ↔ ∀ x ∈ l, Conf k x := by
  unfold Conf
  rw [← castList_forall]
  simp only [castElem]
  cases castList k l <;> simp

theorem mapM_some_mem {α β : Type} (f : α → Option β) (l : List α) (rs : List β)
    (h : l.mapM f = some rs) : ∀ r ∈ rs, ∃ x ∈ l, f x = some r := by
  induction l generalizing rs with
  | nil => simp at h; subst h; simp
  | cons a t ih =>
    simp only [List.mapM_cons] at h
    cases ha : f a with
    | none => simp [ha] at h
    | some b =>
      cases ht : t.mapM f with
      | none => simp [ha, ht] at h
      | some bs =>
        simp [ha, ht] at h
        subst h
        intro r hr
        simp only [List.mem_cons] at hr
        rcases hr with rfl | hr
        · exact ⟨a, by simp, ha⟩
        · obtain ⟨x, hx, hfx⟩ := ih bs ht r hr
          exact ⟨x, by simp [hx], hfx⟩

theorem conf_str (k : Kw) (s t : Str) (h : Conf k (.str s)) : Conf k (.str t) := by
  cases k <;> simp_all [Conf, castElem, castScalar, dtypeOf]

theorem Conf_slice (k : Kw) (sl : List Sl) (v w : Val) (hc : Conf k v)
    (h : specSlice sl v = some w) : Conf k w := by
  induction sl generalizing v w with
  | nil => simp [specSlice] at h; subst h; exact hc
  | cons s rest ih =>
    cases v with
    | num q => cases s <;> cases rest <;> simp [specSlice] at h
    | bool b => cases s <;> cases rest <;> simp [specSlice] at h
    | str t =>
      cases s with
      | idx n =>
        cases rest with
        | nil =>
          simp only [specSlice] at h
          cases hx : t[n]? with
          | none => simp [hx] at h
          | some c => simp [hx] at h; subst h; exact conf_str k t _ hc
        | cons s2 r2 => simp [specSlice] at h
      | rng a b =>
        cases rest with
        | nil => simp [specSlice] at h; subst h; exact conf_str k t _ hc
        | cons s2 r2 => simp [specSlice] at h
    | arr l =>
      have hl := (conf_arr k l).mp hc
      cases s with
      | idx n =>
        simp only [specSlice] at h
        cases hx : l[n]? with
        | none => simp [hx] at h
        | some x =>
          simp only [hx] at h
          exact ih x w (hl x (List.mem_of_getElem? hx)) h
      | rng a b =>
        cases rest with
        | nil =>
          simp [specSlice] at h
          subst h
          exact (conf_arr k _).mpr (fun x hx => hl x (mem_pySlice hx))
        | cons s2 r2 =>
          simp only [specSlice] at h
          cases hm : (pySlice l a b).mapM (fun x => specSlice (s2 :: r2) x) with
          | none => simp [hm] at h
          | some rs =>
            simp [hm] at h
            subst h
            refine (conf_arr k rs).mpr (fun r hr => ?_)
            obtain ⟨x, hx, hfx⟩ := mapM_some_mem _ _ rs hm r hr
            exact ih x r (hl x (mem_pySlice hx)) hfx

/-- the host's `cast_value` of the referenced node's value is what the specification computes:
    slice, then conformance to the host's type and dimension -/
theorem castValue_inject (n : Node) (vs w w' : Val) (hk : isTyped n.kw = true)
    (hconf : Conf n.kw vs) (hs : specSlice n.slice vs = some w)
    (hc : conforms n.kw n.dims w = some w') : castValue n vs = some w' := by
  have hm : n.kw ≠ .mod := by intro e; rw [e] at hk; simp [isTyped] at hk
  have hcw : Conf n.kw w := Conf_slice n.kw n.slice vs w hconf hs
  have hce : castElem n.kw vs = some vs := hconf
  rw [conforms_eq] at hc
  unfold castValue
  rw [dtypeOf_typed n.kw hk]
  by_cases hd : n.dims.isEmpty = true
  · by_cases hsl : n.slice.isEmpty = true
    · have : n.slice = [] := List.isEmpty_iff.mp hsl
      rw [this] at hs
      simp [specSlice] at hs
      subst hs
      simpa [hd, hsl, hm] using hc
    · have hsv : sliceValue n.slice vs = some w := slice_python n.slice vs w hs
      simp only [hd, if_true] at hc
      have hna : isArr w = false := by
        cases w <;> simp_all [castScalar, isArr]
      have : castScalar n.kw w = some w := by rw [← castElem_scalar n.kw w hna]; exact hcw
      rw [this] at hc
      simp only [Option.some.injEq] at hc
      subst hc
      have hsl' : n.slice.isEmpty = false := by simpa using hsl
      have hcond : (!n.dims.isEmpty || !n.slice.isEmpty) = true := by simp [hsl']
      rw [if_pos hcond]
      simp only [hce, hsl', Bool.false_eq_true, if_false, hsv, hd, Bool.not_true, hna]
  · have hd' : n.dims.isEmpty = false := by simpa using hd
    have hsv : (if n.slice.isEmpty = true then some vs else sliceValue n.slice vs) = some w := by
      by_cases hsl : n.slice.isEmpty = true
      · have : n.slice = [] := List.isEmpty_iff.mp hsl
        rw [this] at hs
        simp [specSlice] at hs
        simp [hsl, hs]
      · simp [hsl, slice_python n.slice vs w hs]
    simp only [hd, Bool.false_eq_true, if_false] at hc
    have hcw' : castElem n.kw w = some w := hcw
    rw [hcw'] at hc
    simp only [Option.bind] at hc
    by_cases hcd : checkDims n.dims (shape w) = true
    · simp only [hcd, if_true, Option.some.injEq] at hc
      subst hc
      have hcond : (!n.dims.isEmpty || !n.slice.isEmpty) = true := by simp [hd']
      rw [if_pos hcond]
      simp only [hce, hsv, hd', Bool.not_false, if_true, hcd]
    · simp [hcd] at hc

/-! ### requests with an exact path -/

/-- a query text that `NodeList.query` reads as an exact path -/
def ExactText (q : Str) : Prop := q ≠ ['*'] ∧ q.drop (q.length - 2) ≠ dotStar ∧ '?' ∉ q

/-- a source name usable in `{source?query}` -/
def WFSource (source : Option Str) : Prop := ∀ s, source = some s → s ≠ [] ∧ '?' ∉ s

def renderRef (source : Option Str) (p : List Str) : Str := source.getD [] ++ '?' :: joinDot p

theorem select_exact_abs (ns : List Node) (p : List Str) (hp : WFPath p) :
    select (.exact p) (ns.map absN) = (ns.filter (fun n => decide (n.name = joinDot p))).map absN := by
  unfold select
  rw [List.filter_map]
  congr 1
  apply List.filter_congr
  intro n _
  simp only [Function.comp, sMatches, absN]
  by_cases h : n.name = joinDot p
  · simp [h, splitDot_joinDot p hp]
  · have : splitDot n.name ≠ p := by
      intro e; apply h; rw [← e, joinDot_splitDot]
    simp [h, this]

/-- the node list a request looks into, and its abstraction -/
theorem requestNodes_abs (tbl : UnitTable) (env : Env) (hinv : Inv tbl env) (source : Option Str)
    (hws : WFSource source) (q : Str) (ss : List SNode) (h : sLookup (absEnv env) source = some ss) :
    ∃ ns, requestNodes env (source.getD []) q = .ok (query ns (parseQuery q)) ∧ ss = ns.map absN ∧
      ∀ n ∈ ns, Good tbl n := by
  cases source with
  | none =>
    simp only [sLookup, absEnv] at h
    cases hn : env.nodes with
    | nil => simp [hn] at h
    | cons a t =>
      simp only [hn, List.map_cons, List.isEmpty_cons, Bool.false_eq_true, if_false, Option.some.injEq] at h
      refine ⟨a :: t, by simp [requestNodes, hn], by simp [← h], ?_⟩
      intro n hnn; exact hinv.1 n (by rw [hn]; exact hnn)
  | some s =>
    obtain ⟨hne, _⟩ := hws s rfl
    have hcomp : ((fun x : Str × List SNode => decide (x.1 = s)) ∘
        fun s : Str × List Node => (s.1, List.map absN s.2)) = fun x => decide (x.1 = s) := by
      funext x; rfl
    simp only [sLookup, absEnv, List.find?_map, hcomp] at h
    cases hf : env.sources.find? (fun x => decide (x.1 = s)) with
    | none => simp [hf] at h
    | some src =>
      simp only [hf, Option.map_some, Option.some.injEq] at h
      have hse : s.isEmpty = false := by cases s <;> simp_all
      refine ⟨src.2, by simp [requestNodes, hse, hf], h.symm, ?_⟩
      intro n hn
      exact hinv.2 src (List.mem_of_find?_eq_some hf) n hn

theorem request_exact (tbl : UnitTable) (env : Env) (hinv : Inv tbl env) (source : Option Str)
    (hws : WFSource source) (p : List Str) (hp : WFPath p) (hq : ExactText (joinDot p))
    (ss : List SNode) (s : SNode)
    (hl : sLookup (absEnv env) source = some ss) (hsel : select (.exact p) ss = [s]) :
    ∃ src, request env (renderRef source p) .one = .ok [qRename (.exact (joinDot p)) src] ∧
      Good tbl src ∧ absN src = s := by
  obtain ⟨ns, hreq, hss, hgood⟩ := requestNodes_abs tbl env hinv source hws (joinDot p) ss hl
  have hsrc : '?' ∉ source.getD [] := by
    cases source with
    | none => simp
    | some x => exact (hws x rfl).2
  have hpq : parseQuery (joinDot p) = .exact (joinDot p) := by simp [parseQuery, hq.1, hq.2.1]
  rw [hss, select_exact_abs ns p hp] at hsel
  cases hfl : ns.filter (fun n => decide (n.name = joinDot p)) with
  | nil => simp [hfl] at hsel
  | cons src rest =>
    rw [hfl] at hsel
    simp only [List.map_cons, List.cons.injEq, List.map_eq_nil_iff] at hsel
    obtain ⟨hs, hrest⟩ := hsel
    subst hrest
    have hmem : src ∈ ns := (List.mem_filter.mp (by rw [hfl]; simp)).1
    refine ⟨src, ?_, hgood src hmem, hs⟩
    have hfl' : ns.filter (qMatches (.exact (joinDot p))) = [src] := by
      rw [← hfl]; apply List.filter_congr; intro n _; rfl
    unfold request renderRef
    rw [splitQ_render _ _ hsrc hq.2.2]
    simp only [hreq, hpq, query, hfl', List.map_cons, List.map_nil, countCheck, List.length_singleton,
      if_true]

/-! ### concretisation of statements as line records -/

def blank (name : Str) (kw : Kw) : Node :=
  { name := name
    indent := 0
    kw := kw
    dims := []
    raw := none
    ref := none
    slice := []
    unitsRaw := none
    value := none
    defined := false
    constant := false
    condition := none
    format := none
    tags := []
    options := []
    description := none
    imported := false }

def renderQ : SQuery → Str
  | .all => ['*']
  | .children p => joinDot p ++ ['.', '*']
  | .exact p => joinDot p

def toQuery : SQuery → Query
  | .all => .all
  | .children p => .children (joinDot p ++ ['.'])
  | .exact p => .exact (joinDot p)

def WFQ : SQuery → Prop
  | .all => True
  | .children p => WFPath p ∧ '?' ∉ joinDot p
  | .exact p => WFPath p ∧ ExactText (joinDot p)

/-- the name below which an imported node is placed -/
def impName (dest : List Str) (nm : Str) : Str :=
  match dest with
  | [] => nm
  | d :: ds => joinDot (d :: ds) ++ '.' :: nm

/-- destination components contain no dot -/
def WFDest (dest : List Str) : Prop := ∀ c ∈ dest, '.' ∉ c

/-- the name the lexer gives the import line `dest {ref}` (or `{ref}`) -/
def impLineName (dest : List Str) (ref : Str) : Str :=
  match dest with
  | [] => '{' :: (ref ++ ['}'])
  | d :: ds => joinDot (d :: ds) ++ '.' :: '{' :: (ref ++ ['}'])

def impLine (dest : List Str) (source : Option Str) (q : SQuery) : Node :=
  { blank (impLineName dest (source.getD [] ++ '?' :: renderQ q)) .imp with
    ref := some (source.getD [] ++ '?' :: renderQ q) }

/-- a definition / modification line with a literal value -/
def litNode (path : List Str) (kw : Kw) (dims : List Dim) (v : Val) (unit : Option Str) : Node :=
  { blank (joinDot path) kw with dims := dims, raw := some v, unitsRaw := unit }

/-- a definition / modification line with an injected value `{source?p}[sl]` -/
def refNode (path : List Str) (kw : Kw) (dims : List Dim) (ref : Str) (sl : List Sl)
    (unit : Option Str) : Node :=
  { blank (joinDot path) kw with dims := dims, ref := some ref, slice := sl, unitsRaw := unit }

/-- the line (at indent 0, full dotted name) that states a statement of the fragment -/
def conc : SStmt → Option Item
  | .defn path kw dims (.lit v) unit => some (.node (litNode path kw dims v unit))
  | .defn path kw dims (.inj source (.exact p) sl) unit =>
    some (.node (refNode path kw dims (renderRef source p) sl unit))
  | .modl path (.lit v) unit => some (.node (litNode path .mod [] v unit))
  | .modl path (.inj source (.exact p) []) unit =>
    some (.node (refNode path .mod [] (renderRef source p) [] unit))
  | .imp dest source q => some (.node (impLine dest source q))
  | _ => none

/-- side conditions of the proved fragment, evaluated in the current specification environment:
    well-formed paths and request texts; an injected definition takes a node of its own type;
    integer nodes stay dimensionless (unit conversion of integers is C14's business); an import
    selects at least one node -/
def InFrag (senv : SEnv) : SStmt → Prop
  | .defn path kw _ sv unit =>
    WFPath path ∧ isTyped kw = true ∧
    (∀ v u, sEval senv sv = .ok (v, u) → kw = .int → unit = none ∧ u = none) ∧
    (match sv with
     | .lit _ => True
     | .inj source (.exact p) _ => WFSource source ∧ WFPath p ∧ ExactText (joinDot p) ∧
         ∀ ss s, sLookup senv source = some ss → select (.exact p) ss = [s] → s.kw = kw
     | _ => False)
  | .modl path sv _ =>
    WFPath path ∧
    (match sv with
     | .lit _ => True
     | .inj source (.exact p) _ => WFSource source ∧ WFPath p ∧ ExactText (joinDot p)
     | _ => False)
  | .imp dest source q =>
    WFSource source ∧ WFDest dest ∧ '{' ∉ joinDot dest ∧ '{' ∉ source.getD [] ++ '?' :: renderQ q ∧ WFQ q ∧
    ∀ ss, sLookup senv source = some ss → select q ss ≠ []
  | _ => False

theorem absEnv_nodes (env : Env) (ns : List Node) (ps : List (Nat × Str)) :
    absEnv { env with parents := ps, nodes := ns } = { absEnv env with nodes := ns.map absN } := rfl

theorem good_conf {tbl : UnitTable} {n : Node} (hg : Good tbl n) :
    ∃ v, n.value = some v ∧ Conf n.kw v ∧ (absN n).value = some v := by
  obtain ⟨_, ⟨v, hv, hc⟩, _⟩ := hg
  exact ⟨v, hv, (conforms_conf n.kw n.dims v v hc).1, by simp [absN, hv]⟩

/-- what `sEval` of an exact injection says about the model's request -/
theorem sEval_inj (tbl : UnitTable) (env : Env) (hinv : Inv tbl env) (source : Option Str)
    (hws : WFSource source) (p : List Str) (hp : WFPath p) (hq : ExactText (joinDot p)) (sl : List Sl)
    (v : Val) (u : Option Str) (h : sEval (absEnv env) (.inj source (.exact p) sl) = .ok (v, u)) :
    ∃ src vs ss, request env (renderRef source p) .one = .ok [qRename (.exact (joinDot p)) src] ∧
      Good tbl src ∧ src.value = some vs ∧ Conf src.kw vs ∧ specSlice sl vs = some v ∧
      u = src.unitsRaw ∧ sLookup (absEnv env) source = some ss ∧ select (.exact p) ss = [absN src] := by
  simp only [sEval] at h
  cases hl : sLookup (absEnv env) source with
  | none => simp [hl] at h
  | some ss =>
    simp only [hl] at h
    cases hsel : select (.exact p) ss with
    | nil => simp [hsel] at h
    | cons s rest =>
      cases rest with
      | cons s2 r2 => simp [hsel] at h
      | nil =>
        simp only [hsel] at h
        obtain ⟨src, hreq, hgood, habs⟩ := request_exact tbl env hinv source hws p hp hq ss s hl hsel
        obtain ⟨vs, hvs, hconf, hval⟩ := good_conf hgood
        have hsv : s.value = some vs := by rw [← habs]; exact hval
        simp only [hsv] at h
        cases hsp : specSlice sl vs with
        | none => simp [hsp] at h
        | some w =>
          simp only [hsp, Except.ok.injEq, Prod.mk.injEq] at h
          obtain ⟨rfl, rfl⟩ := h
          refine ⟨src, vs, ss, hreq, hgood, hvs, hconf, hsp, by simp [← habs, absN], rfl, by rw [habs]; exact hsel⟩

end SciVerif.C17
