import SciVerif.Lemmas.C01m
import SciVerif.Lemmas.C01l

/-!
# C01 helper lemmas, part 14: rejection at string level (unbalanced parentheses, wrong number
  of arguments) and at token level (missing left operand, trailing sign).
-/
namespace SciVerif.C01
open SciVerif.C01.Gen

variable {A : Type} (alg : AtomAlg A) (lit : List Char → A)

/-! ### unbalanced parentheses -/

theorem solve_ok_balanced (hpf : ParenFree alg) (s : List Char) (t : Tok A)
    (h : solve dflt alg dfltSteps s = .ok t) : Balanced s := by
  unfold solve solveI solveFrom resetBufs at h
  simp only [solveFromF] at h
  cases ht : tokLoop dflt alg (fun st a => solveFromF dflt alg dfltSteps s.length (resetBufs st) a)
      (s.length + 1) ⟨[], s⟩ ⟨[], []⟩ with
  | error e => rw [ht] at h; obtain ⟨b, m⟩ := e; simp at h
  | ok b1 => exact tokLoop_balanced alg _ hpf _ _ _ _ _ ht

/-! ### wrong number of arguments -/

/-- argument texts joined by separators -/
def joinArgs : List (List Char) → List Char
  | [] => []
  | [t] => t
  | t :: t' :: ts => t ++ ',' :: joinArgs (t' :: ts)

/-- the scanner returns exactly as many arguments as there are top-level separators plus one -/
theorem scan_args (narg : Nat) (Ts : List (List Char)) (hne : Ts ≠ [])
    (hb : ∀ T ∈ Ts, nest T 0 = some 0) :
    ∀ (r' : List Char) (args : List (List Char)),
      parScan (stdPar narg) ((joinArgs Ts ++ ')' :: r').length + 1) 1 ⟨[], joinArgs Ts ++ ')' :: r'⟩ args
        = some (⟨[], r'⟩, args ++ Ts.map strip) := by
  induction Ts with
  | nil => exact absurd rfl hne
  | cons T Ts ih =>
    intro r' args
    cases Ts with
    | nil =>
      have := scan_last narg T r' [] args (hb T (by simp))
      simpa [joinArgs] using this
    | cons T' Ts' =>
      have hT := hb T (by simp)
      have e : (joinArgs (T :: T' :: Ts') ++ ')' :: r').length + 1
          = ((joinArgs (T' :: Ts') ++ ')' :: r').length + 1) + 1 + T.length := by
        simp [joinArgs]; omega
      have hs := scan_sep narg ((joinArgs (T' :: Ts') ++ ')' :: r').length + 1) T
        (joinArgs (T' :: Ts') ++ ')' :: r') [] args hT
      rw [e, show joinArgs (T :: T' :: Ts') ++ ')' :: r' = T ++ ',' :: (joinArgs (T' :: Ts') ++ ')' :: r') by
        simp [joinArgs], hs, ih (by simp) (fun X hX => hb X (by simp [hX])) r' _]
      simp

variable (sa : Bufs A → List Char → Bufs A × Except String (Tok A))

theorem tokLoop_call_arity {name : String} {sym : List Char} {narg : Nat}
    (h : rowFact dflt name sym (some (stdPar narg)) = true)
    (hnc : clashChars (dflt.rows.take (idxOf dflt name)) sym = []) (hne : sym ≠ []) (m : Nat)
    (lw r : List Char) (b b1 : Bufs A) (e3 : Ex) (args : List (List Char))
    (hp : pushAtom alg (strip lw) b = .ok b1)
    (hscan : parScan (stdPar narg) (r.length + 1) 1 ⟨[], r⟩ [] = some (e3, args))
    (hlen : args.length ≠ narg) :
    tokLoop dflt alg sa (m + 1) ⟨lw, sym ++ r⟩ b = .error (b1, "arity") := by
  obtain ⟨row, hr, rfl, hpar, he, _⟩ := rowFact_elim h
  have hf : findOp dflt (row.symbol ++ r) = some (idxOf dflt name, row) := by
    have := findOpFrom_first dflt.rows (idxOf dflt name) 0 row r hr he (by rw [hnc]; intro c hc; cases hc)
    simpa [findOp] using this
  have hemp : (row.symbol ++ r).isEmpty = false := by
    cases hs : row.symbol with
    | nil => exact absurd hs hne
    | cons c cs => rfl
  have hn : (stdPar narg).narg = narg := rfl
  simp [tokLoop, hemp, hf, Ex.popLeft, hp, hpar, Ex.remove, hscan, hn, hlen]

/-- a call form of the language -/
inductive Call
  | f1 (f : F1)
  | f2 (g : F2)

def Call.sym : Call → List Char
  | .f1 f => f.sym
  | .f2 g => g.sym

def Call.name : Call → String
  | .f1 f => f.name
  | .f2 g => g.name

def Call.narg : Call → Nat
  | .f1 _ => 1
  | .f2 _ => 2

theorem call_facts (c : Call) :
    rowFact dflt c.name c.sym (some (stdPar c.narg)) = true ∧
    clashChars (dflt.rows.take (idxOf dflt c.name)) c.sym = [] ∧ c.sym ≠ [] := by
  cases c with
  | f1 f => exact ⟨fact_fn1 f, fact_fn1_noclash f, (f1Sym_props f).1.1⟩
  | f2 g => exact ⟨fact_fn2 g, fact_fn2_noclash g, (f2Sym_props g).1.1⟩

theorem solve_arity (c : Call) (Ts : List (List Char)) (hne : Ts ≠ [])
    (hb : ∀ T ∈ Ts, nest T 0 = some 0) (hk : Ts.length ≠ c.narg) (j : Nat) (rest : List Char) :
    solve dflt alg dfltSteps (blanks j ++ c.sym ++ joinArgs Ts ++ ')' :: rest) = .error "arity" := by
  obtain ⟨hf, hnc, hsne⟩ := call_facts c
  have hscan := scan_args c.narg Ts hne hb rest []
  have hp : pushAtom alg (strip ([] ++ blanks j)) (⟨[], []⟩ : Bufs A) = .ok ⟨[], []⟩ := by
    simp [strip_blanks, pushAtom]
  unfold solve solveI solveFrom resetBufs
  simp only [solveFromF]
  obtain ⟨q, hq⟩ : ∃ q, (c.sym ++ (joinArgs Ts ++ ')' :: rest)).length = q + 1 := by
    have : 0 < c.sym.length := List.length_pos_iff.mpr hsne
    exact ⟨(c.sym ++ (joinArgs Ts ++ ')' :: rest)).length - 1, by simp; omega⟩
  have e : (blanks j ++ c.sym ++ joinArgs Ts ++ ')' :: rest).length + 1 = ((q + 1) + 1) + j := by
    have : (blanks j ++ c.sym ++ joinArgs Ts ++ ')' :: rest).length
        = j + (c.sym ++ (joinArgs Ts ++ ')' :: rest)).length := by simp [blanks_length]
    rw [this, hq]; omega
  rw [e, show blanks j ++ c.sym ++ joinArgs Ts ++ ')' :: rest
        = blanks j ++ (c.sym ++ (joinArgs Ts ++ ')' :: rest)) by simp,
    tokLoop_blanks,
    tokLoop_call_arity alg _ hf hnc hsne _ _ _ _ _ _ _ hp (by simpa using hscan) (by simpa using hk)]

/-! ### token level: operators that lack an operand -/

/-- a token the pass leaves alone -/
def Skipped (P : List Nat) : Tok A → Prop
  | .op i _ => isInst dflt P i = false
  | _ => True

theorem step_skipped (P : List Nat) (ot : Otype) (t : Tok A) (l r : List (Tok A))
    (h : Skipped P t) : step dflt alg P ot ⟨l, t :: r⟩ = .ok ⟨t :: l, r⟩ := by
  cases t with
  | none => rfl
  | atom a => rfl
  | op i a => exact step_skip dflt alg P ot l r i a h

theorem steps_skip_all (P : List Nat) (ot : Otype) (R : List (Tok A)) (h : ∀ t ∈ R, Skipped P t) :
    ∀ (l r : List (Tok A)), StepsTo (step dflt alg P ot) R.length ⟨l, R ++ r⟩ ⟨R.reverse ++ l, r⟩ := by
  induction R with
  | nil => intro l r; exact StepsTo.refl _ _
  | cons t R ih =>
    intro l r
    have s1 := StepsTo.one (step_skipped alg P ot t l (R ++ r) (h t (by simp)))
    have s2 := ih (fun x hx => h x (by simp [hx])) (t :: l) r
    have := StepsTo.trans s1 s2
    simpa [Nat.add_comm] using this

theorem operate_of_steps' (P : List Nat) (ot : Otype) (T out : List (Tok A)) (c : Nat)
    (hc : c ≤ 2 * T.length + 2)
    (h : StepsTo (step dflt alg P ot) c ⟨[], T⟩ ⟨out.reverse, []⟩) :
    operate dflt alg P ot ⟨[], T⟩ = .ok ⟨[], out⟩ := by
  unfold operate
  have e : 2 * T.length + 2 = (2 * T.length + 2 - c) + c := by omega
  simp only []
  rw [e, h, loop_done]
  simp

/-- a pass over `pre ++ flat k e ++ R` where the tokens of `pre` and `R` are left alone -/
theorem pass_framed (P : List Nat) (ot : Otype) (k : Nat) (e : E) (pre R : List (Tok A))
    (hpre : ∀ t ∈ pre, Skipped P t) (hR : ∀ t ∈ R, Skipped P t)
    (hp : ∃ c, c ≤ (flat alg lit k e).length ∧
      StepsTo (step dflt alg P ot) c ⟨pre.reverse, flat alg lit k e ++ R⟩
        ⟨(flat alg lit (k + 1) e).reverse ++ pre.reverse, R⟩) :
    operate dflt alg P ot ⟨[], pre ++ flat alg lit k e ++ R⟩
      = .ok ⟨[], pre ++ flat alg lit (k + 1) e ++ R⟩ := by
  obtain ⟨c, hc, st⟩ := hp
  have s0 := steps_skip_all alg P ot pre hpre [] (flat alg lit k e ++ R)
  have s2 := steps_skip_all alg P ot R hR ((flat alg lit (k + 1) e).reverse ++ pre.reverse) []
  have := StepsTo.trans (StepsTo.trans (by simpa using s0) st) (by simpa using s2)
  exact operate_of_steps' alg P ot _ _ (pre.length + c + R.length) (by simp; omega)
    (by simpa [List.append_assoc] using this)

end SciVerif.C01
