import SciVerif.Lemmas.C03j

/-! # C03 helper lemmas: `BaseUnits(text)` and `Quantity(1,text)` against the denotation -/
namespace SciVerif.C03

/-- a key `get_unit_base` can look up -/
def knownKey (T : Tables) (u : UnitId) : Prop := (unitMag T u).isSome = true

theorem getUnitBase_some (T : Tables) (u : UnitId) (e : Frac) (hk : knownKey T u) (he : e.den ≠ 0) :
    ∃ base, getUnitBase T u e = some base := by
  unfold knownKey at hk
  unfold getUnitBase
  simp only [he, false_and, if_false]
  cases u with
  | sys n =>
    cases h : T.findSys n with
    | none => simp [unitMag, h] at hk
    | some row => simp [h]
  | std p b =>
    cases h : T.findUnit b with
    | none => simp [unitMag, h] at hk
    | some row =>
      by_cases hp : p = []
      · simp [h, hp]
      · cases hq : T.findPrefix p with
        | none => simp [unitMag, h, hp, hq] at hk
        | some q => simp [h, hp, hq]

theorem baseUnitsLoop_some (T : Tables) (m : ExpMap) (acc : BaseUnits)
    (h : ∀ ue ∈ m, knownKey T ue.1 ∧ ue.2.den ≠ 0) : ∃ b, baseUnitsLoop T m acc = some b := by
  induction m generalizing acc with
  | nil => exact ⟨acc, rfl⟩
  | cons x rest ih =>
    obtain ⟨u, e⟩ := x
    have hx := h (u, e) (by simp)
    have hrest : ∀ ue ∈ rest, knownKey T ue.1 ∧ ue.2.den ≠ 0 := fun ue hue => h ue (List.mem_cons_of_mem _ hue)
    simp only [baseUnitsLoop]
    split
    · exact ih acc hrest
    · obtain ⟨base, hb⟩ := getUnitBase_some T u e hx.1 hx.2
      rw [hb]
      exact ih _ hrest

theorem mem_addEntry_key (m : ExpMap) (ue x : UnitId × Frac) (h : x ∈ m.addEntry ue) :
    x.1 ∈ m.map (·.1) ∨ x.1 = ue.1 := by
  unfold ExpMap.addEntry at h
  split at h <;>
  · rcases mem_set _ _ _ _ h with h1 | h1
    · exact Or.inl (List.mem_map_of_mem h1)
    · right; rw [h1]

theorem mem_subEntry_key (m : ExpMap) (ue x : UnitId × Frac) (h : x ∈ m.subEntry ue) :
    x.1 ∈ m.map (·.1) ∨ x.1 = ue.1 := by
  unfold ExpMap.subEntry at h
  split at h <;>
  · rcases mem_set _ _ _ _ h with h1 | h1
    · exact Or.inl (List.mem_map_of_mem h1)
    · right; rw [h1]

theorem mem_mergeAdd_key (a b : ExpMap) (x : UnitId × Frac) (h : x ∈ a.mergeAdd b) :
    x.1 ∈ a.map (·.1) ∨ x.1 ∈ b.map (·.1) := by
  unfold ExpMap.mergeAdd at h
  induction b generalizing a with
  | nil => exact Or.inl (List.mem_map_of_mem h)
  | cons y t ih =>
    rcases ih (a.addEntry y) h with h1 | h1
    · rw [List.mem_map] at h1
      obtain ⟨z, hz, hzx⟩ := h1
      rcases mem_addEntry_key a y z hz with h2 | h2
      · left; rw [← hzx]; exact h2
      · right; rw [← hzx, h2]; simp
    · right; exact List.mem_cons_of_mem _ h1

theorem mem_mergeSub_key (a b : ExpMap) (x : UnitId × Frac) (h : x ∈ a.mergeSub b) :
    x.1 ∈ a.map (·.1) ∨ x.1 ∈ b.map (·.1) := by
  unfold ExpMap.mergeSub at h
  induction b generalizing a with
  | nil => exact Or.inl (List.mem_map_of_mem h)
  | cons y t ih =>
    rcases ih (a.subEntry y) h with h1 | h1
    · rw [List.mem_map] at h1
      obtain ⟨z, hz, hzx⟩ := h1
      rcases mem_subEntry_key a y z hz with h2 | h2
      · left; rw [← hzx]; exact h2
      · right; rw [← hzx, h2]; simp
    · right; exact List.mem_cons_of_mem _ h1

theorem leafVal_known (T : Tables) (hT : noBlankHead T) (t : Str) (v : Atom) (h : leafVal T t = some v) :
    ∀ ue ∈ v.units, knownKey T ue.1 := by
  unfold leafVal at h
  split at h
  · rename_i w hw
    simp only [Option.some.injEq] at h
    subst h
    rcases atomParse_cases T t w hw with ⟨_, q, _, _, rfl⟩ | ⟨u, e, _, hu, rfl⟩
    · intro ue hue; simp at hue
    · intro ue hue
      simp at hue; subst hue
      cases u with
      | sys n =>
        obtain ⟨hf, _⟩ := unitParse_sys_sound T t n e hu
        unfold knownKey unitMag
        simpa using hf
      | std p b =>
        obtain ⟨x, _, _, row, hrow, hsym, hor⟩ := unitParse_sound T hT t p b e hu
        have hfu : (T.findUnit b).isSome = true := by
          unfold Tables.findUnit
          rw [List.find?_isSome]
          exact ⟨row, hrow, by simp [hsym]⟩
        obtain ⟨r2, hr2⟩ := Option.isSome_iff_exists.mp hfu
        unfold knownKey
        rcases hor with h0 | ⟨hk, _⟩
        · simp [unitMag, hr2, h0]
        · have hfp : (T.findPrefix p).isSome = true := by
            unfold Tables.findPrefix
            rw [List.find?_isSome]
            unfold Tables.prefixKeys at hk
            rw [List.mem_map] at hk
            obtain ⟨q, hq, hqs⟩ := hk
            exact ⟨q, hq, by simp [hqs]⟩
          obtain ⟨q, hq⟩ := Option.isSome_iff_exists.mp hfp
          by_cases hp0 : p = []
          · simp [unitMag, hr2, hp0]
          · simp [unitMag, hr2, hp0, hq]
  · cases h

theorem evalU_known (T : Tables) (hT : noBlankHead T) (a : U) :
    ∀ v, evalU T a = some v → ∀ ue ∈ v.units, knownKey T ue.1 := by
  induction a with
  | atom p b x => intro v hv; exact leafVal_known T hT _ v hv
  | sys n x => intro v hv; exact leafVal_known T hT _ v hv
  | num t => intro v hv; exact leafVal_known T hT _ v hv
  | par a ih => intro v hv; exact ih v hv
  | mul a b iha ihb =>
    intro v hv
    simp only [evalU] at hv
    cases hx : evalU T a with
    | none => simp [hx] at hv
    | some x =>
      cases hy : evalU T b with
      | none => simp [hx, hy] at hv
      | some y =>
        simp only [hx, hy, Option.some.injEq] at hv
        subst hv
        intro ue hue
        rcases mem_mergeAdd_key x.units y.units ue hue with h1 | h1
        · rw [List.mem_map] at h1
          obtain ⟨z, hz, hzx⟩ := h1
          rw [← hzx]; exact iha x hx z hz
        · rw [List.mem_map] at h1
          obtain ⟨z, hz, hzx⟩ := h1
          rw [← hzx]; exact ihb y hy z hz
  | div a b iha ihb =>
    intro v hv
    simp only [evalU] at hv
    cases hx : evalU T a with
    | none => simp [hx] at hv
    | some x =>
      cases hy : evalU T b with
      | none => simp [hx, hy] at hv
      | some y =>
        simp only [hx, hy, Atom.div] at hv
        split at hv
        · cases hv
        · cases hv
          intro ue hue
          rcases mem_mergeSub_key x.units y.units ue hue with h1 | h1
          · rw [List.mem_map] at h1
            obtain ⟨z, hz, hzx⟩ := h1
            rw [← hzx]; exact iha x hx z hz
          · rw [List.mem_map] at h1
            obtain ⟨z, hz, hzx⟩ := h1
            rw [← hzx]; exact ihb y hy z hz

/-- `BaseUnits(text)` for any rendering of an AST with a denotation: it succeeds, and its magnitude
    is the product of `(prefix·unit)^e` over the denotation's multiset -/
theorem baseUnits_total (T : Tables) (h1 : factF1 T = true) (h2 : factF2 T = true) (h3 : factF3 T = true)
    (h4 : factF4 T = true) (h7 : factF7 T = true) (hpos : factPositive T = true)
    (a : U) (s : Str) (hs : Renders a s) (hla : a.leftAssoc = true) (d : Den) (hd : denote T a = some d) :
    ∃ v b, unitSolver T s = .ok v ∧ Agrees v d ∧ baseUnitsOfText T s = .ok b ∧
      baseUnitsOfMap T v.units = some b ∧ magR b.factors = specFactor T d.exps := by
  obtain ⟨hp, v, hv, hag⟩ := evalU_denote T h1 h2 h3 h4 h7 a d hd
  have hsolve := unitSolver_renders T a s hs hp hla v hv
  have hknown := evalU_known T (factF4_noBlank h4) a v hv
  obtain ⟨b, hb⟩ := baseUnitsLoop_some T v.units BaseUnits.empty
    (fun ue hue => ⟨hknown ue hue, hag.dens ue hue⟩)
  refine ⟨v, b, hsolve, hag, by simp [baseUnitsOfText, hsolve, baseUnitsOfMap, hb], hb, ?_⟩
  have := baseUnitsLoop_mag T v.units BaseUnits.empty b hb
  rw [this]
  simp only [BaseUnits.empty, magR, List.map_nil, List.prod_nil, one_mul]
  apply specFactor_congr T (keyMag_pos T hpos)
  intro k
  rw [expOf_ratPairs, sumR_eq_expR _ _ hag.nodup, hag.exps]

end SciVerif.C03
