import SciVerif.Lemmas.C09b

/-!
C09, third part: histories of explicit open / close in ANY order. The globals always are the
initial globals plus, appended in opening order, what the environments that are still open
registered; closing one of them (wherever it sits) removes exactly its own part.
-/
namespace SciVerif.C09
open SciVerif.C20 (Tbl dget dset ddel)

/-- All open environments seen as one: their units / types concatenated in opening order. -/
def merged (opens : List Env) : Env :=
  ⟨(opens.map (·.new_units)).flatten, (opens.map (·.new_types)).flatten⟩

theorem merged_append (a b : List Env) :
    merged (a ++ b) = ⟨(merged a).new_units ++ (merged b).new_units, (merged a).new_types ++ (merged b).new_types⟩ := by
  simp [merged]

theorem merged_single (e : Env) : merged [e] = e := by
  simp [merged]

theorem pick_spec (l : List Env) (i : Nat) (pre post : List Env) (e : Env)
    (h : pick l i = some (pre, e, post)) : l = pre ++ e :: post := by
  induction l generalizing i pre with
  | nil => simp [pick] at h
  | cons a t ih =>
    cases i with
    | zero =>
      simp only [pick, Option.some.injEq, Prod.mk.injEq] at h
      obtain ⟨rfl, rfl, rfl⟩ := h; rfl
    | succ j =>
      simp only [pick] at h
      cases hp : pick t j with
      | none => simp [hp] at h
      | some r =>
        obtain ⟨p1, x, p2⟩ := r
        simp only [hp, Option.some.injEq, Prod.mk.injEq] at h
        obtain ⟨rfl, rfl, rfl⟩ := h
        simp [ih j p1 hp]

theorem Added.eq_of_nil {g0 g : Globals} (h : Added g0 g ⟨[], []⟩) : g = g0 := by
  obtain ⟨rs, hrs, hd⟩ := h.rows
  have hk := h.keys
  have ht := h.types
  have hp := h.prefixes
  simp only [List.map_eq_nil_iff] at hrs
  subst hrs
  obtain ⟨⟨k, d⟩, t, p⟩ := g
  obtain ⟨⟨k0, d0⟩, t0, p0⟩ := g0
  simp_all

/-- What a new environment adds on top of the globals reached so far, seen from the start. -/
theorem Added.compose {g0 g g' : Globals} {m e : Env} (h1 : Added g0 g m) (h2 : Added g g' e) :
    Added g0 g' ⟨m.new_units ++ e.new_units, m.new_types ++ e.new_types⟩ := by
  obtain ⟨rs1, hrs1, hd1⟩ := h1.rows
  obtain ⟨rs2, hrs2, hd2⟩ := h2.rows
  refine ⟨⟨rs1 ++ rs2, by simp [hrs1, hrs2], by rw [hd2, hd1, List.append_assoc]⟩, ?_, ?_, ?_, ?_, ?_, ?_, ?_⟩
  · rw [h2.keys, h1.keys, List.append_assoc]
  · rw [h2.types, h1.types]; simp
  · rw [h2.prefixes, h1.prefixes]
  · intro k hk
    rcases List.mem_append.mp hk with hk | hk
    · exact h1.fresh_units k hk
    · exact fun hh => h2.fresh_units k hk (by rw [h1.keys]; exact List.mem_append_left _ hh)
  · refine List.nodup_append.mpr ⟨h1.nodup_units, h2.nodup_units, ?_⟩
    intro a ha b hb hab
    subst hab
    exact h2.fresh_units a hb (by rw [h1.keys]; exact List.mem_append_right _ ha)
  · intro t ht
    rcases List.mem_append.mp ht with ht | ht
    · exact h1.fresh_types t ht
    · exact fun hh => h2.fresh_types t ht (by rw [h1.types]; exact List.mem_append_right _ hh)
  · refine List.nodup_append.mpr ⟨h1.nodup_types, h2.nodup_types, ?_⟩
    intro a ha b hb hab
    subst hab
    exact h2.fresh_types a hb (by rw [h1.types]; exact List.mem_append_left _ (List.mem_reverse.mpr ha))

/-! ### closing a segment in the middle -/

theorem closeUnits_middle (keys0 : List Sym) (data0 : List (Sym × Row)) (ty pf : List String)
    (ra rc : List (Sym × Row)) :
    ∀ (rb : List (Sym × Row)),
      (∀ k ∈ rb.map Prod.fst, k ∉ keys0 ++ ra.map Prod.fst) →
      (∀ k ∈ rb.map Prod.fst, k ∉ data0.map Prod.fst ++ ra.map Prod.fst) →
      closeUnits ⟨⟨keys0 ++ ra.map Prod.fst ++ rb.map Prod.fst ++ rc.map Prod.fst,
                   data0 ++ ra ++ rb ++ rc⟩, ty, pf⟩ (rb.map Prod.fst) =
        (⟨⟨keys0 ++ ra.map Prod.fst ++ rc.map Prod.fst, data0 ++ ra ++ rc⟩, ty, pf⟩, true) := by
  intro rb
  induction rb with
  | nil => intro _ _; simp [closeUnits]
  | cons a t ih =>
    intro hf hfd
    obtain ⟨k, r⟩ := a
    have hk0 : k ∉ keys0 ++ ra.map Prod.fst := hf k (by simp)
    have hkd : k ∉ (data0 ++ ra).map Prod.fst := by
      have := hfd k (by simp)
      simpa using this
    have hmem : k ∈ keys0 ++ ra.map Prod.fst ++ (k :: t.map Prod.fst) ++ rc.map Prod.fst := by simp
    have he : (keys0 ++ ra.map Prod.fst ++ (k :: t.map Prod.fst) ++ rc.map Prod.fst).erase k =
        keys0 ++ ra.map Prod.fst ++ t.map Prod.fst ++ rc.map Prod.fst := by
      rw [List.append_assoc (keys0 ++ ra.map Prod.fst), List.erase_append_right _ hk0]
      simp
    have hd : ddel (data0 ++ ra ++ (k, r) :: t ++ rc) k = data0 ++ ra ++ t ++ rc := by
      have := ddel_append_new (data0 ++ ra) (t ++ rc) k r hkd
      simpa [List.append_assoc] using this
    simp only [List.map_cons, closeUnits, tblDel, hmem, if_true, he, hd]
    exact ih (fun k' hk' => hf k' (by simp [hk'])) (fun k' hk' => hfd k' (by simp [hk']))

theorem closeTypes_middle (std : Tbl Sym Row) (pf : List String) (x y : List Ty) :
    ∀ (ts : List Ty), ts.Nodup → (∀ t ∈ ts, t ∉ x) →
      closeTypes ⟨std, x ++ ts.reverse ++ y, pf⟩ ts = (⟨std, x ++ y, pf⟩, true) := by
  intro ts
  induction ts with
  | nil => intro _ _; simp [closeTypes]
  | cons t rest ih =>
    intro hn hf
    simp only [List.nodup_cons] at hn
    have hmem : t ∈ x ++ (t :: rest).reverse ++ y := by simp
    have hnx : t ∉ x := hf t (by simp)
    have hnr : t ∉ rest.reverse := fun hh => hn.1 (List.mem_reverse.mp hh)
    have he : (x ++ (t :: rest).reverse ++ y).erase t = x ++ rest.reverse ++ y := by
      rw [List.reverse_cons, List.append_assoc, List.append_assoc, List.erase_append_right _ hnx,
        List.append_assoc, List.erase_append_right _ hnr]
      simp
    simp only [closeTypes, hmem, if_true, he]
    exact ih hn.2 (fun t' ht' => hf t' (by simp [ht']))

/-- Closing an environment that sits anywhere among the open ones removes exactly its part. -/
theorem close_middle (g0 g : Globals) (pre post : List Env) (e : Env) (w : WF g0)
    (h : Added g0 g (merged (pre ++ e :: post))) :
    (close g e).2 = true ∧ Added g0 (close g e).1 (merged (pre ++ post)) := by
  have hm : merged (pre ++ e :: post) =
      ⟨(merged pre).new_units ++ e.new_units ++ (merged post).new_units,
       (merged pre).new_types ++ e.new_types ++ (merged post).new_types⟩ := by
    simp [merged]
  rw [hm] at h
  have hm2 : merged (pre ++ post) =
      ⟨(merged pre).new_units ++ (merged post).new_units, (merged pre).new_types ++ (merged post).new_types⟩ := by
    simp [merged]
  rw [hm2]
  generalize (merged pre).new_units = ua at h ⊢
  generalize (merged post).new_units = uc at h ⊢
  generalize (merged pre).new_types = ta at h ⊢
  generalize (merged post).new_types = tc at h ⊢
  obtain ⟨ub, tb⟩ := e
  obtain ⟨rs, hrs, hd⟩ := h.rows
  simp only at hrs
  -- split the rows like the symbols
  obtain ⟨rab, rc, rfl, hrab, hrc⟩ := List.map_eq_append_iff.mp hrs
  obtain ⟨ra, rb, rfl, hra, hrb⟩ := List.map_eq_append_iff.mp hrab
  subst hra hrb hrc
  have hk := h.keys
  have ht := h.types
  have hp := h.prefixes
  have hnd := h.nodup_units
  have hfr := h.fresh_units
  have hndt := h.nodup_types
  have hfrt := h.fresh_types
  obtain ⟨⟨keys0, data0⟩, ty0, pf0⟩ := g0
  obtain ⟨⟨keys, data⟩, ty, pf⟩ := g
  simp only at hd hk ht hp hnd hfr hndt hfrt
  subst hd hk ht hp
  unfold WF at w
  simp only at w
  have nd1 := List.nodup_append.mp hnd
  have nd2 := List.nodup_append.mp nd1.1
  have f1 : ∀ k ∈ rb.map Prod.fst, k ∉ keys0 ++ ra.map Prod.fst := by
    intro k hk hh
    rcases List.mem_append.mp hh with hh | hh
    · exact hfr k (by simp [hk]) hh
    · exact nd2.2.2 k hh k hk rfl
  have f2 : ∀ k ∈ rb.map Prod.fst, k ∉ data0.map Prod.fst ++ ra.map Prod.fst := by
    rw [← w]; exact f1
  have h1 := closeUnits_middle keys0 data0 ((tc.reverse ++ tb.reverse ++ ta.reverse) ++ ty0) pf ra rc rb f1 f2
  have ndt1 := List.nodup_append.mp hndt
  have ndt2 := List.nodup_append.mp ndt1.1
  have ft : ∀ t ∈ tb, t ∉ tc.reverse := by
    intro t ht hh
    exact ndt1.2.2 t (List.mem_append_right _ ht) t (List.mem_reverse.mp hh) rfl
  have h2 := closeTypes_middle ⟨keys0 ++ ra.map Prod.fst ++ rc.map Prod.fst, data0 ++ ra ++ rc⟩ pf
    tc.reverse (ta.reverse ++ ty0) tb ndt2.2.1 ft
  simp only [List.append_assoc] at h1 h2
  unfold close
  simp only [List.append_assoc, List.reverse_append]
  rw [h1]
  simp only
  rw [h2]
  refine ⟨rfl, ⟨ra ++ rc, by simp, by simp⟩, by simp, by simp, rfl, ?_, ?_, ?_, ?_⟩
  · intro k hk
    rcases List.mem_append.mp hk with hk | hk
    · exact hfr k (by simp [hk])
    · exact hfr k (by simp [hk])
  · refine List.nodup_append.mpr ⟨nd2.1, nd1.2.1, ?_⟩
    intro a ha b hb hab
    exact nd1.2.2 a (List.mem_append_left _ ha) b hb hab
  · intro t ht
    rcases List.mem_append.mp ht with ht | ht
    · exact hfrt t (by simp [ht])
    · exact hfrt t (by simp [ht])
  · refine List.nodup_append.mpr ⟨ndt2.1, ndt1.2.1, ?_⟩
    intro a ha b hb hab
    exact ndt1.2.2 a (List.mem_append_left _ ha) b hb hab

/-! ### the history invariant -/

theorem hstep_opn_none (s : HSt) (units : List (Sym × UnitDef)) (h : (init s.g units).2 = none) :
    hstep s (.opn units) = (⟨(init s.g units).1, s.opens⟩, .opened false (init s.g units).1) := by
  rw [hstep]
  rcases hi : init s.g units with ⟨g1, oe⟩
  rw [hi] at h; simp only at h; subst h; rfl

theorem hstep_opn_some (s : HSt) (units : List (Sym × UnitDef)) (e : Env) (h : (init s.g units).2 = some e) :
    hstep s (.opn units) = (⟨(init s.g units).1, s.opens ++ [e]⟩, .opened true (init s.g units).1) := by
  rw [hstep]
  rcases hi : init s.g units with ⟨g1, oe⟩
  rw [hi] at h; simp only at h; subst h; rfl

theorem hstep_cls_none (s : HSt) (i : Nat) (h : pick s.opens i = none) :
    hstep s (.cls i) = (s, .noop) := by
  rw [hstep]; simp [h]

theorem hstep_cls_some (s : HSt) (i : Nat) (pre post : List Env) (e : Env)
    (h : pick s.opens i = some (pre, e, post)) :
    hstep s (.cls i) = (⟨(close s.g e).1, pre ++ post⟩, .closed (close s.g e).2 (close s.g e).1) := by
  rw [hstep]; simp [h]

theorem hstep_inv (g0 : Globals) (w : WF g0) (s : HSt) (op : HOp)
    (h : Added g0 s.g (merged s.opens)) :
    Added g0 (hstep s op).1.g (merged (hstep s op).1.opens) ∧
    (∀ ok g', (hstep s op).2 = .closed ok g' → ok = true) := by
  have wg : WF s.g := h.wf w
  cases op with
  | use sym => exact ⟨h, by intro ok g' hh; simp [hstep] at hh⟩
  | opn units =>
    rcases init_cases s.g wg units with ⟨hn, hg⟩ | ⟨e, hs, ha, _, _⟩
    · rw [hstep_opn_none s units hn, hg]
      exact ⟨h, by intro ok g' hh; simp at hh⟩
    · rw [hstep_opn_some s units e hs]
      refine ⟨?_, by intro ok g' hh; simp at hh⟩
      simp only
      rw [merged_append, merged_single]
      exact h.compose ha
  | cls i =>
    cases hp : pick s.opens i with
    | none => rw [hstep_cls_none s i hp]; exact ⟨h, by intro ok g' hh; simp at hh⟩
    | some r =>
      obtain ⟨pre, e, post⟩ := r
      rw [hstep_cls_some s i pre post e hp]
      have hsp := pick_spec s.opens i pre post e hp
      rw [hsp] at h
      obtain ⟨c1, c2⟩ := close_middle g0 s.g pre post e w h
      refine ⟨c2, ?_⟩
      intro ok g' hh
      simp only [HEv.closed.injEq] at hh
      rw [← hh.1]; exact c1

theorem hrun_inv (g0 : Globals) (w : WF g0) (ops : List HOp) :
    ∀ (s : HSt), Added g0 s.g (merged s.opens) →
      Added g0 (hrun ops s).1.g (merged (hrun ops s).1.opens) ∧
      (∀ ok g', HEv.closed ok g' ∈ (hrun ops s).2 → ok = true) := by
  induction ops with
  | nil => intro s h; exact ⟨h, by intro ok g' hh; simp [hrun] at hh⟩
  | cons op rest ih =>
    intro s h
    obtain ⟨h1, h2⟩ := hstep_inv g0 w s op h
    obtain ⟨k1, k2⟩ := ih (hstep s op).1 h1
    refine ⟨k1, ?_⟩
    intro ok g' hh
    simp only [hrun, List.mem_cons] at hh
    rcases hh with hh | hh
    · exact h2 ok g' hh.symm
    · exact k2 ok g' hh

end SciVerif.C09
