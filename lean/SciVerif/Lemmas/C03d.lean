import Mathlib.Tactic.FieldSimp
import Mathlib.Tactic.Ring
import Mathlib.Algebra.Field.Rat
import SciVerif.Model.C03
import SciVerif.Model.C03Spec

/-! # C03 helper lemmas: exponent bookkeeping of `*` and `/`, the binary pass as a left fold -/
namespace SciVerif.C03

theorem Frac.toRat_add (a b : Frac) (ha : a.den ≠ 0) (hb : b.den ≠ 0) :
    (a.add b).toRat = a.toRat + b.toRat := by
  unfold Frac.add Frac.toRat
  have ha' : (a.den : Rat) ≠ 0 := by exact_mod_cast ha
  have hb' : (b.den : Rat) ≠ 0 := by exact_mod_cast hb
  push_cast
  field_simp

theorem Frac.toRat_sub (a b : Frac) (ha : a.den ≠ 0) (hb : b.den ≠ 0) :
    (a.sub b).toRat = a.toRat - b.toRat := by
  unfold Frac.sub Frac.toRat
  have ha' : (a.den : Rat) ≠ 0 := by exact_mod_cast ha
  have hb' : (b.den : Rat) ≠ 0 := by exact_mod_cast hb
  push_cast
  field_simp

theorem Frac.toRat_mul (a b : Frac) : (a.mul b).toRat = a.toRat * b.toRat := by
  unfold Frac.mul Frac.toRat
  push_cast
  rw [div_mul_div_comm]

theorem Frac.toRat_neg (a : Frac) : a.neg.toRat = - a.toRat := by
  unfold Frac.neg Frac.toRat
  push_cast
  ring

/-- the exponent a dict gives to a unit, as a rational (absent = 0) -/
def expR (m : ExpMap) (u : UnitId) : Rat :=
  match m.get u with
  | some e => e.toRat
  | none => 0

/-- the sum of all exponents listed for a unit -/
def sumR (m : ExpMap) (u : UnitId) : Rat :=
  (m.map (fun ue => if ue.1 = u then ue.2.toRat else 0)).sum

/-- no exponent has denominator zero -/
def densOk (m : ExpMap) : Prop := ∀ ue ∈ m, ue.2.den ≠ 0

theorem get_mem (m : ExpMap) (u : UnitId) (e : Frac) (h : m.get u = some e) : (u, e) ∈ m := by
  induction m with
  | nil => simp [ExpMap.get] at h
  | cons a t ih =>
    obtain ⟨k, v⟩ := a
    simp only [ExpMap.get] at h
    split at h
    · rename_i hk; cases h; subst hk; simp
    · exact List.mem_cons_of_mem _ (ih h)

theorem get_set_same (m : ExpMap) (u : UnitId) (e : Frac) : (m.set u e).get u = some e := by
  induction m with
  | nil => simp [ExpMap.set, ExpMap.get]
  | cons a t ih =>
    obtain ⟨k, v⟩ := a
    by_cases hk : k = u <;> simp [ExpMap.set, ExpMap.get, hk, ih]

theorem get_set_other (m : ExpMap) (u v : UnitId) (e : Frac) (h : v ≠ u) :
    (m.set u e).get v = m.get v := by
  induction m with
  | nil => simp [ExpMap.set, ExpMap.get, h.symm]
  | cons a t ih =>
    obtain ⟨k, w⟩ := a
    by_cases hk : k = u
    · subst hk; simp [ExpMap.set, ExpMap.get, h.symm]
    · by_cases hv : k = v
      · subst hv; simp [ExpMap.set, ExpMap.get, hk]
      · simp [ExpMap.set, ExpMap.get, hk, hv, ih]

theorem mem_set (m : ExpMap) (u : UnitId) (e : Frac) (x : UnitId × Frac) (h : x ∈ m.set u e) :
    x ∈ m ∨ x = (u, e) := by
  induction m with
  | nil => simp [ExpMap.set] at h; right; exact h
  | cons a t ih =>
    obtain ⟨k, w⟩ := a
    simp only [ExpMap.set] at h
    split at h
    · rename_i hk
      rcases List.mem_cons.mp h with h1 | h1
      · right; rw [h1, hk]
      · left; exact List.mem_cons_of_mem _ h1
    · rcases List.mem_cons.mp h with h1 | h1
      · left; rw [h1]; simp
      · rcases ih h1 with h2 | h2
        · left; exact List.mem_cons_of_mem _ h2
        · right; exact h2

theorem densOk_set (m : ExpMap) (u : UnitId) (e : Frac) (hm : densOk m) (he : e.den ≠ 0) :
    densOk (m.set u e) := by
  intro x hx
  rcases mem_set m u e x hx with h | h
  · exact hm x h
  · rw [h]; exact he

theorem expR_set (m : ExpMap) (u v : UnitId) (e : Frac) :
    expR (m.set u e) v = if u = v then e.toRat else expR m v := by
  unfold expR
  by_cases h : u = v
  · subst h; simp [get_set_same]
  · have : v ≠ u := fun hh => h hh.symm
    simp [get_set_other m u v e this, h]

theorem addEntry_spec (m : ExpMap) (ue : UnitId × Frac) (v : UnitId) (hm : densOk m) (he : ue.2.den ≠ 0) :
    expR (m.addEntry ue) v = expR m v + (if ue.1 = v then ue.2.toRat else 0) ∧ densOk (m.addEntry ue) := by
  unfold ExpMap.addEntry
  cases hg : m.get ue.1 with
  | none =>
    refine ⟨?_, densOk_set m _ _ hm he⟩
    rw [expR_set]
    by_cases h : ue.1 = v
    · subst h; simp [expR, hg]
    · simp [h]
  | some w =>
    have hw : w.den ≠ 0 := hm _ (get_mem m _ _ hg)
    refine ⟨?_, densOk_set m _ _ hm ?_⟩
    · rw [expR_set]
      by_cases h : ue.1 = v
      · subst h; simp [expR, hg, Frac.toRat_add w ue.2 hw he]
      · simp [h]
    · simp only [Frac.add]; exact Int.mul_ne_zero hw he

theorem subEntry_spec (m : ExpMap) (ue : UnitId × Frac) (v : UnitId) (hm : densOk m) (he : ue.2.den ≠ 0) :
    expR (m.subEntry ue) v = expR m v - (if ue.1 = v then ue.2.toRat else 0) ∧ densOk (m.subEntry ue) := by
  unfold ExpMap.subEntry
  cases hg : m.get ue.1 with
  | none =>
    refine ⟨?_, densOk_set m _ _ hm (by simpa [Frac.neg] using he)⟩
    rw [expR_set]
    by_cases h : ue.1 = v
    · subst h; simp [expR, hg, Frac.toRat_neg]
    · simp [h]
  | some w =>
    have hw : w.den ≠ 0 := hm _ (get_mem m _ _ hg)
    refine ⟨?_, densOk_set m _ _ hm ?_⟩
    · rw [expR_set]
      by_cases h : ue.1 = v
      · subst h; simp [expR, hg, Frac.toRat_sub w ue.2 hw he]
      · simp [h]
    · simp only [Frac.sub]; exact Int.mul_ne_zero hw he

theorem mergeAdd_spec (a b : ExpMap) (v : UnitId) (ha : densOk a) (hb : densOk b) :
    expR (a.mergeAdd b) v = expR a v + sumR b v ∧ densOk (a.mergeAdd b) := by
  unfold ExpMap.mergeAdd
  induction b generalizing a with
  | nil => simp [sumR, ha]
  | cons x t ih =>
    have hx : x.2.den ≠ 0 := hb x (by simp)
    have ht : densOk t := fun y hy => hb y (List.mem_cons_of_mem _ hy)
    obtain ⟨e1, d1⟩ := addEntry_spec a x v ha hx
    obtain ⟨e2, d2⟩ := ih (a.addEntry x) d1 ht
    refine ⟨?_, d2⟩
    simp only [List.foldl_cons]
    rw [e2, e1]
    simp only [sumR, List.map_cons, List.sum_cons]
    ring

theorem mergeSub_spec (a b : ExpMap) (v : UnitId) (ha : densOk a) (hb : densOk b) :
    expR (a.mergeSub b) v = expR a v - sumR b v ∧ densOk (a.mergeSub b) := by
  unfold ExpMap.mergeSub
  induction b generalizing a with
  | nil => simp [sumR, ha]
  | cons x t ih =>
    have hx : x.2.den ≠ 0 := hb x (by simp)
    have ht : densOk t := fun y hy => hb y (List.mem_cons_of_mem _ hy)
    obtain ⟨e1, d1⟩ := subEntry_spec a x v ha hx
    obtain ⟨e2, d2⟩ := ih (a.subEntry x) d1 ht
    refine ⟨?_, d2⟩
    simp only [List.foldl_cons]
    rw [e2, e1]
    simp only [sumR, List.map_cons, List.sum_cons]
    ring

/-! ## the binary pass is a left fold -/

/-- `a0 op1 a1 op2 a2 …` evaluated from the left (`none`: division by a zero number) -/
def foldChain (a0 : Atom) : List (Bool × Atom) → Option Atom
  | [] => some a0
  | (true, b) :: rest => foldChain (a0.mul b) rest
  | (false, b) :: rest => match a0.div b with
    | some c => foldChain c rest
    | none => none

def chainToks : List (Bool × Atom) → List Tok
  | [] => []
  | (m, b) :: rest => (if m then Tok.mul else Tok.div) :: Tok.val (some b) :: chainToks rest

theorem binPass_chain (a0 : Atom) (ops : List (Bool × Atom)) :
    binPass [.val (some a0)] (chainToks ops) =
      match foldChain a0 ops with
      | some r => .ok [.val (some r)]
      | none => .error .zeroDiv := by
  induction ops generalizing a0 with
  | nil => simp [chainToks, binPass, foldChain]
  | cons x rest ih =>
    obtain ⟨m, b⟩ := x
    cases m with
    | true =>
      simp only [chainToks, if_true, binPass, foldChain]
      exact ih _
    | false =>
      simp only [chainToks, Bool.false_eq_true, if_false, binPass, foldChain]
      cases h : a0.div b with
      | none => rfl
      | some c => simp only; exact ih c

end SciVerif.C03
