import SciVerif.Lemmas.C13e
/-!
Scanner lemmas, part 3: dimensions and the type keyword.
-/
namespace SciVerif.C13

/-! ### `splitOn` / `joinWith` -/

theorem splitOn_noSep (sep : Char) : ∀ s : Str, (∀ c ∈ s, c ≠ sep) → splitOn sep s = [s] := by
  intro s
  induction s with
  | nil => intro _; rfl
  | cons x t ih =>
    intro h
    have hx : (x == sep) = false := by simp [h x (by simp)]
    simp only [splitOn, hx, Bool.false_eq_true, if_false, ih (fun c hc => h c (List.mem_cons_of_mem _ hc))]

theorem splitOn_append_sep (sep : Char) (t : Str) : ∀ a : Str, (∀ c ∈ a, c ≠ sep) →
    splitOn sep (a ++ sep :: t) = a :: splitOn sep t := by
  intro a
  induction a with
  | nil => intro _; simp [splitOn]
  | cons x r ih =>
    intro h
    have hx : (x == sep) = false := by simp [h x (by simp)]
    simp only [List.cons_append, splitOn, hx, Bool.false_eq_true, if_false,
      ih (fun c hc => h c (List.mem_cons_of_mem _ hc))]

theorem splitOn_join (sep : Char) : ∀ ps : List Str, ps ≠ [] → (∀ p ∈ ps, ∀ c ∈ p, c ≠ sep) →
    splitOn sep (joinWith [sep] ps) = ps := by
  intro ps
  induction ps with
  | nil => intro h; exact absurd rfl h
  | cons a t ih =>
    intro _ h
    cases t with
    | nil => simp only [joinWith]; exact splitOn_noSep sep a (h a (by simp))
    | cons b t2 =>
      simp only [joinWith, List.append_assoc, List.singleton_append]
      rw [splitOn_append_sep sep _ a (h a (by simp))]
      rw [ih (by simp) (fun p hp => h p (List.mem_cons_of_mem _ hp))]

/-! ### dimensions -/

/-- one entry of `[…]` as written: `n`, or `lo:hi` with either side possibly empty -/
inductive DimD where
  | exact (a : Str)
  | range (a b : Str)
deriving Repr, DecidableEq

def DimD.render : DimD → Str
  | .exact a => a
  | .range a b => a ++ ':' :: b

/-- the bounds denoted by the digits written -/
def DimD.value : DimD → Dim
  | .exact a => (some (digitsToNat a), some (digitsToNat a))
  | .range a b => (if a.isEmpty then none else some (digitsToNat a),
                   if b.isEmpty then none else some (digitsToNat b))

def DimD.Ok : DimD → Prop
  | .exact a => allDigits a = true
  | .range a b => (a = [] ∨ allDigits a = true) ∧ (b = [] ∨ allDigits b = true)

def isDimCh (c : Char) : Bool := c.isDigit || c == ':' || c == ','

theorem allDigits_chars {a : Str} (h : a = [] ∨ allDigits a = true) : ∀ c ∈ a, c.isDigit = true := by
  rcases h with rfl | h
  · intro c hc; cases hc
  · simp only [allDigits, Bool.and_eq_true, List.all_eq_true] at h
    exact h.2

theorem digit_ne {c : Char} (h : c.isDigit = true) : c ≠ ':' ∧ c ≠ ',' ∧ c ≠ ']' := by
  refine ⟨?_, ?_, ?_⟩ <;> (intro e; rw [e] at h; exact absurd h (by decide))

theorem allDigits_nonempty {a : Str} (h : allDigits a = true) : a ≠ [] := by
  intro e; rw [e] at h; exact absurd h (by decide)

theorem parseDim_render (d : DimD) (hd : d.Ok) : parseDim d.render = .ok d.value := by
  cases d with
  | exact a =>
    have hch := allDigits_chars (.inr hd)
    simp only [DimD.render, parseDim]
    rw [splitOn_noSep ':' a (fun c hc => (digit_ne (hch c hc)).1)]
    have hd' : allDigits a = true := hd
    simp [hd', DimD.value]
  | range a b =>
    obtain ⟨ha, hb⟩ := hd
    have hca := allDigits_chars ha
    have hcb := allDigits_chars hb
    simp only [DimD.render, parseDim]
    rw [splitOn_append_sep ':' b a (fun c hc => (digit_ne (hca c hc)).1),
      splitOn_noSep ':' b (fun c hc => (digit_ne (hcb c hc)).1)]
    have ea : (a.isEmpty || allDigits a) = true := by
      rcases ha with rfl | h
      · rfl
      · simp [h]
    have eb : (b.isEmpty || allDigits b) = true := by
      rcases hb with rfl | h
      · simp
      · simp [h]
    simp [ea, eb, DimD.value]

theorem dimD_chars (d : DimD) (hd : d.Ok) : (∀ c ∈ d.render, isDimCh c = true ∧ c ≠ ',') ∧ d.render ≠ [] := by
  cases d with
  | exact a =>
    have hch := allDigits_chars (.inr hd)
    exact ⟨fun c hc => ⟨by simp [isDimCh, hch c hc], (digit_ne (hch c hc)).2.1⟩, allDigits_nonempty hd⟩
  | range a b =>
    obtain ⟨ha, hb⟩ := hd
    have hca := allDigits_chars ha
    have hcb := allDigits_chars hb
    refine ⟨?_, by simp [DimD.render]⟩
    intro c hc
    simp only [DimD.render, List.mem_append, List.mem_cons] at hc
    rcases hc with h | rfl | h
    · exact ⟨by simp [isDimCh, hca c h], (digit_ne (hca c h)).2.1⟩
    · exact ⟨by decide, by decide⟩
    · exact ⟨by simp [isDimCh, hcb c h], (digit_ne (hcb c h)).2.1⟩

def renderDimBody (ds : List DimD) : Str := joinWith [','] (ds.map DimD.render)

theorem joinWith_chars (p : Char → Prop) (sep : Char) (hs : p sep) :
    ∀ ps : List Str, (∀ x ∈ ps, ∀ c ∈ x, p c) → ∀ c ∈ joinWith [sep] ps, p c := by
  intro ps
  induction ps with
  | nil => intro _ c hc; cases hc
  | cons a t ih =>
    intro h c hc
    cases t with
    | nil => exact h a (by simp) c (by simpa [joinWith] using hc)
    | cons b t2 =>
      simp only [joinWith, List.append_assoc, List.singleton_append, List.mem_append, List.mem_cons] at hc
      rcases hc with h1 | rfl | h1
      · exact h a (by simp) c h1
      · exact hs
      · exact ih (fun x hx => h x (List.mem_cons_of_mem _ hx)) c h1

theorem joinWith_ne_nil (sep : Str) : ∀ ps : List Str, (∃ x ∈ ps, x ≠ []) → ps.length = 1 ∨ sep ≠ [] → joinWith sep ps ≠ [] := by
  intro ps
  cases ps with
  | nil => intro ⟨x, hx, _⟩; cases hx
  | cons a t =>
    intro ⟨x, hx, hne⟩ hs
    cases t with
    | nil =>
      simp only [List.mem_singleton] at hx
      subst hx
      simpa [joinWith] using hne
    | cons b t2 =>
      rcases hs with h | h
      · simp at h
      · simp only [joinWith]
        intro e
        have := List.append_eq_nil_iff.mp e
        exact h (List.append_eq_nil_iff.mp this.1).2

theorem mapM_parseDim (ds : List DimD) (h : ∀ d ∈ ds, d.Ok) :
    (ds.map DimD.render).mapM parseDim = .ok (ds.map DimD.value) := by
  induction ds with
  | nil => rfl
  | cons d t ih =>
    simp only [List.map_cons, List.mapM_cons, parseDim_render d (h d (by simp)),
      ih (fun x hx => h x (List.mem_cons_of_mem _ hx))]
    rfl

/-- `part_dimension` consumes exactly `[…]` and yields the bounds written -/
theorem partDimension_dims (ds : List DimD) (hne : ds ≠ []) (h : ∀ d ∈ ds, d.Ok) (after : Str) :
    partDimension ('[' :: (renderDimBody ds ++ ']' :: after)) = .ok (some (ds.map DimD.value), after) := by
  have hall : ∀ c ∈ renderDimBody ds, isDimCh c = true := by
    apply joinWith_chars (fun c => isDimCh c = true) ',' (by decide)
    intro x hx c hc
    obtain ⟨d, hd, rfl⟩ := List.mem_map.mp hx
    exact ((dimD_chars d (h d hd)).1 c hc).1
  have hbody : renderDimBody ds ≠ [] := by
    cases ds with
    | nil => exact absurd rfl hne
    | cons d t =>
      apply joinWith_ne_nil
      · exact ⟨d.render, by simp, (dimD_chars d (h d (by simp))).2⟩
      · exact .inr (by simp)
  have hb : (']' :: after) = [] ∨ ∃ c r, (']' :: after) = c :: r ∧ isDimCh c = false :=
    .inr ⟨']', after, rfl, by decide⟩
  have htw := takeWhile_append_of_all (p := isDimCh) (renderDimBody ds) (']' :: after) hall hb
  have hdw := dropWhile_append_of_all (p := isDimCh) (renderDimBody ds) (']' :: after) hall hb
  have hsplit : splitOn ',' (renderDimBody ds) = ds.map DimD.render := by
    apply splitOn_join ',' _ (by simpa using hne)
    intro p hp c hc
    obtain ⟨d, hd, rfl⟩ := List.mem_map.mp hp
    exact ((dimD_chars d (h d hd)).1 c hc).2
  have he : (renderDimBody ds).isEmpty = false := by
    cases hr : renderDimBody ds with
    | nil => exact absurd hr hbody
    | cons _ _ => rfl
  unfold partDimension
  have hfun : (fun c : Char => c.isDigit || c == ':' || c == ',') = isDimCh := rfl
  simp only [hfun, htw, hdw, he, Bool.false_eq_true, if_false, hsplit, mapM_parseDim ds h, bind, Except.bind]

theorem partDimension_none (after : Str) (h : after = [] ∨ ∃ c r, after = c :: r ∧ c ≠ '[') :
    partDimension after = .ok (none, after) := by
  rcases h with rfl | ⟨c, r, rfl, hc⟩
  · rfl
  · unfold partDimension
    split
    · rename_i heq; exact absurd (List.cons.inj heq).1 hc
    · rfl

end SciVerif.C13
