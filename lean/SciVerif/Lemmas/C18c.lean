import SciVerif.Model.C18Num
import Mathlib.Tactic.FieldSimp
import Mathlib.Tactic.Ring
import Mathlib.Algebra.Field.Basic

/-! Definitions and helper lemmas for the "unit-carrying = SI" theorem of C18 (over a field). -/
namespace SciVerif.C18

variable {F A : Type}

/-- number algebra of a field (the functions are irrelevant for the arithmetic fragment) -/
def fieldOps (K : Type) [Field K] : NumOps K where
  add := (· + ·)
  sub := (· - ·)
  mul := (· * ·)
  div := (· / ·)
  neg := fun x => -x
  one := 1
  exp := id
  log := id
  log10 := id
  sqrt := id
  sin := id
  cos := id
  tan := id
  pow := fun x _ => x
  toInt := fun _ => none

/-- trees built from atoms, parentheses and `+ − × ÷` -/
def E.Arith : E A → Prop
  | .lit _ => True
  | .par e => e.Arith
  | .bin o l r => (o = "add" ∨ o = "sub" ∨ o = "mul" ∨ o = "truediv") ∧ l.Arith ∧ r.Arith
  | _ => False

/-- what unit-carrying evaluation and SI evaluation have to agree on -/
def Agrees {K : Type} [Field K] (q : QV K) (s : Option (SQ K)) : Prop :=
  match q with
  | some q => q.k ≠ 0 ∧ s = some (q.toSI (fieldOps K))
  | none => s = none

theorem numFn_par (N : NumOps F) (q : QV F) : numFn N "par" [q] = q := by cases q <;> rfl
theorem siFn_par (N : NumOps F) (q : Option (SQ F)) : siFn N "par" [q] = q := by cases q <;> rfl

theorem agrees_mk {K : Type} [Field K] (v k : K) (d : Dims) (hk : k ≠ 0) :
    Agrees (some (Quant.mk' (fieldOps K) v k d)) (some ⟨v * k, d⟩) := by
  unfold Quant.mk'
  split
  · exact ⟨by simp [fieldOps], by simp [Quant.toSI, fieldOps]⟩
  · exact ⟨hk, by simp [Quant.toSI, fieldOps]⟩


end SciVerif.C18
