import SciVerif.Model.C03

/-! # C03 helper lemmas: a fuel-free big-step relation for the tokenising loop, its soundness
for the fuel the driver supplies, and the fact that the fuel never runs out -/
namespace SciVerif.C03

theorem dropTrail_length_le (p : Char → Bool) (s : Str) : (dropTrail p s).length ≤ s.length := by
  unfold dropTrail
  rw [List.length_reverse]
  exact Nat.le_trans (List.dropWhile_sublist p).length_le (by simp)

theorem strip_length_le (s : Str) : (strip s).length ≤ s.length := by
  unfold strip
  exact Nat.le_trans (dropTrail_length_le _ _) (List.dropWhile_sublist _).length_le

/-- every argument text `scanPar` returns was either already collected or is no longer than the
    characters consumed before the closing parenthesis -/
theorem scanPar_arg_length : ∀ (right : Str) (depth : Nat) (left : Str) (args : List Str)
    (r : List Str × Str), scanPar right depth left args = .ok r →
    ∀ a ∈ r.1, a ∈ args ∨ a.length + r.2.length + 1 ≤ left.length + right.length
  | [], _, _, _, _, h => by simp [scanPar] at h
  | c :: rest, depth, left, args, r, h => by
    unfold scanPar at h
    intro a ha
    split at h
    · rcases scanPar_arg_length rest _ _ _ r h a ha with h1 | h1
      · exact Or.inl h1
      · right; simp at h1 ⊢; omega
    · split at h
      · have hl := scanPar_rest_length rest _ _ _ r h
        rcases scanPar_arg_length rest _ _ _ r h a ha with h1 | h1
        · rcases List.mem_append.mp h1 with h2 | h2
          · exact Or.inl h2
          · right
            simp at h2; subst h2
            have := strip_length_le left.reverse
            simp at this ⊢; omega
        · right; simp at h1 ⊢; omega
      · split at h
        · split at h
          · cases h
            rcases List.mem_append.mp ha with h2 | h2
            · exact Or.inl h2
            · right
              simp at h2; subst h2
              have := strip_length_le left.reverse
              simp at this ⊢; omega
          · rcases scanPar_arg_length rest _ _ _ r h a ha with h1 | h1
            · exact Or.inl h1
            · right; simp at h1 ⊢; omega
        · rcases scanPar_arg_length rest _ _ _ r h a ha with h1 | h1
          · exact Or.inl h1
          · right; simp at h1 ⊢; omega

theorem scanPar_single_length (rest : Str) (arg rest' : Str)
    (h : scanPar rest 1 [] [] = .ok ([arg], rest')) : arg.length + rest'.length + 1 ≤ rest.length := by
  rcases scanPar_arg_length rest 1 [] [] _ h arg (by simp) with h1 | h1
  · cases h1
  · simpa using h1

/-- big-step form of the tokenising loop of `ExpressionSolver.solve` (no fuel): the four ways one
    iteration proceeds; the argument of a parenthesis is tokenised and evaluated recursively -/
inductive TokRel (T : Tables) : Str → Str → List Tok → List Tok → Prop
  | nil (left : Str) (toks res : List Tok) :
      flushLeft T left toks = .ok res → TokRel T [] left toks res
  | par (rest left : Str) (toks toks1 : List Tok) (arg rest' : Str) (atoks out : List Tok)
      (v : Option Atom) (res : List Tok) :
      flushLeft T left toks = .ok toks1 →
      scanPar rest 1 [] [] = .ok ([arg], rest') →
      TokRel T arg [] [] atoks →
      binPass [] (argsPass atoks) = .ok out →
      finish out = .ok v →
      TokRel T rest' [] (toks1 ++ [.par v]) res →
      TokRel T ('(' :: rest) left toks res
  | mul (rest left : Str) (toks toks1 res : List Tok) :
      flushLeft T left toks = .ok toks1 →
      TokRel T rest [] (toks1 ++ [.mul]) res →
      TokRel T ('*' :: rest) left toks res
  | div (rest left : Str) (toks toks1 res : List Tok) :
      flushLeft T left toks = .ok toks1 →
      TokRel T rest [] (toks1 ++ [.div]) res →
      TokRel T ('/' :: rest) left toks res
  | shift (c : Char) (rest left : Str) (toks res : List Tok) :
      c ≠ '(' → c ≠ '*' → c ≠ '/' →
      TokRel T rest (c :: left) toks res →
      TokRel T (c :: rest) left toks res

/-- the relation is sound for the fuel-indexed function with fuel `2·length + 1` or more -/
theorem TokRel.sound {T : Tables} {right left : Str} {toks res : List Tok}
    (h : TokRel T right left toks res) :
    ∀ f, 2 * right.length + 1 ≤ f → tokenize T f right left toks = .ok res := by
  induction h with
  | nil left toks res hf =>
    intro f hfl
    obtain ⟨f', rfl⟩ : ∃ f', f = f' + 1 := ⟨f - 1, by omega⟩
    simp [tokenize, hf]
  | par rest left toks toks1 arg rest' atoks out v res hfl hscan _ hbin hfin _ iharg ihrest =>
    intro f hf
    have hlen := scanPar_single_length rest arg rest' hscan
    obtain ⟨f', rfl⟩ : ∃ f', f = f' + 2 := ⟨f - 2, by simp at hf; omega⟩
    have hsolve : solve T (f' + 1) arg = .ok v := by
      have := iharg f' (by simp at hf; omega)
      simp [solve, this, hbin, hfin]
    have := ihrest (f' + 1) (by simp at hf; omega)
    rw [tokenize]
    simp only [if_true, hfl, hscan, hsolve, this]
  | mul rest left toks toks1 res hfl _ ih =>
    intro f hf
    obtain ⟨f', rfl⟩ : ∃ f', f = f' + 1 := ⟨f - 1, by omega⟩
    have := ih f' (by simp at hf; omega)
    rw [tokenize]
    simp [hfl, this]
  | div rest left toks toks1 res hfl _ ih =>
    intro f hf
    obtain ⟨f', rfl⟩ : ∃ f', f = f' + 1 := ⟨f - 1, by omega⟩
    have := ih f' (by simp at hf; omega)
    rw [tokenize]
    simp [hfl, this]
  | shift c rest left toks res h1 h2 h3 _ ih =>
    intro f hf
    obtain ⟨f', rfl⟩ : ∃ f', f = f' + 1 := ⟨f - 1, by omega⟩
    have := ih f' (by simp at hf; omega)
    rw [tokenize]
    simp [h1, h2, h3, this]

/-- `unitSolver` from a derivation of the relation -/
theorem unitSolver_of_TokRel {T : Tables} {s : Str} {toks out : List Tok} {v : Atom}
    (h : TokRel T s [] [] toks) (hbin : binPass [] (argsPass toks) = .ok out)
    (hfin : finish out = .ok (some v)) : unitSolver T s = .ok v := by
  have := h.sound (2 * s.length + 1) (Nat.le_refl _)
  simp [unitSolver, solve, this, hbin, hfin]

/-! ## the fuel never runs out -/

theorem unitParse_no_fuel (T : Tables) (s : Str) : unitParse T s ≠ .error .fuel := by
  unfold unitParse
  intro h
  simp only at h
  repeat' split at h
  all_goals cases h

theorem atomParse_no_fuel (T : Tables) (s : Str) : atomParse T s ≠ .error .fuel := by
  unfold atomParse
  intro h
  split at h
  · split at h <;> cases h
  · split at h
    · cases h
    · rename_i e he
      cases h
      exact unitParse_no_fuel T s he

theorem flushLeft_no_fuel (T : Tables) (left : Str) (toks : List Tok) :
    flushLeft T left toks ≠ .error .fuel := by
  unfold flushLeft
  intro h
  simp only at h
  split at h
  · cases h
  · split at h
    · cases h
    · rename_i e he
      cases h
      exact atomParse_no_fuel T _ he

theorem scanPar_no_fuel : ∀ (right : Str) (depth : Nat) (left : Str) (args : List Str),
    scanPar right depth left args ≠ .error .fuel
  | [], _, _, _ => by simp [scanPar]
  | c :: rest, depth, left, args => by
    unfold scanPar
    split
    · exact scanPar_no_fuel rest _ _ _
    · split
      · exact scanPar_no_fuel rest _ _ _
      · split
        · split
          · simp
          · exact scanPar_no_fuel rest _ _ _
        · exact scanPar_no_fuel rest _ _ _

theorem binPass_no_fuel : ∀ (right left : List Tok), binPass left right ≠ .error .fuel
  | [], left => by simp [binPass]
  | t :: right, left => by
    intro h
    unfold binPass at h
    split at h
    · cases h
    · split at h
      · exact binPass_no_fuel _ _ h
      · cases h
    · split at h
      · split at h
        · exact binPass_no_fuel _ _ h
        · cases h
      · cases h
    · exact binPass_no_fuel _ _ h
termination_by right _ => right.length
decreasing_by all_goals (simp_all; try omega)

theorem finish_no_fuel (l : List Tok) : finish l ≠ .error .fuel := by
  unfold finish
  split <;> simp

/-- with fuel `2·length + 1` (tokenising loop) resp. `2·length + 2` (`solve`) the fuel error is
    impossible, for EVERY input text -/
theorem no_fuel_error (T : Tables) : ∀ f,
    (∀ right left toks, 2 * right.length + 1 ≤ f → tokenize T f right left toks ≠ .error .fuel) ∧
    (∀ s, 2 * s.length + 2 ≤ f → solve T f s ≠ .error .fuel)
  | 0 => by
    constructor
    · intro right left toks h; omega
    · intro s h; omega
  | f + 1 => by
    obtain ⟨iht, ihs⟩ := no_fuel_error T f
    constructor
    · intro right left toks hf h
      cases right with
      | nil => rw [tokenize] at h; exact flushLeft_no_fuel T left toks h
      | cons c rest =>
        rw [tokenize] at h
        simp only [List.length_cons] at hf
        split at h
        · split at h
          · rename_i e he; cases h; exact flushLeft_no_fuel T _ _ he
          · split at h
            · rename_i e he; cases h; exact scanPar_no_fuel _ _ _ _ he
            · rename_i args rest' hscan
              split at h
              · rename_i arg
                have hlen := scanPar_single_length rest arg rest' hscan
                split at h
                · rename_i e he; cases h; exact ihs arg (by omega) he
                · exact iht rest' _ _ (by omega) h
              · cases h
        · split at h
          · split at h
            · rename_i e he; cases h; exact flushLeft_no_fuel T _ _ he
            · exact iht rest _ _ (by omega) h
          · split at h
            · split at h
              · rename_i e he; cases h; exact flushLeft_no_fuel T _ _ he
              · exact iht rest _ _ (by omega) h
            · exact iht rest _ _ (by omega) h
    · intro s hf h
      rw [solve] at h
      split at h
      · rename_i e he; cases h; exact iht s [] [] (by omega) he
      · split at h
        · rename_i e he; cases h; exact binPass_no_fuel _ _ he
        · exact finish_no_fuel _ h

/-- `unitSolver` (the entry point the driver uses) never reports a fuel error -/
theorem unitSolver_no_fuel (T : Tables) (s : Str) : unitSolver T s ≠ .error .fuel := by
  unfold unitSolver
  intro h
  split at h
  · cases h
  · cases h
  · rename_i e he
    cases h
    exact (no_fuel_error T (2 * s.length + 2)).2 s (Nat.le_refl _) he

end SciVerif.C03
