import SciVerif.Lemmas.C10e

/-! C10: the ARGS / mul / add passes on the token list of a formula compute `evalF`. -/
set_option linter.unusedSimpArgs false
set_option linter.unusedSectionVars false
namespace SciVerif.C10

/-! ### `_add` is associative on duplicate-free dicts -/
section assoc
variable {α : Type} [Semiring α]

theorem nodup_cplus (a b : Comps α) : (keys (cplus a b)).Nodup :=
  nodup_foldl_cadd (fun kp => kp.2) _ _ (nodup_foldl_cadd (fun kp => kp.2) _ [] (by simp [keys]))

theorem nodup_cmul (a : Comps α) (x : α) : (keys (cmul a x)).Nodup :=
  nodup_foldl_cadd (fun kp => kp.2 * x) _ [] (by simp [keys])

theorem cplus_assoc (a b c : Comps α) (ha : (keys a).Nodup) (hb : (keys b).Nodup) (hc : (keys c).Nodup) :
    cplus (cplus a b) c = cplus a (cplus b c) := by
  rw [eq_of_keys_cget _ (nodup_cplus (cplus a b) c), eq_of_keys_cget (cplus a (cplus b c)) (nodup_cplus _ _)]
  have hk : keys (cplus (cplus a b) c) = keys (cplus a (cplus b c)) := by
    rw [keys_cplus _ _ (nodup_cplus a b) hc, keys_cplus _ _ ha hb, keys_cplus _ _ ha (nodup_cplus b c),
      keys_cplus _ _ hb hc, List.filter_append, List.filter_filter, List.append_assoc]
    congr 2
    apply List.filter_congr
    intro k _
    by_cases h1 : k ∈ keys a <;> by_cases h2 : k ∈ keys b <;> simp [h1, h2]
  rw [hk]
  apply List.map_congr_left
  intro k _
  rw [cget_eq_total _ _ (nodup_cplus _ _), cget_eq_total _ _ (nodup_cplus _ _)]
  simp only [total_cplus, add_assoc]

theorem foldl_cplus_assoc (t : List (Comps α)) : ∀ (x y : Comps α), (keys x).Nodup → (keys y).Nodup →
    (∀ z ∈ t, (keys z).Nodup) → t.foldl cplus (cplus x y) = cplus x (t.foldl cplus y) := by
  induction t with
  | nil => intro x y _ _ _; rfl
  | cons z t ih =>
    intro x y hx hy hz
    simp only [List.foldl_cons]
    rw [cplus_assoc x y z hx hy (hz z (by simp)),
      ih x (cplus y z) hx (nodup_cplus y z) (fun w hw => hz w (by simp [hw]))]

/-- left fold of `_add` over a non-empty list of dicts -/
def sumFacts : List (Comps α) → Comps α
  | [] => []
  | v :: vs => vs.foldl cplus v

theorem sumFacts_append (xs ys : List (Comps α)) (hx : xs ≠ []) (hy : ys ≠ [])
    (hnx : ∀ z ∈ xs, (keys z).Nodup) (hny : ∀ z ∈ ys, (keys z).Nodup) :
    sumFacts (xs ++ ys) = cplus (sumFacts xs) (sumFacts ys) := by
  obtain ⟨x, xs', rfl⟩ := List.exists_cons_of_ne_nil hx
  obtain ⟨y, ys', rfl⟩ := List.exists_cons_of_ne_nil hy
  simp only [sumFacts, List.cons_append, List.foldl_append, List.foldl_cons]
  have hX : (keys (xs'.foldl cplus x)).Nodup := by
    cases xs' with
    | nil => exact hnx x (by simp)
    | cons a t =>
      clear hnx
      have : ∀ (l : List (Comps α)) (u v : Comps α), (keys ((l.foldl cplus (cplus u v)))).Nodup := by
        intro l
        induction l with
        | nil => intro u v; exact nodup_cplus u v
        | cons w l ih => intro u v; exact ih (cplus u v) w
      exact this t x a
  exact foldl_cplus_assoc ys' _ y hX (hny y (by simp)) (fun z hz => hny z (by simp [hz]))

end assoc

/-! ### token list of a formula -/

def toksSpec : F → List Tok
  | .sp s => [.atom (.sub [(s, 1)])]
  | .count f n => toksSpec f ++ [.mul, .atom (.num n)]
  | .mulx f n => toksSpec f ++ [.mul, .atom (.num n)]
  | .group f => [.par (.sub (evalF f))]
  | .seq _ a b => toksSpec a ++ [.add] ++ toksSpec b
  | .plus a b => toksSpec a ++ [.add] ++ toksSpec b

/-- the values of the factors of a formula, in order -/
def facts : F → List (Comps Rat)
  | .sp s => [[(s, 1)]]
  | .count f n => [cmul (evalF f) (n : Rat)]
  | .mulx f n => [cmul (evalF f) (n : Rat)]
  | .group f => [evalF f]
  | .seq _ a b => facts a ++ facts b
  | .plus a b => facts a ++ facts b

def addToks : List (Comps Rat) → List Tok
  | [] => []
  | v :: vs => .atom (.sub v) :: vs.flatMap fun w => [.add, .atom (.sub w)]

theorem facts_ne_nil (f : F) : facts f ≠ [] := by
  induction f <;> simp_all [facts]

theorem facts_nodup (f : F) : ∀ z ∈ facts f, (keys z).Nodup := by
  induction f with
  | sp s => intro z hz; simp only [facts, List.mem_singleton] at hz; subst hz; simp [keys]
  | count f n ih => intro z hz; simp only [facts, List.mem_singleton] at hz; subst hz; exact nodup_cmul _ _
  | mulx f n ih => intro z hz; simp only [facts, List.mem_singleton] at hz; subst hz; exact nodup_cmul _ _
  | group f ih => intro z hz; simp only [facts, List.mem_singleton] at hz; subst hz; exact nodup_evalF f
  | seq ws a b iha ihb =>
    intro z hz; simp only [facts, List.mem_append] at hz; rcases hz with h | h
    · exact iha z h
    · exact ihb z h
  | plus a b iha ihb =>
    intro z hz; simp only [facts, List.mem_append] at hz; rcases hz with h | h
    · exact iha z h
    · exact ihb z h

theorem evalF_sp (s : Str) : (evalF (.sp s) : Comps Rat) = [(s, 1)] := by simp [evalF]

theorem sumFacts_facts (f : F) : sumFacts (facts f) = (evalF f : Comps Rat) := by
  induction f with
  | sp s => simp [facts, sumFacts, evalF]
  | count f n ih => simp [facts, sumFacts, evalF]
  | mulx f n ih => simp [facts, sumFacts, evalF]
  | group f ih => simp [facts, sumFacts, evalF]
  | seq ws a b iha ihb =>
    simp only [facts, evalF]
    rw [sumFacts_append _ _ (facts_ne_nil a) (facts_ne_nil b) (facts_nodup a) (facts_nodup b), iha, ihb]
  | plus a b iha ihb =>
    simp only [facts, evalF]
    rw [sumFacts_append _ _ (facts_ne_nil a) (facts_ne_nil b) (facts_nodup a) (facts_nodup b), iha, ihb]

theorem addToks_append (xs ys : List (Comps Rat)) (hx : xs ≠ []) (hy : ys ≠ []) :
    addToks (xs ++ ys) = addToks xs ++ [.add] ++ addToks ys := by
  obtain ⟨x, xs', rfl⟩ := List.exists_cons_of_ne_nil hx
  obtain ⟨y, ys', rfl⟩ := List.exists_cons_of_ne_nil hy
  simp [addToks, List.flatMap_append, List.flatMap_cons]

/-! ### the binary passes -/

theorem binPass_nil (isOp : Tok → Bool) (g : Val → Val → Option Val) (L : List Tok) :
    binPass isOp g L [] = some L.reverse := by
  rw [binPass.eq_def]

theorem binPass_push (isOp : Tok → Bool) (g : Val → Val → Option Val) (L R : List Tok) (t : Tok)
    (h : isOp t = false) : binPass isOp g L (t :: R) = binPass isOp g (t :: L) R := by
  conv_lhs => rw [binPass.eq_def]
  simp only [h, Bool.false_eq_true, if_false]

theorem binPass_op (isOp : Tok → Bool) (g : Val → Val → Option Val) (L R : List Tok) (t : Tok)
    (l r v : Val) (h : isOp t = true) (hg : g l r = some v) :
    binPass isOp g (.atom l :: L) (t :: .atom r :: R) = binPass isOp g (.atom v :: L) R := by
  conv_lhs => rw [binPass.eq_def]
  simp only [h, if_true, hg]

theorem binPass_pushAll (isOp : Tok → Bool) (g : Val → Val → Option Val) (ts : List Tok) :
    ∀ (L R : List Tok), (∀ t ∈ ts, isOp t = false) →
      binPass isOp g L (ts ++ R) = binPass isOp g (ts.reverse ++ L) R := by
  induction ts with
  | nil => intro L R _; rfl
  | cons t ts ih =>
    intro L R h
    rw [List.cons_append, binPass_push _ _ _ _ _ (h t (by simp)), ih _ _ (fun x hx => h x (by simp [hx]))]
    simp

def isMul (t : Tok) : Bool := t == .mul
def isAdd (t : Tok) : Bool := t == .add

/-- the count operand is a species or a group (the shape `F.wf` demands) -/
def F.factorOK : F → Prop
  | .sp _ => True
  | .count (.sp _) _ => True
  | .count (.group g) _ => g.factorOK
  | .count _ _ => False
  | .mulx (.sp _) _ => True
  | .mulx (.group g) _ => g.factorOK
  | .mulx _ _ => False
  | .group g => g.factorOK
  | .seq _ a b => a.factorOK ∧ b.factorOK
  | .plus a b => a.factorOK ∧ b.factorOK

theorem mulPass_formula (f : F) (hf : f.factorOK) : ∀ (L R : List Tok),
    binPass isMul mulVal L (parPass (toksSpec f) ++ R) =
      binPass isMul mulVal ((addToks (facts f)).reverse ++ L) R := by
  induction f with
  | sp s =>
    intro L R
    simp only [toksSpec, parPass, List.map_cons, List.map_nil, facts, addToks, List.flatMap_nil,
      List.reverse_cons, List.reverse_nil, List.nil_append, List.cons_append]
    exact binPass_push _ _ _ _ _ rfl
  | count g n ih =>
    intro L R
    cases g with
    | sp s =>
      simp only [toksSpec, parPass, List.map_cons, List.map_nil, List.cons_append, List.nil_append,
        List.map_append, facts, addToks, List.flatMap_nil, List.reverse_cons, List.reverse_nil]
      rw [binPass_push _ _ _ _ _ rfl,
        binPass_op isMul mulVal L R .mul (.sub [(s, 1)]) (.num n) (.sub (cmul [(s, 1)] (n : Rat))) (by decide) rfl,
        evalF_sp]
    | group h =>
      simp only [toksSpec, parPass, List.map_cons, List.map_nil, List.cons_append, List.nil_append,
        List.map_append, facts, addToks, List.flatMap_nil, List.reverse_cons, List.reverse_nil]
      rw [binPass_push _ _ _ _ _ rfl,
        binPass_op isMul mulVal L R .mul (.sub (evalF h)) (.num n) (.sub (cmul (evalF h) (n : Rat))) (by decide) rfl]
      simp [evalF]
    | count _ _ => exact absurd hf (by simp [F.factorOK])
    | mulx _ _ => exact absurd hf (by simp [F.factorOK])
    | seq _ _ _ => exact absurd hf (by simp [F.factorOK])
    | plus _ _ => exact absurd hf (by simp [F.factorOK])
  | mulx g n ih =>
    intro L R
    cases g with
    | sp s =>
      simp only [toksSpec, parPass, List.map_cons, List.map_nil, List.cons_append, List.nil_append,
        List.map_append, facts, addToks, List.flatMap_nil, List.reverse_cons, List.reverse_nil]
      rw [binPass_push _ _ _ _ _ rfl,
        binPass_op isMul mulVal L R .mul (.sub [(s, 1)]) (.num n) (.sub (cmul [(s, 1)] (n : Rat))) (by decide) rfl,
        evalF_sp]
    | group h =>
      simp only [toksSpec, parPass, List.map_cons, List.map_nil, List.cons_append, List.nil_append,
        List.map_append, facts, addToks, List.flatMap_nil, List.reverse_cons, List.reverse_nil]
      rw [binPass_push _ _ _ _ _ rfl,
        binPass_op isMul mulVal L R .mul (.sub (evalF h)) (.num n) (.sub (cmul (evalF h) (n : Rat))) (by decide) rfl]
      simp [evalF]
    | count _ _ => exact absurd hf (by simp [F.factorOK])
    | mulx _ _ => exact absurd hf (by simp [F.factorOK])
    | seq _ _ _ => exact absurd hf (by simp [F.factorOK])
    | plus _ _ => exact absurd hf (by simp [F.factorOK])
  | group g ih =>
    intro L R
    simp only [toksSpec, parPass, List.map_cons, List.map_nil, facts, addToks, List.flatMap_nil,
      List.reverse_cons, List.reverse_nil, List.nil_append, List.cons_append]
    exact binPass_push _ _ _ _ _ rfl
  | seq ws a b iha ihb =>
    intro L R
    simp only [toksSpec, parPass, List.map_append, List.map_cons, List.map_nil, List.append_assoc, facts]
    have ea := iha hf.1
    have eb := ihb hf.2
    simp only [parPass] at ea eb
    rw [ea, List.singleton_append, binPass_push _ _ _ _ _ rfl, eb,
      addToks_append _ _ (facts_ne_nil a) (facts_ne_nil b)]
    simp
  | plus a b iha ihb =>
    intro L R
    simp only [toksSpec, parPass, List.map_append, List.map_cons, List.map_nil, List.append_assoc, facts]
    have ea := iha hf.1
    have eb := ihb hf.2
    simp only [parPass] at ea eb
    rw [ea, List.singleton_append, binPass_push _ _ _ _ _ rfl, eb,
      addToks_append _ _ (facts_ne_nil a) (facts_ne_nil b)]
    simp

theorem addPass_rest (vs : List (Comps Rat)) : ∀ (acc : Comps Rat),
    binPass isAdd addVal [.atom (.sub acc)] (vs.flatMap fun w => [.add, .atom (.sub w)]) =
      some [.atom (.sub (vs.foldl cplus acc))] := by
  induction vs with
  | nil => intro acc; simp [binPass_nil]
  | cons v vs ih =>
    intro acc
    simp only [List.flatMap_cons, List.cons_append, List.nil_append, List.foldl_cons]
    rw [binPass_op isAdd addVal [] _ .add (.sub acc) (.sub v) (.sub (cplus acc v)) (by decide) rfl]
    exact ih _

/-- the three steps of `solve` on the token list of a formula -/
theorem reduce_toksSpec (f : F) (hf : f.factorOK) : reduce (toksSpec f) = some (.sub (evalF f)) := by
  have h1 := mulPass_formula f hf [] []
  simp only [List.append_nil, binPass_nil, List.reverse_reverse] at h1
  obtain ⟨v, vs, hv⟩ := List.exists_cons_of_ne_nil (facts_ne_nil f)
  have h2 : binPass isAdd addVal [] (addToks (facts f)) = some [.atom (.sub (sumFacts (facts f)))] := by
    rw [hv]
    simp only [addToks, sumFacts]
    rw [binPass_push _ _ _ _ _ rfl]
    exact addPass_rest vs v
  have e1 : (fun x : Tok => x == Tok.mul) = isMul := rfl
  have e2 : (fun x : Tok => x == Tok.add) = isAdd := rfl
  simp only [reduce, e1, e2, h1, h2, sumFacts_facts]

end SciVerif.C10
