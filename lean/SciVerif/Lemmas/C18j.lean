import SciVerif.Model.C18Log

/-! Consistency of the comparison operators on the same operands (C18). -/
namespace SciVerif.C18

variable {F : Type}

theorem cmp_ne_not_eq (C : CmpOps F) (l r : LV F) :
    cmpOp C "ne" l r = lNot (cmpOp C "eq" l r) := by
  unfold cmpOp
  split <;> try (simp +decide [lNot, bne]; done)
  all_goals (split <;> simp +decide [lNot, bne])

theorem cmp_le_lt_or_eq (C : CmpOps F) (l r : LV F) :
    cmpOp C "le" l r = lOr (cmpOp C "lt" l r) (cmpOp C "eq" l r) := by
  unfold cmpOp
  split <;> try (simp +decide [lOr]; done)
  all_goals (split <;> simp +decide [lOr])

theorem cmp_ge_gt_or_eq (C : CmpOps F) (l r : LV F) :
    cmpOp C "ge" l r = lOr (cmpOp C "gt" l r) (cmpOp C "eq" l r) := by
  unfold cmpOp
  split <;> try (simp +decide [lOr]; done)
  all_goals (split <;> simp +decide [lOr])

end SciVerif.C18
