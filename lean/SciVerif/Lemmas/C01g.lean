import SciVerif.Facts.C01Sym

/-!
# C01 helper lemmas, part 7 (character level): iterations of the tokeniser loop of `solve`
  over blanks, literals, operator symbols and call forms, for the default table.
-/
namespace SciVerif.C01
open SciVerif.C01.Gen

variable {A : Type} (alg : AtomAlg A) (lit : List Char → A)

/-! ### what the table facts give -/

theorem rowFact_elim {tbl : Table} {name : String} {sym : List Char} {par : Option ParSpec}
    (h : rowFact tbl name sym par = true) :
    ∃ row, tbl.rows[idxOf tbl name]? = some row ∧ row.symbol = sym ∧ row.par = par ∧
      earlierOK (tbl.rows.take (idxOf tbl name)) sym = true ∧
      ∀ c ∈ clashChars (tbl.rows.take (idxOf tbl name)) sym, c = '*' ∨ c = '=' := by
  unfold rowFact at h
  split at h
  · rename_i row hr
    simp only [Bool.and_eq_true, beq_iff_eq, List.all_eq_true, Bool.or_eq_true] at h
    exact ⟨row, hr, h.1.1.1, h.1.1.2, h.1.2, h.2⟩
  · cases h

/-- the text after an operator symbol does not continue it to an earlier-listed symbol -/
def SafeHead (r : List Char) : Prop := r.head? ≠ some '*' ∧ r.head? ≠ some '='

theorem findOp_row {tbl : Table} {name : String} {sym : List Char} {par : Option ParSpec}
    (h : rowFact tbl name sym par = true) (r : List Char) (hs : SafeHead r) :
    ∃ row, findOp tbl (sym ++ r) = some (idxOf tbl name, row) ∧ row.symbol = sym ∧ row.par = par := by
  obtain ⟨row, hr, rfl, hp, he, hc⟩ := rowFact_elim h
  refine ⟨row, ?_, rfl, hp⟩
  have := findOpFrom_first tbl.rows (idxOf tbl name) 0 row r hr he (fun c hcm => by
    rcases hc c hcm with rfl | rfl
    · exact hs.1
    · exact hs.2)
  simpa [findOp] using this

theorem findOp_plain (c : Char) (r : List Char) (hc : plain c = true) :
    findOp dflt (c :: r) = none := by
  apply findOpFrom_none
  intro row hrow
  have h := List.all_eq_true.mp fact_sym_start row hrow
  unfold symStartOK at h
  split at h
  · cases h
  · rename_i c' cs hsym
    simp only [Bool.and_eq_true, Bool.not_eq_eq_eq_not, Bool.not_true] at h
    rw [hsym]
    simp only [List.isPrefixOf, Bool.and_eq_false_imp, beq_iff_eq]
    intro hcc
    subst hcc
    rw [h.1] at hc; cases hc

theorem findOp_e (d : Char) (r : List Char) (hd : isDigit d = true) :
    findOp dflt ('e' :: d :: r) = none := by
  apply findOpFrom_none
  intro row hrow
  have h := List.all_eq_true.mp fact_sym_start row hrow
  unfold symStartOK at h
  split at h
  · cases h
  · rename_i c' cs hsym
    simp only [Bool.and_eq_true, Bool.not_eq_eq_eq_not, Bool.not_true, Bool.or_eq_true,
      bne_iff_ne, ne_eq] at h
    rw [hsym]
    by_cases hce : c' = 'e'
    · subst hce
      rcases h.2 with h2 | h2
      · exact absurd rfl h2
      · cases cs with
        | nil => cases h2
        | cons d' ds =>
          simp only [Bool.not_eq_eq_eq_not, Bool.not_true] at h2
          simp only [List.isPrefixOf, beq_self_eq_true, Bool.true_and, Bool.and_eq_false_imp, beq_iff_eq]
          intro hdd
          subst hdd
          rw [h2] at hd; cases hd
    · simp [List.isPrefixOf, hce]

/-! ### iterations of the tokeniser loop -/

variable (sa : Bufs A → List Char → Bufs A × Except String (Tok A))

theorem tokLoop_shift (m : Nat) (lw : List Char) (c : Char) (r : List Char) (b : Bufs A)
    (h : findOp dflt (c :: r) = none) :
    tokLoop dflt alg sa (m + 1) ⟨lw, c :: r⟩ b = tokLoop dflt alg sa m ⟨lw ++ [c], r⟩ b := by
  simp [tokLoop, h, Ex.shift]

theorem tokLoop_blanks (j m : Nat) (lw r : List Char) (b : Bufs A) :
    tokLoop dflt alg sa (m + j) ⟨lw, blanks j ++ r⟩ b
      = tokLoop dflt alg sa m ⟨lw ++ blanks j, r⟩ b := by
  induction j generalizing lw with
  | zero => simp [blanks]
  | succ j ih =>
    rw [blanks_succ, List.cons_append, show m + (j + 1) = (m + j) + 1 by omega,
      tokLoop_shift alg sa _ _ _ _ _ (findOp_plain ' ' _ (by decide)), ih]
    simp

theorem tokLoop_lit (t : List Char) (ht : litScan t = true) :
    ∀ (m : Nat) (lw r : List Char) (b : Bufs A),
      tokLoop dflt alg sa (m + t.length) ⟨lw, t ++ r⟩ b = tokLoop dflt alg sa m ⟨lw ++ t, r⟩ b := by
  induction t with
  | nil => intro m lw r b; simp
  | cons c t ih =>
    intro m lw r b
    simp only [litScan] at ht
    have hf : findOp dflt (c :: (t ++ r)) = none := by
      by_cases hce : c = 'e'
      · subst hce
        simp only [if_true, Bool.and_eq_true] at ht
        cases t with
        | nil => simp at ht
        | cons d t' => exact findOp_e d _ ht.1
      · simp only [hce, if_false, Bool.and_eq_true, Bool.or_eq_true, beq_iff_eq] at ht
        apply findOp_plain
        rcases ht.1 with h | h
        · simp [plain, h]
        · simp [plain, h]
    have ht' : litScan t = true := by
      by_cases hce : c = 'e'
      · simp only [hce, if_true, Bool.and_eq_true] at ht; exact ht.2
      · simp only [hce, if_false, Bool.and_eq_true] at ht; exact ht.2
    rw [List.cons_append, show m + (c :: t).length = (m + t.length) + 1 by simp; omega,
      tokLoop_shift alg sa _ _ _ _ _ hf, ih ht']
    simp

theorem tokLoop_end (m : Nat) (lw : List Char) (b : Bufs A) :
    tokLoop dflt alg sa (m + 1) ⟨lw, []⟩ b = pushAtom alg (strip lw) b := by
  simp [tokLoop, Ex.popLeft]

theorem tokLoop_op {name : String} {sym : List Char}
    (h : rowFact dflt name sym none = true) (hne : sym ≠ []) (m : Nat) (lw r : List Char)
    (b b1 : Bufs A) (hs : SafeHead r) (hp : pushAtom alg (strip lw) b = .ok b1) :
    tokLoop dflt alg sa (m + 1) ⟨lw, sym ++ r⟩ b
      = tokLoop dflt alg sa m ⟨[], r⟩ (append b1 (.op (idxOf dflt name) [])) := by
  obtain ⟨row, hf, hsym, hpar⟩ := findOp_row h r hs
  have hemp : (sym ++ r).isEmpty = false := by
    cases sym with
    | nil => exact absurd rfl hne
    | cons c cs => rfl
  simp [tokLoop, hemp, hf, Ex.popLeft, hp, hpar, Ex.remove, hsym]

theorem tokLoop_call {name : String} {sym : List Char} {narg : Nat}
    (h : rowFact dflt name sym (some (stdPar narg)) = true) (hne : sym ≠ []) (m : Nat)
    (lw r r' : List Char) (b b1 : Bufs A) (args : List (List Char)) (vals : List (Option A))
    (hs : SafeHead r) (hp : pushAtom alg (strip lw) b = .ok b1)
    (hscan : parScan (stdPar narg) (r.length + 1) 1 ⟨[], r⟩ [] = some (⟨[], r'⟩, args))
    (hlen : args.length = narg) (hargs : solveArgs sa ⟨[], []⟩ args = .ok vals) :
    tokLoop dflt alg sa (m + 1) ⟨lw, sym ++ r⟩ b
      = tokLoop dflt alg sa m ⟨[], r'⟩ (append b1 (.op (idxOf dflt name) vals)) := by
  obtain ⟨row, hf, hsym, hpar⟩ := findOp_row h r hs
  have hemp : (sym ++ r).isEmpty = false := by
    cases sym with
    | nil => exact absurd rfl hne
    | cons c cs => rfl
  have hn : (stdPar narg).narg = narg := rfl
  simp [tokLoop, hemp, hf, Ex.popLeft, hp, hpar, Ex.remove, hsym, hscan, hn, hlen, hargs]

/-! ### literals -/

theorem litScan_chars (t : List Char) (h : litScan t = true) :
    ∀ c ∈ t, isDigit c = true ∨ c = '.' ∨ c = 'e' := by
  induction t with
  | nil => intro c hc; cases hc
  | cons d t ih =>
    intro c hc
    simp only [litScan] at h
    by_cases hde : d = 'e'
    · simp only [hde, if_true, Bool.and_eq_true] at h
      rcases List.mem_cons.mp hc with rfl | hm
      · exact Or.inr (Or.inr hde)
      · exact ih h.2 c hm
    · simp only [hde, if_false, Bool.and_eq_true, Bool.or_eq_true, beq_iff_eq] at h
      rcases List.mem_cons.mp hc with rfl | hm
      · rcases h.1 with h1 | h1
        · exact Or.inl h1
        · exact Or.inr (Or.inl h1)
      · exact ih h.2 c hm

theorem litChar_props (c : Char) (h : isDigit c = true ∨ c = '.' ∨ c = 'e') :
    isWs c = false ∧ Neutral c ∧ c ≠ '*' ∧ c ≠ '=' := by
  rcases h with h | rfl | rfl
  · refine ⟨?_, ⟨?_, ?_, ?_⟩, ?_, ?_⟩
    · cases hw : isWs c with
      | false => rfl
      | true =>
        exfalso
        simp only [isWs, Bool.or_eq_true, beq_iff_eq] at hw
        rcases hw with ((((rfl | rfl) | rfl) | rfl) | rfl) | rfl <;> revert h <;> decide
    all_goals (rintro rfl; revert h; decide)
  · exact ⟨by decide, ⟨by decide, by decide, by decide⟩, by decide, by decide⟩
  · exact ⟨by decide, ⟨by decide, by decide, by decide⟩, by decide, by decide⟩

theorem litSafe_good (t : List Char) (h : litSafe t = true) :
    GoodLex t ∧ (∀ c ∈ t, Neutral c) ∧ litScan t = true ∧ SafeHead t := by
  simp only [litSafe, Bool.and_eq_true, Bool.not_eq_eq_eq_not, Bool.not_true, List.isEmpty_eq_false_iff] at h
  obtain ⟨hne, hs⟩ := h
  have hc := litScan_chars t hs
  refine ⟨⟨hne, fun c hm => (litChar_props c (hc c hm)).1⟩, fun c hm => (litChar_props c (hc c hm)).2.1, hs, ?_⟩
  cases t with
  | nil => exact absurd rfl hne
  | cons c t' =>
    have := litChar_props c (hc c (by simp))
    exact ⟨by simpa using this.2.2.1, by simpa using this.2.2.2⟩

end SciVerif.C01
