import SciVerif.Model.C13Spec
/-!
Lemmas for C14: what `BaseNode.modify_value` stores, and the frame of one loop iteration.
-/
namespace SciVerif.C13

/-- The value a successful modification stores: a function of the *static* attributes of the
    defined node (type, dimension, unit) and of the modifying line only — not of the old value. -/
def assignedValue (P : Params) (ty : Ty) (dims : Option (List Dim)) (u0 : Option Str) (nd : Node) : R Val :=
  match nd.raw with
  | some (.text s) => do
      let v ← P.castText ty dims s
      if v = .none then .ok .none else convertVal P ty u0 nd.units v
  | _ => .error .fail

theorem modify_ok {P : Params} {e e' : ENode} {nd : Node} (h : modify P e nd = .ok e') :
    ∃ v, assignedValue P e.ty e.dims e.units nd = .ok v ∧ e' = { e with value := some v } ∧
      (∀ t, kindTy nd.kind = some t → t = e.ty) := by
  unfold modify at h
  by_cases hb : tyMismatch nd e.ty = true
  · rw [if_pos hb] at h; cases h
  · rw [if_neg hb] at h
    have hty' : ∀ t, kindTy nd.kind = some t → t = e.ty := by
      intro t ht
      simp only [tyMismatch, ht] at hb
      simpa using hb
    cases hr : nd.raw with
    | none =>
      rw [hr] at h
      by_cases hv : e.value.isNone = true <;> simp [hv] at h
    | some r =>
      cases r with
      | cells j l => rw [hr] at h; cases h
      | text s =>
        rw [hr] at h
        simp only [bind, Except.bind] at h
        cases hc : P.castText e.ty e.dims s with
        | error x => rw [hc] at h; cases h
        | ok v =>
          rw [hc] at h
          simp only at h
          by_cases hv : v = .none
          · rw [if_pos hv] at h
            simp only [Except.ok.injEq] at h
            exact ⟨.none, by simp [assignedValue, hr, hc, hv, bind, Except.bind], h.symm, hty'⟩
          · rw [if_neg hv] at h
            cases hcv : convertVal P e.ty e.units nd.units v with
            | error x => rw [hcv] at h; cases h
            | ok v' =>
              rw [hcv] at h
              simp only [Except.ok.injEq] at h
              exact ⟨v', by simp [assignedValue, hr, hc, hv, hcv, bind, Except.bind], h.symm, hty'⟩

/-- a chain of modifications applied to one node -/
def modifyAll (P : Params) : ENode → List Node → R ENode
  | e, [] => .ok e
  | e, m :: t => do
      let e' ← modify P e m
      modifyAll P e' t

theorem modifyAll_static {P : Params} : ∀ (ms : List Node) (e e' : ENode), modifyAll P e ms = .ok e' →
    e'.name = e.name ∧ e'.ty = e.ty ∧ e'.info = e.info ∧ e'.dims = e.dims ∧ e'.units = e.units ∧
    e'.declared = e.declared ∧ e'.constant = e.constant := by
  intro ms
  induction ms with
  | nil => intro e e' h; simp only [modifyAll, Except.ok.injEq] at h; subst h; simp
  | cons m t ih =>
    intro e e' h
    simp only [modifyAll, bind, Except.bind] at h
    cases hm : modify P e m with
    | error x => rw [hm] at h; cases h
    | ok e1 =>
      rw [hm] at h
      obtain ⟨v, _, he1, _⟩ := modify_ok hm
      have := ih e1 e' h
      rw [he1] at this
      simpa using this

theorem modifyAll_append {P : Params} : ∀ (ms : List Node) (m : Node) (e : ENode),
    modifyAll P e (ms ++ [m]) = (modifyAll P e ms).bind (fun e1 => modify P e1 m) := by
  intro ms
  induction ms with
  | nil =>
    intro m e
    simp only [List.nil_append, modifyAll, bind, Except.bind]
    cases modify P e m <;> rfl
  | cons a t ih =>
    intro m e
    simp only [List.cons_append, modifyAll, bind, Except.bind]
    cases modify P e a with
    | error x => rfl
    | ok e1 => exact ih m e1

/-! ### `updateFirst`: lookup by path -/

theorem updateFirst_none {P : Params} {path : Str} {nd : Node} :
    ∀ (ns : List ENode), updateFirst P path nd ns = none ↔ ∀ e ∈ ns, e.name ≠ path := by
  intro ns
  induction ns with
  | nil => simp [updateFirst]
  | cons e t ih =>
    by_cases h : e.name = path
    · simp [updateFirst, h]
    · simp [updateFirst, h, ih]

/-- a constant node with that path anywhere first in the list makes the step fail -/
theorem updateFirst_constant {P : Params} {path : Str} {nd : Node} :
    ∀ (ns : List ENode) (e : ENode), e ∈ ns → e.name = path → e.constant = true →
      (∀ e2 ∈ ns, e2.name = path → e2 = e) →
      updateFirst P path nd ns = some (.error .fail) := by
  intro ns
  induction ns with
  | nil => intro e h; cases h
  | cons a t ih =>
    intro e he hn hc huniq
    by_cases h : a.name = path
    · have : a = e := huniq a (by simp) h
      subst this
      simp [updateFirst, h, hc]
    · have het : e ∈ t := by
        rcases List.mem_cons.mp he with rfl | h'
        · exact absurd hn h
        · exact h'
      have := ih e het hn hc (fun e2 h2 => huniq e2 (List.mem_cons_of_mem _ h2))
      simp [updateFirst, h, this, Except.map]

/-- a successful lookup-and-modify replaces exactly the first node with that path by its
    modification and leaves every other node, and the order, as they were -/
theorem updateFirst_ok {P : Params} {path : Str} {nd : Node} :
    ∀ (ns ns' : List ENode), updateFirst P path nd ns = some (.ok ns') →
      ∃ pre e e' post, ns = pre ++ e :: post ∧ ns' = pre ++ e' :: post ∧ e.name = path ∧
        e.constant = false ∧ (∀ x ∈ pre, x.name ≠ path) ∧ modify P e nd = .ok e' := by
  intro ns
  induction ns with
  | nil => intro ns' h; simp [updateFirst] at h
  | cons a t ih =>
    intro ns' h
    by_cases hn : a.name = path
    · simp only [updateFirst, hn, if_true, Option.some.injEq] at h
      by_cases hc : a.constant = true
      · simp [hc] at h
      · simp only [hc, Bool.false_eq_true, if_false] at h
        cases hm : modify P a nd with
        | error x => rw [hm] at h; cases h
        | ok e' =>
          rw [hm] at h
          simp only [Except.map, Except.ok.injEq] at h
          exact ⟨[], a, e', t, rfl, by simp [← h], hn, by simpa using hc, by simp, hm⟩
    · simp only [updateFirst, hn, if_false] at h
      cases hu : updateFirst P path nd t with
      | none => rw [hu] at h; simp at h
      | some r =>
        rw [hu] at h
        simp only [Option.map_some, Option.some.injEq] at h
        cases r with
        | error x => simp [Except.map] at h
        | ok t' =>
          simp only [Except.map, Except.ok.injEq] at h
          obtain ⟨pre, e, e', post, h1, h2, h3, h4, h5, h6⟩ := ih t' hu
          refine ⟨a :: pre, e, e', post, by simp [h1], by simp [← h, h2], h3, h4, ?_, h6⟩
          intro x hx
          rcases List.mem_cons.mp hx with rfl | hx
          · exact hn
          · exact h5 x hx

end SciVerif.C13
