import SciVerif.Lemmas.C03b
import SciVerif.Lemmas.C03f

/-! # C03 helper lemmas: renderings of a unit AST with arbitrary blanks, the parenthesis scan
over a rendering, closure of renderings under `strip` -/
namespace SciVerif.C03

/-- the text of a leaf of the AST -/
def U.leafText : U → Option Str
  | .atom p b x => some (p ++ b ++ x)
  | .sys n x => some (n ++ x)
  | .num t => some t
  | _ => none

def blank (l : Str) : Prop := l.all isSpace = true

/-- `Renders a s`: `s` is the text of `a` with any blanks around leaves and parentheses
    (every blank choice); `a.render` is the rendering without blanks -/
inductive Renders : U → Str → Prop
  | leaf (a : U) (t l r : Str) : a.leafText = some t → blank l → blank r → Renders a (l ++ t ++ r)
  | mul (a b : U) (s1 s2 : Str) : Renders a s1 → Renders b s2 → Renders (.mul a b) (s1 ++ '*' :: s2)
  | div (a b : U) (s1 s2 : Str) : Renders a s1 → Renders b s2 → Renders (.div a b) (s1 ++ '/' :: s2)
  | par (a : U) (s l r : Str) : blank l → blank r → Renders a s →
      Renders (.par a) (l ++ '(' :: s ++ ')' :: r)

theorem blank_nil : blank [] := rfl

theorem renders_render (a : U) : Renders a a.render := by
  induction a with
  | atom p b x =>
    have := Renders.leaf (.atom p b x) (p ++ b ++ x) [] [] rfl blank_nil blank_nil
    simpa [U.render] using this
  | sys n x =>
    have := Renders.leaf (.sys n x) (n ++ x) [] [] rfl blank_nil blank_nil
    simpa [U.render] using this
  | num t =>
    have := Renders.leaf (.num t) t [] [] rfl blank_nil blank_nil
    simpa [U.render] using this
  | mul a b iha ihb => exact Renders.mul a b _ _ iha ihb
  | div a b iha ihb => exact Renders.div a b _ _ iha ihb
  | par a ih =>
    have := Renders.par a _ [] [] blank_nil blank_nil ih
    simpa [U.render] using this

/-- every leaf text is non-empty and consists of plain characters -/
def U.plainLeaves : U → Prop
  | .mul a b => a.plainLeaves ∧ b.plainLeaves
  | .div a b => a.plainLeaves ∧ b.plainLeaves
  | .par a => a.plainLeaves
  | a => ∃ t, a.leafText = some t ∧ t ≠ [] ∧ t.all isPlainChar = true

/-! ## character classes -/

theorem plain_not_special (c : Char) (h : isPlainChar c = true) :
    c ≠ '(' ∧ c ≠ ')' ∧ c ≠ '*' ∧ c ≠ '/' ∧ c ≠ ',' ∧ isSpace c = false := by
  unfold isPlainChar at h
  simp only [Bool.not_eq_true', Bool.or_eq_false_iff, beq_eq_false_iff_ne, ne_eq] at h
  obtain ⟨⟨⟨⟨⟨h1, h2⟩, h3⟩, h4⟩, h5⟩, h6⟩ := h
  exact ⟨h1, h2, h3, h4, h5, h6⟩

theorem space_not_special (c : Char) (h : isSpace c = true) :
    c ≠ '(' ∧ c ≠ ')' ∧ c ≠ '*' ∧ c ≠ '/' ∧ c ≠ ',' := by
  refine ⟨?_, ?_, ?_, ?_, ?_⟩ <;> (intro hc; subst hc; revert h; decide)

/-- neither a parenthesis nor the argument separator: what `scanPar` just shifts -/
def scanPlain (w : Str) : Prop := ∀ c ∈ w, c ≠ '(' ∧ c ≠ ')' ∧ c ≠ ','

theorem scanPlain_of_plain (w : Str) (h : w.all isPlainChar = true) : scanPlain w := by
  intro c hc
  rw [List.all_eq_true] at h
  obtain ⟨h1, h2, _, _, h5, _⟩ := plain_not_special c (h c hc)
  exact ⟨h1, h2, h5⟩

theorem scanPlain_of_blank (w : Str) (h : blank w) : scanPlain w := by
  intro c hc
  unfold blank at h
  rw [List.all_eq_true] at h
  obtain ⟨h1, h2, _, _, h5⟩ := space_not_special c (h c hc)
  exact ⟨h1, h2, h5⟩

theorem scanPar_plain (w tail : Str) (d : Nat) (left : Str) (args : List Str) (hw : scanPlain w) :
    scanPar (w ++ tail) d left args = scanPar tail d (w.reverse ++ left) args := by
  induction w generalizing left with
  | nil => rfl
  | cons c t ih =>
    obtain ⟨h1, h2, h3⟩ := hw c (by simp)
    have ht : scanPlain t := fun x hx => hw x (List.mem_cons_of_mem _ hx)
    simp only [List.cons_append, scanPar, h1, h2, h3, false_and, if_false]
    rw [ih _ ht]
    simp

/-- scanning over any rendering at depth ≥ 1 shifts all its characters and returns to the depth -/
theorem scanPar_renders {a : U} {s : Str} (h : Renders a s) (hp : a.plainLeaves) :
    ∀ (tail : Str) (d : Nat) (left : Str) (args : List Str), 1 ≤ d →
      scanPar (s ++ tail) d left args = scanPar tail d (s.reverse ++ left) args := by
  induction h with
  | leaf a t l r ht hl hr =>
    intro tail d left args _
    have hpt : scanPlain t := by
      cases a with
      | mul _ _ => cases ht
      | div _ _ => cases ht
      | par _ => cases ht
      | atom p b x =>
        obtain ⟨t', h1, _, h3⟩ := hp
        rw [ht] at h1; cases h1; exact scanPlain_of_plain _ h3
      | sys n x =>
        obtain ⟨t', h1, _, h3⟩ := hp
        rw [ht] at h1; cases h1; exact scanPlain_of_plain _ h3
      | num t0 =>
        obtain ⟨t', h1, _, h3⟩ := hp
        rw [ht] at h1; cases h1; exact scanPlain_of_plain _ h3
    have hall : scanPlain (l ++ t ++ r) := by
      intro c hc
      rcases List.mem_append.mp hc with h1 | h1
      · rcases List.mem_append.mp h1 with h2 | h2
        · exact scanPlain_of_blank l hl c h2
        · exact hpt c h2
      · exact scanPlain_of_blank r hr c h1
    exact scanPar_plain _ tail d left args hall
  | mul a b s1 s2 _ _ iha ihb =>
    intro tail d left args hd
    have e : s1 ++ '*' :: s2 ++ tail = s1 ++ ('*' :: (s2 ++ tail)) := by simp
    rw [e, iha hp.1 _ d left args hd]
    simp only [scanPar, show ('*' : Char) ≠ '(' by decide, show ('*' : Char) ≠ ')' by decide,
      show ('*' : Char) ≠ ',' by decide, false_and, if_false]
    rw [ihb hp.2 _ d _ args hd]
    simp
  | div a b s1 s2 _ _ iha ihb =>
    intro tail d left args hd
    have e : s1 ++ '/' :: s2 ++ tail = s1 ++ ('/' :: (s2 ++ tail)) := by simp
    rw [e, iha hp.1 _ d left args hd]
    simp only [scanPar, show ('/' : Char) ≠ '(' by decide, show ('/' : Char) ≠ ')' by decide,
      show ('/' : Char) ≠ ',' by decide, false_and, if_false]
    rw [ihb hp.2 _ d _ args hd]
    simp
  | par a s l r hl hr _ ih =>
    intro tail d left args hd
    have e : l ++ '(' :: s ++ ')' :: r ++ tail = l ++ ('(' :: (s ++ (')' :: (r ++ tail)))) := by simp
    rw [e, scanPar_plain l _ d left args (scanPlain_of_blank l hl)]
    simp only [scanPar, if_true]
    rw [ih hp _ (d + 1) _ args (by omega)]
    have hd1 : ¬ (d + 1 = 1) := by omega
    simp only [scanPar, show (')' : Char) ≠ '(' by decide, show (')' : Char) ≠ ',' by decide,
      false_and, if_false, if_true, hd1, Nat.add_sub_cancel]
    rw [scanPar_plain r _ d _ args (scanPlain_of_blank r hr)]
    simp

/-- the argument `OperatorPar` extracts from `( rendering )` is the stripped rendering -/
theorem scanPar_arg {a : U} {s : Str} (h : Renders a s) (hp : a.plainLeaves) (tail : Str) :
    scanPar (s ++ ')' :: tail) 1 [] [] = .ok ([strip s], tail) := by
  rw [scanPar_renders h hp _ 1 [] [] (Nat.le_refl _)]
  simp [scanPar]

/-! ## renderings are closed under `strip` -/

/-- a rendering has a non-blank character: it is blanks, a non-blank, anything — and
    anything, a non-blank, blanks -/
theorem renders_core {a : U} {s : Str} (h : Renders a s) (hp : a.plainLeaves) :
    (∃ u c v, s = u ++ c :: v ∧ blank u ∧ isSpace c = false) ∧
    (∃ v c u, s = v ++ c :: u ∧ blank u ∧ isSpace c = false) := by
  induction h with
  | leaf a t l r ht hl hr =>
    have hpt : t ≠ [] ∧ t.all isPlainChar = true := by
      cases a with
      | mul _ _ => cases ht
      | div _ _ => cases ht
      | par _ => cases ht
      | atom p b x => obtain ⟨t', h1, h2, h3⟩ := hp; rw [ht] at h1; cases h1; exact ⟨h2, h3⟩
      | sys n x => obtain ⟨t', h1, h2, h3⟩ := hp; rw [ht] at h1; cases h1; exact ⟨h2, h3⟩
      | num t0 => obtain ⟨t', h1, h2, h3⟩ := hp; rw [ht] at h1; cases h1; exact ⟨h2, h3⟩
    obtain ⟨hne, hall⟩ := hpt
    rw [List.all_eq_true] at hall
    constructor
    · cases t with
      | nil => exact absurd rfl hne
      | cons c t' =>
        exact ⟨l, c, t' ++ r, by simp, hl, (plain_not_special c (hall c (by simp))).2.2.2.2.2⟩
    · obtain ⟨t', c, rfl⟩ : ∃ t' c, t = t' ++ [c] := by
        rcases List.eq_nil_or_concat t with h0 | ⟨t', c, h0⟩
        · exact absurd h0 hne
        · exact ⟨t', c, by simpa using h0⟩
      exact ⟨l ++ t', c, r, by simp, hr, (plain_not_special c (hall c (by simp))).2.2.2.2.2⟩
  | mul a b s1 s2 _ _ iha ihb =>
    obtain ⟨⟨u, c, v, e1, hu, hc⟩, _⟩ := iha hp.1
    obtain ⟨_, ⟨v2, c2, u2, e2, hu2, hc2⟩⟩ := ihb hp.2
    exact ⟨⟨u, c, v ++ '*' :: s2, by simp [e1], hu, hc⟩, ⟨s1 ++ '*' :: v2, c2, u2, by simp [e2], hu2, hc2⟩⟩
  | div a b s1 s2 _ _ iha ihb =>
    obtain ⟨⟨u, c, v, e1, hu, hc⟩, _⟩ := iha hp.1
    obtain ⟨_, ⟨v2, c2, u2, e2, hu2, hc2⟩⟩ := ihb hp.2
    exact ⟨⟨u, c, v ++ '/' :: s2, by simp [e1], hu, hc⟩, ⟨s1 ++ '/' :: v2, c2, u2, by simp [e2], hu2, hc2⟩⟩
  | par a s l r hl hr _ _ =>
    exact ⟨⟨l, '(', s ++ ')' :: r, by simp, hl, by decide⟩, ⟨l ++ '(' :: s, ')', r, by simp, hr, by decide⟩⟩

theorem dropWhile_blank_prefix (u : Str) (c : Char) (v : Str) (hu : blank u) (hc : isSpace c = false) :
    (u ++ c :: v).dropWhile isSpace = c :: v :=
  (run_then_stop isSpace u c v hu hc).1

theorem dropTrail_blank_suffix (v : Str) (c : Char) (u : Str) (hu : blank u) (hc : isSpace c = false) :
    dropTrail isSpace (v ++ c :: u) = v ++ [c] := by
  have := (trail_of_append isSpace (v ++ [c]) u c hu (by simp) hc).1
  simpa using this

theorem renders_dropLeading {a : U} {s : Str} (h : Renders a s) (hp : a.plainLeaves) :
    Renders a (s.dropWhile isSpace) := by
  induction h with
  | leaf a t l r ht hl hr =>
    obtain ⟨⟨u, c, v, e, hu, hc⟩, _⟩ := renders_core (Renders.leaf a t l r ht hl hr) hp
    -- the first non-blank character is the first character of `t`
    have hpt : ∃ c' t', t = c' :: t' ∧ isSpace c' = false := by
      have key : ∀ t0 : Str, t0 ≠ [] → t0.all isPlainChar = true →
          ∃ c' t', t0 = c' :: t' ∧ isSpace c' = false := by
        intro t0 hne hall
        cases t0 with
        | nil => exact absurd rfl hne
        | cons c' t'' =>
          rw [List.all_eq_true] at hall
          exact ⟨c', t'', rfl, (plain_not_special c' (hall c' (by simp))).2.2.2.2.2⟩
      cases a with
      | mul _ _ => cases ht
      | div _ _ => cases ht
      | par _ => cases ht
      | atom p b x => obtain ⟨t', h1, h2, h3⟩ := hp; rw [ht] at h1; cases h1; exact key _ h2 h3
      | sys n x => obtain ⟨t', h1, h2, h3⟩ := hp; rw [ht] at h1; cases h1; exact key _ h2 h3
      | num t0 => obtain ⟨t', h1, h2, h3⟩ := hp; rw [ht] at h1; cases h1; exact key _ h2 h3
    obtain ⟨c', t', rfl, hc'⟩ := hpt
    have : (l ++ (c' :: t') ++ r).dropWhile isSpace = [] ++ (c' :: t') ++ r := by
      have := dropWhile_blank_prefix l c' (t' ++ r) hl hc'
      simpa using this
    rw [this]
    exact Renders.leaf a (c' :: t') [] r ht blank_nil hr
  | mul a b s1 s2 h1 h2 iha _ =>
    obtain ⟨⟨u, c, v, e, hu, hc⟩, _⟩ := renders_core h1 hp.1
    have e1 : (s1 ++ '*' :: s2).dropWhile isSpace = s1.dropWhile isSpace ++ '*' :: s2 := by
      rw [e]
      have a1 := dropWhile_blank_prefix u c (v ++ '*' :: s2) hu hc
      have a2 := dropWhile_blank_prefix u c v hu hc
      simp only [List.append_assoc, List.cons_append] at a1 ⊢
      rw [a1, a2]; simp
    rw [e1]
    exact Renders.mul a b _ _ (iha hp.1) h2
  | div a b s1 s2 h1 h2 iha _ =>
    obtain ⟨⟨u, c, v, e, hu, hc⟩, _⟩ := renders_core h1 hp.1
    have e1 : (s1 ++ '/' :: s2).dropWhile isSpace = s1.dropWhile isSpace ++ '/' :: s2 := by
      rw [e]
      have a1 := dropWhile_blank_prefix u c (v ++ '/' :: s2) hu hc
      have a2 := dropWhile_blank_prefix u c v hu hc
      simp only [List.append_assoc, List.cons_append] at a1 ⊢
      rw [a1, a2]; simp
    rw [e1]
    exact Renders.div a b _ _ (iha hp.1) h2
  | par a s l r hl hr h _ =>
    have : (l ++ '(' :: s ++ ')' :: r).dropWhile isSpace = [] ++ '(' :: s ++ ')' :: r := by
      have := dropWhile_blank_prefix l '(' (s ++ ')' :: r) hl (by decide)
      simpa using this
    rw [this]
    exact Renders.par a s [] r blank_nil hr h

theorem renders_dropTrailing {a : U} {s : Str} (h : Renders a s) (hp : a.plainLeaves) :
    Renders a (dropTrail isSpace s) := by
  induction h with
  | leaf a t l r ht hl hr =>
    have hpt : ∃ t' c', t = t' ++ [c'] ∧ isSpace c' = false := by
      have key : ∀ t0 : Str, t0 ≠ [] → t0.all isPlainChar = true →
          ∃ t' c', t0 = t' ++ [c'] ∧ isSpace c' = false := by
        intro t0 hne hall
        rcases List.eq_nil_or_concat t0 with h0 | ⟨t', c', h0⟩
        · exact absurd h0 hne
        · rw [List.all_eq_true] at hall
          refine ⟨t', c', by simpa using h0, (plain_not_special c' (hall c' ?_)).2.2.2.2.2⟩
          rw [h0]; simp
      cases a with
      | mul _ _ => cases ht
      | div _ _ => cases ht
      | par _ => cases ht
      | atom p b x => obtain ⟨t', h1, h2, h3⟩ := hp; rw [ht] at h1; cases h1; exact key _ h2 h3
      | sys n x => obtain ⟨t', h1, h2, h3⟩ := hp; rw [ht] at h1; cases h1; exact key _ h2 h3
      | num t0 => obtain ⟨t', h1, h2, h3⟩ := hp; rw [ht] at h1; cases h1; exact key _ h2 h3
    obtain ⟨t', c', rfl, hc'⟩ := hpt
    have : dropTrail isSpace (l ++ (t' ++ [c']) ++ r) = l ++ (t' ++ [c']) ++ [] := by
      have := dropTrail_blank_suffix (l ++ t') c' r hr hc'
      simpa using this
    rw [this]
    exact Renders.leaf a (t' ++ [c']) l [] ht hl blank_nil
  | mul a b s1 s2 h1 h2 _ ihb =>
    obtain ⟨_, ⟨v, c, u, e, hu, hc⟩⟩ := renders_core h2 hp.2
    have e1 : dropTrail isSpace (s1 ++ '*' :: s2) = s1 ++ '*' :: dropTrail isSpace s2 := by
      rw [e]
      have a1 := dropTrail_blank_suffix (s1 ++ '*' :: v) c u hu hc
      have a2 := dropTrail_blank_suffix v c u hu hc
      simp only [List.append_assoc, List.cons_append] at a1 ⊢
      rw [a1, a2]
    rw [e1]
    exact Renders.mul a b _ _ h1 (ihb hp.2)
  | div a b s1 s2 h1 h2 _ ihb =>
    obtain ⟨_, ⟨v, c, u, e, hu, hc⟩⟩ := renders_core h2 hp.2
    have e1 : dropTrail isSpace (s1 ++ '/' :: s2) = s1 ++ '/' :: dropTrail isSpace s2 := by
      rw [e]
      have a1 := dropTrail_blank_suffix (s1 ++ '/' :: v) c u hu hc
      have a2 := dropTrail_blank_suffix v c u hu hc
      simp only [List.append_assoc, List.cons_append] at a1 ⊢
      rw [a1, a2]
    rw [e1]
    exact Renders.div a b _ _ h1 (ihb hp.2)
  | par a s l r hl hr h _ =>
    have : dropTrail isSpace (l ++ '(' :: s ++ ')' :: r) = l ++ '(' :: s ++ ')' :: [] := by
      have := dropTrail_blank_suffix (l ++ '(' :: s) ')' r hr (by decide)
      simpa using this
    rw [this]
    exact Renders.par a s l [] hl blank_nil h

theorem renders_strip {a : U} {s : Str} (h : Renders a s) (hp : a.plainLeaves) : Renders a (strip s) :=
  renders_dropTrailing (renders_dropLeading h hp) hp

end SciVerif.C03
