import SciVerif.Lemmas.C14d
/-!
Tables in the refinement: the main loop on a node list with table lines equals the loop on the
list in which every table line is replaced by its column nodes.
-/
namespace SciVerif.C13

/-- every table line replaced by the column nodes `TableNode.parse` returns -/
def expandAll (P : Params) : List Node → R (List Node)
  | [] => .ok []
  | nd :: t =>
    if nd.kind = .table then do
      let cols ← P.expandTable nd
      if cols.isEmpty then .error .unsupported
      else do
        let rest ← expandAll P t
        .ok (cols ++ rest)
    else do
      let rest ← expandAll P t
      .ok (nd :: rest)

theorem foldSteps_append (P : Params) : ∀ (a b : List Node) (st : State),
    foldSteps P st (a ++ b) = (foldSteps P st a).bind (fun s => foldSteps P s b) := by
  intro a
  induction a with
  | nil => intro b st; rfl
  | cons nd t ih =>
    intro b st
    simp only [List.cons_append, foldSteps, bind, Except.bind]
    cases stepPlain P st nd with
    | error e => rfl
    | ok s => exact ih b s

/-- with all tables expandable the loop is the plain loop on the expanded list … -/
theorem runNodes_expandAll (P : Params) : ∀ (nds nds' : List Node) (st : State),
    expandAll P nds = .ok nds' → runNodes P st nds = foldSteps P st nds' := by
  intro nds
  induction nds with
  | nil => intro nds' st h; simp only [expandAll, Except.ok.injEq] at h; subst h; rfl
  | cons nd t ih =>
    intro nds' st h
    by_cases hk : nd.kind = .table
    · simp only [expandAll, hk, if_true, bind, Except.bind] at h
      cases he : P.expandTable nd with
      | error e => rw [he] at h; cases h
      | ok cols =>
        rw [he] at h
        simp only at h
        by_cases hc : cols.isEmpty = true
        · simp [hc] at h
        · simp only [hc, Bool.false_eq_true, if_false] at h
          cases hr : expandAll P t with
          | error e => rw [hr] at h; cases h
          | ok rest =>
            rw [hr] at h
            simp only [Except.ok.injEq] at h
            subst h
            simp only [runNodes, step, hk, if_true, he, hc, Bool.false_eq_true, if_false, bind, Except.bind,
              foldSteps_append]
            cases foldSteps P st cols with
            | error e => rfl
            | ok s => exact ih rest s hr
    · simp only [expandAll, hk, if_false, bind, Except.bind] at h
      cases hr : expandAll P t with
      | error e => rw [hr] at h; cases h
      | ok rest =>
        rw [hr] at h
        simp only [Except.ok.injEq] at h
        subst h
        simp only [runNodes, step, hk, if_false, foldSteps, bind, Except.bind]
        cases stepPlain P st nd with
        | error e => rfl
        | ok s => exact ih rest s hr

/-- … and a table that cannot be expanded makes the parse fail -/
theorem runNodes_expandAll_error (P : Params) : ∀ (nds : List Node) (st : State) (e : Err),
    expandAll P nds = .error e → ∃ e', runNodes P st nds = .error e' := by
  intro nds
  induction nds with
  | nil => intro st e h; cases h
  | cons nd t ih =>
    intro st e h
    simp only [runNodes, bind, Except.bind]
    cases hs : step P st nd with
    | error e' => exact ⟨e', rfl⟩
    | ok s =>
      simp only
      by_cases hk : nd.kind = .table
      · simp only [expandAll, hk, if_true, bind, Except.bind] at h
        simp only [step, hk, if_true, bind, Except.bind] at hs
        cases he : P.expandTable nd with
        | error e2 => rw [he] at hs; cases hs
        | ok cols =>
          rw [he] at h hs
          simp only at h hs
          by_cases hc : cols.isEmpty = true
          · simp [hc] at hs
          · simp only [hc, Bool.false_eq_true, if_false] at h
            cases hr : expandAll P t with
            | error e3 => exact ih s e3 hr
            | ok rest => rw [hr] at h; cases h
      · simp only [expandAll, hk, if_false, bind, Except.bind] at h
        cases hr : expandAll P t with
        | error e3 => exact ih s e3 hr
        | ok rest => rw [hr] at h; cases h


theorem expandAll_wf (P : Params) : ∀ (nds nds' : List Node),
    (∀ nd ∈ nds, nd.kind ≠ .table → NodeWF nd) →
    (∀ nd ∈ nds, nd.kind = .table → ∀ cols, P.expandTable nd = .ok cols → ∀ c ∈ cols, NodeWF c) →
    expandAll P nds = .ok nds' → ∀ x ∈ nds', NodeWF x := by
  intro nds
  induction nds with
  | nil => intro nds' _ _ h x hx; simp only [expandAll, Except.ok.injEq] at h; subst h; cases hx
  | cons nd t ih =>
    intro nds' hwf hcols h x hx
    have hwf' : ∀ y ∈ t, y.kind ≠ .table → NodeWF y := fun y hy => hwf y (List.mem_cons_of_mem _ hy)
    have hcols' : ∀ y ∈ t, y.kind = .table → ∀ cols, P.expandTable y = .ok cols → ∀ c ∈ cols, NodeWF c :=
      fun y hy => hcols y (List.mem_cons_of_mem _ hy)
    by_cases hk : nd.kind = .table
    · simp only [expandAll, hk, if_true, bind, Except.bind] at h
      cases he : P.expandTable nd with
      | error e => rw [he] at h; cases h
      | ok cols =>
        rw [he] at h
        simp only at h
        by_cases hc : cols.isEmpty = true
        · simp [hc] at h
        · simp only [hc, Bool.false_eq_true, if_false] at h
          cases hr : expandAll P t with
          | error e => rw [hr] at h; cases h
          | ok rest =>
            rw [hr] at h
            simp only [Except.ok.injEq] at h
            subst h
            rcases List.mem_append.mp hx with h1 | h1
            · exact hcols nd (by simp) hk cols he x h1
            · exact ih rest hwf' hcols' hr x h1
    · simp only [expandAll, hk, if_false, bind, Except.bind] at h
      cases hr : expandAll P t with
      | error e => rw [hr] at h; cases h
      | ok rest =>
        rw [hr] at h
        simp only [Except.ok.injEq] at h
        subst h
        rcases List.mem_cons.mp hx with rfl | h1
        · exact hwf x (by simp) hk
        · exact ih rest hwf' hcols' hr x h1

end SciVerif.C13
