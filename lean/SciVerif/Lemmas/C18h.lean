import SciVerif.Lemmas.C18d

/-! Template scanning inverts rendering also for holes that carry a slice `[a:b,c]` (C18):
    decimal rendering of the bounds (`toString`), splitting at commas, entry parser. -/
namespace SciVerif.C18

/-! ### decimal numerals -/

theorem natText_eq (n : Nat) : (toString n).toList = Nat.toDigits 10 n := by
  simp

theorem natText_isDigit (n : Nat) : ∀ c ∈ (toString n).toList, c.isDigit = true := by
  intro c hc
  rw [natText_eq] at hc
  exact Nat.isDigit_of_mem_toDigits (by decide) (by decide) hc

theorem natText_ne_nil (n : Nat) : (toString n).toList ≠ [] := by
  rw [natText_eq]; exact Nat.toDigits_ne_nil

theorem digitsVal_natText (n : Nat) : digitsVal (toString n).toList = n := by
  rw [natText_eq]
  exact Nat.ofDigitChars_ten_toDigits

/-! ### one slice entry -/

/-- a digit is neither `:` nor `,` nor `]` -/
theorem digit_ne (c : Char) (h : c.isDigit = true) : c ≠ ':' ∧ c ≠ ',' ∧ c ≠ ']' := by
  refine ⟨?_, ?_, ?_⟩ <;> (rintro rfl; revert h; decide)

theorem contains_colon_false (ds : List Char) (h : ∀ c ∈ ds, c.isDigit = true) :
    ds.contains ':' = false := by
  rw [Bool.eq_false_iff]
  intro hc
  have := List.contains_iff_mem.mp hc
  exact (digit_ne _ (h _ this)).1 rfl

theorem sliceEntry_digits (ds : List Char) (h : ∀ c ∈ ds, c.isDigit = true) (hne : ds ≠ []) :
    sliceEntry ds = some (.idx (digitsVal ds)) := by
  unfold sliceEntry
  rw [contains_colon_false ds h]
  cases ds with
  | nil => exact absurd rfl hne
  | cons c t => simp

theorem sliceEntry_colon (da db : List Char) (ha : ∀ c ∈ da, c.isDigit = true)
    (hb : ∀ c ∈ db, c.isDigit = true) :
    sliceEntry (da ++ ':' :: db) =
      some (.range (if da.isEmpty then none else some (digitsVal da))
            (if db.isEmpty then none else some (digitsVal db))) := by
  have ht := takeWhile_append_stop (fun c => decide (c ≠ ':')) da ':' db
    (by intro x hx; simpa using (digit_ne x (ha x hx)).1) (by decide)
  unfold sliceEntry
  have hc : (da ++ ':' :: db).contains ':' = true := by simp
  rw [hc]
  simp only [if_true]
  rw [ht.1, ht.2]
  simp only [List.drop_succ_cons, List.drop_zero]
  rw [contains_colon_false db hb]
  simp

theorem renderBound_isDigit (a : Option Nat) : ∀ c ∈ renderBound a, c.isDigit = true := by
  cases a with
  | none => simp [renderBound]
  | some n => exact natText_isDigit n

theorem renderBound_back (a : Option Nat) :
    (if (renderBound a).isEmpty then none else some (digitsVal (renderBound a))) = a := by
  cases a with
  | none => simp [renderBound]
  | some n =>
    have h1 := natText_ne_nil n
    have h2 := digitsVal_natText n
    have h3 : ¬ (toString n).toList.isEmpty = true := by
      cases h : (toString n).toList with
      | nil => exact absurd h h1
      | cons c t => simp
    show (if (toString n).toList.isEmpty = true then none else some (digitsVal (toString n).toList)) = some n
    rw [if_neg h3, h2]

theorem sliceEntry_render (p : SliceEntry) : sliceEntry (renderSlicePart p) = some p := by
  cases p with
  | idx n =>
    simp only [renderSlicePart]
    rw [sliceEntry_digits _ (natText_isDigit n) (natText_ne_nil n), digitsVal_natText]
  | range a b =>
    simp only [renderSlicePart]
    rw [sliceEntry_colon _ _ (renderBound_isDigit _) (renderBound_isDigit _),
      renderBound_back, renderBound_back]

/-- the characters of a rendered entry are digits and `:` -/
theorem renderSlicePart_chars (p : SliceEntry) :
    ∀ c ∈ renderSlicePart p, c.isDigit = true ∨ c = ':' := by
  intro c hc
  cases p with
  | idx n => exact Or.inl (natText_isDigit n c hc)
  | range a b =>
    simp only [renderSlicePart, List.mem_append, List.mem_cons] at hc
    rcases hc with hc | rfl | hc
    · exact Or.inl (renderBound_isDigit _ c hc)
    · exact Or.inr rfl
    · exact Or.inl (renderBound_isDigit _ c hc)

theorem renderSlicePart_ne_nil (p : SliceEntry) : renderSlicePart p ≠ [] := by
  cases p with
  | idx n => exact natText_ne_nil n
  | range a b => simp [renderSlicePart]

/-! ### the whole slice -/

theorem mem_intercalate_comma (ls : List (List Char)) :
    ∀ c ∈ [','].intercalate ls, c = ',' ∨ ∃ l ∈ ls, c ∈ l := by
  induction ls with
  | nil => simp
  | cons a t ih =>
    cases t with
    | nil => intro c hc; right; exact ⟨a, by simp, by simpa using hc⟩
    | cons b t =>
      intro c hc
      rw [List.intercalate_cons_cons] at hc
      simp only [List.mem_append, List.mem_cons, List.not_mem_nil, or_false] at hc
      rcases hc with (hc | rfl) | hc
      · right; exact ⟨a, by simp, hc⟩
      · left; rfl
      · rcases ih c hc with h | ⟨l, hl, hcl⟩
        · left; exact h
        · right; exact ⟨l, by simp [hl], hcl⟩

theorem mapM_sliceEntry_render (l : List SliceEntry) :
    (l.map renderSlicePart).mapM sliceEntry = some l := by
  induction l with
  | nil => rfl
  | cons p t ih => simp [List.mapM_cons, sliceEntry_render, ih]

/-- the slice body (entries joined by commas): made of digits, `:` and `,`, non-empty, and split at
    the commas it gives back the rendered entries -/
theorem sliceBody_spec (l : List SliceEntry) (hl : l ≠ []) :
    let body := [','].intercalate (l.map renderSlicePart)
    (∀ c ∈ body, (decide (c.isDigit = true ∨ c = ':' ∨ c = ',')) = true) ∧ body ≠ [] ∧
      body.splitOn ',' = l.map renderSlicePart := by
  intro body
  have hsplit : body.splitOn ',' = l.map renderSlicePart := by
    apply List.splitOn_intercalate
    · intro x hx hc
      obtain ⟨p, _, rfl⟩ := List.mem_map.mp hx
      rcases renderSlicePart_chars p _ hc with h | h
      · exact (digit_ne _ h).2.1 rfl
      · exact absurd h (by decide)
    · simpa using hl
  refine ⟨?_, ?_, hsplit⟩
  · intro c hc
    rcases mem_intercalate_comma _ c hc with rfl | ⟨x, hx, hcx⟩
    · decide
    · obtain ⟨p, _, rfl⟩ := List.mem_map.mp hx
      rcases renderSlicePart_chars p c hcx with h | rfl
      · simp [h]
      · decide
  · intro hb
    rw [hb] at hsplit
    cases l with
    | nil => exact hl rfl
    | cons p t =>
      have : [[]] = renderSlicePart p :: t.map renderSlicePart := by simpa using hsplit
      have h2 : renderSlicePart p = [] := by
        have := congrArg List.head? this
        simpa using this.symm
      exact renderSlicePart_ne_nil p h2

/-- **the slice parser inverts the slice renderer**, whatever follows the closing bracket -/
theorem parseSlice_render (l : List SliceEntry) (hl : l ≠ []) (more : List Char) :
    parseSlice (renderSlice l ++ more) = some (l, more) := by
  obtain ⟨hch, hne, hsp⟩ := sliceBody_spec l hl
  have ht := takeWhile_append_stop (fun c => decide (c.isDigit = true ∨ c = ':' ∨ c = ','))
    ([','].intercalate (l.map renderSlicePart)) ']' more hch (by decide)
  have hnE : ([','].intercalate (l.map renderSlicePart)).isEmpty = false := by
    cases h : [','].intercalate (l.map renderSlicePart) with
    | nil => exact absurd h hne
    | cons c t => rfl
  simp only [renderSlice, List.cons_append, List.append_assoc, List.nil_append, parseSlice]
  rw [ht.1, ht.2]
  simp only [hnE, hsp, mapM_sliceEntry_render]
  simp

/-- a rendered slice is well formed: the slice parser does not raise on it -/
theorem sliceRaises_render (l : List SliceEntry) (hl : l ≠ []) (more : List Char) :
    sliceRaises (renderSlice l ++ more) = false := by
  obtain ⟨hch, hne, hsp⟩ := sliceBody_spec l hl
  have ht := takeWhile_append_stop (fun c => decide (c.isDigit = true ∨ c = ':' ∨ c = ','))
    ([','].intercalate (l.map renderSlicePart)) ']' more hch (by decide)
  have hnE : ([','].intercalate (l.map renderSlicePart)).isEmpty = false := by
    cases h : [','].intercalate (l.map renderSlicePart) with
    | nil => exact absurd h hne
    | cons c t => rfl
  simp only [renderSlice, List.cons_append, List.append_assoc, List.nil_append, sliceRaises]
  rw [ht.1, ht.2]
  simp only [hnE, hsp, mapM_sliceEntry_render]
  simp

/-! ### scanning a rendered hole with slice -/

theorem renderPieceS_of_noslice (p : Piece) (hp : PieceOK p) : renderPieceS p = renderPiece p := by
  cases p with
  | text c => rfl
  | raise => rfl
  | hole path sl fm =>
    obtain ⟨_, _, rfl, _⟩ := hp
    simp [renderPieceS, renderPiece]

theorem scan_pieceS (fuel : Nat) (p : Piece) (hp : PieceOKS p) (more : List Char) :
    scanTemplate (fuel + 1) (renderPieceS p ++ more) = p :: scanTemplate fuel more := by
  cases p with
  | text c =>
    simp only [PieceOKS] at hp
    simp [renderPieceS, scanTemplate, hp]
  | raise => exact hp.elim
  | hole path sl fm =>
    obtain ⟨hne, hnb, hsl, hfm⟩ := hp
    cases sl with
    | none =>
      have hok : PieceOK (.hole path none fm) := ⟨hne, hnb, rfl, hfm⟩
      rw [renderPieceS_of_noslice _ hok]
      exact scan_piece fuel _ hok more
    | some l =>
      have hl := hsl l rfl
      cases fm with
      | none =>
        have ht := takeWhile_append_stop (fun c => decide (c ≠ '}')) path '}'
          (renderSlice l ++ '}' :: more) (by intro x hx; simpa using hnb x hx) (by decide)
        simp only [renderPieceS, Option.map_some, Option.getD_some, Option.getD_none, List.append_nil,
          List.nil_append, List.cons_append, List.append_assoc,
          scanTemplate, if_true, List.dropWhile_cons_of_neg (show ¬ isWs '{' = true by decide)]
        rw [ht.1, ht.2]
        have hs2 : parseSlice ('}' :: more) = none := parseSlice_none_of_head _ (by simp)
        have hr2 : sliceRaises ('}' :: more) = false := sliceRaises_false_of_head _ (by simp)
        simp [parseSlice_render l hl, sliceRaises_render l hl, hs2, hr2, parseFormat_none_brace, hne]
      | some f =>
        have hfo := hfm f rfl
        obtain ⟨a, b, hfe, _, _, _⟩ := hfo.ex
        have ht := takeWhile_append_stop (fun c => decide (c ≠ '}')) path '}'
          (renderSlice l ++ (f ++ '}' :: more)) (by intro x hx; simpa using hnb x hx) (by decide)
        simp only [renderPieceS, Option.map_some, Option.getD_some, List.nil_append, List.cons_append,
          List.append_assoc,
          scanTemplate, if_true, List.dropWhile_cons_of_neg (show ¬ isWs '{' = true by decide)]
        rw [ht.1, ht.2]
        have hs2 : parseSlice (f ++ '}' :: more) = none := by
          apply parseSlice_none_of_head; rw [hfe]; simp
        have hr2 : sliceRaises (f ++ '}' :: more) = false := by
          apply sliceRaises_false_of_head; rw [hfe]; simp
        simp [parseSlice_render l hl, sliceRaises_render l hl, hs2, hr2, parseFormat_render f more hfo, hne]

theorem renderPieceS_length (p : Piece) (hp : PieceOKS p) : 1 ≤ (renderPieceS p).length := by
  cases p <;> simp [renderPieceS, PieceOKS] at hp ⊢

theorem scan_renderS (ps : List Piece) (hp : ∀ p ∈ ps, PieceOKS p) :
    ∀ fuel, (ps.flatMap renderPieceS).length < fuel → scanTemplate fuel (ps.flatMap renderPieceS) = ps := by
  induction ps with
  | nil => intro fuel _; cases fuel <;> simp [scanTemplate]
  | cons p ps ih =>
    intro fuel hf
    have hp0 := hp p (by simp)
    have hl := renderPieceS_length p hp0
    cases fuel with
    | zero => simp at hf
    | succ n =>
      have hr : (p :: ps).flatMap renderPieceS = renderPieceS p ++ ps.flatMap renderPieceS := by simp
      rw [hr] at hf ⊢
      rw [scan_pieceS n p hp0, ih (fun q hq => hp q (by simp [hq])) n (by rw [List.length_append] at hf; omega)]

/-! ### the produced text -/

/-- specification of one piece of output -/
def pieceOut (hole : HoleFn) : Piece → Option (List Char)
  | .text c => some [c]
  | .hole p sl fm => hole p sl fm
  | .raise => none

theorem assemble_eq (hole : HoleFn) (ps : List Piece) :
    assemble hole ps = (ps.mapM (pieceOut hole)).map List.flatten := by
  induction ps with
  | nil => rfl
  | cons p t ih =>
    cases p with
    | text c =>
      simp only [assemble, ih, List.mapM_cons, pieceOut]
      cases t.mapM (pieceOut hole) <;> simp
    | raise => simp [assemble, List.mapM_cons, pieceOut]
    | hole pa sl fm =>
      simp only [assemble, ih, List.mapM_cons, pieceOut]
      cases hole pa sl fm with
      | none => simp
      | some s => cases t.mapM (pieceOut hole) <;> simp

theorem mapM_pieceOut_ok (hole : HoleFn) (out : Piece → List Char) (ps : List Piece)
    (h : ∀ p ∈ ps, pieceOut hole p = some (out p)) :
    (ps.mapM (pieceOut hole)).map List.flatten = some (ps.flatMap out) := by
  induction ps with
  | nil => rfl
  | cons p t ih =>
    have h0 := h p (by simp)
    have ih' := ih (fun q hq => h q (by simp [hq]))
    cases ht : t.mapM (pieceOut hole) with
    | none => rw [ht] at ih'; simp at ih'
    | some l =>
      rw [ht] at ih'
      simp only [Option.map_some, Option.some.injEq] at ih'
      simp [List.mapM_cons, h0, ht, ih']

theorem mapM_pieceOut_err (hole : HoleFn) (ps : List Piece)
    (h : ∃ p ∈ ps, pieceOut hole p = none) :
    (ps.mapM (pieceOut hole)).map List.flatten = none := by
  induction ps with
  | nil => obtain ⟨p, hp, _⟩ := h; simp at hp
  | cons q t ih =>
    obtain ⟨p, hp, hn⟩ := h
    simp only [List.mem_cons] at hp
    cases hq : pieceOut hole q with
    | none => simp [List.mapM_cons, hq]
    | some s =>
      rcases hp with rfl | hp
      · rw [hn] at hq; cases hq
      · have := ih ⟨p, hp, hn⟩
        cases ht : t.mapM (pieceOut hole) with
        | none => simp [List.mapM_cons, hq, ht]
        | some l => rw [ht] at this; simp at this

/-! ### text that contains `{` -/

/-- a character that the scanner copies: anything but `{`, or a `{` that is neither followed (after
    blanks) by another `{` nor directly by a malformed slice (on which the slice parser raises) -/
def CopyOK (c : Char) (after : List Char) : Prop :=
  c ≠ '{' ∨ ((after.dropWhile isWs).head? ≠ some '{' ∧ sliceRaises after = false)

theorem scan_copy (fuel : Nat) (c : Char) (more : List Char) (h : CopyOK c more) :
    scanTemplate (fuel + 1) (c :: more) = .text c :: scanTemplate fuel more := by
  by_cases hc : c = '{'
  · subst hc
    have h2 : (more.dropWhile isWs).head? ≠ some '{' ∧ sliceRaises more = false := by
      rcases h with h | h
      · exact absurd rfl h
      · exact h
    obtain ⟨h2, h3⟩ := h2
    simp only [scanTemplate, if_true, h3, Bool.false_eq_true, if_false]
    cases hr : more.dropWhile isWs with
    | nil => rfl
    | cons d t =>
      rw [hr] at h2
      have hd : d ≠ '{' := by simpa using h2
      split
      · rename_i heq; simp at heq; exact absurd heq.1 hd
      · rfl
  · simp [scanTemplate, hc]

/-- sequences of pieces in which text may contain `{`: every copied character satisfies `CopyOK`
    with respect to the rendered rest, holes as in `PieceOKS` -/
def PiecesOK : List Piece → Prop
  | [] => True
  | p :: r =>
    (match p with
     | .text c => CopyOK c (r.flatMap renderPieceS)
     | q => PieceOKS q) ∧ PiecesOK r

theorem piecesOK_of_all (ps : List Piece) (h : ∀ p ∈ ps, PieceOKS p) : PiecesOK ps := by
  induction ps with
  | nil => trivial
  | cons p t ih =>
    refine ⟨?_, ih (fun q hq => h q (by simp [hq]))⟩
    have h0 := h p (by simp)
    cases p with
    | text c => exact Or.inl h0
    | hole a b c => exact h0
    | raise => exact h0

theorem scan_renderB (ps : List Piece) (hp : PiecesOK ps) :
    ∀ fuel, (ps.flatMap renderPieceS).length < fuel → scanTemplate fuel (ps.flatMap renderPieceS) = ps := by
  induction ps with
  | nil => intro fuel _; cases fuel <;> simp [scanTemplate]
  | cons p ps ih =>
    intro fuel hf
    obtain ⟨h0, hr⟩ := hp
    cases fuel with
    | zero => simp at hf
    | succ n =>
      have hrr : (p :: ps).flatMap renderPieceS = renderPieceS p ++ ps.flatMap renderPieceS := by simp
      rw [hrr] at hf ⊢
      rw [List.length_append] at hf
      cases p with
      | text c =>
        have hl : (renderPieceS (.text c)).length = 1 := rfl
        show scanTemplate (n + 1) (c :: ps.flatMap renderPieceS) = _
        rw [scan_copy n c _ h0, ih hr n (by omega)]
      | hole a b c =>
        have hl := renderPieceS_length _ h0
        rw [scan_pieceS n _ h0, ih hr n (by omega)]
      | raise => exact h0.elim

/-- a text in which no `{` is followed (after blanks) by another `{` -/
def PlainOK : List Char → Prop
  | [] => True
  | c :: r => CopyOK c r ∧ PlainOK r

theorem plain_render (s : List Char) : (s.map Piece.text).flatMap renderPieceS = s := by
  induction s with
  | nil => rfl
  | cons c t ih => simp only [List.map_cons, List.flatMap_cons, renderPieceS, ih]; rfl

theorem plain_piecesOK (s : List Char) (h : PlainOK s) : PiecesOK (s.map Piece.text) := by
  induction s with
  | nil => trivial
  | cons c t ih =>
    obtain ⟨h0, hr⟩ := h
    refine ⟨?_, ih hr⟩
    show CopyOK c ((t.map Piece.text).flatMap renderPieceS)
    rw [plain_render]; exact h0

theorem plain_out (hole : HoleFn) (s : List Char) :
    ((s.map Piece.text).mapM (pieceOut hole)).map List.flatten = some s := by
  have := mapM_pieceOut_ok hole (fun p => renderPieceS p) (s.map Piece.text)
    (by intro p hp; obtain ⟨c, _, rfl⟩ := List.mem_map.mp hp; rfl)
  rw [this, plain_render]

instance (c : Char) (after : List Char) : Decidable (CopyOK c after) := by
  unfold CopyOK; infer_instance

instance plainDec : (s : List Char) → Decidable (PlainOK s)
  | [] => .isTrue trivial
  | c :: r =>
    have := plainDec r
    (inferInstance : Decidable (CopyOK c r ∧ PlainOK r))

end SciVerif.C18
