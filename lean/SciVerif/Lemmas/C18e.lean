import SciVerif.Model.C18Str

/-!
String level, parenthesis-free fragment (C18): the tokenisation loop of `ExpressionSolver.solve`
turns the text of a flat tree into the tree's token list, provided no operator symbol starts inside
an atom segment and every operator symbol is the first table entry matching at its position.
-/
namespace SciVerif.C18

variable {Q : Type}

/-- trees without parentheses and functions -/
def E.Flat : E (List Char) → Prop
  | .lit _ => True
  | .bin _ l r => l.Flat ∧ r.Flat
  | .pre _ e => e.Flat
  | _ => False

def symOf (table : List OpDef) (k : String) : List Char :=
  ((table.find? (fun d => d.key == k)).map (·.sym)).getD []

/-- Text of a flat tree; an atom is its text *with* the blanks around it (any number). -/
def E.flatText (table : List OpDef) : E (List Char) → List Char
  | .lit a => a
  | .bin o l r => l.flatText table ++ (symOf table o ++ r.flatText table)
  | .pre u e => symOf table u ++ e.flatText table
  | _ => []

/-- the first operator (in dict order) whose symbol prefixes the text -/
def hits (table : List OpDef) (right : List Char) : Option OpDef :=
  table.find? (fun d => d.sym.isPrefixOf right)

/-- no operator symbol starts inside the segment `a` when it is followed by `rest` -/
def Quiet (table : List OpDef) (a rest : List Char) : Prop :=
  ∀ u v, a = u ++ v → v ≠ [] → hits table (v ++ rest) = none

/-- the operator `k` is what the tokeniser finds at the head of `sym k ++ rest` -/
def HitsOp (table : List OpDef) (k : String) (rest : List Char) : Prop :=
  ∃ d, hits table (symOf table k ++ rest) = some d ∧ d.key = k ∧ d.sym = symOf table k ∧
    d.isPar = false ∧ d.sym ≠ []

/-- the side conditions of the flat theorem, relative to the text that follows the tree -/
def E.QuietIn (table : List OpDef) : E (List Char) → List Char → Prop
  | .lit a, rest => strip a ≠ [] ∧ Quiet table a rest
  | .bin o l r, rest => HitsOp table o (r.flatText table ++ rest) ∧
      l.QuietIn table (symOf table o ++ (r.flatText table ++ rest)) ∧ r.QuietIn table rest
  | .pre u e, rest => HitsOp table u (e.flatText table ++ rest) ∧ e.QuietIn table rest
  | _, _ => False

/-- every atom text is accepted by the atom constructor, with value `av` -/
def E.AtomsOK (atom : List Char → Option Q) (av : List Char → Q) : E (List Char) → Prop
  | .lit a => atom (strip a) = some (av a)
  | .bin _ l r => l.AtomsOK atom av ∧ r.AtomsOK atom av
  | .pre _ e => e.AtomsOK atom av
  | _ => False

/-- loop iterations spent on the tree -/
def E.steps : E (List Char) → Nat
  | .lit a => a.length
  | .bin _ l r => l.steps + 1 + r.steps
  | .pre _ e => 1 + e.steps
  | _ => 0

/-- text of the last atom (still in `expr.left` when the tree has been read) -/
def E.pend : E (List Char) → List Char
  | .lit a => a
  | .bin _ _ r => r.pend
  | .pre _ e => e.pend
  | _ => []

/-- tokens appended while reading the tree (all but the last atom) -/
def E.emitted (av : List Char → Q) : E (List Char) → Toks Q
  | .lit _ => []
  | .bin o l r => l.emitted av ++ (.atom (av l.pend) :: .op o :: r.emitted av)
  | .pre u e => .op u :: e.emitted av
  | _ => []

variable (S : Sem Q) (table : List OpDef) (steps : List Step) (atom : List Char → Option Q) (fuel : Nat)

theorem loop_quiet (a rest : List Char) (h : Quiet table a rest) : ∀ (n : Nat) (left : List Char) (toks : Toks Q),
    solveStr.loop S table steps atom fuel (n + a.length) left (a ++ rest) toks =
      solveStr.loop S table steps atom fuel n (a.reverse ++ left) rest toks := by
  induction a with
  | nil => intro n left toks; simp
  | cons c a ih =>
    intro n left toks
    have h0 : hits table ((c :: a) ++ rest) = none := h [] (c :: a) rfl (by simp)
    have hq : Quiet table a rest := fun u v e hv => h (c :: u) v (by simp [e]) hv
    have : n + (c :: a).length = (n + a.length) + 1 := by simp; omega
    rw [this]
    simp only [List.cons_append]
    rw [solveStr.loop]
    simp only [hits, List.cons_append] at h0
    simp only [h0]
    rw [ih hq]
    simp

theorem loop_sym (k : String) (rest : List Char) (h : HitsOp table k rest) (n : Nat) (left : List Char)
    (toks : Toks Q) :
    solveStr.loop S table steps atom fuel (n + 1) left (symOf table k ++ rest) toks =
      (if (strip left.reverse).isEmpty then some toks
        else (atom (strip left.reverse)).map fun q => toks ++ [.atom q]).bind fun t1 =>
      solveStr.loop S table steps atom fuel n [] rest (t1 ++ [.op k]) := by
  obtain ⟨d, hd, hk, hs, hp, hne⟩ := h
  rw [← hs] at hd ⊢
  cases hsym : d.sym with
  | nil => exact absurd hsym hne
  | cons c cs =>
    rw [hsym] at hd
    simp only [List.cons_append]
    rw [solveStr.loop]
    simp only [hits, List.cons_append] at hd
    simp only [hd, hp, hk]
    have hdrop : List.drop d.sym.length (c :: (cs ++ rest)) = rest := by
      rw [hsym]
      have := List.drop_left' (l₁ := c :: cs) (l₂ := rest) rfl
      simpa using this
    simp only [hdrop, Bool.false_eq_true, if_false]
    cases (if (strip left.reverse).isEmpty = true then some toks
      else Option.map (fun q => toks ++ [Tok.atom q]) (atom (strip left.reverse))) <;> rfl

/-- Reading the text of a flat tree from an empty `expr.left`: afterwards the last atom is
    pending in `expr.left` and everything before it has been appended to the token list. -/
theorem loop_flat (av : List Char → Q) (e : E (List Char)) (hf : e.Flat) :
    ∀ (rest : List Char) (n : Nat) (toks : Toks Q), e.QuietIn table rest → e.AtomsOK atom av →
    solveStr.loop S table steps atom fuel (n + e.steps) [] (e.flatText table ++ rest) toks =
      solveStr.loop S table steps atom fuel n e.pend.reverse rest (toks ++ e.emitted av) := by
  induction e with
  | lit a =>
    intro rest n toks hq _
    simpa [E.steps, E.flatText, E.pend, E.emitted] using loop_quiet S table steps atom fuel a rest hq.2 n [] toks
  | par e _ => exact hf.elim
  | fn1 f a _ => exact hf.elim
  | fn2 f a b _ _ => exact hf.elim
  | pre u e ih =>
    intro rest n toks hq ha
    obtain ⟨hh, hqe⟩ := hq
    have : n + (E.pre u e).steps = (n + e.steps) + 1 := by simp [E.steps]; omega
    rw [this]
    simp only [E.flatText, List.append_assoc]
    rw [loop_sym S table steps atom fuel u _ hh]
    simp only [List.reverse_nil, show strip ([] : List Char) = [] from rfl, List.isEmpty_nil, if_true,
      Option.bind_some]
    rw [ih hf _ _ _ hqe ha]
    simp [E.pend, E.emitted]
  | bin o l r ihl ihr =>
    intro rest n toks hq ha
    obtain ⟨hh, hql, hqr⟩ := hq
    obtain ⟨hal, har⟩ := ha
    have : n + (E.bin o l r).steps = ((n + r.steps) + 1) + l.steps := by simp [E.steps]; omega
    rw [this]
    simp only [E.flatText, List.append_assoc]
    rw [ihl hf.1 _ _ _ hql hal]
    rw [loop_sym S table steps atom fuel o _ hh]
    -- the pending atom of `l` is flushed
    have hpl : ∀ (x : E (List Char)), x.Flat → ∀ rest', x.QuietIn table rest' → x.AtomsOK atom av →
        strip x.pend ≠ [] ∧ atom (strip x.pend) = some (av x.pend) := by
      intro x
      induction x with
      | lit a => intro _ rest' hq ha; exact ⟨hq.1, ha⟩
      | par e _ => intro h; exact h.elim
      | fn1 f a _ => intro h; exact h.elim
      | fn2 f a b _ _ => intro h; exact h.elim
      | pre u e ih => intro h rest' hq ha; exact ih h rest' hq.2 ha
      | bin o l r _ ihr => intro h rest' hq ha; exact ihr h.2 rest' hq.2.2 ha.2
    obtain ⟨hne, hat⟩ := hpl l hf.1 _ hql hal
    have hemp : (strip l.pend).isEmpty = false := by
      cases h : strip l.pend with
      | nil => exact absurd h hne
      | cons _ _ => rfl
    simp only [List.reverse_reverse, hemp, Bool.false_eq_true, if_false, hat, Option.map_some,
      Option.bind_some]
    rw [ihr hf.2 _ _ _ hqr har]
    simp [E.pend, E.emitted]

theorem emitted_toks (av : List Char → Q) (sub : E (List Char) → Q) (e : E (List Char)) (hf : e.Flat) :
    e.emitted av ++ [.atom (av e.pend)] = e.toks sub av := by
  induction e with
  | lit a => simp [E.emitted, E.pend, E.toks]
  | par e _ => exact hf.elim
  | fn1 f a _ => exact hf.elim
  | fn2 f a b _ _ => exact hf.elim
  | pre u e ih => simp [E.emitted, E.pend, E.toks, ← ih hf]
  | bin o l r ihl ihr =>
    simp only [E.emitted, E.pend, E.toks, ← ihl hf.1, ← ihr hf.2]
    simp

theorem steps_le (e : E (List Char)) (hf : e.Flat) : ∀ rest, e.QuietIn table rest →
    e.steps ≤ (e.flatText table).length := by
  induction e with
  | lit a => intro _ _; simp [E.steps, E.flatText]
  | par e _ => exact hf.elim
  | fn1 f a _ => exact hf.elim
  | fn2 f a b _ _ => exact hf.elim
  | pre u e ih =>
    intro rest hq
    obtain ⟨⟨d, _, _, hs, _, hne⟩, hqe⟩ := hq
    have := ih hf rest hqe
    have h1 : 1 ≤ (symOf table u).length := by
      rw [← hs]; cases h : d.sym with
      | nil => exact absurd h hne
      | cons _ _ => simp
    simp [E.steps, E.flatText]; omega
  | bin o l r ihl ihr =>
    intro rest hq
    obtain ⟨⟨d, _, _, hs, _, hne⟩, hql, hqr⟩ := hq
    have h1 := ihl hf.1 _ hql
    have h2 := ihr hf.2 _ hqr
    have h3 : 1 ≤ (symOf table o).length := by
      rw [← hs]; cases h : d.sym with
      | nil => exact absurd h hne
      | cons _ _ => simp
    simp [E.steps, E.flatText]; omega

/-- The whole string-level solve of a flat tree is the machine run on the tree's token list. -/
theorem solveStr_flat (av : List Char → Q) (sub : E (List Char) → Q) (e : E (List Char)) (hf : e.Flat)
    (hq : e.QuietIn table []) (ha : e.AtomsOK atom av) :
    solveStr S table steps atom (fuel + 1) (e.flatText table) =
      machine S (table.map (·.key)) steps (e.toks sub av) := by
  have hle := steps_le table e hf [] hq
  have hloop : solveStr.loop S table steps atom fuel ((e.flatText table).length + 1) [] (e.flatText table) [] =
      some (e.toks sub av) := by
    have e1 : (e.flatText table).length + 1 = (((e.flatText table).length - e.steps) + 1) + e.steps := by omega
    have := loop_flat S table steps atom fuel av e hf [] (((e.flatText table).length - e.steps) + 1) [] hq ha
    simp only [List.append_nil] at this
    rw [e1, this, solveStr.loop]
    have hpl : strip e.pend ≠ [] ∧ atom (strip e.pend) = some (av e.pend) := by
      clear this e1 hle
      induction e with
      | lit a => exact ⟨hq.1, ha⟩
      | par e _ => exact hf.elim
      | fn1 f a _ => exact hf.elim
      | fn2 f a b _ _ => exact hf.elim
      | pre u e ih => exact ih hf hq.2 ha
      | bin o l r _ ihr => exact ihr hf.2 hq.2.2 ha.2
    have hemp : (strip e.pend).isEmpty = false := by
      cases h : strip e.pend with
      | nil => exact absurd h hpl.1
      | cons _ _ => rfl
    simp only [List.reverse_reverse, hemp, Bool.false_eq_true, if_false, hpl.2, Option.map_some,
      List.nil_append]
    rw [emitted_toks av sub e hf]
  rw [solveStr]
  simp only [hloop]

/-- decidable form of `Quiet` -/
theorem quiet_of_all (a rest : List Char)
    (h : (List.range a.length).all (fun i => (hits table (a.drop i ++ rest)).isNone) = true) :
    Quiet table a rest := by
  intro u v e hv
  have hlt : u.length < a.length := by
    rw [e, List.length_append]
    cases v with
    | nil => exact absurd rfl hv
    | cons _ _ => simp
  have := (List.all_eq_true.mp h) u.length (List.mem_range.mpr hlt)
  have hd : a.drop u.length = v := by rw [e]; simp
  rw [hd] at this
  simpa [Option.isNone_iff_eq_none] using this

end SciVerif.C18
